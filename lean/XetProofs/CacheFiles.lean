/-
Invariant behind the "every cache file on disk belongs to a tracked entry" part of C13: in every
reachable state a file at an item path is tracked, or some thread still owes its deletion, or a
thread has written it and is about to commit it.
-/
import XetProofs.CacheHit

namespace Xet.Cache

/-! ### what stays tracked -/

theorem mem_swapRemove_or {l : List Cell} {i : Nat} {c : Cell} (hi : i < l.length) (h : c ∈ l) :
    c ∈ swapRemove l i ∨ c = l[i] := by
  have hne : l ≠ [] := by intro e; simp [e] at hi
  obtain ⟨ys, z, rfl⟩ : ∃ ys z, l = ys ++ [z] := ⟨l.dropLast, l.getLast hne, (List.dropLast_concat_getLast hne).symm⟩
  have hl : (ys ++ [z]).getLast? = some z := by simp
  unfold swapRemove
  rw [hl]
  simp only [List.dropLast_concat]
  by_cases hiy : i < ys.length
  · -- the last element moves to position i
    rw [List.mem_append] at h
    rcases h with h | h
    · obtain ⟨j, hj⟩ := List.mem_iff_getElem?.mp h
      by_cases hji : j = i
      · subst hji
        right
        have : (ys ++ [z])[j] = ys[j] := List.getElem_append_left hiy
        rw [this]
        rw [List.getElem?_eq_getElem hiy] at hj
        exact (Option.some.inj hj).symm
      · left
        apply List.mem_iff_getElem?.mpr
        refine ⟨j, ?_⟩
        rw [List.getElem?_set]
        simp [Ne.symm hji, hj]
    · simp at h; subst h; left; exact List.mem_set hiy _
  · have hi' : i = ys.length := by simp at hi; omega
    subst hi'
    rw [List.set_eq_of_length_le (Nat.le_refl _)]
    rw [List.mem_append] at h
    rcases h with h | h
    · exact Or.inl h
    · simp at h; subst h; right; simp

theorem trackedIn_setK_keep {m : Items} {k k' : Key} {v : List Cell} {c : Cell} (h : TrackedIn m k' c) :
    TrackedIn (setK m k v) k' c ∨ (k' = k ∧ c ∈ getK m k) := by
  induction m with
  | nil => obtain ⟨_, hm, _⟩ := h; cases hm
  | cons e rest ih =>
    obtain ⟨q, w⟩ := e
    obtain ⟨v', hm, hc⟩ := h
    by_cases hq : q = k
    · subst hq
      simp only [List.mem_cons] at hm
      rcases hm with hm | hm
      · injection hm with e1 e2; subst e1 e2
        exact Or.inr ⟨rfl, by simp [getK, lookupK, hc]⟩
      · exact Or.inl ⟨v', by simp [setK, hm], hc⟩
    · simp only [List.mem_cons] at hm
      rcases hm with hm | hm
      · injection hm with e1 e2; subst e1 e2
        exact Or.inl ⟨v', by simp [setK, hq], hc⟩
      · rcases ih ⟨v', hm, hc⟩ with ⟨v2, h2, h3⟩ | ⟨e1, e2⟩
        · exact Or.inl ⟨v2, by simp [setK, hq, h2], h3⟩
        · exact Or.inr ⟨e1, by simpa [getK, lookupK, hq] using e2⟩

theorem trackedIn_setK_new {m : Items} {k : Key} {v : List Cell} {c : Cell} (h : c ∈ v) : TrackedIn (setK m k v) k c := by
  induction m with
  | nil => exact ⟨v, by simp [setK], h⟩
  | cons e rest ih =>
    obtain ⟨q, w⟩ := e
    by_cases hq : q = k
    · exact ⟨v, by simp [setK, hq], h⟩
    · obtain ⟨v2, h2, h3⟩ := ih
      exact ⟨v2, by simp [setK, hq, h2], h3⟩

theorem trackedIn_eraseK_keep {m : Items} {k k' : Key} {c : Cell} (h : TrackedIn m k' c) :
    TrackedIn (eraseK m k) k' c ∨ (k' = k ∧ c ∈ getK m k) := by
  induction m with
  | nil => obtain ⟨_, hm, _⟩ := h; cases hm
  | cons e rest ih =>
    obtain ⟨q, w⟩ := e
    obtain ⟨v', hm, hc⟩ := h
    by_cases hq : q = k
    · subst hq
      simp only [List.mem_cons] at hm
      rcases hm with hm | hm
      · injection hm with e1 e2; subst e1 e2
        exact Or.inr ⟨rfl, by simp [getK, lookupK, hc]⟩
      · exact Or.inl ⟨v', by simp [eraseK, hm], hc⟩
    · simp only [List.mem_cons] at hm
      rcases hm with hm | hm
      · injection hm with e1 e2; subst e1 e2
        exact Or.inl ⟨v', by simp [eraseK, hq], hc⟩
      · rcases ih ⟨v', hm, hc⟩ with ⟨v2, h2, h3⟩ | ⟨e1, e2⟩
        · exact Or.inl ⟨v2, by simp [eraseK, hq, h2], h3⟩
        · exact Or.inr ⟨e1, by simpa [getK, lookupK, hq] using e2⟩

/-- an entry with this item is tracked -/
def TrackedItem (st : CState) (k : Key) (it : Item) : Prop := ∃ c, Tracked st k c ∧ c.item = it

theorem keep_removeItemLocked {st st' : CState} {k : Key} {it : Item}
    (h : removeItemLocked st k it = .ok (some st')) :
    ∀ k' c, Tracked st k' c → Tracked st' k' c ∨ (k' = k ∧ c.item = it) := by
  unfold removeItemLocked at h
  split at h
  · cases h; exact fun _ _ h => Or.inl h
  · rename_i cells hk
    split at h
    · cases h
    · rename_i i hi
      split at h
      · cases h
      · cases h
        obtain ⟨c0, hc0, hit⟩ := lookup_indexOf hi
        have hil : i < cells.length := by
          rcases Nat.lt_or_ge i cells.length with hl | hl
          · exact hl
          · rw [List.getElem?_eq_none hl] at hc0; cases hc0
        have hg : getK st.items k = cells := getK_of_lookup hk
        intro k' c ht
        have inCells : c ∈ cells → Tracked
            { st with items := (if (swapRemove cells i).isEmpty then eraseK st.items k else setK st.items k (swapRemove cells i)),
                      totalBytes := st.totalBytes - it.len.toNat, numItems := st.numItems - 1 } k c ∨ c.item = it := by
          intro hc
          rcases mem_swapRemove_or hil hc with h1 | h1
          · left
            dsimp only [Tracked]
            split
            · rename_i he
              have : swapRemove cells i = [] := by simpa using he
              rw [this] at h1; cases h1
            · exact trackedIn_setK_new h1
          · right
            rw [List.getElem?_eq_getElem hil] at hc0
            have : cells[i] = c0 := Option.some.inj hc0
            rw [h1, this]; exact hit
        dsimp only [Tracked]
        split
        · rcases trackedIn_eraseK_keep (k := k) ht with h1 | ⟨e1, e2⟩
          · exact Or.inl h1
          · subst e1
            rw [hg] at e2
            rcases inCells e2 with h2 | h2
            · rename_i he
              dsimp only [Tracked] at h2
              rw [if_pos he] at h2
              exact Or.inl h2
            · exact Or.inr ⟨rfl, h2⟩
        · rcases trackedIn_setK_keep (k := k) (v := swapRemove cells i) ht with h1 | ⟨e1, e2⟩
          · exact Or.inl h1
          · subst e1
            rw [hg] at e2
            rcases inCells e2 with h2 | h2
            · rename_i he
              dsimp only [Tracked] at h2
              rw [if_neg he] at h2
              exact Or.inl h2
            · exact Or.inr ⟨rfl, h2⟩

theorem keep_evictLoop (toRemove : Int) : ∀ (choices : List EvChoice) (st : CState) (removed : Int)
    (acc : List (Key × Item)) (out : EvOut), evictLoop toRemove st removed choices acc = .ok out →
    (∀ k' c, Tracked st k' c → Tracked out.st k' c ∨ (k', c.item) ∈ out.evicted) ∧
    (∀ x ∈ acc, x ∈ out.evicted) := by
  intro choices
  induction choices with
  | nil =>
    intro st removed acc out h
    unfold evictLoop at h
    split at h
    · cases h
    · cases h; exact ⟨fun _ _ h => Or.inl h, fun x hx => by simpa using hx⟩
  | cons ch rest ih =>
    intro st removed acc out h
    obtain ⟨k, i⟩ := ch
    unfold evictLoop at h
    split at h
    · cases h
    · split at h
      · cases h
      · rename_i cells hk
        split at h
        · cases h
        · rename_i c0 hc0
          split at h
          · cases h
          · obtain ⟨a, b⟩ := ih _ _ _ out h
            have hg : getK st.items k = cells := getK_of_lookup hk
            refine ⟨?_, fun x hx => b x (List.mem_cons_of_mem _ hx)⟩
            intro k' c ht
            have inCells : c ∈ cells → Tracked out.st k c ∨ (k, c.item) ∈ out.evicted := by
              intro hc
              by_cases hcc : c = c0
              · subst hcc; exact Or.inr (b _ (by simp))
              · have : c ∈ cells.eraseIdx i := by
                  rw [List.mem_eraseIdx_iff_getElem?]
                  obtain ⟨j, hj⟩ := List.mem_iff_getElem?.mp hc
                  refine ⟨j, ?_, hj⟩
                  intro e; subst e; rw [hj] at hc0; exact hcc (Option.some.inj hc0)
                apply a
                dsimp only [Tracked]
                split
                · rename_i he
                  have he' : cells.eraseIdx i = [] := by simpa using he
                  rw [he'] at this; cases this
                · exact trackedIn_setK_new this
            dsimp only [Tracked] at ht
            by_cases hemp : (cells.eraseIdx i).isEmpty
            · rcases trackedIn_eraseK_keep (k := k) ht with h1 | ⟨e1, e2⟩
              · apply a; dsimp only [Tracked]; rw [if_pos hemp]; exact h1
              · subst e1; rw [hg] at e2; exact inCells e2
            · rcases trackedIn_setK_keep (k := k) (v := cells.eraseIdx i) ht with h1 | ⟨e1, e2⟩
              · apply a; dsimp only [Tracked]; rw [if_neg hemp]; exact h1
              · subst e1; rw [hg] at e2; exact inCells e2

theorem keep_rmStep (fixed : Bool) (new : Item) (acc : RmAcc) (i : Nat) (h : i < acc.cells.length) :
    (∀ c ∈ acc.cells, c ∈ (rmStep fixed new acc i).cells ∨ c.item = new ∨ c.item ∈ (rmStep fixed new acc i).paths) ∧
    (∀ p ∈ acc.paths, p ∈ (rmStep fixed new acc i).paths) := by
  have hc := (rmStep_spec fixed new acc i h).1
  have hp : (∀ p ∈ acc.paths, p ∈ (rmStep fixed new acc i).paths) ∧
      ((acc.cells[i]).item = new ∨ (acc.cells[i]).item ∈ (rmStep fixed new acc i).paths) := by
    unfold rmStep
    rw [List.getElem?_eq_getElem h]
    dsimp only
    split
    · rename_i hne
      split
      · rename_i hin; exact ⟨fun p hp => hp, Or.inr hin⟩
      · exact ⟨fun p hp => List.mem_cons_of_mem _ hp, Or.inr (by simp)⟩
    · rename_i heq
      have : (acc.cells[i]).item = new := by simpa using heq
      split <;> exact ⟨fun p hp => hp, Or.inl this⟩
  refine ⟨?_, hp.1⟩
  intro c hcm
  rw [hc]
  rcases mem_swapRemove_or h hcm with h1 | h1
  · exact Or.inl h1
  · rw [h1]; exact Or.inr hp.2

theorem keep_rmFold (fixed : Bool) (new : Item) : ∀ (is : List Nat) (acc : RmAcc),
    DescBelow acc.cells.length is →
    (∀ c ∈ acc.cells, c ∈ (is.foldl (rmStep fixed new) acc).cells ∨ c.item = new ∨
      c.item ∈ (is.foldl (rmStep fixed new) acc).paths) ∧
    (∀ p ∈ acc.paths, p ∈ (is.foldl (rmStep fixed new) acc).paths) := by
  intro is
  induction is with
  | nil => intro acc _; exact ⟨fun c hc => Or.inl hc, fun p hp => hp⟩
  | cons i rest ih =>
    intro acc hd
    obtain ⟨hi, hrest⟩ := hd
    obtain ⟨k1, k2⟩ := keep_rmStep fixed new acc i hi
    obtain ⟨hl, _⟩ := swapRemove_spec acc.cells i hi
    have hc := (rmStep_spec fixed new acc i hi).1
    have hd' : DescBelow (rmStep fixed new acc i).cells.length rest := by
      rw [hc]; exact hrest.mono (by omega)
    obtain ⟨a, b⟩ := ih (rmStep fixed new acc i) hd'
    simp only [List.foldl_cons]
    refine ⟨?_, fun p hp => b p (k2 p hp)⟩
    intro c hcm
    rcases k1 c hcm with h1 | h1 | h1
    · exact a c h1
    · exact Or.inr (Or.inl h1)
    · exact Or.inr (Or.inr (b _ h1))

theorem keep_removeSubsumed (fixed : Bool) (new : Item) (cells : List Cell) :
    ∀ c ∈ cells, c ∈ (removeSubsumed fixed new cells).cells ∨ c.item = new ∨
      c.item ∈ (removeSubsumed fixed new cells).paths :=
  (keep_rmFold fixed new (subsumedIdx new 0 cells).reverse ⟨cells, 0, []⟩ (subsumedIdx_desc new cells)).1

/-- after the commit of `(k, it)` every entry that was tracked is still tracked, or an entry
    with the same item is (the new one), or its file is on one of the two deletion lists -/
theorem keep_commit {fixed : Bool} {cap : Nat} {st : CState} {k : Key} {it : Item} {choices : List EvChoice}
    {out : CommitOut} (h : commit fixed cap st k it choices = .ok out) :
    TrackedItem out.st k it ∧
    ∀ k' c, Tracked st k' c → TrackedItem out.st k' c.item ∨ (k' = k ∧ c.item ∈ out.subsumed) ∨
      (k', c.item) ∈ out.evicted := by
  unfold commit at h
  dsimp only at h
  split at h
  · cases h
  · split at h
    · cases h
    · cases h
    · rename_i ev hev
      cases h
      obtain ⟨a, _⟩ := keep_evictLoop _ _ _ _ _ _ hev
      have hadd : ∀ k' c, Tracked ev.st k' c → Tracked (addItem ev.st k it) k' c := by
        intro k' c ht
        dsimp only [Tracked, addItem]
        rcases trackedIn_setK_keep (k := k) (v := getK ev.st.items k ++ [⟨it, ev.st.nextId⟩]) ht with h1 | ⟨e1, e2⟩
        · exact h1
        · subst e1; exact trackedIn_setK_new (List.mem_append_left _ e2)
      have hnew : TrackedItem (addItem ev.st k it) k it :=
        ⟨⟨it, ev.st.nextId⟩, by dsimp only [Tracked, addItem]; exact trackedIn_setK_new (by simp), rfl⟩
      refine ⟨hnew, ?_⟩
      intro k' c ht
      -- through the removal of the subsumed entries
      have h1 : Tracked (afterRemove st k (removeSubsumed fixed it (getK st.items k))
          (subsumedIdx it 0 (getK st.items k)).length) k' c ∨ (k' = k ∧ (c.item = it ∨
            c.item ∈ (removeSubsumed fixed it (getK st.items k)).paths)) := by
        dsimp only [Tracked, afterRemove]
        rcases trackedIn_setK_keep (k := k) (v := (removeSubsumed fixed it (getK st.items k)).cells) ht with h1 | ⟨e1, e2⟩
        · exact Or.inl h1
        · subst e1
          rcases keep_removeSubsumed fixed it _ c e2 with h2 | h2 | h2
          · exact Or.inl (trackedIn_setK_new h2)
          · exact Or.inr ⟨rfl, Or.inl h2⟩
          · exact Or.inr ⟨rfl, Or.inr h2⟩
      rcases h1 with h1 | ⟨e1, h1 | h1⟩
      · rcases a k' c h1 with h2 | h2
        · exact Or.inl ⟨c, hadd _ _ h2, rfl⟩
        · exact Or.inr (Or.inr h2)
      · subst e1; rw [h1]; exact Or.inl hnew
      · exact Or.inr (Or.inl ⟨e1, h1⟩)

/-! ### the invariant -/

/-- the thread at `pc` has written the file of `(k, it)` and is about to commit it, or still owes
    its deletion -/
def Owes : PC → Key → Item → Prop
  | .written k' it', k, it => k' = k ∧ it' = it
  | .unlinking k' sub ev, k, it => (k' = k ∧ it ∈ sub) ∨ (k, it) ∈ ev
  | .removing op it', k, it => op.key = k ∧ it' = it
  | _, _, _ => False

def Pending (ts : List PC) (k : Key) (it : Item) : Prop := ∃ (j : Nat) (pc : PC), ts[j]? = some pc ∧ Owes pc k it

/-- every file at an item path is tracked or owed by a thread -/
def FileInv (w : World) : Prop :=
  ∀ k it c, fileAt w.fs (itemPath k it) c → TrackedItem w.st k it ∨ Pending w.threads k it

theorem not_fileAt_unlinkFile (fs : FS) (p : Path) (c : Bytes) : ¬ fileAt (unlinkFile fs p) p c := by
  unfold unlinkFile fileAt
  split
  · rw [FS.get_erase]; simp
  · rename_i hne
    intro h
    exact hne c h

theorem FileInv.update {w : World} (h : FileInv w) {tid : Nat} {old : PC} (hold : w.threads[tid]? = some old)
    (st' : CState) (fs' : FS) (cap' : Nat) (p' : Bool) (pc' : PC)
    (hnew : ∀ k it c, fileAt fs' (itemPath k it) c →
      fileAt w.fs (itemPath k it) c ∨ Owes pc' k it ∨ TrackedItem st' k it)
    (htr : ∀ k it, TrackedItem w.st k it →
      TrackedItem st' k it ∨ Owes pc' k it ∨ ∀ c, ¬ fileAt fs' (itemPath k it) c)
    (howe : ∀ k it, Owes old k it →
      TrackedItem st' k it ∨ Owes pc' k it ∨ ∀ c, ¬ fileAt fs' (itemPath k it) c) :
    FileInv ⟨st', fs', cap', p', w.threads.set tid pc'⟩ := by
  have hlt : tid < w.threads.length := by
    rcases Nat.lt_or_ge tid w.threads.length with hl | hl
    · exact hl
    · rw [List.getElem?_eq_none hl] at hold; cases hold
  have hme : ∀ k it, Owes pc' k it → Pending (w.threads.set tid pc') k it := by
    intro k it ho
    refine ⟨tid, pc', ?_, ho⟩
    rw [List.getElem?_set]; simp [hlt]
  have fin : ∀ k it c, fileAt fs' (itemPath k it) c →
      (TrackedItem st' k it ∨ Owes pc' k it ∨ ∀ c, ¬ fileAt fs' (itemPath k it) c) →
      TrackedItem st' k it ∨ Pending (w.threads.set tid pc') k it := by
    intro k it c hf hx
    rcases hx with h1 | h1 | h1
    · exact Or.inl h1
    · exact Or.inr (hme k it h1)
    · exact absurd hf (h1 c)
  intro k it c hf
  rcases hnew k it c hf with h0 | h0 | h0
  · rcases h k it c h0 with h1 | ⟨j, pc, hj, ho⟩
    · exact fin k it c hf (htr k it h1)
    · by_cases hjt : j = tid
      · subst hjt
        rw [hold] at hj
        cases hj
        exact fin k it c hf (howe k it ho)
      · refine Or.inr ⟨j, pc, ?_, ho⟩
        rw [List.getElem?_set]; simp [Ne.symm hjt, hj]
  · exact Or.inr (hme k it h0)
  · exact Or.inl h0

theorem findSeg_not_owes (w : World) (op : Op) (k : Key) (it : Item) : ¬ Owes (findSeg w op).pc k it := by
  unfold findSeg
  split
  · exact fun h => h
  · split
    · exact fun h => h
    · cases op <;> exact fun h => h

theorem markVerified_items (w : World) (cid : Nat) : (markVerified w cid).st.items = w.st.items :=
  (markVerified_acct w cid).1

/-- thread `tid` (at `old`, owing nothing that is still on disk untracked) runs `find_match` -/
theorem findSeg_files {w : World} (h : FileInv w) {tid : Nat} {old : PC} (hold : w.threads[tid]? = some old) (op : Op)
    (howe : ∀ k it, Owes old k it → TrackedItem w.st k it ∨ ∀ c, ¬ fileAt w.fs (itemPath k it) c) :
    FileInv { (findSeg w op).w with threads := w.threads.set tid (findSeg w op).pc } := by
  have := h.update hold w.st w.fs w.cap w.poisoned (findSeg w op).pc
    (fun k it c hf => Or.inl hf) (fun k it ht => Or.inl ht)
    (fun k it ho => by rcases howe k it ho with h1 | h1; exact Or.inl h1; exact Or.inr (Or.inr h1))
  rw [findSeg_w]
  exact this

theorem removeSeg_files {w : World} (h : FileInv w) {tid : Nat} {old : PC} (hold : w.threads[tid]? = some old)
    (op : Op) (it : Item) (hno : ∀ k it, ¬ Owes old k it) :
    FileInv { (removeSeg w op it).w with threads := w.threads.set tid (removeSeg w op it).pc } := by
  have triv : ∀ p' r, FileInv ⟨w.st, w.fs, w.cap, p', w.threads.set tid (.done r)⟩ := by
    intro p' r
    exact h.update hold w.st w.fs w.cap p' (.done r) (fun k it c hf => Or.inl hf) (fun k it ht => Or.inl ht)
      (fun k it ho => absurd ho (hno k it))
  unfold removeSeg
  split
  · exact triv _ _
  · split
    · exact triv _ _
    · exact triv _ _
    · exact findSeg_files h hold op (fun k it ho => absurd ho (hno k it))
    · rename_i st' hrm
      have hk := keep_removeItemLocked hrm
      exact h.update hold st' w.fs w.cap w.poisoned (.removing op it) (fun k it c hf => Or.inl hf)
        (fun k' it0 ⟨c, ht, hc⟩ => by
          rcases hk k' c ht with h1 | ⟨e1, e2⟩
          · exact Or.inl ⟨c, h1, hc⟩
          · exact Or.inr (Or.inl ⟨e1.symm, by rw [← hc, e2]⟩))
        (fun k it ho => absurd ho (hno k it))

theorem FileInv.markVerified {w : World} (h : FileInv w) (cid : Nat) : FileInv (markVerified w cid) := by
  unfold Xet.Cache.markVerified
  split
  · exact h
  · exact h

theorem getMatchedSeg_files (crc : Bytes → UInt32) {w : World} (h : FileInv w) {tid : Nat} {op : Op} {c : Cell}
    (hold : w.threads[tid]? = some (.matched op c)) :
    FileInv { (getMatchedSeg crc w op c).w with threads := w.threads.set tid (getMatchedSeg crc w op c).pc } := by
  have hno : ∀ k it, ¬ Owes (.matched op c) k it := fun _ _ h => h
  have triv : ∀ (w1 : World) r, FileInv w1 → w1.threads = w.threads →
      FileInv { w1 with threads := w.threads.set tid (.done r) } := by
    intro w1 r h1 ht
    have hold1 : w1.threads[tid]? = some (.matched op c) := by rw [ht]; exact hold
    have := h1.update hold1 w1.st w1.fs w1.cap w1.poisoned (.done r) (fun k it c hf => Or.inl hf)
      (fun k it ht => Or.inl ht) (fun k it ho => absurd ho (hno k it))
    rw [ht] at this
    exact this
  unfold getMatchedSeg
  split
  · exact removeSeg_files h hold op c.item hno
  · exact triv w _ h rfl
  · split
    · exact removeSeg_files h hold op c.item hno
    · dsimp only
      have h1 := h.markVerified c.cid
      have ht := markVerified_threads w c.cid
      have hold1 : (markVerified w c.cid).threads[tid]? = some (.matched op c) := by rw [ht]; exact hold
      split
      · have := removeSeg_files h1 hold1 op c.item hno
        rw [ht] at this
        exact this
      · exact triv _ _ h1 ht

theorem putMatchedSeg_files (crc : Bytes → UInt32) {w : World} (h : FileInv w) {tid : Nat} {op : Op} {c : Cell}
    (offs : List Nat) (data : Bytes) (hold : w.threads[tid]? = some (.matched op c)) :
    FileInv { (putMatchedSeg crc w op offs data c).w with
      threads := w.threads.set tid (putMatchedSeg crc w op offs data c).pc } := by
  have hno : ∀ k it, ¬ Owes (.matched op c) k it := fun _ _ h => h
  have triv : ∀ r, FileInv { w with threads := w.threads.set tid (.done r) } := by
    intro r
    exact h.update hold w.st w.fs w.cap w.poisoned (.done r) (fun k it c hf => Or.inl hf)
      (fun k it ht => Or.inl ht) (fun k it ho => absurd ho (hno k it))
  unfold putMatchedSeg
  split
  · exact removeSeg_files h hold op c.item hno
  · exact triv _
  · split
    · exact removeSeg_files h hold op c.item hno
    · split
      · exact removeSeg_files h hold op c.item hno
      · split
        · exact removeSeg_files h hold op c.item hno
        · dsimp only
          split
          · split
            · split <;> exact triv _
            · exact triv _
          · exact triv _

theorem unlinkNext_owes (w : World) (k : Key) (sub : List Item) (ev : List (Key × Item)) (k0 : Key) (it0 : Item) :
    Owes (unlinkNext w k sub ev).pc k0 it0 ↔ ((k = k0 ∧ it0 ∈ sub) ∨ (k0, it0) ∈ ev) := by
  unfold unlinkNext
  split
  · rename_i he
    simp only [Bool.and_eq_true, List.isEmpty_iff] at he
    obtain ⟨e1, e2⟩ := he
    subst e1 e2
    simp [Owes]
  · simp [Owes]

theorem mem_eraseIdx_or {l : List Item} {i : Nat} {x : Item} (h : x ∈ l) : x ∈ l.eraseIdx i ∨ l[i]? = some x := by
  obtain ⟨j, hj⟩ := List.mem_iff_getElem?.mp h
  by_cases hji : j = i
  · subst hji; exact Or.inr hj
  · exact Or.inl (List.mem_eraseIdx_iff_getElem?.mpr ⟨j, hji, hj⟩)

theorem segment_files (crc : Bytes → UInt32) (fixed : Bool) {w : World} (h : FileInv w) (hw : Weak w.st)
    (hp : w.poisoned = false) {tid : Nat} {pc : PC}
    (o : Oracle) (s : Seg) (hold : w.threads[tid]? = some pc) (hs : segment crc fixed w pc o = some s) :
    FileInv { s.w with threads := w.threads.set tid s.pc } := by
  unfold segment at hs
  split at hs
  · cases hs
  · cases hs
  · split at hs
    · cases hs; exact getMatchedSeg_files crc h hold
    · cases hs; exact putMatchedSeg_files crc h _ _ hold
  · split at hs
    · cases hs
    · rename_i k r offs data
      dsimp only at hs
      split at hs
      · cases hs
        exact h.update hold w.st w.fs w.cap w.poisoned _ (fun k it c hf => Or.inl hf)
          (fun k it ht => Or.inl ht) (fun k it ho => absurd ho (fun x => x))
      · rename_i fs' hw
        cases hs
        exact h.update hold w.st fs' w.cap w.poisoned _
          (fun k' it' c hf => by
            rcases fileAt_writeItemFile hw hf with ⟨hp, _⟩ | ⟨_, hold'⟩
            · obtain ⟨e1, e2⟩ := itemPath_inj hp
              exact Or.inr (Or.inl ⟨e1.symm, e2.symm⟩)
            · exact Or.inl hold')
          (fun k it ht => Or.inl ht) (fun k it ho => absurd ho (fun x => x))
  · rename_i k it
    rw [if_neg (by simp [hp])] at hs
    have hcs := commit_spec fixed w.cap w.st k it o.evict hw
    split at hs
    · cases hs
    · rename_i hpanic
      rw [hpanic] at hcs
      exact False.elim hcs
    · rename_i out hc
      cases hs
      obtain ⟨knew, kold⟩ := keep_commit hc
      have := h.update hold out.st w.fs w.cap w.poisoned (unlinkNext { w with st := out.st } k out.subsumed out.evicted).pc
        (fun k it c hf => Or.inl hf)
        (fun k' it0 ⟨c, ht, hc'⟩ => by
          rcases kold k' c ht with h1 | ⟨e1, e2⟩ | h1
          · exact Or.inl (hc' ▸ h1)
          · exact Or.inr (Or.inl ((unlinkNext_owes _ _ _ _ _ _).mpr (Or.inl ⟨e1.symm, hc' ▸ e2⟩)))
          · exact Or.inr (Or.inl ((unlinkNext_owes _ _ _ _ _ _).mpr (Or.inr (hc' ▸ h1)))))
        (fun k0 it0 ho => by
          obtain ⟨e1, e2⟩ := ho
          subst e1 e2
          exact Or.inl knew)
      rw [unlinkNext_w]
      exact this
  · rename_i k sub ev
    split at hs
    · rename_i it hit
      cases hs
      have := h.update hold w.st (unlinkFile w.fs (itemPath k it)) w.cap w.poisoned
        (unlinkNext { w with fs := unlinkFile w.fs (itemPath k it) } k (sub.eraseIdx o.pick) ev).pc
        (fun k it c hf => Or.inl (fileAt_unlinkFile hf))
        (fun k it ht => Or.inl ht)
        (fun k0 it0 ho => by
          rcases ho with ⟨e1, e2⟩ | e2
          · rcases mem_eraseIdx_or (i := o.pick) e2 with h1 | h1
            · exact Or.inr (Or.inl ((unlinkNext_owes _ _ _ _ _ _).mpr (Or.inl ⟨e1, h1⟩)))
            · rw [hit] at h1
              cases h1
              subst e1
              exact Or.inr (Or.inr (not_fileAt_unlinkFile _ _))
          · exact Or.inr (Or.inl ((unlinkNext_owes _ _ _ _ _ _).mpr (Or.inr e2))))
      rw [unlinkNext_w]
      exact this
    · split at hs
      · cases hs
      · rename_i hsub
        have hse : sub = [] := by simpa using hsub
        subst hse
        split at hs
        · cases hs
        · rename_i ek eit ev'
          cases hs
          have := h.update hold w.st (checkRemoveDir (unlinkFile w.fs (itemPath ek eit)) ek) w.cap w.poisoned
            (unlinkNext { w with fs := checkRemoveDir (unlinkFile w.fs (itemPath ek eit)) ek } k [] ev').pc
            (fun k it c hf => Or.inl (fileAt_unlinkFile (fileAt_checkRemoveDir.mp hf)))
            (fun k it ht => Or.inl ht)
            (fun k0 it0 ho => by
              rcases ho with ⟨_, e2⟩ | e2
              · cases e2
              · simp only [List.mem_cons] at e2
                rcases e2 with e2 | e2
                · injection e2 with e1 e2
                  subst e1 e2
                  exact Or.inr (Or.inr (fun c hf => not_fileAt_unlinkFile _ _ c (fileAt_checkRemoveDir.mp hf)))
                · exact Or.inr (Or.inl ((unlinkNext_owes _ _ _ _ _ _).mpr (Or.inr e2))))
          rw [unlinkNext_w]
          exact this
  · rename_i op it
    cases hs
    have hfs : ∀ q c, fileAt (match FS.get w.fs (itemPath op.key it) with
        | none => w.fs
        | some _ => checkRemoveDir (unlinkFile w.fs (itemPath op.key it)) op.key) q c → fileAt w.fs q c := by
      intro q c hf
      split at hf
      · exact hf
      · exact fileAt_unlinkFile (fileAt_checkRemoveDir.mp hf)
    have hgone : ∀ c, ¬ fileAt (match FS.get w.fs (itemPath op.key it) with
        | none => w.fs
        | some _ => checkRemoveDir (unlinkFile w.fs (itemPath op.key it)) op.key) (itemPath op.key it) c := by
      intro c hf
      split at hf
      · rename_i hn; unfold fileAt at hf; rw [hn] at hf; cases hf
      · exact not_fileAt_unlinkFile _ _ c (fileAt_checkRemoveDir.mp hf)
    have := h.update hold w.st _ w.cap w.poisoned
      (findSeg { w with fs := (match FS.get w.fs (itemPath op.key it) with
        | none => w.fs
        | some _ => checkRemoveDir (unlinkFile w.fs (itemPath op.key it)) op.key) } op).pc
      (fun k it c hf => Or.inl (hfs _ _ hf)) (fun k it ht => Or.inl ht)
      (fun k0 it0 ho => by
        obtain ⟨e1, e2⟩ := ho
        subst e1 e2
        exact Or.inr (Or.inr hgone))
    rw [findSeg_w]
    exact this

/-! ### the lock is never poisoned; segments do not touch the thread list -/

theorem removeSeg_poisoned (w : World) (op : Op) (it : Item) (hw : Weak w.st) (hp : w.poisoned = false) :
    (removeSeg w op it).w.poisoned = false := by
  unfold removeSeg
  rw [if_neg (by simp [hp])]
  have := removeItemLocked_spec w.st op.key it hw
  revert this
  generalize removeItemLocked w.st op.key it = res
  intro h
  match res, h with
  | .ok none, _ => simp only [findSeg_w]; exact hp
  | .ok (some st'), _ => exact hp

theorem removeSeg_threads (w : World) (op : Op) (it : Item) : (removeSeg w op it).w.threads = w.threads := by
  unfold removeSeg
  split
  · rfl
  · split
    · rfl
    · rfl
    · rw [findSeg_w]
    · rfl

theorem markVerified_poisoned (w : World) (cid : Nat) : (markVerified w cid).poisoned = w.poisoned := by
  unfold markVerified; split <;> rfl

theorem getMatchedSeg_poisoned (crc : Bytes → UInt32) (w : World) (op : Op) (c : Cell) (hw : Weak w.st)
    (hp : w.poisoned = false) : (getMatchedSeg crc w op c).w.poisoned = false := by
  unfold getMatchedSeg
  split
  · exact removeSeg_poisoned w _ _ hw hp
  · exact hp
  · split
    · exact removeSeg_poisoned w _ _ hw hp
    · dsimp only
      have hw1 := (markVerified_pres true w c.cid hw).1
      have hp1 := (markVerified_poisoned w c.cid).trans hp
      split
      · exact removeSeg_poisoned _ _ _ hw1 hp1
      · exact hp1

theorem getMatchedSeg_threads (crc : Bytes → UInt32) (w : World) (op : Op) (c : Cell) :
    (getMatchedSeg crc w op c).w.threads = w.threads := by
  unfold getMatchedSeg
  split
  · exact removeSeg_threads _ _ _
  · rfl
  · split
    · exact removeSeg_threads _ _ _
    · dsimp only
      split
      · rw [removeSeg_threads]; exact markVerified_threads _ _
      · exact markVerified_threads _ _

theorem putMatchedSeg_poisoned (crc : Bytes → UInt32) (w : World) (op : Op) (offs : List Nat) (data : Bytes) (c : Cell)
    (hw : Weak w.st) (hp : w.poisoned = false) : (putMatchedSeg crc w op offs data c).w.poisoned = false := by
  unfold putMatchedSeg
  split
  · exact removeSeg_poisoned w _ _ hw hp
  · exact hp
  · split
    · exact removeSeg_poisoned w _ _ hw hp
    · split
      · exact removeSeg_poisoned w _ _ hw hp
      · split
        · exact removeSeg_poisoned w _ _ hw hp
        · dsimp only
          split
          · split
            · split <;> exact hp
            · exact hp
          · exact hp

theorem putMatchedSeg_threads (crc : Bytes → UInt32) (w : World) (op : Op) (offs : List Nat) (data : Bytes) (c : Cell) :
    (putMatchedSeg crc w op offs data c).w.threads = w.threads := by
  unfold putMatchedSeg
  split
  · exact removeSeg_threads _ _ _
  · rfl
  · split
    · exact removeSeg_threads _ _ _
    · split
      · exact removeSeg_threads _ _ _
      · split
        · exact removeSeg_threads _ _ _
        · dsimp only
          split
          · split
            · split <;> rfl
            · rfl
          · rfl

theorem segment_threads (crc : Bytes → UInt32) (fixed : Bool) {w : World} (pc : PC) (o : Oracle) (s : Seg)
    (hs : segment crc fixed w pc o = some s) : s.w.threads = w.threads := by
  unfold segment at hs
  split at hs
  · cases hs
  · cases hs
  · split at hs
    · cases hs; exact getMatchedSeg_threads _ _ _ _
    · cases hs; exact putMatchedSeg_threads _ _ _ _ _ _
  · split at hs
    · cases hs
    · dsimp only at hs
      split at hs <;> (cases hs; rfl)
  · split at hs
    · cases hs; rfl
    · split at hs
      · cases hs
      · cases hs; rfl
      · cases hs; rw [unlinkNext_w]
  · split at hs
    · cases hs; rw [unlinkNext_w]
    · split at hs
      · cases hs
      · split at hs
        · cases hs
        · cases hs; rw [unlinkNext_w]
  · cases hs; rw [findSeg_w]

theorem segment_poisoned (crc : Bytes → UInt32) (fixed : Bool) {w : World} (hw : Weak w.st)
    (hp : w.poisoned = false) (pc : PC) (o : Oracle) (s : Seg) (hs : segment crc fixed w pc o = some s) :
    s.w.poisoned = false := by
  unfold segment at hs
  split at hs
  · cases hs
  · cases hs
  · split at hs
    · cases hs; exact getMatchedSeg_poisoned _ _ _ _ hw hp
    · cases hs; exact putMatchedSeg_poisoned _ _ _ _ _ _ hw hp
  · split at hs
    · cases hs
    · dsimp only at hs
      split at hs
      · cases hs; exact hp
      · cases hs; exact hp
  · rename_i k it
    rw [if_neg (by simp [hp])] at hs
    have hcs := commit_spec fixed w.cap w.st k it o.evict hw
    split at hs
    · cases hs
    · rename_i hpanic
      rw [hpanic] at hcs
      exact False.elim hcs
    · cases hs; rw [unlinkNext_w]; exact hp
  · split at hs
    · cases hs; rw [unlinkNext_w]; exact hp
    · split at hs
      · cases hs
      · split at hs
        · cases hs
        · cases hs; rw [unlinkNext_w]; exact hp
  · cases hs; rw [findSeg_w]; exact hp

theorem startSeg_cases (w : World) (op : Op) : (∃ r, startSeg w op = ⟨w, .done r⟩) ∨ startSeg w op = findSeg w op := by
  unfold startSeg
  split
  · split
    · exact Or.inl ⟨_, rfl⟩
    · exact Or.inr rfl
  · split
    · exact Or.inl ⟨_, rfl⟩
    · exact Or.inr rfl

/-- the combined invariant -/
structure QInv (w : World) : Prop where
  files : FileInv w
  weak : Weak w.st
  lock : w.poisoned = false

theorem step_qinv (crc : Bytes → UInt32) (fixed : Bool) {w w' : World} (h : QInv w) (a : Action)
    (hs : step crc fixed w a = some w') : QInv w' := by
  have hweak := (step_pres crc fixed w w' a h.weak hs).1
  refine ⟨?_, hweak, ?_⟩
  · unfold step at hs
    split at hs
    · rename_i tid op
      have main : ∀ old, w.threads[tid]? = some old → (∀ k it, ¬ Owes old k it) →
          FileInv { (startSeg w op).w with threads := setThread (startSeg w op).w.threads tid (startSeg w op).pc } := by
        intro old hold hno
        unfold setThread
        rcases startSeg_cases w op with ⟨r, e⟩ | e
        · rw [e]
          exact h.files.update hold w.st w.fs w.cap w.poisoned (.done r) (fun k it c hf => Or.inl hf)
            (fun k it ht => Or.inl ht) (fun k it ho => absurd ho (hno k it))
        · rw [e]
          have := findSeg_files h.files hold op (fun k it ho => absurd ho (hno k it))
          rw [findSeg_w] at this ⊢
          exact this
      split at hs
      · rename_i h0; cases hs; exact main _ h0 (fun _ _ x => x)
      · rename_i h0; cases hs; exact main _ h0 (fun _ _ x => x)
      · cases hs
    · rename_i tid o
      split at hs
      · cases hs
      · rename_i pc hpc
        split at hs
        · cases hs
        · rename_i s hseg
          cases hs
          have := segment_files crc fixed h.files h.weak h.lock o s hpc hseg
          unfold setThread
          rw [segment_threads crc fixed pc o s hseg]
          exact this
  · unfold step at hs
    split at hs
    · split at hs
      · cases hs; simp only [startSeg_w]; exact h.lock
      · cases hs; simp only [startSeg_w]; exact h.lock
      · cases hs
    · split at hs
      · cases hs
      · split at hs
        · cases hs
        · rename_i s hseg
          cases hs
          exact segment_poisoned crc fixed h.weak h.lock _ _ s hseg

theorem run_qinv (crc : Bytes → UInt32) (fixed : Bool) : ∀ (as : List Action) (w w' : World),
    QInv w → run crc fixed w as = some w' → QInv w' := by
  intro as
  induction as with
  | nil => intro w w' h hr; simp [run] at hr; subst hr; exact h
  | cons a as ih =>
    intro w w' h hr
    unfold run at hr
    split at hr
    · cases hr
    · rename_i w1 h1
      exact ih w1 w' (step_qinv crc fixed h a h1) hr

/-- at a quiescent point nothing is owed -/
theorem not_pending_of_quiescent {w : World} (hq : quiescent w = true) (k : Key) (it : Item) :
    ¬ Pending w.threads k it := by
  intro ⟨j, pc, hj, ho⟩
  unfold quiescent at hq
  rw [List.all_eq_true] at hq
  have := hq pc (List.mem_of_getElem? hj)
  cases pc <;> simp_all [Owes]

/-! ### no panic outcome -/

theorem findSeg_pc_ne_panic (w : World) (op : Op) : (findSeg w op).pc ≠ .done .panic := by
  unfold findSeg
  split
  · intro e; cases e
  · split
    · intro e; cases e
    · cases op <;> (intro e; cases e)

theorem removeSeg_pc_ne_panic (w : World) (op : Op) (it : Item) (hw : Weak w.st) :
    (removeSeg w op it).pc ≠ .done .panic := by
  unfold removeSeg
  split
  · intro e; cases e
  · have := removeItemLocked_spec w.st op.key it hw
    revert this
    generalize removeItemLocked w.st op.key it = res
    intro h
    match res, h with
    | .ok none, _ => exact findSeg_pc_ne_panic _ _
    | .ok (some st'), _ => intro e; cases e

theorem getRange_ne_panic (hdr : List Nat) (content : Bytes) (r : Range) (start : UInt32) :
    getRange hdr content r start ≠ .panic := by
  unfold getRange
  dsimp only
  split
  · split <;> (intro e; cases e)
  · intro e; cases e

theorem getMatchedSeg_pc_ne_panic (crc : Bytes → UInt32) (w : World) (op : Op) (c : Cell) (hw : Weak w.st) :
    (getMatchedSeg crc w op c).pc ≠ .done .panic := by
  unfold getMatchedSeg
  split
  · exact removeSeg_pc_ne_panic w _ _ hw
  · intro e; cases e
  · split
    · exact removeSeg_pc_ne_panic w _ _ hw
    · dsimp only
      split
      · exact removeSeg_pc_ne_panic _ _ _ (markVerified_pres true w c.cid hw).1
      · intro e
        injection e with e
        exact getRange_ne_panic _ _ _ _ e

/-- the directory scan after the F14 fix has no panic outcome, whatever is in the directory -/
theorem scanKeyDirs_ok (cap : Nat) (order : List Path) (d1 : Name) : ∀ (ps : List Path) (s : ScanSt),
    (scanKeyDirs true cap order d1 ps s).res = .ok := by
  intro ps
  induction ps with
  | nil => intro s; rfl
  | cons p ps ih =>
    intro s
    unfold scanKeyDirs
    split
    · exact ih s
    · dsimp only
      split
      · simp only [if_true]; exact ih s
      · split
        · simp only [if_true]; exact ih s
        · exact ih s
        · split
          · rfl
          · split
            · exact ih _
            · exact ih _

theorem scanPrefixDirs_ok (cap : Nat) (order : List Path) : ∀ (ps : List Path) (s : ScanSt),
    (scanPrefixDirs true cap order ps s).res = .ok := by
  intro ps
  induction ps with
  | nil => intro s; rfl
  | cons p ps ih =>
    intro s
    unfold scanPrefixDirs
    dsimp only
    split
    · exact ih s
    · have := scanKeyDirs_ok cap order (p.getLast?.getD []) (childrenIn s.fs order p) s
      split
      · rename_i hp; rw [this] at hp; cases hp
      · split
        · exact this
        · exact ih _

/-! ### kinds of damage that are `Detectable` -/

theorem Detectable.refl (crc : Bytes → UInt32) (fs : FS) : Detectable crc fs fs := fun _ _ _ h _ => h

theorem Detectable.trans {crc : Bytes → UInt32} {a b c : FS} (h1 : Detectable crc a b) (h2 : Detectable crc b c) :
    Detectable crc a c := fun k it x hf hc => h1 k it x (h2 k it x hf hc) hc

/-- deleting any entry (file or directory) -/
theorem Detectable.erase (crc : Bytes → UInt32) (fs : FS) (p : Path) : Detectable crc fs (FS.erase fs p) :=
  fun _ _ _ hf _ => fileAt_erase hf

/-- creating a directory anywhere -/
theorem Detectable.mkdir (crc : Bytes → UInt32) (fs : FS) (p : Path) : Detectable crc fs (FS.mkdir fs p) :=
  fun _ _ _ hf _ => fileAt_mkdir.mp hf

/-- writing any content to any path (overwriting, truncating, extending, flipping bits, planting a
    file, renaming = delete + write …) as long as the result is not a CRC-consistent item file:
    either the path is not an item path, or the CRC of the content differs from the CRC field -/
theorem Detectable.write (crc : Bytes → UInt32) (fs : FS) (p : Path) (c : Bytes)
    (hbad : ∀ k it, p = itemPath k it → crc c ≠ it.crc) : Detectable crc fs (FS.put fs p (.file c)) := by
  intro k it x hf hc
  unfold fileAt at hf
  rw [FS.get_put] at hf
  by_cases hp : p = itemPath k it
  · simp [hp] at hf
    subst hf
    exact absurd hc (hbad k it hp)
  · simp [hp] at hf
    exact hf

theorem cmpLens_ne_panic (hdr offs : List Nat) : ∀ (n i j : Nat), i + n < hdr.length →
    cmpLens hdr offs n i j ≠ .panic := by
  intro n
  induction n with
  | zero => intro i j _; unfold cmpLens; intro e; cases e
  | succ n ih =>
    intro i j h
    unfold cmpLens
    have h1 : hdr[i+1]? = some hdr[i+1] := List.getElem?_eq_getElem (by omega)
    have h0 : hdr[i]? = some hdr[i] := List.getElem?_eq_getElem (by omega)
    rw [h1, h0]
    dsimp only
    split
    · intro e; cases e
    · exact ih (i+1) (j+1) (by omega)

/-- `validate_match` cannot index the stored header out of range when the stored file is the
    reference file of a covering entry (which the CRC check guarantees in reachable states) -/
theorem putMatchedSeg_pc_ne_panic {crc : Bytes → UInt32} {X : Ref} {w : World} (h : Inv12 crc X w) (hX : RefOK X)
    (hw : Weak w.st) (op : Op) (offs : List Nat) (data : Bytes) (c : Cell)
    (hmem : PC.matched op c ∈ w.threads) :
    (putMatchedSeg crc w op offs data c).pc ≠ .done .panic := by
  have hpc := h.pcs _ hmem
  have hcov : covers op.range c = true := hpc.2
  unfold putMatchedSeg
  split
  · exact removeSeg_pc_ne_panic w _ _ hw
  · intro e; cases e
  · rename_i content hget
    split
    · exact removeSeg_pc_ne_panic w _ _ hw
    · split
      · exact removeSeg_pc_ne_panic w _ _ hw
      · rename_i hcrc
        have hcrc' : crc content = c.item.crc := by simpa using hcrc
        obtain ⟨g1, g2, g3⟩ := h.good op.key c.item content hget hcrc'
        split
        · exact removeSeg_pc_ne_panic w _ _ hw
        · rename_i hdr hph
          have hne : ∀ x ∈ sub (X op.key) c.item.start.toNat c.item.stop.toNat, x ≠ [] :=
            fun x hx => hX.nonEmpty op.key x (mem_sub hx)
          have hsz : (sub (X op.key) c.item.start.toNat c.item.stop.toNat).flatten.length + 1 < 4294967296 := by
            have := sub_flatten_le (X op.key) c.item.start.toNat c.item.stop.toNat
            have := hX.size op.key
            omega
          have hh : hdr = offsOf (sub (X op.key) c.item.start.toNat c.item.stop.toNat) := by
            have := parseHeader_encodeFile _ (sub (X op.key) c.item.start.toNat c.item.stop.toNat).flatten hne hsz
            rw [g3] at hph
            unfold encodeFile at hph
            rw [this] at hph
            exact (Option.some.inj hph).symm
          have hlen : hdr.length = c.item.stop.toNat - c.item.start.toNat + 1 := by
            rw [hh, offsOf_length, sub_length _ _ _ g2]
          simp only [covers, Bool.and_eq_true, decide_eq_true_eq] at hcov
          have hr : op.range.start.toNat < op.range.stop.toNat := by
            have := hpc.1
            cases op with
            | get k r => exact this
            | put k r offs data => exact this.1
          have hc1 := hcov.1
          have hc2 := hcov.2
          have hcl := cmpLens_ne_panic hdr offs
            (op.range.stop.toNat - c.item.start.toNat + 1 - 1 - (op.range.start.toNat - c.item.start.toNat))
            (op.range.start.toNat - c.item.start.toNat) 0 (by omega)
          dsimp only
          split
          · split
            · split <;> (intro e; cases e)
            · intro e
              injection e with e
              exact getRange_ne_panic _ _ _ _ e
          · intro e
            injection e with e
            exact hcl e

/-- no segment ends in a panic in a state that satisfies the invariants -/
theorem segment_pc_ne_panic {crc : Bytes → UInt32} {X : Ref} {w : World} (h : Inv12 crc X w) (hX : RefOK X)
    (hw : Weak w.st) (fixed : Bool) (pc : PC) (o : Oracle) (s : Seg) (hmem : pc ∈ w.threads)
    (hs : segment crc fixed w pc o = some s) : s.pc ≠ .done .panic := by
  unfold segment at hs
  split at hs
  · cases hs
  · cases hs
  · split at hs
    · cases hs; exact getMatchedSeg_pc_ne_panic crc w _ _ hw
    · cases hs; exact putMatchedSeg_pc_ne_panic h hX hw _ _ _ _ hmem
  · split at hs
    · cases hs
    · dsimp only at hs
      split at hs <;> (cases hs; intro e; cases e)
  · rename_i k it
    split at hs
    · cases hs; intro e; cases e
    · have hcs := commit_spec fixed w.cap w.st k it o.evict hw
      split at hs
      · cases hs
      · rename_i hpanic
        rw [hpanic] at hcs
        exact False.elim hcs
      · cases hs
        unfold unlinkNext
        split <;> (intro e; cases e)
  · split at hs
    · cases hs; unfold unlinkNext; split <;> (intro e; cases e)
    · split at hs
      · cases hs
      · split at hs
        · cases hs
        · cases hs; unfold unlinkNext; split <;> (intro e; cases e)
  · cases hs; exact findSeg_pc_ne_panic _ _

theorem startSeg_pc_ne_panic (w : World) (op : Op) : (startSeg w op).pc ≠ .done .panic := by
  rcases startSeg_cases w op with ⟨r, e⟩ | e
  · unfold startSeg at e ⊢
    split
    · split
      · intro e'; cases e'
      · exact findSeg_pc_ne_panic _ _
    · split
      · intro e'; cases e'
      · exact findSeg_pc_ne_panic _ _
  · rw [e]; exact findSeg_pc_ne_panic _ _

/-- a step never makes a thread end in a panic -/
theorem step_no_new_panic {crc : Bytes → UInt32} {X : Ref} {w w' : World} (h : Inv12 crc X w) (hX : RefOK X)
    (hw : Weak w.st) (fixed : Bool) (a : Action) (hs : step crc fixed w a = some w') (j : Nat)
    (hj : w'.threads[j]? = some (.done .panic)) : w.threads[j]? = some (.done .panic) := by
  unfold step at hs
  split at hs
  · rename_i tid op
    have main : ∀ old, w.threads[tid]? = some old →
        w' = { (startSeg w op).w with threads := setThread (startSeg w op).w.threads tid (startSeg w op).pc } →
        w.threads[j]? = some (.done .panic) := by
      intro old hold e
      subst e
      simp only [setThread, startSeg_w] at hj
      rw [List.getElem?_set] at hj
      by_cases hjt : tid = j
      · subst hjt
        have hlt : tid < w.threads.length := by
          rcases Nat.lt_or_ge tid w.threads.length with hl | hl
          · exact hl
          · rw [List.getElem?_eq_none hl] at hold; cases hold
        simp [hlt] at hj
        exact absurd hj (startSeg_pc_ne_panic w op)
      · simpa [hjt] using hj
    split at hs
    · rename_i h0; cases hs; exact main _ h0 rfl
    · rename_i h0; cases hs; exact main _ h0 rfl
    · cases hs
  · rename_i tid o
    split at hs
    · cases hs
    · rename_i pc hpc
      split at hs
      · cases hs
      · rename_i s hseg
        cases hs
        simp only [setThread, segment_threads crc fixed pc o s hseg] at hj
        rw [List.getElem?_set] at hj
        by_cases hjt : tid = j
        · subst hjt
          have hlt : tid < w.threads.length := by
            rcases Nat.lt_or_ge tid w.threads.length with hl | hl
            · exact hl
            · rw [List.getElem?_eq_none hl] at hpc; cases hpc
          simp [hlt] at hj
          exact absurd hj (segment_pc_ne_panic h hX hw fixed pc o s (List.mem_of_getElem? hpc) hseg)
        · simpa [hjt] using hj

/-! ### the initial state -/

/-- a freshly created cache directory with `nthreads` idle threads -/
def World.fresh (cap : Nat) (nthreads : Nat) : World :=
  ⟨CState.empty, [], cap, false, List.replicate nthreads .idle⟩

theorem qinv_fresh (cap n : Nat) : QInv (World.fresh cap n) := by
  refine ⟨?_, ⟨rfl, Nat.le_refl _⟩, rfl⟩
  intro k it c hf
  simp [fileAt, World.fresh, FS.get] at hf

end Xet.Cache
