/-
Helper lemmas for C08 (xorb validators: soundness, completeness, totality).
Model: `XetModel/XorbFormat.lean`.  Core Lean only.
-/
import XetProofs.XorbFormat
import XetProofs.Merkle

namespace Xet.Xorb

/-! ## 1. cursor steps: byte accounting -/

theorem Cur.readN_ok {c c' : Cur} {n : Nat} {v : Bytes} (h : c.readN n = .ok (v, c')) :
    c'.pos = c.pos + n ∧ c'.rest.length + n = c.rest.length ∧ v.length = n := by
  unfold Cur.readN at h
  split at h
  · cases h
  · simp only [Except.ok.injEq, Prod.mk.injEq] at h
    obtain ⟨rfl, rfl⟩ := h
    simp only [List.length_drop, List.length_take]
    refine ⟨trivial, ?_, ?_⟩ <;> omega

theorem Cur.readU8_ok {c c' : Cur} {v : Nat} (h : c.readU8 = .ok (v, c')) :
    c'.pos = c.pos + 1 ∧ c'.rest.length + 1 = c.rest.length := by
  unfold Cur.readU8 at h
  split at h
  · rename_i b r hr
    simp only [Except.ok.injEq, Prod.mk.injEq] at h
    obtain ⟨_, rfl⟩ := h
    simp [hr]
  · cases h

theorem Cur.readU32_ok {c c' : Cur} {v : Nat} (h : c.readU32 = .ok (v, c')) :
    c'.pos = c.pos + 4 ∧ c'.rest.length + 4 = c.rest.length ∧ v < 2 ^ 32 := by
  unfold Cur.readU32 at h
  split at h
  · rename_i a b x d r hr
    simp only [Except.ok.injEq, Prod.mk.injEq] at h
    obtain ⟨rfl, rfl⟩ := h
    exact ⟨rfl, by simp [hr], ofLe32_lt _ _ _ _⟩
  · cases h

theorem Cur.readHash_ok {c c' : Cur} {v : Hash} (h : c.readHash = .ok (v, c')) :
    c'.pos = c.pos + 32 ∧ c'.rest.length + 32 = c.rest.length := by
  unfold Cur.readHash at h
  split at h
  · cases h
  · simp only [Except.ok.injEq, Prod.mk.injEq] at h
    obtain ⟨_, rfl⟩ := h
    simp only [List.length_drop]
    refine ⟨trivial, ?_⟩; omega

theorem readU32s_ok (n : Nat) (c c' : Cur) (acc l : List Nat) (h : readU32s n c acc = .ok (l, c')) :
    l.length = acc.length + n ∧ c'.pos = c.pos + 4 * n ∧ c'.rest.length + 4 * n = c.rest.length := by
  induction n generalizing c acc with
  | zero =>
    simp only [readU32s, Except.ok.injEq, Prod.mk.injEq] at h
    obtain ⟨rfl, rfl⟩ := h
    simp
  | succ n ih =>
    simp only [readU32s] at h
    split at h
    · rename_i v c1 h1
      have s := Cur.readU32_ok h1
      have := ih c1 (v :: acc) h
      simp only [List.length_cons] at this
      omega
    · cases h

theorem readHashes_ok (n : Nat) (c c' : Cur) (acc l : List Hash) (h : readHashes n c acc = .ok (l, c')) :
    l.length = acc.length + n ∧ c'.pos = c.pos + 32 * n ∧ c'.rest.length + 32 * n = c.rest.length := by
  induction n generalizing c acc with
  | zero =>
    simp only [readHashes, Except.ok.injEq, Prod.mk.injEq] at h
    obtain ⟨rfl, rfl⟩ := h
    simp
  | succ n ih =>
    simp only [readHashes] at h
    split at h
    · rename_i v c1 h1
      have s := Cur.readHash_ok h1
      have := ih c1 (v :: acc) h
      simp only [List.length_cons] at this
      omega
    · cases h

/-- what a successful V1 body parse guarantees -/
structure V1Spec (c0 : Cur) (r : InfoRead) : Prop where
  hashesLen : r.info.hashes.length = r.info.numChunks
  bndLen : r.info.boundaries.length = r.info.numChunks
  unpLen : r.info.unpacked.length = r.info.numChunks
  bv : r.info.boundariesVersion = boundariesVersion
  bytesRead : r.bytesRead = c0.pos + 84 + 40 * r.info.numChunks
  restLen : r.rest.length + 84 + 40 * r.info.numChunks = c0.rest.length

theorem parseInfoV1Body_spec (c0 : Cur) (r : InfoRead) (h : parseInfoV1Body c0 = .ok r) : V1Spec c0 r := by
  simp only [parseInfoV1Body, bind, Except.bind] at h
  split at h; · cases h
  rename_i v0 e0
  split at h; · cases h
  rename_i v1 e1
  split at h; · cases h
  split at h; · cases h
  rename_i v2 e2
  split at h; · cases h
  split at h; · cases h
  rename_i v3 e3
  split at h; · cases h
  rename_i v4 e4
  split at h; · cases h
  rename_i v5 e5
  split at h; · cases h
  split at h; · cases h
  rename_i v6 e6
  split at h; · cases h
  split at h; · cases h
  rename_i v7 e7
  split at h; · cases h
  split at h; · cases h
  rename_i v8 e8
  split at h; · cases h
  rename_i v9 e9
  split at h; · cases h
  rename_i v10 e10
  split at h; · cases h
  split at h; · cases h
  rename_i v11 e11
  split at h; · cases h
  rename_i v12 e12
  split at h; · cases h
  rename_i v13 e13
  split at h; · cases h
  split at h; · cases h
  have s0 := Cur.readHash_ok (v := v0.1) (c' := v0.2) e0
  have s1 := Cur.readN_ok (v := v1.1) (c' := v1.2) e1
  have s2 := Cur.readU8_ok (v := v2.1) (c' := v2.2) e2
  have s3 := Cur.readU32_ok (v := v3.1) (c' := v3.2) e3
  have s4 := readHashes_ok _ _ v4.2 _ v4.1 e4
  have s5 := Cur.readN_ok (v := v5.1) (c' := v5.2) e5
  have s6 := Cur.readU8_ok (v := v6.1) (c' := v6.2) e6
  have s7 := Cur.readU32_ok (v := v7.1) (c' := v7.2) e7
  have s8 := readU32s_ok _ _ v8.2 _ v8.1 e8
  have s9 := readU32s_ok _ _ v9.2 _ v9.1 e9
  have s10 := Cur.readU32_ok (v := v10.1) (c' := v10.2) e10
  have s11 := Cur.readU32_ok (v := v11.1) (c' := v11.2) e11
  have s12 := Cur.readU32_ok (v := v12.1) (c' := v12.2) e12
  have s13 := Cur.readN_ok (v := v13.1) (c' := v13.2) e13
  cases h
  simp only [List.length_nil] at s4 s8 s9
  constructor <;> simp only [] <;> omega

/-- what a successful V0 body parse guarantees -/
structure V0Spec (c0 : Cur) (r : InfoRead) : Prop where
  hashesLen : r.info.hashes.length = r.info.numChunks
  bndLen : r.info.boundaries.length = r.info.numChunks
  unp : r.info.unpacked = []
  bv : r.info.boundariesVersion = boundariesVersionNoUnpacked
  bytesRead : r.bytesRead = c0.pos + 52 + 36 * r.info.numChunks
  restLen : r.rest.length + 52 + 36 * r.info.numChunks = c0.rest.length

theorem parseInfoV0Body_spec (c0 : Cur) (r : InfoRead) (h : parseInfoV0Body c0 = .ok r) : V0Spec c0 r := by
  simp only [parseInfoV0Body, bind, Except.bind] at h
  split at h; · cases h
  rename_i v0 e0
  split at h; · cases h
  rename_i v1 e1
  split at h; · cases h
  rename_i v2 e2
  split at h; · cases h
  rename_i v3 e3
  split at h; · cases h
  rename_i v4 e4
  have s0 := Cur.readHash_ok (v := v0.1) (c' := v0.2) e0
  have s1 := Cur.readU32_ok (v := v1.1) (c' := v1.2) e1
  have s2 := readU32s_ok _ _ v2.2 _ v2.1 e2
  have s3 := readHashes_ok _ _ v3.2 _ v3.1 e3
  have s4 := Cur.readN_ok (v := v4.1) (c' := v4.2) e4
  cases h
  simp only [List.length_nil] at s2 s3
  constructor <;> simp only [] <;> omega

/-! error classes of the cursor steps: only `eof` -/

theorem Cur.readN_err {c : Cur} {n : Nat} {e : Err} (h : c.readN n = .error e) : e = .eof := by
  unfold Cur.readN at h
  split at h
  · cases h; rfl
  · cases h

theorem Cur.readU8_err {c : Cur} {e : Err} (h : c.readU8 = .error e) : e = .eof := by
  unfold Cur.readU8 at h
  split at h
  · cases h
  · cases h; rfl

theorem Cur.readU32_err {c : Cur} {e : Err} (h : c.readU32 = .error e) : e = .eof := by
  unfold Cur.readU32 at h
  split at h
  · cases h
  · cases h; rfl

theorem Cur.readHash_err {c : Cur} {e : Err} (h : c.readHash = .error e) : e = .eof := by
  unfold Cur.readHash at h
  split at h
  · cases h; rfl
  · cases h

theorem readU32s_err (n : Nat) (c : Cur) (acc : List Nat) (e : Err) (h : readU32s n c acc = .error e) : e = .eof := by
  induction n generalizing c acc with
  | zero => simp [readU32s] at h
  | succ n ih =>
    simp only [readU32s] at h
    split at h
    · exact ih _ _ h
    · rename_i he; cases h; exact Cur.readU32_err he

theorem readHashes_err (n : Nat) (c : Cur) (acc : List Hash) (e : Err) (h : readHashes n c acc = .error e) : e = .eof := by
  induction n generalizing c acc with
  | zero => simp [readHashes] at h
  | succ n ih =>
    simp only [readHashes] at h
    split at h
    · exact ih _ _ h
    · rename_i he; cases h; exact Cur.readHash_err he

/-- error class of a failing cursor step found among the hypotheses -/
theorem eof_of_step {e : Err} :
    (∃ c n, Cur.readN c n = .error e) ∨ (∃ c, Cur.readU8 c = .error e) ∨ (∃ c, Cur.readU32 c = .error e) ∨
    (∃ c, Cur.readHash c = .error e) ∨ (∃ n c acc, readU32s n c acc = .error e) ∨
    (∃ n c acc, readHashes n c acc = .error e) → e = .eof := by
  rintro (⟨_, _, h⟩ | ⟨_, h⟩ | ⟨_, h⟩ | ⟨_, h⟩ | ⟨_, _, _, h⟩ | ⟨_, _, _, h⟩)
  · exact Cur.readN_err h
  · exact Cur.readU8_err h
  · exact Cur.readU32_err h
  · exact Cur.readHash_err h
  · exact readU32s_err _ _ _ _ h
  · exact readHashes_err _ _ _ _ h

theorem parseInfoV1Body_err (c0 : Cur) (e : Err) (h : parseInfoV1Body c0 = .error e) : e = .eof ∨ e = .format := by
  simp only [parseInfoV1Body, bind, Except.bind] at h
  iterate 22
    (split at h
     · first
       | (cases h; exact Or.inr rfl)
       | (cases h; rename_i he; refine Or.inl (eof_of_step ?_)
          first
           | exact .inl ⟨_, _, he⟩ | exact .inr (.inl ⟨_, he⟩) | exact .inr (.inr (.inl ⟨_, he⟩))
           | exact .inr (.inr (.inr (.inl ⟨_, he⟩))) | exact .inr (.inr (.inr (.inr (.inl ⟨_, _, _, he⟩))))
           | exact .inr (.inr (.inr (.inr (.inr ⟨_, _, _, he⟩))))))
  cases h

theorem parseInfoV0Body_err (c0 : Cur) (e : Err) (h : parseInfoV0Body c0 = .error e) : e = .eof ∨ e = .format := by
  simp only [parseInfoV0Body, bind, Except.bind] at h
  iterate 5
    (split at h
     · first
       | (cases h; exact Or.inr rfl)
       | (cases h; rename_i he; refine Or.inl (eof_of_step ?_)
          first
           | exact .inl ⟨_, _, he⟩ | exact .inr (.inl ⟨_, he⟩) | exact .inr (.inr (.inl ⟨_, he⟩))
           | exact .inr (.inr (.inr (.inl ⟨_, he⟩))) | exact .inr (.inr (.inr (.inr (.inl ⟨_, _, _, he⟩))))
           | exact .inr (.inr (.inr (.inr (.inr ⟨_, _, _, he⟩))))))
  cases h

/-! ## 2. the footer parser: what success guarantees, which errors are possible -/

theorem boundariesVersionNoUnpacked_ne : boundariesVersionNoUnpacked ≠ boundariesVersion := by decide

/-- table lengths of a parsed footer (exactly what the index operations of the validators need) -/
structure InfoOK (i : Info) : Prop where
  hashesLen : i.hashes.length = i.numChunks
  bndLen : i.boundaries.length = i.numChunks
  unpLen : i.boundariesVersion = boundariesVersion → i.unpacked.length = i.numChunks

structure ParseSpec (input : Bytes) (r : InfoRead) : Prop where
  ok : InfoOK r.info
  /-- bytes read + bytes left = input -/
  account : r.bytesRead + r.rest.length = input.length
  /-- every declared chunk costs at least 36 footer bytes (V0; 40 for V1) -/
  size : 60 + 36 * r.info.numChunks ≤ r.bytesRead

theorem parseInfo_spec (input : Bytes) (r : InfoRead) (h : parseInfo input = .ok r) : ParseSpec input r := by
  simp only [parseInfo, bind, Except.bind] at h
  split at h; · cases h
  rename_i v0 e0
  split at h; · cases h
  split at h; · cases h
  rename_i v1 e1
  have s0 := Cur.readN_ok (v := v0.1) (c' := v0.2) e0
  have s1 := Cur.readU8_ok (v := v1.1) (c' := v1.2) e1
  simp only [] at s0 s1
  split at h
  · have s := parseInfoV0Body_spec _ _ h
    refine ⟨⟨s.hashesLen, s.bndLen, fun hb => ?_⟩, ?_, ?_⟩
    · exact absurd (s.bv.symm.trans hb) boundariesVersionNoUnpacked_ne
    · have := s.bytesRead; have := s.restLen; omega
    · have := s.bytesRead; omega
  · split at h; · cases h
    have s := parseInfoV1Body_spec _ _ h
    refine ⟨⟨s.hashesLen, s.bndLen, fun _ => s.unpLen⟩, ?_, ?_⟩
    · have := s.bytesRead; have := s.restLen; omega
    · have := s.bytesRead; omega

theorem parseInfo_err (input : Bytes) (e : Err) (h : parseInfo input = .error e) : e = .eof ∨ e = .format := by
  simp only [parseInfo, bind, Except.bind] at h
  split at h
  · rename_i he; cases h; exact .inl (Cur.readN_err he)
  split at h; · cases h; exact .inr rfl
  split at h
  · rename_i he; cases h; exact .inl (Cur.readU8_err he)
  split at h
  · exact parseInfoV0Body_err _ _ h
  · split at h
    · cases h; exact .inr rfl
    · exact parseInfoV1Body_err _ _ h

/-- what a successful `CasObject::deserialize` guarantees -/
structure DeserSpec (obj : Bytes) (cas : CasObject) : Prop where
  ok : InfoOK cas.info
  fits : cas.infoLength + 4 ≤ obj.length
  size : 60 + 36 * cas.info.numChunks ≤ cas.infoLength
  lt : cas.infoLength < 2 ^ 32

theorem deserialize_spec (obj : Bytes) (cas : CasObject) (h : deserialize obj = .ok cas) : DeserSpec obj cas := by
  unfold deserialize at h
  split at h; · cases h
  split at h
  · rename_i a b c d hd
    simp only [] at h
    split at h; · cases h
    split at h; · cases h
    rename_i r hr
    split at h; · cases h
    have s := parseInfo_spec _ _ hr
    rename_i hbr _
    cases h
    exact ⟨s.ok, by simp only []; omega, by have := s.size; simp only []; omega, ofLe32_lt a b c d⟩
  · cases h

theorem deserialize_err (obj : Bytes) (e : Err) (h : deserialize obj = .error e) :
    e = .eof ∨ e = .format ∨ e = .io := by
  unfold deserialize at h
  split at h; · cases h; exact .inr (.inr rfl)
  split at h
  · simp only [] at h
    split at h; · cases h; exact .inr (.inr rfl)
    split at h
    · rename_i he; cases h
      rcases parseInfo_err _ _ he with h | h
      · exact .inl h
      · exact .inr (.inl h)
    · split at h
      · cases h; exact .inr (.inl rfl)
      · cases h
  · cases h; exact .inr (.inr rfl)

/-! ## 3. single-chunk decoders -/

theorem parseChunkHeader_ok {m : Nat} {b : Bytes} {hd : ChunkHeader} (h : parseChunkHeader m b = .ok hd) :
    hd.clen ≤ m * 2 ∧ hd.ulen ≤ m ∧ b.length = 8 := by
  unfold parseChunkHeader at h
  split at h
  · split at h; · cases h
    split at h; · cases h
    split at h; · cases h
    split at h; · cases h
    cases h
    exact ⟨by simp only []; omega, by simp only []; omega, rfl⟩
  · cases h

theorem parseChunkHeader_err {m : Nat} {b : Bytes} {e : Err} (h : parseChunkHeader m b = .error e) :
    e = .eof ∨ e = .format := by
  unfold parseChunkHeader at h
  split at h
  · split at h; · cases h; exact .inr rfl
    split at h; · cases h; exact .inr rfl
    split at h; · cases h; exact .inr rfl
    split at h; · cases h; exact .inr rfl
    cases h
  · cases h; exact .inl rfl

/-- components of a successful synchronous chunk decode -/
structure ChunkOK (C : Codec) (m : Nat) (input : Bytes) (r : ChunkRead) (hd : ChunkHeader) : Prop where
  long : 8 ≤ input.length
  header : parseChunkHeader m (input.take 8) = .ok hd
  dec : decompress C hd.scheme ((input.drop 8).take hd.clen) = .ok r.data
  ulen : r.data.length = hd.ulen
  consumed : r.consumed = hd.clen + 8
  rest : r.rest = (input.drop 8).drop hd.clen

theorem deserializeChunkSync_ok {C : Codec} {m : Nat} {input : Bytes} {r : ChunkRead}
    (h : deserializeChunkSync C m input = .ok r) : ∃ hd, ChunkOK C m input r hd := by
  unfold deserializeChunkSync at h
  split at h; · cases h
  split at h; · cases h
  rename_i hd hhd
  simp only [] at h
  split at h
  · cases h
  · cases h
  · rename_i out hout
    split at h; · cases h
    cases h
    refine ⟨hd, ?_, hhd, hout, ?_, rfl, rfl⟩
    · simp only [chunkHeaderLen] at *; omega
    · simp only []; omega

theorem deserializeChunkSync_of {C : Codec} {m : Nat} {input : Bytes} {hd : ChunkHeader} {out : Bytes}
    (h1 : 8 ≤ input.length) (h2 : parseChunkHeader m (input.take 8) = .ok hd)
    (h3 : decompress C hd.scheme ((input.drop 8).take hd.clen) = .ok out) (h4 : out.length = hd.ulen) :
    deserializeChunkSync C m input = .ok ⟨out, hd.clen + 8, (input.drop 8).drop hd.clen⟩ := by
  unfold deserializeChunkSync
  rw [if_neg (by simp only [chunkHeaderLen]; omega)]
  simp only [chunkHeaderLen, h2, h3]
  rw [if_neg (by omega)]

theorem deserializeChunkSync_err {C : Codec} {m : Nat} {input : Bytes} {e : Err}
    (h : deserializeChunkSync C m input = .error e) : e = .eof ∨ e = .format ∨ e = .io := by
  unfold deserializeChunkSync at h
  split at h; · cases h; exact .inl rfl
  split at h
  · rename_i he; cases h
    rcases parseChunkHeader_err he with h | h
    · exact .inl h
    · exact .inr (.inl h)
  simp only [] at h
  split at h
  · cases h; exact .inl rfl
  · cases h; exact .inr (.inr rfl)
  · split at h
    · cases h; exact .inr (.inl rfl)
    · cases h

/-- bounds every decoded chunk obeys (from `CASChunkHeader::validate`) -/
theorem deserializeChunkSync_bounds {C : Codec} {m : Nat} {input : Bytes} {r : ChunkRead}
    (h : deserializeChunkSync C m input = .ok r) :
    8 ≤ r.consumed ∧ r.consumed ≤ m * 2 + 8 ∧ r.data.length ≤ m ∧ 8 ≤ input.length ∧
    r.rest = input.drop r.consumed := by
  obtain ⟨hd, ok⟩ := deserializeChunkSync_ok h
  have := parseChunkHeader_ok ok.header
  have e : input.drop r.consumed = (input.drop 8).drop hd.clen := by
    rw [List.drop_drop, ok.consumed, Nat.add_comm]
  refine ⟨by have := ok.consumed; omega, by have := ok.consumed; omega, by have := ok.ulen; omega, ok.long, ?_⟩
  rw [e]; exact ok.rest

/-- the async decoder succeeds exactly when the sync decoder does and the payload is complete
    (`read_exact` instead of `take`) -/
theorem deserializeChunkAsync_ok_iff (C : Codec) (m : Nat) (input : Bytes) (r : ChunkRead) :
    deserializeChunkAsync C m input = .ok r ↔
      deserializeChunkSync C m input = .ok r ∧ r.consumed ≤ input.length := by
  unfold deserializeChunkAsync deserializeChunkSync
  by_cases h8 : input.length < chunkHeaderLen
  · simp [h8]
  · simp only [h8, if_false]
    cases hp : parseChunkHeader m (input.take chunkHeaderLen) with
    | error e => simp
    | ok hd =>
      simp only [List.length_drop]
      cases hdcm : decompress C hd.scheme ((input.drop chunkHeaderLen).take hd.clen) with
      | eof => simp
      | err => simp only []
               constructor
               · intro h; split at h <;> cases h
               · intro h; cases h.1
      | ok out =>
        simp only []
        by_cases hu : out.length ≠ hd.ulen
        · simp only [if_pos hu]
          constructor
          · intro h; split at h <;> cases h
          · intro h; cases h.1
        · simp only [if_neg hu]
          by_cases hl : input.length - chunkHeaderLen < hd.clen
          · simp only [hl, if_true]
            constructor
            · intro h; cases h
            · rintro ⟨h, h2⟩; cases h; simp only [chunkHeaderLen] at *; omega
          · simp only [hl, if_false]
            constructor
            · intro h; cases h; simp only [chunkHeaderLen] at *; exact ⟨trivial, by omega⟩
            · rintro ⟨h, _⟩; exact h

/-- locality: a decoder result depends only on the bytes it consumed -/
def Local (one : Bytes → Except Err ChunkRead) : Prop :=
  ∀ (input : Bytes) (r : ChunkRead) (n : Nat), one input = .ok r → r.consumed ≤ n → r.consumed ≤ input.length →
    one (input.take n) = .ok ⟨r.data, r.consumed, (input.take n).drop r.consumed⟩

theorem take_take_of_le {α} (l : List α) (a n : Nat) (h : a ≤ n) : (l.take n).take a = l.take a := by
  rw [List.take_take, Nat.min_eq_left h]

theorem take_drop_take {α} (l : List α) (a b n : Nat) (h : a + b ≤ n) :
    ((l.take n).drop a).take b = (l.drop a).take b := by
  rw [List.drop_take, List.take_take, Nat.min_eq_left (by omega)]

theorem local_sync (C : Codec) (m : Nat) : Local (deserializeChunkSync C m) := by
  intro input r n h hn hl
  obtain ⟨hd, ok⟩ := deserializeChunkSync_ok h
  have hc := ok.consumed
  have := deserializeChunkSync_of (C := C) (m := m) (input := input.take n) (hd := hd) (out := r.data)
    (by rw [List.length_take]; omega)
    (by rw [take_take_of_le _ _ _ (by omega)]; exact ok.header)
    (by rw [take_drop_take _ _ _ _ (by omega)]; exact ok.dec) ok.ulen
  rw [this, hc, List.drop_drop]
  simp [Nat.add_comm]

theorem local_async (C : Codec) (m : Nat) : Local (deserializeChunkAsync C m) := by
  intro input r n h hn hl
  rw [deserializeChunkAsync_ok_iff] at h ⊢
  refine ⟨local_sync C m input r n h.1 hn hl, ?_⟩
  simp only [List.length_take]; omega

/-! ## 4. chunk segments -/

/-- `cs`/`sz` are the chunks (and their physical sizes) decoded consecutively from the front of
    `input` (which may continue afterwards) -/
inductive Seg (one : Bytes → Except Err ChunkRead) : Bytes → List Bytes → List Nat → Prop
  | nil (input : Bytes) : Seg one input [] []
  | cons {input : Bytes} {r : ChunkRead} {cs : List Bytes} {sz : List Nat} :
      one input = .ok r → Seg one (input.drop r.consumed) cs sz → Seg one input (r.data :: cs) (r.consumed :: sz)

/-- `input` is *exactly* a sequence of serialized chunks decoding to `cs` with physical sizes `sz` -/
inductive DecodesWith (one : Bytes → Except Err ChunkRead) : Bytes → List Bytes → List Nat → Prop
  | nil : DecodesWith one [] [] []
  | cons {input : Bytes} {r : ChunkRead} {cs : List Bytes} {sz : List Nat} :
      one input = .ok r → r.consumed ≤ input.length → DecodesWith one (input.drop r.consumed) cs sz →
      DecodesWith one input (r.data :: cs) (r.consumed :: sz)

theorem Seg.length_eq {one : Bytes → Except Err ChunkRead} {input : Bytes} {cs : List Bytes} {sz : List Nat}
    (h : Seg one input cs sz) : cs.length = sz.length := by
  induction h with
  | nil => rfl
  | cons _ _ ih => simp [ih]

theorem Seg.decodes {one : Bytes → Except Err ChunkRead} (hl : Local one) {input : Bytes} {cs : List Bytes}
    {sz : List Nat} (h : Seg one input cs sz) (hlen : sz.sum ≤ input.length) :
    DecodesWith one (input.take sz.sum) cs sz := by
  induction h with
  | nil input => simp only [List.sum_nil, List.take_zero]; exact .nil
  | @cons input r cs sz hr _ ih =>
    simp only [List.sum_cons] at hlen ⊢
    have h1 := hl input r (r.consumed + sz.sum) hr (by omega) (by omega)
    have hih := ih (by rw [List.length_drop]; omega)
    have e : (input.take (r.consumed + sz.sum)).drop r.consumed = (input.drop r.consumed).take sz.sum := by
      rw [List.drop_take]; congr 1; omega
    have := DecodesWith.cons h1 (cs := cs) (sz := sz) (by simp only [List.length_take]; omega)
      (by simp only [e]; exact hih)
    exact this

/-! ## 5. the chunk loop of the seekable validator -/

theorem slice_succ {α} (l : List α) (i k : Nat) (x : α) (h : l[i]? = some x) :
    (l.drop i).take (k + 1) = x :: (l.drop (i + 1)).take k := by
  obtain ⟨hi, rfl⟩ := List.getElem?_eq_some_iff.mp h
  rw [List.drop_eq_getElem_cons hi, List.take_succ_cons]

/-- result of `k` iterations of the seekable validator's chunk loop relative to its start state -/
structure WalkSpec (P : HashPrims) (C : Codec) (m : Nat) (obj : Bytes) (info : Info) (k idx : Nat)
    (st st' : WalkState) (cs : List Bytes) (sz : List Nat) : Prop where
  len : cs.length = k
  seg : Seg (deserializeChunkSync C m) (obj.drop st.start) cs sz
  start : st'.start = st.start + sz.sum
  cum : st'.cumComp = st.cumComp + sz.sum
  unp : st'.unp = st.unp + (cs.map (·.length)).sum
  chunks : st'.chunks = st.chunks ++ cs.map (fun d => (P.dataHash d, d.length))
  pos : k ≠ 0 → st'.pos = st'.start ∧ st'.start ≤ u32Max ∧ st'.unp ≤ u32Max
  zero : k = 0 → st' = st
  hashes : (info.hashes.drop idx).take k = cs.map P.dataHash
  bnds : (info.boundaries.drop idx).take k = runningSums st.start sz
  unpk : info.boundariesVersion = boundariesVersion →
    (info.unpacked.drop idx).take k = runningSums st.unp (cs.map (·.length))

theorem walkSpec_step {P : HashPrims} {C : Codec} {m : Nat} {obj : Bytes} {info : Info} {k idx : Nat}
    {st st' : WalkState} {cs : List Bytes} {sz : List Nat} {r : ChunkRead}
    (hr : deserializeChunkSync C m (obj.drop st.start) = .ok r)
    (hh : info.hashes[idx]? = some (P.dataHash r.data))
    (hb : info.boundaries[idx]? = some (st.start + r.consumed))
    (hu : info.boundariesVersion = boundariesVersion → info.unpacked[idx]? = some (st.unp + r.data.length))
    (hmax : st.start + r.consumed ≤ u32Max) (humax : st.unp + r.data.length ≤ u32Max)
    (ih : WalkSpec P C m obj info k (idx + 1)
      ⟨st.start + r.consumed, st.cumComp + r.consumed, st.unp + r.data.length, st.start + r.consumed,
        st.chunks ++ [(P.dataHash r.data, r.data.length)]⟩ st' cs sz) :
    WalkSpec P C m obj info (k + 1) idx st st' (r.data :: cs) (r.consumed :: sz) := by
  obtain ⟨l1, l2, l3, l4, l5, l6, l7, l8, l9, l10, l11⟩ := ih
  simp only [] at l2 l3 l4 l5 l6 l7 l8 l10 l11
  refine ⟨by simp [l1], ?_, ?_, ?_, ?_, ?_, ?_, by omega, ?_, ?_, ?_⟩
  · refine Seg.cons hr ?_
    rw [List.drop_drop]; exact l2
  · simp only [List.sum_cons]; omega
  · simp only [List.sum_cons]; omega
  · simp only [List.map_cons, List.sum_cons]; omega
  · rw [l6]; simp
  · intro _
    by_cases hk : k = 0
    · have := l8 hk; subst this; exact ⟨rfl, hmax, humax⟩
    · exact l7 hk
  · rw [slice_succ _ _ _ _ hh, l9]; rfl
  · rw [slice_succ _ _ _ _ hb, l10]; rfl
  · intro hv
    rw [slice_succ _ _ _ _ (hu hv), l11 hv]; rfl

theorem walkChunks_sound (P : HashPrims) (C : Codec) (m : Nat) (obj : Bytes) (info : Info) :
    ∀ (k idx : Nat) (st st' : WalkState), walkChunks P C m obj info k idx st = .ok st' →
      ∃ cs sz, WalkSpec P C m obj info k idx st st' cs sz := by
  intro k
  induction k with
  | zero =>
    intro idx st st' h
    simp only [walkChunks, Except.ok.injEq] at h
    subst h
    exact ⟨[], [], ⟨rfl, .nil _, by simp, by simp, by simp, by simp, by simp, fun _ => rfl, by simp,
      by simp [runningSums], fun _ => by simp [runningSums]⟩⟩
  | succ k ih =>
    intro idx st st' h
    rw [walkChunks] at h
    split at h; · cases h
    split at h
    · cases h
    · cases h
    rename_i r hr
    simp only [] at h
    split at h; · cases h
    rename_i hov
    split at h; · cases h
    rename_i fh hfh
    split at h; · cases h
    rename_i hfe
    split at h; · cases h
    rename_i b hb
    split at h; · cases h
    rename_i hmax
    split at h; · cases h
    rename_i hbe
    have hbe' : st.start + r.consumed = b := by simpa using hbe
    have hfe' : fh = P.dataHash r.data := by simpa using hfe
    subst hbe' hfe'
    split at h
    · rename_i hv
      split at h; · cases h
      rename_i u hu
      split at h; · cases h
      rename_i hue
      have hue' : st.unp + r.data.length = u := by simpa using hue
      subst hue'
      obtain ⟨cs, sz, sp⟩ := ih _ _ _ h
      exact ⟨_, _, walkSpec_step hr hfh hb (fun _ => hu) (by omega) (by omega) sp⟩
    · rename_i hv
      obtain ⟨cs, sz, sp⟩ := ih _ _ _ h
      exact ⟨_, _, walkSpec_step hr hfh hb (fun hv' => absurd hv' hv) (by omega) (by omega) sp⟩

/-! ## 6. soundness of the seekable validator -/

/-- `bytes` is exactly a sequence of serialized chunks that the synchronous decoder
    (`deserialize_chunk`) decodes to `chunks`, chunk `i` occupying `sizes[i]` bytes -/
def DecodesTo (C : Codec) (maxChunk : Nat) : Bytes → List Bytes → List Nat → Prop :=
  DecodesWith (deserializeChunkSync C maxChunk)

/-- the same through the asynchronous decoder (`read_exact` of the payload) -/
def DecodesToAsync (C : Codec) (maxChunk : Nat) : Bytes → List Bytes → List Nat → Prop :=
  DecodesWith (deserializeChunkAsync C maxChunk)

/-- the (hash, length) list the validators feed to the Merkle tree -/
def chunkMeta (P : HashPrims) (chunks : List Bytes) : List (Hash × Nat) :=
  chunks.map fun d => (P.dataHash d, d.length)

/-- what acceptance by the seekable validator means -/
structure SeekSound (P : HashPrims) (C : Codec) (maxChunk : Nat) (obj : Bytes) (h : Hash) (cas : CasObject)
    (chunks : List Bytes) (sizes : List Nat) : Prop where
  footer : deserialize obj = .ok cas
  decodes : DecodesTo C maxChunk (obj.take sizes.sum) chunks sizes
  root : Merkle.validatorRoot P (chunkMeta P chunks) [] = h
  cashash : cas.info.cashash = h
  numChunks : cas.info.numChunks = chunks.length
  hashes : cas.info.hashes = chunks.map P.dataHash
  boundaries : cas.info.boundaries = runningSums 0 sizes
  unpacked : cas.info.boundariesVersion = boundariesVersion →
    cas.info.unpacked = runningSums 0 (chunks.map (·.length))
  /-- the footer does not start before the end of the chunks … -/
  footerPosLe : sizes.sum + cas.infoLength + 4 ≤ obj.length
  /-- … and starts exactly there up to the `as u32` truncation of the stream length -/
  footerPosMod : (obj.length - (sizes.sum + cas.infoLength + 4)) % 2 ^ 32 = 0
  contentFits : sizes.sum < 2 ^ 32
  /-- the chunks decode consecutively from the start of the whole object -/
  seg : Seg (deserializeChunkSync C maxChunk) obj chunks sizes
  /-- the total unpacked size fits `u32` (the validator's accumulator is checked) -/
  unpFits : (chunks.map (·.length)).sum ≤ u32Max
  /-- an object without chunks is never accepted -/
  nonempty : chunks.length ≠ 0

theorem walkChunks_err (P : HashPrims) (C : Codec) (m : Nat) (obj : Bytes) (info : Info) :
    ∀ (k idx : Nat) (st : WalkState) (v : Verdict), walkChunks P C m obj info k idx st = .error v →
      v = .reject ∨ ∃ e, v = .error e := by
  intro k
  induction k with
  | zero => intro idx st v h; simp [walkChunks] at h
  | succ k ih =>
    intro idx st v h
    rw [walkChunks] at h
    split at h; · cases h; exact .inr ⟨_, rfl⟩
    split at h
    · cases h; exact .inl rfl
    · cases h; exact .inr ⟨_, rfl⟩
    simp only [] at h
    split at h; · cases h; exact .inr ⟨_, rfl⟩
    split at h; · cases h; exact .inr ⟨_, rfl⟩
    split at h; · cases h; exact .inl rfl
    split at h; · cases h; exact .inr ⟨_, rfl⟩
    split at h; · cases h; exact .inr ⟨_, rfl⟩
    split at h; · cases h; exact .inl rfl
    split at h
    · split at h; · cases h; exact .inr ⟨_, rfl⟩
      split at h; · cases h; exact .inl rfl
      exact ih _ _ _ h
    · exact ih _ _ _ h

theorem validate_sound (P : HashPrims) (C : Codec) (m : Nat) (obj : Bytes) (h : Hash) (cas : CasObject)
    (gb : Option Nat) (hv : validate P C m obj h = .accept cas gb) :
    gb = none ∧ ∃ chunks sizes, SeekSound P C m obj h cas chunks sizes := by
  unfold validate at hv
  split at hv
  · cases hv
  · cases hv
  rename_i cas' hd
  split at hv
  · rename_i v hw
    rcases walkChunks_err _ _ _ _ _ _ _ _ _ hw with h' | ⟨e, h'⟩ <;> rw [h'] at hv <;> cases hv
  rename_i st hw
  split at hv; · cases hv
  rename_i hfit
  simp only [] at hv
  split at hv; · cases hv
  rename_i hpos
  split at hv; · cases hv
  rename_i hroot
  cases hv
  refine ⟨rfl, ?_⟩
  obtain ⟨cs, sz, sp⟩ := walkChunks_sound P C m obj _ _ _ _ _ hw
  have ds := deserialize_spec _ _ hd
  obtain ⟨l1, l2, l3, l4, l5, l6, l7, l8, l9, l10, l11⟩ := sp
  simp only [Nat.zero_add, List.nil_append, List.drop_zero] at l2 l3 l4 l5 l6 l9 l10 l11
  have hk : cas.info.numChunks ≠ 0 := by
    intro hk
    have := l8 hk
    subst this
    have := ds.size; have := ds.lt; have := ds.fits
    simp only [u32Max] at hpos
    omega
  obtain ⟨p1, p2, p3⟩ := l7 hk
  have := ds.size; have := ds.lt; have := ds.fits
  simp only [u32Max] at hpos p2
  have hle : sz.sum + cas.infoLength + 4 ≤ obj.length := by omega
  refine ⟨cs, sz, hd, ?_, ?_, ?_, l1.symm, ?_, ?_, ?_, hle, by omega, by omega, l2, by omega, by omega⟩
  · exact Seg.decodes (local_sync C m) l2 (by omega)
  · simp only [chunkMeta, ← l6]; have := hroot; simp only [not_or, ne_eq, Decidable.not_not] at this; exact this.1
  · have : ¬ (Merkle.validatorRoot P st.chunks [] ≠ h ∨ Merkle.validatorRoot P st.chunks [] ≠ cas.info.cashash) := hroot
    simp only [not_or, ne_eq, Decidable.not_not] at this
    rw [← this.2, this.1]
  · rw [← l9, List.take_of_length_le (by rw [ds.ok.hashesLen]; exact Nat.le_refl _)]
  · rw [← l10, List.take_of_length_le (by rw [ds.ok.bndLen]; exact Nat.le_refl _)]
  · intro hbv
    rw [← l11 hbv, List.take_of_length_le (by rw [ds.ok.unpLen hbv]; exact Nat.le_refl _)]

/-! ## 7. the chunk loop of the streaming validator -/

theorem getLastD_concat' {α} (l : List α) (a d : α) : (l ++ [a]).getLastD d = a := by
  induction l generalizing d with
  | nil => rfl
  | cons x xs ih => simp only [List.cons_append, List.getLastD_cons, ih]

/-- how the byte stream continues after the chunks the streaming validator decoded -/
inductive StreamEnd (tail : Bytes) : Option CasObject → Option Nat → Prop
  /-- nothing: no footer was sent -/
  | noFooter : tail = [] → StreamEnd tail none (some 0)
  /-- `XETBLOB`, version 1, a V1 footer body, its length word, end of stream -/
  | footer (cas : CasObject) : 8 ≤ tail.length → (tail.take 8).take 7 = identMain →
      ((tail.take 8).getD 7 0).toNat = formatVersion → deserializeAsyncV1 (tail.drop 8) = .ok cas →
      StreamEnd tail (some cas) none
  /-- `XETBLOB`, version 0: the validator stops and reports the 8 bytes it read -/
  | v0 : 8 ≤ tail.length → (tail.take 8).take 7 = identMain →
      ((tail.take 8).getD 7 0).toNat = formatVersionV0 → StreamEnd tail none (some 8)

structure StreamSpec (P : HashPrims) (C : Codec) (m : Nat) (input : Bytes) (st st' : StreamState)
    (mcas : Option CasObject) (gb : Option Nat) (cs : List Bytes) (sz : List Nat) : Prop where
  seg : Seg (deserializeChunkAsync C m) input cs sz
  fits : sz.sum ≤ input.length
  bnds : st'.bnds = st.bnds ++ runningSums (st.bnds.getLastD 0) sz
  chunks : st'.chunks = st.chunks ++ chunkMeta P cs
  tail : StreamEnd (input.drop sz.sum) mcas gb
  /-- every boundary offset pushed passed the `u32` check -/
  bound : sz ≠ [] → st.bnds.getLastD 0 + sz.sum ≤ u32Max

theorem streamLoop_sound (P : HashPrims) (C : Codec) (m : Nat) :
    ∀ (fuel : Nat) (input : Bytes) (st : StreamState) (res : StreamState × Option CasObject × Option Nat),
      input.length < fuel → streamLoop P C m fuel input st = .ok res →
      ∃ cs sz, StreamSpec P C m input st res.1 res.2.1 res.2.2 cs sz := by
  intro fuel
  induction fuel with
  | zero => intro input st res hf; omega
  | succ fuel ih =>
    intro input st res hf h
    rw [streamLoop] at h
    split at h
    · rename_i he
      cases h
      have : input = [] := by simpa using he
      exact ⟨[], [], .nil _, by simp, by simp [runningSums], by simp [chunkMeta], .noFooter (by simpa using this),
        fun hc => absurd rfl hc⟩
    split at h; · cases h
    rename_i hne h8
    simp only [] at h
    split at h; · cases h
    split at h
    · rename_i hft
      split at h; · cases h
      rename_i cas hcas
      cases h
      exact ⟨[], [], .nil _, by simp, by simp [runningSums], by simp [chunkMeta],
        .footer cas (by simp only [List.sum_nil, List.drop_zero]; omega) hft.1 hft.2 hcas, fun hc => absurd rfl hc⟩
    split at h
    · rename_i hft
      cases h
      exact ⟨[], [], .nil _, by simp, by simp [runningSums], by simp [chunkMeta],
        .v0 (by simp only [List.sum_nil, List.drop_zero]; omega) hft.1 hft.2, fun hc => absurd rfl hc⟩
    split at h; · cases h
    rename_i hd hhd
    split at h; · cases h
    rename_i hlen
    split at h
    · cases h
    · cases h
    rename_i out hout
    split at h; · cases h
    rename_i hul
    split at h; · cases h
    rename_i hov
    simp only [List.length_drop] at hlen
    obtain ⟨cs, sz, sp⟩ := ih _ _ _ (by simp only [List.length_drop]; omega) h
    have hsync := deserializeChunkSync_of (C := C) (m := m) (input := input) (hd := hd) (out := out)
      (by omega) hhd hout (by simpa using hul)
    have hasync : deserializeChunkAsync C m input = .ok ⟨out, hd.clen + 8, (input.drop 8).drop hd.clen⟩ := by
      rw [deserializeChunkAsync_ok_iff]; exact ⟨hsync, by simp only []; omega⟩
    have e : input.drop (hd.clen + 8) = (input.drop 8).drop hd.clen := by
      rw [List.drop_drop, Nat.add_comm]
    obtain ⟨l1, l2, l3, l4, l5, l6⟩ := sp
    simp only [getLastD_concat'] at l3 l6
    simp only [List.length_drop] at l2
    refine ⟨out :: cs, (hd.clen + 8) :: sz, ?_, ?_, ?_, ?_, ?_, ?_⟩
    · exact Seg.cons (r := ⟨out, hd.clen + 8, _⟩) hasync (by simp only [e]; exact l1)
    · simp only [List.sum_cons]; omega
    · have e2 : st.bnds.getLastD 0 + 8 + hd.clen = st.bnds.getLastD 0 + (hd.clen + 8) := by omega
      rw [l3, e2]; simp only [runningSums, List.append_assoc, List.singleton_append]
    · rw [l4]; simp [chunkMeta]
    · simp only [List.sum_cons, ← List.drop_drop, e]; exact l5
    · intro _
      simp only [List.sum_cons]
      by_cases hsz : sz = []
      · subst hsz; simp only [List.sum_nil]; omega
      · have := l6 hsz; omega

/-! ## 8. footer checks of the streaming validator -/

/-- what a successful `deserialize_async` (V1) guarantees -/
structure AsyncFooterSpec (input : Bytes) (cas : CasObject) : Prop where
  hashesLen : cas.info.hashes.length = cas.info.numChunks
  bndLen : cas.info.boundaries.length = cas.info.numChunks
  unpLen : cas.info.unpacked.length = cas.info.numChunks
  bv : cas.info.boundariesVersion = boundariesVersion
  infoLength : cas.infoLength = 92 + 40 * cas.info.numChunks
  /-- the footer body, the length word, and then the stream ends -/
  exact : input.length + 8 = cas.infoLength + 4

theorem deserializeAsyncV1_spec (input : Bytes) (cas : CasObject) (h : deserializeAsyncV1 input = .ok cas) :
    AsyncFooterSpec input cas := by
  unfold deserializeAsyncV1 at h
  split at h; · cases h
  rename_i r hr
  split at h
  · rename_i a b c d rest hrest
    split at h; · cases h
    rename_i hbr
    split at h; · cases h
    rename_i hemp
    cases h
    have s := parseInfoV1Body_spec _ _ hr
    have h1 := s.bytesRead
    have h2 := s.restLen
    have hbr' : ofLe32 a b c d = r.bytesRead := by simpa using hbr
    have : rest = [] := by simpa using hemp
    subst this
    rw [hrest] at h2
    simp only [List.length_cons, List.length_nil] at h2 h1
    exact ⟨s.hashesLen, s.bndLen, s.unpLen, s.bv, by simp only [hbr']; omega, by simp only [hbr']; omega⟩
  · cases h

theorem deserializeAsyncV1_err (input : Bytes) (e : Err) (h : deserializeAsyncV1 input = .error e) :
    e = .eof ∨ e = .format := by
  unfold deserializeAsyncV1 at h
  split at h
  · rename_i he; cases h; exact parseInfoV1Body_err _ _ he
  split at h
  · split at h; · cases h; exact .inr rfl
    split at h; · cases h; exact .inr rfl
    cases h
  · cases h; exact .inl rfl

theorem zip_any_ne {α} [DecidableEq α] (l1 l2 : List α) (hl : l1.length = l2.length)
    (h : (l1.zip l2).any (fun p => decide (p.1 ≠ p.2)) = false) : l1 = l2 := by
  induction l1 generalizing l2 with
  | nil => cases l2 <;> simp_all
  | cons x xs ih =>
    cases l2 with
    | nil => simp at hl
    | cons y ys =>
      simp only [List.zip_cons_cons, List.any_cons, Bool.or_eq_false_iff, decide_eq_false_iff_not,
        Decidable.not_not] at h
      rw [h.1, ih ys (by simpa using hl) h.2]

structure FooterCheckSpec (h : Hash) (info : Info) (st : StreamState) : Prop where
  cashash : info.cashash = h
  numChunks : info.numChunks = st.chunks.length
  boundaries : info.boundaries = st.bnds
  hashes : info.hashes = st.chunks.map (·.1)
  unpacked : (info.unpacked.zip (runningSums 0 (st.chunks.map (·.2)))).any (fun p => decide (p.1 ≠ p.2)) = false
  sumsFit : ∀ y ∈ runningSums 0 (st.chunks.map (·.2)), y ≤ u32Max

theorem streamFooterCheck_ok (h : Hash) (info : Info) (st : StreamState) (hc : streamFooterCheck h info st = .ok ()) :
    FooterCheckSpec h info st := by
  unfold streamFooterCheck at hc
  split at hc; · cases hc
  rename_i h1
  split at hc; · cases hc
  rename_i h2
  split at hc; · cases hc
  rename_i h3
  split at hc; · cases hc
  split at hc; · cases hc
  rename_i h5
  simp only [] at hc
  split at hc; · cases hc
  rename_i h6
  split at hc; · cases hc
  rename_i h7
  refine ⟨by simpa using h1, by simpa using h2, by simpa using h3, by simpa using h5, by simpa using h7, ?_⟩
  intro y hy
  simp only [List.any_eq_true, decide_eq_true_eq, not_exists, not_and] at h6
  have := h6 y hy
  omega

theorem streamFooterCheck_err (h : Hash) (info : Info) (st : StreamState) (e : Err)
    (hc : streamFooterCheck h info st = .error e) :
    e = .format ∨ (e = .panic ∧ (runningSums 0 (st.chunks.map (·.2))).any (· > u32Max) = true) := by
  unfold streamFooterCheck at hc
  split at hc; · cases hc; exact .inl rfl
  split at hc; · cases hc; exact .inl rfl
  split at hc; · cases hc; exact .inl rfl
  split at hc; · cases hc; exact .inl rfl
  split at hc; · cases hc; exact .inl rfl
  simp only [] at hc
  split at hc
  · rename_i hp; cases hc; exact .inr ⟨rfl, hp⟩
  split at hc; · cases hc; exact .inl rfl
  cases hc


/-! ## 9. soundness of the streaming validator -/

theorem sum_mem_runningSums (s : Nat) (xs : List Nat) (h : xs ≠ []) : s + xs.sum ∈ runningSums s xs := by
  induction xs generalizing s with
  | nil => exact absurd rfl h
  | cons x xs ih =>
    simp only [runningSums, List.sum_cons, List.mem_cons]
    by_cases hx : xs = []
    · subst hx; simp
    · right; have := ih (s + x) hx; rwa [Nat.add_assoc] at this

/-- the footer the streaming validator parsed agrees with what it recomputed from the chunks -/
structure FooterMatches (P : HashPrims) (h : Hash) (obj : Bytes) (cas : CasObject) (chunks : List Bytes)
    (sizes : List Nat) : Prop where
  cashash : cas.info.cashash = h
  numChunks : cas.info.numChunks = chunks.length
  hashes : cas.info.hashes = chunks.map P.dataHash
  boundaries : cas.info.boundaries = runningSums 0 sizes
  unpacked : cas.info.unpacked = runningSums 0 (chunks.map (·.length))
  bv : cas.info.boundariesVersion = boundariesVersion
  infoLength : cas.infoLength = 92 + 40 * chunks.length
  /-- the total unpacked size fits `u32` (checked prefix sums) -/
  unpFits : (chunks.map (·.length)).sum ≤ u32Max
  /-- chunks, footer, length word, end of stream -/
  exact : obj.length = sizes.sum + cas.infoLength + 4

/-- the three accepting outcomes of the streaming validator -/
inductive StreamShape (P : HashPrims) (h : Hash) (obj : Bytes) (chunks : List Bytes) (sizes : List Nat) :
    CasObject → Option Nat → Prop
  | footer (cas : CasObject) : StreamEnd (obj.drop sizes.sum) (some cas) none →
      FooterMatches P h obj cas chunks sizes → StreamShape P h obj chunks sizes cas none
  | noFooter : obj.length = sizes.sum →
      StreamShape P h obj chunks sizes (casFromParts h (runningSums 0 sizes) (chunkMeta P chunks)) (some 0)
  | v0 : StreamEnd (obj.drop sizes.sum) none (some 8) →
      StreamShape P h obj chunks sizes (casFromParts h (runningSums 0 sizes) (chunkMeta P chunks)) (some 8)

structure StreamSound (P : HashPrims) (C : Codec) (maxChunk : Nat) (obj : Bytes) (h : Hash) (cas : CasObject)
    (gb : Option Nat) (chunks : List Bytes) (sizes : List Nat) : Prop where
  decodes : DecodesToAsync C maxChunk (obj.take sizes.sum) chunks sizes
  fits : sizes.sum ≤ obj.length
  seg : Seg (deserializeChunkAsync C maxChunk) obj chunks sizes
  /-- the boundary offsets fit `u32` (each push is checked) -/
  bndFits : sizes.sum ≤ u32Max
  root : Merkle.validatorRoot P (chunkMeta P chunks) [] = h
  shape : StreamShape P h obj chunks sizes cas gb

theorem chunkMeta_fst (P : HashPrims) (cs : List Bytes) : (chunkMeta P cs).map (·.1) = cs.map P.dataHash := by
  simp [chunkMeta]

theorem chunkMeta_snd (P : HashPrims) (cs : List Bytes) : (chunkMeta P cs).map (·.2) = cs.map (·.length) := by
  simp [chunkMeta]

theorem validateStream_sound (P : HashPrims) (C : Codec) (m : Nat) (obj : Bytes) (h : Hash) (cas : CasObject)
    (gb : Option Nat) (hv : validateStream P C m obj h = .accept cas gb) :
    ∃ chunks sizes, StreamSound P C m obj h cas gb chunks sizes := by
  unfold validateStream at hv
  split at hv
  · cases hv
  · cases hv
  rename_i st mcas goBack hl
  obtain ⟨cs, sz, sp⟩ := streamLoop_sound P C m _ _ _ _ (by omega) hl
  obtain ⟨l1, l2, l3, l4, l5, l6⟩ := sp
  simp only [List.nil_append, List.getLastD_nil, Nat.zero_add] at l3 l4 l6
  have hbf : sz.sum ≤ u32Max := by
    by_cases hsz : sz = []
    · subst hsz; simp
    · exact l6 hsz
  have hdec := Seg.decodes (local_async C m) l1 l2
  cases mcas with
  | some c =>
    simp only [] at hv
    split at hv
    · cases hv
    · cases hv
    rename_i hchk
    split at hv; · cases hv
    rename_i hroot
    cases hv
    have fc := streamFooterCheck_ok _ _ _ hchk
    cases l5 with
    | footer _ t1 t2 t3 t4 =>
      have af := deserializeAsyncV1_spec _ _ t4
      have hn : cas.info.numChunks = cs.length := by rw [fc.numChunks, l4]; simp [chunkMeta]
      refine ⟨cs, sz, hdec, l2, l1, hbf, by rw [← l4]; simpa using hroot, .footer cas (.footer cas t1 t2 t3 t4) ?_⟩
      refine ⟨fc.cashash, hn, ?_, by rw [fc.boundaries, l3], ?_, af.bv, by rw [af.infoLength, hn], ?_, ?_⟩
      · rw [fc.hashes, l4, chunkMeta_fst]
      · have := fc.unpacked
        rw [l4, chunkMeta_snd] at this
        exact zip_any_ne _ _ (by rw [af.unpLen, hn, runningSums_length, List.length_map]) this
      · have hsf := fc.sumsFit
        rw [l4, chunkMeta_snd] at hsf
        by_cases hcs : cs.map (·.length) = []
        · rw [hcs]; simp
        · have := hsf _ (sum_mem_runningSums 0 _ hcs); omega
      · have := af.exact
        simp only [List.length_drop] at this t1
        omega
  | none =>
    simp only [] at hv
    split at hv; · cases hv
    rename_i hroot
    cases hv
    have hr : Merkle.validatorRoot P (chunkMeta P cs) [] = h := by rw [← l4]; simpa using hroot
    rw [l3, l4]
    cases l5 with
    | noFooter t =>
      refine ⟨cs, sz, hdec, l2, l1, hbf, hr, .noFooter ?_⟩
      have := congrArg List.length t
      simp only [List.length_drop, List.length_nil] at this
      omega
    | v0 t1 t2 t3 => exact ⟨cs, sz, hdec, l2, l1, hbf, hr, .v0 (.v0 t1 t2 t3)⟩

end Xet.Xorb
