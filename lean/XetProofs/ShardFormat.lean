/-
Helper lemmas for the MDB shard format model (`XetModel/ShardFormat.lean`):
  Part A   truthfulness of dedup answers on arbitrary bytes and on the in-memory index (C05)
  Part B   byte-level round trips, record / section / footer parsers on serialized shards, sorted lookup
           tables, `get_file_reconstruction_info`, size accounting (C09)
  Part C   dedup answers on a serialized well-formed shard name stored blocks (C05 on top of C09)
Core Lean only.
-/
import XetModel.ShardFormat

namespace Xet.Shard

/-! ## Part B.1 — byte-level lemmas -/

theorem sumMap_nil {α} (f : α → Nat) : sumMap f [] = 0 := rfl
theorem sumMap_cons {α} (f : α → Nat) (a : α) (l : List α) : sumMap f (a :: l) = f a + sumMap f l := by
  simp [sumMap]
theorem sumMap_append {α} (f : α → Nat) (l₁ l₂ : List α) : sumMap f (l₁ ++ l₂) = sumMap f l₁ + sumMap f l₂ := by
  simp [sumMap]

theorem ofLe_le32 (n : Nat) (h : n < 4294967296) : ofLe (le32 n) = n := by
  simp [ofLe, le32]
  omega
theorem le32_length (n : Nat) : (le32 n).length = 4 := rfl
theorem le64_length (n : Nat) : (le64 n).length = 8 := rfl
theorem ofLe_append (a c : Bytes) : ofLe (a ++ c) = ofLe a + 256 ^ a.length * ofLe c := by
  induction a with
  | nil => simp [ofLe]
  | cons x xs ih =>
    simp only [ofLe, List.cons_append, List.foldr_cons, List.length_cons] at ih ⊢
    rw [ih, Nat.pow_succ]
    simp [Nat.mul_add, Nat.mul_assoc, Nat.mul_comm, Nat.add_assoc]
theorem ofLe_le64 (n : Nat) (h : n < 18446744073709551616) : ofLe (le64 n) = n := by
  rw [le64, ofLe_append, ofLe_le32 _ (by omega), ofLe_le32 _ (by omega), le32_length]
  omega
theorem wordBytes_length (w : UInt64) : (Hash.wordBytes w).length = 8 := by simp [Hash.wordBytes]
theorem wordOfBytes_wordBytes (w : UInt64) (rest : Bytes) : Hash.wordOfBytes (Hash.wordBytes w ++ rest) = w := by
  have hw : w.toNat < 18446744073709551616 := w.toNat_lt
  have : (Hash.wordBytes w ++ rest).take 8 = Hash.wordBytes w := by
    rw [List.take_append_of_le_length (by simp [wordBytes_length])]
    exact List.take_of_length_le (by simp [wordBytes_length])
  rw [Hash.wordOfBytes, this]
  have : (Hash.wordBytes w).foldr (fun x acc => x.toNat + 256 * acc) 0 = w.toNat := by
    simp [Hash.wordBytes, List.range_succ]
    omega
  rw [this]; exact UInt64.ofNat_toNat
theorem toBytes_length (h : Hash) : h.toBytes.length = 32 := by simp [Hash.toBytes, wordBytes_length]
theorem ofBytes_toBytes (h : Hash) (rest : Bytes) : Hash.ofBytes (h.toBytes ++ rest) = h := by
  have e0 : h.toBytes ++ rest = Hash.wordBytes h.w0 ++ (Hash.wordBytes h.w1 ++ (Hash.wordBytes h.w2 ++ (Hash.wordBytes h.w3 ++ rest))) := by
    simp [Hash.toBytes]
  have d8 : ∀ (w : UInt64) (r : Bytes), (Hash.wordBytes w ++ r).drop 8 = r := by
    intro w r; rw [List.drop_append_of_le_length (by simp [wordBytes_length])]; simp [List.drop_of_length_le, wordBytes_length]
  have d16 : ∀ (w w' : UInt64) (r : Bytes), (Hash.wordBytes w ++ (Hash.wordBytes w' ++ r)).drop 16 = r := by
    intro w w' r; rw [show 16 = 8 + 8 from rfl, ← List.drop_drop, d8, d8]
  have d24 : ∀ (w w' w'' : UInt64) (r : Bytes), (Hash.wordBytes w ++ (Hash.wordBytes w' ++ (Hash.wordBytes w'' ++ r))).drop 24 = r := by
    intro w w' w'' r; rw [show 24 = 8 + 16 from rfl, ← List.drop_drop, d8, d16]
  rw [e0, Hash.ofBytes, d8, d16, d24]
  simp [wordOfBytes_wordBytes]

/-- decidable equality of reader results (used only by the concrete non-vacuity examples) -/
@[reducible] def decEqExcept {ε α} [DecidableEq ε] [DecidableEq α] : DecidableEq (Except ε α)
  | .ok x, .ok y => if h : x = y then isTrue (h ▸ rfl) else isFalse (fun h' => h (Except.ok.inj h'))
  | .error x, .error y => if h : x = y then isTrue (h ▸ rfl) else isFalse (fun h' => h (Except.error.inj h'))
  | .ok _, .error _ => isFalse (fun h => nomatch h)
  | .error _, .ok _ => isFalse (fun h => nomatch h)

theorem ok_bind {α β} (a : α) (f : α → Except Err β) : (Except.ok a >>= f) = f a := rfl

/-- `At b off x`: the byte string `x` occurs in `b` at offset `off` -/
def At (b : Bytes) (off : Nat) (x : Bytes) : Prop := ∃ pre post, b = pre ++ x ++ post ∧ pre.length = off

theorem At.mk (pre x post : Bytes) : At (pre ++ x ++ post) pre.length x := ⟨pre, post, rfl, rfl⟩

theorem At.mk' {b pre x post : Bytes} {off : Nat} (hb : b = pre ++ x ++ post) (ho : pre.length = off) : At b off x :=
  ⟨pre, post, hb, ho⟩

theorem At.left {b off x y} (h : At b off (x ++ y)) : At b off x := by
  obtain ⟨pre, post, hb, ho⟩ := h
  exact ⟨pre, y ++ post, by simp [hb], ho⟩

theorem At.right {b off x y} (h : At b off (x ++ y)) : At b (off + x.length) y := by
  obtain ⟨pre, post, hb, ho⟩ := h
  exact ⟨pre ++ x, post, by simp [hb], by simp [ho]⟩

theorem At.split {b off x y} (h : At b off (x ++ y)) {n : Nat} (hn : x.length = n) : At b off x ∧ At b (off + n) y :=
  ⟨h.left, hn ▸ h.right⟩

theorem At.nil_right {b off x} (h : At b off x) : At b off (x ++ []) := by simpa using h

theorem At.le {b off x} (h : At b off x) : off + x.length ≤ b.length := by
  obtain ⟨pre, post, hb, ho⟩ := h
  subst hb; simp; omega

theorem At.readAt {b off x} (h : At b off x) {n : Nat} (hn : x.length = n) : readAt b off n = .ok x := by
  obtain ⟨pre, post, hb, ho⟩ := h
  subst hb ho hn
  unfold Xet.Shard.readAt
  rw [if_pos (by simp)]
  simp [List.append_assoc]

theorem At.u32 {b off n} (h : At b off (le32 n)) (hn : n < 4294967296) : u32At b off = .ok n := by
  simp [u32At, h.readAt (le32_length n), Except.map, ofLe_le32 n hn]

theorem At.u64 {b off n} (h : At b off (le64 n)) (hn : n < 18446744073709551616) : u64At b off = .ok n := by
  simp [u64At, h.readAt (le64_length n), Except.map, ofLe_le64 n hn]

theorem At.hash {b off} {x : Hash} (h : At b off x.toBytes) : hashAt b off = .ok x := by
  simp only [hashAt, h.readAt (toBytes_length x), Except.map]
  have := ofBytes_toBytes x []
  simp only [List.append_nil] at this
  rw [this]

/-! ## Part A — truthfulness of dedup answers (no well-formedness of the bytes needed) -/


/-- `Truthful k chunks casHash q a`: the answer `a = (n, fse)` to the query `q` is truthful with respect to a
    block with hash `casHash` and chunk records `chunks`, the recorded hashes being compared with `k q[i]`
    (`k = id` for unkeyed lookups, `k = keyedHash P key` under an HMAC key). -/
structure Truthful (k : Hash → Hash) (chunks : List Chunk) (casHash : Hash) (q : List Hash) (a : DedupAnswer) : Prop where
  n_pos : 1 ≤ a.n
  n_le : a.n ≤ q.length
  cas : a.seg.casHash = casHash
  cend : a.seg.cend = a.seg.cstart + a.n
  in_range : a.seg.cend ≤ chunks.length
  /-- the recorded hashes at `[start, start+n)` are the (keyed) first `n` query hashes -/
  hashes : ((chunks.drop a.seg.cstart).take a.n).map (·.hash) = (q.take a.n).map k
  bytes : a.seg.bytes = sumMap (·.bytes) ((chunks.drop a.seg.cstart).take a.n)

/-- index form of `Truthful.hashes` -/
theorem Truthful.hash_at {k chunks casHash q a} (t : Truthful k chunks casHash q a) (i : Nat) (hi : i < a.n) :
    ∃ c qh, chunks[a.seg.cstart + i]? = some c ∧ q[i]? = some qh ∧ c.hash = k qh := by
  have h := congrArg (fun l => l[i]?) t.hashes
  have h1 := t.n_le
  have h2 := t.in_range
  have h3 := t.cend
  simp only [List.getElem?_map, List.getElem?_take, hi, if_true, List.getElem?_drop] at h
  have hq : i < q.length := by omega
  have hc : a.seg.cstart + i < chunks.length := by omega
  refine ⟨chunks[a.seg.cstart + i], q[i], by simp [hc], by simp [hq], ?_⟩
  simpa [hc, hq] using h

/-! ### the in-memory query -/

theorem memMatchLen_spec (chunks : List Chunk) (start : Nat) (q : List Hash) (fuel i : Nat)
    (hi1 : i ≤ q.length) (hi2 : 0 < i → start + i ≤ chunks.length)
    (hpre : ∀ j < i, ∃ c, chunks[start + j]? = some c ∧ q[j]? = some c.hash) :
    let n := memMatchLen chunks start q fuel i
    i ≤ n ∧ n ≤ q.length ∧ (0 < n → start + n ≤ chunks.length) ∧
      ∀ j < n, ∃ c, chunks[start + j]? = some c ∧ q[j]? = some c.hash := by
  induction fuel generalizing i with
  | zero => simp only [memMatchLen]; exact ⟨Nat.le_refl _, hi1, hi2, hpre⟩
  | succ fuel ih =>
    simp only [memMatchLen]
    split
    · rename_i c qh hc hq
      split
      · rename_i heq
        have hlt1 : i < q.length := by
          rcases List.getElem?_eq_some_iff.mp hq with ⟨h, _⟩; exact h
        have hlt2 : start + i < chunks.length := by
          rcases List.getElem?_eq_some_iff.mp hc with ⟨h, _⟩; exact h
        have := ih (i + 1) (by omega) (by intro; omega) (by
          intro j hj
          by_cases hji : j < i
          · exact hpre j hji
          · have : j = i := by omega
            subst this
            exact ⟨c, hc, by rw [hq, heq]⟩)
        simp only at this
        exact ⟨by omega, this.2⟩
      · exact ⟨Nat.le_refl _, hi1, hi2, hpre⟩
    · exact ⟨Nat.le_refl _, hi1, hi2, hpre⟩

/-- with fuel, the run is non-empty exactly when the chunk at `start` carries `q[0]` -/
theorem memMatchLen_zero_iff (chunks : List Chunk) (start : Nat) (q : List Hash) (fuel : Nat) :
    memMatchLen chunks start q (fuel + 1) 0 = 0 ↔ ¬ ∃ c, chunks[start]? = some c ∧ q[0]? = some c.hash := by
  simp only [memMatchLen, Nat.add_zero]
  constructor
  · intro h
    rintro ⟨c, hc, hq⟩
    rw [hc, hq] at h
    simp only [if_true] at h
    have hq' : 1 ≤ q.length := by
      rcases List.getElem?_eq_some_iff.mp hq with ⟨h, _⟩; exact h
    have hc' : start + 1 ≤ chunks.length := by
      rcases List.getElem?_eq_some_iff.mp hc with ⟨h, _⟩; exact h
    have := memMatchLen_spec chunks start q fuel (0 + 1) (by omega) (by intro; omega) (by
      intro j hj
      have : j = 0 := by omega
      subst this
      exact ⟨c, hc, hq⟩)
    simp only at this
    omega
  · intro h
    split
    · rename_i c qh hc hq
      split
      · rename_i heq
        exact absurd ⟨c, hc, by rw [hq, heq]⟩ h
      · rfl
    · rfl

theorem map_hash_eq_of_index (l : List Chunk) (q : List Hash) (n : Nat) (k : Hash → Hash)
    (hl : l.length = n) (_hn : n ≤ q.length)
    (h : ∀ j < n, ∃ c qh, l[j]? = some c ∧ q[j]? = some qh ∧ c.hash = k qh) :
    l.map (·.hash) = (q.take n).map k := by
  apply List.ext_getElem?
  intro j
  by_cases hj : j < n
  · obtain ⟨c, qh, h1, h2, h3⟩ := h j hj
    simp [List.getElem?_map, hj, h1, h2, h3]
  · have h1 : l.length ≤ j := by omega
    simp [List.getElem?_map, List.getElem?_take, hj, List.getElem?_eq_none h1]

/-- **the in-memory matching loop is truthful** for every block, start position and query -/
theorem memDedup_truthful (c : CasInfo) (start : Nat) (q : List Hash) (h : (memDedup c start q).n ≠ 0) :
    Truthful id c.chunks c.hash q (memDedup c start q) ∧ (memDedup c start q).seg.cstart = start := by
  have sp := memMatchLen_spec c.chunks start q (q.length + 1) 0 (Nat.zero_le _) (by intro h; omega)
    (by intro j hj; omega)
  simp only at sp
  obtain ⟨_, h2, h3, h4⟩ := sp
  unfold memDedup at h ⊢
  simp only at h ⊢
  split
  · rename_i h0; simp [h0] at h
  · rename_i h0
    refine ⟨⟨by simp only; omega, h2, rfl, rfl, h3 (by omega), ?_, rfl⟩, rfl⟩
    simp only
    apply map_hash_eq_of_index _ _ _ _ (by simp; omega) h2
    intro j hj
    obtain ⟨ch, hc1, hc2⟩ := h4 j hj
    exact ⟨ch, ch.hash, by simp [hj, List.getElem?_drop, hc1], hc2, rfl⟩

theorem memDedup_zero_iff (c : CasInfo) (start : Nat) (q : List Hash) :
    (memDedup c start q).n = 0 ↔ ¬ ∃ ch, c.chunks[start]? = some ch ∧ q[0]? = some ch.hash := by
  rw [← memMatchLen_zero_iff c.chunks start q q.length]
  unfold memDedup
  simp only
  split
  · rename_i h0; simp [h0]
  · rename_i h0; simp [h0]

/-! ### the `chunk_hash_lookup` invariant -/

/-- every entry `(h, (c, i))` of the lookup map points at a chunk record of `c` that carries `h` -/
def LookupOK (l : List (Hash × CasInfo × Nat)) : Prop :=
  ∀ e ∈ l, ∃ ch, e.2.1.chunks[e.2.2]? = some ch ∧ ch.hash = e.1

theorem mem_lookupInsert (k : Hash) (v : CasInfo × Nat) (l : List (Hash × CasInfo × Nat)) :
    ∀ e ∈ lookupInsert k v l, e = (k, v) ∨ e ∈ l := by
  induction l with
  | nil => intro e he; simp [lookupInsert] at he; exact Or.inl he
  | cons x rest ih =>
    intro e he
    simp only [lookupInsert] at he
    split at he
    · rcases List.mem_cons.mp he with h | h
      · exact Or.inl h
      · exact Or.inr (List.mem_cons_of_mem _ h)
    · rcases List.mem_cons.mp he with h | h
      · exact Or.inr (by rw [h]; exact List.mem_cons_self)
      · rcases ih e h with h | h
        · exact Or.inl h
        · exact Or.inr (List.mem_cons_of_mem _ h)

theorem LookupOK_insert (k : Hash) (v : CasInfo × Nat) (l : List (Hash × CasInfo × Nat))
    (hl : LookupOK l) (hv : ∃ ch, v.1.chunks[v.2]? = some ch ∧ ch.hash = k) : LookupOK (lookupInsert k v l) := by
  intro e he
  rcases mem_lookupInsert k v l e he with h | h
  · subst h; exact hv
  · exact hl e h

theorem LookupOK_insertChunks (c : CasInfo) (i : Nat) (chs : List Chunk) (l : List (Hash × CasInfo × Nat))
    (hl : LookupOK l) (hc : ∀ j, chs[j]? = c.chunks[i + j]?) : LookupOK (lookupInsertChunks c i chs l) := by
  induction chs generalizing i l with
  | nil => simpa [lookupInsertChunks] using hl
  | cons ch rest ih =>
    simp only [lookupInsertChunks]
    apply ih
    · apply LookupOK_insert _ _ _ hl
      have := hc 0
      simp at this
      exact ⟨ch, this.symm, rfl⟩
    · intro j
      have := hc (j + 1)
      simp only [List.getElem?_cons_succ] at this
      rw [this]; congr 1; omega

/-- shards obtainable from the empty shard by the operations of `MDBInMemoryShard` -/
inductive MemShard.Reachable : MemShard → Prop
  | empty : Reachable MemShard.empty
  | addCas {s} (c : CasInfo) : Reachable s → Reachable (s.addCas c)
  | addFile {s} (f : FileInfo) : Reachable s → Reachable (s.addFile f)
  | union {a b} : Reachable a → Reachable b → Reachable (a.union b)
  | difference {a b} : Reachable a → Reachable b → Reachable (a.difference b)

theorem LookupOK_foldl_insert (bl al : List (Hash × CasInfo × Nat)) (ha : LookupOK al) (hb : LookupOK bl) :
    LookupOK (bl.foldl (fun acc e => lookupInsert e.1 e.2 acc) al) := by
  induction bl generalizing al with
  | nil => simpa using ha
  | cons e rest ih =>
    simp only [List.foldl_cons]
    apply ih
    · exact LookupOK_insert _ _ _ ha (hb e List.mem_cons_self)
    · intro x hx; exact hb x (List.mem_cons_of_mem _ hx)

theorem MemShard.addCas_lookupOK (s : MemShard) (c : CasInfo) (h : LookupOK s.lookup) : LookupOK (s.addCas c).lookup := by
  simp only [MemShard.addCas]
  exact LookupOK_insertChunks c 0 c.chunks s.lookup h (by intro j; simp)

theorem MemShard.Reachable.lookupOK {s : MemShard} (h : MemShard.Reachable s) : LookupOK s.lookup := by
  induction h with
  | empty => intro e he; simp [MemShard.empty] at he
  | addCas c _ ih => exact MemShard.addCas_lookupOK _ c ih
  | addFile f _ ih => simpa [MemShard.addFile] using ih
  | union _ _ iha ihb => simp only [MemShard.union]; exact LookupOK_foldl_insert _ _ iha ihb
  | difference _ _ _ ihb =>
    simp only [MemShard.difference]
    intro e he
    exact ihb e (List.mem_filter.mp he).1

/-- on a shard whose lookup map satisfies the invariant, the in-memory query never returns the degenerate
    `(0, default)` answer and is truthful for the block the map holds -/
theorem MemShard.dedup_truthful (s : MemShard) (hl : LookupOK s.lookup) (q : List Hash) (a : DedupAnswer)
    (h : s.dedup q = some a) :
    ∃ e ∈ s.lookup, q.head? = some e.1 ∧ a.seg.cstart = e.2.2 ∧ Truthful id e.2.1.chunks e.2.1.hash q a := by
  unfold MemShard.dedup at h
  split at h
  · cases h
  · rename_i q0 qrest
    split at h
    · cases h
    · rename_i e he
      simp only [Option.some.injEq] at h
      subst h
      have hmem := List.mem_of_find?_eq_some he
      have hkey : e.1 = q0 := by simpa using List.find?_some he
      obtain ⟨ch, hc1, hc2⟩ := hl e hmem
      have hne : (memDedup e.2.1 e.2.2 (q0 :: qrest)).n ≠ 0 := by
        intro h0
        exact (memDedup_zero_iff _ _ _).mp h0 ⟨ch, hc1, by simp [hc2, hkey]⟩
      obtain ⟨t1, t2⟩ := memDedup_truthful e.2.1 e.2.2 (q0 :: qrest) hne
      exact ⟨e, hmem, by simp [hkey], t2, t1⟩

/-! ### the on-disk query -/

def chunkOffAt (casOff chunkOff i : Nat) : Nat := casOff + recSize * (1 + chunkOff + i)

/-- what `matchRun` guarantees about its result `(e, nb)` when started at `i` with `acc` bytes:
    it parsed chunk records `cs` at positions `i … e-1`, they carry the keyed query hashes, and `nb` adds
    their byte counts. It never passes the block end if it started before it. -/
theorem matchRun_spec (P : HashPrims) (key : Hash) (b : Bytes) (casOff ne chunkOff : Nat) (q : List Hash)
    (fuel i acc e nb : Nat) (hi : i ≤ q.length)
    (h : matchRun P key b casOff ne chunkOff q fuel i acc = .ok (e, nb)) :
    i ≤ e ∧ e ≤ q.length ∧ (chunkOff + i ≤ ne → chunkOff + e ≤ ne) ∧
    ∃ cs : List Chunk, cs.length = e - i ∧ nb = acc + sumMap (·.bytes) cs ∧
      ∀ j < e - i, ∃ c qh, cs[j]? = some c ∧ parseChunk b (chunkOffAt casOff chunkOff (i + j)) = .ok c ∧
        q[i + j]? = some qh ∧ c.hash = keyedHash P key qh := by
  induction fuel generalizing i acc with
  | zero =>
    simp only [matchRun, Except.ok.injEq, Prod.mk.injEq] at h
    obtain ⟨rfl, rfl⟩ := h
    exact ⟨Nat.le_refl _, hi, id, [], by simp, by simp [sumMap], by intro j hj; omega⟩
  | succ fuel ih =>
    have stop : ∀ {x y : Nat}, (Except.ok (x, y) : Except Err (Nat × Nat)) = .ok (e, nb) → x = i → y = acc →
        i ≤ e ∧ e ≤ q.length ∧ (chunkOff + i ≤ ne → chunkOff + e ≤ ne) ∧
        ∃ cs : List Chunk, cs.length = e - i ∧ nb = acc + sumMap (·.bytes) cs ∧
          ∀ j < e - i, ∃ c qh, cs[j]? = some c ∧ parseChunk b (chunkOffAt casOff chunkOff (i + j)) = .ok c ∧
            q[i + j]? = some qh ∧ c.hash = keyedHash P key qh := by
      intro x y hxy hx hy
      simp only [Except.ok.injEq, Prod.mk.injEq] at hxy
      obtain ⟨rfl, rfl⟩ := hxy
      subst hx hy
      exact ⟨Nat.le_refl _, hi, id, [], by simp, by simp [sumMap], by intro j hj; omega⟩
    simp only [matchRun] at h
    split at h
    · exact stop h rfl rfl
    · rename_i hne
      split at h
      · cases h
      · rename_i c hc
        split at h
        · exact stop h rfl rfl
        · rename_i qh hq
          split at h
          · exact stop h rfl rfl
          · rename_i hk
            have hk' : c.hash = keyedHash P key qh := by simpa using hk
            have hlt : i < q.length := by
              rcases List.getElem?_eq_some_iff.mp hq with ⟨h, _⟩; exact h
            obtain ⟨h1, h2, h3, cs, h4, h5, h6⟩ := ih (i + 1) (acc + c.bytes) (by omega) h
            refine ⟨by omega, h2, by omega, c :: cs, by simp; omega, by rw [h5, sumMap_cons]; omega, ?_⟩
            intro j hj
            cases j with
            | zero => exact ⟨c, qh, by simp, by simpa [chunkOffAt] using hc, by simpa using hq, hk'⟩
            | succ j =>
              obtain ⟨c', qh', g1, g2, g3, g4⟩ := h6 j (by omega)
              refine ⟨c', qh', by simpa using g1, ?_, ?_, g4⟩
              · rw [← g2]; congr 2; omega
              · rw [← g3]; congr 1; omega

/-- the guarantee of `chunk_hash_dedup_query_direct` on an arbitrary byte string -/
structure DirectTruthful (P : HashPrims) (b : Bytes) (ft : Footer) (q : List Hash) (casIdx chunkOff : Nat)
    (a : DedupAnswer) : Prop where
  n_pos : 1 ≤ a.n
  n_le : a.n ≤ q.length
  cstart : a.seg.cstart = chunkOff
  cend : a.seg.cend = chunkOff + a.n
  /-- the block header read at `cas_info_offset + 48 * casIdx` supplies hash and flags; the run stays inside
      the block whenever the start offset addresses one of its `numEntries` chunks (the loop's end test is the
      equality `chunkOff + i = numEntries`, so a start offset at or past the end is not caught by it) -/
  header : ∃ hd, parseCasHeader b (ft.casInfoOff + recSize * casIdx) = .ok hd ∧ a.seg.casHash = hd.hash ∧
      a.seg.casFlags = hd.flags ∧ (chunkOff < hd.numEntries → chunkOff + a.n ≤ hd.numEntries)
  /-- the `n` chunk records following position `chunkOff` parse, carry the keyed first `n` query hashes, and
      the reported byte count is the sum of their lengths -/
  chunks : ∃ cs : List Chunk, cs.length = a.n ∧
      (∀ i < a.n, ∃ c, cs[i]? = some c ∧
         parseChunk b (ft.casInfoOff + recSize * casIdx + recSize * (1 + chunkOff + i)) = .ok c) ∧
      cs.map (·.hash) = (q.take a.n).map (keyedHash P ft.hmacKey) ∧
      a.seg.bytes = sumMap (·.bytes) cs

theorem bind_eq_ok {α β} {x : Except Err α} {f : α → Except Err β} {r : β} (h : x >>= f = .ok r) :
    ∃ a, x = .ok a ∧ f a = .ok r := by
  cases x with
  | error e => cases h
  | ok a => exact ⟨a, rfl, h⟩

theorem dedupDirect_truthful (P : HashPrims) (b : Bytes) (ft : Footer) (q : List Hash) (casIdx chunkOff : Nat)
    (a : DedupAnswer) (h : dedupDirect P b ft q casIdx chunkOff = .ok (some a)) :
    DirectTruthful P b ft q casIdx chunkOff a := by
  unfold dedupDirect at h
  split at h
  · cases h
  · rename_i q0 qrest
    obtain ⟨hd, hhd, h⟩ := bind_eq_ok h
    obtain ⟨first, hfirst, h⟩ := bind_eq_ok h
    split at h
    · cases h
    · rename_i hk
      have hk' : first.hash = keyedHash P ft.hmacKey q0 := by simpa using hk
      obtain ⟨⟨e, nb⟩, hrun, h⟩ := bind_eq_ok h
      simp only [Except.ok.injEq, Option.some.injEq] at h
      subst h
      obtain ⟨h1, h2, h3, cs, h4, h5, h6⟩ :=
        matchRun_spec P ft.hmacKey b _ hd.numEntries chunkOff (q0 :: qrest) _ 1 first.bytes e nb (by simp) hrun
      refine ⟨h1, h2, rfl, rfl, ⟨hd, hhd, rfl, rfl, by simp only; omega⟩, first :: cs, by simp; omega, ?_, ?_, ?_⟩
      · intro i hi
        cases i with
        | zero => exact ⟨first, by simp, by simpa using hfirst⟩
        | succ i =>
          have hi' : i + 1 < e := hi
          obtain ⟨c', qh', g1, g2, g3, g4⟩ := h6 i (by omega)
          refine ⟨c', by simpa using g1, ?_⟩
          have : 1 + chunkOff + (i + 1) = 1 + chunkOff + (1 + i) := by omega
          rw [← g2, chunkOffAt, this]
      · apply map_hash_eq_of_index _ _ _ _ (by simp; omega) h2
        intro j hj
        cases j with
        | zero => exact ⟨first, q0, by simp, by simp, hk'⟩
        | succ j =>
          have hj' : j + 1 < e := hj
          obtain ⟨c', qh', g1, g2, g3, g4⟩ := h6 j (by omega)
          refine ⟨c', qh', by simpa using g1, ?_, g4⟩
          rw [← g3]; congr 1; omega
      · simp only [h5, sumMap_cons]

theorem dedupFromCandidates_some (P : HashPrims) (b : Bytes) (ft : Footer) (q : List Hash) (cands : List (Nat × Nat))
    (a : DedupAnswer) (h : dedupFromCandidates P b ft q cands = .ok (some a)) :
    ∃ cc ∈ cands, dedupDirect P b ft q cc.1 cc.2 = .ok (some a) := by
  induction cands with
  | nil => simp [dedupFromCandidates] at h
  | cons cc rest ih =>
    obtain ⟨ci, co⟩ := cc
    simp only [dedupFromCandidates] at h
    split at h
    · cases h
    · rename_i a' ha'
      simp only [Except.ok.injEq, Option.some.injEq] at h
      subst h
      exact ⟨(ci, co), List.mem_cons_self, ha'⟩
    · obtain ⟨cc, hcc, hd⟩ := ih h
      exact ⟨cc, List.mem_cons_of_mem _ hcc, hd⟩

theorem dedupQuery_some (P : HashPrims) (b : Bytes) (ft : Footer) (q : List Hash) (cands : List (Nat × Nat))
    (a : DedupAnswer) (h : dedupQuery P b ft q cands = .ok (some a)) :
    ∃ cc ∈ cands, dedupDirect P b ft q cc.1 cc.2 = .ok (some a) := by
  unfold dedupQuery at h
  split at h
  · cases h
  · exact dedupFromCandidates_some P b ft q cands a h

/-! ## Part B.2 — well-formedness and record-level round trips -/

def Seg.WF (s : Seg) : Prop :=
  s.casFlags < 4294967296 ∧ s.bytes < 4294967296 ∧ s.cstart < 4294967296 ∧ s.cend < 4294967296

def Chunk.WF (c : Chunk) : Prop :=
  c.bytes < 4294967296 ∧ c.rangeStart < 4294967296 ∧ c.unused < 18446744073709551616

/-- a file record as this client writes it: all fields fit their on-disk width, `num_entries` counts the
    segments, verification hashes are present (one per segment) exactly when the flag is set, the metadata
    extension exactly when its flag is set, and the hash is not the bookend marker -/
def FileInfo.WF (f : FileInfo) : Prop :=
  f.hash ≠ bookendHash ∧ f.flags < 4294967296 ∧ f.numEntries = f.segs.length ∧ f.segs.length < 4294967296 ∧
  f.unused < 18446744073709551616 ∧ (∀ s ∈ f.segs, s.WF) ∧
  f.verif.length = (if f.hasVerif then f.segs.length else 0) ∧ f.metaExt.isSome = f.hasMeta

def CasInfo.WF (c : CasInfo) : Prop :=
  c.hash ≠ bookendHash ∧ c.flags < 4294967296 ∧ c.numEntries = c.chunks.length ∧ c.chunks.length < 4294967296 ∧
  c.bytesInCas < 4294967296 ∧ c.bytesOnDisk < 4294967296 ∧ ∀ ch ∈ c.chunks, ch.WF

instance (s : Seg) : Decidable s.WF := by unfold Seg.WF; infer_instance
instance (c : Chunk) : Decidable c.WF := by unfold Chunk.WF; infer_instance
instance (f : FileInfo) : Decidable f.WF := by unfold FileInfo.WF; infer_instance
instance (c : CasInfo) : Decidable c.WF := by unfold CasInfo.WF; infer_instance

theorem segBytes_length (s : Seg) : (segBytes s).length = 48 := by
  simp [segBytes, toBytes_length, le32_length]
theorem chunkBytes_length (c : Chunk) : (chunkBytes c).length = 48 := by
  simp [chunkBytes, toBytes_length, le32_length, le64_length]
theorem hash16_length (h : Hash) : (hash16 h).length = 48 := by
  simp [hash16, toBytes_length]
theorem bookend_length : bookend.length = 48 := by
  simp [bookend, toBytes_length]
theorem fileHeaderBytes_length (h : Hash) (a b c : Nat) : (fileHeaderBytes h a b c).length = 48 := by
  simp [fileHeaderBytes, toBytes_length, le32_length, le64_length]
theorem casHeaderBytes_length (h : Hash) (a b c d : Nat) : (casHeaderBytes h a b c d).length = 48 := by
  simp [casHeaderBytes, toBytes_length, le32_length]

theorem flatMap_length_const {α} (f : α → Bytes) (k : Nat) (l : List α) (h : ∀ x, (f x).length = k) :
    (l.flatMap f).length = k * l.length := by
  induction l with
  | nil => simp
  | cons x xs ih => simp [List.flatMap_cons, ih, h, Nat.mul_add]; omega

theorem parseSeg_of_At {b off} {s : Seg} (h : At b off (segBytes s)) (w : s.WF) : parseSeg b off = .ok s := by
  obtain ⟨w1, w2, w3, w4⟩ := w
  simp only [segBytes] at h
  obtain ⟨h, h5⟩ := h.split (n := 44) (by simp [toBytes_length, le32_length])
  obtain ⟨h, h4⟩ := h.split (n := 40) (by simp [toBytes_length, le32_length])
  obtain ⟨h, h3⟩ := h.split (n := 36) (by simp [toBytes_length, le32_length])
  obtain ⟨h1, h2⟩ := h.split (n := 32) (by simp [toBytes_length])
  simp only [parseSeg, h1.hash, h2.u32 w1, h3.u32 w2, h4.u32 w3, h5.u32 w4, ok_bind]

theorem parseChunk_of_At {b off} {c : Chunk} (h : At b off (chunkBytes c)) (w : c.WF) : parseChunk b off = .ok c := by
  obtain ⟨w1, w2, w3⟩ := w
  simp only [chunkBytes] at h
  obtain ⟨h, h4⟩ := h.split (n := 40) (by simp [toBytes_length, le32_length])
  obtain ⟨h, h3⟩ := h.split (n := 36) (by simp [toBytes_length, le32_length])
  obtain ⟨h1, h2⟩ := h.split (n := 32) (by simp [toBytes_length])
  simp only [parseChunk, h1.hash, h2.u32 w2, h3.u32 w1, h4.u64 w3, ok_bind]

theorem parseCasHeader_of_At {b off} {hh : Hash} {f n a d : Nat} (h : At b off (casHeaderBytes hh f n a d))
    (wf : f < 4294967296) (wn : n < 4294967296) (wa : a < 4294967296) (wd : d < 4294967296) :
    parseCasHeader b off = .ok ⟨hh, f, n, a, d⟩ := by
  simp only [casHeaderBytes] at h
  obtain ⟨h, h5⟩ := h.split (n := 44) (by simp [toBytes_length, le32_length])
  obtain ⟨h, h4⟩ := h.split (n := 40) (by simp [toBytes_length, le32_length])
  obtain ⟨h, h3⟩ := h.split (n := 36) (by simp [toBytes_length, le32_length])
  obtain ⟨h1, h2⟩ := h.split (n := 32) (by simp [toBytes_length])
  simp only [parseCasHeader, h1.hash, h2.u32 wf, h3.u32 wn, h4.u32 wa, h5.u32 wd, ok_bind]

theorem parseSegs_of_At {b} (segs : List Seg) (off : Nat) (acc : List Seg)
    (h : At b off (segs.flatMap segBytes)) (w : ∀ s ∈ segs, s.WF) :
    parseSegs b segs.length off acc = .ok (acc.reverse ++ segs) := by
  induction segs generalizing off acc with
  | nil => simp [parseSegs]
  | cons s rest ih =>
    simp only [List.flatMap_cons] at h
    obtain ⟨h1, h2⟩ := h.split (segBytes_length s)
    simp only [List.length_cons, parseSegs, parseSeg_of_At h1 (w s List.mem_cons_self)]
    rw [ih (off + recSize) (s :: acc) h2 (fun x hx => w x (List.mem_cons_of_mem _ hx))]
    simp

theorem parseChunks_of_At {b} (cs : List Chunk) (off : Nat) (acc : List Chunk)
    (h : At b off (cs.flatMap chunkBytes)) (w : ∀ c ∈ cs, c.WF) :
    parseChunks b cs.length off acc = .ok (acc.reverse ++ cs) := by
  induction cs generalizing off acc with
  | nil => simp [parseChunks]
  | cons s rest ih =>
    simp only [List.flatMap_cons] at h
    obtain ⟨h1, h2⟩ := h.split (chunkBytes_length s)
    simp only [List.length_cons, parseChunks, parseChunk_of_At h1 (w s List.mem_cons_self)]
    rw [ih (off + recSize) (s :: acc) h2 (fun x hx => w x (List.mem_cons_of_mem _ hx))]
    simp

theorem parseHashes48_of_At {b} (hs : List Hash) (off : Nat) (acc : List Hash)
    (h : At b off (hs.flatMap hash16)) :
    parseHashes48 b hs.length off acc = .ok (acc.reverse ++ hs) := by
  induction hs generalizing off acc with
  | nil => simp [parseHashes48]
  | cons s rest ih =>
    simp only [List.flatMap_cons] at h
    obtain ⟨h1, h2⟩ := h.split (hash16_length s)
    simp only [List.length_cons, parseHashes48, h1.readAt (n := recSize) (hash16_length s)]
    rw [ih (off + recSize) _ h2, hash16, ofBytes_toBytes]
    simp

/-! ## Part B.3 — `MDBFileInfo` / `MDBCASInfo` round trips -/

/-- records following the header of a well-formed file entry -/
def FileInfo.tailRecs (f : FileInfo) : Nat :=
  f.segs.length + (if f.hasVerif then f.segs.length else 0) + (if f.hasMeta then 1 else 0)

theorem FileInfo.bytes_length (f : FileInfo) (w : f.WF) : f.bytes.length = recSize * (1 + f.tailRecs) := by
  obtain ⟨_, _, _, _, _, _, w7, w8⟩ := w
  obtain ⟨hash, flags, n, unused, segs, verif, metaExt⟩ := f
  simp only [FileInfo.bytes, FileInfo.tailRecs, FileInfo.hasVerif, FileInfo.hasMeta] at w7 w8 ⊢
  rcases (Bool.eq_false_or_eq_true (hasBit flags flagVerification)).symm with hV | hV <;> cases metaExt <;>
    simp [hV, fileHeaderBytes_length, flatMap_length_const segBytes 48 _ segBytes_length,
      flatMap_length_const hash16 48 _ hash16_length, hash16_length, recSize] at w7 w8 ⊢ <;>
    (try simp [w8]) <;> (try omega)

theorem FileInfo.numRecs_eq (f : FileInfo) (w : f.WF) : f.numRecs = 1 + f.tailRecs := by
  rw [FileInfo.numRecs, FileInfo.bytes_length f w, recSize]
  omega

theorem FileInfo.bytes_length' (f : FileInfo) (w : f.WF) : f.bytes.length = recSize * f.numRecs := by
  rw [FileInfo.numRecs_eq f w, FileInfo.bytes_length f w]

theorem parseFileHeader_of_At {b off} {hh : Hash} {fl n u : Nat} (h : At b off (fileHeaderBytes hh fl n u))
    (w1 : fl < 4294967296) (w2 : n < 4294967296) (w3 : u < 18446744073709551616) :
    hashAt b off = .ok hh ∧ u32At b (off + 32) = .ok fl ∧ u32At b (off + 36) = .ok n ∧ u64At b (off + 40) = .ok u := by
  simp only [fileHeaderBytes] at h
  obtain ⟨h, h4⟩ := h.split (n := 40) (by simp [toBytes_length, le32_length])
  obtain ⟨h, h3⟩ := h.split (n := 36) (by simp [toBytes_length, le32_length])
  obtain ⟨h1, h2⟩ := h.split (n := 32) (by simp [toBytes_length])
  exact ⟨h1.hash, h2.u32 w1, h3.u32 w2, h4.u64 w3⟩

theorem ok_some_pair_congr {α} (x : α) {a b : Nat} (h : a = b) :
    (Except.ok (some (x, a)) : Except Err (Option (α × Nat))) = .ok (some (x, b)) := by rw [h]

theorem hash16_read {b off} {x : Hash} (h : At b off (hash16 x)) :
    readAt b off recSize = .ok (hash16 x) ∧ Hash.ofBytes (hash16 x) = x :=
  ⟨h.readAt (n := recSize) (hash16_length x), by rw [hash16, ofBytes_toBytes]⟩

theorem parseFileInfo_of_At {b off} {f : FileInfo} (h : At b off f.bytes) (w : f.WF) :
    parseFileInfo b off = .ok (some (f, off + f.bytes.length)) := by
  rw [FileInfo.bytes_length f w]
  obtain ⟨hash, flags, n, unused, segs, verif, metaExt⟩ := f
  obtain ⟨w1, w2, w3, w4, w5, w6, w7, w8⟩ := w
  simp only [FileInfo.hasVerif, FileInfo.hasMeta] at w1 w2 w3 w4 w5 w6 w7 w8
  subst w3
  simp only [FileInfo.bytes, FileInfo.hasVerif] at h
  simp only [FileInfo.tailRecs, FileInfo.hasVerif, FileInfo.hasMeta]
  have hsl : (fileHeaderBytes hash flags segs.length unused ++ segs.flatMap segBytes).length = recSize + recSize * segs.length := by
    simp only [List.length_append, fileHeaderBytes_length, flatMap_length_const segBytes 48 _ segBytes_length, recSize]
  rcases (Bool.eq_false_or_eq_true (hasBit flags flagVerification)).symm with hV | hV
  · simp only [hV, Bool.false_eq_true, if_false, List.append_nil] at h w7 ⊢
    have : verif = [] := List.eq_nil_of_length_eq_zero w7
    subst this
    cases metaExt with
    | none =>
      have hM : hasBit flags flagMetadataExt = false := by simpa using w8.symm
      simp only [List.append_nil] at h
      obtain ⟨hh, hs⟩ := h.split (n := recSize) (fileHeaderBytes_length _ _ _ _)
      obtain ⟨r1, r2, r3, r4⟩ := parseFileHeader_of_At hh w2 w4 w5
      have hsegs := parseSegs_of_At segs (off + recSize) [] hs w6
      simp only [List.reverse_nil, List.nil_append] at hsegs
      simp only [parseFileInfo, r1, r2, r3, r4, ok_bind, if_neg w1, hsegs, hV, hM, Bool.false_eq_true, if_false]
      apply ok_some_pair_congr; simp only [recSize]; omega
    | some mh =>
      have hM : hasBit flags flagMetadataExt = true := by simpa using w8.symm
      obtain ⟨h, hm⟩ := h.split hsl
      obtain ⟨hh, hs⟩ := h.split (n := recSize) (fileHeaderBytes_length _ _ _ _)
      obtain ⟨r1, r2, r3, r4⟩ := parseFileHeader_of_At hh w2 w4 w5
      have hsegs := parseSegs_of_At segs (off + recSize) [] hs w6
      simp only [List.reverse_nil, List.nil_append] at hsegs
      simp only [← Nat.add_assoc] at hm
      obtain ⟨m1, m2⟩ := hash16_read hm
      simp only [parseFileInfo, r1, r2, r3, r4, ok_bind, if_neg w1, hsegs, hV, hM, Bool.false_eq_true, if_false, if_true]
      rw [m1, ok_bind, m2]
      apply ok_some_pair_congr; simp only [recSize]; omega
  · simp only [hV, if_true] at h w7 ⊢
    have hvl : (fileHeaderBytes hash flags segs.length unused ++ segs.flatMap segBytes ++ verif.flatMap hash16).length
        = recSize + recSize * segs.length + recSize * segs.length := by
      rw [List.length_append, hsl, flatMap_length_const hash16 48 _ hash16_length, w7, recSize]
    cases metaExt with
    | none =>
      have hM : hasBit flags flagMetadataExt = false := by simpa using w8.symm
      simp only [List.append_nil] at h
      obtain ⟨h, hv⟩ := h.split hsl
      obtain ⟨hh, hs⟩ := h.split (n := recSize) (fileHeaderBytes_length _ _ _ _)
      obtain ⟨r1, r2, r3, r4⟩ := parseFileHeader_of_At hh w2 w4 w5
      have hsegs := parseSegs_of_At segs (off + recSize) [] hs w6
      simp only [List.reverse_nil, List.nil_append] at hsegs
      rw [← Nat.add_assoc] at hv
      have hver := parseHashes48_of_At verif _ [] hv
      rw [w7] at hver
      simp only [List.reverse_nil, List.nil_append] at hver
      simp only [parseFileInfo, r1, r2, r3, r4, ok_bind, if_neg w1, hsegs, hV, hM, Bool.false_eq_true, if_false, if_true, hver]
      apply ok_some_pair_congr; simp only [recSize]; omega
    | some mh =>
      have hM : hasBit flags flagMetadataExt = true := by simpa using w8.symm
      obtain ⟨h, hm⟩ := h.split hvl
      obtain ⟨h, hv⟩ := h.split hsl
      obtain ⟨hh, hs⟩ := h.split (n := recSize) (fileHeaderBytes_length _ _ _ _)
      obtain ⟨r1, r2, r3, r4⟩ := parseFileHeader_of_At hh w2 w4 w5
      have hsegs := parseSegs_of_At segs (off + recSize) [] hs w6
      simp only [List.reverse_nil, List.nil_append] at hsegs
      rw [← Nat.add_assoc] at hv
      have hver := parseHashes48_of_At verif _ [] hv
      rw [w7] at hver
      simp only [List.reverse_nil, List.nil_append] at hver
      simp only [← Nat.add_assoc] at hm
      obtain ⟨m1, m2⟩ := hash16_read hm
      simp only [parseFileInfo, r1, r2, r3, r4, ok_bind, if_neg w1, hsegs, hV, hM, if_true, hver]
      rw [m1, ok_bind, m2]
      apply ok_some_pair_congr; simp only [recSize]; omega

theorem bookend_eq_fileHeader : bookend = fileHeaderBytes bookendHash 0 0 0 := by
  simp [bookend, fileHeaderBytes, le32, le64, List.replicate]

theorem bookend_eq_casHeader : bookend = casHeaderBytes bookendHash 0 0 0 0 := by
  simp [bookend, casHeaderBytes, le32, List.replicate]

theorem parseFileInfo_bookend {b off} (h : At b off bookend) : parseFileInfo b off = .ok none := by
  rw [bookend_eq_fileHeader] at h
  obtain ⟨r1, r2, r3, r4⟩ := parseFileHeader_of_At h (by decide) (by decide) (by decide)
  simp only [parseFileInfo, r1, r2, r3, r4, ok_bind, if_true]

theorem CasInfo.bytes_length (c : CasInfo) : c.bytes.length = recSize + recSize * c.chunks.length := by
  simp only [CasInfo.bytes, List.length_append, casHeaderBytes_length,
    flatMap_length_const chunkBytes 48 _ chunkBytes_length, recSize]

theorem parseCasInfo_of_At {b off} {c : CasInfo} (h : At b off c.bytes) (w : c.WF) :
    parseCasInfo b off = .ok (some (c, off + c.bytes.length)) := by
  rw [CasInfo.bytes_length]
  obtain ⟨hash, flags, n, inCas, onDisk, chunks⟩ := c
  obtain ⟨w1, w2, w3, w4, w5, w6, w7⟩ := w
  simp only at w1 w2 w3 w4 w5 w6 w7
  subst w3
  simp only [CasInfo.bytes] at h
  obtain ⟨hh, hc⟩ := h.split (n := recSize) (casHeaderBytes_length _ _ _ _ _)
  have r1 := parseCasHeader_of_At hh w2 w4 w5 w6
  have r2 := parseChunks_of_At chunks (off + recSize) [] hc w7
  simp only [List.reverse_nil, List.nil_append] at r2
  simp only [parseCasInfo, r1, ok_bind, if_neg w1, r2]
  apply ok_some_pair_congr; omega

theorem parseCasInfo_bookend {b off} (h : At b off bookend) : parseCasInfo b off = .ok none := by
  rw [bookend_eq_casHeader] at h
  have r1 := parseCasHeader_of_At h (by decide) (by decide) (by decide) (by decide)
  simp only [parseCasInfo, r1, ok_bind, if_true]

/-! ### section scans -/

theorem readAllFiles_of_At {b} (fs : List FileInfo) (idx fuel off : Nat) (acc : List FileInfo)
    (h : At b off ((fileSection idx fs).bytes ++ bookend)) (w : ∀ f ∈ fs, f.WF) (hf : fs.length < fuel) :
    readAllFiles b fuel off acc = .ok (acc.reverse ++ fs) := by
  induction fs generalizing idx fuel off acc with
  | nil =>
    cases fuel with
    | zero => simp at hf
    | succ fuel =>
      simp only [fileSection, List.nil_append] at h
      simp [readAllFiles, parseFileInfo_bookend h]
  | cons f rest ih =>
    cases fuel with
    | zero => simp at hf
    | succ fuel =>
      simp only [fileSection, List.append_assoc] at h
      obtain ⟨h1, h2⟩ := h.split (n := f.bytes.length) rfl
      simp only [readAllFiles, parseFileInfo_of_At h1 (w f List.mem_cons_self)]
      rw [ih _ fuel _ (f :: acc) h2 (fun x hx => w x (List.mem_cons_of_mem _ hx)) (by simp at hf; omega)]
      simp

theorem readAllCas_of_At {b} (cs : List CasInfo) (idx fuel off : Nat) (acc : List CasInfo)
    (h : At b off ((casSection idx cs).bytes ++ bookend)) (w : ∀ c ∈ cs, c.WF) (hf : cs.length < fuel) :
    readAllCas b fuel off acc = .ok (acc.reverse ++ cs) := by
  induction cs generalizing idx fuel off acc with
  | nil =>
    cases fuel with
    | zero => simp at hf
    | succ fuel =>
      simp only [casSection, List.nil_append] at h
      simp [readAllCas, parseCasInfo_bookend h]
  | cons c rest ih =>
    cases fuel with
    | zero => simp at hf
    | succ fuel =>
      simp only [casSection, List.append_assoc] at h
      obtain ⟨h1, h2⟩ := h.split (n := c.bytes.length) rfl
      simp only [readAllCas, parseCasInfo_of_At h1 (w c List.mem_cons_self)]
      rw [ih _ fuel _ (c :: acc) h2 (fun x hx => w x (List.mem_cons_of_mem _ hx)) (by simp at hf; omega)]
      simp

/-! ### lookup tables -/

theorem readLookup_of_At {b} (l : List (Nat × Nat)) (off : Nat) (acc : List (Nat × Nat))
    (h : At b off (lookupBytes l)) (w : ∀ e ∈ l, e.1 < 18446744073709551616 ∧ e.2 < 4294967296) :
    readLookup b l.length off acc = .ok (acc.reverse ++ l) := by
  induction l generalizing off acc with
  | nil => simp [readLookup]
  | cons e rest ih =>
    simp only [lookupBytes, List.flatMap_cons, List.append_assoc] at h
    obtain ⟨h1, h⟩ := h.split (n := 8) (le64_length _)
    obtain ⟨h2, h3⟩ := h.split (n := 4) (le32_length _)
    obtain ⟨w1, w2⟩ := w e List.mem_cons_self
    simp only [List.length_cons, readLookup, h1.u64 w1, h2.u32 w2]
    rw [Nat.add_assoc] at h3
    rw [ih (off + 12) _ h3 (fun x hx => w x (List.mem_cons_of_mem _ hx))]
    simp

theorem readChunkLookup_of_At {b} (l : List (Nat × Nat × Nat)) (off : Nat) (acc : List (Nat × Nat × Nat))
    (h : At b off (chunkLookupBytes l))
    (w : ∀ e ∈ l, e.1 < 18446744073709551616 ∧ e.2.1 < 4294967296 ∧ e.2.2 < 4294967296) :
    readChunkLookup b l.length off acc = .ok (acc.reverse ++ l) := by
  induction l generalizing off acc with
  | nil => simp [readChunkLookup]
  | cons e rest ih =>
    simp only [chunkLookupBytes, List.flatMap_cons, List.append_assoc] at h
    obtain ⟨h1, h⟩ := h.split (n := 8) (le64_length _)
    obtain ⟨h2, h⟩ := h.split (n := 4) (le32_length _)
    obtain ⟨h3, h4⟩ := h.split (n := 4) (le32_length _)
    obtain ⟨w1, w2, w3⟩ := w e List.mem_cons_self
    rw [Nat.add_assoc] at h3
    simp only [List.length_cons, readChunkLookup, h1.u64 w1, h2.u32 w2, h3.u32 w3]
    rw [Nat.add_assoc, Nat.add_assoc] at h4
    rw [ih (off + 16) _ h4 (fun x hx => w x (List.mem_cons_of_mem _ hx))]
    simp

/-! ## Part B.4 — layout of `serialize` and whole-shard scans -/

def Mem.fileRecs (m : Mem) : Nat := sumMap FileInfo.numRecs m.files
def Mem.casRecs (m : Mem) : Nat := sumMap (fun c => 1 + c.chunks.length) m.cas
def Mem.numChunks (m : Mem) : Nat := sumMap (fun c => c.chunks.length) m.cas

/-- in-memory shard content as `MDBInMemoryShard` holds it: both maps strictly increasing in the hash order
    (`BTreeMap`), every record well-formed, and fewer than 2^32 records per section (record indices are `u32`) -/
def Mem.WF (m : Mem) : Prop :=
  m.files.Pairwise (fun a b => hashLt a.hash b.hash = true) ∧
  m.cas.Pairwise (fun a b => hashLt a.hash b.hash = true) ∧
  (∀ f ∈ m.files, f.WF) ∧ (∀ c ∈ m.cas, c.WF) ∧ m.fileRecs < 4294967296 ∧ m.casRecs < 4294967296

instance (m : Mem) : Decidable m.WF := by unfold Mem.WF; infer_instance

/-- a chunk table the writer may produce: `sort_unstable_by_key` yields *some* key-sorted permutation -/
def LegalChunkTable (m : Mem) (t : List (Nat × Nat × Nat)) : Prop :=
  t.Perm (casSection 0 m.cas).chunkLookup ∧ keySorted t = true

theorem lookupBytes_length (l : List (Nat × Nat)) : (lookupBytes l).length = 12 * l.length := by
  unfold lookupBytes
  exact flatMap_length_const _ 12 l (by intro x; simp [le64_length, le32_length])

theorem chunkLookupBytes_length (l : List (Nat × Nat × Nat)) : (chunkLookupBytes l).length = 16 * l.length := by
  unfold chunkLookupBytes
  exact flatMap_length_const _ 16 l (by intro x; simp [le64_length, le32_length])

theorem headerBytes_length : headerBytes.length = 48 := by decide

theorem fileSection_bytes_length (idx : Nat) (fs : List FileInfo) (w : ∀ f ∈ fs, f.WF) :
    (fileSection idx fs).bytes.length = recSize * sumMap FileInfo.numRecs fs := by
  induction fs generalizing idx with
  | nil => simp [fileSection, sumMap]
  | cons f rest ih =>
    simp only [fileSection, List.length_append, sumMap_cons,
      ih _ (fun x hx => w x (List.mem_cons_of_mem _ hx)), FileInfo.bytes_length' f (w f List.mem_cons_self)]
    rw [Nat.mul_add]

theorem fileSection_lookup_length (idx : Nat) (fs : List FileInfo) : (fileSection idx fs).lookup.length = fs.length := by
  induction fs generalizing idx with
  | nil => simp [fileSection]
  | cons f rest ih => simp [fileSection, ih]

theorem casSection_bytes_length (idx : Nat) (cs : List CasInfo) :
    (casSection idx cs).bytes.length = recSize * sumMap (fun c => 1 + c.chunks.length) cs := by
  induction cs generalizing idx with
  | nil => simp [casSection, sumMap]
  | cons c rest ih =>
    simp only [casSection, List.length_append, sumMap_cons, ih, CasInfo.bytes_length]
    rw [Nat.mul_add, Nat.mul_add]; simp

theorem casSection_lookup_length (idx : Nat) (cs : List CasInfo) : (casSection idx cs).lookup.length = cs.length := by
  induction cs generalizing idx with
  | nil => simp [casSection]
  | cons c rest ih => simp [casSection, ih]

theorem chunkEntries_length (idx i : Nat) (chs : List Chunk) : (chunkEntries idx i chs).length = chs.length := by
  induction chs generalizing i with
  | nil => simp [chunkEntries]
  | cons c rest ih => simp [chunkEntries, ih]

theorem casSection_chunkLookup_length (idx : Nat) (cs : List CasInfo) :
    (casSection idx cs).chunkLookup.length = sumMap (fun c => c.chunks.length) cs := by
  induction cs generalizing idx with
  | nil => simp [casSection, sumMap]
  | cons c rest ih => simp [casSection, ih, chunkEntries_length, sumMap_cons]

theorem numRecs_pos (f : FileInfo) (w : f.WF) : 1 ≤ f.numRecs := by rw [FileInfo.numRecs_eq f w]; omega

theorem length_le_sumMap {α} (f : α → Nat) (l : List α) (h : ∀ x ∈ l, 1 ≤ f x) : l.length ≤ sumMap f l := by
  induction l with
  | nil => simp [sumMap]
  | cons x xs ih =>
    have := ih (fun y hy => h y (List.mem_cons_of_mem _ hy))
    have := h x List.mem_cons_self
    simp only [List.length_cons, sumMap_cons]; omega

theorem sumMap_le_mul {α} (f : α → Nat) (k : Nat) (l : List α) (h : ∀ x ∈ l, f x ≤ k) : sumMap f l ≤ l.length * k := by
  induction l with
  | nil => simp [sumMap]
  | cons x xs ih =>
    have := ih (fun y hy => h y (List.mem_cons_of_mem _ hy))
    have := h x List.mem_cons_self
    simp only [List.length_cons, sumMap_cons, Nat.add_mul]; omega

theorem sumMap_mono {α} (f g : α → Nat) (l : List α) (h : ∀ x ∈ l, f x ≤ g x) : sumMap f l ≤ sumMap g l := by
  induction l with
  | nil => simp [sumMap]
  | cons x xs ih =>
    have := ih (fun y hy => h y (List.mem_cons_of_mem _ hy))
    have := h x List.mem_cons_self
    simp only [sumMap_cons]; omega

/-! ### bounds on table entries -/

theorem trunc_lt (h : Hash) : trunc h < 18446744073709551616 := h.w0.toNat_lt

theorem fileSection_lookup_bounds (idx : Nat) (fs : List FileInfo) (w : ∀ f ∈ fs, f.WF) :
    ∀ e ∈ (fileSection idx fs).lookup, e.1 < 18446744073709551616 ∧ idx ≤ e.2 ∧ e.2 < idx + sumMap FileInfo.numRecs fs := by
  induction fs generalizing idx with
  | nil => simp [fileSection]
  | cons f rest ih =>
    intro e he
    simp only [fileSection, List.mem_cons] at he
    have hp := numRecs_pos f (w f List.mem_cons_self)
    rcases he with rfl | he
    · exact ⟨trunc_lt _, Nat.le_refl _, by simp only [sumMap_cons]; omega⟩
    · have := ih (idx + f.numRecs) (fun x hx => w x (List.mem_cons_of_mem _ hx)) e he
      simp only [sumMap_cons]; omega

theorem casSection_lookup_bounds (idx : Nat) (cs : List CasInfo) :
    ∀ e ∈ (casSection idx cs).lookup,
      e.1 < 18446744073709551616 ∧ idx ≤ e.2 ∧ e.2 < idx + sumMap (fun c => 1 + c.chunks.length) cs := by
  induction cs generalizing idx with
  | nil => simp [casSection]
  | cons c rest ih =>
    intro e he
    simp only [casSection, List.mem_cons] at he
    rcases he with rfl | he
    · exact ⟨trunc_lt _, Nat.le_refl _, by simp only [sumMap_cons]; omega⟩
    · have := ih (idx + 1 + c.chunks.length) e he
      simp only [sumMap_cons]; omega

theorem chunkEntries_bounds (idx i : Nat) (chs : List Chunk) :
    ∀ e ∈ chunkEntries idx i chs, e.1 < 18446744073709551616 ∧ e.2.1 = idx ∧ i ≤ e.2.2 ∧ e.2.2 < i + chs.length := by
  induction chs generalizing i with
  | nil => simp [chunkEntries]
  | cons c rest ih =>
    intro e he
    simp only [chunkEntries, List.mem_cons] at he
    rcases he with rfl | he
    · exact ⟨trunc_lt _, rfl, Nat.le_refl _, by simp⟩
    · have := ih (i + 1) e he
      simp only [List.length_cons]; omega

theorem casSection_chunkLookup_bounds (idx : Nat) (cs : List CasInfo) :
    ∀ e ∈ (casSection idx cs).chunkLookup,
      e.1 < 18446744073709551616 ∧ e.2.1 < idx + sumMap (fun c => 1 + c.chunks.length) cs ∧
      e.2.2 < sumMap (fun c => 1 + c.chunks.length) cs := by
  induction cs generalizing idx with
  | nil => simp [casSection]
  | cons c rest ih =>
    intro e he
    simp only [casSection, List.mem_append] at he
    rcases he with he | he
    · have := chunkEntries_bounds idx 0 c.chunks e he
      simp only [sumMap_cons]; omega
    · have := ih (idx + 1 + c.chunks.length) e he
      simp only [sumMap_cons]; omega

/-! ### where the parts of a serialized shard lie -/

structure Layout (m : Mem) (t : List (Nat × Nat × Nat)) : Prop where
  files : At (serialize m t).bytes headerSize ((fileSection 0 m.files).bytes ++ bookend)
  cas : At (serialize m t).bytes (serialize m t).footer.casInfoOff ((casSection 0 m.cas).bytes ++ bookend)
  fileLookup : At (serialize m t).bytes (serialize m t).footer.fileLookupOff (lookupBytes (fileSection 0 m.files).lookup)
  casLookup : At (serialize m t).bytes (serialize m t).footer.casLookupOff (lookupBytes (casSection 0 m.cas).lookup)
  chunkLookup : At (serialize m t).bytes (serialize m t).footer.chunkLookupOff (chunkLookupBytes t)
  footer : At (serialize m t).bytes (serialize m t).footer.footerOff (serialize m t).footer.bytes
  header : At (serialize m t).bytes 0 headerBytes

theorem serialize_layout (m : Mem) (t : List (Nat × Nat × Nat)) : Layout m t := by
  constructor
  · exact At.mk' (pre := headerBytes) (post := (casSection 0 m.cas).bytes ++ bookend ++ lookupBytes (fileSection 0 m.files).lookup
      ++ lookupBytes (casSection 0 m.cas).lookup ++ chunkLookupBytes t ++ (serialize m t).footer.bytes)
      (by simp [serialize, List.append_assoc]) (by simp [headerBytes_length, headerSize])
  · exact At.mk' (pre := headerBytes ++ (fileSection 0 m.files).bytes ++ bookend)
      (post := lookupBytes (fileSection 0 m.files).lookup
      ++ lookupBytes (casSection 0 m.cas).lookup ++ chunkLookupBytes t ++ (serialize m t).footer.bytes)
      (by simp [serialize, List.append_assoc])
      (by simp [serialize, headerBytes_length, headerSize, bookend_length, recSize]; omega)
  · exact At.mk' (pre := headerBytes ++ (fileSection 0 m.files).bytes ++ bookend ++ (casSection 0 m.cas).bytes ++ bookend)
      (post := lookupBytes (casSection 0 m.cas).lookup ++ chunkLookupBytes t ++ (serialize m t).footer.bytes)
      (by simp [serialize, List.append_assoc])
      (by simp [serialize, headerBytes_length, headerSize, bookend_length, recSize]; omega)
  · exact At.mk' (pre := headerBytes ++ (fileSection 0 m.files).bytes ++ bookend ++ (casSection 0 m.cas).bytes ++ bookend
        ++ lookupBytes (fileSection 0 m.files).lookup)
      (post := chunkLookupBytes t ++ (serialize m t).footer.bytes)
      (by simp [serialize, List.append_assoc])
      (by simp [serialize, headerBytes_length, headerSize, bookend_length, recSize, lookupBytes_length]; omega)
  · exact At.mk' (pre := headerBytes ++ (fileSection 0 m.files).bytes ++ bookend ++ (casSection 0 m.cas).bytes ++ bookend
        ++ lookupBytes (fileSection 0 m.files).lookup ++ lookupBytes (casSection 0 m.cas).lookup)
      (post := (serialize m t).footer.bytes)
      (by simp [serialize, List.append_assoc])
      (by simp [serialize, headerBytes_length, headerSize, bookend_length, recSize, lookupBytes_length]; omega)
  · exact At.mk' (pre := headerBytes ++ (fileSection 0 m.files).bytes ++ bookend ++ (casSection 0 m.cas).bytes ++ bookend
        ++ lookupBytes (fileSection 0 m.files).lookup ++ lookupBytes (casSection 0 m.cas).lookup ++ chunkLookupBytes t)
      (post := [])
      (by simp [serialize, List.append_assoc])
      (by simp [serialize, headerBytes_length, headerSize, bookend_length, recSize, lookupBytes_length,
            chunkLookupBytes_length]; omega)
  · exact At.mk' (pre := []) (post := (fileSection 0 m.files).bytes ++ bookend ++ (casSection 0 m.cas).bytes ++ bookend
        ++ lookupBytes (fileSection 0 m.files).lookup ++ lookupBytes (casSection 0 m.cas).lookup ++ chunkLookupBytes t
        ++ (serialize m t).footer.bytes)
      (by simp [serialize, List.append_assoc]) rfl

/-! ## Part B.5 — footer round trip and `load_from_reader` -/

/-- every footer field fits its 64-bit slot and the reserved buffer is zero (what the writers produce) -/
structure Footer.Fits (ft : Footer) : Prop where
  version : ft.version = footerVersion
  fileInfoOff : ft.fileInfoOff < 18446744073709551616
  casInfoOff : ft.casInfoOff < 18446744073709551616
  fileLookupOff : ft.fileLookupOff < 18446744073709551616
  fileLookupNum : ft.fileLookupNum < 18446744073709551616
  casLookupOff : ft.casLookupOff < 18446744073709551616
  casLookupNum : ft.casLookupNum < 18446744073709551616
  chunkLookupOff : ft.chunkLookupOff < 18446744073709551616
  chunkLookupNum : ft.chunkLookupNum < 18446744073709551616
  creation : ft.creation < 18446744073709551616
  expiry : ft.expiry < 18446744073709551616
  buffer : ft.buffer = [0, 0, 0, 0, 0, 0]
  storedOnDisk : ft.storedOnDisk < 18446744073709551616
  materialized : ft.materialized < 18446744073709551616
  stored : ft.stored < 18446744073709551616
  footerOff : ft.footerOff < 18446744073709551616

theorem Footer.bytes_length (ft : Footer) (hb : ft.buffer.length = 6) : ft.bytes.length = 200 := by
  simp only [Footer.bytes, List.length_append, le64_length, toBytes_length,
    flatMap_length_const le64 8 _ le64_length, hb]

theorem parseFooter_of_At {b off} {ft : Footer} (h : At b off ft.bytes) (w : ft.Fits) : parseFooter b off = .ok ft := by
  obtain ⟨v, a1, a2, a3, a4, a5, a6, a7, a8, key, cr, ex, buf, s1, s2, s3, fo⟩ := ft
  obtain ⟨wv, w1, w2, w3, w4, w5, w6, w7, w8, wc, we, wb, ws1, ws2, ws3, wfo⟩ := w
  simp only at wv w1 w2 w3 w4 w5 w6 w7 w8 wc we wb ws1 ws2 ws3 wfo
  subst wb wv
  simp only [Footer.bytes, List.flatMap_cons, List.flatMap_nil, List.append_assoc, List.append_nil] at h
  obtain ⟨g0, h⟩ := h.split (le64_length _)
  obtain ⟨g1, h⟩ := h.split (le64_length _)
  obtain ⟨g2, h⟩ := h.split (le64_length _)
  obtain ⟨g3, h⟩ := h.split (le64_length _)
  obtain ⟨g4, h⟩ := h.split (le64_length _)
  obtain ⟨g5, h⟩ := h.split (le64_length _)
  obtain ⟨g6, h⟩ := h.split (le64_length _)
  obtain ⟨g7, h⟩ := h.split (le64_length _)
  obtain ⟨g8, h⟩ := h.split (le64_length _)
  obtain ⟨gk, h⟩ := h.split (toBytes_length _)
  obtain ⟨gc, h⟩ := h.split (le64_length _)
  obtain ⟨ge, h⟩ := h.split (le64_length _)
  obtain ⟨b0, h⟩ := h.split (le64_length _)
  obtain ⟨b1, h⟩ := h.split (le64_length _)
  obtain ⟨b2, h⟩ := h.split (le64_length _)
  obtain ⟨b3, h⟩ := h.split (le64_length _)
  obtain ⟨b4, h⟩ := h.split (le64_length _)
  obtain ⟨b5, h⟩ := h.split (le64_length _)
  obtain ⟨t1, h⟩ := h.split (le64_length _)
  obtain ⟨t2, h⟩ := h.split (le64_length _)
  obtain ⟨t3, t4⟩ := h.split (le64_length _)
  simp only [Nat.add_assoc, Nat.reduceAdd] at g1 g2 g3 g4 g5 g6 g7 g8 gk gc ge b0 b1 b2 b3 b4 b5 t1 t2 t3 t4
  have z : (0 : Nat) < 18446744073709551616 := by decide
  simp only [parseFooter, g0.u64 (by decide), g1.u64 w1, g2.u64 w2, g3.u64 w3, g4.u64 w4, g5.u64 w5, g6.u64 w6, g7.u64 w7,
    g8.u64 w8, gk.hash, gc.u64 wc, ge.u64 we, b0.u64 z, b1.u64 z, b2.u64 z, b3.u64 z, b4.u64 z, b5.u64 z,
    t1.u64 ws1, t2.u64 ws2, t3.u64 ws3, t4.u64 wfo, ok_bind, ne_eq, not_true_eq_false, if_false]

theorem headerTag_length : headerTag.length = 32 := by decide

/-- `load_from_reader` on any byte string that starts with the header and ends with a fitting footer -/
theorem loadInfo_of_At {b} {ft : Footer} (hh : At b 0 headerBytes) (hf : At b (b.length - footerSize) ft.bytes)
    (w : ft.Fits) : loadInfo b = .ok ft := by
  have hlen : footerSize ≤ b.length := by
    have := hf.le
    rw [Footer.bytes_length ft (by rw [w.buffer]; rfl)] at this
    simp only [footerSize, Gen.mdbShardFooterSize]; omega
  simp only [headerBytes, List.append_assoc] at hh
  obtain ⟨h1, hh⟩ := hh.split headerTag_length
  obtain ⟨h2, h3⟩ := hh.split (le64_length _)
  simp only [Nat.zero_add, Nat.reduceAdd] at h2 h3
  simp only [loadInfo, h1.readAt headerTag_length, ok_bind, ne_eq, not_true_eq_false, if_false,
    h2.u64 (by decide), h3.u64 (by decide), Nat.not_lt.mpr hlen, parseFooter_of_At hf w]

/-! ## Part B.6 — the footer `serialize` writes fits, and the whole-shard scans return the content -/

theorem sumMap_mul_const {α} (g : α → Nat) (k : Nat) (l : List α) : sumMap (fun x => g x * k) l = sumMap g l * k := by
  induction l with
  | nil => simp [sumMap]
  | cons x xs ih => simp only [sumMap_cons, ih, Nat.add_mul]

theorem Mem.WF.files_le {m : Mem} (w : m.WF) : m.files.length ≤ m.fileRecs :=
  length_le_sumMap _ _ (fun f hf => numRecs_pos f (w.2.2.1 f hf))

theorem Mem.cas_le (m : Mem) : m.cas.length ≤ m.casRecs :=
  length_le_sumMap _ _ (fun c _ => by omega)

theorem Mem.numChunks_le (m : Mem) : m.numChunks ≤ m.casRecs :=
  sumMap_mono _ _ _ (fun c _ => by omega)

theorem Mem.WF.storedOnDisk_lt {m : Mem} (w : m.WF) : m.storedOnDisk < 18446744073709551616 := by
  have h1 : m.storedOnDisk ≤ m.cas.length * 4294967295 :=
    sumMap_le_mul _ _ _ (fun c hc => by have := (w.2.2.2.1 c hc).2.2.2.2.2.1; omega)
  have := m.cas_le; have := w.2.2.2.2.2
  omega

theorem Mem.WF.stored_lt {m : Mem} (w : m.WF) : m.stored < 18446744073709551616 := by
  have h1 : m.stored ≤ m.cas.length * 4294967295 :=
    sumMap_le_mul _ _ _ (fun c hc => by have := (w.2.2.2.1 c hc).2.2.2.2.1; omega)
  have := m.cas_le; have := w.2.2.2.2.2
  omega

theorem Mem.WF.materialized_lt {m : Mem} (w : m.WF) : m.materialized < 18446744073709551616 := by
  have h1 : m.materialized ≤ sumMap (fun f => f.numRecs * 4294967295) m.files := by
    apply sumMap_mono
    intro f hf
    have wf := w.2.2.1 f hf
    have h2 : sumMap (·.bytes) f.segs ≤ f.segs.length * 4294967295 :=
      sumMap_le_mul _ _ _ (fun s hs => by have := (wf.2.2.2.2.2.1 s hs).2.1; omega)
    have h3 : f.segs.length ≤ f.numRecs := by rw [FileInfo.numRecs_eq f wf, FileInfo.tailRecs]; omega
    exact Nat.le_trans h2 (Nat.mul_le_mul_right _ h3)
  rw [sumMap_mul_const] at h1
  have := w.2.2.2.2.1
  simp only [Mem.fileRecs] at this
  omega

theorem serialize_footer_fits (m : Mem) (t : List (Nat × Nat × Nat)) (w : m.WF) (ht : t.length < 4294967296) :
    (serialize m t).footer.Fits := by
  have h1 := fileSection_bytes_length 0 m.files w.2.2.1
  have h2 := casSection_bytes_length 0 m.cas
  have h3 := fileSection_lookup_length 0 m.files
  have h4 := casSection_lookup_length 0 m.cas
  have h5 := w.files_le
  have h6 := m.cas_le
  have h7 := w.2.2.2.2.1
  have h8 := w.2.2.2.2.2
  have h9 := w.storedOnDisk_lt
  have h10 := w.stored_lt
  have h11 := w.materialized_lt
  simp only [Mem.fileRecs, Mem.casRecs] at h5 h6 h7 h8
  constructor <;> simp only [serialize, h1, h2, h3, h4, headerSize, recSize] <;> first | rfl | omega | decide

theorem serialize_length (m : Mem) (t : List (Nat × Nat × Nat)) :
    (serialize m t).bytes.length = (serialize m t).footer.footerOff + footerSize := by
  have := (serialize_layout m t).footer
  obtain ⟨pre, post, hb, hp⟩ := this
  have hl : (serialize m t).footer.bytes.length = 200 := Footer.bytes_length _ (by simp [serialize])
  simp only [serialize, List.length_append, headerBytes_length, bookend_length, lookupBytes_length, chunkLookupBytes_length,
    headerSize, recSize, footerSize, Gen.mdbShardFooterSize] at hl ⊢
  omega

theorem loadInfo_serialize (m : Mem) (t : List (Nat × Nat × Nat)) (w : m.WF) (ht : t.length < 4294967296) :
    loadInfo (serialize m t).bytes = .ok (serialize m t).footer := by
  apply loadInfo_of_At (serialize_layout m t).header _ (serialize_footer_fits m t w ht)
  have := (serialize_layout m t).footer
  rw [serialize_length]
  simpa using this

theorem readAllFiles_serialize (m : Mem) (t : List (Nat × Nat × Nat)) (w : m.WF) (fuel : Nat) (hf : m.files.length < fuel) :
    readAllFiles (serialize m t).bytes fuel headerSize [] = .ok m.files := by
  have := readAllFiles_of_At m.files 0 fuel headerSize [] (serialize_layout m t).files w.2.2.1 hf
  simpa using this

theorem readAllCas_serialize (m : Mem) (t : List (Nat × Nat × Nat)) (w : m.WF) (fuel : Nat) (hf : m.cas.length < fuel) :
    readAllCas (serialize m t).bytes fuel (serialize m t).footer.casInfoOff [] = .ok m.cas := by
  have := readAllCas_of_At m.cas 0 fuel _ [] (serialize_layout m t).cas w.2.2.2.1 hf
  simpa using this

theorem legal_table_bounds (m : Mem) (t : List (Nat × Nat × Nat)) (w : m.WF) (ht : LegalChunkTable m t) :
    ∀ e ∈ t, e.1 < 18446744073709551616 ∧ e.2.1 < 4294967296 ∧ e.2.2 < 4294967296 := by
  intro e he
  have := casSection_chunkLookup_bounds 0 m.cas e (ht.1.mem_iff.mp he)
  have h8 := w.2.2.2.2.2
  simp only [Mem.casRecs] at h8
  omega

theorem legal_table_length (m : Mem) (t : List (Nat × Nat × Nat)) (ht : LegalChunkTable m t) : t.length = m.numChunks := by
  rw [ht.1.length_eq, casSection_chunkLookup_length]; rfl

theorem readChunkLookup_serialize (m : Mem) (t : List (Nat × Nat × Nat))
    (hb : ∀ e ∈ t, e.1 < 18446744073709551616 ∧ e.2.1 < 4294967296 ∧ e.2.2 < 4294967296) :
    readChunkLookup (serialize m t).bytes (serialize m t).footer.chunkLookupNum (serialize m t).footer.chunkLookupOff [] = .ok t := by
  have := readChunkLookup_of_At t _ [] (serialize_layout m t).chunkLookup hb
  simpa [serialize] using this

theorem readFileLookup_serialize (m : Mem) (t : List (Nat × Nat × Nat)) (w : m.WF) :
    readLookup (serialize m t).bytes (serialize m t).footer.fileLookupNum (serialize m t).footer.fileLookupOff []
      = .ok (fileSection 0 m.files).lookup := by
  have h7 := w.2.2.2.2.1
  have := readLookup_of_At _ _ [] (serialize_layout m t).fileLookup (by
    intro e he
    have := fileSection_lookup_bounds 0 m.files w.2.2.1 e he
    simp only [Mem.fileRecs] at h7
    omega)
  simpa [serialize] using this

theorem readCasLookup_serialize (m : Mem) (t : List (Nat × Nat × Nat)) (w : m.WF) :
    readLookup (serialize m t).bytes (serialize m t).footer.casLookupNum (serialize m t).footer.casLookupOff []
      = .ok (casSection 0 m.cas).lookup := by
  have h8 := w.2.2.2.2.2
  have := readLookup_of_At _ _ [] (serialize_layout m t).casLookup (by
    intro e he
    have := casSection_lookup_bounds 0 m.cas e he
    simp only [Mem.casRecs] at h8
    omega)
  simpa [serialize] using this

/-! ## Part B.7 — the hash order, sorted lookup tables, and `get_file_reconstruction_info` -/

theorem hashLt_iff (a b : Hash) : hashLt a b = true ↔
    (a.w0.toNat < b.w0.toNat ∨ (a.w0.toNat = b.w0.toNat ∧ (a.w1.toNat < b.w1.toNat ∨ (a.w1.toNat = b.w1.toNat ∧
      (a.w2.toNat < b.w2.toNat ∨ (a.w2.toNat = b.w2.toNat ∧ a.w3.toNat < b.w3.toNat)))))) := by
  simp [hashLt, UInt64.lt_iff_toNat_lt, ← UInt64.toNat_inj]

theorem Hash.eq_iff (a b : Hash) : a = b ↔
    a.w0.toNat = b.w0.toNat ∧ a.w1.toNat = b.w1.toNat ∧ a.w2.toNat = b.w2.toNat ∧ a.w3.toNat = b.w3.toNat := by
  constructor
  · rintro rfl; simp
  · intro h
    cases a; cases b
    simp only [← UInt64.toNat_inj, Hash.mk.injEq]
    exact h

theorem hashLt_irrefl (a : Hash) : hashLt a a = false := by
  cases h : hashLt a a
  · rfl
  · rw [hashLt_iff] at h; omega

theorem hashLt_trans {a b c : Hash} (h1 : hashLt a b = true) (h2 : hashLt b c = true) : hashLt a c = true := by
  rw [hashLt_iff] at *; omega

theorem hashLt_asymm {a b : Hash} (h1 : hashLt a b = true) : hashLt b a = false := by
  cases h : hashLt b a
  · rfl
  · rw [hashLt_iff] at *; omega

theorem hashLt_trichotomy (a b : Hash) : hashLt a b = true ∨ a = b ∨ hashLt b a = true := by
  rw [hashLt_iff, hashLt_iff, Hash.eq_iff]; omega

theorem hashLt_ne {a b : Hash} (h : hashLt a b = true) : a ≠ b := by
  rintro rfl; rw [hashLt_irrefl] at h; cases h

/-- the truncated hash is the most significant word of the order -/
theorem trunc_le_of_hashLt {a b : Hash} (h : hashLt a b = true) : trunc a ≤ trunc b := by
  rw [hashLt_iff] at h; simp only [trunc]; omega

/-! ### lookup tables are sorted by key -/

theorem fileSection_lookup_keys (idx : Nat) (fs : List FileInfo) :
    (fileSection idx fs).lookup.map (·.1) = fs.map (fun f => trunc f.hash) := by
  induction fs generalizing idx with
  | nil => simp [fileSection]
  | cons f rest ih => simp [fileSection, ih]

theorem casSection_lookup_keys (idx : Nat) (cs : List CasInfo) :
    (casSection idx cs).lookup.map (·.1) = cs.map (fun c => trunc c.hash) := by
  induction cs generalizing idx with
  | nil => simp [casSection]
  | cons c rest ih => simp [casSection, ih]

theorem pairwise_keys_of_map {l : List (Nat × Nat)} (h : (l.map (·.1)).Pairwise (· ≤ ·)) :
    l.Pairwise (fun a b => a.1 ≤ b.1) := by
  rw [List.pairwise_map] at h; exact h

theorem fileSection_lookup_sorted (idx : Nat) (fs : List FileInfo)
    (h : fs.Pairwise (fun a b => hashLt a.hash b.hash = true)) :
    (fileSection idx fs).lookup.Pairwise (fun a b => a.1 ≤ b.1) := by
  apply pairwise_keys_of_map
  rw [fileSection_lookup_keys, List.pairwise_map]
  exact h.imp (fun hab => trunc_le_of_hashLt hab)

theorem casSection_lookup_sorted (idx : Nat) (cs : List CasInfo)
    (h : cs.Pairwise (fun a b => hashLt a.hash b.hash = true)) :
    (casSection idx cs).lookup.Pairwise (fun a b => a.1 ≤ b.1) := by
  apply pairwise_keys_of_map
  rw [casSection_lookup_keys, List.pairwise_map]
  exact h.imp (fun hab => trunc_le_of_hashLt hab)

/-! ### `sortByKey` -/

theorem keySorted_iff (l : List (Nat × Nat × Nat)) : keySorted l = true ↔ l.Pairwise (fun a b => a.1 ≤ b.1) := by
  induction l with
  | nil => simp [keySorted]
  | cons a rest ih =>
    cases rest with
    | nil => simp [keySorted]
    | cons b rest =>
      simp only [keySorted, Bool.and_eq_true, decide_eq_true_eq, ih, List.pairwise_cons]
      constructor
      · rintro ⟨hab, hb, hr⟩
        refine ⟨?_, hb, hr⟩
        intro x hx
        rcases List.mem_cons.mp hx with rfl | hx
        · exact hab
        · exact Nat.le_trans hab (hb x hx)
      · rintro ⟨ha, hb, hr⟩
        exact ⟨ha b List.mem_cons_self, hb, hr⟩

theorem insertByKey_perm (e : Nat × Nat × Nat) (l : List (Nat × Nat × Nat)) : (insertByKey e l).Perm (e :: l) := by
  induction l with
  | nil => simp [insertByKey]
  | cons x rest ih =>
    simp only [insertByKey]
    split
    · exact List.Perm.refl _
    · exact (List.Perm.cons x ih).trans (List.Perm.swap e x rest)

theorem insertByKey_sorted (e : Nat × Nat × Nat) (l : List (Nat × Nat × Nat))
    (h : l.Pairwise (fun a b => a.1 ≤ b.1)) : (insertByKey e l).Pairwise (fun a b => a.1 ≤ b.1) := by
  induction l with
  | nil => simp [insertByKey]
  | cons x rest ih =>
    simp only [insertByKey]
    rw [List.pairwise_cons] at h
    split
    · rename_i hlt
      refine List.pairwise_cons.mpr ⟨?_, List.pairwise_cons.mpr h⟩
      intro y hy
      rcases List.mem_cons.mp hy with rfl | hy
      · omega
      · have := h.1 y hy; omega
    · rename_i hge
      refine List.pairwise_cons.mpr ⟨?_, ih h.2⟩
      intro y hy
      rcases List.mem_cons.mp ((insertByKey_perm e rest).mem_iff.mp hy) with rfl | hy
      · omega
      · exact h.1 y hy

theorem foldl_insertByKey (l acc : List (Nat × Nat × Nat)) (h : acc.Pairwise (fun a b => a.1 ≤ b.1)) :
    (l.foldl (fun acc e => insertByKey e acc) acc).Pairwise (fun a b => a.1 ≤ b.1) ∧
    (l.foldl (fun acc e => insertByKey e acc) acc).Perm (l ++ acc) := by
  induction l generalizing acc with
  | nil => exact ⟨h, List.Perm.refl _⟩
  | cons e rest ih =>
    simp only [List.foldl_cons]
    obtain ⟨h1, h2⟩ := ih (insertByKey e acc) (insertByKey_sorted e acc h)
    refine ⟨h1, h2.trans ?_⟩
    have : (rest ++ insertByKey e acc).Perm (rest ++ e :: acc) := List.Perm.append_left rest (insertByKey_perm e acc)
    exact this.trans (by simp)

theorem sortByKey_sorted (l : List (Nat × Nat × Nat)) : keySorted (sortByKey l) = true :=
  (keySorted_iff _).mpr (foldl_insertByKey l [] List.Pairwise.nil).1

theorem sortByKey_perm (l : List (Nat × Nat × Nat)) : (sortByKey l).Perm l := by
  simpa [sortByKey] using (foldl_insertByKey l [] List.Pairwise.nil).2

theorem serializeStable_legal (m : Mem) : LegalChunkTable m (sortByKey (casSection 0 m.cas).chunkLookup) :=
  ⟨sortByKey_perm _, sortByKey_sorted _⟩

/-! ### `findFile` as a specification of lookups -/

theorem findFile_some {h : Hash} {fs : List FileInfo} {f : FileInfo} (hf : findFile h fs = some f) : f ∈ fs ∧ f.hash = h := by
  induction fs with
  | nil => simp [findFile] at hf
  | cons g rest ih =>
    simp only [findFile] at hf
    split at hf
    · rename_i hg; cases hf; exact ⟨List.mem_cons_self, hg⟩
    · exact ⟨List.mem_cons_of_mem _ (ih hf).1, (ih hf).2⟩

theorem findFile_none {h : Hash} {fs : List FileInfo} : findFile h fs = none ↔ ∀ f ∈ fs, f.hash ≠ h := by
  induction fs with
  | nil => simp [findFile]
  | cons g rest ih =>
    simp only [findFile]
    split
    · rename_i hg; simp [hg]
    · rename_i hg; simp [ih, hg]

/-- in a strictly increasing list every stored record is what its hash looks up -/
theorem findFile_mem {fs : List FileInfo} (hs : fs.Pairwise (fun a b => hashLt a.hash b.hash = true)) {f : FileInfo}
    (hf : f ∈ fs) : findFile f.hash fs = some f := by
  induction fs with
  | nil => cases hf
  | cons g rest ih =>
    rw [List.pairwise_cons] at hs
    simp only [findFile]
    rcases List.mem_cons.mp hf with rfl | hf
    · simp
    · rw [if_neg (hashLt_ne (hs.1 f hf)), ih hs.2 hf]

/-- number of stored files whose truncated hash equals that of `h` -/
def prefixCount (h : Hash) (fs : List FileInfo) : Nat := (fs.filter (fun f => trunc f.hash == trunc h)).length

theorem fileSection_filter_length (idx : Nat) (fs : List FileInfo) (k : Nat) :
    ((fileSection idx fs).lookup.filter (fun e => e.1 == k)).length = (fs.filter (fun f => trunc f.hash == k)).length := by
  induction fs generalizing idx with
  | nil => simp [fileSection]
  | cons f rest ih =>
    simp only [fileSection, List.filter_cons]
    split <;> simp [ih]

theorem fileFromCandidates_section (b : Bytes) (ft : Footer) (h : Hash) (fs : List FileInfo) (idx : Nat)
    (hAt : At b (ft.fileInfoOff + recSize * idx) (fileSection idx fs).bytes) (w : ∀ f ∈ fs, f.WF) :
    fileFromCandidates b ft h (((fileSection idx fs).lookup.filter (fun e => e.1 == trunc h)).map (·.2))
      = .ok (findFile h fs) := by
  induction fs generalizing idx with
  | nil => simp [fileSection, fileFromCandidates, findFile]
  | cons f rest ih =>
    simp only [fileSection] at hAt ⊢
    obtain ⟨h1, h2⟩ := hAt.split (n := f.bytes.length) rfl
    have wf := w f List.mem_cons_self
    rw [FileInfo.bytes_length' f wf, Nat.add_assoc, ← Nat.mul_add] at h2
    have ih' := ih (idx + f.numRecs) h2 (fun x hx => w x (List.mem_cons_of_mem _ hx))
    simp only [List.filter_cons]
    split
    · simp only [List.map_cons, fileFromCandidates, parseFileInfo_of_At h1 wf, findFile]
      split
      · rfl
      · exact ih'
    · rename_i hne
      have : f.hash ≠ h := by
        intro he; rw [he] at hne; simp at hne
      simp only [findFile, if_neg this]
      exact ih'

/-! ### file lookup for candidates in any order (the table search returns a permutation of the matching rows) -/

/-- every row `(key, idx)` of the file lookup table is the truncated hash and record index of a stored file, and
    every stored file has its row -/
theorem fileSection_lookup_entry {b : Bytes} (base : Nat) (fs : List FileInfo) (idx0 : Nat) (w : ∀ f ∈ fs, f.WF)
    (hAt : At b (base + recSize * idx0) (fileSection idx0 fs).bytes) :
    (∀ e ∈ (fileSection idx0 fs).lookup, ∃ f ∈ fs, e.1 = trunc f.hash ∧ At b (base + recSize * e.2) f.bytes) ∧
    (∀ f ∈ fs, ∃ e ∈ (fileSection idx0 fs).lookup, e.1 = trunc f.hash ∧ At b (base + recSize * e.2) f.bytes) := by
  induction fs generalizing idx0 with
  | nil => simp [fileSection]
  | cons c rest ih =>
    simp only [fileSection] at hAt ⊢
    obtain ⟨h1, h2⟩ := hAt.split (n := c.bytes.length) rfl
    rw [FileInfo.bytes_length' c (w c List.mem_cons_self), Nat.add_assoc, ← Nat.mul_add] at h2
    obtain ⟨i1, i2⟩ := ih (idx0 + c.numRecs) (fun x hx => w x (List.mem_cons_of_mem _ hx)) h2
    constructor
    · intro e he
      rcases List.mem_cons.mp he with rfl | he
      · exact ⟨c, List.mem_cons_self, rfl, h1⟩
      · obtain ⟨X, hX, g⟩ := i1 e he
        exact ⟨X, List.mem_cons_of_mem _ hX, g⟩
    · intro X hX
      rcases List.mem_cons.mp hX with rfl | hX
      · exact ⟨_, List.mem_cons_self, rfl, h1⟩
      · obtain ⟨e, he, g⟩ := i2 X hX
        exact ⟨e, List.mem_cons_of_mem _ he, g⟩

theorem fileFromCandidates_any (b : Bytes) (ft : Footer) (h : Hash) (fs : List FileInfo) (w : ∀ f ∈ fs, f.WF)
    (cands : List Nat) (hc : ∀ idx ∈ cands, ∃ f ∈ fs, At b (ft.fileInfoOff + recSize * idx) f.bytes) :
    (∃ f ∈ fs, f.hash = h ∧ fileFromCandidates b ft h cands = .ok (some f)) ∨
    (fileFromCandidates b ft h cands = .ok none ∧
      ∀ idx ∈ cands, ∀ f ∈ fs, At b (ft.fileInfoOff + recSize * idx) f.bytes → f.hash ≠ h) := by
  induction cands with
  | nil => exact Or.inr ⟨rfl, by intro idx hi; cases hi⟩
  | cons idx rest ih =>
    obtain ⟨f, hf, hAt⟩ := hc idx List.mem_cons_self
    have hp := parseFileInfo_of_At hAt (w f hf)
    simp only [fileFromCandidates, hp]
    by_cases hh : f.hash = h
    · rw [if_pos hh]; exact Or.inl ⟨f, hf, hh, rfl⟩
    · rw [if_neg hh]
      rcases ih (fun i hi => hc i (List.mem_cons_of_mem _ hi)) with hl | ⟨hr1, hr2⟩
      · exact Or.inl hl
      · refine Or.inr ⟨hr1, ?_⟩
        intro i hi g hg hgAt
        rcases List.mem_cons.mp hi with rfl | hi
        · have hp' := parseFileInfo_of_At hgAt (w g hg)
          rw [hp] at hp'
          simp only [Except.ok.injEq, Option.some.injEq, Prod.mk.injEq] at hp'
          rw [← hp'.1]; exact hh
        · exact hr2 i hi g hg hgAt

theorem fileFromCandidates_serialize_perm (m : Mem) (t : List (Nat × Nat × Nat)) (w : m.WF) (h : Hash) (cands : List Nat)
    (hp : cands.Perm (((fileSection 0 m.files).lookup.filter (fun e => e.1 == trunc h)).map (·.2))) :
    fileFromCandidates (serialize m t).bytes (serialize m t).footer h cands = .ok (findFile h m.files) := by
  have hAt : At (serialize m t).bytes ((serialize m t).footer.fileInfoOff + recSize * 0) (fileSection 0 m.files).bytes := by
    simpa [serialize] using (serialize_layout m t).files.left
  obtain ⟨e1, e2⟩ := fileSection_lookup_entry _ m.files 0 w.2.2.1 hAt
  have hc : ∀ idx ∈ cands, ∃ f ∈ m.files,
      At (serialize m t).bytes ((serialize m t).footer.fileInfoOff + recSize * idx) f.bytes := by
    intro idx hi
    have := hp.mem_iff.mp hi
    simp only [List.mem_map, List.mem_filter] at this
    obtain ⟨e, ⟨he, _⟩, rfl⟩ := this
    obtain ⟨f, hf, _, g⟩ := e1 e he
    exact ⟨f, hf, g⟩
  rcases fileFromCandidates_any _ _ h m.files w.2.2.1 cands hc with ⟨f, hf, hh, hr⟩ | ⟨hr1, hr2⟩
  · rw [hr, ← hh, findFile_mem w.1 hf]
  · rw [hr1]
    congr 1
    symm
    apply findFile_none.mpr
    intro g hg hgh
    obtain ⟨e, he, k1, k2⟩ := e2 g hg
    have hmem : e.2 ∈ cands := by
      apply hp.mem_iff.mpr
      simp only [List.mem_map, List.mem_filter]
      exact ⟨e, ⟨he, by simp [k1, hgh]⟩, rfl⟩
    exact hr2 e.2 hmem g hg k2 hgh

theorem searchSpec_of_lt {α} (table : List (Nat × α)) (key cap : Nat)
    (h : (table.filter fun e => e.1 == key).length < cap) :
    searchSpec table key cap = (table.filter fun e => e.1 == key).map (·.2) := by
  unfold searchSpec
  exact List.take_of_length_le (by simp only [List.length_map]; omega)

theorem searchSpec_length_of_ge {α} (table : List (Nat × α)) (key cap : Nat)
    (h : cap ≤ (table.filter fun e => e.1 == key).length) : (searchSpec table key cap).length = cap := by
  unfold searchSpec
  simp only [List.length_take, List.length_map]; omega

theorem getFile_serialize (m : Mem) (t : List (Nat × Nat × Nat)) (w : m.WF) (h : Hash) :
    getFile (serialize m t).bytes (serialize m t).footer h =
      if prefixCount h m.files < maxCollisions then .ok (findFile h m.files) else .error .collision := by
  have hAt : At (serialize m t).bytes ((serialize m t).footer.fileInfoOff + recSize * 0) (fileSection 0 m.files).bytes := by
    simpa [serialize] using (serialize_layout m t).files.left
  have hc := fileFromCandidates_section _ (serialize m t).footer h m.files 0 hAt w.2.2.1
  have hl := fileSection_filter_length 0 m.files (trunc h)
  simp only [getFile, readFileLookup_serialize m t w, ok_bind, prefixCount]
  simp only [← hl]
  by_cases hlt : (List.filter (fun e => e.1 == trunc h) (fileSection 0 m.files).lookup).length < maxCollisions
  · rw [if_pos hlt, searchSpec_of_lt _ _ _ hlt, if_neg (by simp only [List.length_map]; omega)]
    exact hc
  · rw [if_neg hlt, if_pos (by rw [searchSpec_length_of_ge _ _ _ (by omega)]; exact Nat.le_refl _)]

/-! ## Part B.8 — size accounting -/

theorem fileSection_bytes_sum (idx : Nat) (fs : List FileInfo) :
    (fileSection idx fs).bytes.length + 12 * fs.length = sumMap (fun f => f.bytes.length + 12) fs := by
  induction fs generalizing idx with
  | nil => simp [fileSection, sumMap]
  | cons f rest ih =>
    have := ih (idx + f.numRecs)
    simp only [fileSection, List.length_append, List.length_cons, sumMap_cons]; omega

theorem casSection_bytes_sum (idx : Nat) (cs : List CasInfo) :
    (casSection idx cs).bytes.length + 12 * cs.length = sumMap (fun c => recSize + recSize * c.chunks.length + 12) cs := by
  induction cs generalizing idx with
  | nil => simp [casSection, sumMap]
  | cons c rest ih =>
    have := ih (idx + 1 + c.chunks.length)
    simp only [casSection, List.length_append, List.length_cons, sumMap_cons, CasInfo.bytes_length]; omega

/-- the serialized length equals the in-memory size formula whenever the chunk table has one row per chunk record -/
theorem serialize_length_eq (m : Mem) (t : List (Nat × Nat × Nat)) (ht : t.length = m.numChunks) :
    (serialize m t).bytes.length = m.shardFileSize := by
  have h1 := fileSection_bytes_sum 0 m.files
  have h2 := casSection_bytes_sum 0 m.cas
  have h3 := fileSection_lookup_length 0 m.files
  have h4 := casSection_lookup_length 0 m.cas
  simp only [Mem.numChunks] at ht
  have hr : recSize = 48 := rfl
  have hh : headerSize = 48 := rfl
  rw [serialize_length]
  simp only [serialize, Mem.shardFileSize, ← h1, ← h2, h3, h4, ht]
  omega

/-! ### `MDBInMemoryShard`: ordering and the running size -/

theorem mem_insertCas (c : CasInfo) (l : List CasInfo) : ∀ x ∈ insertCas c l, x = c ∨ x ∈ l := by
  induction l with
  | nil => intro x hx; simp [insertCas] at hx; exact Or.inl hx
  | cons g rest ih =>
    intro x hx
    simp only [insertCas] at hx
    split at hx
    · rcases List.mem_cons.mp hx with h | h
      · exact Or.inl h
      · exact Or.inr h
    · split at hx
      · rcases List.mem_cons.mp hx with h | h
        · exact Or.inl h
        · exact Or.inr (List.mem_cons_of_mem _ h)
      · rcases List.mem_cons.mp hx with h | h
        · exact Or.inr (by rw [h]; exact List.mem_cons_self)
        · rcases ih x h with h | h
          · exact Or.inl h
          · exact Or.inr (List.mem_cons_of_mem _ h)

theorem mem_insertFile (c : FileInfo) (l : List FileInfo) : ∀ x ∈ insertFile c l, x = c ∨ x ∈ l := by
  induction l with
  | nil => intro x hx; simp [insertFile] at hx; exact Or.inl hx
  | cons g rest ih =>
    intro x hx
    simp only [insertFile] at hx
    split at hx
    · rcases List.mem_cons.mp hx with h | h
      · exact Or.inl h
      · exact Or.inr h
    · split at hx
      · rcases List.mem_cons.mp hx with h | h
        · exact Or.inl h
        · exact Or.inr (List.mem_cons_of_mem _ h)
      · rcases List.mem_cons.mp hx with h | h
        · exact Or.inr (by rw [h]; exact List.mem_cons_self)
        · rcases ih x h with h | h
          · exact Or.inl h
          · exact Or.inr (List.mem_cons_of_mem _ h)

theorem insertCas_sorted (c : CasInfo) (l : List CasInfo) (h : l.Pairwise (fun a b => hashLt a.hash b.hash = true)) :
    (insertCas c l).Pairwise (fun a b => hashLt a.hash b.hash = true) := by
  induction l with
  | nil => simp [insertCas]
  | cons g rest ih =>
    rw [List.pairwise_cons] at h
    simp only [insertCas]
    split
    · rename_i hlt
      refine List.pairwise_cons.mpr ⟨?_, List.pairwise_cons.mpr h⟩
      intro y hy
      rcases List.mem_cons.mp hy with rfl | hy
      · exact hlt
      · exact hashLt_trans hlt (h.1 y hy)
    · rename_i hnlt
      split
      · rename_i heq
        refine List.pairwise_cons.mpr ⟨?_, h.2⟩
        intro y hy; rw [heq]; exact h.1 y hy
      · rename_i hne
        refine List.pairwise_cons.mpr ⟨?_, ih h.2⟩
        intro y hy
        rcases mem_insertCas c rest y hy with rfl | hy
        · rcases hashLt_trichotomy y.hash g.hash with h1 | h1 | h1
          · exact absurd h1 hnlt
          · exact absurd h1 hne
          · exact h1
        · exact h.1 y hy

theorem insertFile_sorted (c : FileInfo) (l : List FileInfo) (h : l.Pairwise (fun a b => hashLt a.hash b.hash = true)) :
    (insertFile c l).Pairwise (fun a b => hashLt a.hash b.hash = true) := by
  induction l with
  | nil => simp [insertFile]
  | cons g rest ih =>
    rw [List.pairwise_cons] at h
    simp only [insertFile]
    split
    · rename_i hlt
      refine List.pairwise_cons.mpr ⟨?_, List.pairwise_cons.mpr h⟩
      intro y hy
      rcases List.mem_cons.mp hy with rfl | hy
      · exact hlt
      · exact hashLt_trans hlt (h.1 y hy)
    · rename_i hnlt
      split
      · rename_i heq
        refine List.pairwise_cons.mpr ⟨?_, h.2⟩
        intro y hy; rw [heq]; exact h.1 y hy
      · rename_i hne
        refine List.pairwise_cons.mpr ⟨?_, ih h.2⟩
        intro y hy
        rcases mem_insertFile c rest y hy with rfl | hy
        · rcases hashLt_trichotomy y.hash g.hash with h1 | h1 | h1
          · exact absurd h1 hnlt
          · exact absurd h1 hne
          · exact h1
        · exact h.1 y hy

theorem findCas_none_of {h : Hash} {l : List CasInfo} (hl : ∀ y ∈ l, y.hash ≠ h) : findCas h l = none := by
  induction l with
  | nil => rfl
  | cons g rest ih =>
    simp only [findCas, if_neg (hl g List.mem_cons_self)]
    exact ih (fun y hy => hl y (List.mem_cons_of_mem _ hy))

theorem findFile_none_of {h : Hash} {l : List FileInfo} (hl : ∀ y ∈ l, y.hash ≠ h) : findFile h l = none :=
  findFile_none.mpr hl

theorem le_sumMap_of_mem {α} (g : α → Nat) {l : List α} {x : α} (hx : x ∈ l) : g x ≤ sumMap g l := by
  induction l with
  | nil => cases hx
  | cons y rest ih =>
    rw [sumMap_cons]
    rcases List.mem_cons.mp hx with rfl | hx
    · omega
    · have := ih hx; omega

/-- inserting into a sorted map replaces the entry with the same key, if any: effect on any additive measure -/
theorem sumMap_insertCas (g : CasInfo → Nat) (c : CasInfo) (l : List CasInfo)
    (hs : l.Pairwise (fun a b => hashLt a.hash b.hash = true)) :
    (findCas c.hash l = none → sumMap g (insertCas c l) = sumMap g l + g c) ∧
    (∀ old, findCas c.hash l = some old → g old ≤ sumMap g l ∧ sumMap g (insertCas c l) = sumMap g l - g old + g c) := by
  induction l with
  | nil => simp [findCas, insertCas, sumMap]
  | cons x rest ih =>
    rw [List.pairwise_cons] at hs
    obtain ⟨ih1, ih2⟩ := ih hs.2
    simp only [insertCas, findCas]
    by_cases hlt : hashLt c.hash x.hash = true
    · rw [if_pos hlt]
      have hx : x.hash ≠ c.hash := (hashLt_ne hlt).symm
      have hr : findCas c.hash rest = none :=
        findCas_none_of (fun y hy => (hashLt_ne (hashLt_trans hlt (hs.1 y hy))).symm)
      simp only [if_neg hx, hr]
      refine ⟨fun _ => (by simp only [sumMap_cons]; omega), fun old h => (by cases h)⟩
    · rw [if_neg hlt]
      by_cases heq : c.hash = x.hash
      · rw [if_pos heq]
        simp only [if_pos heq.symm]
        refine ⟨fun h => (by cases h), fun old h => ?_⟩
        cases h
        simp only [sumMap_cons]; omega
      · rw [if_neg heq]
        have hx : x.hash ≠ c.hash := fun h => heq h.symm
        simp only [if_neg hx]
        refine ⟨fun h => (by simp only [sumMap_cons, ih1 h]; omega), fun old h => ?_⟩
        obtain ⟨h1, h2⟩ := ih2 old h
        simp only [sumMap_cons, h2]; omega

theorem sumMap_insertFile (g : FileInfo → Nat) (c : FileInfo) (l : List FileInfo)
    (hs : l.Pairwise (fun a b => hashLt a.hash b.hash = true)) :
    (findFile c.hash l = none → sumMap g (insertFile c l) = sumMap g l + g c) ∧
    (∀ old, findFile c.hash l = some old → g old ≤ sumMap g l ∧ sumMap g (insertFile c l) = sumMap g l - g old + g c) := by
  induction l with
  | nil => simp [findFile, insertFile, sumMap]
  | cons x rest ih =>
    rw [List.pairwise_cons] at hs
    obtain ⟨ih1, ih2⟩ := ih hs.2
    simp only [insertFile, findFile]
    by_cases hlt : hashLt c.hash x.hash = true
    · rw [if_pos hlt]
      have hx : x.hash ≠ c.hash := (hashLt_ne hlt).symm
      have hr : findFile c.hash rest = none :=
        findFile_none_of (fun y hy => (hashLt_ne (hashLt_trans hlt (hs.1 y hy))).symm)
      simp only [if_neg hx, hr]
      refine ⟨fun _ => (by simp only [sumMap_cons]; omega), fun old h => (by cases h)⟩
    · rw [if_neg hlt]
      by_cases heq : c.hash = x.hash
      · rw [if_pos heq]
        simp only [if_pos heq.symm]
        refine ⟨fun h => (by cases h), fun old h => ?_⟩
        cases h
        simp only [sumMap_cons]; omega
      · rw [if_neg heq]
        have hx : x.hash ≠ c.hash := fun h => heq h.symm
        simp only [if_neg hx]
        refine ⟨fun h => (by simp only [sumMap_cons, ih1 h]; omega), fun old h => ?_⟩
        obtain ⟨h1, h2⟩ := ih2 old h
        simp only [sumMap_cons, h2]; omega

/-- the accounting invariant of `MDBInMemoryShard` -/
structure MemShard.Inv (s : MemShard) : Prop where
  files : s.mem.files.Pairwise (fun a b => hashLt a.hash b.hash = true)
  cas : s.mem.cas.Pairwise (fun a b => hashLt a.hash b.hash = true)
  size : s.size = MemShard.recalc s.mem s.lookup

theorem MemShard.empty_inv : MemShard.empty.Inv :=
  ⟨List.Pairwise.nil, List.Pairwise.nil, by simp [MemShard.empty, MemShard.recalc, sumMap]⟩

theorem MemShard.addCas_inv (s : MemShard) (c : CasInfo) (h : s.Inv) : (s.addCas c).Inv := by
  obtain ⟨hf, hc, hs⟩ := h
  obtain ⟨g1, g2⟩ := sumMap_insertCas casContribution c s.mem.cas hc
  refine ⟨hf, insertCas_sorted c _ hc, ?_⟩
  simp only [MemShard.addCas, MemShard.recalc] at hs ⊢
  split
  · rename_i old hold
    obtain ⟨k1, k2⟩ := g2 old hold
    rw [k2, hs]; omega
  · rename_i hnone
    rw [g1 hnone, hs]; omega

theorem MemShard.addFile_inv (s : MemShard) (f : FileInfo) (h : s.Inv) : (s.addFile f).Inv := by
  obtain ⟨hf, hc, hs⟩ := h
  obtain ⟨g1, g2⟩ := sumMap_insertFile (fun f => f.numBytes + 12) f s.mem.files hf
  refine ⟨insertFile_sorted f _ hf, hc, ?_⟩
  simp only [MemShard.addFile, MemShard.recalc] at hs ⊢
  split
  · rename_i old hold
    obtain ⟨k1, k2⟩ := g2 old hold
    show s.size - (old.numBytes + 12) + (f.numBytes + 12) =
      sumMap casContribution s.mem.cas + sumMap (fun f => f.numBytes + 12) (insertFile f s.mem.files)
    omega
  · rename_i hnone
    have k := g1 hnone
    show s.size - 0 + (f.numBytes + 12) =
      sumMap casContribution s.mem.cas + sumMap (fun f => f.numBytes + 12) (insertFile f s.mem.files)
    omega

theorem FileInfo.numBytes_eq (f : FileInfo) (w : f.WF) : f.numBytes = f.bytes.length := by
  rw [FileInfo.bytes_length f w, FileInfo.numBytes, FileInfo.tailRecs, w.2.2.1]
  simp only [recSize]
  split <;> split <;> omega

/-- shards built from the empty shard by `add_cas_block` / `add_file_reconstruction_info`
    (file records as this client writes them) -/
inductive MemShard.Built : MemShard → Prop
  | empty : Built MemShard.empty
  | addCas {s} (c : CasInfo) : Built s → Built (s.addCas c)
  | addFile {s} (f : FileInfo) : f.WF → Built s → Built (s.addFile f)

theorem MemShard.Built.inv {s : MemShard} (h : s.Built) : s.Inv ∧ ∀ f ∈ s.mem.files, f.WF := by
  induction h with
  | empty => exact ⟨MemShard.empty_inv, by intro f hf; simp [MemShard.empty] at hf⟩
  | addCas c _ ih => exact ⟨MemShard.addCas_inv _ c ih.1, ih.2⟩
  | addFile f wf _ ih =>
    refine ⟨MemShard.addFile_inv _ f ih.1, ?_⟩
    intro x hx
    rcases mem_insertFile f _ x hx with rfl | hx
    · exact wf
    · exact ih.2 x hx

theorem recalc_eq_shardFileSize (m : Mem) (l : List (Hash × CasInfo × Nat)) (w : ∀ f ∈ m.files, f.WF) :
    MemShard.recalc m l + (footerSize + headerSize + recSize + recSize) = m.shardFileSize := by
  have h1 : sumMap casContribution m.cas =
      sumMap (fun c => recSize + recSize * c.chunks.length + 12) m.cas + 16 * sumMap (fun c => c.chunks.length) m.cas := by
    induction m.cas with
    | nil => simp [sumMap]
    | cons c rest ih => simp only [sumMap_cons, ih, casContribution]; omega
  have h2 : sumMap (fun f => f.numBytes + 12) m.files = sumMap (fun f => f.bytes.length + 12) m.files := by
    generalize m.files = fs at w
    induction fs with
    | nil => simp [sumMap]
    | cons f rest ih =>
      simp only [sumMap_cons, ih (fun x hx => w x (List.mem_cons_of_mem _ hx)),
        FileInfo.numBytes_eq f (w f List.mem_cons_self)]
  simp only [MemShard.recalc, Mem.shardFileSize, h1, h2]; omega

theorem MemShard.Built.shardFileSize_eq {s : MemShard} (h : s.Built) : s.shardFileSize = s.mem.shardFileSize := by
  obtain ⟨hi, hw⟩ := h.inv
  rw [MemShard.shardFileSize, hi.size, recalc_eq_shardFileSize _ _ hw]

/-! ## Part C — dedup answers on a serialized well-formed shard name stored blocks -/

theorem At_flatMap_getElem {α} {b : Bytes} (f : α → Bytes) (k : Nat) (hk : ∀ x, (f x).length = k) (l : List α) (off : Nat)
    (h : At b off (l.flatMap f)) (j : Nat) (hj : j < l.length) : At b (off + k * j) (f l[j]) := by
  induction l generalizing off j with
  | nil => simp at hj
  | cons x rest ih =>
    simp only [List.flatMap_cons] at h
    obtain ⟨h1, h2⟩ := h.split (hk x)
    cases j with
    | zero => simpa using h1
    | succ j =>
      have := ih (off + k) h2 j (by simpa using hj)
      simp only [List.getElem_cons_succ]
      rw [show off + k * (j + 1) = off + k + k * j by rw [Nat.mul_add, Nat.mul_one]; omega]
      exact this

theorem chunkEntries_spec (idx i : Nat) (chs : List Chunk) :
    ∀ e ∈ chunkEntries idx i chs, e.2.1 = idx ∧ ∃ j, j < chs.length ∧ e.2.2 = i + j ∧ e.1 = trunc (chs[j]?.map (·.hash) |>.getD Hash.zero) := by
  induction chs generalizing i with
  | nil => simp [chunkEntries]
  | cons c rest ih =>
    intro e he
    simp only [chunkEntries, List.mem_cons] at he
    rcases he with rfl | he
    · exact ⟨rfl, 0, by simp, rfl, by simp⟩
    · obtain ⟨h1, j, h2, h3, h4⟩ := ih (i + 1) e he
      exact ⟨h1, j + 1, by simp; omega, by omega, by simpa using h4⟩

/-- every row of the chunk table addresses a chunk record of a stored block -/
theorem casSection_entry {b : Bytes} (base : Nat) (cs : List CasInfo) (idx0 : Nat)
    (hAt : At b (base + recSize * idx0) (casSection idx0 cs).bytes) :
    ∀ e ∈ (casSection idx0 cs).chunkLookup, ∃ X ∈ cs, At b (base + recSize * e.2.1) X.bytes ∧ e.2.2 < X.chunks.length ∧
      e.1 = trunc (X.chunks[e.2.2]?.map (·.hash) |>.getD Hash.zero) := by
  induction cs generalizing idx0 with
  | nil => simp [casSection]
  | cons c rest ih =>
    intro e he
    simp only [casSection] at hAt he
    obtain ⟨h1, h2⟩ := hAt.split (n := c.bytes.length) rfl
    rcases List.mem_append.mp he with he | he
    · obtain ⟨g1, j, g2, g3, g4⟩ := chunkEntries_spec idx0 0 c.chunks e he
      refine ⟨c, List.mem_cons_self, by rw [g1]; exact h1, by omega, ?_⟩
      rw [g3, Nat.zero_add]; exact g4
    · have eo : base + recSize * idx0 + (recSize + recSize * c.chunks.length) = base + recSize * (idx0 + 1 + c.chunks.length) := by
        simp only [recSize]; omega
      rw [CasInfo.bytes_length, eo] at h2
      obtain ⟨X, hX, g⟩ := ih (idx0 + 1 + c.chunks.length) h2 e he
      exact ⟨X, List.mem_cons_of_mem _ hX, g⟩

/-- every row `(key, idx)` of the CAS lookup table is the truncated hash and record index of a stored block, and every
    stored block has its row -/
theorem casSection_lookup_entry {b : Bytes} (base : Nat) (cs : List CasInfo) (idx0 : Nat)
    (hAt : At b (base + recSize * idx0) (casSection idx0 cs).bytes) :
    (∀ e ∈ (casSection idx0 cs).lookup, ∃ X ∈ cs, e.1 = trunc X.hash ∧ At b (base + recSize * e.2) X.bytes) ∧
    (∀ X ∈ cs, ∃ e ∈ (casSection idx0 cs).lookup, e.1 = trunc X.hash ∧ At b (base + recSize * e.2) X.bytes) := by
  induction cs generalizing idx0 with
  | nil => simp [casSection]
  | cons c rest ih =>
    simp only [casSection] at hAt ⊢
    obtain ⟨h1, h2⟩ := hAt.split (n := c.bytes.length) rfl
    have eo : base + recSize * idx0 + (recSize + recSize * c.chunks.length) = base + recSize * (idx0 + 1 + c.chunks.length) := by
      simp only [recSize]; omega
    rw [CasInfo.bytes_length, eo] at h2
    obtain ⟨i1, i2⟩ := ih (idx0 + 1 + c.chunks.length) h2
    constructor
    · intro e he
      rcases List.mem_cons.mp he with rfl | he
      · exact ⟨c, List.mem_cons_self, rfl, h1⟩
      · obtain ⟨X, hX, g⟩ := i1 e he
        exact ⟨X, List.mem_cons_of_mem _ hX, g⟩
    · intro X hX
      rcases List.mem_cons.mp hX with rfl | hX
      · exact ⟨_, List.mem_cons_self, rfl, h1⟩
      · obtain ⟨e, he, g⟩ := i2 X hX
        exact ⟨e, List.mem_cons_of_mem _ he, g⟩

/-- reading a stored block in place: header and every chunk record -/
theorem block_reads {b : Bytes} {off : Nat} {X : CasInfo} (h : At b off X.bytes) (w : X.WF) :
    parseCasHeader b off = .ok ⟨X.hash, X.flags, X.chunks.length, X.bytesInCas, X.bytesOnDisk⟩ ∧
    ∀ j (hj : j < X.chunks.length), parseChunk b (off + recSize * (1 + j)) = .ok X.chunks[j] := by
  obtain ⟨w1, w2, w3, w4, w5, w6, w7⟩ := w
  simp only [CasInfo.bytes] at h
  obtain ⟨hh, hc⟩ := h.split (n := recSize) (casHeaderBytes_length _ _ _ _ _)
  refine ⟨?_, ?_⟩
  · have := parseCasHeader_of_At hh w2 (by omega) w5 w6
    rw [w3] at this; exact this
  · intro j hj
    have := At_flatMap_getElem chunkBytes recSize chunkBytes_length X.chunks _ hc j hj
    rw [Nat.mul_add, Nat.mul_one, ← Nat.add_assoc]
    exact parseChunk_of_At this (w7 _ (List.getElem_mem hj))

theorem keyedHash_zero (P : HashPrims) : keyedHash P Hash.zero = id := by
  funext h; simp [keyedHash]

/-- a `DirectTruthful` answer at a stored block's position is `Truthful` for that block -/
theorem truthful_of_direct (P : HashPrims) (b : Bytes) (ft : Footer) (q : List Hash) (casIdx chunkOff : Nat)
    (a : DedupAnswer) (X : CasInfo) (hAt : At b (ft.casInfoOff + recSize * casIdx) X.bytes) (w : X.WF)
    (hco : chunkOff < X.chunks.length) (d : DirectTruthful P b ft q casIdx chunkOff a) :
    Truthful (keyedHash P ft.hmacKey) X.chunks X.hash q a := by
  obtain ⟨r1, r2⟩ := block_reads hAt w
  obtain ⟨n_pos, n_le, cstart, cend, ⟨hd, hhd, e1, e2, e3⟩, ⟨cs, c1, c2, c3, c4⟩⟩ := d
  rw [r1] at hhd
  cases hhd
  simp only at e1 e2 e3
  have hin := e3 hco
  have hcs : cs = (X.chunks.drop chunkOff).take a.n := by
    apply List.ext_getElem?
    intro i
    by_cases hi : i < a.n
    · obtain ⟨c, g1, g2⟩ := c2 i hi
      have r := r2 (chunkOff + i) (by omega)
      rw [← Nat.add_assoc] at r
      rw [r] at g2
      cases g2
      rw [g1, List.getElem?_take, if_pos hi, List.getElem?_drop, List.getElem?_eq_getElem]
    · rw [List.getElem?_eq_none (by omega), List.getElem?_take, if_neg hi]
  refine ⟨n_pos, n_le, e1, by rw [cstart, cend], by rw [cend]; exact hin, ?_, ?_⟩
  · rw [cstart, ← hcs]; exact c3
  · rw [cstart, ← hcs]; exact c4

theorem dedupQuery_serialize_truthful (P : HashPrims) (m : Mem) (t : List (Nat × Nat × Nat)) (w : m.WF)
    (ht : LegalChunkTable m t) (q : List Hash) (cands : List (Nat × Nat))
    (hc : ∀ cc ∈ cands, ∃ k, (k, cc.1, cc.2) ∈ t) (a : DedupAnswer)
    (h : dedupQuery P (serialize m t).bytes (serialize m t).footer q cands = .ok (some a)) :
    ∃ X ∈ m.cas, Truthful id X.chunks X.hash q a := by
  obtain ⟨cc, hcc, hd⟩ := dedupQuery_some P _ _ q cands a h
  obtain ⟨k, hk⟩ := hc cc hcc
  have hAt : At (serialize m t).bytes ((serialize m t).footer.casInfoOff + recSize * 0) (casSection 0 m.cas).bytes := by
    simpa using (serialize_layout m t).cas.left
  obtain ⟨X, hX, g1, g2, _⟩ := casSection_entry _ m.cas 0 hAt _ (ht.1.mem_iff.mp hk)
  have := truthful_of_direct P _ _ q cc.1 cc.2 a X g1 (w.2.2.2.1 X hX) g2 (dedupDirect_truthful P _ _ q _ _ a hd)
  have hz : (serialize m t).footer.hmacKey = Hash.zero := rfl
  rw [hz, keyedHash_zero] at this
  exact ⟨X, hX, this⟩

/-- the candidates the table search specification yields are rows of the table -/
theorem dedupCandidates_serialize (P : HashPrims) (m : Mem) (t : List (Nat × Nat × Nat)) (w : m.WF)
    (ht : LegalChunkTable m t) (q0 : Hash) :
    ∃ cands, dedupCandidates P (serialize m t).bytes (serialize m t).footer q0 = .ok cands ∧
      (∀ cc ∈ cands, (trunc q0, cc.1, cc.2) ∈ t) ∧
      cands = searchSpec (t.map fun e => (e.1, (e.2.1, e.2.2))) (trunc q0) maxCollisions := by
  refine ⟨_, ?_, ?_, rfl⟩
  · simp only [dedupCandidates, readChunkLookup_serialize m t (legal_table_bounds m t w ht), ok_bind]
    have hz : (serialize m t).footer.hmacKey = Hash.zero := rfl
    rw [hz, keyedHash_zero]; rfl
  · intro cc hcc
    simp only [searchSpec] at hcc
    have := List.mem_of_mem_take hcc
    simp only [List.mem_map, List.mem_filter] at this
    obtain ⟨e, ⟨⟨e', he', rfl⟩, hk⟩, rfl⟩ := this
    simp only [beq_iff_eq] at hk
    rw [← hk]; exact he'


end Xet.Shard
