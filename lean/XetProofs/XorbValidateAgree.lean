/-
Helper lemmas for C08, part 3: the seekable and the streaming validator accept the same V1 objects
(arbitrary byte strings, not only serialized ones).  Core Lean only.
-/
import XetProofs.XorbValidateComplete

namespace Xet.Xorb

/-! ## 1. where the cursor is after each step -/

theorem Cur.readN_rest {c c' : Cur} {n : Nat} {v : Bytes} (h : c.readN n = .ok (v, c')) :
    c'.rest = c.rest.drop n ∧ v = c.rest.take n ∧ n ≤ c.rest.length := by
  unfold Cur.readN at h
  split at h
  · cases h
  · simp only [Except.ok.injEq, Prod.mk.injEq] at h
    obtain ⟨rfl, rfl⟩ := h
    exact ⟨rfl, rfl, by omega⟩

theorem Cur.readU8_rest {c c' : Cur} {v : Nat} (h : c.readU8 = .ok (v, c')) :
    c'.rest = c.rest.drop 1 ∧ v = (c.rest.getD 0 0).toNat ∧ 1 ≤ c.rest.length := by
  unfold Cur.readU8 at h
  split at h
  · rename_i b r hr
    simp only [Except.ok.injEq, Prod.mk.injEq] at h
    obtain ⟨rfl, rfl⟩ := h
    simp [hr]
  · cases h

theorem Cur.readU32_rest {c c' : Cur} {v : Nat} (h : c.readU32 = .ok (v, c')) : c'.rest = c.rest.drop 4 := by
  unfold Cur.readU32 at h
  split at h
  · rename_i a b x d r hr
    simp only [Except.ok.injEq, Prod.mk.injEq] at h
    obtain ⟨_, rfl⟩ := h
    simp [hr]
  · cases h

theorem Cur.readHash_rest {c c' : Cur} {v : Hash} (h : c.readHash = .ok (v, c')) : c'.rest = c.rest.drop 32 := by
  unfold Cur.readHash at h
  split at h
  · cases h
  · simp only [Except.ok.injEq, Prod.mk.injEq] at h
    obtain ⟨_, rfl⟩ := h
    rfl

theorem readU32s_rest (n : Nat) (c c' : Cur) (acc l : List Nat) (h : readU32s n c acc = .ok (l, c')) :
    c'.rest = c.rest.drop (4 * n) := by
  induction n generalizing c acc with
  | zero =>
    simp only [readU32s, Except.ok.injEq, Prod.mk.injEq] at h
    obtain ⟨_, rfl⟩ := h
    simp
  | succ n ih =>
    simp only [readU32s] at h
    split at h
    · rename_i v c1 h1
      rw [ih c1 (v :: acc) h, Cur.readU32_rest h1, List.drop_drop]
      congr 1; omega
    · cases h

theorem readHashes_rest (n : Nat) (c c' : Cur) (acc l : List Hash) (h : readHashes n c acc = .ok (l, c')) :
    c'.rest = c.rest.drop (32 * n) := by
  induction n generalizing c acc with
  | zero =>
    simp only [readHashes, Except.ok.injEq, Prod.mk.injEq] at h
    obtain ⟨_, rfl⟩ := h
    simp
  | succ n ih =>
    simp only [readHashes] at h
    split at h
    · rename_i v c1 h1
      rw [ih c1 (v :: acc) h, Cur.readHash_rest h1, List.drop_drop]
      congr 1; omega
    · cases h

/-- the unread remainder after a V1 body is the input minus the `84 + 40·n` bytes of the body -/
theorem parseInfoV1Body_rest (c0 : Cur) (r : InfoRead) (h : parseInfoV1Body c0 = .ok r) :
    r.rest = c0.rest.drop (84 + 40 * r.info.numChunks) := by
  simp only [parseInfoV1Body, bind, Except.bind] at h
  split at h; · cases h
  rename_i v0 e0
  split at h; · cases h
  rename_i v1 e1
  split at h; · cases h
  split at h; · cases h
  rename_i v2 e2
  split at h; · cases h
  split at h; · cases h
  rename_i v3 e3
  split at h; · cases h
  rename_i v4 e4
  split at h; · cases h
  rename_i v5 e5
  split at h; · cases h
  split at h; · cases h
  rename_i v6 e6
  split at h; · cases h
  split at h; · cases h
  rename_i v7 e7
  split at h; · cases h
  rename_i h37
  split at h; · cases h
  rename_i v8 e8
  split at h; · cases h
  rename_i v9 e9
  split at h; · cases h
  rename_i v10 e10
  split at h; · cases h
  rename_i h103
  split at h; · cases h
  rename_i v11 e11
  split at h; · cases h
  rename_i v12 e12
  split at h; · cases h
  rename_i v13 e13
  split at h; · cases h
  split at h; · cases h
  have s0 := Cur.readHash_rest (v := v0.1) (c' := v0.2) e0
  have s1 := (Cur.readN_rest (v := v1.1) (c' := v1.2) e1).1
  have s2 := (Cur.readU8_rest (v := v2.1) (c' := v2.2) e2).1
  have s3 := Cur.readU32_rest (v := v3.1) (c' := v3.2) e3
  have s4 := readHashes_rest _ _ v4.2 _ v4.1 e4
  have s5 := (Cur.readN_rest (v := v5.1) (c' := v5.2) e5).1
  have s6 := (Cur.readU8_rest (v := v6.1) (c' := v6.2) e6).1
  have s7 := Cur.readU32_rest (v := v7.1) (c' := v7.2) e7
  have s8 := readU32s_rest _ _ v8.2 _ v8.1 e8
  have s9 := readU32s_rest _ _ v9.2 _ v9.1 e9
  have s10 := Cur.readU32_rest (v := v10.1) (c' := v10.2) e10
  have s11 := Cur.readU32_rest (v := v11.1) (c' := v11.2) e11
  have s12 := Cur.readU32_rest (v := v12.1) (c' := v12.2) e12
  have s13 := (Cur.readN_rest (v := v13.1) (c' := v13.2) e13).1
  have h37' : v3.1 = v7.1 := by simpa using h37
  have h103' : v10.1 = v3.1 := by simpa using h103
  cases h
  simp only []
  rw [s13, s12, s11, s10, s9, s8, s7, s6, s5, s4, s3, s2, s1, s0]
  simp only [List.drop_drop]
  congr 1
  omega

/-! ## 2. the same footer through both parsers -/

theorem getD_take_lt {α} (l : List α) (n i : Nat) (d : α) (h : i < n) : (l.take n).getD i d = l.getD i d := by
  simp [List.getD_eq_getElem?_getD, h]

theorem drop7_eq (tail : Bytes) (h : 8 ≤ tail.length) : tail.drop 7 = tail.getD 7 0 :: tail.drop 8 := by
  rw [List.drop_eq_getElem_cons (by omega)]
  simp [List.getD_eq_getElem?_getD, List.getElem?_eq_getElem (show 7 < tail.length by omega)]

/-- the sync footer parser on a V1 footer is the shared body parser after ident + version -/
theorem parseInfo_v1 (tail : Bytes) (h8 : 8 ≤ tail.length) (hid : tail.take 7 = identMain)
    (hv : (tail.getD 7 0).toNat = formatVersion) : parseInfo tail = parseInfoV1Body ⟨tail.drop 8, 8⟩ := by
  have hr : Cur.readN ⟨tail, 0⟩ 7 = .ok (tail.take 7, ⟨tail.drop 7, 7⟩) := by
    simp only [Cur.readN]; rw [if_neg (by omega)]
  simp only [parseInfo, bind, Except.bind, hr, hid, ne_eq, not_true_eq_false, if_false]
  rw [drop7_eq tail h8]
  simp only [Cur.readU8, hv]
  rw [if_neg formatVersion_ne_v0, if_neg (by simp)]

/-- conversely a successful sync parse of a footer with the current boundaries version went through
    the V1 path -/
theorem parseInfo_v1_inv (tail : Bytes) (r : InfoRead) (h : parseInfo tail = .ok r)
    (hbv : r.info.boundariesVersion = boundariesVersion) :
    8 ≤ tail.length ∧ tail.take 7 = identMain ∧ (tail.getD 7 0).toNat = formatVersion ∧
    parseInfoV1Body ⟨tail.drop 8, 8⟩ = .ok r := by
  simp only [parseInfo, bind, Except.bind] at h
  split at h; · cases h
  rename_i v0 e0
  split at h; · cases h
  rename_i hid
  split at h; · cases h
  rename_i v1 e1
  have s0 := Cur.readN_rest (v := v0.1) (c' := v0.2) e0
  have p0 := Cur.readN_ok (v := v0.1) (c' := v0.2) e0
  have s1 := Cur.readU8_rest (v := v1.1) (c' := v1.2) e1
  have p1 := Cur.readU8_ok (v := v1.1) (c' := v1.2) e1
  simp only [] at s0 s1 p0 p1
  have hl : 8 ≤ tail.length := by
    have := s0.2.2; have := s1.2.2; rw [s0.1, List.length_drop] at this; omega
  split at h
  · have := (parseInfoV0Body_spec _ _ h).bv
    exact absurd (this.symm.trans hbv) boundariesVersionNoUnpacked_ne
  split at h; · cases h
  rename_i hnv0 hv
  have hv' : v1.1 = formatVersion := by simpa using hv
  have hc : v1.2 = ⟨tail.drop 8, 8⟩ := by
    cases hv1 : v1.2 with
    | mk rest pos =>
      rw [hv1] at s1 p1
      simp only [] at s1 p1
      rw [s1.1, s0.1, List.drop_drop, p1.1, p0.1]
  refine ⟨hl, ?_, ?_, ?_⟩
  · rw [← s0.2.1]; simpa using hid
  · rw [← hv', s1.2.1, s0.1, drop7_eq tail hl]; simp
  · rw [← hc]; exact h

/-- a V1 footer (`XETBLOB`, 1, body, length word, end) starts at the beginning of `tail` -/
structure FooterAt (tail : Bytes) (cas : CasObject) : Prop where
  len8 : 8 ≤ tail.length
  ident : (tail.take 8).take 7 = identMain
  version : ((tail.take 8).getD 7 0).toNat = formatVersion
  body : deserializeAsyncV1 (tail.drop 8) = .ok cas

theorem footer_stream_to_seek (obj : Bytes) (cas : CasObject) (L : Nat)
    (hL : L + cas.infoLength + 4 = obj.length) (hf : FooterAt (obj.drop L) cas) :
    deserialize obj = .ok cas := by
  obtain ⟨h8, hid, hv, hb⟩ := hf
  rw [take_take_of_le _ _ _ (by omega)] at hid
  rw [getD_take_lt _ _ _ _ (by omega)] at hv
  have hp := parseInfo_v1 (obj.drop L) h8 hid hv
  unfold deserializeAsyncV1 at hb
  split at hb; · cases hb
  rename_i r hr
  have hrest := parseInfoV1Body_rest _ _ hr
  have hspec := parseInfoV1Body_spec _ _ hr
  simp only [] at hrest
  split at hb
  · rename_i a b c d rest hrr
    split at hb; · cases hb
    rename_i hbr
    split at hb; · cases hb
    rename_i hemp
    have hbr' : ofLe32 a b c d = r.bytesRead := by simpa using hbr
    have hrest0 : rest = [] := by simpa using hemp
    subst hrest0
    cases hb
    simp only [] at hL
    have hbytes := hspec.bytesRead
    simp only [] at hbytes
    have hlast : obj.drop (obj.length - 4) = [a, b, c, d] := by
      rw [← hrr, hrest, List.drop_drop, List.drop_drop]
      congr 1; omega
    unfold deserialize
    rw [if_neg (by omega), hlast]
    simp only []
    rw [if_neg (by omega)]
    have e : obj.length - 4 - ofLe32 a b c d = L := by omega
    rw [e, hp, hr]
    simp only []
    rw [if_neg (by simp [hbr'])]
  · cases hb

theorem footer_seek_to_stream (obj : Bytes) (cas : CasObject) (h : deserialize obj = .ok cas)
    (hbv : cas.info.boundariesVersion = boundariesVersion) :
    FooterAt (obj.drop (obj.length - 4 - cas.infoLength)) cas := by
  unfold deserialize at h
  split at h; · cases h
  rename_i h4
  split at h
  · rename_i a b c d hlast
    simp only [] at h
    split at h; · cases h
    rename_i hfit
    split at h; · cases h
    rename_i r hr
    split at h; · cases h
    rename_i hbr
    have hbr' : r.bytesRead = ofLe32 a b c d := by simpa using hbr
    cases h
    simp only [] at hbv ⊢
    obtain ⟨h8, hid, hv, hbody⟩ := parseInfo_v1_inv _ r hr hbv
    have hrest := parseInfoV1Body_rest _ _ hbody
    have hspec := parseInfoV1Body_spec _ _ hbody
    have hbytes := hspec.bytesRead
    simp only [] at hrest hbytes
    refine ⟨h8, by rw [take_take_of_le _ _ _ (by omega)]; exact hid,
      by rw [getD_take_lt _ _ _ _ (by omega)]; exact hv, ?_⟩
    have hrr : r.rest = [a, b, c, d] := by
      rw [hrest, List.drop_drop, List.drop_drop, ← hlast]
      congr 1; omega
    unfold deserializeAsyncV1
    rw [hbody]
    simp only [hrr]
    rw [if_neg (by simp [hbr']), if_neg (by simp)]
  · cases h

/-! ## 3. both chunk loops succeed on a decodable segment with matching tables -/

theorem slice_head {α} (l : List α) (i k : Nat) (x : α) (t : List α)
    (h : (l.drop i).take (k + 1) = x :: t) : l[i]? = some x ∧ (l.drop (i + 1)).take k = t := by
  cases hd : l.drop i with
  | nil => rw [hd] at h; simp at h
  | cons y ys =>
    rw [hd, List.take_succ_cons] at h
    injection h with h1 h2
    subst h1
    have e1 : l[i]? = some y := by
      have := congrArg (fun l => l[0]?) hd
      simpa [List.getElem?_drop] using this
    have e2 : l.drop (i + 1) = ys := by
      have := congrArg (List.drop 1) hd
      simpa [List.drop_drop] using this
    exact ⟨e1, by rw [e2, h2]⟩

theorem Seg.mono {one one' : Bytes → Except Err ChunkRead}
    (hm : ∀ input r, one input = .ok r → one' input = .ok r) {input : Bytes} {cs : List Bytes} {sz : List Nat}
    (h : Seg one input cs sz) : Seg one' input cs sz := by
  induction h with
  | nil => exact .nil _
  | cons hr _ ih => exact .cons (hm _ _ hr) ih

/-- the seekable chunk loop succeeds on every chunk segment whose V1 footer tables match -/
theorem walkChunks_of_seg (P : HashPrims) (C : Codec) (m : Nat) (obj : Bytes) (info : Info)
    (hbv : info.boundariesVersion = boundariesVersion) :
    ∀ (cs : List Bytes) (sz : List Nat) (idx : Nat) (st : WalkState),
      Seg (deserializeChunkSync C m) (obj.drop st.start) cs sz →
      (info.hashes.drop idx).take cs.length = cs.map P.dataHash →
      (info.boundaries.drop idx).take cs.length = runningSums st.start sz →
      (info.unpacked.drop idx).take cs.length = runningSums st.unp (cs.map (·.length)) →
      st.cumComp = st.start → st.start + sz.sum ≤ u32Max → st.unp + (cs.map (·.length)).sum ≤ u32Max →
      ∃ st', walkChunks P C m obj info cs.length idx st = .ok st' ∧ st'.cumComp = st.start + sz.sum ∧
        st'.chunks = st.chunks ++ chunkMeta P cs ∧ (cs ≠ [] → st'.pos = st.start + sz.sum) := by
  intro cs
  induction cs with
  | nil =>
    intro sz idx st hseg _ _ _ hc _ _
    have : sz = [] := by
      have := hseg.length_eq
      cases sz with
      | nil => rfl
      | cons _ _ => simp at this
    subst this
    exact ⟨st, rfl, by simp [hc], by simp [chunkMeta], fun h => absurd rfl h⟩
  | cons d cs ih =>
    intro sz idx st hseg hH hB hU hc hb1 hb2
    generalize hin : obj.drop st.start = input at hseg
    cases hseg with
    | @cons _ r _ sz' hr hrest =>
      subst hin
      simp only [List.length_cons] at hH hB hU ⊢
      simp only [List.map_cons, runningSums, List.sum_cons] at hH hB hU hb1 hb2
      obtain ⟨hh1, hh2⟩ := slice_head _ _ _ _ _ hH
      obtain ⟨hB1, hB2⟩ := slice_head _ _ _ _ _ hB
      obtain ⟨hU1, hU2⟩ := slice_head _ _ _ _ _ hU
      have hbd := deserializeChunkSync_bounds hr
      have hlen : st.start ≤ obj.length := by
        have := hbd.2.2.2.1; simp only [List.length_drop] at this; omega
      rw [walkChunks_step_ok hlen hr (by omega) (by omega) hh1 hB1 (by omega) hbv hU1]
      rw [List.drop_drop] at hrest
      obtain ⟨st', e1, e2, e3, e4⟩ := ih sz' (idx + 1)
        ⟨st.start + r.consumed, st.cumComp + r.consumed, st.unp + r.data.length, st.start + r.consumed,
          st.chunks ++ [(P.dataHash r.data, r.data.length)]⟩ hrest hh2 hB2 hU2 (by simp only []; omega)
        (by simp only []; omega) (by simp only []; omega)
      simp only [] at e2 e3 e4
      simp only [List.sum_cons]
      refine ⟨st', e1, by omega, by rw [e3]; simp [chunkMeta], fun _ => ?_⟩
      by_cases hcs : cs = []
      · subst hcs
        have : sz' = [] := by
          have := hrest.length_eq
          cases sz' with
          | nil => rfl
          | cons _ _ => simp at this
        subst this
        simp only [List.length_nil, walkChunks, Except.ok.injEq] at e1
        subst e1
        simp
      · rw [e4 hcs]; omega

theorem streamLoop_footerAt (P : HashPrims) (C : Codec) (m fuel : Nat) (input : Bytes) (cas : CasObject)
    (hf : FooterAt input cas) (st : StreamState) :
    streamLoop P C m (fuel + 1) input st = .ok (st, some cas, none) := by
  obtain ⟨h8, hid, hv, hb⟩ := hf
  have hne : input.isEmpty = false := by
    cases input with
    | nil => simp at h8
    | cons _ _ => rfl
  rw [streamLoop]
  simp only [hne, Bool.false_eq_true, if_false]
  rw [if_neg (by omega)]
  simp only [hid, hv, true_and, hb]
  rw [if_neg (Nat.lt_irrefl _), if_pos trivial]

/-- the streaming chunk loop succeeds on every chunk segment that lies inside the input and is
    followed by a V1 footer -/
theorem streamLoop_of_seg (P : HashPrims) (C : Codec) (m : Nat) (cas : CasObject) :
    ∀ (cs : List Bytes) (sz : List Nat) (fuel : Nat) (input : Bytes) (st : StreamState),
      Seg (deserializeChunkSync C m) input cs sz → sz.sum ≤ input.length →
      FooterAt (input.drop sz.sum) cas → st.bnds.getLastD 0 + sz.sum ≤ u32Max → cs.length < fuel →
      streamLoop P C m fuel input st =
        .ok (⟨st.bnds ++ runningSums (st.bnds.getLastD 0) sz, st.chunks ++ chunkMeta P cs⟩, some cas, none) := by
  intro cs
  induction cs with
  | nil =>
    intro sz fuel input st hseg _ hf _ hfu
    have : sz = [] := by
      have := hseg.length_eq
      cases sz with
      | nil => rfl
      | cons _ _ => simp at this
    subst this
    cases fuel with
    | zero => simp at hfu
    | succ f =>
      rw [streamLoop_footerAt P C m f input cas (by simpa using hf)]
      simp [runningSums, chunkMeta]
  | cons d cs ih =>
    intro sz fuel input st hseg hfit hf hb hfu
    cases fuel with
    | zero => simp at hfu
    | succ f =>
      cases hseg with
      | @cons _ r _ sz' hr hrest =>
        simp only [List.sum_cons] at hfit hf hb
        obtain ⟨hd, ok⟩ := deserializeChunkSync_ok hr
        have hcons := ok.consumed
        have e : input.drop r.consumed = (input.drop 8).drop hd.clen := by
          rw [List.drop_drop, hcons, Nat.add_comm]
        rw [streamLoop_step_chunk (out := r.data) ok.long ok.header (by rw [List.length_drop]; omega) ok.dec
          ok.ulen (by omega), ← e]
        rw [ih sz' f _ _ hrest (by rw [List.length_drop]; omega)
          (by rw [List.drop_drop]; exact hf) (by simp only [getLastD_concat']; omega) (by simpa using hfu)]
        simp only [getLastD_concat', runningSums, List.append_assoc, List.singleton_append, chunkMeta,
          List.map_cons, hcons]
        have e2 : st.bnds.getLastD 0 + 8 + hd.clen = st.bnds.getLastD 0 + (hd.clen + 8) := by omega
        rw [e2]

/-! ## 4. the validators accept the same V1 objects -/

theorem take_all {α} (l : List α) (n : Nat) (h : l.length = n) : (l.drop 0).take n = l := by
  subst h; simp

/-- whatever the streaming validator accepts with a footer and at least one chunk, the seekable
    validator accepts with the same footer -/
theorem stream_accept_imp_seek (P : HashPrims) (C : Codec) (m : Nat) (obj : Bytes) (h : Hash) (cas : CasObject)
    (hv : validateStream P C m obj h = .accept cas none) (hn : cas.info.numChunks ≠ 0) :
    validate P C m obj h = .accept cas none := by
  obtain ⟨cs, sz, s⟩ := validateStream_sound P C m obj h cas none hv
  cases s.shape with
  | footer _ he fm =>
    cases he with
    | footer _ t1 t2 t3 t4 =>
      have fa : FooterAt (obj.drop sz.sum) cas := ⟨t1, t2, t3, t4⟩
      have hex := fm.exact
      have hdes := footer_stream_to_seek obj cas sz.sum (by omega) fa
      have af := deserializeAsyncV1_spec _ _ t4
      have hseg : Seg (deserializeChunkSync C m) obj cs sz :=
        Seg.mono (fun _ _ hr => ((deserializeChunkAsync_ok_iff C m _ _).mp hr).1) s.seg
      have hnum := fm.numChunks
      obtain ⟨st', e1, e2, e3, e4⟩ := walkChunks_of_seg P C m obj cas.info fm.bv cs sz 0
        ⟨0, 0, 0, obj.length - 4, []⟩ (by simpa using hseg)
        (by rw [take_all _ _ (by rw [af.hashesLen, hnum])]; exact fm.hashes)
        (by rw [take_all _ _ (by rw [af.bndLen, hnum])]; exact fm.boundaries)
        (by rw [take_all _ _ (by rw [af.unpLen, hnum])]; exact fm.unpacked)
        rfl (by have := s.bndFits; simp only []; omega) (by have := fm.unpFits; simp only []; omega)
      simp only [Nat.zero_add, List.nil_append] at e2 e3 e4
      have hne : cs ≠ [] := by
        intro hc; rw [hc] at hnum; exact hn hnum
      have hpos := e4 hne
      have hroot := s.root
      have hcash := fm.cashash
      have hbf := s.bndFits
      rw [← hnum] at e1
      unfold validate
      rw [hdes]
      simp only [e1]
      rw [if_neg (by omega), hpos, e2, e3]
      rw [if_neg (by simp only [u32Max] at hbf ⊢; omega)]
      rw [if_neg (by rw [hroot, hcash]; simp)]

theorem Seg.bounds_sync {C : Codec} {m : Nat} {input : Bytes} {cs : List Bytes} {sz : List Nat}
    (h : Seg (deserializeChunkSync C m) input cs sz) : 8 * cs.length ≤ sz.sum := by
  induction h with
  | nil => simp
  | cons hr _ ih =>
    have hb := deserializeChunkSync_bounds hr
    simp only [List.length_cons, List.sum_cons]
    omega

/-- whatever the seekable validator accepts with a V1 footer, for an object below 4 GiB, the
    streaming validator accepts with the same footer -/
theorem seek_accept_imp_stream (P : HashPrims) (C : Codec) (m : Nat) (obj : Bytes) (h : Hash) (cas : CasObject)
    (gb : Option Nat) (hv : validate P C m obj h = .accept cas gb) (hlen : obj.length < 2 ^ 32)
    (hbv : cas.info.boundariesVersion = boundariesVersion) :
    validateStream P C m obj h = .accept cas none := by
  obtain ⟨_, cs, sz, s⟩ := validate_sound P C m obj h cas gb hv
  have hle := s.footerPosLe
  have hmod := s.footerPosMod
  have hex : obj.length = sz.sum + cas.infoLength + 4 := by omega
  have fa := footer_seek_to_stream obj cas s.footer hbv
  have eL : obj.length - 4 - cas.infoLength = sz.sum := by omega
  rw [eL] at fa
  have h8 := s.seg.bounds_sync
  have hloop := streamLoop_of_seg P C m cas cs sz (obj.length + 1) obj ⟨[], []⟩ s.seg (by omega) fa
    (by simp only [List.getLastD_nil, u32Max]; omega) (by omega)
  simp only [List.getLastD_nil, List.nil_append] at hloop
  have hds := deserialize_spec _ _ s.footer
  have hchk := streamFooterCheck_eq h cas.info ⟨runningSums 0 sz, chunkMeta P cs⟩
    (by rw [s.numChunks]; simp [chunkMeta]) s.boundaries (by rw [s.hashes, chunkMeta_fst])
    (by rw [s.unpacked hbv, chunkMeta_snd])
    (by simp only [chunkMeta_snd]
        intro y hy
        have := runningSums_le 0 _ y hy
        have := s.unpFits
        omega)
  rw [if_neg (by rw [s.cashash]; simp)] at hchk
  have hroot := s.root
  unfold validateStream
  rw [hloop]
  simp only [hchk]
  rw [if_neg (by rw [hroot]; simp)]

end Xet.Xorb
