/-
Helper lemmas for C07 (xorb wire format round trips).  Model: `XetModel/XorbFormat.lean`.
Core Lean only.
-/
import XetModel.XorbFormat

/-! ## generic list facts (kept in `Xet.Xorb` to avoid clashes with other proof files) -/

namespace Xet.Xorb

theorem drop_append_of_length {α} (a b : List α) (n : Nat) (h : a.length = n) : (a ++ b).drop n = b := by
  subst h; simp

theorem take_append_of_length {α} (a b : List α) (n : Nat) (h : a.length = n) : (a ++ b).take n = a := by
  subst h; simp

theorem toNat_ofNat_u8 (n : Nat) : (UInt8.ofNat n).toNat = n % 256 := by
  simp [UInt8.toNat_ofNat']

end Xet.Xorb

/-! ## (a) byte-level lemmas: hashes -/

namespace Xet.Hash
open Xet.Xorb (drop_append_of_length take_append_of_length toNat_ofNat_u8)

theorem range8 : List.range 8 = [0,1,2,3,4,5,6,7] := by decide

theorem wordBytes_length (w : UInt64) : (wordBytes w).length = 8 := by
  simp [wordBytes]

theorem wordOfBytes_wordBytes (w : UInt64) (rest : Bytes) :
    wordOfBytes (wordBytes w ++ rest) = w := by
  have hw : w.toNat < 2 ^ 64 := w.toNat_lt
  simp only [wordOfBytes, wordBytes, range8, List.map_cons, List.map_nil, List.cons_append,
    List.nil_append, List.take_succ_cons, List.take_zero, List.foldr_cons, List.foldr_nil, toNat_ofNat_u8]
  apply UInt64.toNat_inj.mp
  simp only [UInt64.toNat_ofNat']
  simp only [Nat.reducePow] at hw ⊢
  omega

theorem toBytes_length (h : Hash) : (toBytes h).length = 32 := by
  simp [toBytes, wordBytes_length]

/-- `ofBytes` only looks at the first 32 bytes -/
theorem ofBytes_toBytes_append (h : Hash) (rest : Bytes) : ofBytes (toBytes h ++ rest) = h := by
  cases h with
  | mk w0 w1 w2 w3 =>
    simp only [ofBytes, toBytes, List.append_assoc]
    have d8 : ∀ (w : UInt64) (r : Bytes), (wordBytes w ++ r).drop 8 = r :=
      fun w r => drop_append_of_length _ _ _ (wordBytes_length w)
    have e16 : ∀ r : Bytes, r.drop 16 = (r.drop 8).drop 8 := by intro r; simp
    have e24 : ∀ r : Bytes, r.drop 24 = ((r.drop 8).drop 8).drop 8 := by intro r; simp
    rw [e16, e24]
    simp only [d8, wordOfBytes_wordBytes]

theorem ofBytes_toBytes (h : Hash) : ofBytes (toBytes h) = h := by
  simpa using ofBytes_toBytes_append h []

end Xet.Hash

namespace Xet.Xorb

/-! ## (a) byte-level lemmas: integers and scheme codes -/

theorem ofLe3_le3 (n : Nat) (h : n < 2 ^ 24) :
    ofLe3 (UInt8.ofNat (n % 256)) (UInt8.ofNat (n / 256 % 256)) (UInt8.ofNat (n / 65536 % 256)) = n := by
  simp only [ofLe3, toNat_ofNat_u8]
  omega

theorem ofLe32_le32 (n : Nat) (h : n < 2 ^ 32) :
    ofLe32 (UInt8.ofNat (n % 256)) (UInt8.ofNat (n / 256 % 256)) (UInt8.ofNat (n / 65536 % 256))
      (UInt8.ofNat (n / 16777216 % 256)) = n := by
  simp only [ofLe32, toNat_ofNat_u8]
  omega

theorem le3_length (n : Nat) : (le3 n).length = 3 := rfl
theorem le32_length (n : Nat) : (le32 n).length = 4 := rfl

theorem Scheme.ofCode_code (s : Scheme) : Scheme.ofCode s.code = some s := by
  cases s <;> decide

/-! ## constants the proofs depend on (each a separate obligation on the regenerated constants) -/

theorem currentChunkVersion_lt : currentChunkVersion < 256 := by decide

/-! ## (b) chunk header -/

theorem ChunkHeader.bytes_length (h : ChunkHeader) : h.bytes.length = chunkHeaderLen := rfl

theorem parseChunkHeader_bytes (maxChunk : Nat) (hmax : maxChunk * 2 < 2 ^ 24) (h : ChunkHeader)
    (hv : h.version = currentChunkVersion) (hc : h.clen ≤ maxChunk * 2) (hu : h.ulen ≤ maxChunk) :
    parseChunkHeader maxChunk h.bytes = .ok h := by
  cases h with
  | mk version clen scheme ulen =>
    simp only at hv hc hu
    have hcv := currentChunkVersion_lt
    simp only [ChunkHeader.bytes, le3, List.cons_append, List.nil_append, parseChunkHeader,
      Scheme.ofCode_code, ofLe3_le3 clen (by omega), ofLe3_le3 ulen (by omega), toNat_ofNat_u8]
    subst hv
    rw [Nat.mod_eq_of_lt hcv]
    simp only [Nat.lt_irrefl, if_false]
    rw [if_neg (by omega), if_neg (by omega)]

/-! ## (c) single chunk -/

/-- the header `serializeChunk` emits -/
def chunkHeaderOf (C : Codec) (sch : Scheme) (d : Bytes) : ChunkHeader :=
  if (compress C sch d).length ≥ d.length then ⟨currentChunkVersion, d.length, .none, d.length⟩
  else ⟨currentChunkVersion, (compress C sch d).length, sch, d.length⟩

/-- the payload `serializeChunk` emits -/
def chunkPayloadOf (C : Codec) (sch : Scheme) (d : Bytes) : Bytes :=
  if (compress C sch d).length ≥ d.length then d else compress C sch d

theorem serializeChunk_eq (C : Codec) (sch : Scheme) (d : Bytes) :
    serializeChunk C sch d = (chunkHeaderOf C sch d).bytes ++ chunkPayloadOf C sch d := by
  simp only [serializeChunk, chunkHeaderOf, chunkPayloadOf]
  split <;> rfl

theorem chunkHeaderOf_version (C : Codec) (sch : Scheme) (d : Bytes) :
    (chunkHeaderOf C sch d).version = currentChunkVersion := by
  simp only [chunkHeaderOf]; split <;> rfl

theorem chunkHeaderOf_ulen (C : Codec) (sch : Scheme) (d : Bytes) :
    (chunkHeaderOf C sch d).ulen = d.length := by
  simp only [chunkHeaderOf]; split <;> rfl

theorem chunkHeaderOf_clen (C : Codec) (sch : Scheme) (d : Bytes) :
    (chunkHeaderOf C sch d).clen = (chunkPayloadOf C sch d).length := by
  simp only [chunkHeaderOf, chunkPayloadOf]; split <;> rfl

theorem chunkPayloadOf_length_le (C : Codec) (sch : Scheme) (d : Bytes) :
    (chunkPayloadOf C sch d).length ≤ d.length := by
  simp only [chunkPayloadOf]; split <;> omega

theorem serializeChunk_length (C : Codec) (sch : Scheme) (d : Bytes) :
    (serializeChunk C sch d).length = chunkHeaderLen + (chunkPayloadOf C sch d).length := by
  rw [serializeChunk_eq, List.length_append, ChunkHeader.bytes_length]

theorem serializeChunk_length_ge (C : Codec) (sch : Scheme) (d : Bytes) :
    8 ≤ (serializeChunk C sch d).length := by
  rw [serializeChunk_length]; simp [chunkHeaderLen]

theorem decompress_compress (C : Codec) (hC : C.RoundTrip) (hbg : ∀ d, Bg4.regroup (Bg4.split d) = d)
    (sch : Scheme) (d : Bytes) : decompress C sch (compress C sch d) = .ok d := by
  cases sch
  · rfl
  · exact hC d
  · simp only [decompress, compress, hC (Bg4.split d), hbg]

/-- decompressing what `serializeChunk` stored under the scheme it recorded gives the chunk back
    (covers the incompressible fallback: payload = `d`, scheme = `None`). -/
theorem decompress_payload (C : Codec) (hC : C.RoundTrip) (hbg : ∀ d, Bg4.regroup (Bg4.split d) = d)
    (sch : Scheme) (d : Bytes) :
    decompress C (chunkHeaderOf C sch d).scheme (chunkPayloadOf C sch d) = .ok d := by
  simp only [chunkHeaderOf, chunkPayloadOf]
  split
  · rfl
  · exact decompress_compress C hC hbg sch d

theorem parseChunkHeader_chunkHeaderOf (C : Codec) (maxChunk : Nat) (hmax : maxChunk * 2 < 2 ^ 24)
    (sch : Scheme) (d : Bytes) (hd : d.length ≤ maxChunk) :
    parseChunkHeader maxChunk (chunkHeaderOf C sch d).bytes = .ok (chunkHeaderOf C sch d) := by
  apply parseChunkHeader_bytes maxChunk hmax _ (chunkHeaderOf_version C sch d)
  · rw [chunkHeaderOf_clen]; have := chunkPayloadOf_length_le C sch d; omega
  · rw [chunkHeaderOf_ulen]; exact hd

theorem deserializeChunkSync_serializeChunk (C : Codec) (hC : C.RoundTrip)
    (hbg : ∀ d, Bg4.regroup (Bg4.split d) = d) (maxChunk : Nat) (hmax : maxChunk * 2 < 2 ^ 24)
    (sch : Scheme) (d rest : Bytes) (hd : d.length ≤ maxChunk) :
    deserializeChunkSync C maxChunk (serializeChunk C sch d ++ rest)
      = .ok ⟨d, (serializeChunk C sch d).length, rest⟩ := by
  rw [serializeChunk_length, serializeChunk_eq, List.append_assoc]
  have hl := ChunkHeader.bytes_length (chunkHeaderOf C sch d)
  simp only [deserializeChunkSync, take_append_of_length _ _ _ hl, drop_append_of_length _ _ _ hl,
    parseChunkHeader_chunkHeaderOf C maxChunk hmax sch d hd, chunkHeaderOf_clen,
    take_append_of_length _ _ _ rfl, drop_append_of_length _ _ _ rfl, decompress_payload C hC hbg,
    chunkHeaderOf_ulen, List.length_append, hl]
  rw [if_neg (by omega)]
  simp [Nat.add_comm]

theorem deserializeChunkAsync_serializeChunk (C : Codec) (hC : C.RoundTrip)
    (hbg : ∀ d, Bg4.regroup (Bg4.split d) = d) (maxChunk : Nat) (hmax : maxChunk * 2 < 2 ^ 24)
    (sch : Scheme) (d rest : Bytes) (hd : d.length ≤ maxChunk) :
    deserializeChunkAsync C maxChunk (serializeChunk C sch d ++ rest)
      = .ok ⟨d, (serializeChunk C sch d).length, rest⟩ := by
  rw [serializeChunk_length, serializeChunk_eq, List.append_assoc]
  have hl := ChunkHeader.bytes_length (chunkHeaderOf C sch d)
  simp only [deserializeChunkAsync, take_append_of_length _ _ _ hl, drop_append_of_length _ _ _ hl,
    parseChunkHeader_chunkHeaderOf C maxChunk hmax sch d hd, chunkHeaderOf_clen,
    take_append_of_length _ _ _ rfl, drop_append_of_length _ _ _ rfl, decompress_payload C hC hbg,
    chunkHeaderOf_ulen, List.length_append, hl]
  rw [if_neg (by omega), if_neg (by omega)]
  simp [Nat.add_comm]

/-! ## (d) chunk sequences -/

/-- concatenated serialized chunks; `ps` pairs each chunk with the scheme used for it -/
def serChunks (C : Codec) (ps : List (Bytes × Scheme)) : Bytes :=
  (ps.map fun p => serializeChunk C p.2 p.1).flatten

theorem serChunks_nil (C : Codec) : serChunks C [] = [] := rfl

theorem serChunks_cons (C : Codec) (p : Bytes × Scheme) (ps : List (Bytes × Scheme)) :
    serChunks C (p :: ps) = serializeChunk C p.2 p.1 ++ serChunks C ps := rfl

theorem serChunks_append (C : Codec) (ps qs : List (Bytes × Scheme)) :
    serChunks C (ps ++ qs) = serChunks C ps ++ serChunks C qs := by
  simp [serChunks]

theorem serChunks_length (C : Codec) (ps : List (Bytes × Scheme)) :
    (serChunks C ps).length = ((ps.map fun p => serializeChunk C p.2 p.1).map (·.length)).sum := by
  simp [serChunks, List.length_flatten]

/-- every chunk occupies at least its 8 header bytes: the fuel `input.length + 1` suffices -/
theorem length_le_serChunks_length (C : Codec) (ps : List (Bytes × Scheme)) :
    8 * ps.length ≤ (serChunks C ps).length := by
  induction ps with
  | nil => simp
  | cons p ps ih =>
    rw [serChunks_cons, List.length_append, List.length_cons]
    have := serializeChunk_length_ge C p.2 p.1
    omega

/-- a single-chunk decoder that is correct on serialized chunks and reports EOF on empty input -/
structure GoodDecoder (C : Codec) (maxChunk : Nat) (one : Bytes → Except Err ChunkRead) : Prop where
  eof : one [] = .error .eof
  ok : ∀ (sch : Scheme) (d rest : Bytes), d.length ≤ maxChunk →
        one (serializeChunk C sch d ++ rest) = .ok ⟨d, (serializeChunk C sch d).length, rest⟩

theorem goodDecoder_sync (C : Codec) (hC : C.RoundTrip) (hbg : ∀ d, Bg4.regroup (Bg4.split d) = d)
    (maxChunk : Nat) (hmax : maxChunk * 2 < 2 ^ 24) : GoodDecoder C maxChunk (deserializeChunkSync C maxChunk) :=
  ⟨rfl, fun sch d rest hd => deserializeChunkSync_serializeChunk C hC hbg maxChunk hmax sch d rest hd⟩

theorem goodDecoder_async (C : Codec) (hC : C.RoundTrip) (hbg : ∀ d, Bg4.regroup (Bg4.split d) = d)
    (maxChunk : Nat) (hmax : maxChunk * 2 < 2 ^ 24) : GoodDecoder C maxChunk (deserializeChunkAsync C maxChunk) :=
  ⟨rfl, fun sch d rest hd => deserializeChunkAsync_serializeChunk C hC hbg maxChunk hmax sch d rest hd⟩

theorem deserializeChunksAux_serChunks (C : Codec) (maxChunk : Nat) (one : Bytes → Except Err ChunkRead)
    (hone : GoodDecoder C maxChunk one) (ps : List (Bytes × Scheme)) (hps : ∀ p ∈ ps, p.1.length ≤ maxChunk)
    (fuel : Nat) (hfuel : ps.length ≤ fuel) (acc : Bytes) (cons unc : Nat) (idx : List Nat) :
    deserializeChunksAux one fuel (serChunks C ps) acc cons unc idx
      = .ok ⟨acc ++ (ps.map (·.1)).flatten, cons + (serChunks C ps).length,
             idx.reverse ++ runningSums unc (ps.map (·.1.length))⟩ := by
  induction ps generalizing fuel acc cons unc idx with
  | nil =>
    cases fuel with
    | zero => simp [deserializeChunksAux, serChunks_nil, runningSums]
    | succ f => simp [deserializeChunksAux, serChunks_nil, runningSums, hone.eof]
  | cons p ps ih =>
    cases fuel with
    | zero => simp at hfuel
    | succ f =>
      simp only [serChunks_cons, deserializeChunksAux, hone.ok p.2 p.1 _ (hps p (by simp))]
      rw [ih (fun q hq => hps q (by simp [hq])) f (by simpa using hfuel)]
      simp [runningSums, Nat.add_assoc]

theorem deserializeChunks_serChunks (C : Codec) (maxChunk : Nat) (one : Bytes → Except Err ChunkRead)
    (hone : GoodDecoder C maxChunk one) (ps : List (Bytes × Scheme)) (hps : ∀ p ∈ ps, p.1.length ≤ maxChunk) :
    deserializeChunks one (serChunks C ps)
      = .ok ⟨(ps.map (·.1)).flatten, (serChunks C ps).length, 0 :: runningSums 0 (ps.map (·.1.length))⟩ := by
  unfold deserializeChunks
  rw [deserializeChunksAux_serChunks C maxChunk one hone ps hps]
  · simp
  · have := length_le_serChunks_length C ps; omega

theorem map_fst_zip_eq {α β} (as : List α) (bs : List β) (h : bs.length = as.length) :
    (as.zip bs).map (·.1) = as := by
  have := List.map_fst_zip (l₁ := as) (l₂ := bs) (by omega)
  simpa using this

theorem getChunkContents_serChunks (C : Codec) (hC : C.RoundTrip) (hbg : ∀ d, Bg4.regroup (Bg4.split d) = d)
    (maxChunk : Nat) (hmax : maxChunk * 2 < 2 ^ 24)
    (ps : List (Bytes × Scheme)) (hps : ∀ p ∈ ps, p.1.length ≤ maxChunk)
    (fuel : Nat) (hfuel : ps.length ≤ fuel) (acc : Bytes) :
    getChunkContents C maxChunk fuel (serChunks C ps) acc = .ok (acc ++ (ps.map (·.1)).flatten) := by
  induction ps generalizing fuel acc with
  | nil =>
    cases fuel with
    | zero => simp [getChunkContents]
    | succ f => simp [getChunkContents, serChunks_nil]
  | cons p ps ih =>
    cases fuel with
    | zero => simp at hfuel
    | succ f =>
      have hne : (serializeChunk C p.2 p.1 ++ serChunks C ps).isEmpty = false := by
        have := serializeChunk_length_ge C p.2 p.1
        cases hs : serializeChunk C p.2 p.1 with
        | nil => rw [hs] at this; simp at this
        | cons _ _ => rfl
      simp only [serChunks_cons, getChunkContents, hne, Bool.false_eq_true, if_false,
        deserializeChunkSync_serializeChunk C hC hbg maxChunk hmax p.2 p.1 _ (hps p (by simp))]
      rw [ih (fun q hq => hps q (by simp [hq])) f (by simpa using hfuel)]
      simp

/-! ## (e) footer -/

/-! constants (separate obligations on the regenerated constants) -/
theorem identMain_length : identMain.length = 7 := by decide
theorem identHashes_length : identHashes.length = 7 := by decide
theorem identBoundaries_length : identBoundaries.length = 7 := by decide
theorem formatVersion_lt : formatVersion < 256 := by decide
theorem hashesVersion_lt : hashesVersion < 256 := by decide
theorem boundariesVersion_lt : boundariesVersion < 256 := by decide
theorem formatVersion_ne_v0 : formatVersion ≠ formatVersionV0 := by decide

/-! cursor steps -/

theorem Cur.readN_append (a r : Bytes) (p n : Nat) (h : a.length = n) :
    Cur.readN ⟨a ++ r, p⟩ n = .ok (a, ⟨r, p + n⟩) := by
  subst h
  simp [Cur.readN]

theorem Cur.readU8_cons (b : UInt8) (r : Bytes) (p : Nat) :
    Cur.readU8 ⟨b :: r, p⟩ = .ok (b.toNat, ⟨r, p + 1⟩) := rfl

theorem Cur.readU8_ofNat (n : Nat) (hn : n < 256) (r : Bytes) (p : Nat) :
    Cur.readU8 ⟨UInt8.ofNat n :: r, p⟩ = .ok (n, ⟨r, p + 1⟩) := by
  rw [Cur.readU8_cons, toNat_ofNat_u8, Nat.mod_eq_of_lt hn]

theorem Cur.readU32_le32 (n : Nat) (hn : n < 2 ^ 32) (r : Bytes) (p : Nat) :
    Cur.readU32 ⟨le32 n ++ r, p⟩ = .ok (n, ⟨r, p + 4⟩) := by
  simp only [le32, List.cons_append, List.nil_append, Cur.readU32, ofLe32_le32 n hn]

theorem Cur.readHash_toBytes (h : Hash) (r : Bytes) (p : Nat) :
    Cur.readHash ⟨h.toBytes ++ r, p⟩ = .ok (h, ⟨r, p + 32⟩) := by
  have hl := Hash.toBytes_length h
  simp only [Cur.readHash, List.length_append, hl, take_append_of_length _ _ _ hl,
    drop_append_of_length _ _ _ hl, Hash.ofBytes_toBytes]
  rw [if_neg (by omega)]

theorem readU32s_flatMap (xs : List Nat) (hxs : ∀ x ∈ xs, x < 2 ^ 32) (r : Bytes) (p : Nat) (acc : List Nat) :
    readU32s xs.length ⟨xs.flatMap le32 ++ r, p⟩ acc = .ok (acc.reverse ++ xs, ⟨r, p + 4 * xs.length⟩) := by
  induction xs generalizing p acc with
  | nil => simp [readU32s]
  | cons x xs ih =>
    simp only [List.length_cons, List.flatMap_cons, List.append_assoc, readU32s,
      Cur.readU32_le32 x (hxs x (by simp))]
    rw [ih (fun y hy => hxs y (by simp [hy]))]
    simp only [List.reverse_cons, List.append_assoc, List.singleton_append]
    congr 3
    omega

theorem readHashes_flatMap (hs : List Hash) (r : Bytes) (p : Nat) (acc : List Hash) :
    readHashes hs.length ⟨hs.flatMap Hash.toBytes ++ r, p⟩ acc = .ok (acc.reverse ++ hs, ⟨r, p + 32 * hs.length⟩) := by
  induction hs generalizing p acc with
  | nil => simp [readHashes]
  | cons x xs ih =>
    simp only [List.length_cons, List.flatMap_cons, List.append_assoc, readHashes, Cur.readHash_toBytes]
    rw [ih]
    simp only [List.reverse_cons, List.append_assoc, List.singleton_append]
    congr 3
    omega

/-- well-formed footer: what `CasObjectInfoV1::serialize` can faithfully write (u32 fields) and
    `deserialize` accepts. -/
def Info.WF (i : Info) : Prop :=
  i.hashes.length = i.numChunks ∧ i.boundaries.length = i.numChunks ∧ i.unpacked.length = i.numChunks ∧
  i.numChunks < 2 ^ 32 ∧ (∀ x ∈ i.boundaries, x < 2 ^ 32) ∧ (∀ x ∈ i.unpacked, x < 2 ^ 32) ∧
  i.buffer.length = 16 ∧
  i.hashesOffFromEnd = Xorb.hashesOffFromEnd i.hashes.length i.boundaries.length i.unpacked.length ∧
  i.boundaryOffFromEnd = Xorb.boundaryOffFromEnd i.boundaries.length i.unpacked.length ∧
  i.hashesOffFromEnd < 2 ^ 32 ∧ i.boundaryOffFromEnd < 2 ^ 32 ∧
  i.boundariesVersion = Xorb.boundariesVersion

instance (i : Info) : Decidable i.WF := by unfold Info.WF; infer_instance

/-- the footer after ident + version (what `parseInfoV1Body` reads), right-nested -/
def Info.bodyBytes (i : Info) (rest : Bytes) : Bytes :=
  i.cashash.toBytes ++ (identHashes ++ (UInt8.ofNat hashesVersion :: (le32 i.numChunks ++
  (i.hashes.flatMap Hash.toBytes ++ (identBoundaries ++ (UInt8.ofNat i.boundariesVersion :: (le32 i.numChunks ++
  (i.boundaries.flatMap le32 ++ (i.unpacked.flatMap le32 ++ (le32 i.numChunks ++ (le32 i.hashesOffFromEnd ++
  (le32 i.boundaryOffFromEnd ++ (i.buffer ++ rest)))))))))))))

theorem Info.bytes_append (i : Info) (rest : Bytes) :
    i.bytes ++ rest = identMain ++ (UInt8.ofNat formatVersion :: i.bodyBytes rest) := by
  simp only [Info.bytes, Info.bodyBytes, List.append_assoc, List.cons_append, List.nil_append]

theorem flatMap_le32_length (xs : List Nat) : (xs.flatMap le32).length = 4 * xs.length := by
  induction xs with
  | nil => rfl
  | cons x xs ih => simp only [List.flatMap_cons, List.length_append, le32_length, ih, List.length_cons]; omega

theorem flatMap_toBytes_length (xs : List Hash) : (xs.flatMap Hash.toBytes).length = 32 * xs.length := by
  induction xs with
  | nil => rfl
  | cons x xs ih =>
    simp only [List.flatMap_cons, List.length_append, Hash.toBytes_length, ih, List.length_cons]; omega

/-- length of a V1 footer with `n` chunks -/
def infoLen (n : Nat) : Nat := 8 + 32 + hashesOffFromEnd n n n

theorem Info.bytes_length (i : Info) (hwf : i.WF) : i.bytes.length = infoLen i.numChunks := by
  obtain ⟨h1, h2, h3, _, _, _, h7, _⟩ := hwf
  simp only [Info.bytes, List.length_append, identMain_length, identHashes_length, identBoundaries_length,
    Hash.toBytes_length, le32_length, List.length_cons, List.length_nil, flatMap_le32_length,
    flatMap_toBytes_length, h1, h2, h3, h7, infoLen, Xorb.hashesOffFromEnd, Xorb.boundaryOffFromEnd]
  omega

theorem parseInfoV1Body_bodyBytes (i : Info) (hwf : i.WF) (rest : Bytes) (p0 : Nat) :
    parseInfoV1Body ⟨i.bodyBytes rest, p0⟩ = .ok ⟨i, p0 + 32 + i.hashesOffFromEnd, rest⟩ := by
  obtain ⟨h1, h2, h3, h4, h5, h6, h7, h8, h9, h10, h11, h12⟩ := hwf
  cases i with
  | mk cashash hashes boundaries unpacked numChunks hOff bOff bv buffer =>
    simp only at h1 h2 h3 h4 h5 h6 h7 h8 h9 h10 h11 h12
    subst h12
    have r1 := readHashes_flatMap hashes
    have r2 := readU32s_flatMap boundaries h5
    have r3 := readU32s_flatMap unpacked h6
    rw [h1] at r1; rw [h2] at r2; rw [h3] at r3
    simp only [parseInfoV1Body, Info.bodyBytes, bind, Except.bind, Cur.readHash_toBytes,
      Cur.readN_append _ _ _ 7 identHashes_length, Cur.readN_append _ _ _ 7 identBoundaries_length,
      Cur.readU8_ofNat _ hashesVersion_lt, Cur.readU8_ofNat _ boundariesVersion_lt,
      Cur.readU32_le32 _ h4, Cur.readU32_le32 _ h10, Cur.readU32_le32 _ h11, r1, r2, r3,
      Cur.readN_append _ _ _ 16 h7, ne_eq, not_true_eq_false, if_false, List.reverse_nil, List.nil_append]
    rw [h1, h2, h3] at h8
    rw [h2, h3] at h9
    simp only [hashesOffFromEnd, boundaryOffFromEnd] at h8 h9
    rw [if_neg (by omega), if_neg (by omega)]
    congr 2
    omega


theorem parseInfo_bytes (i : Info) (hwf : i.WF) (rest : Bytes) :
    parseInfo (i.bytes ++ rest) = .ok ⟨i, i.bytes.length, rest⟩ := by
  rw [Info.bytes_length i hwf, Info.bytes_append]
  simp only [parseInfo, bind, Except.bind, Cur.readN_append _ _ _ 7 identMain_length,
    Cur.readU8_ofNat _ formatVersion_lt, ne_eq, not_true_eq_false, if_false,
    if_neg formatVersion_ne_v0, parseInfoV1Body_bodyBytes i hwf]
  obtain ⟨h1, h2, h3, _, _, _, _, h8, _⟩ := hwf
  rw [h8, h1, h2, h3]
  simp only [infoLen]

/-! ## (f) running sums -/

theorem runningSums_length (s : Nat) (xs : List Nat) : (runningSums s xs).length = xs.length := by
  induction xs generalizing s with
  | nil => rfl
  | cons x xs ih => simp [runningSums, ih]

theorem runningSums_le (s : Nat) (xs : List Nat) : ∀ y ∈ runningSums s xs, y ≤ s + xs.sum := by
  induction xs generalizing s with
  | nil => simp [runningSums]
  | cons x xs ih =>
    intro y hy
    simp only [runningSums, List.mem_cons] at hy
    simp only [List.sum_cons]
    rcases hy with rfl | hy
    · omega
    · have := ih _ y hy; omega

theorem runningSums_getD (s : Nat) (xs : List Nat) (k : Nat) (hk : k < xs.length) :
    (runningSums s xs).getD k 0 = s + (xs.take (k + 1)).sum := by
  induction xs generalizing s k with
  | nil => simp at hk
  | cons x xs ih =>
    cases k with
    | zero => simp [runningSums]
    | succ k =>
      simp only [runningSums, List.getD_cons_succ, List.take_succ_cons, List.sum_cons]
      rw [ih _ k (by simpa using hk)]
      omega

theorem runningSums_getLastD (s d : Nat) (xs : List Nat) :
    (runningSums s xs).getLastD d = if xs = [] then d else s + xs.sum := by
  induction xs generalizing s d with
  | nil => rfl
  | cons x xs ih =>
    simp only [runningSums, List.getLastD_cons, ih, List.sum_cons]
    split <;> simp_all <;> omega

theorem sum_take_split (xs : List Nat) (i j : Nat) (hij : i ≤ j) :
    (xs.take j).sum = (xs.take i).sum + ((xs.drop i).take (j - i)).sum := by
  have : j = i + (j - i) := by omega
  rw [this, List.take_add, List.sum_append]
  simp


/-! ## (f) object -/

/-- the footer `CasObject::serialize` writes -/
def serInfo (C : Codec) (h : Hash) (cs : List Bytes) (hashes : List Hash) (schemes : List Scheme) : Info :=
  (serialize C h cs hashes schemes).cas.info

theorem serialize_bytes (C : Codec) (h : Hash) (cs : List Bytes) (hashes : List Hash) (schemes : List Scheme) :
    (serialize C h cs hashes schemes).bytes
      = serChunks C (cs.zip schemes) ++ (serInfo C h cs hashes schemes).bytes
          ++ le32 (serInfo C h cs hashes schemes).bytes.length := rfl

theorem serialize_cas (C : Codec) (h : Hash) (cs : List Bytes) (hashes : List Hash) (schemes : List Scheme) :
    (serialize C h cs hashes schemes).cas
      = ⟨serInfo C h cs hashes schemes, (serInfo C h cs hashes schemes).bytes.length⟩ := rfl

/-- physical (serialized) sizes of the chunks -/
def physSizes (C : Codec) (ps : List (Bytes × Scheme)) : List Nat :=
  ps.map fun p => (serializeChunk C p.2 p.1).length

theorem physSizes_length (C : Codec) (ps : List (Bytes × Scheme)) : (physSizes C ps).length = ps.length := by
  simp [physSizes]

theorem physSizes_sum (C : Codec) (ps : List (Bytes × Scheme)) :
    (physSizes C ps).sum = (serChunks C ps).length := by
  rw [serChunks_length, physSizes, List.map_map]; rfl

theorem physSizes_take (C : Codec) (ps : List (Bytes × Scheme)) (k : Nat) :
    (physSizes C ps).take k = physSizes C (ps.take k) := by
  simp [physSizes, List.map_take]

theorem serInfo_cashash (C : Codec) (h : Hash) (cs : List Bytes) (hashes : List Hash) (schemes : List Scheme) :
    (serInfo C h cs hashes schemes).cashash = h := rfl
theorem serInfo_hashes (C : Codec) (h : Hash) (cs : List Bytes) (hashes : List Hash) (schemes : List Scheme) :
    (serInfo C h cs hashes schemes).hashes = hashes := rfl
theorem serInfo_boundaries (C : Codec) (h : Hash) (cs : List Bytes) (hashes : List Hash) (schemes : List Scheme) :
    (serInfo C h cs hashes schemes).boundaries = runningSums 0 (physSizes C (cs.zip schemes)) := by
  simp only [serInfo, serialize, physSizes, List.map_map]; rfl
theorem serInfo_unpacked (C : Codec) (h : Hash) (cs : List Bytes) (hashes : List Hash) (schemes : List Scheme) :
    (serInfo C h cs hashes schemes).unpacked = runningSums 0 (cs.map (·.length)) := rfl
theorem serInfo_numChunks (C : Codec) (h : Hash) (cs : List Bytes) (hashes : List Hash) (schemes : List Scheme) :
    (serInfo C h cs hashes schemes).numChunks = cs.length := rfl
theorem serInfo_boundariesVersion (C : Codec) (h : Hash) (cs : List Bytes) (hashes : List Hash)
    (schemes : List Scheme) : (serInfo C h cs hashes schemes).boundariesVersion = boundariesVersion := rfl
theorem serInfo_buffer (C : Codec) (h : Hash) (cs : List Bytes) (hashes : List Hash) (schemes : List Scheme) :
    (serInfo C h cs hashes schemes).buffer = zeros 16 := rfl
theorem serInfo_hOff (C : Codec) (h : Hash) (cs : List Bytes) (hashes : List Hash) (schemes : List Scheme) :
    (serInfo C h cs hashes schemes).hashesOffFromEnd =
      hashesOffFromEnd (serInfo C h cs hashes schemes).hashes.length
        (serInfo C h cs hashes schemes).boundaries.length (serInfo C h cs hashes schemes).unpacked.length := rfl
theorem serInfo_bOff (C : Codec) (h : Hash) (cs : List Bytes) (hashes : List Hash) (schemes : List Scheme) :
    (serInfo C h cs hashes schemes).boundaryOffFromEnd =
      boundaryOffFromEnd (serInfo C h cs hashes schemes).boundaries.length
        (serInfo C h cs hashes schemes).unpacked.length := rfl

theorem zip_length_eq {α β} (as : List α) (bs : List β) (h : bs.length = as.length) :
    (as.zip bs).length = as.length := by
  simp [List.length_zip, h]


/-- hypotheses of the object round trip, bundled -/
structure SerOK (C : Codec) (maxChunk : Nat) (h : Hash) (cs : List Bytes) (hashes : List Hash)
    (schemes : List Scheme) : Prop where
  nonempty : 1 ≤ cs.length
  hashesLen : hashes.length = cs.length
  schemesLen : schemes.length = cs.length
  chunkMax : ∀ c ∈ cs, c.length ≤ maxChunk
  hashNe : h ≠ Hash.zero
  /-- the u32 fields: `info_length`, boundary offsets, back-offsets -/
  size : (serialize C h cs hashes schemes).bytes.length < 2 ^ 32
  /-- the u32 unpacked offsets (compression can make the object small while the content is ≥ 4 GiB) -/
  unpackedSize : (cs.map (·.length)).sum < 2 ^ 32

theorem zeros_length (n : Nat) : (zeros n).length = n := by simp [zeros]

theorem serInfo_bytes_length (C : Codec) (h : Hash) (cs : List Bytes) (hashes : List Hash) (schemes : List Scheme)
    (hh : hashes.length = cs.length) (hs : schemes.length = cs.length) :
    (serInfo C h cs hashes schemes).bytes.length = infoLen cs.length := by
  simp only [Info.bytes, List.length_append, identMain_length, identHashes_length, identBoundaries_length,
    Hash.toBytes_length, le32_length, List.length_cons, List.length_nil, flatMap_le32_length,
    flatMap_toBytes_length, serInfo_hashes, serInfo_boundaries, serInfo_unpacked, serInfo_buffer,
    runningSums_length, physSizes_length, zip_length_eq cs schemes hs, List.length_map, zeros_length, hh,
    infoLen, Xorb.hashesOffFromEnd, Xorb.boundaryOffFromEnd]
  omega

theorem serInfo_WF (C : Codec) (maxChunk : Nat) (h : Hash) (cs : List Bytes) (hashes : List Hash)
    (schemes : List Scheme) (ok : SerOK C maxChunk h cs hashes schemes) :
    (serInfo C h cs hashes schemes).WF := by
  have hsz := ok.size
  rw [serialize_bytes, List.length_append, List.length_append, le32_length,
    serInfo_bytes_length C h cs hashes schemes ok.hashesLen ok.schemesLen] at hsz
  have hz := zip_length_eq cs schemes ok.schemesLen
  have h8 := length_le_serChunks_length C (cs.zip schemes)
  rw [hz] at h8
  have hbl : (serInfo C h cs hashes schemes).boundaries.length = cs.length := by
    rw [serInfo_boundaries, runningSums_length, physSizes_length, hz]
  have hul : (serInfo C h cs hashes schemes).unpacked.length = cs.length := by
    rw [serInfo_unpacked, runningSums_length, List.length_map]
  have hhl : (serInfo C h cs hashes schemes).hashes.length = cs.length := ok.hashesLen
  refine ⟨hhl, hbl, hul, ?_, ?_, ?_, rfl, serInfo_hOff .., serInfo_bOff .., ?_, ?_, rfl⟩
  · rw [serInfo_numChunks]; omega
  · intro x hx
    rw [serInfo_boundaries] at hx
    have := runningSums_le 0 _ x hx
    rw [physSizes_sum] at this
    omega
  · intro x hx
    rw [serInfo_unpacked] at hx
    have := runningSums_le 0 _ x hx
    have := ok.unpackedSize
    omega
  · rw [serInfo_hOff, hhl, hbl, hul]
    simp only [infoLen] at hsz
    omega
  · rw [serInfo_bOff, hbl, hul]
    simp only [infoLen, hashesOffFromEnd] at hsz
    omega

theorem ofLe32_lt (a b c d : UInt8) : ofLe32 a b c d < 2 ^ 32 := by
  have := a.toNat_lt; have := b.toNat_lt; have := c.toNat_lt; have := d.toNat_lt
  simp only [ofLe32]; omega

/-- `deserialize` on `chunks ++ footer ++ le32 |footer|` -/
theorem deserialize_append (chunks : Bytes) (i : Info) (hwf : i.WF) (hlen : i.bytes.length < 2 ^ 32) :
    deserialize (chunks ++ i.bytes ++ le32 i.bytes.length) = .ok ⟨i, i.bytes.length⟩ := by
  have hl : (chunks ++ i.bytes ++ le32 i.bytes.length).length = chunks.length + i.bytes.length + 4 := by
    simp only [List.length_append, le32_length]
  have e1 : (chunks ++ i.bytes ++ le32 i.bytes.length).drop
      ((chunks ++ i.bytes ++ le32 i.bytes.length).length - 4) = le32 i.bytes.length := by
    rw [hl]; exact drop_append_of_length _ _ _ (by simp)
  have e2 : (chunks ++ i.bytes ++ le32 i.bytes.length).drop
      ((chunks ++ i.bytes ++ le32 i.bytes.length).length - 4 - i.bytes.length)
      = i.bytes ++ le32 i.bytes.length := by
    rw [hl, List.append_assoc]; exact drop_append_of_length _ _ _ (by omega)
  generalize chunks ++ i.bytes ++ le32 i.bytes.length = obj at hl e1 e2
  unfold deserialize
  rw [if_neg (by omega), e1]
  simp only [le32, ofLe32_le32 _ hlen]
  rw [if_neg (by omega), e2, parseInfo_bytes i hwf]
  simp


theorem serInfo_bytes_lt (C : Codec) (maxChunk : Nat) (h : Hash) (cs : List Bytes) (hashes : List Hash)
    (schemes : List Scheme) (ok : SerOK C maxChunk h cs hashes schemes) :
    (serInfo C h cs hashes schemes).bytes.length < 2 ^ 32 := by
  have hsz := ok.size
  rw [serialize_bytes, List.length_append, List.length_append] at hsz
  omega

theorem deserialize_serialize (C : Codec) (maxChunk : Nat) (h : Hash) (cs : List Bytes) (hashes : List Hash)
    (schemes : List Scheme) (ok : SerOK C maxChunk h cs hashes schemes) :
    deserialize (serialize C h cs hashes schemes).bytes = .ok (serialize C h cs hashes schemes).cas := by
  rw [serialize_bytes, serialize_cas]
  exact deserialize_append _ _ (serInfo_WF C maxChunk h cs hashes schemes ok)
    (serInfo_bytes_lt C maxChunk h cs hashes schemes ok)

theorem validateInfo_ok (c : CasObject) (h0 : c.info.numChunks ≠ 0)
    (h1 : c.info.hashes.length = c.info.numChunks) (h2 : c.info.boundaries.length = c.info.numChunks)
    (h3 : c.info.unpacked.length = c.info.numChunks) (h4 : c.info.cashash ≠ Hash.zero) :
    validateInfo c = .ok () := by
  unfold validateInfo
  rw [if_neg h0, if_neg (by simp [h1, h2, h3]), if_neg h4]

theorem validateInfo_serialize (C : Codec) (maxChunk : Nat) (h : Hash) (cs : List Bytes) (hashes : List Hash)
    (schemes : List Scheme) (ok : SerOK C maxChunk h cs hashes schemes) :
    validateInfo (serialize C h cs hashes schemes).cas = .ok () := by
  obtain ⟨h1, h2, h3, _⟩ := serInfo_WF C maxChunk h cs hashes schemes ok
  have hn := ok.nonempty
  apply validateInfo_ok _ _ h1 h2 h3 ok.hashNe
  show cs.length ≠ 0
  omega

/-- `get_range` when all its guards pass -/
theorem getRange_ok (C : Codec) (maxChunk : Nat) (c : CasObject) (obj : Bytes) (bs be : Nat)
    (hv : validateInfo c = .ok ()) (h1 : bs ≤ be) (h2 : be ≤ c.info.boundaries.getLastD 0)
    (h3 : be ≤ obj.length) :
    getRange C maxChunk c obj bs be
      = getChunkContents C maxChunk (((obj.drop bs).take (be - bs)).length + 1) ((obj.drop bs).take (be - bs)) [] := by
  simp only [getRange, hv, bind, Except.bind, Nat.min_eq_left h2]
  rw [if_neg (by omega), if_neg (by omega), if_neg (by omega)]

/-- byte offset of chunk `i` in the serialized chunk area -/
def physOff (C : Codec) (ps : List (Bytes × Scheme)) (i : Nat) : Nat := (serChunks C (ps.take i)).length

theorem physOff_zero (C : Codec) (ps : List (Bytes × Scheme)) : physOff C ps 0 = 0 := by
  simp [physOff, serChunks_nil]

theorem physOff_all (C : Codec) (ps : List (Bytes × Scheme)) (i : Nat) (hi : ps.length ≤ i) :
    physOff C ps i = (serChunks C ps).length := by
  simp [physOff, List.take_of_length_le hi]

theorem physOff_mono (C : Codec) (ps : List (Bytes × Scheme)) (i j : Nat) (hij : i ≤ j) :
    physOff C ps i ≤ physOff C ps j := by
  have : ps.take j = ps.take i ++ (ps.drop i).take (j - i) := by
    have e : j = i + (j - i) := by omega
    rw [e, List.take_add]; simp
  simp only [physOff, this, serChunks_append, List.length_append]
  omega

theorem physOff_le (C : Codec) (ps : List (Bytes × Scheme)) (i : Nat) :
    physOff C ps i ≤ (serChunks C ps).length := by
  have := physOff_mono C ps i (max i ps.length) (Nat.le_max_left _ _)
  rwa [physOff_all C ps _ (Nat.le_max_right _ _)] at this

/-- the boundary table entry `k` is the end offset of chunk `k` -/
theorem boundaries_getD (C : Codec) (ps : List (Bytes × Scheme)) (k : Nat) (hk : k < ps.length) :
    (runningSums 0 (physSizes C ps)).getD k 0 = physOff C ps (k + 1) := by
  rw [runningSums_getD 0 _ k (by rw [physSizes_length]; exact hk), physSizes_take, physSizes_sum, physOff]
  omega

theorem boundaries_getLastD (C : Codec) (ps : List (Bytes × Scheme)) (hne : 1 ≤ ps.length) :
    (runningSums 0 (physSizes C ps)).getLastD 0 = (serChunks C ps).length := by
  rw [runningSums_getLastD, if_neg, physSizes_sum]
  · omega
  · intro h
    have := physSizes_length C ps
    rw [h] at this
    simp at this; omega

/-- the bytes between two chunk boundaries are exactly the serialized chunks in between -/
theorem serChunks_slice (C : Codec) (ps : List (Bytes × Scheme)) (i j : Nat) (hij : i ≤ j) :
    ((serChunks C ps).drop (physOff C ps i)).take (physOff C ps j - physOff C ps i)
      = serChunks C ((ps.drop i).take (j - i)) := by
  have e1 : ps = ps.take i ++ ((ps.drop i).take (j - i) ++ (ps.drop i).drop (j - i)) := by
    rw [List.take_append_drop, List.take_append_drop]
  have e2 : ps.take j = ps.take i ++ (ps.drop i).take (j - i) := by
    have e : j = i + (j - i) := by omega
    rw [e, List.take_add]; simp
  have hj : physOff C ps j = physOff C ps i + (serChunks C ((ps.drop i).take (j - i))).length := by
    simp only [physOff, e2, serChunks_append, List.length_append]
  rw [hj, Nat.add_sub_cancel_left]
  conv => lhs; arg 2; arg 2; rw [e1]
  rw [serChunks_append, serChunks_append, drop_append_of_length (serChunks C (ps.take i)) _ (physOff C ps i) rfl,
    take_append_of_length _ _ _ rfl]


theorem slice_append {α} (a b : List α) (bs be : Nat) (h1 : bs ≤ be) (h2 : be ≤ a.length) :
    ((a ++ b).drop bs).take (be - bs) = (a.drop bs).take (be - bs) := by
  rw [List.drop_append_of_le_length (by omega), List.take_append_of_le_length (by simp; omega)]

/-- `get_range` between two chunk boundaries of a serialized object returns the chunks in between -/
theorem getRange_serialize (C : Codec) (hC : C.RoundTrip) (hbg : ∀ d, Bg4.regroup (Bg4.split d) = d)
    (maxChunk : Nat) (hmax : maxChunk * 2 < 2 ^ 24) (h : Hash) (cs : List Bytes) (hashes : List Hash)
    (schemes : List Scheme) (ok : SerOK C maxChunk h cs hashes schemes) (i j : Nat) (hij : i ≤ j) :
    getRange C maxChunk (serialize C h cs hashes schemes).cas (serialize C h cs hashes schemes).bytes
        (physOff C (cs.zip schemes) i) (physOff C (cs.zip schemes) j)
      = .ok ((cs.drop i).take (j - i)).flatten := by
  have hz := zip_length_eq cs schemes ok.schemesLen
  have hn := ok.nonempty
  have hle := physOff_le C (cs.zip schemes) j
  have hmono := physOff_mono C (cs.zip schemes) i j hij
  have hlast : (serialize C h cs hashes schemes).cas.info.boundaries.getLastD 0
      = (serChunks C (cs.zip schemes)).length := by
    show (serInfo C h cs hashes schemes).boundaries.getLastD 0 = _
    rw [serInfo_boundaries, boundaries_getLastD C _ (by omega)]
  rw [getRange_ok C maxChunk _ _ _ _ (validateInfo_serialize C maxChunk h cs hashes schemes ok) hmono
    (by rw [hlast]; exact hle)
    (by rw [serialize_bytes, List.length_append, List.length_append]; omega)]
  rw [serialize_bytes, List.append_assoc, slice_append _ _ _ _ hmono hle, serChunks_slice C _ i j hij]
  rw [getChunkContents_serChunks C hC hbg maxChunk hmax]
  · simp only [List.nil_append, List.map_take, List.map_drop, map_fst_zip_eq cs schemes ok.schemesLen]
  · intro p hp
    have hp' : p ∈ cs.zip schemes := List.mem_of_mem_drop (List.mem_of_mem_take hp)
    exact ok.chunkMax p.1 (List.of_mem_zip hp').1
  · have := length_le_serChunks_length C ((cs.zip schemes).drop i |>.take (j - i))
    omega

theorem getAllBytes_serialize (C : Codec) (hC : C.RoundTrip) (hbg : ∀ d, Bg4.regroup (Bg4.split d) = d)
    (maxChunk : Nat) (hmax : maxChunk * 2 < 2 ^ 24) (h : Hash) (cs : List Bytes) (hashes : List Hash)
    (schemes : List Scheme) (ok : SerOK C maxChunk h cs hashes schemes) :
    getAllBytes C maxChunk (serialize C h cs hashes schemes).cas (serialize C h cs hashes schemes).bytes
      = .ok cs.flatten := by
  have hz := zip_length_eq cs schemes ok.schemesLen
  have hn := ok.nonempty
  have hlast : (serialize C h cs hashes schemes).cas.info.boundaries.getLastD 0
      = physOff C (cs.zip schemes) cs.length := by
    show (serInfo C h cs hashes schemes).boundaries.getLastD 0 = _
    rw [serInfo_boundaries, boundaries_getLastD C _ (by omega), physOff_all C _ _ (by omega)]
  have := getRange_serialize C hC hbg maxChunk hmax h cs hashes schemes ok 0 cs.length (by omega)
  rw [physOff_zero] at this
  simp only [getAllBytes, bind, Except.bind, validateInfo_serialize C maxChunk h cs hashes schemes ok, hlast, this]
  simp

theorem getByteOffset_serialize (C : Codec) (maxChunk : Nat) (h : Hash) (cs : List Bytes) (hashes : List Hash)
    (schemes : List Scheme) (ok : SerOK C maxChunk h cs hashes schemes) (i j : Nat) (hij : i < j)
    (hj : j ≤ cs.length) :
    getByteOffset (serialize C h cs hashes schemes).cas i j
      = .ok (physOff C (cs.zip schemes) i, physOff C (cs.zip schemes) j) := by
  have hz := zip_length_eq cs schemes ok.schemesLen
  have hb : (serialize C h cs hashes schemes).cas.info.boundaries
      = runningSums 0 (physSizes C (cs.zip schemes)) := serInfo_boundaries C h cs hashes schemes
  have hnc : (serialize C h cs hashes schemes).cas.info.numChunks = cs.length := rfl
  simp only [getByteOffset, bind, Except.bind, validateInfo_serialize C maxChunk h cs hashes schemes ok, hb, hnc]
  rw [if_neg (by omega), boundaries_getD C _ (j - 1) (by omega)]
  have ej : j - 1 + 1 = j := by omega
  rw [ej]
  by_cases hi : i = 0
  · subst hi; rw [if_pos rfl, physOff_zero]
  · rw [if_neg hi, boundaries_getD C _ (i - 1) (by omega)]
    have ei : i - 1 + 1 = i := by omega
    rw [ei]

theorem getBytesByChunkRange_serialize (C : Codec) (hC : C.RoundTrip) (hbg : ∀ d, Bg4.regroup (Bg4.split d) = d)
    (maxChunk : Nat) (hmax : maxChunk * 2 < 2 ^ 24) (h : Hash) (cs : List Bytes) (hashes : List Hash)
    (schemes : List Scheme) (ok : SerOK C maxChunk h cs hashes schemes) (i j : Nat) (hij : i < j)
    (hj : j ≤ cs.length) :
    getBytesByChunkRange C maxChunk (serialize C h cs hashes schemes).cas (serialize C h cs hashes schemes).bytes i j
      = .ok ((cs.drop i).take (j - i)).flatten := by
  simp only [getBytesByChunkRange, bind, Except.bind, getByteOffset_serialize C maxChunk h cs hashes schemes ok i j hij hj]
  exact getRange_serialize C hC hbg maxChunk hmax h cs hashes schemes ok i j (by omega)


/-- unpacked offset table: the entry before chunk `i` (0 for the first chunk) -/
theorem unpacked_before (xs : List Nat) (i : Nat) (hi : i ≤ xs.length) :
    (if i = 0 then 0 else (runningSums 0 xs).getD (i - 1) 0) = (xs.take i).sum := by
  by_cases h0 : i = 0
  · subst h0; simp
  · rw [if_neg h0, runningSums_getD 0 xs (i - 1) (by omega)]
    have : i - 1 + 1 = i := by omega
    rw [this]; omega

theorem uncompressedRangeLength_serialize (C : Codec) (maxChunk : Nat) (h : Hash) (cs : List Bytes)
    (hashes : List Hash) (schemes : List Scheme) (ok : SerOK C maxChunk h cs hashes schemes) (i j : Nat)
    (hij : i ≤ j) (hi : i < cs.length) (hj : j ≤ cs.length) :
    uncompressedRangeLength (serialize C h cs hashes schemes).cas i j
      = .ok (((cs.drop i).take (j - i)).map (·.length)).sum := by
  have hu : (serialize C h cs hashes schemes).cas.info.unpacked = runningSums 0 (cs.map (·.length)) := rfl
  have hnc : (serialize C h cs hashes schemes).cas.info.numChunks = cs.length := rfl
  have hl : (cs.map (·.length)).length = cs.length := by simp
  simp only [uncompressedRangeLength, bind, Except.bind,
    validateInfo_serialize C maxChunk h cs hashes schemes ok, hu, hnc]
  rw [if_neg (by omega)]
  by_cases he : i = j
  · subst he; simp
  · rw [if_neg he, unpacked_before _ i (by omega)]
    have hj' := unpacked_before (cs.map (·.length)) j (by omega)
    rw [if_neg (by omega)] at hj'
    rw [hj', sum_take_split _ i j hij, List.map_take, List.map_drop]
    rw [if_neg (by omega)]
    congr 1
    omega

theorem uncompressedChunkLength_serialize (C : Codec) (maxChunk : Nat) (h : Hash) (cs : List Bytes)
    (hashes : List Hash) (schemes : List Scheme) (ok : SerOK C maxChunk h cs hashes schemes) (i : Nat)
    (hi : i < cs.length) :
    uncompressedChunkLength (serialize C h cs hashes schemes).cas i = .ok cs[i].length := by
  have hu : (serialize C h cs hashes schemes).cas.info.unpacked = runningSums 0 (cs.map (·.length)) := rfl
  have hl : (cs.map (·.length)).length = cs.length := by simp
  simp only [uncompressedChunkLength, bind, Except.bind,
    validateInfo_serialize C maxChunk h cs hashes schemes ok, hu, runningSums_length, hl]
  rw [if_neg (by omega), unpacked_before _ i (by omega), runningSums_getD 0 _ i (by omega),
    List.take_add_one, List.sum_append]
  rw [if_neg (by omega)]
  simp [hi]


end Xet.Xorb
