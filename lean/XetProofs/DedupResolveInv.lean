/-
The invariant of DESIGN.md Appendix A.2 through `processLoop` / `processChunks` (every `allow`), call
sequences of one file, `finalize`, `Agg.mergeIn`, `Agg.finalize`.
-/
import XetProofs.DedupResolve

set_option linter.unusedSimpArgs false

namespace Xet.Dedup

open Xet.Shard (Seg FileInfo CasInfo Chunk)

/-! ## what the loop's query delivers -/

theorem res_head_join {answers : Answers} {a} (h : (answers.head?).join = some a) : answers[0]? = some (some a) := by
  cases answers with
  | nil => simp at h
  | cons x xs =>
    simp at h
    simp [h]

theorem res_preCut_lookupOK (P : HashPrims) (L : Limits) (fd : FD) (c : DChunk) (h : LookupSound fd.lookup fd.newData) :
    LookupSound (preCut P L fd c).lookup (preCut P L fd c).newData := by
  unfold preCut
  split
  · intro h' i hi; simp [cutXorb, res_lookupGet_nil] at hi
  · exact h

theorem res_addNewChunk_lookupOK (P : HashPrims) (L : Limits) (fd : FD) (c : DChunk) (h : LookupSound fd.lookup fd.newData) :
    LookupSound (addNewChunk P L fd c).lookup (addNewChunk P L fd c).newData := by
  rw [res_addNewChunk_eq]
  obtain ⟨h1, h2, _⟩ := res_finishChunk_fields (preCut P L (countNew fd c) c) c
  rw [h1, h2]
  apply res_LookupOK_push
  obtain ⟨e1, e2, _⟩ := res_preCut_count P L fd c
  rw [e1, e2]
  exact res_preCut_lookupOK P L fd c h

/-- the answer the loop acts on (stored, or found in the local data) denotes exactly the next `n`
    chunks, `1 ≤ n ≤ remaining`, with the recorded byte count -/
theorem res_loopQuery_spec {W : List Xorb} {total : List DChunk} (hH : HashInj total) {fd : FD} {consumed rem : List DChunk}
    {answers : Answers} (htot : consumed ++ rem = total) (hA : LegalAnswers W rem answers)
    (hL : LookupSound fd.lookup fd.newData) {n : Nat} {s : Seg} (hq : loopQuery fd rem answers = some (n, s)) :
    1 ≤ n ∧ n ≤ rem.length ∧
    ((∀ c ∈ fd.newData, c ∈ consumed) → resolveSeg W fd.newData s = some (rem.take n) ∧ s.bytes = dataSize (rem.take n)) := by
  unfold loopQuery at hq
  split at hq
  · rename_i a ha
    cases hq
    obtain ⟨h1, h2, h3, h4, h5⟩ := res_legal_at hA (res_head_join ha)
    simp only [List.drop_zero, Nat.zero_add] at h2 h4 h5
    refine ⟨h1, h2, fun _ => ⟨?_, h5⟩⟩
    rw [res_resolveSeg_loc h3 (loc' := [])]
    exact h4
  · obtain ⟨hz, h1, h2, h3, h4, h5, h6⟩ := res_localQuery_spec hL hq
    simp only [List.length_map] at h2
    refine ⟨h1, h2, fun hfed => ?_⟩
    have heq : slice fd.newData s.cstart s.cend = rem.take n := by
      apply res_eq_of_hash_eq hH
      · intro c hc
        rw [← htot]
        exact List.mem_append_left _ (hfed c (res_slice_subset _ _ _ c hc))
      · intro c hc
        rw [← htot]
        exact List.mem_append_right _ (List.mem_of_mem_take hc)
      · rw [h5, List.map_take]
    rw [res_resolveSeg_zero hz, res_rangeOf_eq (by omega) h4, heq]
    exact ⟨rfl, by rw [h6, heq]⟩

/-! ## the invariant through the second loop -/

theorem res_addNewChunk_cut_sub (P : HashPrims) (L : Limits) (fd : FD) (c : DChunk) :
    ∀ x ∈ fd.cut, x ∈ (addNewChunk P L fd c).cut := by
  intro x hx
  rw [res_addNewChunk_cut, res_preCut_cut]
  split
  · exact List.mem_append_left _ hx
  · exact hx

theorem res_CutIn_sub {W a b : List Xorb} (h : CutIn W b) (hs : ∀ x ∈ a, x ∈ b) : CutIn W a :=
  fun x hx hne => h x (hs x hx) hne

/-- the predicate carried through the loop: the chunks split into consumed and remaining, the remaining
    answers are legal, the lookup is sound, and — provided the xorbs cut so far are in `W` — `InvW` -/
def LoopQ (W : List Xorb) (total : List DChunk) (fd : FD) (rem : List DChunk) (answers : Answers) : Prop :=
  ∃ consumed, consumed ++ rem = total ∧ LegalAnswers W rem answers ∧ LookupSound fd.lookup fd.newData ∧
    (CutIn W fd.cut → InvW W fd consumed)

theorem res_LoopQ_entry {W : List Xorb} {total : List DChunk} (hH : HashInj total)
    (fd fd1 : FD) (c : DChunk) (rest : List DChunk) (answers : Answers) (n : Nat) (s : Seg)
    (hQ : LoopQ W total fd (c :: rest) answers) (he : FDEq fd1 fd)
    (hq : loopQuery fd (c :: rest) answers = some (n, s)) :
    1 ≤ n ∧ LoopQ W total (addEntry fd1 s n) ((c :: rest).drop n) (answers.drop n) := by
  obtain ⟨consumed, htot, hA, hL, hI⟩ := hQ
  obtain ⟨e1, e2, e3, e4, e5, _, _⟩ := he
  obtain ⟨hn, hn2, hres⟩ := res_loopQuery_spec hH htot hA hL hq
  obtain ⟨f1, f2, f3, _, _⟩ := res_addEntry_frame fd1 s n
  refine ⟨hn, consumed ++ (c :: rest).take n, ?_, res_legal_drop hA n, ?_, ?_⟩
  · rw [List.append_assoc, List.take_append_drop, htot]
  · rw [f1, f2, e1, e2]; exact hL
  · intro hC
    rw [f3, e5] at hC
    have hI0 := hI hC
    obtain ⟨hr, hb⟩ := hres hI0.2
    have hI1 : InvW W fd1 consumed := res_InvW_congr e1 e2 e3 e4 hI0
    exact res_addEntry_inv hI1 (by rw [e1]; exact hr) hb

theorem res_LoopQ_new {P : HashPrims} {L : Limits} {W : List Xorb} (hW : StoreConsistent W) (hZ : NoZeroName W)
    {total : List DChunk} (fd fd1 : FD) (c : DChunk) (rest : List DChunk) (answers : Answers)
    (hQ : LoopQ W total fd (c :: rest) answers) (he : FDEq fd1 fd) :
    LoopQ W total (addNewChunk P L fd1 c) rest (answers.drop 1) := by
  obtain ⟨consumed, htot, hA, hL, hI⟩ := hQ
  obtain ⟨e1, e2, e3, e4, e5, _, _⟩ := he
  refine ⟨consumed ++ [c], by simpa using htot, by simpa using res_legal_drop hA 1, ?_, ?_⟩
  · apply res_addNewChunk_lookupOK
    rw [e1, e2]; exact hL
  · intro hC
    have hC0 : CutIn W fd.cut := by
      rw [← e5]
      exact res_CutIn_sub hC (res_addNewChunk_cut_sub P L fd1 c)
    exact res_addNewChunk_inv c hW hZ hC (res_InvW_congr e1 e2 e3 e4 (hI hC0))

/-- **Preservation by the second loop** for every `P`, limits, defrag decision procedure and legal
    answers, given that the xorbs cut on the way are in the consistent store `W`. -/
theorem res_processLoop_inv {P : HashPrims} {L : Limits} {allow : Defrag → Nat → Decision} {W : List Xorb}
    (hW : StoreConsistent W) (hZ : NoZeroName W) {fd : FD} {consumed rem : List DChunk} {answers : Answers}
    (hH : HashInj (consumed ++ rem)) (hA : LegalAnswers W rem answers) (hI : InvW W fd consumed)
    (fuel : Nat) (hf : rem.length ≤ fuel)
    (hC : CutIn W (processLoop P L allow fuel fd rem answers).cut) :
    InvW W (processLoop P L allow fuel fd rem answers) (consumed ++ rem) := by
  have h0 : LoopQ W (consumed ++ rem) fd rem answers := ⟨consumed, rfl, hA, hI.1.lookup, fun _ => hI⟩
  obtain ⟨answers', consumed', htot, _, _, hfin⟩ :=
    res_loop_ind (P := P) (L := L) (allow := allow) (LoopQ W (consumed ++ rem))
      (res_LoopQ_entry hH) (res_LoopQ_new hW hZ) fuel fd rem answers hf h0
  rw [List.append_nil] at htot
  rw [← htot]
  exact hfin hC

/-! ## frame properties of the loop -/

theorem res_addNewChunk_cut_eq (P : HashPrims) (L : Limits) (fd : FD) (c : DChunk) :
    (addNewChunk P L fd c).cut = fd.cut ∨ (addNewChunk P L fd c).cut = fd.cut ++ [mkXorb P fd.newData] := by
  rw [res_addNewChunk_cut, res_preCut_cut]
  split
  · exact Or.inr rfl
  · exact Or.inl rfl

theorem res_addNewChunk_chunkHashes (P : HashPrims) (L : Limits) (fd : FD) (c : DChunk) :
    (addNewChunk P L fd c).chunkHashes = fd.chunkHashes := by
  rw [res_addNewChunk_eq, (res_finishChunk_fields _ c).2.2.2.1, (res_preCut_count P L fd c).2.2.2.2.2.1]
  unfold preCut; split <;> rfl

theorem res_addNewChunk_newData (P : HashPrims) (L : Limits) (fd : FD) (c : DChunk) :
    (addNewChunk P L fd c).newData = [c] ∨ (addNewChunk P L fd c).newData = fd.newData ++ [c] := by
  rw [res_addNewChunk_eq, (res_finishChunk_fields _ c).1, (res_preCut_count P L fd c).1]
  unfold preCut
  split
  · exact Or.inl rfl
  · exact Or.inr rfl

/-- the xorbs cut by the loop extend the log -/
theorem res_processLoop_cut_prefix (P : HashPrims) (L : Limits) (allow : Defrag → Nat → Decision) (fuel : Nat) (fd : FD)
    (rem : List DChunk) (answers : Answers) :
    ∃ ext, (processLoop P L allow fuel fd rem answers).cut = fd.cut ++ ext := by
  obtain ⟨_, h⟩ := res_loop_ind_any (P := P) (L := L) (allow := allow) (fun fd' _ => ∃ ext, fd'.cut = fd.cut ++ ext)
    (by
      intro fd0 fd1 c rest n s ⟨ext, hq⟩ he
      exact ⟨ext, by rw [(res_addEntry_frame fd1 s n).2.2.1, he.2.2.2.2.1, hq]⟩)
    (by
      intro fd0 fd1 c rest ⟨ext, hq⟩ he
      rcases res_addNewChunk_cut_eq P L fd1 c with h | h
      · exact ⟨ext, by rw [h, he.2.2.2.2.1, hq]⟩
      · exact ⟨ext ++ [mkXorb P fd1.newData], by rw [h, he.2.2.2.2.1, hq, List.append_assoc]⟩)
    fuel fd rem answers ⟨[], by simp⟩
  exact h

theorem res_processLoop_chunkHashes (P : HashPrims) (L : Limits) (allow : Defrag → Nat → Decision) (fuel : Nat) (fd : FD)
    (rem : List DChunk) (answers : Answers) :
    (processLoop P L allow fuel fd rem answers).chunkHashes = fd.chunkHashes := by
  obtain ⟨_, h⟩ := res_loop_ind_any (P := P) (L := L) (allow := allow) (fun fd' _ => fd'.chunkHashes = fd.chunkHashes)
    (by
      intro fd0 fd1 c rest n s hq he
      rw [(res_addEntry_frame fd1 s n).2.2.2.1, he.2.2.2.2.2.1, hq])
    (by
      intro fd0 fd1 c rest hq he
      rw [res_addNewChunk_chunkHashes, he.2.2.2.2.2.1, hq])
    fuel fd rem answers rfl
  exact h

/-- provenance: the chunks held in `new_data` and in the cut xorbs satisfy any predicate that the fed
    chunks satisfy -/
def FromQ (S : DChunk → Prop) (fd : FD) : Prop :=
  (∀ c ∈ fd.newData, S c) ∧ ∀ x ∈ fd.cut, ∀ c ∈ x.chunks, S c

theorem res_processLoop_from (S : DChunk → Prop) (P : HashPrims) (L : Limits) (allow : Defrag → Nat → Decision) (fuel : Nat)
    (fd : FD) (rem : List DChunk) (answers : Answers) (hr : ∀ c ∈ rem, S c) (h : FromQ S fd) :
    FromQ S (processLoop P L allow fuel fd rem answers) := by
  obtain ⟨_, h⟩ := res_loop_ind_any (P := P) (L := L) (allow := allow) (fun fd' rem' => (∀ c ∈ rem', S c) ∧ FromQ S fd')
    (by
      intro fd0 fd1 c rest n s hq he
      obtain ⟨f1, _, f3, _⟩ := res_addEntry_frame fd1 s n
      refine ⟨fun c' hc' => hq.1 c' (List.mem_of_mem_drop hc'), ?_⟩
      unfold FromQ
      rw [f1, f3, he.1, he.2.2.2.2.1]
      exact hq.2)
    (by
      intro fd0 fd1 c rest hq he
      have hnd : ∀ c' ∈ fd1.newData, S c' := by rw [he.1]; exact hq.2.1
      refine ⟨fun c' hc' => hq.1 c' (by simp [hc']), ?_, ?_⟩
      · intro c' hc'
        rcases res_addNewChunk_newData P L fd1 c with h | h <;> rw [h] at hc'
        · simp at hc'; subst hc'; exact hq.1 c' (by simp)
        · rcases List.mem_append.mp hc' with h' | h'
          · exact hnd c' h'
          · simp at h'; subst h'; exact hq.1 c' (by simp)
      · intro x hx
        rcases res_addNewChunk_cut_eq P L fd1 c with h | h <;> rw [h, he.2.2.2.2.1] at hx
        · exact hq.2.2 x hx
        · rcases List.mem_append.mp hx with h' | h'
          · exact hq.2.2 x h'
          · simp at h'; subst h'; exact hnd)
    fuel fd rem answers ⟨hr, h⟩
  exact h.2

/-- every xorb in the log was produced by `RawXorbData::from_chunks` -/
def CutNamed (P : HashPrims) (cut : List Xorb) : Prop := ∀ x ∈ cut, x = mkXorb P x.chunks

theorem res_processLoop_named (P : HashPrims) (L : Limits) (allow : Defrag → Nat → Decision) (fuel : Nat)
    (fd : FD) (rem : List DChunk) (answers : Answers) (h : CutNamed P fd.cut) :
    CutNamed P (processLoop P L allow fuel fd rem answers).cut := by
  obtain ⟨_, h⟩ := res_loop_ind_any (P := P) (L := L) (allow := allow) (fun fd' _ => CutNamed P fd'.cut)
    (by
      intro fd0 fd1 c rest n s hq he
      rw [(res_addEntry_frame fd1 s n).2.2.1, he.2.2.2.2.1]; exact hq)
    (by
      intro fd0 fd1 c rest hq he
      rcases res_addNewChunk_cut_eq P L fd1 c with h | h <;> rw [h, he.2.2.2.2.1]
      · exact hq
      · intro x hx
        rcases List.mem_append.mp hx with h' | h'
        · exact hq x h'
        · simp at h'; subst h'; rfl)
    fuel fd rem answers h
  exact h

/-! ## `process_chunks` -/

/-- the global-dedup metrics added in front of the second loop -/
def countGlobal (fd : FD) (gc gb : Nat) : FD :=
  { fd with metrics := { fd.metrics with dedupedChunksGlobal := fd.metrics.dedupedChunksGlobal + gc,
                                         dedupedBytesGlobal := fd.metrics.dedupedBytesGlobal + gb } }

theorem res_processChunks_eq (P : HashPrims) (L : Limits) (allow : Defrag → Nat → Decision) (fd : FD) (chunks : List DChunk)
    (answers : Answers) (gc gb : Nat) :
    processChunks P L allow fd chunks answers gc gb =
      { processLoop P L allow (chunks.length + 1) (countGlobal fd gc gb) chunks answers with
        chunkHashes := (processLoop P L allow (chunks.length + 1) (countGlobal fd gc gb) chunks answers).chunkHashes ++ chunkLens chunks } := rfl

theorem res_processChunks_cut_prefix (P : HashPrims) (L : Limits) (allow : Defrag → Nat → Decision) (fd : FD)
    (chunks : List DChunk) (answers : Answers) (gc gb : Nat) :
    ∃ ext, (processChunks P L allow fd chunks answers gc gb).cut = fd.cut ++ ext :=
  res_processLoop_cut_prefix P L allow (chunks.length + 1) (countGlobal fd gc gb) chunks answers

theorem res_processChunks_chunkHashes (P : HashPrims) (L : Limits) (allow : Defrag → Nat → Decision) (fd : FD)
    (chunks : List DChunk) (answers : Answers) (gc gb : Nat) :
    (processChunks P L allow fd chunks answers gc gb).chunkHashes = fd.chunkHashes ++ chunkLens chunks := by
  rw [res_processChunks_eq]
  show (processLoop P L allow (chunks.length + 1) (countGlobal fd gc gb) chunks answers).chunkHashes ++ _ = _
  rw [res_processLoop_chunkHashes]
  rfl

theorem res_processChunks_from (S : DChunk → Prop) (P : HashPrims) (L : Limits) (allow : Defrag → Nat → Decision) (fd : FD)
    (chunks : List DChunk) (answers : Answers) (gc gb : Nat) (hr : ∀ c ∈ chunks, S c) (h : FromQ S fd) :
    FromQ S (processChunks P L allow fd chunks answers gc gb) :=
  res_processLoop_from S P L allow (chunks.length + 1) (countGlobal fd gc gb) chunks answers hr h

theorem res_processChunks_named (P : HashPrims) (L : Limits) (allow : Defrag → Nat → Decision) (fd : FD)
    (chunks : List DChunk) (answers : Answers) (gc gb : Nat) (h : CutNamed P fd.cut) :
    CutNamed P (processChunks P L allow fd chunks answers gc gb).cut :=
  res_processLoop_named P L allow (chunks.length + 1) (countGlobal fd gc gb) chunks answers h

/-- **`InvW` is preserved by `process_chunks`** (store-parametric form used by the session theorems) -/
theorem res_processChunks_invW {P : HashPrims} {L : Limits} {allow : Defrag → Nat → Decision} {W : List Xorb}
    (hW : StoreConsistent W) (hZ : NoZeroName W) {fd : FD} {consumed chunks : List DChunk} {answers : Answers} {gc gb : Nat}
    (hH : HashInj (consumed ++ chunks)) (hA : LegalAnswers W chunks answers) (hI : InvW W fd consumed)
    (hC : CutIn W (processChunks P L allow fd chunks answers gc gb).cut) :
    InvW W (processChunks P L allow fd chunks answers gc gb) (consumed ++ chunks) := by
  have hI0 : InvW W (countGlobal fd gc gb) consumed := hI
  have := res_processLoop_inv (P := P) (L := L) (allow := allow) hW hZ hH hA hI0 (chunks.length + 1) (by omega) hC
  exact this

/-! ## THE INVARIANT in the form "store ++ xorbs cut by this file", and call sequences -/

theorem res_StoreConsistent_sub {W st : List Xorb} (h : StoreConsistent W) (hs : ∀ x ∈ st, x ∈ W) : StoreConsistent st :=
  fun x hx y hy e => h x (hs x hx) y (hs y hy) e

theorem res_NoZeroName_sub {W st : List Xorb} (h : NoZeroName W) (hs : ∀ x ∈ st, x ∈ W) : NoZeroName st :=
  fun x hx hne => h x (hs x hx) hne

theorem res_SegGood_mono {st W : List Xorb} (hW : StoreConsistent W) (hs : ∀ x ∈ st, x ∈ W) {loc} {s : Seg}
    (h : SegGood st loc s) : SegGood W loc s := by
  obtain ⟨r, hr, hb⟩ := h
  exact ⟨r, res_resolveSeg_mono hW hs hr, hb⟩

theorem res_InvF_mono {st W : List Xorb} (hW : StoreConsistent W) (hs : ∀ x ∈ st, x ∈ W) {nd lk fi refs consumed}
    (h : InvF st nd lk fi refs consumed) : InvF W nd lk fi refs consumed := by
  refine ⟨?_, fun s hs' => res_SegGood_mono hW hs (h.segs s hs'), h.refs, h.lookup⟩
  have hseg : ∀ s ∈ fi, resolveSeg W nd s = resolveSeg st nd s := by
    intro s hs'
    obtain ⟨r, hr, _⟩ := h.segs s hs'
    rw [hr, res_resolveSeg_mono hW hs hr]
  rw [res_resolveFile_congr_mem fi hseg, h.resolves]

theorem res_InvW_mono {st W : List Xorb} (hW : StoreConsistent W) (hs : ∀ x ∈ st, x ∈ W) {fd consumed}
    (h : InvW st fd consumed) : InvW W fd consumed :=
  ⟨res_InvF_mono hW hs h.1, h.2⟩

/-- **THE INVARIANT** of one file being cleaned, relative to the xorbs `store` known before this file
    (earlier sessions, earlier files): with `W = store ++ fd.cut`,
    * every segment of `fd.fileInfo` resolves in `W` / `fd.newData` and the concatenation is exactly the
      list of chunks consumed so far,
    * each segment's `bytes` is the data size of what it resolves to (so `cstart < cend` for all, and
      `cend ≤ |newData|` for the zero-hash ones),
    * `fd.internalRefs` is exactly the ascending list of indices of the zero-hash segments,
    * `lookupGet fd.lookup h = some i → fd.newData[i].hash = h`,
    * `fd.chunkHashes` is the `(hash, length)` list of the consumed chunks. -/
def ResolveInv (store : List Xorb) (fd : FD) (consumed : List DChunk) : Prop :=
  InvW (store ++ fd.cut) fd consumed ∧ fd.chunkHashes = chunkLens consumed

theorem res_ResolveInv_init (store : List Xorb) : ResolveInv store FD.init [] := by
  refine ⟨⟨⟨rfl, ?_, rfl, ?_⟩, ?_⟩, rfl⟩
  · intro s hs; simp [FD.init] at hs
  · intro h i hi; simp [FD.init, res_lookupGet_nil] at hi
  · intro c hc; simp [FD.init] at hc

theorem res_chunkLens_append (a b : List DChunk) : chunkLens (a ++ b) = chunkLens a ++ chunkLens b := by
  simp [chunkLens]

/-- **Preservation of `ResolveInv` by `process_chunks`**, for every `P`, `Limits`, every defrag decision
    procedure `allow`, every legal answers (truthful w.r.t. what is known when the call starts:
    `store ++ fd.cut`), provided the store extended by the xorbs cut during the call is consistent
    (no name rebound to other content, no non-empty xorb named zero) and chunk hashes determine chunk
    data on the chunks of this file (collision-extraction hypotheses). -/
theorem res_ResolveInv_processChunks {P : HashPrims} {L : Limits} {allow : Defrag → Nat → Decision} {store : List Xorb}
    {fd : FD} {consumed chunks : List DChunk} {answers : Answers} {gc gb : Nat}
    (hW : StoreConsistent (store ++ (processChunks P L allow fd chunks answers gc gb).cut))
    (hZ : NoZeroName (store ++ (processChunks P L allow fd chunks answers gc gb).cut))
    (hH : HashInj (consumed ++ chunks)) (hA : LegalAnswers (store ++ fd.cut) chunks answers)
    (hI : ResolveInv store fd consumed) :
    ResolveInv store (processChunks P L allow fd chunks answers gc gb) (consumed ++ chunks) := by
  obtain ⟨ext, hext⟩ := res_processChunks_cut_prefix P L allow fd chunks answers gc gb
  have hsub : ∀ x ∈ store ++ fd.cut, x ∈ store ++ (processChunks P L allow fd chunks answers gc gb).cut := by
    intro x hx
    rw [hext]
    rcases List.mem_append.mp hx with h | h
    · exact List.mem_append_left _ h
    · exact List.mem_append_right _ (List.mem_append_left _ h)
  refine ⟨?_, ?_⟩
  · exact res_processChunks_invW hW hZ hH (res_legal_mono hW hsub hA) (res_InvW_mono hW hsub hI.1)
      (fun x hx _ => List.mem_append_right _ hx)
  · rw [res_processChunks_chunkHashes, hI.2, res_chunkLens_append]

/-- one `process_chunks` call with its oracle inputs -/
structure Call where
  chunks : List DChunk
  answers : Answers
  gc : Nat
  gb : Nat

def runCallSeq (P : HashPrims) (L : Limits) (allow : Defrag → Nat → Decision) : FD → List Call → FD
  | fd, [] => fd
  | fd, k :: rest => runCallSeq P L allow (processChunks P L allow fd k.chunks k.answers k.gc k.gb) rest

def fedOf (calls : List Call) : List DChunk := (calls.map (·.chunks)).flatten

/-- every call's answers are truthful w.r.t. the store as it is when that call starts -/
def LegalCalls (P : HashPrims) (L : Limits) (allow : Defrag → Nat → Decision) (store : List Xorb) : FD → List Call → Prop
  | _, [] => True
  | fd, k :: rest => LegalAnswers (store ++ fd.cut) k.chunks k.answers ∧
      LegalCalls P L allow store (processChunks P L allow fd k.chunks k.answers k.gc k.gb) rest

theorem res_runCallSeq_cut_prefix (P : HashPrims) (L : Limits) (allow : Defrag → Nat → Decision) (fd : FD) (calls : List Call) :
    ∃ ext, (runCallSeq P L allow fd calls).cut = fd.cut ++ ext := by
  induction calls generalizing fd with
  | nil => exact ⟨[], by simp [runCallSeq]⟩
  | cons k rest ih =>
    obtain ⟨e1, h1⟩ := res_processChunks_cut_prefix P L allow fd k.chunks k.answers k.gc k.gb
    obtain ⟨e2, h2⟩ := ih (processChunks P L allow fd k.chunks k.answers k.gc k.gb)
    exact ⟨e1 ++ e2, by simp only [runCallSeq]; rw [h2, h1, List.append_assoc]⟩

/-- **`ResolveInv` for every sequence of calls** -/
theorem res_ResolveInv_runCallSeq {P : HashPrims} {L : Limits} {allow : Defrag → Nat → Decision} {store : List Xorb}
    (calls : List Call) {fd : FD} {consumed : List DChunk}
    (hW : StoreConsistent (store ++ (runCallSeq P L allow fd calls).cut))
    (hZ : NoZeroName (store ++ (runCallSeq P L allow fd calls).cut))
    (hH : HashInj (consumed ++ fedOf calls)) (hA : LegalCalls P L allow store fd calls)
    (hI : ResolveInv store fd consumed) :
    ResolveInv store (runCallSeq P L allow fd calls) (consumed ++ fedOf calls) := by
  induction calls generalizing fd consumed with
  | nil => simpa [runCallSeq, fedOf] using hI
  | cons k rest ih =>
    simp only [runCallSeq] at hW hZ ⊢
    obtain ⟨ext, hext⟩ := res_runCallSeq_cut_prefix P L allow (processChunks P L allow fd k.chunks k.answers k.gc k.gb) rest
    have hsub : ∀ x ∈ store ++ (processChunks P L allow fd k.chunks k.answers k.gc k.gb).cut,
        x ∈ store ++ (runCallSeq P L allow (processChunks P L allow fd k.chunks k.answers k.gc k.gb) rest).cut := by
      intro x hx
      rw [hext]
      rcases List.mem_append.mp hx with h | h
      · exact List.mem_append_left _ h
      · exact List.mem_append_right _ (List.mem_append_left _ h)
    have hfed : fedOf (k :: rest) = k.chunks ++ fedOf rest := by simp [fedOf]
    rw [hfed, ← List.append_assoc] at hH ⊢
    have hH1 : HashInj (consumed ++ k.chunks) := res_HashInj_sub hH (fun c hc => List.mem_append_left _ hc)
    have h1 := res_ResolveInv_processChunks (P := P) (L := L) (allow := allow) (gc := k.gc) (gb := k.gb)
      (res_StoreConsistent_sub hW hsub) (res_NoZeroName_sub hZ hsub) hH1 hA.1 hI
    exact ih hW hZ hH hA.2 h1

end Xet.Dedup
