/-
Helper lemmas for the keyed shard export (`export_as_keyed_shard_impl`, model `exportKeyed` in
`XetModel/ShardFormat.lean`) and for expiry (`isLoaded`, `isDeleted`):
  Part D.1  the keyed content (`keyChunk`, `keyCas`, `keyedCas`) and what it preserves
  Part D.2  the section walks `exportFiles` / `exportCas` on a serialized section
  Part D.3  the closed form `exportSpec` of the export, its layout, its footer, and the readers on it
  Part D.4  `exportKeyed (serialize m t) = exportSpec`
  Part D.5  dedup queries on a shard whose CAS section is a list of well-formed blocks: functional
            specification of `dedupDirect` / `dedupQuery`, and its invariance under keying
Core Lean only.
-/
import XetProofs.ShardFormat

namespace Xet.Shard

/-! ## Part D.0 — the saturating add of the expiry filter -/

/-- `u64::saturating_add`: either the sum fits and is returned, or it does not and `u64::MAX` is returned -/
theorem satAdd64_cases (a b : Nat) :
    (a + b ≤ u64Max ∧ satAdd64 a b = a + b) ∨ (u64Max < a + b ∧ satAdd64 a b = u64Max) := by
  rcases Nat.le_total (a + b) u64Max with h | h
  · exact Or.inl ⟨h, Nat.min_eq_left h⟩
  · rcases Nat.eq_or_lt_of_le h with h' | h'
    · exact Or.inl ⟨Nat.le_of_eq h'.symm, Nat.min_eq_left (Nat.le_of_eq h'.symm)⟩
    · exact Or.inr ⟨h', Nat.min_eq_right h⟩

/-! ## Part D.1 — keyed content -/

/-- a chunk record with its hash replaced by the keyed form (all other fields kept) -/
def keyChunk (P : HashPrims) (key : Hash) (ch : Chunk) : Chunk := { ch with hash := keyedHash P key ch.hash }

/-- a block with every chunk hash replaced by its keyed form (xorb hash and all other fields kept) -/
def keyCas (P : HashPrims) (key : Hash) (c : CasInfo) : CasInfo := { c with chunks := c.chunks.map (keyChunk P key) }

def keyedCas (P : HashPrims) (key : Hash) (cs : List CasInfo) : List CasInfo := cs.map (keyCas P key)

@[simp] theorem keyChunk_hash (P : HashPrims) (key : Hash) (ch : Chunk) : (keyChunk P key ch).hash = keyedHash P key ch.hash := rfl
@[simp] theorem keyChunk_bytes (P : HashPrims) (key : Hash) (ch : Chunk) : (keyChunk P key ch).bytes = ch.bytes := rfl
@[simp] theorem keyChunk_rangeStart (P : HashPrims) (key : Hash) (ch : Chunk) : (keyChunk P key ch).rangeStart = ch.rangeStart := rfl
@[simp] theorem keyChunk_unused (P : HashPrims) (key : Hash) (ch : Chunk) : (keyChunk P key ch).unused = ch.unused := rfl
@[simp] theorem keyCas_hash (P : HashPrims) (key : Hash) (c : CasInfo) : (keyCas P key c).hash = c.hash := rfl
@[simp] theorem keyCas_flags (P : HashPrims) (key : Hash) (c : CasInfo) : (keyCas P key c).flags = c.flags := rfl
@[simp] theorem keyCas_numEntries (P : HashPrims) (key : Hash) (c : CasInfo) : (keyCas P key c).numEntries = c.numEntries := rfl
@[simp] theorem keyCas_bytesInCas (P : HashPrims) (key : Hash) (c : CasInfo) : (keyCas P key c).bytesInCas = c.bytesInCas := rfl
@[simp] theorem keyCas_bytesOnDisk (P : HashPrims) (key : Hash) (c : CasInfo) : (keyCas P key c).bytesOnDisk = c.bytesOnDisk := rfl
theorem keyCas_chunks (P : HashPrims) (key : Hash) (c : CasInfo) : (keyCas P key c).chunks = c.chunks.map (keyChunk P key) := rfl
@[simp] theorem keyCas_chunks_length (P : HashPrims) (key : Hash) (c : CasInfo) : (keyCas P key c).chunks.length = c.chunks.length := by
  simp [keyCas]

theorem keyChunk_WF (P : HashPrims) (key : Hash) (ch : Chunk) (w : ch.WF) : (keyChunk P key ch).WF := w

theorem keyCas_WF (P : HashPrims) (key : Hash) (c : CasInfo) (w : c.WF) : (keyCas P key c).WF := by
  obtain ⟨w1, w2, w3, w4, w5, w6, w7⟩ := w
  refine ⟨w1, w2, by simpa using w3, by simpa using w4, w5, w6, ?_⟩
  intro ch hch
  simp only [keyCas, List.mem_map] at hch
  obtain ⟨ch0, h0, rfl⟩ := hch
  exact keyChunk_WF P key ch0 (w7 ch0 h0)

theorem keyedCas_WF (P : HashPrims) (key : Hash) (cs : List CasInfo) (w : ∀ c ∈ cs, c.WF) : ∀ c ∈ keyedCas P key cs, c.WF := by
  intro c hc
  simp only [keyedCas, List.mem_map] at hc
  obtain ⟨c0, h0, rfl⟩ := hc
  exact keyCas_WF P key c0 (w c0 h0)

theorem keyedCas_length (P : HashPrims) (key : Hash) (cs : List CasInfo) : (keyedCas P key cs).length = cs.length := by
  simp [keyedCas]

theorem keyedCas_sorted (P : HashPrims) (key : Hash) (cs : List CasInfo)
    (h : cs.Pairwise (fun a b => hashLt a.hash b.hash = true)) :
    (keyedCas P key cs).Pairwise (fun a b => hashLt a.hash b.hash = true) := by
  simp only [keyedCas, List.pairwise_map, keyCas_hash]
  exact h

theorem sumMap_keyedCas (P : HashPrims) (key : Hash) (g : CasInfo → Nat) (hg : ∀ c, g (keyCas P key c) = g c) (cs : List CasInfo) :
    sumMap g (keyedCas P key cs) = sumMap g cs := by
  induction cs with
  | nil => rfl
  | cons c rest ih =>
    simp only [keyedCas, List.map_cons, sumMap_cons] at ih ⊢
    rw [ih, hg]

/-- with the zero key nothing changes -/
theorem keyCas_zero (P : HashPrims) (c : CasInfo) : keyCas P Hash.zero c = c := by
  obtain ⟨h, fl, n, a, d, chunks⟩ := c
  simp only [keyCas, CasInfo.mk.injEq, true_and]
  have : ∀ l : List Chunk, l.map (keyChunk P Hash.zero) = l := by
    intro l
    induction l with
    | nil => rfl
    | cons x xs ih => simp [ih, keyChunk, keyedHash]
  exact this chunks

theorem keyedCas_zero (P : HashPrims) (cs : List CasInfo) : keyedCas P Hash.zero cs = cs := by
  induction cs with
  | nil => rfl
  | cons c rest ih =>
    simp only [keyedCas, List.map_cons] at ih ⊢
    rw [ih, keyCas_zero]

/-- the CAS lookup table (truncated xorb hash ↦ record index) is the same for the keyed list -/
theorem casSection_keyed_lookup (P : HashPrims) (key : Hash) (idx : Nat) (cs : List CasInfo) :
    (casSection idx (keyedCas P key cs)).lookup = (casSection idx cs).lookup := by
  induction cs generalizing idx with
  | nil => rfl
  | cons c rest ih =>
    simp only [keyedCas, List.map_cons, casSection, keyCas_hash, keyCas_chunks_length] at ih ⊢
    rw [ih]

theorem casSection_keyed_bytes_length (P : HashPrims) (key : Hash) (idx : Nat) (cs : List CasInfo) :
    (casSection idx (keyedCas P key cs)).bytes.length = (casSection idx cs).bytes.length := by
  rw [casSection_bytes_length, casSection_bytes_length, sumMap_keyedCas P key _ (by intro c; simp)]

theorem casSection_keyed_chunkLookup_length (P : HashPrims) (key : Hash) (idx : Nat) (cs : List CasInfo) :
    (casSection idx (keyedCas P key cs)).chunkLookup.length = (casSection idx cs).chunkLookup.length := by
  rw [casSection_chunkLookup_length, casSection_chunkLookup_length, sumMap_keyedCas P key _ (by intro c; simp)]

/-- every chunk hash of the keyed list is the keyed form of an original chunk hash at the same place -/
theorem keyedCas_chunk_hash (P : HashPrims) (key : Hash) (cs : List CasInfo) :
    ∀ X' ∈ keyedCas P key cs, ∃ X ∈ cs, X' = keyCas P key X ∧
      ∀ ch' ∈ X'.chunks, ∃ ch ∈ X.chunks, ch'.hash = keyedHash P key ch.hash := by
  intro X' hX'
  simp only [keyedCas, List.mem_map] at hX'
  obtain ⟨X, hX, rfl⟩ := hX'
  refine ⟨X, hX, rfl, ?_⟩
  intro ch' hch'
  simp only [keyCas, List.mem_map] at hch'
  obtain ⟨ch, hch, rfl⟩ := hch'
  exact ⟨ch, hch, rfl⟩

/-- every key of the chunk table built over the keyed list is the truncated keyed form of an original chunk hash -/
theorem casSection_keyed_chunkLookup_keys (P : HashPrims) (key : Hash) (idx : Nat) (cs : List CasInfo) :
    ∀ e ∈ (casSection idx (keyedCas P key cs)).chunkLookup,
      ∃ X ∈ cs, ∃ ch ∈ X.chunks, e.1 = trunc (keyedHash P key ch.hash) := by
  induction cs generalizing idx with
  | nil => simp [keyedCas, casSection]
  | cons c rest ih =>
    intro e he
    simp only [keyedCas, List.map_cons, casSection, List.mem_append] at he
    rcases he with he | he
    · obtain ⟨_, j, hj, _, hk⟩ := chunkEntries_spec idx 0 (keyCas P key c).chunks e he
      simp only [keyCas_chunks_length] at hj
      refine ⟨c, List.mem_cons_self, c.chunks[j], List.getElem_mem hj, ?_⟩
      rw [hk, keyCas_chunks]
      simp [hj]
    · obtain ⟨X, hX, g⟩ := ih _ e he
      exact ⟨X, List.mem_cons_of_mem _ hX, g⟩

/-! ## Part D.2 — the section walks of the export -/

/-- `include_file_info = true`: the walk copies the section, rebuilds the lookup rows and sums the segment bytes -/
theorem exportFiles_true_of_At {b : Bytes} (fs : List FileInfo) (fuel off idx : Nat) (out : Bytes)
    (lookup : List (Nat × Nat)) (mat : Nat)
    (h : At b off ((fileSection idx fs).bytes ++ bookend)) (w : ∀ f ∈ fs, f.WF) (hf : fs.length < fuel) :
    exportFiles b true fuel off idx out lookup mat =
      .ok (out ++ (fileSection idx fs).bytes ++ bookend, lookup.reverse ++ (fileSection idx fs).lookup,
           mat + sumMap (fun f => sumMap (·.bytes) f.segs) fs, off + (fileSection idx fs).bytes.length + recSize) := by
  induction fs generalizing fuel off idx out lookup mat with
  | nil =>
    cases fuel with
    | zero => simp at hf
    | succ fuel =>
      simp only [fileSection, List.nil_append] at h
      simp [exportFiles, parseFileInfo_bookend h, fileSection, sumMap]
  | cons f rest ih =>
    cases fuel with
    | zero => simp at hf
    | succ fuel =>
      simp only [fileSection, List.append_assoc] at h
      obtain ⟨h1, h2⟩ := h.split (n := f.bytes.length) rfl
      have e1 : off + f.bytes.length - off = f.bytes.length := by omega
      have e2 : f.bytes.length / recSize = f.numRecs := rfl
      simp only [exportFiles, parseFileInfo_of_At h1 (w f List.mem_cons_self), ↓reduceIte, e1, h1.readAt rfl, e2]
      rw [ih fuel _ _ _ _ _ h2 (fun x hx => w x (List.mem_cons_of_mem _ hx)) (by simp at hf; omega)]
      simp only [fileSection, sumMap_cons, Except.ok.injEq, Prod.mk.injEq, List.length_append]
      refine ⟨by simp [List.append_assoc], by simp, by omega, by omega⟩

/-- `include_file_info = false`: every record is skipped; only the bookend is written -/
theorem exportFiles_false_of_At {b : Bytes} (fs : List FileInfo) (fuel off idx0 idx : Nat) (out : Bytes)
    (lookup : List (Nat × Nat)) (mat : Nat)
    (h : At b off ((fileSection idx0 fs).bytes ++ bookend)) (w : ∀ f ∈ fs, f.WF) (hf : fs.length < fuel) :
    exportFiles b false fuel off idx out lookup mat =
      .ok (out ++ bookend, lookup.reverse, mat, off + (fileSection idx0 fs).bytes.length + recSize) := by
  induction fs generalizing fuel off idx0 with
  | nil =>
    cases fuel with
    | zero => simp at hf
    | succ fuel =>
      simp only [fileSection, List.nil_append] at h
      simp [exportFiles, parseFileInfo_bookend h, fileSection]
  | cons f rest ih =>
    cases fuel with
    | zero => simp at hf
    | succ fuel =>
      simp only [fileSection, List.append_assoc] at h
      obtain ⟨h1, h2⟩ := h.split (n := f.bytes.length) rfl
      simp only [exportFiles, parseFileInfo_of_At h1 (w f List.mem_cons_self), Bool.false_eq_true, ↓reduceIte]
      rw [ih fuel _ _ h2 (fun x hx => w x (List.mem_cons_of_mem _ hx)) (by simp at hf; omega)]
      simp only [fileSection, Except.ok.injEq, Prod.mk.injEq, List.length_append, true_and]
      omega

/-- the CAS walk writes the keyed blocks, rebuilds both tables' rows and sums the block totals -/
theorem exportCas_of_At (P : HashPrims) (key : Hash) {b : Bytes} (cs : List CasInfo) (fuel off idx : Nat) (out : Bytes)
    (cl : List (Nat × Nat)) (chl : List (Nat × Nat × Nat)) (sd st : Nat)
    (h : At b off ((casSection idx cs).bytes ++ bookend)) (w : ∀ c ∈ cs, c.WF) (hf : cs.length < fuel) :
    exportCas P b key fuel off idx out cl chl sd st =
      .ok (out ++ (casSection idx (keyedCas P key cs)).bytes ++ bookend,
           cl.reverse ++ (casSection idx (keyedCas P key cs)).lookup,
           chl ++ (casSection idx (keyedCas P key cs)).chunkLookup,
           sd + sumMap (·.bytesOnDisk) cs, st + sumMap (·.bytesInCas) cs) := by
  induction cs generalizing fuel off idx out cl chl sd st with
  | nil =>
    cases fuel with
    | zero => simp at hf
    | succ fuel =>
      simp only [casSection, List.nil_append] at h
      simp [exportCas, parseCasInfo_bookend h, casSection, keyedCas, sumMap]
  | cons c rest ih =>
    cases fuel with
    | zero => simp at hf
    | succ fuel =>
      simp only [casSection, List.append_assoc] at h
      obtain ⟨h1, h2⟩ := h.split (n := c.bytes.length) rfl
      have wc := w c List.mem_cons_self
      have e1 : idx + 1 + c.numEntries = idx + 1 + c.chunks.length := by rw [wc.2.2.1]
      simp only [exportCas, parseCasInfo_of_At h1 wc, e1]
      rw [ih fuel _ _ _ _ _ _ _ h2 (fun x hx => w x (List.mem_cons_of_mem _ hx)) (by simp at hf; omega)]
      simp only [keyedCas, List.map_cons, casSection, sumMap_cons, Except.ok.injEq, Prod.mk.injEq, keyCas_hash,
        keyCas_chunks_length]
      refine ⟨by simp [List.append_assoc, keyCas]; rfl, by simp, by simp [List.append_assoc, keyCas]; rfl, by omega, by omega⟩

/-! ## Part D.3 — closed form of the export -/

/-- the parts of a shard file body: two record sections and three tables (any of which may be empty) -/
structure Parts where
  files : List FileInfo
  cas : List CasInfo
  fl : List (Nat × Nat)
  cl : List (Nat × Nat)
  chl : List (Nat × Nat × Nat)

namespace Parts
def casInfoOff (p : Parts) : Nat := headerSize + (fileSection 0 p.files).bytes.length + recSize
def fileLookupOff (p : Parts) : Nat := p.casInfoOff + (casSection 0 p.cas).bytes.length + recSize
def casLookupOff (p : Parts) : Nat := p.fileLookupOff + 12 * p.fl.length
def chunkLookupOff (p : Parts) : Nat := p.casLookupOff + 12 * p.cl.length
def footerOff (p : Parts) : Nat := p.chunkLookupOff + 16 * p.chl.length
/-- header, file section, bookend, CAS section, bookend, file table, CAS table, chunk table (same order as `serialize`) -/
def body (p : Parts) : Bytes :=
  headerBytes ++ (fileSection 0 p.files).bytes ++ bookend ++ (casSection 0 p.cas).bytes ++ bookend
    ++ lookupBytes p.fl ++ lookupBytes p.cl ++ chunkLookupBytes p.chl
end Parts

theorem Parts.body_length (p : Parts) : p.body.length = p.footerOff := by
  simp only [Parts.body, Parts.footerOff, Parts.chunkLookupOff, Parts.casLookupOff, Parts.fileLookupOff, Parts.casInfoOff,
    List.length_append, headerBytes_length, bookend_length, lookupBytes_length, chunkLookupBytes_length, headerSize, recSize]

/-- where the parts lie in `p.body ++ tail` -/
structure Parts.Layout (p : Parts) (tail : Bytes) : Prop where
  header : At (p.body ++ tail) 0 headerBytes
  files : At (p.body ++ tail) headerSize ((fileSection 0 p.files).bytes ++ bookend)
  cas : At (p.body ++ tail) p.casInfoOff ((casSection 0 p.cas).bytes ++ bookend)
  fileLookup : At (p.body ++ tail) p.fileLookupOff (lookupBytes p.fl)
  casLookup : At (p.body ++ tail) p.casLookupOff (lookupBytes p.cl)
  chunkLookup : At (p.body ++ tail) p.chunkLookupOff (chunkLookupBytes p.chl)
  tail : At (p.body ++ tail) p.footerOff tail

theorem Parts.layout (p : Parts) (tail : Bytes) : p.Layout tail := by
  constructor
  · exact At.mk' (pre := []) (post := (fileSection 0 p.files).bytes ++ bookend ++ (casSection 0 p.cas).bytes ++ bookend
        ++ lookupBytes p.fl ++ lookupBytes p.cl ++ chunkLookupBytes p.chl ++ tail)
      (by simp [Parts.body, List.append_assoc]) rfl
  · exact At.mk' (pre := headerBytes) (post := (casSection 0 p.cas).bytes ++ bookend ++ lookupBytes p.fl
      ++ lookupBytes p.cl ++ chunkLookupBytes p.chl ++ tail)
      (by simp [Parts.body, List.append_assoc]) (by simp [headerBytes_length, headerSize])
  · exact At.mk' (pre := headerBytes ++ (fileSection 0 p.files).bytes ++ bookend)
      (post := lookupBytes p.fl ++ lookupBytes p.cl ++ chunkLookupBytes p.chl ++ tail)
      (by simp [Parts.body, List.append_assoc])
      (by simp [Parts.casInfoOff, headerBytes_length, headerSize, bookend_length, recSize]; omega)
  · exact At.mk' (pre := headerBytes ++ (fileSection 0 p.files).bytes ++ bookend ++ (casSection 0 p.cas).bytes ++ bookend)
      (post := lookupBytes p.cl ++ chunkLookupBytes p.chl ++ tail)
      (by simp [Parts.body, List.append_assoc])
      (by simp [Parts.fileLookupOff, Parts.casInfoOff, headerBytes_length, headerSize, bookend_length, recSize]; omega)
  · exact At.mk' (pre := headerBytes ++ (fileSection 0 p.files).bytes ++ bookend ++ (casSection 0 p.cas).bytes ++ bookend
        ++ lookupBytes p.fl)
      (post := chunkLookupBytes p.chl ++ tail)
      (by simp [Parts.body, List.append_assoc])
      (by simp [Parts.casLookupOff, Parts.fileLookupOff, Parts.casInfoOff, headerBytes_length, headerSize, bookend_length,
            recSize, lookupBytes_length]; omega)
  · exact At.mk' (pre := headerBytes ++ (fileSection 0 p.files).bytes ++ bookend ++ (casSection 0 p.cas).bytes ++ bookend
        ++ lookupBytes p.fl ++ lookupBytes p.cl)
      (post := tail)
      (by simp [Parts.body, List.append_assoc])
      (by simp [Parts.chunkLookupOff, Parts.casLookupOff, Parts.fileLookupOff, Parts.casInfoOff, headerBytes_length, headerSize,
            bookend_length, recSize, lookupBytes_length]; omega)
  · exact At.mk' (pre := p.body) (post := []) (by simp) (Parts.body_length p)

/-- files kept by the export -/
def exportFilesOf (m : Mem) (f : Bool) : List FileInfo := if f then m.files else []

/-- the content of the exported shard: the files (kept or dropped) and the keyed blocks -/
def exportMem (P : HashPrims) (key : Hash) (m : Mem) (f : Bool) : Mem := ⟨exportFilesOf m f, keyedCas P key m.cas⟩

/-- parts of the export with flags `f` (file info), `c` (CAS table), `k` (chunk table) -/
def exportParts (P : HashPrims) (m : Mem) (key : Hash) (f c k : Bool) : Parts where
  files := exportFilesOf m f
  cas := keyedCas P key m.cas
  fl := (fileSection 0 (exportFilesOf m f)).lookup
  cl := if c then (casSection 0 m.cas).lookup else []
  chl := if k then sortByKey (casSection 0 (keyedCas P key m.cas)).chunkLookup else []

def exportFooter (P : HashPrims) (m : Mem) (key : Hash) (now validFor : Nat) (f c k : Bool) : Footer :=
  let p := exportParts P m key f c k
  ⟨footerVersion, headerSize, p.casInfoOff, p.fileLookupOff, p.fl.length, p.casLookupOff, p.cl.length, p.chunkLookupOff,
   p.chl.length, key, now, min (now + validFor) u64Max, List.replicate 6 0, m.storedOnDisk,
   if f then m.materialized else 0, m.stored, p.footerOff⟩

/-- **closed form of `export_as_keyed_shard_impl`** on the shard with content `m` -/
def exportSpec (P : HashPrims) (m : Mem) (key : Hash) (now validFor : Nat) (f c k : Bool) : Export :=
  ⟨(exportParts P m key f c k).body ++ (exportFooter P m key now validFor f c k).bytes, exportFooter P m key now validFor f c k⟩

theorem exportFilesOf_WF (m : Mem) (f : Bool) (w : ∀ x ∈ m.files, x.WF) : ∀ x ∈ exportFilesOf m f, x.WF := by
  cases f
  · intro x hx; simp [exportFilesOf] at hx
  · simpa [exportFilesOf] using w

theorem exportFilesOf_recs (m : Mem) (f : Bool) : sumMap FileInfo.numRecs (exportFilesOf m f) ≤ m.fileRecs := by
  cases f
  · simp [exportFilesOf, sumMap]
  · simp [exportFilesOf, Mem.fileRecs]

theorem exportFilesOf_length (m : Mem) (f : Bool) : (exportFilesOf m f).length ≤ m.files.length := by
  cases f <;> simp [exportFilesOf]

theorem exportFilesOf_materialized (m : Mem) (f : Bool) :
    sumMap (fun x => sumMap (·.bytes) x.segs) (exportFilesOf m f) = if f then m.materialized else 0 := by
  cases f
  · simp [exportFilesOf, sumMap]
  · simp [exportFilesOf, Mem.materialized]

/-- the exported content is again a well-formed shard content -/
theorem exportMem_WF (P : HashPrims) (key : Hash) (m : Mem) (f : Bool) (w : m.WF) : (exportMem P key m f).WF := by
  obtain ⟨w1, w2, w3, w4, w5, w6⟩ := w
  refine ⟨?_, keyedCas_sorted P key m.cas w2, exportFilesOf_WF m f w3, keyedCas_WF P key m.cas w4, ?_, ?_⟩
  · cases f
    · simp [exportMem, exportFilesOf]
    · simpa [exportMem, exportFilesOf] using w1
  · have := exportFilesOf_recs m f
    simp only [Mem.fileRecs, exportMem] at this ⊢
    simp only [Mem.fileRecs] at w5
    omega
  · simp only [Mem.casRecs, exportMem] at w6 ⊢
    rw [sumMap_keyedCas P key _ (by intro c; simp)]
    exact w6

/-- size facts about the parts of an export, relative to the source content -/
structure ExportBounds (P : HashPrims) (m : Mem) (key : Hash) (f c k : Bool) : Prop where
  fileBytes : (fileSection 0 (exportParts P m key f c k).files).bytes.length ≤ recSize * m.fileRecs
  casBytes : (casSection 0 (exportParts P m key f c k).cas).bytes.length = recSize * m.casRecs
  fl : (exportParts P m key f c k).fl.length ≤ m.files.length
  cl : (exportParts P m key f c k).cl.length ≤ m.cas.length
  chl : (exportParts P m key f c k).chl.length ≤ m.numChunks

theorem exportBounds (P : HashPrims) (m : Mem) (key : Hash) (f c k : Bool) (w : m.WF) : ExportBounds P m key f c k := by
  constructor
  · simp only [exportParts]
    rw [fileSection_bytes_length 0 _ (exportFilesOf_WF m f w.2.2.1)]
    exact Nat.mul_le_mul_left _ (exportFilesOf_recs m f)
  · simp only [exportParts]
    rw [casSection_keyed_bytes_length, casSection_bytes_length]; rfl
  · simp only [exportParts, fileSection_lookup_length]
    exact exportFilesOf_length m f
  · cases c <;> simp [exportParts, casSection_lookup_length]
  · cases k
    · simp [exportParts]
    · simp only [exportParts, if_true, (sortByKey_perm _).length_eq, casSection_chunkLookup_length, Mem.numChunks]
      rw [sumMap_keyedCas P key _ (by intro c; simp)]
      exact Nat.le_refl _

theorem exportFooter_fits (P : HashPrims) (m : Mem) (key : Hash) (now validFor : Nat) (f c k : Bool) (w : m.WF)
    (hnow : now < 18446744073709551616) : (exportFooter P m key now validFor f c k).Fits := by
  obtain ⟨b1, b2, b3, b4, b5⟩ := exportBounds P m key f c k w
  have h5 := w.files_le
  have h6 := m.cas_le
  have h6' := m.numChunks_le
  have h7 := w.2.2.2.2.1
  have h8 := w.2.2.2.2.2
  have h9 := w.storedOnDisk_lt
  have h10 := w.stored_lt
  have h11 : (if f then m.materialized else 0) < 18446744073709551616 := by
    have := w.materialized_lt
    split <;> omega
  have hr : recSize = 48 := rfl
  have hh : headerSize = 48 := rfl
  simp only [recSize] at b1 b2
  simp only [Mem.fileRecs, Mem.casRecs, Mem.numChunks] at b1 b2 b5 h5 h6 h6' h7 h8
  constructor <;>
    simp only [exportFooter, Parts.footerOff, Parts.chunkLookupOff, Parts.casLookupOff, Parts.fileLookupOff, Parts.casInfoOff,
      u64Max] <;>
    first | rfl | omega | decide

theorem exportFooter_bytes_length (P : HashPrims) (m : Mem) (key : Hash) (now validFor : Nat) (f c k : Bool) :
    (exportFooter P m key now validFor f c k).bytes.length = 200 :=
  Footer.bytes_length _ (by simp [exportFooter])

theorem exportSpec_length (P : HashPrims) (m : Mem) (key : Hash) (now validFor : Nat) (f c k : Bool) :
    (exportSpec P m key now validFor f c k).bytes.length = (exportSpec P m key now validFor f c k).footer.footerOff + footerSize := by
  simp only [exportSpec, List.length_append, Parts.body_length, exportFooter_bytes_length]
  rfl

/-- the layout of the export -/
theorem exportSpec_layout (P : HashPrims) (m : Mem) (key : Hash) (now validFor : Nat) (f c k : Bool) :
    (exportParts P m key f c k).Layout (exportFooter P m key now validFor f c k).bytes :=
  Parts.layout _ _

/-! ### the readers on the export -/

theorem loadInfo_exportSpec (P : HashPrims) (m : Mem) (key : Hash) (now validFor : Nat) (f c k : Bool) (w : m.WF)
    (hnow : now < 18446744073709551616) :
    loadInfo (exportSpec P m key now validFor f c k).bytes = .ok (exportSpec P m key now validFor f c k).footer := by
  have L := exportSpec_layout P m key now validFor f c k
  apply loadInfo_of_At L.header _ (exportFooter_fits P m key now validFor f c k w hnow)
  have e := exportSpec_length P m key now validFor f c k
  have : (exportSpec P m key now validFor f c k).bytes.length - footerSize = (exportParts P m key f c k).footerOff := by
    rw [e]; simp [exportSpec, exportFooter]
  show At (exportSpec P m key now validFor f c k).bytes ((exportSpec P m key now validFor f c k).bytes.length - footerSize) _
  rw [this]
  exact L.tail

theorem readAllFiles_exportSpec (P : HashPrims) (m : Mem) (key : Hash) (now validFor : Nat) (f c k : Bool) (w : m.WF)
    (fuel : Nat) (hf : (exportFilesOf m f).length < fuel) :
    readAllFiles (exportSpec P m key now validFor f c k).bytes fuel (exportSpec P m key now validFor f c k).footer.fileInfoOff []
      = .ok (exportFilesOf m f) := by
  have L := exportSpec_layout P m key now validFor f c k
  have := readAllFiles_of_At (exportFilesOf m f) 0 fuel headerSize [] L.files (exportFilesOf_WF m f w.2.2.1) hf
  simp only [List.reverse_nil, List.nil_append] at this
  exact this

theorem readAllCas_exportSpec (P : HashPrims) (m : Mem) (key : Hash) (now validFor : Nat) (f c k : Bool) (w : m.WF)
    (fuel : Nat) (hf : m.cas.length < fuel) :
    readAllCas (exportSpec P m key now validFor f c k).bytes fuel (exportSpec P m key now validFor f c k).footer.casInfoOff []
      = .ok (keyedCas P key m.cas) := by
  have L := exportSpec_layout P m key now validFor f c k
  have := readAllCas_of_At (keyedCas P key m.cas) 0 fuel _ [] L.cas (keyedCas_WF P key m.cas w.2.2.2.1)
    (by rw [keyedCas_length]; exact hf)
  simp only [List.reverse_nil, List.nil_append] at this
  exact this

theorem readFileLookup_exportSpec (P : HashPrims) (m : Mem) (key : Hash) (now validFor : Nat) (f c k : Bool) (w : m.WF) :
    readLookup (exportSpec P m key now validFor f c k).bytes (exportSpec P m key now validFor f c k).footer.fileLookupNum
      (exportSpec P m key now validFor f c k).footer.fileLookupOff [] = .ok (fileSection 0 (exportFilesOf m f)).lookup := by
  have L := exportSpec_layout P m key now validFor f c k
  have h7 := w.2.2.2.2.1
  have hr := exportFilesOf_recs m f
  have := readLookup_of_At _ _ [] L.fileLookup (by
    intro e he
    have := fileSection_lookup_bounds 0 _ (exportFilesOf_WF m f w.2.2.1) e he
    omega)
  simp only [List.reverse_nil, List.nil_append] at this
  exact this

theorem readCasLookup_exportSpec (P : HashPrims) (m : Mem) (key : Hash) (now validFor : Nat) (f c k : Bool) (w : m.WF) :
    readLookup (exportSpec P m key now validFor f c k).bytes (exportSpec P m key now validFor f c k).footer.casLookupNum
      (exportSpec P m key now validFor f c k).footer.casLookupOff [] = .ok (if c then (casSection 0 m.cas).lookup else []) := by
  have L := exportSpec_layout P m key now validFor f c k
  have h8 := w.2.2.2.2.2
  have := readLookup_of_At _ _ [] L.casLookup (by
    intro e he
    cases c
    · simp [exportParts] at he
    · simp only [exportParts, if_true] at he
      have := casSection_lookup_bounds 0 m.cas e he
      simp only [Mem.casRecs] at h8
      omega)
  simp only [List.reverse_nil, List.nil_append] at this
  exact this

theorem exportChunkTable_bounds (P : HashPrims) (m : Mem) (key : Hash) (f c k : Bool) (w : m.WF) :
    ∀ e ∈ (exportParts P m key f c k).chl, e.1 < 18446744073709551616 ∧ e.2.1 < 4294967296 ∧ e.2.2 < 4294967296 := by
  intro e he
  cases k
  · simp [exportParts] at he
  · simp only [exportParts, if_true] at he
    have := casSection_chunkLookup_bounds 0 _ e ((sortByKey_perm _).mem_iff.mp he)
    rw [sumMap_keyedCas P key _ (by intro c; simp)] at this
    have h8 := w.2.2.2.2.2
    simp only [Mem.casRecs] at h8
    omega

theorem readChunkLookup_exportSpec (P : HashPrims) (m : Mem) (key : Hash) (now validFor : Nat) (f c k : Bool) (w : m.WF) :
    readChunkLookup (exportSpec P m key now validFor f c k).bytes (exportSpec P m key now validFor f c k).footer.chunkLookupNum
      (exportSpec P m key now validFor f c k).footer.chunkLookupOff []
      = .ok (if k then sortByKey (casSection 0 (keyedCas P key m.cas)).chunkLookup else []) := by
  have L := exportSpec_layout P m key now validFor f c k
  have := readChunkLookup_of_At _ _ [] L.chunkLookup (exportChunkTable_bounds P m key f c k w)
  simp only [List.reverse_nil, List.nil_append] at this
  exact this

/-! ## Part D.4 — `exportKeyed` on a serialized shard is `exportSpec` -/

/-- the fuel `b.length / 48 + 1` of the export walks exceeds the number of records of either section -/
theorem serialize_fuel (m : Mem) (t : List (Nat × Nat × Nat)) (w : m.WF) :
    m.files.length < (serialize m t).bytes.length / recSize + 1 ∧ m.cas.length < (serialize m t).bytes.length / recSize + 1 := by
  have h1 := fileSection_bytes_length 0 m.files w.2.2.1
  have h2 := casSection_bytes_length 0 m.cas
  have h5 := w.files_le
  have h6 := m.cas_le
  have hl := serialize_length m t
  simp only [Mem.fileRecs, Mem.casRecs] at h5 h6
  simp only [serialize, headerSize, recSize] at hl h1 h2 ⊢
  rw [hl, h1, h2]
  omega

theorem exportFiles_serialize (m : Mem) (t : List (Nat × Nat × Nat)) (w : m.WF) (f : Bool) :
    exportFiles (serialize m t).bytes f ((serialize m t).bytes.length / recSize + 1) headerSize 0 [] [] 0 =
      .ok ((fileSection 0 (exportFilesOf m f)).bytes ++ bookend, (fileSection 0 (exportFilesOf m f)).lookup,
           (if f then m.materialized else 0), headerSize + (fileSection 0 m.files).bytes.length + recSize) := by
  have L := (serialize_layout m t).files
  have hf := (serialize_fuel m t w).1
  cases f
  · rw [exportFiles_false_of_At m.files _ headerSize 0 0 [] [] 0 L w.2.2.1 hf]
    simp [exportFilesOf, fileSection]
  · rw [exportFiles_true_of_At m.files _ headerSize 0 [] [] 0 L w.2.2.1 hf]
    simp [exportFilesOf, Mem.materialized]

theorem exportCas_serialize (P : HashPrims) (key : Hash) (m : Mem) (t : List (Nat × Nat × Nat)) (w : m.WF) :
    exportCas P (serialize m t).bytes key ((serialize m t).bytes.length / recSize + 1)
        (headerSize + (fileSection 0 m.files).bytes.length + recSize) 0 [] [] [] 0 0 =
      .ok ((casSection 0 (keyedCas P key m.cas)).bytes ++ bookend, (casSection 0 m.cas).lookup,
           (casSection 0 (keyedCas P key m.cas)).chunkLookup, m.storedOnDisk, m.stored) := by
  have L : At (serialize m t).bytes (headerSize + (fileSection 0 m.files).bytes.length + recSize)
      ((casSection 0 m.cas).bytes ++ bookend) := (serialize_layout m t).cas
  have hf := (serialize_fuel m t w).2
  rw [exportCas_of_At P key m.cas _ _ 0 [] [] [] 0 0 L w.2.2.2.1 hf]
  simp [casSection_keyed_lookup, Mem.storedOnDisk, Mem.stored]

theorem serialize_header_reads (m : Mem) (t : List (Nat × Nat × Nat)) :
    readAt (serialize m t).bytes 0 32 = .ok headerTag ∧ readAt (serialize m t).bytes 0 headerSize = .ok headerBytes := by
  have hh := (serialize_layout m t).header
  refine ⟨?_, hh.readAt (n := headerSize) headerBytes_length⟩
  simp only [headerBytes, List.append_assoc] at hh
  exact (hh.split headerTag_length).1.readAt headerTag_length

/-- **`export_as_keyed_shard_impl` computes the closed form**, for every well-formed content, every legal chunk
    table of the source, every key, clock value, validity and all eight flag combinations -/
theorem exportKeyed_serialize (P : HashPrims) (m : Mem) (t : List (Nat × Nat × Nat)) (w : m.WF) (key : Hash)
    (now validFor : Nat) (f c k : Bool) :
    exportKeyed P (serialize m t).bytes key now validFor f c k = .ok (exportSpec P m key now validFor f c k) := by
  obtain ⟨h1, h2⟩ := serialize_header_reads m t
  have h3 := exportFiles_serialize m t w f
  have h4 := exportCas_serialize P key m t w
  simp only [exportKeyed, h1, h2, h3, h4, ok_bind, ne_eq, not_true_eq_false, if_false]
  have hfl : (if f = true then (fileSection 0 (exportFilesOf m f)).lookup else []) = (fileSection 0 (exportFilesOf m f)).lookup := by
    cases f <;> simp [exportFilesOf, fileSection]
  have hmat : (if f = true then (if f = true then m.materialized else 0) else 0) = if f = true then m.materialized else 0 := by
    cases f <;> rfl
  rw [hfl, hmat]
  simp only [List.length_append, bookend_length, exportSpec, exportFooter, exportParts, Parts.body, Parts.footerOff,
    Parts.chunkLookupOff, Parts.casLookupOff, Parts.fileLookupOff, Parts.casInfoOff, recSize, Nat.add_assoc, List.append_assoc]

/-! ## Part D.5 — dedup queries on a shard whose CAS section holds well-formed blocks -/

/-- `matchRun` over the chunk list of a block instead of over bytes; `k` = the keying of query hashes -/
def listRun (k : Hash → Hash) (chunks : List Chunk) (co : Nat) (q : List Hash) : Nat → Nat → Nat → Nat × Nat
  | 0, i, acc => (i, acc)
  | fuel+1, i, acc =>
    if co + i = chunks.length then (i, acc) else
    match chunks[co + i]? with
    | none => (i, acc)
    | some c =>
      match q[i]? with
      | none => (i, acc)
      | some qh => if c.hash ≠ k qh then (i, acc) else listRun k chunks co q fuel (i + 1) (acc + c.bytes)

/-- `chunk_hash_dedup_query_direct` on a block `X` at chunk position `co`, as a function of the block -/
def directSpec (k : Hash → Hash) (X : CasInfo) (co : Nat) (q : List Hash) : Option DedupAnswer :=
  match q with
  | [] => none
  | q0 :: qs =>
    match X.chunks[co]? with
    | none => none
    | some first =>
      if first.hash ≠ k q0 then none else
      some ⟨(listRun k X.chunks co (q0 :: qs) ((q0 :: qs).length + 1) 1 first.bytes).1,
            ⟨X.hash, X.flags, (listRun k X.chunks co (q0 :: qs) ((q0 :: qs).length + 1) 1 first.bytes).2, co,
             co + (listRun k X.chunks co (q0 :: qs) ((q0 :: qs).length + 1) 1 first.bytes).1⟩⟩

theorem matchRun_of_block (P : HashPrims) (key : Hash) {b : Bytes} {off : Nat} {X : CasInfo} (hAt : At b off X.bytes) (w : X.WF)
    (co : Nat) (q : List Hash) (fuel i acc : Nat) (hi : co + i ≤ X.chunks.length) :
    matchRun P key b off X.chunks.length co q fuel i acc = .ok (listRun (keyedHash P key) X.chunks co q fuel i acc) := by
  obtain ⟨_, r2⟩ := block_reads hAt w
  induction fuel generalizing i acc with
  | zero => rfl
  | succ fuel ih =>
    simp only [matchRun, listRun]
    by_cases he : co + i = X.chunks.length
    · rw [if_pos he, if_pos he]
    · have hlt : co + i < X.chunks.length := by omega
      have hp := r2 (co + i) hlt
      rw [← Nat.add_assoc] at hp
      rw [if_neg he, if_neg he, hp, List.getElem?_eq_getElem hlt]
      cases hq : q[i]? with
      | none => rfl
      | some qh =>
        simp only
        split
        · rfl
        · exact ih (i + 1) _ (by omega)

/-- the direct query at a stored block is a function of the block, the position and the query only -/
theorem dedupDirect_of_block (P : HashPrims) {b : Bytes} (ft : Footer) {X : CasInfo} (q : List Hash) (ci co : Nat)
    (hAt : At b (ft.casInfoOff + recSize * ci) X.bytes) (w : X.WF) (hco : co < X.chunks.length) :
    dedupDirect P b ft q ci co = .ok (directSpec (keyedHash P ft.hmacKey) X co q) := by
  obtain ⟨r1, r2⟩ := block_reads hAt w
  cases q with
  | nil => rfl
  | cons q0 qs =>
    have hm := matchRun_of_block P ft.hmacKey hAt w co (q0 :: qs) ((q0 :: qs).length + 1) 1 X.chunks[co].bytes (by omega)
    simp only [dedupDirect, r1, r2 co hco, ok_bind, directSpec, List.getElem?_eq_getElem hco]
    split
    · rfl
    · rw [hm]; rfl

/-- keying the block and the query hashes does not change the run, as long as the keyed form separates the block's
    chunk hashes from the query hashes -/
theorem listRun_keyed (P : HashPrims) (key : Hash) (chunks : List Chunk) (co : Nat) (q : List Hash)
    (hinj : ∀ ch ∈ chunks, ∀ qh ∈ q, keyedHash P key ch.hash = keyedHash P key qh → ch.hash = qh) (fuel i acc : Nat) :
    listRun (keyedHash P key) (chunks.map (keyChunk P key)) co q fuel i acc = listRun id chunks co q fuel i acc := by
  induction fuel generalizing i acc with
  | zero => rfl
  | succ fuel ih =>
    simp only [listRun, List.length_map, List.getElem?_map]
    split
    · rfl
    · cases hc : chunks[co + i]? with
      | none => rfl
      | some c =>
        simp only [Option.map_some]
        cases hq : q[i]? with
        | none => rfl
        | some qh =>
          simp only [id]
          have hcm : c ∈ chunks := List.mem_of_getElem? hc
          have hqm : qh ∈ q := List.mem_of_getElem? hq
          by_cases heq : c.hash = qh
          · rw [if_neg (show ¬ ((keyChunk P key c).hash ≠ keyedHash P key qh) by simp [heq]),
              if_neg (show ¬ (c.hash ≠ qh) by simp [heq])]
            exact ih _ _
          · rw [if_pos (show (keyChunk P key c).hash ≠ keyedHash P key qh from fun h => heq (hinj c hcm qh hqm h)),
              if_pos heq]

theorem directSpec_keyed (P : HashPrims) (key : Hash) (X : CasInfo) (co : Nat) (q : List Hash)
    (hinj : ∀ ch ∈ X.chunks, ∀ qh ∈ q, keyedHash P key ch.hash = keyedHash P key qh → ch.hash = qh) :
    directSpec (keyedHash P key) (keyCas P key X) co q = directSpec id X co q := by
  cases q with
  | nil => rfl
  | cons q0 qs =>
    simp only [directSpec, keyCas_chunks, List.getElem?_map, keyCas_hash, keyCas_flags]
    cases hc : X.chunks[co]? with
    | none => rfl
    | some c =>
      simp only [Option.map_some, keyChunk_bytes, id, listRun_keyed P key X.chunks co (q0 :: qs) hinj]
      have hcm : c ∈ X.chunks := List.mem_of_getElem? hc
      by_cases heq : c.hash = q0
      · rw [if_neg (show ¬ ((keyChunk P key c).hash ≠ keyedHash P key q0) by simp [heq]),
          if_neg (show ¬ (c.hash ≠ q0) by simp [heq])]
      · rw [if_pos (show (keyChunk P key c).hash ≠ keyedHash P key q0 from fun h => heq (hinj c hcm q0 List.mem_cons_self h)),
          if_pos heq]

theorem directSpec_isSome (k : Hash → Hash) (X : CasInfo) (co : Nat) (q0 : Hash) (qs : List Hash) (hco : co < X.chunks.length)
    (hh : X.chunks[co].hash = k q0) : ∃ a, directSpec k X co (q0 :: qs) = some a := by
  simp only [directSpec, List.getElem?_eq_getElem hco, hh, ne_eq, not_true_eq_false, if_false]
  exact ⟨_, rfl⟩

/-! ### the chunk table addresses every chunk record -/

theorem chunkEntries_complete (idx i : Nat) (chs : List Chunk) (j : Nat) (hj : j < chs.length) :
    (trunc chs[j].hash, idx, i + j) ∈ chunkEntries idx i chs := by
  induction chs generalizing i j with
  | nil => simp at hj
  | cons c rest ih =>
    cases j with
    | zero => simp [chunkEntries]
    | succ j =>
      simp only [chunkEntries, List.getElem_cons_succ, List.mem_cons]
      right
      have := ih (i + 1) j (by simpa using hj)
      rw [show i + (j + 1) = i + 1 + j by omega]; exact this

theorem casSection_entry_complete {b : Bytes} (base : Nat) (cs : List CasInfo) (idx0 : Nat)
    (hAt : At b (base + recSize * idx0) (casSection idx0 cs).bytes) :
    ∀ X ∈ cs, ∀ j (hj : j < X.chunks.length), ∃ e ∈ (casSection idx0 cs).chunkLookup,
      At b (base + recSize * e.2.1) X.bytes ∧ e.2.2 = j ∧ e.1 = trunc X.chunks[j].hash := by
  induction cs generalizing idx0 with
  | nil => simp
  | cons c rest ih =>
    intro X hX j hj
    simp only [casSection] at hAt ⊢
    obtain ⟨h1, h2⟩ := hAt.split (n := c.bytes.length) rfl
    rcases List.mem_cons.mp hX with rfl | hX
    · refine ⟨(trunc X.chunks[j].hash, idx0, 0 + j), List.mem_append_left _ (chunkEntries_complete idx0 0 X.chunks j hj), h1, by simp, rfl⟩
    · have eo : base + recSize * idx0 + (recSize + recSize * c.chunks.length) = base + recSize * (idx0 + 1 + c.chunks.length) := by
        simp only [recSize]; omega
      rw [CasInfo.bytes_length, eo] at h2
      obtain ⟨e, he, g⟩ := ih (idx0 + 1 + c.chunks.length) h2 X hX j hj
      exact ⟨e, List.mem_append_right _ he, g⟩

/-- `b` holds the well-formed blocks `cs` as its CAS section, and `tbl` is a chunk table for them whose length the footer records -/
structure CasShard (b : Bytes) (ft : Footer) (cs : List CasInfo) (tbl : List (Nat × Nat × Nat)) : Prop where
  sect : At b (ft.casInfoOff + recSize * 0) (casSection 0 cs).bytes
  wf : ∀ X ∈ cs, X.WF
  perm : tbl.Perm (casSection 0 cs).chunkLookup
  num : ft.chunkLookupNum = tbl.length

theorem CasShard.row_sound {b ft cs tbl} (S : CasShard b ft cs tbl) :
    ∀ e ∈ tbl, ∃ X ∈ cs, At b (ft.casInfoOff + recSize * e.2.1) X.bytes ∧ ∃ h : e.2.2 < X.chunks.length,
      e.1 = trunc X.chunks[e.2.2].hash := by
  intro e he
  obtain ⟨X, hX, g1, g2, g3⟩ := casSection_entry _ cs 0 S.sect e (S.perm.mem_iff.mp he)
  refine ⟨X, hX, g1, g2, ?_⟩
  rw [g3]; simp [g2]

theorem CasShard.row_complete {b ft cs tbl} (S : CasShard b ft cs tbl) :
    ∀ X ∈ cs, ∀ j (hj : j < X.chunks.length), ∃ e ∈ tbl,
      At b (ft.casInfoOff + recSize * e.2.1) X.bytes ∧ e.2.2 = j ∧ e.1 = trunc X.chunks[j].hash := by
  intro X hX j hj
  obtain ⟨e, he, g⟩ := casSection_entry_complete _ cs 0 S.sect X hX j hj
  exact ⟨e, S.perm.mem_iff.mpr he, g⟩

/-- the hash `h` is recorded at one chunk position of the shard at most -/
def UniquePos (cs : List CasInfo) (h : Hash) : Prop :=
  ∀ X ∈ cs, ∀ Y ∈ cs, ∀ i, ∀ hi : i < X.chunks.length, ∀ j, ∀ hj : j < Y.chunks.length,
    X.chunks[i].hash = h → Y.chunks[j].hash = h → X = Y ∧ i = j

instance (cs : List CasInfo) (h : Hash) : Decidable (UniquePos cs h) := by unfold UniquePos; infer_instance

theorem mem_searchSpec {tbl : List (Nat × Nat × Nat)} {key cap : Nat} {cc : Nat × Nat}
    (h : cc ∈ searchSpec (tbl.map fun e => (e.1, (e.2.1, e.2.2))) key cap) : ∃ e ∈ tbl, e.1 = key ∧ cc = (e.2.1, e.2.2) := by
  simp only [searchSpec] at h
  have := List.mem_of_mem_take h
  simp only [List.mem_map, List.mem_filter] at this
  obtain ⟨e, ⟨⟨e', he', rfl⟩, hk⟩, rfl⟩ := this
  simp only [beq_iff_eq] at hk
  exact ⟨e', he', hk, rfl⟩

theorem searchSpec_ne_nil {tbl : List (Nat × Nat × Nat)} {key cap : Nat} (hcap : 0 < cap) {e : Nat × Nat × Nat}
    (he : e ∈ tbl) (hk : e.1 = key) : searchSpec (tbl.map fun e => (e.1, (e.2.1, e.2.2))) key cap ≠ [] := by
  have hmem : (e.2.1, e.2.2) ∈ ((tbl.map fun e => (e.1, (e.2.1, e.2.2))).filter fun x => x.1 == key).map (·.2) := by
    simp only [List.mem_map, List.mem_filter]
    exact ⟨(e.1, (e.2.1, e.2.2)), ⟨⟨e, he, rfl⟩, by simp [hk]⟩, rfl⟩
  intro hnil
  simp only [searchSpec] at hnil
  rw [List.take_eq_nil_iff] at hnil
  rcases hnil with h | h
  · omega
  · rw [h] at hmem; cases hmem

theorem dedupFromCandidates_const (P : HashPrims) (b : Bytes) (ft : Footer) (q : List Hash) (cands : List (Nat × Nat))
    (a : DedupAnswer) (hne : cands ≠ []) (h : ∀ cc ∈ cands, dedupDirect P b ft q cc.1 cc.2 = .ok (some a)) :
    dedupFromCandidates P b ft q cands = .ok (some a) := by
  cases cands with
  | nil => exact absurd rfl hne
  | cons cc rest =>
    obtain ⟨ci, co⟩ := cc
    simp only [dedupFromCandidates, h (ci, co) List.mem_cons_self]

/-- **the query when the first hash is stored at exactly one position** and no other chunk shares its truncated
    (keyed) prefix: the answer is the direct answer at that position, whatever the table order -/
theorem CasShard.dedup_present (P : HashPrims) {b ft cs tbl} (S : CasShard b ft cs tbl) (q0 : Hash) (qs : List Hash)
    (X : CasInfo) (hX : X ∈ cs) (j : Nat) (hj : j < X.chunks.length) (hh : X.chunks[j].hash = keyedHash P ft.hmacKey q0)
    (hcol : ∀ Y ∈ cs, ∀ ch ∈ Y.chunks, trunc ch.hash = trunc (keyedHash P ft.hmacKey q0) → ch.hash = keyedHash P ft.hmacKey q0)
    (huniq : UniquePos cs (keyedHash P ft.hmacKey q0)) :
    dedupQuery P b ft (q0 :: qs)
        (searchSpec (tbl.map fun e => (e.1, (e.2.1, e.2.2))) (trunc (keyedHash P ft.hmacKey q0)) maxCollisions)
      = .ok (directSpec (keyedHash P ft.hmacKey) X j (q0 :: qs)) := by
  obtain ⟨e0, he0, _, g2, g3⟩ := S.row_complete X hX j hj
  have hne : tbl ≠ [] := by intro h; rw [h] at he0; cases he0
  have hnum : ft.chunkLookupNum ≠ 0 := by
    rw [S.num]; intro h; exact hne (List.eq_nil_of_length_eq_zero h)
  obtain ⟨a, ha⟩ := directSpec_isSome (keyedHash P ft.hmacKey) X j q0 qs hj hh
  simp only [dedupQuery, List.isEmpty_cons, Bool.false_eq_true, hnum, or_self, if_false]
  rw [ha]
  apply dedupFromCandidates_const
  · exact searchSpec_ne_nil (by decide) he0 (by rw [g3, hh])
  · intro cc hcc
    obtain ⟨e, he, hk, rfl⟩ := mem_searchSpec hcc
    obtain ⟨Y, hY, gAt, hlt, gk⟩ := S.row_sound e he
    have hYh : Y.chunks[e.2.2].hash = keyedHash P ft.hmacKey q0 :=
      hcol Y hY _ (List.getElem_mem hlt) (by rw [← gk, hk])
    obtain ⟨rfl, rfl⟩ := huniq Y hY X hX e.2.2 hlt j hj hYh hh
    rw [dedupDirect_of_block P ft (q0 :: qs) e.2.1 e.2.2 gAt (S.wf Y hY) hlt, ha]

/-- **the query when the first hash is not stored** and no stored chunk shares its truncated (keyed) prefix -/
theorem CasShard.dedup_absent (P : HashPrims) {b ft cs tbl} (S : CasShard b ft cs tbl) (q0 : Hash) (qs : List Hash)
    (hno : ∀ Y ∈ cs, ∀ ch ∈ Y.chunks, ch.hash ≠ keyedHash P ft.hmacKey q0)
    (hcol : ∀ Y ∈ cs, ∀ ch ∈ Y.chunks, trunc ch.hash = trunc (keyedHash P ft.hmacKey q0) → ch.hash = keyedHash P ft.hmacKey q0) :
    dedupQuery P b ft (q0 :: qs)
        (searchSpec (tbl.map fun e => (e.1, (e.2.1, e.2.2))) (trunc (keyedHash P ft.hmacKey q0)) maxCollisions)
      = .ok none := by
  have hnil : searchSpec (tbl.map fun e => (e.1, (e.2.1, e.2.2))) (trunc (keyedHash P ft.hmacKey q0)) maxCollisions = [] := by
    apply List.eq_nil_iff_forall_not_mem.mpr
    intro cc hcc
    obtain ⟨e, he, hk, rfl⟩ := mem_searchSpec hcc
    obtain ⟨Y, hY, _, hlt, gk⟩ := S.row_sound e he
    exact hno Y hY _ (List.getElem_mem hlt) (hcol Y hY _ (List.getElem_mem hlt) (by rw [← gk, hk]))
  rw [hnil]
  simp only [dedupQuery, dedupFromCandidates]
  split <;> rfl

/-! ### the source shard and its export as `CasShard`s; preservation of dedup answers -/

theorem casShard_serialize (m : Mem) (t : List (Nat × Nat × Nat)) (w : m.WF) (ht : LegalChunkTable m t) :
    CasShard (serialize m t).bytes (serialize m t).footer m.cas t :=
  ⟨by simpa using (serialize_layout m t).cas.left, w.2.2.2.1, ht.1, rfl⟩

theorem casShard_exportSpec (P : HashPrims) (m : Mem) (key : Hash) (now validFor : Nat) (f c : Bool) (w : m.WF) :
    CasShard (exportSpec P m key now validFor f c true).bytes (exportSpec P m key now validFor f c true).footer
      (keyedCas P key m.cas) (sortByKey (casSection 0 (keyedCas P key m.cas)).chunkLookup) := by
  refine ⟨?_, keyedCas_WF P key m.cas w.2.2.2.1, sortByKey_perm _, rfl⟩
  have := (exportSpec_layout P m key now validFor f c true).cas.left
  rw [Nat.mul_zero, Nat.add_zero]
  exact this

theorem dedupCandidates_exportSpec (P : HashPrims) (m : Mem) (key : Hash) (now validFor : Nat) (f c k : Bool) (w : m.WF) (q0 : Hash) :
    dedupCandidates P (exportSpec P m key now validFor f c k).bytes (exportSpec P m key now validFor f c k).footer q0 =
      .ok (searchSpec ((if k then sortByKey (casSection 0 (keyedCas P key m.cas)).chunkLookup else []).map
              fun e => (e.1, (e.2.1, e.2.2))) (trunc (keyedHash P key q0)) maxCollisions) := by
  simp only [dedupCandidates, readChunkLookup_exportSpec P m key now validFor f c k w, ok_bind]
  rfl

/-- the first query hash collides, in its truncated 64-bit prefix, with no *other* chunk hash of the shard — neither
    in raw form (source shard's table) nor in keyed form (exported shard's table) -/
structure NoTruncCollision (P : HashPrims) (key : Hash) (m : Mem) (q0 : Hash) : Prop where
  raw : ∀ X ∈ m.cas, ∀ ch ∈ X.chunks, trunc ch.hash = trunc q0 → ch.hash = q0
  keyed : ∀ X ∈ m.cas, ∀ ch ∈ X.chunks, trunc (keyedHash P key ch.hash) = trunc (keyedHash P key q0) → ch.hash = q0

/-- the hash `h` is recorded at one chunk position of the content at most -/
def NoDuplicateChunk (m : Mem) (h : Hash) : Prop := UniquePos m.cas h

instance (m : Mem) (h : Hash) : Decidable (NoDuplicateChunk m h) := by unfold NoDuplicateChunk; infer_instance

/-- the keyed form separates the shard's chunk hashes from the query hashes `qs` (collision-extraction form: a
    counterexample is a pair of distinct hashes with equal HMAC under `key`) -/
def KeyedInjOn (P : HashPrims) (key : Hash) (m : Mem) (qs : List Hash) : Prop :=
  ∀ X ∈ m.cas, ∀ ch ∈ X.chunks, ∀ qh ∈ qs, keyedHash P key ch.hash = keyedHash P key qh → ch.hash = qh

instance (P : HashPrims) (key : Hash) (m : Mem) (qs : List Hash) : Decidable (KeyedInjOn P key m qs) := by
  unfold KeyedInjOn; infer_instance

theorem keyedCas_getElem_hash (P : HashPrims) (key : Hash) (X : CasInfo) (j : Nat) (hj : j < X.chunks.length)
    (hj' : j < (keyCas P key X).chunks.length) :
    ((keyCas P key X).chunks[j]).hash = keyedHash P key X.chunks[j].hash := by
  simp [keyCas]

theorem dedup_preserved (P : HashPrims) (m : Mem) (t : List (Nat × Nat × Nat)) (w : m.WF) (ht : LegalChunkTable m t)
    (key : Hash) (now validFor : Nat) (f c : Bool) (q0 : Hash) (qs : List Hash)
    (hc : NoTruncCollision P key m q0) (hu : NoDuplicateChunk m q0) (hi : KeyedInjOn P key m qs) :
    dedupQuery P (exportSpec P m key now validFor f c true).bytes (exportSpec P m key now validFor f c true).footer (q0 :: qs)
        (searchSpec ((sortByKey (casSection 0 (keyedCas P key m.cas)).chunkLookup).map fun e => (e.1, (e.2.1, e.2.2)))
          (trunc (keyedHash P key q0)) maxCollisions) =
    dedupQuery P (serialize m t).bytes (serialize m t).footer (q0 :: qs)
        (searchSpec (t.map fun e => (e.1, (e.2.1, e.2.2))) (trunc q0) maxCollisions) := by
  have S := casShard_serialize m t w ht
  have E := casShard_exportSpec P m key now validFor f c w
  have hz : keyedHash P (serialize m t).footer.hmacKey = id := keyedHash_zero P
  have hk : (exportSpec P m key now validFor f c true).footer.hmacKey = key := rfl
  -- keyed facts about the export's blocks, from the hypotheses on the source
  have hcolE : ∀ Y ∈ keyedCas P key m.cas, ∀ ch ∈ Y.chunks,
      trunc ch.hash = trunc (keyedHash P key q0) → ch.hash = keyedHash P key q0 := by
    intro Y' hY' ch' hch' htr
    obtain ⟨Y, hY, _, g⟩ := keyedCas_chunk_hash P key m.cas Y' hY'
    obtain ⟨ch, hch, e⟩ := g ch' hch'
    rw [e] at htr ⊢
    rw [hc.keyed Y hY ch hch htr]
  by_cases hex : ∃ X ∈ m.cas, ∃ j, ∃ hj : j < X.chunks.length, X.chunks[j].hash = q0
  · obtain ⟨X, hX, j, hj, hh⟩ := hex
    have h1 := CasShard.dedup_present P S q0 qs X hX j hj (by rw [hz]; exact hh) (by rw [hz]; exact hc.raw)
      (by rw [hz]; exact hu)
    rw [hz] at h1
    simp only [id] at h1
    have hX' : keyCas P key X ∈ keyedCas P key m.cas := List.mem_map.mpr ⟨X, hX, rfl⟩
    have hj' : j < (keyCas P key X).chunks.length := by simpa using hj
    have huE : UniquePos (keyedCas P key m.cas) (keyedHash P key q0) := by
      intro Y1' hY1 Y2' hY2 i1 hi1 i2 hi2 e1 e2
      obtain ⟨Y1, hY1m, rfl⟩ := List.mem_map.mp hY1
      obtain ⟨Y2, hY2m, rfl⟩ := List.mem_map.mp hY2
      have hi1' : i1 < Y1.chunks.length := by simpa using hi1
      have hi2' : i2 < Y2.chunks.length := by simpa using hi2
      rw [keyedCas_getElem_hash P key Y1 i1 hi1' hi1] at e1
      rw [keyedCas_getElem_hash P key Y2 i2 hi2' hi2] at e2
      have a1 := hc.keyed Y1 hY1m _ (List.getElem_mem hi1') (by rw [e1])
      have a2 := hc.keyed Y2 hY2m _ (List.getElem_mem hi2') (by rw [e2])
      obtain ⟨rfl, rfl⟩ := hu Y1 hY1m Y2 hY2m i1 hi1' i2 hi2' a1 a2
      exact ⟨rfl, rfl⟩
    have h2 := CasShard.dedup_present P E q0 qs (keyCas P key X) hX' j hj'
      (by rw [hk, keyedCas_getElem_hash P key X j hj hj', hh]) (by rw [hk]; exact hcolE) (by rw [hk]; exact huE)
    rw [hk] at h2
    rw [h1, h2, directSpec_keyed P key X j (q0 :: qs)]
    intro ch hch qh hqh e
    rcases List.mem_cons.mp hqh with rfl | hqs
    · exact hc.keyed X hX ch hch (by rw [e])
    · exact hi X hX ch hch qh hqs e
  · have hno : ∀ Y ∈ m.cas, ∀ ch ∈ Y.chunks, ch.hash ≠ q0 := by
      intro Y hY ch hch e
      obtain ⟨j, hj, rfl⟩ := List.getElem_of_mem hch
      exact hex ⟨Y, hY, j, hj, e⟩
    have h1 := CasShard.dedup_absent P S q0 qs (by rw [hz]; exact hno) (by rw [hz]; exact hc.raw)
    rw [hz] at h1
    simp only [id] at h1
    have hnoE : ∀ Y ∈ keyedCas P key m.cas, ∀ ch ∈ Y.chunks, ch.hash ≠ keyedHash P key q0 := by
      intro Y' hY' ch' hch' e
      obtain ⟨Y, hY, _, g⟩ := keyedCas_chunk_hash P key m.cas Y' hY'
      obtain ⟨ch, hch, e'⟩ := g ch' hch'
      rw [e'] at e
      exact hno Y hY ch hch (hc.keyed Y hY ch hch (by rw [e]))
    have h2 := CasShard.dedup_absent P E q0 qs (by rw [hk]; exact hnoE) (by rw [hk]; exact hcolE)
    rw [hk] at h2
    rw [h1, h2]

/-- without the chunk table the shard-level query has nothing to search: it answers not-found (the shard manager
    rebuilds the table by scanning the CAS section — not modelled here) -/
theorem dedupQuery_exportSpec_no_table (P : HashPrims) (m : Mem) (key : Hash) (now validFor : Nat) (f c : Bool)
    (q : List Hash) (cands : List (Nat × Nat)) :
    dedupQuery P (exportSpec P m key now validFor f c false).bytes (exportSpec P m key now validFor f c false).footer q cands
      = .ok none := by
  have : (exportSpec P m key now validFor f c false).footer.chunkLookupNum = 0 := rfl
  simp [dedupQuery, this]

/-- an answer on the export names a keyed block and is truthful for it under the export's key -/
theorem dedupQuery_exportSpec_truthful (P : HashPrims) (m : Mem) (key : Hash) (now validFor : Nat) (f c k : Bool) (w : m.WF)
    (q : List Hash) (cands : List (Nat × Nat))
    (hc : ∀ cc ∈ cands, ∃ kk, (kk, cc.1, cc.2) ∈ (casSection 0 (keyedCas P key m.cas)).chunkLookup) (a : DedupAnswer)
    (h : dedupQuery P (exportSpec P m key now validFor f c k).bytes (exportSpec P m key now validFor f c k).footer q cands
      = .ok (some a)) :
    ∃ X ∈ m.cas, Truthful (keyedHash P key) (keyCas P key X).chunks X.hash q a := by
  obtain ⟨cc, hcc, hd⟩ := dedupQuery_some P _ _ q cands a h
  obtain ⟨kk, hkk⟩ := hc cc hcc
  have hAt : At (exportSpec P m key now validFor f c k).bytes
      ((exportSpec P m key now validFor f c k).footer.casInfoOff + recSize * 0) (casSection 0 (keyedCas P key m.cas)).bytes := by
    have := (exportSpec_layout P m key now validFor f c k).cas.left
    rw [Nat.mul_zero, Nat.add_zero]
    exact this
  obtain ⟨X', hX', g1, g2, _⟩ := casSection_entry _ _ 0 hAt _ hkk
  obtain ⟨X, hX, rfl⟩ := List.mem_map.mp hX'
  have := truthful_of_direct P _ _ q cc.1 cc.2 a _ g1 (keyCas_WF P key X (w.2.2.2.1 X hX)) g2
    (dedupDirect_truthful P _ _ q _ _ a hd)
  exact ⟨X, hX, this⟩

end Xet.Shard
