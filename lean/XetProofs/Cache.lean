/-
Helper lemmas for the chunk-cache model (`XetModel/Cache.lean`): accounting of the lock-protected
sections, preservation of state invariants by every step of the concurrent semantics.
Core only.
-/
import XetModel.Cache

namespace Xet.Cache

/-! ### sums over association lists -/

theorem sumLen_append (a b : List Cell) : sumLen (a ++ b) = sumLen a + sumLen b := by
  induction a with
  | nil => simp [sumLen]
  | cons c cs ih => simp [sumLen, ih]; omega

theorem getK_nil (k : Key) : getK [] k = [] := rfl

theorem cnt_setK (m : Items) (k : Key) (v : List Cell) :
    cnt (setK m k v) + (getK m k).length = cnt m + v.length := by
  induction m with
  | nil => simp [setK, cnt, getK, lookupK]
  | cons e rest ih =>
    obtain ⟨q, w⟩ := e
    by_cases h : q = k
    · simp [setK, cnt, getK, lookupK, h]; omega
    · have ih' := ih
      simp only [getK] at ih'
      simp [setK, cnt, getK, lookupK, h]; omega

theorem byt_setK (m : Items) (k : Key) (v : List Cell) :
    byt (setK m k v) + sumLen (getK m k) = byt m + sumLen v := by
  induction m with
  | nil => simp [setK, byt, getK, lookupK, sumLen]
  | cons e rest ih =>
    obtain ⟨q, w⟩ := e
    by_cases h : q = k
    · simp [setK, byt, getK, lookupK, h]; omega
    · have ih' := ih
      simp only [getK] at ih'
      simp [setK, byt, getK, lookupK, h]; omega

theorem cnt_eraseK (m : Items) (k : Key) :
    cnt (eraseK m k) + (getK m k).length = cnt m := by
  induction m with
  | nil => simp [eraseK, cnt, getK, lookupK]
  | cons e rest ih =>
    obtain ⟨q, w⟩ := e
    by_cases h : q = k
    · simp [eraseK, cnt, getK, lookupK, h]; omega
    · have ih' := ih
      simp only [getK] at ih'
      simp [eraseK, cnt, getK, lookupK, h]; omega

theorem byt_eraseK (m : Items) (k : Key) :
    byt (eraseK m k) + sumLen (getK m k) = byt m := by
  induction m with
  | nil => simp [eraseK, byt, getK, lookupK, sumLen]
  | cons e rest ih =>
    obtain ⟨q, w⟩ := e
    by_cases h : q = k
    · simp [eraseK, byt, getK, lookupK, h]; omega
    · have ih' := ih
      simp only [getK] at ih'
      simp [eraseK, byt, getK, lookupK, h]; omega

theorem getK_of_lookup {m : Items} {k : Key} {v : List Cell} (h : lookupK m k = some v) : getK m k = v := by
  simp [getK, h]

/-! ### `swap_remove`, `remove` -/

theorem sumLen_set (l : List Cell) (i : Nat) (z : Cell) (h : i < l.length) :
    sumLen (l.set i z) + (l[i]).item.len.toNat = sumLen l + z.item.len.toNat := by
  induction l generalizing i with
  | nil => simp at h
  | cons c cs ih =>
    cases i with
    | zero => simp [sumLen]; omega
    | succ j =>
      have := ih j (by simpa using h)
      simp [sumLen]; omega

theorem swapRemove_spec (l : List Cell) (i : Nat) (h : i < l.length) :
    (swapRemove l i).length + 1 = l.length ∧
    sumLen (swapRemove l i) + (l[i]).item.len.toNat = sumLen l := by
  have hne : l ≠ [] := by intro e; simp [e] at h
  obtain ⟨ys, z, rfl⟩ : ∃ ys z, l = ys ++ [z] := ⟨l.dropLast, l.getLast hne, (List.dropLast_concat_getLast hne).symm⟩
  have hl : (ys ++ [z]).getLast? = some z := by simp
  unfold swapRemove
  rw [hl]
  simp only [List.dropLast_concat]
  by_cases hi : i < ys.length
  · have := sumLen_set ys i z hi
    have e : (ys ++ [z])[i] = ys[i] := by simp [List.getElem_append_left hi]
    rw [e]
    simp [sumLen_append, sumLen]
    omega
  · have hi' : i = ys.length := by simp at h; omega
    subst hi'
    rw [List.set_eq_of_length_le (Nat.le_refl _)]
    simp [sumLen_append, sumLen]

theorem mem_of_mem_set {l : List Cell} {i : Nat} {z c : Cell} (h : c ∈ l.set i z) : c ∈ l ∨ c = z := by
  induction l generalizing i with
  | nil => simp at h
  | cons x xs ih =>
    cases i with
    | zero => simp at h; rcases h with h | h <;> simp [h]
    | succ j =>
      simp at h
      rcases h with h | h
      · simp [h]
      · rcases ih h with h | h <;> simp [h]

theorem mem_swapRemove {l : List Cell} {i : Nat} {c : Cell} (h : c ∈ swapRemove l i) : c ∈ l := by
  unfold swapRemove at h
  cases hl : l.getLast? with
  | none => simp [hl] at h
  | some z =>
    simp only [hl] at h
    rcases mem_of_mem_set h with h | h
    · exact List.dropLast_subset _ h
    · subst h; exact List.mem_of_getLast? hl

theorem sumLen_eraseIdx (l : List Cell) (i : Nat) (h : i < l.length) :
    sumLen (l.eraseIdx i) + (l[i]).item.len.toNat = sumLen l := by
  induction l generalizing i with
  | nil => simp at h
  | cons c cs ih =>
    cases i with
    | zero => simp [sumLen]; omega
    | succ j =>
      have := ih j (by simpa using h)
      simp [sumLen]; omega


/-! ### removal of the subsumed entries -/

/-- indices valid for successive `swap_remove`s: strictly decreasing, the first one below `n` -/
def DescBelow : Nat → List Nat → Prop
  | _, [] => True
  | n, i :: rest => i < n ∧ DescBelow i rest

theorem DescBelow.mono {n m : Nat} {is : List Nat} (h : DescBelow n is) (hm : n ≤ m) : DescBelow m is := by
  cases is with
  | nil => trivial
  | cons i rest => exact ⟨Nat.lt_of_lt_of_le h.1 hm, h.2⟩

theorem subsumedIdx_bounds (new : Item) (i : Nat) (cs : List Cell) :
    ∀ x ∈ subsumedIdx new i cs, i ≤ x ∧ x < i + cs.length := by
  induction cs generalizing i with
  | nil => simp [subsumedIdx]
  | cons c cs ih =>
    intro x hx
    unfold subsumedIdx at hx
    split at hx
    · simp at hx
      rcases hx with rfl | hx
      · simp
      · have := ih (i + 1) x hx; simp; omega
    · have := ih (i + 1) x hx; simp; omega

theorem subsumedIdx_sorted (new : Item) (i : Nat) (cs : List Cell) :
    (subsumedIdx new i cs).Pairwise (· < ·) := by
  induction cs generalizing i with
  | nil => simp [subsumedIdx]
  | cons c cs ih =>
    unfold subsumedIdx
    split
    · rw [List.pairwise_cons]
      refine ⟨?_, ih (i + 1)⟩
      intro x hx
      have := subsumedIdx_bounds new (i + 1) cs x hx
      omega
    · exact ih (i + 1)

theorem descBelow_of_pairwise (l : List Nat) (n : Nat) (hp : l.Pairwise (fun a b => b < a))
    (hb : ∀ x ∈ l, x < n) : DescBelow n l := by
  induction l generalizing n with
  | nil => trivial
  | cons a l ih =>
    rw [List.pairwise_cons] at hp
    exact ⟨hb a (by simp), ih a hp.2 (fun x hx => hp.1 x hx)⟩

theorem subsumedIdx_desc (new : Item) (cs : List Cell) :
    DescBelow cs.length (subsumedIdx new 0 cs).reverse := by
  apply descBelow_of_pairwise
  · rw [List.pairwise_reverse]
    exact subsumedIdx_sorted new 0 cs
  · intro x hx
    have := subsumedIdx_bounds new 0 cs x (by simpa using hx)
    omega

theorem rmStep_spec (fixed : Bool) (new : Item) (acc : RmAcc) (i : Nat) (h : i < acc.cells.length) :
    (rmStep fixed new acc i).cells = swapRemove acc.cells i ∧
    (rmStep fixed new acc i).bytesRm ≤ acc.bytesRm + (acc.cells[i]).item.len.toNat ∧
    (fixed = true → (rmStep fixed new acc i).bytesRm = acc.bytesRm + (acc.cells[i]).item.len.toNat) := by
  unfold rmStep
  rw [List.getElem?_eq_getElem h]
  simp only
  split
  · simp
  · split
    · simp
    · rename_i hf; simp [hf]

theorem rmFold_spec (fixed : Bool) (new : Item) : ∀ (is : List Nat) (acc : RmAcc),
    DescBelow acc.cells.length is →
    (is.foldl (rmStep fixed new) acc).cells.length + is.length = acc.cells.length ∧
    sumLen (is.foldl (rmStep fixed new) acc).cells + (is.foldl (rmStep fixed new) acc).bytesRm
      ≤ sumLen acc.cells + acc.bytesRm ∧
    (fixed = true →
      sumLen (is.foldl (rmStep fixed new) acc).cells + (is.foldl (rmStep fixed new) acc).bytesRm
        = sumLen acc.cells + acc.bytesRm) ∧
    (∀ c ∈ (is.foldl (rmStep fixed new) acc).cells, c ∈ acc.cells) := by
  intro is
  induction is with
  | nil => intro acc _; simp
  | cons i rest ih =>
    intro acc hd
    obtain ⟨hi, hrest⟩ := hd
    obtain ⟨hc, hb, hf⟩ := rmStep_spec fixed new acc i hi
    obtain ⟨hl, hs⟩ := swapRemove_spec acc.cells i hi
    have hd' : DescBelow (rmStep fixed new acc i).cells.length rest := by
      rw [hc]; exact hrest.mono (by omega)
    obtain ⟨h1, h2, h3, h4⟩ := ih (rmStep fixed new acc i) hd'
    simp only [List.foldl_cons, List.length_cons]
    rw [hc] at h1 h2 h3 h4
    refine ⟨by omega, by omega, ?_, ?_⟩
    · intro hfx
      have := h3 hfx
      have := hf hfx
      omega
    · intro c hcm
      exact mem_swapRemove (h4 c hcm)

theorem removeSubsumed_spec (fixed : Bool) (new : Item) (cells : List Cell) :
    (removeSubsumed fixed new cells).cells.length + (subsumedIdx new 0 cells).length = cells.length ∧
    sumLen (removeSubsumed fixed new cells).cells + (removeSubsumed fixed new cells).bytesRm ≤ sumLen cells ∧
    (fixed = true →
      sumLen (removeSubsumed fixed new cells).cells + (removeSubsumed fixed new cells).bytesRm = sumLen cells) ∧
    (∀ c ∈ (removeSubsumed fixed new cells).cells, c ∈ cells) := by
  have := rmFold_spec fixed new (subsumedIdx new 0 cells).reverse ⟨cells, 0, []⟩ (subsumedIdx_desc new cells)
  simpa [removeSubsumed] using this

/-! ### the accounting invariants -/

/-- the counters are exact -/
def Exact (st : CState) : Prop := st.numItems = cnt st.items ∧ st.totalBytes = byt st.items

/-- what the code as it is (before the F10 fix) maintains: the item count is exact, the byte
    total is never too small -/
def Weak (st : CState) : Prop := st.numItems = cnt st.items ∧ byt st.items ≤ st.totalBytes

theorem Exact.weak {st : CState} (h : Exact st) : Weak st := ⟨h.1, Nat.le_of_eq h.2.symm⟩

theorem sumLen_le_byt {m : Items} {k : Key} {v : List Cell} (h : lookupK m k = some v) : sumLen v ≤ byt m := by
  induction m with
  | nil => simp [lookupK] at h
  | cons e rest ih =>
    obtain ⟨q, w⟩ := e
    by_cases hq : q = k
    · simp [lookupK, hq] at h; subst h; simp [byt]
    · simp [lookupK, hq] at h; have := ih h; simp [byt]; omega

theorem len_le_sumLen {l : List Cell} {i : Nat} {c : Cell} (h : l[i]? = some c) : c.item.len.toNat ≤ sumLen l := by
  induction l generalizing i with
  | nil => simp at h
  | cons x xs ih =>
    cases i with
    | zero => simp at h; subst h; simp [sumLen]
    | succ j => simp at h; have := ih h; simp [sumLen]; omega

theorem byt_eq_zero_of_cnt {m : Items} (h : cnt m = 0) : byt m = 0 := by
  induction m with
  | nil => rfl
  | cons e rest ih =>
    obtain ⟨q, w⟩ := e
    simp [cnt] at h
    obtain ⟨hw, hr⟩ := h
    subst hw
    simp [byt, sumLen, ih hr]

/-! ### eviction loop -/

/-- effect on the sums of dropping entry `i` of key `k` -/
theorem evict_sums {m : Items} {k : Key} {cells : List Cell} {i : Nat} {c : Cell}
    (hk : lookupK m k = some cells) (hc : cells[i]? = some c) :
    cnt (if (cells.eraseIdx i).isEmpty then eraseK m k else setK m k (cells.eraseIdx i)) + 1 = cnt m ∧
    byt (if (cells.eraseIdx i).isEmpty then eraseK m k else setK m k (cells.eraseIdx i)) + c.item.len.toNat = byt m := by
  have hi : i < cells.length := by
    rcases Nat.lt_or_ge i cells.length with h | h
    · exact h
    · rw [List.getElem?_eq_none h] at hc; cases hc
  have hci : cells[i] = c := by
    rw [List.getElem?_eq_getElem hi] at hc; exact Option.some.inj hc
  have hg := getK_of_lookup hk
  have hs := sumLen_eraseIdx cells i hi
  have hl : (cells.eraseIdx i).length + 1 = cells.length := by
    rw [List.length_eraseIdx]; simp [hi]; omega
  rw [hci] at hs
  split
  · rename_i he
    have he' : cells.eraseIdx i = [] := by simpa using he
    have h1 := cnt_eraseK m k
    have h2 := byt_eraseK m k
    rw [hg] at h1 h2
    rw [he'] at hs hl
    simp [sumLen] at hs hl
    omega
  · have h1 := cnt_setK m k (cells.eraseIdx i)
    have h2 := byt_setK m k (cells.eraseIdx i)
    rw [hg] at h1 h2
    omega

/-- postcondition of the eviction loop started in `st` with `removed` bytes already removed -/
def EvPost (toRemove : Int) (st : CState) (removed : Int) : Locked EvOut → Prop
  | .ok out =>
      Weak out.st ∧ (Exact st → Exact out.st) ∧
      out.st.verified = st.verified ∧ out.st.nextId = st.nextId ∧
      ∃ rf : Int, (out.st.totalBytes : Int) + rf = (st.totalBytes : Int) + removed ∧
        (toRemove ≤ rf ∨ out.st.numItems = 0 ∨ cnt out.st.items = 0)
  | .illegal => True
  | .panic => False

/-- the eviction loop keeps `Weak` and `Exact`, never underflows when `Weak` holds, and stops
    only when enough bytes are gone or nothing is left -/
theorem evictLoop_spec (toRemove : Int) : ∀ (choices : List EvChoice) (st : CState) (removed : Int)
    (acc : List (Key × Item)), Weak st →
    EvPost toRemove st removed (evictLoop toRemove st removed choices acc) := by
  intro choices
  induction choices with
  | nil =>
    intro st removed acc hw
    unfold evictLoop
    by_cases hcond : toRemove > removed ∧ st.numItems ≠ 0 ∧ cnt st.items ≠ 0
    · rw [if_pos hcond]; trivial
    · rw [if_neg hcond]
      refine ⟨hw, fun h => h, rfl, rfl, removed, rfl, ?_⟩
      by_cases h1 : toRemove > removed
      · by_cases h2 : st.numItems = 0
        · exact Or.inr (Or.inl h2)
        · by_cases h3 : cnt st.items = 0
          · exact Or.inr (Or.inr h3)
          · exact absurd ⟨h1, h2, h3⟩ hcond
      · exact Or.inl (by omega)
  | cons ch rest ih =>
    intro st removed acc hw
    obtain ⟨k, i⟩ := ch
    unfold evictLoop
    by_cases hcond : ¬ (toRemove > removed) ∨ st.numItems = 0
    · rw [if_pos hcond]; trivial
    · rw [if_neg hcond]
      cases hk : lookupK st.items k with
      | none => exact True.intro
      | some cells =>
        dsimp only
        cases hc : cells[i]? with
        | none => exact True.intro
        | some c =>
          dsimp only
          have hle : c.item.len.toNat ≤ st.totalBytes := by
            have := len_le_sumLen hc
            have := sumLen_le_byt hk
            have := hw.2
            omega
          obtain ⟨e1, e2⟩ := evict_sums hk hc
          have hn : st.numItems ≠ 0 := by intro h; exact hcond (Or.inr h)
          have hw' : Weak { st with
              items := (if (cells.eraseIdx i).isEmpty then eraseK st.items k else setK st.items k (cells.eraseIdx i)),
              totalBytes := st.totalBytes - c.item.len.toNat, numItems := st.numItems - 1 } := by
            constructor
            · simp only; have := hw.1; omega
            · simp only; have := hw.2; omega
          have := ih _ (removed + c.item.len.toNat) ((k, c.item) :: acc) hw'
          show EvPost toRemove st removed
            (if st.totalBytes < c.item.len.toNat then Locked.panic
             else evictLoop toRemove { st with
              items := (if (cells.eraseIdx i).isEmpty then eraseK st.items k else setK st.items k (cells.eraseIdx i)),
              totalBytes := st.totalBytes - c.item.len.toNat, numItems := st.numItems - 1 }
              (removed + c.item.len.toNat) rest ((k, c.item) :: acc))
          rw [if_neg (show ¬ st.totalBytes < c.item.len.toNat by omega)]
          revert this
          generalize evictLoop toRemove _ (removed + c.item.len.toNat) rest ((k, c.item) :: acc) = res
          cases res with
          | illegal => intro _; exact True.intro
          | panic => intro h; exact h
          | ok out =>
            intro ⟨a, b, cv, cn, rf, hrf, hstop⟩
            refine ⟨a, ?_, cv, cn, rf, ?_, hstop⟩
            · intro hex
              apply b
              constructor
              · simp only; have := hex.1; omega
              · simp only; have := hex.2; omega
            · simp only at hrf; omega

/-! ### commit section and `remove_item` -/

theorem getK_length_le_cnt (m : Items) (k : Key) : (getK m k).length ≤ cnt m := by
  have := cnt_setK m k []; simp at this; omega

theorem getK_sumLen_le_byt (m : Items) (k : Key) : sumLen (getK m k) ≤ byt m := by
  have := byt_setK m k []; simp [sumLen] at this; omega

theorem addItem_weak {st : CState} (k : Key) (it : Item) (h : Weak st) : Weak (addItem st k it) := by
  have h1 := cnt_setK st.items k (getK st.items k ++ [⟨it, st.nextId⟩])
  have h2 := byt_setK st.items k (getK st.items k ++ [⟨it, st.nextId⟩])
  simp [sumLen_append, sumLen] at h1 h2
  constructor
  · simp only [addItem]; have := h.1; omega
  · simp only [addItem]; have := h.2; omega

theorem addItem_exact {st : CState} (k : Key) (it : Item) (h : Exact st) : Exact (addItem st k it) := by
  have h1 := cnt_setK st.items k (getK st.items k ++ [⟨it, st.nextId⟩])
  have h2 := byt_setK st.items k (getK st.items k ++ [⟨it, st.nextId⟩])
  simp [sumLen_append, sumLen] at h1 h2
  constructor
  · simp only [addItem]; have := h.1; omega
  · simp only [addItem]; have := h.2; omega

/-- postcondition of the commit section started in `st` -/
def CommitPost (fixed : Bool) (cap : Nat) (st : CState) (it : Item) : Locked CommitOut → Prop
  | .ok out =>
      Weak out.st ∧
      (fixed = true → Exact st → Exact out.st ∧ (it.len.toNat ≤ cap → out.st.totalBytes ≤ cap))
  | .illegal => True
  | .panic => False

theorem commit_spec (fixed : Bool) (cap : Nat) (st : CState) (k : Key) (it : Item) (choices : List EvChoice)
    (hw : Weak st) : CommitPost fixed cap st it (commit fixed cap st k it choices) := by
  obtain ⟨r1, r2, r3, _⟩ := removeSubsumed_spec fixed it (getK st.items k)
  have g1 := getK_length_le_cnt st.items k
  have g2 := getK_sumLen_le_byt st.items k
  have c1 := cnt_setK st.items k (removeSubsumed fixed it (getK st.items k)).cells
  have c2 := byt_setK st.items k (removeSubsumed fixed it (getK st.items k)).cells
  have hw1 : Weak (afterRemove st k (removeSubsumed fixed it (getK st.items k))
      (subsumedIdx it 0 (getK st.items k)).length) := by
    constructor
    · simp only [afterRemove]; have := hw.1; omega
    · simp only [afterRemove]; have := hw.2; omega
  have hex1 : fixed = true → Exact st → Exact (afterRemove st k (removeSubsumed fixed it (getK st.items k))
      (subsumedIdx it 0 (getK st.items k)).length) := by
    intro hf hex
    have := r3 hf
    constructor
    · simp only [afterRemove]; have := hex.1; omega
    · simp only [afterRemove]; have := hex.2; omega
  unfold commit
  dsimp only
  rw [if_neg (by have := hw.1; have := hw.2; omega)]
  have hev := evictLoop_spec
    (((afterRemove st k (removeSubsumed fixed it (getK st.items k))
        (subsumedIdx it 0 (getK st.items k)).length).totalBytes : Int) - (cap : Int) + (it.len.toNat : Int))
    choices _ 0 [] hw1
  revert hev
  generalize evictLoop _ _ 0 choices [] = res
  cases res with
  | illegal => intro _; exact True.intro
  | panic => intro h; exact h
  | ok out =>
    intro ⟨a, b, _, _, rf, hrf, hstop⟩
    refine ⟨addItem_weak k it a, ?_⟩
    intro hf hex
    have hex2 := b (hex1 hf hex)
    refine ⟨addItem_exact k it hex2, ?_⟩
    intro hcap
    simp only [addItem]
    rcases hstop with h | h | h
    · omega
    · have h0 : cnt out.st.items = 0 := by have := hex2.1; omega
      have := byt_eq_zero_of_cnt h0
      have := hex2.2
      omega
    · have := byt_eq_zero_of_cnt h
      have := hex2.2
      omega

theorem lookup_indexOf {cells : List Cell} {it : Item} {i : Nat} (h : indexOfItem cells it = some i) :
    ∃ c, cells[i]? = some c ∧ c.item = it := by
  induction cells generalizing i with
  | nil => simp [indexOfItem] at h
  | cons x xs ih =>
    unfold indexOfItem at h
    split at h
    · rename_i hx
      simp at h; subst h
      exact ⟨x, by simp, hx⟩
    · cases hj : indexOfItem xs it with
      | none => simp [hj] at h
      | some j =>
        simp [hj] at h; subst h
        obtain ⟨c, h1, h2⟩ := ih hj
        exact ⟨c, by simpa using h1, h2⟩

/-- effect on the sums of `swap_remove` of entry `i` of key `k` -/
theorem swapRemove_sums {m : Items} {k : Key} {cells : List Cell} {i : Nat} {c : Cell}
    (hk : lookupK m k = some cells) (hc : cells[i]? = some c) :
    cnt (if (swapRemove cells i).isEmpty then eraseK m k else setK m k (swapRemove cells i)) + 1 = cnt m ∧
    byt (if (swapRemove cells i).isEmpty then eraseK m k else setK m k (swapRemove cells i)) + c.item.len.toNat = byt m := by
  have hi : i < cells.length := by
    rcases Nat.lt_or_ge i cells.length with h | h
    · exact h
    · rw [List.getElem?_eq_none h] at hc; cases hc
  have hci : cells[i] = c := by
    rw [List.getElem?_eq_getElem hi] at hc; exact Option.some.inj hc
  have hg := getK_of_lookup hk
  obtain ⟨hl, hs⟩ := swapRemove_spec cells i hi
  rw [hci] at hs
  split
  · rename_i he
    have he' : swapRemove cells i = [] := by simpa using he
    have h1 := cnt_eraseK m k
    have h2 := byt_eraseK m k
    rw [hg] at h1 h2
    rw [he'] at hs hl
    simp [sumLen] at hs hl
    omega
  · have h1 := cnt_setK m k (swapRemove cells i)
    have h2 := byt_setK m k (swapRemove cells i)
    rw [hg] at h1 h2
    omega

/-- postcondition of the state part of `remove_item` -/
def RemovePost (st : CState) : Locked (Option CState) → Prop
  | .ok (some st') => Weak st' ∧ (Exact st → Exact st') ∧ st'.totalBytes ≤ st.totalBytes
  | .ok none => True
  | .illegal => False
  | .panic => False

theorem removeItemLocked_spec (st : CState) (k : Key) (it : Item) (hw : Weak st) :
    RemovePost st (removeItemLocked st k it) := by
  unfold removeItemLocked
  cases hk : lookupK st.items k with
  | none => exact ⟨hw, fun h => h, Nat.le_refl _⟩
  | some cells =>
    dsimp only
    cases hi : indexOfItem cells it with
    | none => exact True.intro
    | some i =>
      dsimp only
      obtain ⟨c, hc, hci⟩ := lookup_indexOf hi
      obtain ⟨e1, e2⟩ := swapRemove_sums hk hc
      have hle : it.len.toNat ≤ st.totalBytes := by
        have := len_le_sumLen hc
        have := sumLen_le_byt hk
        have := hw.2
        rw [hci] at *
        omega
      have hn : 1 ≤ st.numItems := by have := hw.1; omega
      rw [if_neg (by omega)]
      rw [hci] at e2
      refine ⟨⟨?_, ?_⟩, ?_, ?_⟩
      · simp only; have := hw.1; omega
      · simp only; have := hw.2; omega
      · intro hex
        constructor
        · simp only; have := hex.1; omega
        · simp only; have := hex.2; omega
      · simp only; omega

/-! ### every step of the concurrent semantics preserves the accounting invariants -/

/-- `st'` is reached from `st` by steps of the variant `fixed` -/
def Pres (fixed : Bool) (st st' : CState) : Prop :=
  Weak st' ∧ (fixed = true → Exact st → Exact st')

theorem Pres.refl {fixed : Bool} {st : CState} (h : Weak st) : Pres fixed st st := ⟨h, fun _ h => h⟩

theorem Pres.trans {fixed : Bool} {a b c : CState} (h1 : Pres fixed a b) (h2 : Pres fixed b c) : Pres fixed a c :=
  ⟨h2.1, fun hf hex => h2.2 hf (h1.2 hf hex)⟩

theorem findSeg_w (w : World) (op : Op) : (findSeg w op).w = w := by
  unfold findSeg
  split
  · rfl
  · split <;> rfl

theorem unlinkNext_w (w : World) (k : Key) (sub : List Item) (ev : List (Key × Item)) :
    (unlinkNext w k sub ev).w = w := by
  unfold unlinkNext; split <;> rfl

theorem markVerified_acct (w : World) (cid : Nat) :
    (markVerified w cid).st.items = w.st.items ∧ (markVerified w cid).st.numItems = w.st.numItems ∧
    (markVerified w cid).st.totalBytes = w.st.totalBytes := by
  unfold markVerified; split <;> simp

theorem markVerified_pres (fixed : Bool) (w : World) (cid : Nat) (hw : Weak w.st) :
    Pres fixed w.st (markVerified w cid).st := by
  obtain ⟨a, b, c⟩ := markVerified_acct w cid
  refine ⟨⟨?_, ?_⟩, fun _ hex => ⟨?_, ?_⟩⟩
  · rw [a, b]; exact hw.1
  · rw [a, c]; exact hw.2
  · rw [a, b]; exact hex.1
  · rw [a, c]; exact hex.2

theorem removeSeg_pres (fixed : Bool) (w : World) (op : Op) (it : Item) (hw : Weak w.st) :
    Pres fixed w.st (removeSeg w op it).w.st := by
  unfold removeSeg
  split
  · exact Pres.refl hw
  · have := removeItemLocked_spec w.st op.key it hw
    revert this
    generalize removeItemLocked w.st op.key it = res
    intro h
    match res, h with
    | .ok none, _ => simp only [findSeg_w]; exact Pres.refl hw
    | .ok (some st'), h => exact ⟨h.1, fun _ hex => h.2.1 hex⟩

theorem getMatchedSeg_pres (crc : Bytes → UInt32) (fixed : Bool) (w : World) (op : Op) (c : Cell) (hw : Weak w.st) :
    Pres fixed w.st (getMatchedSeg crc w op c).w.st := by
  unfold getMatchedSeg
  split
  · exact removeSeg_pres fixed w op c.item hw
  · exact Pres.refl hw
  · split
    · exact removeSeg_pres fixed w op c.item hw
    · have hp := markVerified_pres fixed w c.cid hw
      dsimp only
      split
      · exact hp.trans (removeSeg_pres fixed _ op c.item hp.1)
      · exact hp

theorem putMatchedSeg_pres (crc : Bytes → UInt32) (fixed : Bool) (w : World) (op : Op) (offs : List Nat)
    (data : Bytes) (c : Cell) (hw : Weak w.st) :
    Pres fixed w.st (putMatchedSeg crc w op offs data c).w.st := by
  unfold putMatchedSeg
  split
  · exact removeSeg_pres fixed w op c.item hw
  · exact Pres.refl hw
  · split
    · exact removeSeg_pres fixed w op c.item hw
    · split
      · exact removeSeg_pres fixed w op c.item hw
      · split
        · exact removeSeg_pres fixed w op c.item hw
        · dsimp only
          split
          · split
            · split <;> exact Pres.refl hw
            · exact Pres.refl hw
          · exact Pres.refl hw

theorem segment_pres (crc : Bytes → UInt32) (fixed : Bool) (w : World) (pc : PC) (o : Oracle) (s : Seg)
    (hw : Weak w.st) (h : segment crc fixed w pc o = some s) : Pres fixed w.st s.w.st := by
  unfold segment at h
  split at h
  · cases h
  · cases h
  · split at h
    · cases h; exact getMatchedSeg_pres crc fixed w _ _ hw
    · cases h; exact putMatchedSeg_pres crc fixed w _ _ _ _ hw
  · split at h
    · cases h
    · dsimp only at h
      split at h
      · cases h; exact Pres.refl hw
      · cases h; exact Pres.refl hw
  · split at h
    · cases h; exact Pres.refl hw
    · rename_i k it _
      have hc := commit_spec fixed w.cap w.st k it o.evict hw
      revert hc h
      generalize commit fixed w.cap w.st k it o.evict = res
      intro h hc
      match res, hc with
      | .illegal, _ => cases h
      | .ok out, hc =>
        cases h
        rw [unlinkNext_w]
        exact ⟨hc.1, fun hf hex => (hc.2 hf hex).1⟩
  · split at h
    · cases h; rw [unlinkNext_w]; exact Pres.refl hw
    · split at h
      · cases h
      · split at h
        · cases h
        · cases h; rw [unlinkNext_w]; exact Pres.refl hw
  · cases h; rw [findSeg_w]; exact Pres.refl hw

theorem startSeg_w (w : World) (op : Op) : (startSeg w op).w = w := by
  unfold startSeg
  split
  · split
    · rfl
    · exact findSeg_w _ _
  · split
    · rfl
    · exact findSeg_w _ _

theorem step_pres (crc : Bytes → UInt32) (fixed : Bool) (w w' : World) (a : Action)
    (hw : Weak w.st) (h : step crc fixed w a = some w') : Pres fixed w.st w'.st := by
  unfold step at h
  split at h
  · split at h
    · cases h; simp only [startSeg_w]; exact Pres.refl hw
    · cases h; simp only [startSeg_w]; exact Pres.refl hw
    · cases h
  · split at h
    · cases h
    · rename_i pc _
      split at h
      · cases h
      · rename_i s hs
        cases h
        exact segment_pres crc fixed w pc _ s hw hs

theorem run_pres (crc : Bytes → UInt32) (fixed : Bool) : ∀ (as : List Action) (w w' : World),
    Weak w.st → run crc fixed w as = some w' → Pres fixed w.st w'.st := by
  intro as
  induction as with
  | nil => intro w w' hw h; simp [run] at h; subst h; exact Pres.refl hw
  | cons a as ih =>
    intro w w' hw h
    unfold run at h
    split at h
    · cases h
    · rename_i w1 h1
      have p1 := step_pres crc fixed w w1 a hw h1
      exact p1.trans (ih w1 w' p1.1 h)

end Xet.Cache
