/-
Helper lemmas for C20 (progress): a variant that every action decreases, and per-caller
deadlock-freedom in every state satisfying the invariant.
-/
import XetProofs.Singleflight

namespace Xet.Singleflight

/-! ### variant -/

def Pc.rank : Pc → Nat
  | .idle => 7
  | .looked => 4
  | .waiting => 3
  | .have => 2
  | .removed => 1
  | .done => 0

def Task.rank : Task → Nat
  | .idle => 2
  | .ran _ => 1
  | .finished _ => 0

def sumBy {α : Type} (f : α → Nat) : List α → Nat
  | [] => 0
  | a :: l => f a + sumBy f l

theorem sumBy_append {α : Type} (f : α → Nat) (l₁ l₂ : List α) :
    sumBy f (l₁ ++ l₂) = sumBy f l₁ + sumBy f l₂ := by
  induction l₁ with
  | nil => simp [sumBy]
  | cons a l ih => simp [sumBy, ih]; omega

theorem sumBy_set {α : Type} (f : α → Nat) (l : List α) (i : Nat) (x a : α) (h : l[i]? = some x) :
    sumBy f (l.set i a) + f x = sumBy f l + f a := by
  induction l generalizing i with
  | nil => simp at h
  | cons b l ih =>
    cases i with
    | zero => simp at h; subst h; simp [sumBy]; omega
    | succ i => simp at h; have := ih i h; simp [sumBy]; omega

def crank (r : CallerSt) : Nat := r.pc.rank + (if r.spawned then 0 else 1)
def trank (cl : Call) : Nat := cl.task.rank

/-- the variant: remaining protocol steps of all callers and all owner tasks -/
def measure (s : State) : Nat := sumBy crank s.callers + sumBy trank s.calls

/-- every action strictly decreases the variant (the invariant is needed only for `runTask`: the owner's
    un-spawned task is still `idle`) -/
theorem measure_step (s s' : State) (a : Action) (hi : Inv s) (h : step s a = some s') :
    measure s' < measure s := by
  cases a with
  | lookupOrCreate c =>
    simp only [step, stepLookup] at h
    split at h
    · simp at h
    · rename_i r hr
      split at h
      · simp at h
      · rename_i hpc
        simp at hpc
        split at h
        · rename_i k hk
          simp at h; subst h
          have hA := sumBy_set crank s.callers c r { r with pc := .looked, cid := k, owner := false } hr
          simp only [crank, hpc, Pc.rank] at hA
          simp only [measure]
          omega
        · simp at h; subst h
          have hA := sumBy_set crank s.callers c r
            { r with pc := .looked, cid := s.calls.length, owner := true } hr
          simp only [crank, hpc, Pc.rank] at hA
          have hB : sumBy trank (s.calls ++ [Call.new r.key c]) = sumBy trank s.calls + 2 := by
            rw [sumBy_append]; rfl
          simp only [measure, hB]
          omega
  | registerOrRead c =>
    simp only [step, stepRegister] at h
    split at h
    · simp at h
    · rename_i r hr
      split at h
      · simp at h
      · rename_i hpc
        simp at hpc
        split at h
        · simp at h
        · rename_i cl hcl
          split at h
          · rename_i o ho
            simp at h; subst h
            have hA := sumBy_set crank s.callers c r { r with pc := .have, got := .val o } hr
            simp only [crank, hpc, Pc.rank] at hA
            simp only [measure]
            omega
          · simp at h; subst h
            have hA := sumBy_set crank s.callers c r { r with pc := .waiting } hr
            have hB := sumBy_set trank s.calls r.cid cl { cl with registered := c :: cl.registered } hcl
            simp only [crank, hpc, Pc.rank] at hA
            simp only [trank] at hB
            simp only [measure]
            omega
  | runTask c o =>
    simp only [step, stepRunTask] at h
    split at h
    · simp at h
    · rename_i r hr
      split at h
      · simp at h
      · split at h
        · simp at h
        · rename_i cl hcl
          simp at h; subst h
          have hA := sumBy_set crank s.callers c r { r with spawned := true } hr
          have hB := sumBy_set trank s.calls r.cid cl
            { cl with task := .ran o, taskRuns := cl.taskRuns + 1 } hcl
          rename_i hg
          have hidle : cl.task = .idle := by
            have h1 := hi.caller c r cl hr (by grind) hcl
            have h2 := hi.call r.cid cl r hcl (by grind [CallerOk])
            grind [CallerOk, OwnerOk]
          have hsp : r.spawned = false := by grind
          simp only [crank, hsp, Bool.false_eq_true, if_false, if_true] at hA
          simp only [trank, Task.rank, hidle] at hB
          simp only [measure]
          omega
  | complete k =>
    simp only [step, stepComplete] at h
    split at h
    · simp at h
    · rename_i cl hcl
      split at h
      · rename_i v ht
        simp at h; subst h
        have hB := sumBy_set trank s.calls k cl (completeCall cl (.ok v)) hcl
        have e1 : trank (completeCall cl (.ok v)) = 0 := rfl
        have e2 : trank cl = 1 := by simp [trank, ht, Task.rank]
        rw [e1, e2] at hB
        simp only [measure]
        omega
      · rename_i v ht
        simp at h; subst h
        have hB := sumBy_set trank s.calls k cl (completeCall cl (.err v)) hcl
        have e1 : trank (completeCall cl (.err v)) = 0 := rfl
        have e2 : trank cl = 1 := by simp [trank, ht, Task.rank]
        rw [e1, e2] at hB
        simp only [measure]
        omega
      · simp at h
  | ownerPanic k =>
    simp only [step, stepOwnerPanic] at h
    split at h
    · simp at h
    · rename_i cl hcl
      split at h
      · rename_i ht
        simp at h; subst h
        have hB := sumBy_set trank s.calls k cl (completeCall cl .panic) hcl
        have e1 : trank (completeCall cl .panic) = 0 := rfl
        have e2 : trank cl = 1 := by simp [trank, ht, Task.rank]
        rw [e1, e2] at hB
        simp only [measure]
        omega
      · simp at h
  | wake c =>
    simp only [step, stepWake] at h
    split at h
    · simp at h
    · rename_i r hr
      split at h
      · simp at h
      · rename_i hpc
        simp at hpc
        split at h
        · simp at h
        · rename_i cl hcl
          split at h
          · simp at h; subst h
            have hA := sumBy_set crank s.callers c r { r with pc := .have, got := readRes cl } hr
            simp only [crank, hpc, Pc.rank] at hA
            simp only [measure]
            omega
          · simp at h
  | remove c =>
    simp only [step, stepRemove] at h
    split at h
    · simp at h
    · rename_i r hr
      split at h
      · simp at h
      · rename_i hg
        have hpc : r.pc = .have := by grind
        split at h
        · simp at h
        · rename_i cl hcl
          split at h
          · rename_i o ho
            split at h
            · simp at h; subst h
              have hA := sumBy_set crank s.callers c r { r with pc := .removed, got := .callMissing } hr
              simp only [crank, hpc, Pc.rank] at hA
              simp only [measure]
              omega
            · simp at h; subst h
              have hA := sumBy_set crank s.callers c r
                { r with pc := .removed, got := ownerResult o r.got } hr
              simp only [crank, hpc, Pc.rank] at hA
              simp only [measure]
              omega
          · simp at h
  | ret c =>
    simp only [step, stepReturn] at h
    split at h
    · simp at h
    · rename_i r hr
      split at h
      · rename_i hg
        simp at h; subst h
        have hA := sumBy_set crank s.callers c r { r with pc := .done, ret := some r.got } hr
        simp only [crank, Pc.rank] at hA
        simp only [measure]
        rcases hg with ⟨hpc, _⟩ | hpc <;> simp only [hpc] at hA <;> omega
      · simp at h


/-! ### per-caller deadlock freedom -/

theorem exists_getElem?_of_lt {α : Type} (l : List α) (k : Nat) (h : k < l.length) : ∃ a, l[k]? = some a :=
  ⟨l[k], by simp [h]⟩


/-- the action that moves caller `c` (or, if `c` is a blocked waiter, the owner / owner task of the call it
    waits on) one step further.  `o` is the outcome the environment gives the task if it is the task's
    turn to run. -/
def nextAction (o : Outcome) (s : State) (c : Nat) : Option Action :=
  match s.callers[c]? with
  | none => none
  | some r =>
    match r.pc with
    | .idle => some (.lookupOrCreate c)
    | .looked => some (.registerOrRead c)
    | .waiting =>
      match s.calls[r.cid]? with
      | none => none
      | some cl =>
        if c ∈ cl.notified then some (.wake c) else
        match cl.task with
        | .idle =>
          match s.callers[cl.owner]? with
          | none => none
          | some ro =>
            if ro.pc = .looked then some (.registerOrRead cl.owner) else some (.runTask cl.owner o)
        | .ran .panic => some (.ownerPanic r.cid)
        | .ran _ => some (.complete r.cid)
        | .finished _ => none
    | .have => if r.owner then some (.remove c) else some (.ret c)
    | .removed => some (.ret c)
    | .done => none

theorem nextAction_enabled (o : Outcome) (s : State) (c : Nat) (r : CallerSt) (hi : Inv s)
    (hr : s.callers[c]? = some r) (hpc : r.pc ≠ .done) :
    ∃ a, nextAction o s c = some a ∧ (step s a).isSome = true := by
  have hlt : c < s.callers.length := lt_of_getElem?_eq_some _ _ _ hr
  unfold nextAction
  simp only [hr]
  cases hp : r.pc with
  | done => exact absurd hp hpc
  | idle =>
    refine ⟨_, rfl, ?_⟩
    simp only [step, stepLookup, hr, hp, ne_eq, not_true_eq_false, if_false]
    split <;> rfl
  | looked =>
    refine ⟨_, rfl, ?_⟩
    have hcl : ∃ cl, s.calls[r.cid]? = some cl := by
      exact exists_getElem?_of_lt _ _ (hi.callerLt c r hr (by simp [hp]))
    obtain ⟨cl, hcl⟩ := hcl
    simp only [step, stepRegister, hr, hp, hcl, ne_eq, not_true_eq_false, if_false]
    split <;> rfl
  | waiting =>
    have hcl : ∃ cl, s.calls[r.cid]? = some cl := by
      exact exists_getElem?_of_lt _ _ (hi.callerLt c r hr (by simp [hp]))
    obtain ⟨cl, hcl⟩ := hcl
    have hro : ∃ ro, s.callers[cl.owner]? = some ro := by
      exact exists_getElem?_of_lt _ _ (hi.ownerLt _ _ hcl)
    obtain ⟨ro, hro⟩ := hro
    have hC := hi.caller c r cl hr (by simp [hp]) hcl
    have hO := hi.call _ cl ro hcl hro
    simp only [hcl]
    by_cases hn : c ∈ cl.notified
    · simp only [hn, if_true]
      refine ⟨_, rfl, ?_⟩
      simp [step, stepWake, hr, hp, hcl, hn]
    · simp only [hn, if_false]
      have hreg : c ∈ cl.registered := hC.2.2.1 hp
      cases ht : cl.task with
      | finished o' =>
        exfalso
        have := hO.1
        simp only [TaskOk, ht] at this
        exact hn (this.2.2 c hreg)
      | ran o' =>
        cases o' with
        | panic =>
          refine ⟨_, rfl, ?_⟩
          simp [step, stepOwnerPanic, hcl, ht]
        | ok v =>
          refine ⟨_, rfl, ?_⟩
          simp [step, stepComplete, hcl, ht]
        | err v =>
          refine ⟨_, rfl, ?_⟩
          simp [step, stepComplete, hcl, ht]
      | idle =>
        simp only [hro]
        obtain ⟨_, hne, hcid, hown, hOk, _⟩ := hO
        have hsp : ro.spawned = false := hOk.1.mp ht
        by_cases hl : ro.pc = .looked
        · simp only [hl, if_true]
          refine ⟨_, rfl, ?_⟩
          simp only [step, stepRegister, hro, hl, hcid, hcl, ne_eq, not_true_eq_false, if_false]
          split <;> rfl
        · simp only [hl, if_false]
          refine ⟨_, rfl, ?_⟩
          have hw : ro.pc = .waiting := by
            rcases hOk.2.1 hsp with h | h
            · exact absurd h hl
            · exact h
          simp [step, stepRunTask, hro, hown, hsp, hw, hcid, hcl]
  | «have» =>
    have hcl : ∃ cl, s.calls[r.cid]? = some cl := by
      exact exists_getElem?_of_lt _ _ (hi.callerLt c r hr (by simp [hp]))
    obtain ⟨cl, hcl⟩ := hcl
    have hC := hi.caller c r cl hr (by simp [hp]) hcl
    by_cases ho : r.owner = true
    · simp only [ho, if_true]
      refine ⟨_, rfl, ?_⟩
      have hro : s.callers[cl.owner]? = some r := by
        have := hC.2.1.mp ho; rw [this]; exact hr
      have hO := hi.call _ cl r hcl hro
      have hres : cl.res ≠ none := (hC.2.2.2.1 hp).1
      have hsp : r.spawned = true := by
        cases hs : r.spawned with
        | true => rfl
        | false =>
          rcases hO.2.2.2.2.1.2.1 hs with h | h <;> simp [hp] at h
      have hfin : ∃ o', cl.task = .finished o' := by
        have := hO.1
        cases ht : cl.task with
        | idle => simp only [TaskOk, ht] at this; exact absurd this.1 hres
        | ran _ => simp only [TaskOk, ht] at this; exact absurd this.1 hres
        | finished o' => exact ⟨o', rfl⟩
      obtain ⟨o', hfin⟩ := hfin
      simp only [step, stepRemove, hr, ho, hsp, hp, hcl, hfin]
      simp
      split <;> rfl
    · simp only [ho]
      refine ⟨_, rfl, ?_⟩
      have ho' : r.owner = false := by simpa using ho
      simp [step, stepReturn, hr, hp, ho']
  | removed =>
    refine ⟨_, rfl, ?_⟩
    simp [step, stepReturn, hr, hp]


/-! ### consequences -/

/-- every invocation of `work` has returned -/
def AllDone (s : State) : Prop := ∀ (c : Nat) (r : CallerSt), s.callers[c]? = some r → r.pc = .done

/-- a state in which no action is enabled (the run cannot be extended) has every caller returned -/
theorem stuck_allDone (s : State) (hi : Inv s) (hs : ∀ a, step s a = none) : AllDone s := by
  intro c r hr
  apply Classical.byContradiction
  intro hpc
  obtain ⟨a, _, ha⟩ := nextAction_enabled (.ok 0) s c r hi hr hpc
  rw [hs a] at ha
  simp at ha

/-- the length of any run is bounded by the variant of its first state -/
theorem run_length_le (acts : List Action) : ∀ (s s' : State), Inv s → run s acts = some s' →
    acts.length + measure s' ≤ measure s := by
  induction acts with
  | nil => intro s s' _ h; simp [run] at h; subst h; simp
  | cons a as ih =>
    intro s s' hi h
    simp only [run] at h
    split at h
    · simp at h
    · rename_i s1 h1
      have := ih s1 s' (inv_step s s1 a hi h1) h
      have := measure_step s s1 a hi h1
      simp only [List.length_cons]
      omega

theorem run_append (as bs : List Action) : ∀ (s s1 s2 : State), run s as = some s1 → run s1 bs = some s2 →
    run s (as ++ bs) = some s2 := by
  induction as with
  | nil => intro s s1 s2 h1 h2; simp [run] at h1; subst h1; simpa using h2
  | cons a as ih =>
    intro s s1 s2 h1 h2
    cases hs : step s a with
    | none => simp [run, hs] at h1
    | some s' =>
      simp only [run, hs, List.cons_append] at h1 ⊢
      exact ih s' s1 s2 h1 h2

/-- from every state satisfying the invariant some run ends with every caller returned; the run is obtained
    by repeatedly taking the `nextAction` of any not-yet-returned caller, whatever outcome `o` tasks produce -/
theorem exists_run_allDone (o : Outcome) : ∀ (n : Nat) (s : State), Inv s → measure s ≤ n →
    ∃ acts s', run s acts = some s' ∧ AllDone s' := by
  intro n
  induction n with
  | zero =>
    intro s hi hm
    refine ⟨[], s, rfl, ?_⟩
    intro c r hr
    apply Classical.byContradiction
    intro hpc
    obtain ⟨a, _, ha⟩ := nextAction_enabled o s c r hi hr hpc
    cases hs : step s a with
    | none => rw [hs] at ha; simp at ha
    | some s1 => have := measure_step s s1 a hi hs; omega
  | succ n ih =>
    intro s hi hm
    by_cases hd : AllDone s
    · exact ⟨[], s, rfl, hd⟩
    · simp only [AllDone, Classical.not_forall] at hd
      obtain ⟨c, r, hr, hpc⟩ := hd
      obtain ⟨a, _, ha⟩ := nextAction_enabled o s c r hi hr hpc
      cases hs : step s a with
      | none => rw [hs] at ha; simp at ha
      | some s1 =>
        have hlt := measure_step s s1 a hi hs
        obtain ⟨acts, s', hrun, hdone⟩ := ih s1 (inv_step s s1 a hi hs) (by omega)
        refine ⟨a :: acts, s', ?_, hdone⟩
        simp [run, hs, hrun]

end Xet.Singleflight
