/-
Model of the streaming and the minimal shard readers:
  `mdb_shard/src/streaming_shard.rs`  (`process_shard_stream`, `process_shard_file_info_section`,
                                       `process_shard_cas_info_section`, `MDBMinimalShard`)
  `mdb_shard/src/file_structs.rs`     (`MDBFileInfoView`)
  `mdb_shard/src/cas_structs.rs`      (`MDBCASInfoView`)

Both readers consume a `Read` front to back: the header, the file section up to its bookend, the CAS section up
to its bookend.  They never look at the lookup tables or the footer.  A reader over a byte string is modelled by
the list of bytes not yet consumed (`readExact`, `copyTake`).

Conventions / assumptions (stated, not proved): 64-bit `usize` (`n_entries * 48` cannot overflow for a `u32`
count); `Vec::with_capacity(48 + n_bytes)` succeeds (the count comes from the untrusted record header, up to
`48 * (2^33 + 1)` bytes are reserved before the data is read — an allocation failure aborts the process and is
not a value of the model); the reader produces no I/O error other than end of input.  The async variants
(`process_shard_stream_async`, `from_reader_async`) read the same bytes with `read_exact` and are covered by the
same model (on a short record they fail in `read_exact` instead of in the view constructor: same error kind).
-/
import XetModel.ShardFormat

namespace Xet.Shard

/-! ### a `Read` over a byte list -/

structure Taken where
  data : Bytes
  rest : Bytes
  deriving Repr

/-- `reader.read_exact(&mut [0u8; n])`: all `n` bytes or `UnexpectedEof` -/
def readExact (r : Bytes) (n : Nat) : Except Err Taken :=
  if n ≤ r.length then .ok ⟨r.take n, r.drop n⟩ else .error .eof

/-- `copy(&mut reader.take(n), &mut vec)`: up to `n` bytes, fewer at the end of the input, never an error -/
def copyTake (r : Bytes) (n : Nat) : Taken := ⟨r.take n, r.drop n⟩

/-- `MDBShardFileHeader::deserialize(reader)`: the 32-byte tag must match (`ShardVersionError` otherwise); the
    version and footer-size words are read and **not** checked.  Returns the unread remainder. -/
def streamHeader (r : Bytes) : Except Err Bytes :=
  match readExact r 32 with
  | .error e => .error e
  | .ok t =>
    if t.data ≠ headerTag then .error .version else
    match readExact t.rest 8 with
    | .error e => .error e
    | .ok t2 =>
      match readExact t2.rest 8 with
      | .error e => .error e
      | .ok t3 => .ok t3.rest

/-! ### record headers -/

/-- `FileDataSequenceHeader` -/
structure FileHdr where
  hash : Hash
  flags : Nat
  numEntries : Nat
  unused : Nat
  deriving DecidableEq, Repr

/-- `FileDataSequenceHeader::deserialize` applied to the 48 bytes `v` already read -/
def parseFileHdr (v : Bytes) : Except Err FileHdr := do
  let h ← hashAt v 0
  let f ← u32At v 32
  let n ← u32At v 36
  let u ← u64At v 40
  .ok ⟨h, f, n, u⟩

/-- `FileDataSequenceHeader::serialize` -/
def FileHdr.bytes (h : FileHdr) : Bytes := fileHeaderBytes h.hash h.flags h.numEntries h.unused

def FileHdr.hasVerif (h : FileHdr) : Bool := hasBit h.flags flagVerification
def FileHdr.hasMeta (h : FileHdr) : Bool := hasBit h.flags flagMetadataExt

/-- number of 48-byte records following the header: `n + (verification ? n : 0) + (metadata_ext ? 1 : 0)` -/
def FileHdr.tailRecs (h : FileHdr) : Nat :=
  h.numEntries + (if h.hasVerif then h.numEntries else 0) + (if h.hasMeta then 1 else 0)

/-- `CASChunkSequenceHeader::deserialize` applied to the 48 bytes `v` already read -/
def parseCasHdr (v : Bytes) : Except Err CasHeader := parseCasHeader v 0

/-- `CASChunkSequenceHeader::serialize` -/
def CasHeader.bytes (h : CasHeader) : Bytes := casHeaderBytes h.hash h.flags h.numEntries h.bytesInCas h.bytesOnDisk

/-! ### views (`MDBFileInfoView`, `MDBCASInfoView`): a parsed header plus shared bytes and an offset -/

structure FileView where
  hdr : FileHdr
  data : Bytes
  offset : Nat
  deriving DecidableEq, Repr

/-- `MDBFileInfoView::byte_size` -/
def FileView.byteSize (v : FileView) : Nat := (1 + v.hdr.tailRecs) * recSize

/-- `MDBFileInfoView::from_data_and_header`: the only check is that the slice is long enough -/
def FileView.fromDataAndHeader (hdr : FileHdr) (data : Bytes) (offset : Nat) : Except Err FileView :=
  if data.length < offset + (1 + hdr.tailRecs) * recSize then .error .eof else .ok ⟨hdr, data, offset⟩

/-- `MDBFileInfoView::new(data, offset)` (`&data[offset..]` panics when `offset > len`: reported as `internal`) -/
def FileView.new (data : Bytes) (offset : Nat) : Except Err FileView :=
  if data.length < offset then .error .internal else
  match readExact (data.drop offset) recSize with
  | .error e => .error e
  | .ok t =>
    match parseFileHdr t.data with
    | .error e => .error e
    | .ok hdr => FileView.fromDataAndHeader hdr data offset

def FileView.numEntries (v : FileView) : Nat := v.hdr.numEntries
def FileView.fileHash (v : FileView) : Hash := v.hdr.hash
def FileView.fileFlags (v : FileView) : Nat := v.hdr.flags

/-- `MDBFileInfoView::entry(idx)` -/
def FileView.entry (v : FileView) (idx : Nat) : Except Err Seg := parseSeg v.data (v.offset + (1 + idx) * recSize)

/-- `MDBFileInfoView::verification(idx)` (`range_hash`; the 16 unused bytes are not returned) -/
def FileView.verification (v : FileView) (idx : Nat) : Except Err Hash :=
  (readAt v.data (v.offset + (1 + v.hdr.numEntries + idx) * recSize) recSize).map Hash.ofBytes

/-- `MDBFileInfoView::serialize`: the raw bytes `data[offset .. offset + byte_size]` -/
def FileView.bytes (v : FileView) : Bytes := (v.data.drop v.offset).take v.byteSize

/-- the view re-read as an owned record: `MDBFileInfo::deserialize(&mut Cursor::new(view bytes))`
    (the view itself has no accessor for the metadata extension) -/
def FileView.toInfo (v : FileView) : Except Err (Option FileInfo) := (parseFileInfo v.bytes 0).map (Option.map (·.1))

def entriesFrom (get : Nat → Except Err α) : Nat → Nat → List α → Except Err (List α)
  | 0, _, acc => .ok acc.reverse
  | n+1, i, acc =>
    match get i with
    | .ok x => entriesFrom get n (i + 1) (x :: acc)
    | .error e => .error e

/-- `(0..num_entries).map(|i| view.entry(i))` -/
def FileView.entries (v : FileView) : Except Err (List Seg) := entriesFrom v.entry v.hdr.numEntries 0 []

/-- `(0..num_entries).map(|i| view.verification(i))` when the flag is set, nothing otherwise -/
def FileView.verifications (v : FileView) : Except Err (List Hash) :=
  if v.hdr.hasVerif then entriesFrom v.verification v.hdr.numEntries 0 [] else .ok []

structure CasView where
  hdr : CasHeader
  data : Bytes
  offset : Nat

/-- `MDBCASInfoView::byte_size` -/
def CasView.byteSize (v : CasView) : Nat := recSize + v.hdr.numEntries * recSize

/-- `MDBCASInfoView::from_data_and_header` -/
def CasView.fromDataAndHeader (hdr : CasHeader) (data : Bytes) (offset : Nat) : Except Err CasView :=
  if data.length < offset + (recSize + hdr.numEntries * recSize) then .error .eof else .ok ⟨hdr, data, offset⟩

/-- `MDBCASInfoView::new(data, offset)` -/
def CasView.new (data : Bytes) (offset : Nat) : Except Err CasView :=
  if data.length < offset then .error .internal else
  match readExact (data.drop offset) recSize with
  | .error e => .error e
  | .ok t =>
    match parseCasHdr t.data with
    | .error e => .error e
    | .ok hdr => CasView.fromDataAndHeader hdr data offset

def CasView.numEntries (v : CasView) : Nat := v.hdr.numEntries
def CasView.casHash (v : CasView) : Hash := v.hdr.hash

/-- `MDBCASInfoView::chunk(idx)` -/
def CasView.chunk (v : CasView) (idx : Nat) : Except Err Chunk := parseChunk v.data (v.offset + recSize + idx * recSize)

/-- `MDBCASInfoView::serialize` -/
def CasView.bytes (v : CasView) : Bytes := (v.data.drop v.offset).take v.byteSize

/-- `MDBCASInfo::deserialize(&mut Cursor::new(view bytes))` -/
def CasView.toInfo (v : CasView) : Except Err (Option CasInfo) := (parseCasInfo v.bytes 0).map (Option.map (·.1))

/-- `(0..num_entries).map(|i| view.chunk(i))` -/
def CasView.chunks (v : CasView) : Except Err (List Chunk) := entriesFrom v.chunk v.hdr.numEntries 0 []

/-! ### the section walkers -/

/-- one iteration of a section loop: the bookend was read, or a record view was assembled -/
inductive Item (α : Type) where
  | bookend (rest : Bytes)
  | record (v : α) (rest : Bytes)

/-- loop body of `process_shard_file_info_section` up to the callback: read the 48-byte header; stop at the bookend;
    otherwise copy **up to** `tailRecs * 48` further bytes behind the re-serialized header and build the view
    (`from_data_and_header` rejects a short copy with `UnexpectedEof`). -/
def nextFile (r : Bytes) : Except Err (Item FileView) :=
  match readExact r recSize with
  | .error e => .error e
  | .ok t =>
    match parseFileHdr t.data with
    | .error e => .error e
    | .ok hd =>
      if hd.hash = bookendHash then .ok (.bookend t.rest) else
      let c := copyTake t.rest (hd.tailRecs * recSize)
      match FileView.fromDataAndHeader hd (hd.bytes ++ c.data) 0 with
      | .error e => .error e
      | .ok v => .ok (.record v c.rest)

/-- loop body of `process_shard_cas_info_section` up to the callback -/
def nextCas (r : Bytes) : Except Err (Item CasView) :=
  match readExact r recSize with
  | .error e => .error e
  | .ok t =>
    match parseCasHdr t.data with
    | .error e => .error e
    | .ok hd =>
      if hd.hash = bookendHash then .ok (.bookend t.rest) else
      let c := copyTake t.rest (hd.numEntries * recSize)
      match CasView.fromDataAndHeader hd (hd.bytes ++ c.data) 0 with
      | .error e => .error e
      | .ok v => .ok (.record v c.rest)

/-- outcome of a walk: the callback state after the last successful callback (the callbacks are `FnMut`
    closures, their effects persist when the walk later fails) and `Ok(rest)` / `Err` -/
structure Walk (σ : Type) where
  state : σ
  status : Except Err Bytes

/-- the loop `loop { header; if bookend break; …; callback(view)?; }` with a callback `cb` threading a state;
    `fuel` bounds the number of iterations (every iteration consumes at least 48 bytes, so
    `r.length / 48 + 1` is never exhausted: `walk_fuel_adequate`); exhausted fuel reports `internal`. -/
def walk {α σ : Type} (next : Bytes → Except Err (Item α)) (cb : σ → α → Except Err σ) : Nat → σ → Bytes → Walk σ
  | 0, s, _ => ⟨s, .error .internal⟩
  | fuel+1, s, r =>
    match next r with
    | .error e => ⟨s, .error e⟩
    | .ok (.bookend rest) => ⟨s, .ok rest⟩
    | .ok (.record v rest) =>
      match cb s v with
      | .error e => ⟨s, .error e⟩
      | .ok s' => walk next cb fuel s' rest

def walkFuel (r : Bytes) : Nat := r.length / recSize + 1

/-- `process_shard_file_info_section(reader, cb)` -/
def walkFiles {σ : Type} (cb : σ → FileView → Except Err σ) (s : σ) (r : Bytes) : Walk σ := walk nextFile cb (walkFuel r) s r

/-- `process_shard_cas_info_section(reader, cb)` -/
def walkCas {σ : Type} (cb : σ → CasView → Except Err σ) (s : σ) (r : Bytes) : Walk σ := walk nextCas cb (walkFuel r) s r

/-! ### `process_shard_stream` with collecting callbacks -/

/-- what the two callbacks have been handed (in call order) and how the walk ended -/
structure StreamResult where
  files : List FileView
  cas : List CasView
  status : Except Err Unit

def collect {α : Type} (acc : List α) (v : α) : Except Err (List α) := .ok (acc ++ [v])
def ignore {α : Type} (acc : List α) (_ : α) : Except Err (List α) := .ok acc

/-- second half of `process_shard_stream`: after the file section walk `wf`, the CAS section if a callback was given -/
def streamCasPart (wantCas : Bool) (wf : Walk (List FileView)) : StreamResult :=
  match wf.status with
  | .error e => ⟨wf.state, [], .error e⟩
  | .ok r1 =>
    if wantCas then
      match (walkCas collect [] r1).status with
      | .error e => ⟨wf.state, (walkCas collect [] r1).state, .error e⟩
      | .ok _ => ⟨wf.state, (walkCas collect [] r1).state, .ok ()⟩
    else ⟨wf.state, [], .ok ()⟩

/-- `process_shard_stream(reader, file_callback, cas_callback)` with callbacks that record their argument and
    return `Ok(())`; `wantFiles = false` is `file_callback = None` (the section is still walked, with a no-op
    callback), `wantCas = false` is `cas_callback = None` (the CAS section is not read at all). -/
def streamShard (b : Bytes) (wantFiles wantCas : Bool) : StreamResult :=
  match streamHeader b with
  | .error e => ⟨[], [], .error e⟩
  | .ok r0 => streamCasPart wantCas (if wantFiles then walkFiles collect [] r0 else walkFiles ignore [] r0)

/-! ### `MDBMinimalShard` -/

def u32Wrap (n : Nat) : Nat := n % 4294967296     -- `len as u32`

structure MinShard where
  data : Bytes              -- file records ++ bookend ++ cas records ++ bookend (no header, no tables, no footer)
  fileOffsets : List Nat    -- `Vec<u32>`
  casOffsets : List Nat     -- `Vec<u32>`
  casInfoStart : Nat        -- `u32`
  deriving DecidableEq, Repr

/-- state of the closures of `from_reader`: `data_vec` and the offset vector being filled -/
structure MinAcc where
  data : Bytes
  offsets : List Nat

/-- `|fiv| { if include_files { file_offsets.push(data_vec.len() as u32); fiv.serialize(&mut data_vec)?; } Ok(()) }` -/
def minFileCb (incl : Bool) (a : MinAcc) (v : FileView) : Except Err MinAcc :=
  if incl then .ok ⟨a.data ++ v.bytes, a.offsets ++ [u32Wrap a.data.length]⟩ else .ok a

/-- `|civ| { cas_offsets.push(data_vec.len() as u32); civ.serialize(&mut data_vec)?; Ok(()) }` -/
def minCasCb (a : MinAcc) (v : CasView) : Except Err MinAcc :=
  .ok ⟨a.data ++ v.bytes, a.offsets ++ [u32Wrap a.data.length]⟩

/-- second half of `from_reader`: the file bookend "always goes in", then the CAS section if requested, then the
    CAS bookend -/
def minCasPart (inclCas : Bool) (wf : Walk MinAcc) : Except Err MinShard :=
  match wf.status with
  | .error e => .error e
  | .ok r1 =>
    if inclCas then
      match (walkCas minCasCb ⟨wf.state.data ++ bookend, []⟩ r1).status with
      | .error e => .error e
      | .ok _ => .ok ⟨(walkCas minCasCb ⟨wf.state.data ++ bookend, []⟩ r1).state.data ++ bookend, wf.state.offsets,
                      (walkCas minCasCb ⟨wf.state.data ++ bookend, []⟩ r1).state.offsets, u32Wrap (wf.state.data ++ bookend).length⟩
    else .ok ⟨wf.state.data ++ bookend ++ bookend, wf.state.offsets, [], u32Wrap (wf.state.data ++ bookend).length⟩

/-- `MDBMinimalShard::from_reader(reader, include_files, include_cas)` -/
def MinShard.fromReader (b : Bytes) (inclFiles inclCas : Bool) : Except Err MinShard :=
  match streamHeader b with
  | .error e => .error e
  | .ok r0 => minCasPart inclCas (walkFiles (minFileCb inclFiles) ⟨[], []⟩ r0)

def MinShard.numFiles (s : MinShard) : Nat := s.fileOffsets.length
def MinShard.numCas (s : MinShard) : Nat := s.casOffsets.length

/-- `MDBMinimalShard::file(index)`: index out of range and a failing `MDBFileInfoView::new(..).expect(..)` are
    panics in the code; here `internal` / the error of `new` (`C09_minimal_accessors_total`: neither occurs) -/
def MinShard.file (s : MinShard) (i : Nat) : Except Err FileView :=
  match s.fileOffsets[i]? with
  | none => .error .internal
  | some off => FileView.new s.data off

/-- `MDBMinimalShard::cas(index)` -/
def MinShard.cas (s : MinShard) (i : Nat) : Except Err CasView :=
  match s.casOffsets[i]? with
  | none => .error .internal
  | some off => CasView.new s.data off

def viewsFrom {α : Type} (get : Nat → Except Err α) (n : Nat) : Except Err (List α) := entriesFrom get n 0 []

/-- `(0..num_files()).map(|i| shard.file(i))` -/
def MinShard.files (s : MinShard) : Except Err (List FileView) := viewsFrom s.file s.numFiles
/-- `(0..num_cas()).map(|i| shard.cas(i))` -/
def MinShard.casViews (s : MinShard) : Except Err (List CasView) := viewsFrom s.cas s.numCas

def sumOk (l : List (Except Err Nat)) : Nat := l.foldl (fun acc x => match x with | .ok n => acc + n | .error _ => acc) 0

/-- the `materialized_bytes` loop of `MDBMinimalShard::serialize` -/
def MinShard.materialized (s : MinShard) : Nat :=
  match s.files with
  | .error _ => 0
  | .ok vs => sumMap (fun v => match v.entries with | .ok es => sumMap (·.bytes) es | .error _ => 0) vs

def MinShard.storedOnDisk (s : MinShard) : Nat :=
  match s.casViews with
  | .error _ => 0
  | .ok vs => sumMap (fun v => v.hdr.bytesOnDisk) vs

def MinShard.stored (s : MinShard) : Nat :=
  match s.casViews with
  | .error _ => 0
  | .ok vs => sumMap (fun v => v.hdr.bytesInCas) vs

/-- the footer written by `MDBMinimalShard::serialize`: no lookup tables, totals recomputed from the views -/
def MinShard.footer (s : MinShard) : Footer :=
  let footerStart := headerSize + s.data.length
  ⟨footerVersion, headerSize, s.casInfoStart + headerSize, footerStart, 0, footerStart, 0, footerStart, 0,
   Hash.zero, 0, u64Max, List.replicate 6 0, s.storedOnDisk, s.materialized, s.stored, footerStart⟩

/-- `MDBMinimalShard::serialize(writer)`: default header, the stored sections, a table-less footer -/
def MinShard.serialize (s : MinShard) : Bytes := headerBytes ++ s.data ++ s.footer.bytes

end Xet.Shard
