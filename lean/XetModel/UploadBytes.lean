import XetModel.Uploads
/-
Byte accounting on top of the upload-task bookkeeping model (C14, last clause: "the reported xorb and shard upload
bytes equal what was actually handed to the store").

  `FileUploadSession::register_new_xorb_for_upload`: the spawned task adds the value returned by `client.put`
      (`n_bytes_transmitted`) to `deduplication_metrics.xorb_bytes_uploaded` when — and only when — the put succeeded;
  `FileUploadSession::finalize_impl`: joins every task, THEN takes the metrics (`fix:` 8f59dbe; before it the metrics were
      taken first, parameter `early` below keeps that variant as a refutable alternative);
  `SessionShardInterface::upload_and_register_session_shards`: one task per shard, each adds `data.len()` before its
      `upload_shard`; the sum is returned only if every task succeeded.

The layer wraps `Xet.Uploads.S`; its projection to the C16 model is `stepB_proj` (XetProps/C14Upload.lean), so every C16 theorem
applies to the wrapped state.  Oracles: the byte count each put returns (`sz`, given when the xorb is registered), the
completion events, and per shard its length and whether the store accepted it.
-/
namespace Xet.UploadBytes
open Xet.Uploads

inductive EvB
  | register (ne : Bool) (sz : Nat)      -- an API call reached `register_new_xorb_for_upload`; `sz` = what its put returns on success
  | complete (i : Nat) (ok : Bool)       -- background put `i` finished
  | finalize (lastNe : Bool) (lastSz : Nat) (rest : List Bool) (shards : List (Nat × Bool))
      -- `finalize()`; `shards` = (length, accepted by the store?) of every session shard, in upload order
  deriving Repr

def EvB.toEv : EvB → Ev
  | .register ne _ => .register ne
  | .complete i ok => .complete i ok
  | .finalize ne _ rest shards => .finalize ne rest (shards.all (·.2))

structure SB where
  s : S
  sizes : List Nat               -- by task id: the byte count put `i` returns on success
  metric : Nat                   -- `deduplication_metrics.xorb_bytes_uploaded` of the session (accumulator)
  reportedXorb : Option Nat      -- `xorb_bytes_uploaded` in the metrics a successful `finalize` returns
  reportedShard : Option Nat     -- `shard_bytes_uploaded` likewise
  shardHanded : Nat              -- bytes of the shards the store accepted
  deriving Repr

def SB.init : SB := ⟨S.init, [], 0, none, none, 0⟩

/-- bytes of every put that returned `Ok` so far: what was actually handed to (and accepted by) the store -/
def okSum : List TaskSt → List Nat → Nat
  | t :: ts, z :: zs => (if taskOk t then z else 0) + okSum ts zs
  | _, _ => 0

def SB.handed (b : SB) : Nat := okSum b.s.tasks b.sizes

/-- what the tasks completed by the join loop of `finalize` add to the accumulator (mirrors `completeRunning`) -/
def joinAdd : List TaskSt → List Bool → List Nat → Nat
  | [], _, _ => 0
  | _ :: _, _, [] => 0
  | .running :: ts, o :: os, z :: zs => (if o then z else 0) + joinAdd ts os zs
  | .running :: ts, [], z :: zs => z + joinAdd ts [] zs
  | .done _ :: ts, os, _ :: zs => joinAdd ts os zs
  | .reaped _ :: ts, os, _ :: zs => joinAdd ts os zs

/-- a put is spawned by `registerStep` iff the reap loop found no error and the xorb is non-empty -/
def sizesAfterRegister (b : SB) (ne : Bool) (sz : Nat) : List Nat :=
  if (registerStep b.s ne).2 && ne then b.sizes ++ [sz] else b.sizes

def shardSum (shards : List (Nat × Bool)) : Nat := (shards.map (·.1)).sum
def shardAccepted (shards : List (Nat × Bool)) : Nat := ((shards.filter (·.2)).map (·.1)).sum

/-- `early = false` is the code as it is; `early = true` takes the metrics before the join loop (the defect F3) -/
def stepB (early : Bool) (b : SB) : EvB → SB
  | .register ne sz =>
    if b.s.finalized.isSome then b
    else { b with s := (registerStep b.s ne).1, sizes := sizesAfterRegister b ne sz }
  | .complete i ok =>
    match b.s.tasks[i]? with
    | some .running =>
      { b with s := step b.s (.complete i ok), metric := b.metric + (if ok then b.sizes.getD i 0 else 0) }
    | _ => b
  | .finalize lastNe lastSz rest shards =>
    if b.s.finalized.isSome then b else
    let s' := step b.s (.finalize lastNe rest (shards.all (·.2)))
    let r := registerStep b.s lastNe
    let sizes1 := sizesAfterRegister b lastNe lastSz
    if !r.2 then { b with s := s', sizes := sizes1 }
    else
      let metric1 := b.metric + joinAdd r.1.tasks rest sizes1
      let okFin := s'.finalized == some true
      { s := s', sizes := sizes1, metric := metric1,
        reportedXorb := if okFin then some (if early then b.metric else metric1) else none,
        reportedShard := if okFin then some (shardSum shards) else none,
        shardHanded := if s'.shardUploadsStarted then shardAccepted shards else 0 }

/-- `total_bytes_uploaded = shard_bytes_uploaded + xorb_bytes_uploaded` of the metrics a successful `finalize` returns -/
def SB.reportedTotal (b : SB) : Option Nat :=
  match b.reportedXorb, b.reportedShard with
  | some x, some s => some (s + x)
  | _, _ => none

def runB (early : Bool) (b : SB) (evs : List EvB) : SB := evs.foldl (stepB early) b

end Xet.UploadBytes
