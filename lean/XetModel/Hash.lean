/-
Model of `merklehash::DataHash` (`[u64; 4]`, little-endian byte view, hex text form) and of the
abstract hash primitives the rest of the model is parameterised by.
-/
import XetModel.Generated.Consts

namespace Xet

abbrev Bytes := List UInt8

/-- `DataHash([u64; 4])`. -/
structure Hash where
  w0 : UInt64
  w1 : UInt64
  w2 : UInt64
  w3 : UInt64
  deriving DecidableEq, Repr, Inhabited

namespace Hash

def zero : Hash := ⟨0, 0, 0, 0⟩

/-- little-endian bytes of one word -/
def wordBytes (w : UInt64) : Bytes :=
  (List.range 8).map fun i => UInt8.ofNat ((w.toNat / 256 ^ i) % 256)

def wordOfBytes (b : Bytes) : UInt64 :=
  UInt64.ofNat ((b.take 8).foldr (fun x acc => x.toNat + 256 * acc) 0)

/-- `as_bytes()` : the 32-byte little-endian view. -/
def toBytes (h : Hash) : Bytes := wordBytes h.w0 ++ wordBytes h.w1 ++ wordBytes h.w2 ++ wordBytes h.w3

/-- `From<[u8; 32]>` / `from_slice` (length checked by the caller). -/
def ofBytes (b : Bytes) : Hash :=
  ⟨wordOfBytes b, wordOfBytes (b.drop 8), wordOfBytes (b.drop 16), wordOfBytes (b.drop 24)⟩

/-! ### hex text form: four words, each printed `{:016x}` -/

/-- big-endian base-16 digits, exactly `k` of them -/
def natDigits16 : Nat → Nat → List Nat
  | 0, _ => []
  | k+1, n => natDigits16 k (n / 16) ++ [n % 16]

def ofDigits16 (ds : List Nat) : Nat := ds.foldl (fun a d => a * 16 + d) 0

/-- ASCII code of a lowercase hex digit -/
def digitChar (d : Nat) : UInt8 := if d < 10 then UInt8.ofNat (48 + d) else UInt8.ofNat (87 + d)

/-- value of an ASCII hex digit (upper or lower case), as `is_ascii_hexdigit` + `from_str_radix` accept -/
def charDigit (c : UInt8) : Option Nat :=
  let n := c.toNat
  if 48 ≤ n ∧ n ≤ 57 then some (n - 48)
  else if 97 ≤ n ∧ n ≤ 102 then some (n - 87)
  else if 65 ≤ n ∧ n ≤ 70 then some (n - 55)
  else none

def wordHex (w : UInt64) : Bytes := (natDigits16 16 w.toNat).map digitChar

/-- `DataHash::hex()` as ASCII bytes (64 of them). -/
def hex (h : Hash) : Bytes := wordHex h.w0 ++ wordHex h.w1 ++ wordHex h.w2 ++ wordHex h.w3

def parseWord (cs : Bytes) : Option UInt64 :=
  (cs.mapM charDigit).map fun ds => UInt64.ofNat (ofDigits16 ds)

/-- `DataHash::from_hex`: exactly 64 ASCII hex digits. -/
def fromHex (s : Bytes) : Option Hash :=
  if s.length ≠ 64 then none
  else do
    let a ← parseWord (s.take 16)
    let b ← parseWord ((s.drop 16).take 16)
    let c ← parseWord ((s.drop 32).take 16)
    let d ← parseWord ((s.drop 48).take 16)
    pure ⟨a, b, c, d⟩

end Hash

/-- The hash primitives, abstract: theorems hold for *every* choice; the driver instantiates them
    with the independent Lean BLAKE3 and the keys regenerated from the Rust source. -/
structure HashPrims where
  dataHash : Bytes → Hash         -- `compute_data_hash`
  internalHash : Bytes → Hash     -- `compute_internal_node_hash`
  verifyHash : Bytes → Hash       -- keyed with `VERIFICATION_KEY`
  keyed : Bytes → Bytes → Hash    -- `blake3::keyed_hash(key, msg)` (salt / hmac)

end Xet
