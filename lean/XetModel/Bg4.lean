/-
Model of `cas_object/src/byte_grouping/bg4.rs`: `bg4_split` (= `bg4_split_together`) and
`bg4_regroup` (= `bg4_regroup_together`).  Byte i of the input goes to group `i % 4` at index `i / 4`;
the four groups are stored back to back; group sizes are `split + min 1 rem`, `split + min 1 (rem-1)`,
`split + min 1 (rem-2)`, `split` with `split = n / 4`, `rem = n % 4`.
-/
import XetModel.Hash

namespace Xet.Bg4

/-- every 4th byte starting at the head -/
def stride4 : Bytes → Bytes
  | a :: _ :: _ :: _ :: rest => a :: stride4 rest
  | a :: _ => [a]
  | [] => []

/-- group `g` (0..3) of `data`: bytes at positions ≡ g (mod 4) -/
def group (data : Bytes) (g : Nat) : Bytes := stride4 (data.drop g)

/-- `bg4_split` -/
def split (data : Bytes) : Bytes := group data 0 ++ group data 1 ++ group data 2 ++ group data 3

/-- sizes of the four groups as `bg4_regroup_together` computes the group pointers -/
def size0 (n : Nat) : Nat := n / 4 + min 1 (n % 4)
def size1 (n : Nat) : Nat := n / 4 + min 1 (n % 4 - 1)
def size2 (n : Nat) : Nat := n / 4 + min 1 (n % 4 - 2)

/-- interleave four groups (g0 is the longest; lengths differ by at most one, non-increasing) -/
def interleave : Bytes → Bytes → Bytes → Bytes → Bytes
  | a :: g0, b :: g1, c :: g2, d :: g3 => a :: b :: c :: d :: interleave g0 g1 g2 g3
  | [a], [b], [c], [] => [a, b, c]
  | [a], [b], [], [] => [a, b]
  | [a], [], [], [] => [a]
  | _, _, _, _ => []

/-- `bg4_regroup` -/
def regroup (g : Bytes) : Bytes :=
  let n := g.length
  let g0 := g.take (size0 n)
  let g1 := (g.drop (size0 n)).take (size1 n)
  let g2 := (g.drop (size0 n + size1 n)).take (size2 n)
  let g3 := g.drop (size0 n + size1 n + size2 n)
  interleave g0 g1 g2 g3

end Xet.Bg4
