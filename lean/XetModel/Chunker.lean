/-
Model of `deduplication/src/chunking.rs` (`Chunker::{new,next,next_block,finish}`) and of the
scalar semantics of `gearhash::Hasher::next_match`.

Three layers:
 (i)   code-shaped `next` / `nextBlock` / `feed`  (what the correspondence driver executes);
 (ii)  byte automaton `stepByte` / `auto`         (one byte at a time; the reference gear-hash rule);
 (iii) `specSplit` = the automaton run over the whole stream from the initial state.
Import-free (core only) so that the driver links as a `lean_exe`.
-/
import XetModel.Hash

namespace Xet



namespace Chunker

/-- Chunker configuration as computed by `Chunker::new`. -/
structure Params where
  minC : Nat
  maxC : Nat
  mask : UInt64
  deriving Repr, DecidableEq

/-- leading zeros of a 64-bit value that is known to be `< 2^32` and non-zero is computed by
    shifting left until the top bit is set; `maskOf t` = `(t-1) << (t-1).leading_zeros()`. -/
def shiftToTop : Nat → UInt64 → UInt64
  | 0, m => m
  | fuel+1, m => if m &&& 0x8000000000000000 != 0 then m else shiftToTop fuel (m <<< 1)

def maskOf (target : Nat) : UInt64 :=
  let m : UInt64 := UInt64.ofNat (target - 1)
  if m == 0 then 0 else shiftToTop 64 m

/-- `Chunker::new(target)`; the three `assert!`s of the Rust constructor become `none`. -/
def mkParams (target minDiv maxMul : Nat) : Option Params :=
  if target.log2 < 64 ∧ 2 ^ target.log2 = target ∧ 64 < target ∧ target < 4294967295 ∧ minDiv ≠ 0 ∧
      target / minDiv < target * maxMul then
    some { minC := target / minDiv, maxC := target * maxMul, mask := maskOf target }
  else none

/-- one gear-hash update: `h ← (h << 1).wrapping_add(table[b])`. -/
def hashStep (h : UInt64) (b : UInt8) : UInt64 :=
  (h <<< 1) + Gen.gearTable.getD b.toNat 0

def isCut (mask h : UInt64) : Bool := (h &&& mask) == 0

/-! ### (ii) byte automaton -/

structure St where
  h : UInt64
  cur : Nat
  deriving Repr, DecidableEq

def St.init : St := ⟨0, 0⟩

structure StepOut where
  st : St
  cut : Bool

/-- Consume one byte.  Byte number `cur` (0-based since the previous boundary) is *skipped*
    (not hashed) iff `cur + 65 < minC`; otherwise it is hashed and a boundary is placed after it iff
    the hash matches the mask or the chunk has reached `maxC`. -/
def stepByte (p : Params) (s : St) (b : UInt8) : StepOut :=
  if s.cur + 65 < p.minC then ⟨⟨s.h, s.cur + 1⟩, false⟩
  else
    let h' := hashStep s.h b
    if isCut p.mask h' || decide (s.cur + 1 ≥ p.maxC) then ⟨St.init, true⟩
    else ⟨⟨h', s.cur + 1⟩, false⟩

structure Run where
  chunks : List Bytes     -- completed chunks, in order
  st : St
  acc : Bytes             -- bytes since the last boundary (in order)

/-- run the automaton over `data`, starting in state `s` with `acc` already buffered. -/
def auto (p : Params) : St → Bytes → Bytes → Run
  | s, acc, [] => ⟨[], s, acc⟩
  | s, acc, b :: bs =>
    let o := stepByte p s b
    if o.cut then
      let r := auto p o.st [] bs
      ⟨(acc ++ [b]) :: r.chunks, r.st, r.acc⟩
    else auto p o.st (acc ++ [b]) bs

/-- (iii) reference splitting of a whole stream. -/
def specSplit (p : Params) (data : Bytes) : List Bytes :=
  let r := auto p St.init [] data
  if r.acc = [] then r.chunks else r.chunks ++ [r.acc]

/-- executable twin of `auto` with a reversed accumulator (O(1) per byte); proved equal to `auto`
    (`XetProofs.Chunker.autoR_eq`), used by the driver. -/
def autoR (p : Params) : St → Bytes → Bytes → Run
  | s, racc, [] => ⟨[], s, racc.reverse⟩
  | s, racc, b :: bs =>
    let o := stepByte p s b
    if o.cut then
      let r := autoR p o.st [] bs
      ⟨(b :: racc).reverse :: r.chunks, r.st, r.acc⟩
    else autoR p o.st (b :: racc) bs

def specSplitR (p : Params) (data : Bytes) : List Bytes :=
  let r := autoR p St.init [] data
  if r.acc = [] then r.chunks else r.chunks ++ [r.acc]

/-! ### (i) code-shaped layer -/

structure State where
  h : UInt64
  cur : Nat
  buf : Bytes
  deriving Repr

def State.init : State := ⟨0, 0, []⟩

structure Match where
  pos : Option Nat   -- `Some(i+1)` of `next_match`
  h : UInt64

/-- scalar `gearhash::Hasher::next_match`: feeds bytes until the hash matches; returns index+1. -/
def nextMatch (mask : UInt64) : UInt64 → Bytes → Match
  | h, [] => ⟨none, h⟩
  | h, b :: bs =>
    let h' := hashStep h b
    if isCut mask h' then ⟨some 1, h'⟩
    else
      let r := nextMatch mask h' bs
      ⟨r.pos.map (· + 1), r.h⟩

structure ScanResult where
  create : Bool
  consumed : Nat
  st : State

/-- `max_advance` of the skip-ahead: nothing is hashed before byte `minimum_chunk - 64 - 1`. -/
def skipAmount (p : Params) (cur n : Nat) : Nat :=
  if cur + 64 < p.minC then min (p.minC - cur - 64 - 1) n else 0

structure ScanPart where
  create : Bool
  toB : Nat        -- `bytes_to_next_boundary`
  h : UInt64

/-- `next_match` on the slice `data[consume_len..read_end]`, then the forced cut at `maximum_chunk`. -/
def scanPart (p : Params) (h : UInt64) (cur1 : Nat) (slice : Bytes) : ScanPart :=
  let m := nextMatch p.mask h slice
  let toB0 := match m.pos with
    | some b => b
    | none => slice.length          -- `read_end - consume_len`
  let forced := decide (toB0 + cur1 ≥ p.maxC)
  ⟨m.pos.isSome || forced, if forced then p.maxC - cur1 else toB0, m.h⟩

/-- the `if n_bytes != 0 { … }` block of `Chunker::next`, statement for statement:
    skip ahead (no hashing) to `minimum_chunk - 64 - 1`, scan at most up to `maximum_chunk`,
    force a cut at `maximum_chunk`, append the consumed bytes to `chunkbuf`. -/
def nextScan (p : Params) (s : State) (data : Bytes) : ScanResult :=
  let n := data.length
  let skip := skipAmount p s.cur n
  let cur1 := s.cur + skip
  let readEnd := min n (skip + p.maxC - cur1)
  let slice := (data.take readEnd).drop skip
  let sp := scanPart p s.h cur1 slice
  ⟨sp.create, skip + sp.toB, ⟨sp.h, cur1 + sp.toB, s.buf ++ data.take (skip + sp.toB)⟩⟩

structure NextResult where
  chunk : Option Bytes
  consumed : Nat
  st : State

/-- `Chunker::next(data, is_final)`. -/
def next (p : Params) (s : State) (data : Bytes) (isFinal : Bool) : NextResult :=
  let r : ScanResult := if data.length = 0 then ⟨false, 0, s⟩ else nextScan p s data
  if r.create || (isFinal && !r.st.buf.isEmpty) then
    -- `compute_data_hash(&chunkbuf)`, `take(&mut chunkbuf)`, `cur_chunk_len = 0`, `hash.set_hash(0)`
    ⟨some r.st.buf, r.consumed, State.init⟩
  else ⟨none, r.consumed, r.st⟩

structure BlockResult where
  chunks : List Bytes
  st : State

/-- `Chunker::next_block(data, is_final)`; `fuel` bounds the loop (each iteration consumes ≥ 1 byte). -/
def nextBlockAux (p : Params) (isFinal : Bool) : Nat → State → Bytes → BlockResult
  | 0, s, _ => ⟨[], s⟩
  | fuel+1, s, data =>
    if data.isEmpty then ⟨[], s⟩
    else
      let r := next p s data isFinal
      let rest := nextBlockAux p isFinal fuel r.st (data.drop r.consumed)
      match r.chunk with
      | some c => ⟨c :: rest.chunks, rest.st⟩
      | none => rest

def nextBlock (p : Params) (s : State) (data : Bytes) (isFinal : Bool) : BlockResult :=
  nextBlockAux p isFinal (data.length + 1) s data

/-- `Chunker::finish()` = `self.next(&[], true).0` -/
def finish (p : Params) (s : State) : Option Bytes := (next p s [] true).chunk

/-- feed the parts (each one `next_block(part, false)`), then `finish`. -/
def feedParts (p : Params) : State → List Bytes → BlockResult
  | s, [] => ⟨[], s⟩
  | s, part :: parts =>
    let r := nextBlock p s part false
    let rest := feedParts p r.st parts
    ⟨r.chunks ++ rest.chunks, rest.st⟩

def feed (p : Params) (parts : List Bytes) : List Bytes :=
  let r := feedParts p State.init parts
  match finish p r.st with
  | some c => r.chunks ++ [c]
  | none => r.chunks

end Chunker
end Xet
