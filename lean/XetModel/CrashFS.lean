/-
Crash model of the operations that publish a file under a final name (C19).

A file system is an association list path ↦ content.  Every operation is compiled to the sequence of
file-system *effects* the Rust code performs (one effect = one completed system call):

  `SafeFileCreator::{new, write, close}`            /repo/file_utils/src/safe_file_creator.rs
  `MDBInMemoryShard::write_to_directory`            /repo/mdb_shard/src/shard_in_memory.rs
  `MDBShardFile::write_out_from_reader`             /repo/mdb_shard/src/shard_file_handle.rs
  `shard_file_op` (`shard_file_union`)              /repo/mdb_shard/src/set_operations.rs
  `consolidate_shards_in_directory`                 /repo/mdb_shard/src/session_directory.rs
  `DiskCache::put_impl`                             /repo/chunk_cache/src/disk.rs
  `LocalClient::put`                                /repo/cas_client/src/local_client.rs

A crash is a prefix of that sequence (`crashStates`).  Buffered writes (`BufWriter`, `io::copy`) reach the
file as `append`s of arbitrary sizes: the effect sequences take the list of pieces as a parameter and the
theorems quantify over it.  Temporary names (uuid, random suffix) are parameters as well.

CRASH MODEL (the property's own): a completed system call persists, `rename` is atomic, the page cache is
never torn, nothing else writes to the directory meanwhile.  `fsync`, directory-entry durability after a
power loss and torn pages are outside this model.
-/
import XetModel.ShardOps
import XetModel.Cache
import XetModel.XorbFormat

namespace Xet.CrashFS

/-! ## (1) file system, effects, crash states -/

/-- association list path ↦ content; the first binding of a path counts.  Directories are implicit
    (`mkdir` / `rmdir` / `chmod` do not change any file content). -/
abbrev FS (P : Type) := List (P × Bytes)

section Generic
variable {P : Type} [DecidableEq P]

def get : FS P → P → Option Bytes
  | [], _ => none
  | (q, c) :: rest, p => if q = p then some c else get rest p

def erase : FS P → P → FS P
  | [], _ => []
  | (q, c) :: rest, p => if q = p then erase rest p else (q, c) :: erase rest p

def set (fs : FS P) (p : P) (c : Bytes) : FS P := (p, c) :: erase fs p

/-- one completed system call -/
inductive Effect (P : Type)
  | create (p : P)                 -- `open(O_CREAT | O_TRUNC)`: an empty file (for `O_CREAT` alone: on a fresh name)
  | append (p : P) (b : Bytes)     -- one `write` on the open temp file
  | rename (p q : P)               -- atomic: `q` gets `p`'s content (replacing what was there), `p` disappears
  | unlink (p : P)
  | mkdir (p : P)
  | rmdir (p : P)
  | chmod (p : P)
  deriving Repr

def apply (fs : FS P) : Effect P → FS P
  | .create p => set fs p []
  | .append p b => match get fs p with
    | some c => set fs p (c ++ b)
    | none => fs
  | .rename p q => match get fs p with
    | some c => set (erase fs p) q c
    | none => fs
  | .unlink p => erase fs p
  | .mkdir _ => fs
  | .rmdir _ => fs
  | .chmod _ => fs

def run (fs : FS P) (es : List (Effect P)) : FS P := es.foldl apply fs

/-- the states a crash can leave behind: after every prefix of the effect sequence -/
def crashStates (es : List (Effect P)) (fs : FS P) : List (FS P) :=
  (List.range (es.length + 1)).map fun k => run fs (es.take k)

/-- `create tmp; write…; rename tmp final`: what `SafeFileCreator`, `write_to_temp_shard_file` + `rename`,
    `write_out_from_reader` and `shard_file_op` all do.  `pieces` = the buffered writes as they reach the file. -/
def writeSeq (tmp final : P) (pieces : List Bytes) : List (Effect P) :=
  [.create tmp] ++ pieces.map (.append tmp) ++ [.rename tmp final]

/-- one round of a "merge then delete the inputs" operation -/
structure Round (P : Type) where
  tmp : P
  out : P
  pieces : List Bytes
  removed : List P

def roundFx (r : Round P) : List (Effect P) := writeSeq r.tmp r.out r.pieces ++ r.removed.map .unlink

def roundsFx (rs : List (Round P)) : List (Effect P) := rs.flatMap roundFx

def cleanupStep (rm : P → Bytes → Bool) (fs acc : FS P) (p : P) : FS P :=
  match get fs p with
  | some c => if rm p c then erase acc p else acc
  | none => acc

/-- restart clean-up of a scan that deletes what it rejects: every file for which `rm` holds is unlinked -/
def cleanup (rm : P → Bytes → Bool) (fs : FS P) : FS P :=
  (fs.map (·.1)).foldl (cleanupStep rm fs) fs

end Generic

/-! ## (2) names -/

abbrev Name := List UInt8

def dotMdb : Name := [46, 109, 100, 98]                               -- ".mdb"
def dotMdbTemp : Name := [46, 109, 100, 98, 95, 116, 101, 109, 112]   -- ".mdb_temp"
def dotTmp : Name := [46, 116, 109, 112]                              -- ".tmp"
def defaultDot : Name := [100, 101, 102, 97, 117, 108, 116, 46]       -- "default."

/-- `shard_file_name`: `{hash.hex()}.mdb` -/
def shardName (h : Hash) : Name := h.hex ++ dotMdb

/-- `parse_shard_filename`: the regex `^[0-9a-fA-F]{64}\.mdb$` followed by `MerkleHash::from_hex`
    (`Hash.fromHex` accepts exactly 64 hex digits of either case) -/
def parseShardName (n : Name) : Option Hash :=
  match n.reverse with
  | 98 :: 100 :: 109 :: 46 :: r => Hash.fromHex r.reverse
  | _ => none

/-- `temp_shard_file_name` / the name in `shard_file_op`: `.{uuid}.mdb_temp` (`u` = the uuid text, arbitrary) -/
def tempShardName (u : Name) : Name := [46] ++ u ++ dotMdbTemp

/-- `SafeFileCreator::temp_file_path`: `.{parent dir name}.{10 random alphanumerics}.tmp` (or `.{random}.tmp`) -/
def safeTempName (dir : Option Name) (rnd : Name) : Name :=
  match dir with
  | some d => [46] ++ d ++ [46] ++ rnd ++ dotTmp
  | none => [46] ++ rnd ++ dotTmp

/-- `LocalClient::get_path_for_entry`: `default.{hash}` in the xorb directory -/
def xorbName (h : Hash) : Name := defaultDot ++ h.hex

/-- the name `exists` / `get` look up is computed from the hash; read backwards: which hash does a name serve -/
def parseXorbName (n : Name) : Option Hash :=
  match n with
  | 100 :: 101 :: 102 :: 97 :: 117 :: 108 :: 116 :: 46 :: r => Hash.fromHex r
  | _ => none

/-- `LocalClient::get_all_entries`: split at the last `.`, the part after it must be a hash -/
def parseEntryName (n : Name) : Option Hash :=
  if n.contains 46 then Hash.fromHex (n.reverse.takeWhile (· ≠ 46)).reverse else none

/-! ## (3) the operations as effect sequences -/

/-- `MDBInMemoryShard::write_to_directory` (serialized bytes `content`, written through a `BufWriter`) and
    `MDBShardFile::write_out_from_reader` (`io::copy` of the reader's bytes): temp file `.{uuid}.mdb_temp`,
    then `rename` to `{content hash}.mdb`. -/
def shardWriteFx (P : HashPrims) (uuid : Name) (content : Bytes) (pieces : List Bytes) : List (Effect Name) :=
  writeSeq (tempShardName uuid) (shardName (P.dataHash content)) pieces

/-- `shard_file_op(f1, f2, out, op)`: the output name is the caller's -/
def shardFileOpFx (uuid : Name) (out : Name) (pieces : List Bytes) : List (Effect Name) :=
  writeSeq (tempShardName uuid) out pieces

/-- what one round of `consolidate_shards_in_directory` contributes: nothing if the group is a single shard;
    otherwise the merged shard is written (`write_out_from_reader`) and then the inputs are removed — except
    those whose name is the name of a shard finished in this or an earlier round (`finished_shard_hashes`). -/
structure ConsRound where
  merged : Shard.DirShard
  removed : List Hash

/-- the rounds of `consolidate_shards_in_directory`, statement by statement as `Shard.consolidateAux` -/
def consolidateRounds (P : HashPrims) (target : Nat) : Nat → List Shard.DirShard → List Hash → Except Shard.Err (List ConsRound)
  | 0, _, _ => .ok []
  | _, [], _ => .ok []
  | fuel+1, s :: rest, finishedHashes =>
    let n := Shard.groupEnd target s.bytes.length (rest.map (·.bytes.length)) 0
    if n = 0 then consolidateRounds P target fuel rest (s.name :: finishedHashes)
    else
      match Shard.unionChain s.bytes (rest.take n) with
      | .error e => .error e
      | .ok merged =>
        let new : Shard.DirShard := ⟨P.dataHash merged, merged⟩
        let fh := new.name :: finishedHashes
        let toRemove := ((s :: rest.take n).map (·.name)).filter fun h => !fh.contains h
        match consolidateRounds P target fuel (rest.drop n) fh with
        | .error e => .error e
        | .ok rs => .ok (⟨new, toRemove⟩ :: rs)

/-- effect sequence of a consolidation, given for every round its uuid and the pieces of its copy loop -/
def consRoundFx (r : ConsRound) (uuid : Name) (pieces : List Bytes) : Round Name :=
  ⟨tempShardName uuid, shardName r.merged.name, pieces, r.removed.map shardName⟩

def zipRounds : List ConsRound → List (Name × List Bytes) → List (Round Name)
  | r :: rs, (u, ps) :: os => consRoundFx r u ps :: zipRounds rs os
  | _, _ => []

def consolidateFx (P : HashPrims) (target : Nat) (shards : List Shard.DirShard) (oracle : List (Name × List Bytes)) :
    Except Shard.Err (List (Effect Name)) :=
  match consolidateRounds P target (shards.length + 1) shards [] with
  | .error e => .error e
  | .ok rs => .ok (roundsFx (zipRounds rs oracle))

/-- `SafeFileCreator::new(dest)` … `close()`: temp file next to the destination, `rename`, then the
    permission calls (`set_permissions`, for `replace_existing` also the saved metadata) -/
def safeFileFx {P : Type} (tmp dest : P) (pieces : List Bytes) (chmods : Nat) : List (Effect P) :=
  writeSeq tmp dest pieces ++ List.replicate chmods (.chmod dest)

/-- `LocalClient::put` of an object that does not exist yet: `SafeFileCreator` on `default.{hash}`,
    afterwards the file is made read-only -/
def localPutFx (h : Hash) (dir rnd : Name) (pieces : List Bytes) : List (Effect Name) :=
  safeFileFx (safeTempName (some dir) rnd) (xorbName h) pieces 2

/-- `DiskCache::put_impl` after the "already there?" check: parents created, the item file written through
    `SafeFileCreator`, then the subsumed items and the evicted items are unlinked (evicted ones with the
    clean-up of emptied directories).  `evicted` is the oracle's choice. -/
def cachePutFx (k : Cache.Key) (it : Cache.Item) (rnd : Name) (pieces : List Bytes)
    (subsumed : List Cache.Item) (evicted : List (Cache.Key × Cache.Item × Nat)) : List (Effect Cache.Path) :=
  [.mkdir [Cache.prefixDirName k], .mkdir (Cache.keyPath k)] ++
  safeFileFx (Cache.keyPath k ++ [safeTempName (some (Cache.keyDirName k)) rnd]) (Cache.itemPath k it) pieces 1 ++
  subsumed.map (fun s => .unlink (Cache.itemPath k s)) ++
  evicted.flatMap fun e =>
    [.unlink (Cache.itemPath e.1 e.2.1)] ++
      (if e.2.2 ≥ 1 then [.rmdir (Cache.keyPath e.1)] else []) ++ (if e.2.2 ≥ 2 then [.rmdir [Cache.prefixDirName e.1]] else [])

/-! ## (4) what a restart accepts -/

/-- shard directory scan (`scan_impl`): the regex decides; nothing is deleted -/
def shardFinal (n : Name) : Bool := (parseShardName n).isSome

/-- a shard file consistent with its name: the name is the hash of the content -/
def shardOk (P : HashPrims) (n : Name) (c : Bytes) : Prop := parseShardName n = some (P.dataHash c)

/-- local store: the names `exists` / `get` can reach (`get_all_entries` lists `parseEntryName`-accepted names) -/
def xorbFinal (n : Name) : Bool := (parseXorbName n).isSome

/-- a cache path `[prefix dir, key dir, file]` whose file name decodes as an item -/
def cacheFinal (p : Cache.Path) : Bool :=
  match p with
  | [_, _, name] => (Cache.parseFileName name).isSome
  | _ => false

/-- a cache file consistent with its name: length and checksum as encoded in the name
    (`try_parse_cache_file` checks the length at start-up, `get` the checksum on first use) -/
def cacheOk (crc : Bytes → UInt32) (p : Cache.Path) (c : Bytes) : Prop :=
  ∀ it, Cache.parseFileName (p.getLast?.getD []) = some it → c.length = it.len.toNat ∧ crc c = it.crc

/-- what the start-up scan of the cache deletes (`try_parse_cache_file`: undecodable name or wrong length;
    files larger than the capacity are left alone and not tracked) -/
def cacheScanRemoves (cap : Nat) (p : Cache.Path) (c : Bytes) : Bool :=
  match p with
  | [_, _, name] => Cache.parseCacheFile cap name (.file c) == .remove
  | _ => false

/-- the files a restart sees under final names -/
def visible {P : Type} (final : P → Bool) (fs : FS P) : FS P := fs.filter fun e => final e.1

/-- abstract listing for the correspondence: (path, length) -/
def lengths {P : Type} (fs : FS P) : List (P × Nat) := fs.map fun e => (e.1, e.2.length)

end Xet.CrashFS
