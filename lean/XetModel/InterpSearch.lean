/-
Model of `mdb_shard::interpolation_search::search_on_sorted_u64s`
(/repo/mdb_shard/src/interpolation_search.rs), statement by statement.

* Positions `lo`, `hi`, `probe` are the code's 1-based positions with the two ghost entries `0` and
  `n+1`; the table itself is addressed by the 0-based *entry offset* the reader sees
  (`read_start + off * pair_size`), so position `i` is entry offset `i - 1` -- the code's
  `(probe_index - 1) * pair_size`.
* Every `u64` subtraction is `csub` (dev-profile Rust panics on underflow -> `Err.underflow`), every
  `u64` addition/multiplication is `cadd`/`cmul` (`Err.overflow` at 2^64), every read of the table is
  `readKey`/`readVal` (`Err.oob` when the entry offset is not inside the table).  So "no panic, no read
  outside the table, terminates" is the statement `search … = .ok r`.
* The `f64` expression inside `compute_probe_location` is the arbitrary function `φ` (it returns the
  value of `lo + (…).floor() as u64`); the clamp `.max(lo + 1).min(hi - 1)` and the three `u64`
  subtractions feeding the float expression are modelled exactly.  `interpProbe` is the concrete `φ`
  used by the driver: an exact integer emulation of the IEEE-754 binary64 computation.
* `write_result` keeps at most `result.len()` values: `writeResult`.
* Loops carry fuel (`n + 2` for the probing loop, `n + 1` for the final scan); running out of fuel is
  the explicit outcome `Err.fuel`, proved impossible.
* `seeks` logs the entry offset of every `reader.seek` (most recent first) for the correspondence.
-/
namespace Xet.InterpSearch

inductive Err where
  | underflow | overflow | oob | fuel
  deriving DecidableEq, Repr

def u64Max : Nat := 18446744073709551615

/-- `a - b` on `u64` in the dev profile. -/
def csub (a b : Nat) : Except Err Nat := if b ≤ a then .ok (a - b) else .error .underflow
/-- `a + b` on `u64` in the dev profile. -/
def cadd (a b : Nat) : Except Err Nat := if a + b ≤ u64Max then .ok (a + b) else .error .overflow
/-- `a * b` on `u64` in the dev profile. -/
def cmul (a b : Nat) : Except Err Nat := if a * b ≤ u64Max then .ok (a * b) else .error .overflow

/-- The serialized table: `n` entries `(key, value)`; `key off`/`val off` are what a reader positioned
    at entry offset `off` (0-based) reads.  Only offsets `< n` are ever legal. -/
structure Table where
  n : Nat
  key : Nat → Nat
  val : Nat → Nat

/-- `read_u64(reader)` with the cursor at entry offset `off`. -/
def readKey (t : Table) (off : Nat) : Except Err Nat := if off < t.n then .ok (t.key off) else .error .oob
/-- `read_value_function(reader)` for the entry at offset `off`. -/
def readVal (t : Table) (off : Nat) : Except Err Nat := if off < t.n then .ok (t.val off) else .error .oob

structure Params where
  /-- `READ_WINDOW_SIZE` -/
  W : Nat
  /-- `EXPECTED_MAX_NUM_DUPLICATES` -/
  D : Nat
  /-- `result.len()` -/
  cap : Nat
  /-- `read_start` -/
  readStart : Nat
  /-- `pair_size = size_of::<Value>() + size_of::<u64>()` -/
  pairSize : Nat

/-- the float part of `compute_probe_location`: arguments `lo lo_key hi hi_key key`, result the value of
    `lo + (… ).floor() as u64` before clamping. -/
abbrev Probe := Nat → Nat → Nat → Nat → Nat → Nat

/-- the closure `write_result`. -/
def writeResult (cap : Nat) (out : List Nat) (v : Nat) : List Nat :=
  if out.length < cap then out ++ [v] else out

/-- the closure `compute_probe_location(lo, lo_key, hi, hi_key)`; the three `csub`s are the `u64`
    subtractions `key - lo_key`, `hi_key - lo_key`, `hi - lo` that feed the float expression. -/
def computeProbe (φ : Probe) (key lo loKey hi hiKey : Nat) : Except Err Nat := do
  let _ ← csub key loKey
  let _ ← csub hiKey loKey
  let _ ← csub hi lo
  let l1 ← cadd lo 1
  let h1 ← csub hi 1
  pure (min (max (φ lo loKey hi hiKey key) l1) h1)

/-- `reader.seek(SeekFrom::Start(read_start + off * pair_size))`; returns the entry offset. -/
def seekEntry (p : Params) (off : Nat) : Except Err Nat := do
  let b ← cmul off p.pairSize
  let _ ← cadd p.readStart b
  pure off

structure St where
  lo : Nat
  loKey : Nat
  hi : Nat
  hiKey : Nat
  probe : Nat
  /-- `result[..result_write_idx]` -/
  out : List Nat
  /-- entry offsets of all seeks so far, most recent first -/
  seeks : List Nat

/-- `Ordering::Less` arm. -/
def stepLess (φ : Probe) (p : Params) (key : Nat) (s : St) (probeKey : Nat) : Except Err St := do
  let cand ← computeProbe φ key s.lo s.loKey s.probe probeKey
  let cw ← cadd cand p.W
  if s.probe < cw then
    let l1 ← cadd s.lo 1
    let d ← csub s.probe l1
    let np ← csub s.probe (min p.W d)
    pure ⟨s.lo, s.loKey, s.probe, probeKey, np, s.out, s.seeks⟩
  else
    pure ⟨s.lo, s.loKey, s.probe, probeKey, cand, s.out, s.seeks⟩

/-- `for _ in (probe_index + 1)..hi { if read_u64 != key { break }; write_result(read_value) }`:
    `cnt` iterations left, reader cursor at entry offset `cur`. -/
def batch (t : Table) (key cap : Nat) : Nat → Nat → List Nat → Except Err (List Nat)
  | 0, _, out => .ok out
  | cnt+1, cur, out => do
    let k ← readKey t cur
    if k = key then
      let v ← readVal t cur
      batch t key cap cnt (cur + 1) (writeResult cap out v)
    else
      pure out

/-- `Ordering::Equal` arm; `off` is the entry offset of the probe (cursor after `read_u64`). -/
def stepEqual (p : Params) (t : Table) (key : Nat) (s : St) (off probeKey : Nat) : Except Err St := do
  let v ← readVal t off
  let p1 ← cadd s.probe 1
  -- a Rust range `a..b` with `a ≥ b` is empty: the truncated subtraction is the range length
  let out ← batch t key p.cap (s.hi - p1) (off + 1) (writeResult p.cap s.out v)
  let l1 ← cadd s.lo 1
  let d ← csub s.probe l1
  let np ← csub s.probe (min p.D d)
  pure ⟨s.lo, s.loKey, s.probe, probeKey, np, out, s.seeks⟩

/-- `Ordering::Greater` arm. -/
def stepGreater (φ : Probe) (p : Params) (key : Nat) (s : St) (probeKey : Nat) : Except Err St := do
  let cand ← computeProbe φ key s.probe probeKey s.hi s.hiKey
  let d ← csub cand s.probe
  if d ≤ p.W then
    let a ← cadd s.probe p.W
    let h1 ← csub s.hi 1
    pure ⟨s.probe, probeKey, s.hi, s.hiKey, min a h1, s.out, s.seeks⟩
  else
    pure ⟨s.probe, probeKey, s.hi, s.hiKey, cand, s.out, s.seeks⟩

/-- one iteration of `while lo + READ_WINDOW_SIZE < hi`. -/
def step (φ : Probe) (p : Params) (t : Table) (key : Nat) (s : St) : Except Err St := do
  let off0 ← csub s.probe 1
  let off ← seekEntry p off0
  let probeKey ← readKey t off
  let s1 : St := ⟨s.lo, s.loKey, s.hi, s.hiKey, s.probe, s.out, off :: s.seeks⟩
  if key < probeKey then stepLess φ p key s1 probeKey
  else if key = probeKey then stepEqual p t key s1 off probeKey
  else stepGreater φ p key s1 probeKey

/-- `while lo + READ_WINDOW_SIZE < hi { … }`. -/
def mainLoop (φ : Probe) (p : Params) (t : Table) (key : Nat) : Nat → St → Except Err St
  | 0, s => do
    let g ← cadd s.lo p.W
    if g < s.hi then .error .fuel else pure s
  | fuel+1, s => do
    let g ← cadd s.lo p.W
    if g < s.hi then
      let s' ← step φ p t key s
      mainLoop φ p t key fuel s'
    else pure s

/-- `while lo + 1 < hi { read key, value; lo += 1; match … }` after the seek to entry offset `lo`
    (the reader cursor equals `lo` throughout). -/
def scan (t : Table) (key cap : Nat) : Nat → Nat → Nat → List Nat → Except Err (List Nat)
  | 0, lo, hi, out => do
    let l1 ← cadd lo 1
    if l1 < hi then .error .fuel else pure out
  | fuel+1, lo, hi, out => do
    let l1 ← cadd lo 1
    if l1 < hi then
      let k ← readKey t lo
      let v ← readVal t lo
      if key < k then pure out
      else if key = k then scan t key cap fuel l1 hi (writeResult cap out v)
      else scan t key cap fuel l1 hi out
    else pure out

structure Res where
  /-- `result[..n_found]` in the order written -/
  out : List Nat
  /-- entry offsets of all seeks, in the order performed -/
  seeks : List Nat
  deriving DecidableEq, Repr

/-- `search_on_sorted_u64s(reader, read_start, num_entries = t.n, key, read_value_function, result)`. -/
def search (φ : Probe) (p : Params) (t : Table) (key : Nat) : Except Err Res :=
  if p.cap = 0 then .ok ⟨[], []⟩
  else do
    let hi ← cadd t.n 1
    let pr ← computeProbe φ key 0 0 hi u64Max
    let s ← mainLoop φ p t key (t.n + 2) ⟨0, 0, hi, u64Max, pr, [], []⟩
    let off ← seekEntry p s.lo
    let out ← scan t key p.cap (t.n + 1) s.lo s.hi s.out
    pure ⟨out, (off :: s.seeks).reverse⟩

/-! ### Specification side -/

/-- values of the entries with key `key` among the `cnt` entries starting at offset `a`, ascending. -/
def valsIn (t : Table) (key : Nat) : Nat → Nat → List Nat
  | _, 0 => []
  | a, cnt+1 => if t.key a = key then t.val a :: valsIn t key (a + 1) cnt else valsIn t key (a + 1) cnt

/-- all values stored under `key`, in table order. -/
def valuesAt (t : Table) (key : Nat) : List Nat := valsIn t key 0 t.n

/-- keys non-decreasing over the table. -/
def Sorted (t : Table) : Prop := ∀ a b, a ≤ b → b < t.n → t.key a ≤ t.key b

/-- list-backed table (entry `i` of the list is entry offset `i`). -/
def Table.ofList (l : List (Nat × Nat)) : Table :=
  ⟨l.length, fun o => (l.getD o (0, 0)).1, fun o => (l.getD o (0, 0)).2⟩

/-- array-backed table for the driver. -/
def Table.ofArrays (ks vs : Array Nat) : Table :=
  ⟨ks.size, fun o => ks.getD o 0, fun o => vs.getD o 0⟩

/-! ### `interpProbe`: exact integer emulation of the binary64 expression
    `lo + ((key - lo_key) as f64 / (hi_key - lo_key) as f64 * (hi - lo) as f64).floor() as u64`.
    A non-negative finite double is represented exactly as a fraction `num / den`. -/

structure Frac where
  num : Nat
  den : Nat
  deriving Repr

/-- nearest integer to `a / b` (`b > 0`), ties to even. -/
def rneDiv (a b : Nat) : Nat :=
  let q := a / b
  let r := a % b
  if 2 * r < b then q
  else if b < 2 * r then q + 1
  else if q % 2 = 0 then q else q + 1

/-- round the positive rational `num / den` to the nearest binary64 (53-bit significand, ties to even);
    exponent range is never an issue for the magnitudes that occur here (2^-64 … 2^64). -/
def rne53 (num den : Nat) : Frac :=
  if num = 0 then ⟨0, 1⟩
  else
    let q := (num <<< 200) / den          -- floor(num/den * 2^200) ≥ 1 for num/den ≥ 2^-200
    let l := Nat.log2 q                    -- floor(log2 (num/den)) + 200
    if l ≤ 252 then
      let s := 252 - l                     -- scale so that 2^52 ≤ num/den * 2^s < 2^53
      ⟨rneDiv (num <<< s) den, 1 <<< s⟩
    else
      let s := l - 252
      ⟨rneDiv num (den <<< s) <<< s, 1⟩

/-- `(dk as f64 / dh as f64 * w as f64).floor() as u64` (`as u64` saturates; NaN ↦ 0). -/
def interpTerm (dk dh w : Nat) : Nat :=
  let a := rne53 dk 1
  let b := rne53 dh 1
  let c := rne53 w 1
  if b.num = 0 then
    -- x / 0.0: NaN for x = 0 (and NaN * c = NaN ↦ 0), +inf otherwise (inf * 0 = NaN ↦ 0, else saturate)
    if a.num = 0 then 0 else if c.num = 0 then 0 else u64Max
  else
    let r := rne53 (a.num * b.den) (a.den * b.num)
    let m := rne53 (r.num * c.num) (r.den * c.den)
    min (m.num / m.den) u64Max

/-- the concrete `φ` of the code. -/
def interpProbe : Probe := fun lo loKey hi hiKey key =>
  lo + interpTerm (key - loKey) (hiKey - loKey) (hi - lo)

end Xet.InterpSearch
