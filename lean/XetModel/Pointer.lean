/-
Model of the pointer-file glue `data/src/pointer_file.rs` (xet-core):
`PointerFile::{init_from_string, init_from_path (gates only), init_from_info, is_valid, hash,
hash_string, filesize}`, `impl Display for PointerFile`, `is_xet_pointer_file`, and of the part of the
`toml` crate (0.5.11: `tokens.rs`, `de.rs`, `value.rs`, `ser.rs`) those functions reach.

STRINGS ARE BYTES.  A Rust `&str`/`String` is modelled as its UTF-8 byte sequence `List UInt8`
(`Xet.Bytes`), because `Hash.hex` already is ASCII bytes, `is_xet_pointer_file` takes `&[u8]`, and
`POINTER_FILE_LIMIT` counts bytes.  The Rust code works on `char`s; on *valid UTF-8* the two views agree
for everything modelled here, because every character test of the tokenizer either singles out an ASCII
character or asks "`ch >= 0x20` and `ch != 0x7f`" (true for every non-ASCII char and for each of its bytes,
which are all `>= 0x80`).  `init_from_string` takes a `&str`, so its argument is valid UTF-8 by typing;
`is_xet_pointer_file` checks it (`utf8Valid`).

THE MODELLED GRAMMAR.  The TOML parser model answers `Res.outside` exactly when the real parser would enter
a construct that is not modelled: table headers `[..]`, dotted keys `a.b`, arrays, inline tables, multi-line
strings (`'''`, `"""`), `\u`/`\U` escapes in basic strings, date-times (a number-like token containing
`T`/`t`/an inner `-`, or followed by `:`), floats with an exponent, floats with more than 300 integral
digits, and the private key `$__toml_private_datetime` as first key.  Everything else (comments, blank
lines, LF/CRLF, whitespace, bare and quoted keys, literal and basic single-line strings, booleans,
decimal/hex/octal/binary integers with signs, underscores, the leading-zero rule and the i64 range, simple
floats, `inf`/`nan`, duplicate keys, every tokenizer/parser error) is modelled statement by statement.  All
parse errors are one value `Res.err`: `init_from_string` cannot tell them apart.
"The modelled grammar" = the set of texts on which the model does not answer `outside`.
-/
import XetModel.Hash

namespace Xet.Pointer
open Xet

/-! ## constants -/

/-- `POINTER_FILE_LIMIT` -/
def POINTER_FILE_LIMIT : Nat := 150

/-- `HEADER_PREFIX = "# xet version "` (14 bytes) -/
def HEADER_PREFIX : Bytes := [35, 32, 120, 101, 116, 32, 118, 101, 114, 115, 105, 111, 110, 32]

/-- `CURRENT_VERSION = "0"` -/
def CURRENT_VERSION : Bytes := [48]

/-- `"hash"` -/
def KEY_HASH : Bytes := [104, 97, 115, 104]
/-- `"filesize"` -/
def KEY_FILESIZE : Bytes := [102, 105, 108, 101, 115, 105, 122, 101]
/-- `"# invalid pointer file"` -/
def INVALID_TEXT : Bytes :=
  [35, 32, 105, 110, 118, 97, 108, 105, 100, 32, 112, 111, 105, 110, 116, 101, 114, 32, 102, 105, 108, 101]
/-- `toml::datetime::FIELD = "$__toml_private_datetime"` -/
def MAGIC_DATETIME_KEY : Bytes :=
  [36, 95, 95, 116, 111, 109, 108, 95, 112, 114, 105, 118, 97, 116, 101, 95, 100, 97, 116, 101, 116, 105,
   109, 101]

/-- `i64::MAX` -/
def I64_MAX : Nat := 9223372036854775807

/-! ## `str::lines().take(1).collect::<String>()` -/

structure Line1 where
  line : Bytes
  terminated : Bool

/-- the text up to (excluding) the first `'\n'`, and whether there was one -/
def scanLine : Bytes → Line1
  | [] => ⟨[], false⟩
  | c :: cs => if c.toNat == 10 then ⟨[], true⟩ else ⟨c :: (scanLine cs).line, (scanLine cs).terminated⟩

/-- `strip_suffix('\r')` -/
def stripCr (l : Bytes) : Bytes := if l.getLast? == some 13 then l.dropLast else l

/-- first element of `str::lines()` (Rust 1.95: `split_inclusive('\n')`, then strip one `"\n"` and, only if
    a `"\n"` was stripped, one `"\r"`), or `""` when there is no line. -/
def firstLine (t : Bytes) : Bytes :=
  if (scanLine t).terminated then stripCr (scanLine t).line else (scanLine t).line

/-! ## tokenizer (`toml::tokens`) -/

/-- outcome of a parser function: a value, a TOML error, or an un-modelled construct -/
inductive Res (α : Type) where
  | ok (a : α)
  | err
  | outside
  deriving Repr

/-- `CrlfFold`: the char iterator of the tokenizer yields `'\n'` for `"\r\n"`.  Everything the modelled
    subset does with the input goes through that iterator (the raw-slice accesses of the real tokenizer
    are for tokens that cannot contain a line break, or for multi-line strings = outside), so folding
    up-front is equivalent. -/
def crlfFold : Bytes → Bytes
  | [] => []
  | [c] => [c]
  | c :: d :: cs => if c.toNat == 13 && d.toNat == 10 then 10 :: crlfFold cs else c :: crlfFold (d :: cs)

/-- `is_keylike` -/
def isKeylike (c : UInt8) : Bool :=
  (65 ≤ c.toNat && c.toNat ≤ 90) || (97 ≤ c.toNat && c.toNat ≤ 122) || (48 ≤ c.toNat && c.toNat ≤ 57)
    || c.toNat == 45 || c.toNat == 95

/-- a space or a tab -/
def isWs (c : UInt8) : Bool := c.toNat == 32 || c.toNat == 9

/-- `comment_token` accepts `'\t'` and every char `>= 0x20` (0x7f included) -/
def commentChar (c : UInt8) : Bool := c.toNat == 9 || 32 ≤ c.toNat

/-- string bodies accept `'\t'` and every char `>= 0x20` except `0x7f` -/
def strChar (c : UInt8) : Bool := c.toNat == 9 || (32 ≤ c.toNat && c.toNat != 127)

/-- `eat_whitespace` / the loop of `whitespace_token` -/
def skipWs : Bytes → Bytes
  | [] => []
  | c :: cs => if isWs c then skipWs cs else c :: cs

/-- the loop of `comment_token` -/
def skipComment : Bytes → Bytes
  | [] => []
  | c :: cs => if commentChar c then skipComment cs else c :: cs

structure Scan where
  val : Bytes
  rest : Bytes

/-- the loop of `keylike` -/
def spanKeylike : Bytes → Scan
  | [] => ⟨[], []⟩
  | c :: cs => if isKeylike c then ⟨c :: (spanKeylike cs).val, (spanKeylike cs).rest⟩ else ⟨[], c :: cs⟩

inductive StrRes where
  | ok (val : Bytes) (rest : Bytes)
  | err
  | outside

def StrRes.cons (c : UInt8) : StrRes → StrRes
  | .ok v r => .ok (c :: v) r
  | .err => .err
  | .outside => .outside

/-- body of a single-line literal string (after the opening `'`): `read_string` loop with the
    `literal_string` character callback -/
def litBody : Bytes → StrRes
  | [] => .err                                    -- UnterminatedString
  | c :: cs =>
    if c.toNat == 10 then .err                    -- NewlineInString
    else if c.toNat == 39 then .ok [] cs
    else if strChar c then (litBody cs).cons c
    else .err                                     -- InvalidCharInString

/-- body of a single-line basic string (after the opening `"`) -/
def basicBody : Bytes → StrRes
  | [] => .err
  | [c] => if c.toNat == 34 then .ok [] [] else .err          -- (a lone `\` is unterminated too)
  | c :: d :: cs =>
    if c.toNat == 10 then .err
    else if c.toNat == 34 then .ok [] (d :: cs)
    else if c.toNat == 92 then
      if d.toNat == 34 then (basicBody cs).cons 34
      else if d.toNat == 92 then (basicBody cs).cons 92
      else if d.toNat == 98 then (basicBody cs).cons 8
      else if d.toNat == 102 then (basicBody cs).cons 12
      else if d.toNat == 110 then (basicBody cs).cons 10
      else if d.toNat == 114 then (basicBody cs).cons 13
      else if d.toNat == 116 then (basicBody cs).cons 9
      else if d.toNat == 117 || d.toNat == 85 then .outside   -- \uXXXX, \UXXXXXXXX
      else .err                                               -- InvalidEscape (not multi-line)
    else if strChar c then (basicBody (d :: cs)).cons c
    else .err

/-- `read_string` up to the point where the body loop starts: `inp` is the input after the first
    delimiter. -/
def readString (delim : Nat) (body : Bytes → StrRes) (inp : Bytes) : StrRes :=
  match inp with
  | [] => body []
  | c :: cs =>
    if c.toNat == delim then
      match cs with
      | [] => .ok [] []
      | d :: ds => if d.toNat == delim then .outside /- multi-line string -/ else .ok [] (d :: ds)
    else body (c :: cs)

inductive Tok where
  | newline | ws | comment | equals | period | comma | colon | plus
  | lbrace | rbrace | lbracket | rbracket
  | keylike (s : Bytes)
  | str (v : Bytes)
  deriving DecidableEq, Repr

inductive NextRes where
  | eof
  | err
  | outside
  | tok (t : Tok) (rest : Bytes)

def NextRes.ofStr : StrRes → NextRes
  | .ok v r => .tok (.str v) r
  | .err => .err
  | .outside => .outside

/-- `Tokenizer::next` (on the CRLF-folded input).  `peek` = `next` without using the rest. -/
def next : Bytes → NextRes
  | [] => .eof
  | c :: cs =>
    if c.toNat == 10 then .tok .newline cs
    else if c.toNat == 32 then .tok .ws (skipWs cs)
    else if c.toNat == 9 then .tok .ws (skipWs cs)
    else if c.toNat == 35 then .tok .comment (skipComment cs)
    else if c.toNat == 61 then .tok .equals cs
    else if c.toNat == 46 then .tok .period cs
    else if c.toNat == 44 then .tok .comma cs
    else if c.toNat == 58 then .tok .colon cs
    else if c.toNat == 43 then .tok .plus cs
    else if c.toNat == 123 then .tok .lbrace cs
    else if c.toNat == 125 then .tok .rbrace cs
    else if c.toNat == 91 then .tok .lbracket cs
    else if c.toNat == 93 then .tok .rbracket cs
    else if c.toNat == 39 then .ofStr (readString 39 litBody cs)
    else if c.toNat == 34 then .ofStr (readString 34 basicBody cs)
    else if isKeylike c then .tok (.keylike (c :: (spanKeylike cs).val)) (spanKeylike cs).rest
    else .err                                     -- Unexpected

/-- `eat_newline_or_eof` -/
def eatNewlineOrEof (inp : Bytes) : Res Bytes :=
  match next inp with
  | .eof => .ok []
  | .tok .newline r => .ok r
  | .tok _ _ => .err
  | .err => .err
  | .outside => .outside

/-- `eat_comment`: `ok none` = no `#` here; `ok (some rest)` = comment and its line end consumed -/
def eatComment (inp : Bytes) : Res (Option Bytes) :=
  match inp with
  | [] => .ok none
  | c :: cs =>
    if c.toNat == 35 then
      match eatNewlineOrEof (skipComment cs) with
      | .ok r => .ok (some r)
      | .err => .err
      | .outside => .outside
    else .ok none

/-! ## numbers (`de.rs`: `parse_integer`, `integer`, `float`, `number`, `number_or_date`) -/

/-- `c.is_digit(radix)` -/
def isDigitRadix (radix : Nat) (c : UInt8) : Bool :=
  match Hash.charDigit c with
  | some d => d < radix
  | none => false

inductive PI where
  | err
  | done (endIdx : Nat) (first : Bool) (underscore : Bool)

/-- the `for (i, c) in s.char_indices()` loop of `parse_integer` after the optional sign; the state is
    (`first`, `first_zero`, `underscore`), `i` the index of the current char. -/
def piLoop (allowLZ : Bool) (radix : Nat) : Bool → Bool → Bool → Nat → Bytes → PI
  | first, _, us, i, [] => .done i first us
  | first, fz, us, i, c :: cs =>
    if c.toNat == 48 && first then piLoop allowLZ radix false true us (i + 1) cs
    else if isDigitRadix radix c then
      if !first && fz && !allowLZ then .err else piLoop allowLZ radix false fz false (i + 1) cs
    else if c.toNat == 95 && first then .err
    else if c.toNat == 95 && !us then piLoop allowLZ radix false fz true (i + 1) cs
    else .done i first us

structure Split where
  pre : Bytes
  suf : Bytes

def piFinish (s : Bytes) : PI → Option Split
  | .err => none
  | .done e first us => if first || us then none else some ⟨s.take e, s.drop e⟩

/-- `parse_integer(s, allow_sign, allow_leading_zeros, radix)`: `none` = `NumberInvalid` -/
def parseInteger (s : Bytes) (allowSign allowLZ : Bool) (radix : Nat) : Option Split :=
  match s with
  | [] => none
  | c :: cs =>
    if (c.toNat == 43 || c.toNat == 45) && allowSign then
      piFinish s (piLoop allowLZ radix true false false 1 cs)
    else piFinish s (piLoop allowLZ radix true false false 0 s)

def digitStep (radix : Nat) (a : Nat) (c : UInt8) : Nat :=
  match Hash.charDigit c with
  | some d => a * radix + d
  | none => a

/-- digits of `prefix.replace('_', "")` folded most-significant first (`from_str_radix`); chars that are
    not digits cannot occur after `parse_integer` -/
def digitsVal (radix : Nat) (s : Bytes) : Nat := s.foldl (digitStep radix) 0

/-- `i64::from_str_radix(prefix.replace('_', "").trim_start_matches('+'), radix)` on a prefix accepted by
    `parse_integer` (no `+` can occur inside a Keylike token): `none` = overflow -/
def fromStrRadix (p : Bytes) (radix : Nat) : Option Int :=
  let q := p.filter (fun c => c.toNat != 95)
  match q with
  | [] => none
  | c :: cs =>
    if c.toNat == 45 then
      if digitsVal radix cs ≤ I64_MAX + 1 then some (- Int.ofNat (digitsVal radix cs)) else none
    else if digitsVal radix q ≤ I64_MAX then some (Int.ofNat (digitsVal radix q)) else none

/-- `Deserializer::integer(s, radix)` -/
def integer (s : Bytes) (radix : Nat) : Option Int :=
  match parseInteger s (radix == 10) (radix != 10) radix with
  | none => none
  | some sp => if sp.suf.isEmpty then fromStrRadix sp.pre radix else none

inductive Val where
  | str (s : Bytes)
  | int (i : Int)
  | bool (b : Bool)
  | float                     -- the float's value is never looked at by `pointer_file.rs`
  deriving DecidableEq, Repr

structure ValRest where
  val : Val
  rest : Bytes

def contains (s : Bytes) (n : Nat) : Bool := s.any (fun c => c.toNat == n)

/-- `s.contains("ab")` for a two-char pattern -/
def hasPair (a b : Nat) : Bytes → Bool
  | [] => false
  | [_] => false
  | c :: d :: cs => (c.toNat == a && d.toNat == b) || hasPair a b (d :: cs)

def startsWith2 (s : Bytes) (a b : Nat) : Bool :=
  match s with
  | c :: d :: _ => c.toNat == a && d.toNat == b
  | _ => false

def countDigits (s : Bytes) : Nat := (s.filter (fun c => 48 ≤ c.toNat && c.toNat ≤ 57)).length

def headIsE (s : Bytes) : Bool :=
  match s with
  | c :: _ => c.toNat == 101 || c.toNat == 69
  | [] => false

/-- the digits of an exponent: a syntactically valid exponent makes the float `outside` (finiteness of the
    `f64` is not modelled), an invalid one is `NumberInvalid` -/
def expDigits (e : Bytes) (allowSign : Bool) : Res ValRest :=
  match parseInteger e allowSign true 10 with
  | none => .err
  | some sp3 => if sp3.suf.isEmpty then .outside else .err

/-- `float`: the exponent branch (`suffix` starts with `e`/`E`).  When the suffix is just the `e`, the sign
    and digits are the next tokens:
    `self.eat(Token::Plus)?; match self.next()? { Keylike(s) => parse_integer(s, false, true, 10)?, _ => err }` -/
def floatExponent (suffix rest : Bytes) : Res ValRest :=
  if suffix.length == 1 then
    match next rest with
    | .err => .err
    | .outside => .outside
    | .tok .plus r1 =>
      (match next r1 with
       | .tok (.keylike e) _ => expDigits e false
       | .outside => .outside
       | _ => .err)
    | .tok (.keylike e) _ => expDigits e false
    | _ => .err
  else expDigits (suffix.drop 1) true

/-- `float` after the integral part `pre` and the optional fraction; `suffix` is what is left of the token -/
def floatTail (pre suffix rest : Bytes) : Res ValRest :=
  if headIsE suffix then floatExponent suffix rest
  else if !suffix.isEmpty then .err
  else if countDigits pre ≤ 300 then .ok ⟨.float, rest⟩ else .outside

/-- the `suffix` after the optional fraction; `none` = `NumberInvalid` -/
def fracSuffix (sp : Split) (after : Option Bytes) : Option Bytes :=
  match after with
  | none => some sp.suf
  | some a =>
    if !sp.suf.isEmpty then none
    else match parseInteger a false true 10 with
      | none => none
      | some sp2 => some sp2.suf

/-- `Deserializer::float(s, after_decimal)`; `rest` is the input after the tokens consumed so far.
    A syntactically valid exponent form, or more than 300 integral digits, is `outside` (finiteness of the
    `f64` is not modelled). -/
def float (s : Bytes) (after : Option Bytes) (rest : Bytes) : Res ValRest :=
  match parseInteger s true false 10 with
  | none => .err
  | some sp =>
    match fracSuffix sp after with
    | none => .err
    | some suffix => floatTail sp.pre suffix rest

def optInt (o : Option Int) (rest : Bytes) : Res ValRest :=
  match o with
  | some i => .ok ⟨.int i, rest⟩
  | none => .err

def S_INF : Bytes := [105, 110, 102]
def S_NAN : Bytes := [110, 97, 110]
def S_TRUE : Bytes := [116, 114, 117, 101]
def S_FALSE : Bytes := [102, 97, 108, 115, 101]

/-- `Deserializer::number(span, s)`; `rest` = input after the Keylike token `s` -/
def number (s : Bytes) (rest : Bytes) : Res ValRest :=
  if startsWith2 s 48 120 then optInt (integer (s.drop 2) 16) rest
  else if startsWith2 s 48 111 then optInt (integer (s.drop 2) 8) rest
  else if startsWith2 s 48 98 then optInt (integer (s.drop 2) 2) rest
  else if contains s 101 || contains s 69 then float s none rest
  else
    match next rest with                         -- `self.eat(Token::Period)?`
    | .err => .err
    | .outside => .outside
    | .tok .period r1 =>
      (match next r1 with
       | .tok (.keylike a) r2 => float s (some a) r2
       | .outside => .outside
       | _ => .err)
    | _ =>
      if s == S_INF || s == 45 :: S_INF || s == S_NAN || s == 45 :: S_NAN then .ok ⟨.float, rest⟩
      else optInt (integer s 10) rest

/-- `Deserializer::number_or_date(span, s)` -/
def numberOrDate (s : Bytes) (rest : Bytes) : Res ValRest :=
  if contains s 84 || contains s 116
      || (s.length > 1 && contains (s.drop 1) 45 && !hasPair 101 45 s && !hasPair 69 45 s) then
    .outside                                     -- datetime
  else
    match next rest with                         -- `self.eat(Token::Colon)?`
    | .err => .err
    | .outside => .outside
    | .tok .colon _ => .outside                  -- datetime
    | _ => number s rest

def isDecDigit (c : UInt8) : Bool := 48 ≤ c.toNat && c.toNat ≤ 57

/-- the value denoted by a Keylike token at value position (`value` + `parse_keylike`) -/
def keylikeValue (s : Bytes) (rest : Bytes) : Res ValRest :=
  if s == S_TRUE then .ok ⟨.bool true, rest⟩
  else if s == S_FALSE then .ok ⟨.bool false, rest⟩
  else if s == S_INF || s == S_NAN then numberOrDate s rest
  else
    match s with
    | [] => .err
    | c :: _ => if c.toNat == 45 || isDecDigit c then numberOrDate s rest else .err   -- UnquotedString

/-- `Deserializer::value` -/
def value (inp : Bytes) : Res ValRest :=
  match next inp with
  | .eof => .err
  | .err => .err
  | .outside => .outside
  | .tok (.str v) r => .ok ⟨.str v, r⟩
  | .tok (.keylike s) r => keylikeValue s r
  | .tok .plus r =>                              -- `number_leading_plus`
    (match next r with
     | .tok (.keylike s) r2 => number s r2
     | .outside => .outside
     | _ => .err)
  | .tok .lbrace _ => .outside                   -- inline table
  | .tok .lbracket _ => .outside                 -- array
  | .tok _ _ => .err                             -- Wanted "a value"

/-! ## lines and tables (`line`, `key_value`, `tables`) -/

structure KV where
  key : Bytes
  val : Val
  rest : Bytes

/-- what follows the value: `eat_whitespace; if !eat_comment()? { eat_newline_or_eof()? }` -/
def endOfLine (inp : Bytes) : Res Bytes :=
  match eatComment (skipWs inp) with
  | .err => .err
  | .outside => .outside
  | .ok (some r) => .ok r
  | .ok none => eatNewlineOrEof (skipWs inp)

/-- `key_value` after `dotted_key` returned the single key `k`; `inp` = input after the key and
    `eat_whitespace` -/
def afterKey (k : Bytes) (inp : Bytes) : Res KV :=
  match next inp with                            -- `while self.eat(Token::Period)?`
  | .err => .err
  | .outside => .outside
  | .tok .period _ => .outside                   -- dotted key
  | .tok .equals r =>                            -- `expect(Token::Equals)`
    (match value (skipWs r) with
     | .err => .err
     | .outside => .outside
     | .ok vr =>
       match endOfLine vr.rest with
       | .err => .err
       | .outside => .outside
       | .ok r2 => .ok ⟨k, vr.val, r2⟩)
  | _ => .err

/-- `key_value` (first token not `[`) -/
def keyValue (inp : Bytes) : Res KV :=
  match next inp with                            -- `table_key`
  | .tok (.keylike k) r => afterKey k (skipWs r)
  | .tok (.str k) r => afterKey k (skipWs r)
  | .outside => .outside
  | _ => .err

/-- the `loop` at the start of `line()`: skip whitespace, comment lines and empty lines.
    Fuel: every iteration consumes at least one byte; running out is reported as `outside`. -/
def skipBlank : Nat → Bytes → Res Bytes
  | 0, _ => .outside
  | f + 1, inp =>
    match eatComment (skipWs inp) with
    | .err => .err
    | .outside => .outside
    | .ok (some r) => skipBlank f r
    | .ok none =>
      match next (skipWs inp) with               -- `self.eat(Token::Newline)?`
      | .err => .err
      | .outside => .outside
      | .tok .newline r => skipBlank f r
      | _ => .ok (skipWs inp)

abbrev Pairs := List (Bytes × Val)

/-- `tables()` restricted to the header-less root table: the list of `key = value` pairs in text order.
    A `[` at the start of a line is a table header = `outside`. -/
def parseLines : Nat → Bytes → Pairs → Res Pairs
  | 0, _, _ => .outside
  | f + 1, inp, acc =>
    match skipBlank (f + 1) inp with
    | .err => .err
    | .outside => .outside
    | .ok i1 =>
      match next i1 with
      | .eof => .ok acc.reverse
      | .tok .lbracket _ => .outside
      | _ =>
        match keyValue i1 with
        | .err => .err
        | .outside => .outside
        | .ok kv => parseLines f kv.rest ((kv.key, kv.val) :: acc)

def lookup (k : Bytes) : Pairs → Option Val
  | [] => none
  | (k', v) :: ps => if k' == k then some v else lookup k ps

/-- `ValueVisitor::visit_map`: insert in order, a repeated key is the error "duplicate key" -/
def insertAll : Pairs → Pairs → Res Pairs
  | seen, [] => .ok seen
  | seen, (k, v) :: ps => if (lookup k seen).isSome then .err else insertAll ((k, v) :: seen) ps

/-- `contents.parse::<toml::Value>()` for the modelled grammar: the root table as association list -/
def parseToml (contents : Bytes) : Res Pairs :=
  match parseLines ((crlfFold contents).length + 1) (crlfFold contents) [] with
  | .err => .err
  | .outside => .outside
  | .ok ps =>
    match ps with
    | [] => .ok []
    | (k, v) :: rest => if k == MAGIC_DATETIME_KEY then .outside else insertAll [(k, v)] rest

/-! ## `PointerFile` -/

structure PF where
  versionString : Bytes
  isValid : Bool
  hash : Bytes
  filesize : Nat          -- a `u64`: always `< 2^64`
  deriving DecidableEq, Repr

/-- `*i as u64` -/
def i64AsU64 (i : Int) : Nat := (i % 18446744073709551616).toNat

/-- `match parsed.get("hash") { Some(Value::String(s)) => hash = s.to_string(), _ => is_valid = false }` -/
def hashField (tbl : Pairs) : Option Bytes :=
  match lookup KEY_HASH tbl with
  | some (.str s) => some s
  | _ => none

/-- `match parsed.get("filesize") { Some(Value::Integer(i)) => .., _ => is_valid = false }` -/
def sizeField (tbl : Pairs) : Option Int :=
  match lookup KEY_FILESIZE tbl with
  | some (.int i) => some i
  | _ => none

/-- `if *i < 0 { is_valid = false }` -/
def sizeValid : Option Int → Bool
  | some i => decide (0 ≤ i)
  | none => false

/-- `filesize = *i as u64` (stays `0` without an integer) -/
def sizeValue : Option Int → Nat
  | some i => i64AsU64 i
  | none => 0

/-- the part of `init_from_string` after the header checks, given the TOML result (`none` = parse error:
    `is_valid = false` and `Value::String("")`, on which every `get` is `None`, as on an empty table) -/
def fromParsed (parsed : Option Pairs) : PF :=
  ⟨CURRENT_VERSION,
   parsed.isSome && (hashField (parsed.getD [])).isSome && sizeValid (sizeField (parsed.getD [])),
   (hashField (parsed.getD [])).getD [],
   sizeValue (sizeField (parsed.getD []))⟩

/-- `PointerFile::init_from_string(contents, _)` (the `path` field is not modelled).
    `none` = the TOML body is outside the modelled grammar. -/
def initFromString (contents : Bytes) : Option PF :=
  if !(HEADER_PREFIX.isPrefixOf (firstLine contents)) then some ⟨[], false, [], 0⟩
  else if (firstLine contents).drop HEADER_PREFIX.length != CURRENT_VERSION then
    some ⟨(firstLine contents).drop HEADER_PREFIX.length, false, [], 0⟩
  else
    match parseToml contents with
    | .outside => none
    | .err => some (fromParsed none)
    | .ok t => some (fromParsed (some t))

/-- `PointerFile::init_from_info(_, hash, filesize)` -/
def initFromInfo (hash : Bytes) (filesize : Nat) : PF := ⟨CURRENT_VERSION, true, hash, filesize⟩

/-- `PointerFile::hash()`: `none` = `Err(DataHashHexParseError)` -/
def hashOf (pf : PF) : Option Hash := if pf.isValid then Hash.fromHex pf.hash else some Hash.zero

/-- `std::str::from_utf8(data).is_ok()` (Unicode Table 3-7 well-formed byte sequences) -/
def isCont (c : UInt8) : Bool := 128 ≤ c.toNat && c.toNat ≤ 191

def utf8Valid : Bytes → Bool
  | [] => true
  | c :: cs =>
    if c.toNat ≤ 127 then utf8Valid cs
    else if 194 ≤ c.toNat && c.toNat ≤ 223 then
      match cs with
      | d :: r => isCont d && utf8Valid r
      | _ => false
    else if 224 ≤ c.toNat && c.toNat ≤ 239 then
      match cs with
      | d :: e :: r =>
        (if c.toNat == 224 then 160 ≤ d.toNat && d.toNat ≤ 191
         else if c.toNat == 237 then 128 ≤ d.toNat && d.toNat ≤ 159
         else isCont d) && isCont e && utf8Valid r
      | _ => false
    else if 240 ≤ c.toNat && c.toNat ≤ 244 then
      match cs with
      | d :: e :: g :: r =>
        (if c.toNat == 240 then 144 ≤ d.toNat && d.toNat ≤ 191
         else if c.toNat == 244 then 128 ≤ d.toNat && d.toNat ≤ 143
         else isCont d) && isCont e && isCont g && utf8Valid r
      | _ => false
    else false

/-- `is_xet_pointer_file(data)`; `none` = outside the modelled grammar -/
def isXetPointerFile (data : Bytes) : Option Bool :=
  if data.length ≥ POINTER_FILE_LIMIT then some false
  else if !utf8Valid data then some false
  else (initFromString data).map (·.isValid)

/-- `PointerFile::init_from_path` for an existing readable file with content `data`
    (`metadata.len() > POINTER_FILE_LIMIT` and the `read_to_string` UTF-8 failure give the invalid value) -/
def initFromPath (data : Bytes) : Option PF :=
  if data.length > POINTER_FILE_LIMIT then some ⟨[], false, [], 0⟩
  else if !utf8Valid data then some ⟨[], false, [], 0⟩
  else initFromString data

/-! ## `impl Display for PointerFile` -/

/-- decimal digits, most significant first (`fuel` digits at most) -/
def decF : Nat → Nat → List Nat
  | 0, _ => []
  | f + 1, n => if n < 10 then [n] else decF f (n / 10) ++ [n % 10]

/-- `i64`/`u64` `Display`: a `u64` has at most 20 decimal digits -/
def decBytes (n : Nat) : Bytes := (decF 20 n).map Hash.digitChar

/-- the string serializer of `toml::ser::to_string_pretty` (`emit_str`, `do_pretty`) for the strings it
    renders as a one-line literal `'…'`: no `'`, no `'\n'`, no control char except `'\t'`, no `0x7f`.
    `none` = another representation (`'''…'''`, `"…"` with escapes) = outside. -/
def emitStrPretty (s : Bytes) : Option Bytes :=
  if s.all (fun c => c.toNat != 39 && (c.toNat == 9 || (32 ≤ c.toNat && c.toNat != 127))) then
    some ([39] ++ s ++ [39])
  else none

/-- `"filesize = "` -/
def TXT_FILESIZE_EQ : Bytes := KEY_FILESIZE ++ [32, 61, 32]
/-- `"hash = "` -/
def TXT_HASH_EQ : Bytes := KEY_HASH ++ [32, 61, 32]

inductive Disp where
  | text (b : Bytes)
  | panic
  | outside
  deriving DecidableEq, Repr

/-- `pf.to_string()`.  The `BTreeMap` orders `"filesize"` before `"hash"`; each entry is
    `key = value\n`.  `panic`: `assert!(self.filesize <= i64::MAX as u64)`,
    `assert!(!self.version_string.is_empty())`. -/
def display (pf : PF) : Disp :=
  if !pf.isValid then .text INVALID_TEXT
  else if pf.filesize > I64_MAX then .panic
  else if pf.versionString.isEmpty then .panic
  else
    match emitStrPretty pf.hash with
    | none => .outside
    | some hs =>
      .text (HEADER_PREFIX ++ pf.versionString ++ [10]
             ++ TXT_FILESIZE_EQ ++ decBytes pf.filesize ++ [10]
             ++ TXT_HASH_EQ ++ hs ++ [10])

/-- what `FileCleaner::finish` + `to_string()` produce for a file hash and a size:
    `PointerFile::init_from_info(name, &file_hash.hex(), size).to_string()` -/
def render (h : Hash) (size : Nat) : Disp := display (initFromInfo h.hex size)

/-- the text of a pointer for `(h, size)`, `size ≤ i64::MAX` -/
def renderText (h : Hash) (size : Nat) : Bytes :=
  HEADER_PREFIX ++ CURRENT_VERSION ++ [10]
    ++ TXT_FILESIZE_EQ ++ decBytes size ++ [10]
    ++ TXT_HASH_EQ ++ ([39] ++ h.hex ++ [39]) ++ [10]

end Xet.Pointer
