/-
Model of the aggregate hashes: `merkledb::internal_methods::{merge_one_level, merge}`,
`hash_node_sequence`, `MerkleMemDB::maybe_add_node` (memoising by hash, first entry wins,
pre-seeded with the zero hash of length 0), `aggregate_hashes::{cas_node_hash, file_node_hash,
with_salt}`, the validators' route `add_file` + `finalize`, and `range_hash_from_chunks`.
-/
import XetModel.Hash

namespace Xet.Merkle

structure Node where
  hash : Hash
  len : Nat
  deriving DecidableEq, Repr

/-- decimal digits of a `usize` as printed by `{}` -/
def decimalAux : Nat → Nat → List UInt8 → List UInt8
  | 0, _, acc => acc
  | fuel+1, n, acc =>
    let acc' := UInt8.ofNat (48 + n % 10) :: acc
    if n / 10 = 0 then acc' else decimalAux fuel (n / 10) acc'

def decimal (n : Nat) : Bytes := decimalAux (n + 1) n []

/-- one line of `hash_node_sequence`: `"{:x} : {}\n"` -/
def nodeText (n : Node) : Bytes := n.hash.hex ++ [32, 58, 32] ++ decimal n.len ++ [10]

def hashNodeSeq (P : HashPrims) (ns : List Node) : Hash := P.internalHash (ns.flatMap nodeText)

/-- the memo: `hashdb`/`nodedb` of `MerkleMemDB` reduced to what influences hashes:
    hash ↦ length, first insertion wins. -/
abbrev Memo := List (Hash × Nat)

/-- `MerkleMemDB::default()` contains node 0 = (zero hash, length 0). -/
def Memo.init : Memo := [(Hash.zero, 0)]

def Memo.find (m : Memo) (h : Hash) : Option Nat := (m.find? (fun e => e.1 == h)).map (·.2)

structure AddResult where
  node : Node
  memo : Memo

/-- `maybe_add_node(hash, len, _)`: an existing hash returns the *stored* node (stored length). -/
def Memo.add (m : Memo) (h : Hash) (len : Nat) : AddResult :=
  match m.find h with
  | some l => ⟨⟨h, l⟩, m⟩
  | none => ⟨⟨h, len⟩, m ++ [(h, len)]⟩

structure LevelResult where
  parents : List Node
  memo : Memo

def sumLen (ns : List Node) : Nat := (ns.map (·.len)).sum

/-- cut test of `merge_one_level` for the node at `idx` with `numSoFar = idx - start` earlier
    children in the window: `(numSoFar >= 2 && hash[3] % B == 0) || numSoFar >= 2*B || last`. -/
def cutHere (B : Nat) (numSoFar : Nat) (h : Hash) (isLast : Bool) : Bool :=
  (decide (numSoFar ≥ 2) && decide (h.w3.toNat % B = 0)) || decide (numSoFar ≥ 2 * B) || isLast

/-- `merge_one_level`: `cur` is the current window (in order). -/
def mergeOneLevelAux (P : HashPrims) (B : Nat) : Memo → List Node → List Node → LevelResult
  | m, _, [] => ⟨[], m⟩
  | m, cur, n :: rest =>
    let cur' := cur ++ [n]
    if cutHere B cur.length n.hash rest.isEmpty then
      let a := m.add (hashNodeSeq P cur') (sumLen cur')
      let r := mergeOneLevelAux P B a.memo [] rest
      ⟨a.node :: r.parents, r.memo⟩
    else mergeOneLevelAux P B m cur' rest

def mergeOneLevel (P : HashPrims) (B : Nat) (m : Memo) (nodes : List Node) : LevelResult :=
  mergeOneLevelAux P B m [] nodes

/-- `merge`: repeat until a single node remains (`fuel` = an upper bound on the number of levels;
    `XetProofs.Merkle` proves `nodes.length` suffices). -/
def mergeAux (P : HashPrims) (B : Nat) : Nat → Memo → List Node → LevelResult
  | 0, m, nodes => ⟨nodes, m⟩
  | fuel+1, m, nodes =>
    if nodes.length ≤ 1 then ⟨nodes, m⟩
    else
      let r := mergeOneLevel P B m nodes
      mergeAux P B fuel r.memo r.parents

def merge (P : HashPrims) (B : Nat) (m : Memo) (nodes : List Node) : LevelResult :=
  mergeAux P B nodes.length m nodes

structure LeavesResult where
  nodes : List Node
  memo : Memo

/-- `chunks.iter().map(|(h, len)| mdb.maybe_add_node(h, *len, vec![]).0)` -/
def addLeaves : Memo → List (Hash × Nat) → LeavesResult
  | m, [] => ⟨[], m⟩
  | m, (h, len) :: rest =>
    let a := m.add h len
    let r := addLeaves a.memo rest
    ⟨a.node :: r.nodes, r.memo⟩

def branching : Nat := Gen.meanTreeBranchingFactor

/-- root of the merge over the memoised leaves (shared by the CAS and FILE routes; the node
    attributes that distinguish them do not influence hashes). -/
def rootHash (P : HashPrims) (chunks : List (Hash × Nat)) : Hash :=
  let l := addLeaves Memo.init chunks
  match (merge P branching l.memo l.nodes).parents with
  | r :: _ => r.hash
  | [] => Hash.zero

/-- `cas_node_hash` -/
def casNodeHash (P : HashPrims) (chunks : List (Hash × Nat)) : Hash :=
  if chunks.isEmpty then Hash.zero else rootHash P chunks

/-- `with_salt` -/
def withSalt (P : HashPrims) (h : Hash) (salt : Bytes) : Hash := P.keyed salt h.toBytes

/-- `file_node_hash` -/
def fileNodeHash (P : HashPrims) (chunks : List (Hash × Nat)) (salt : Bytes) : Hash :=
  if chunks.isEmpty then Hash.zero else withSalt P (rootHash P chunks) salt

/-- the validators' route (`validate_cas_object`, `_validate_cas_object_from_async_read`):
    `db.add_file(&mut staging, chunks)` (leaves through `node_from_hash`, then `merge(.., true, false)`),
    CAS staging (`build_cas_nodes`: further merges that only extend the memo — modelled by an
    arbitrary extension `ext`), `db.finalize(staging)` = `merge` of the single file root. -/
def validatorRoot (P : HashPrims) (chunks : List (Hash × Nat)) (ext : Memo) : Hash :=
  if chunks.isEmpty then Hash.zero   -- `add_file` returns early; `finalize` of no roots = default node
  else
    let l := addLeaves Memo.init chunks
    let r := merge P branching l.memo l.nodes
    match (merge P branching (r.memo ++ ext) r.parents).parents with
    | root :: _ => root.hash
    | [] => Hash.zero

/-- `range_hash_from_chunks` -/
def rangeHash (P : HashPrims) (hs : List Hash) : Hash := P.verifyHash (hs.flatMap Hash.toBytes)

/-- `DataHash::hmac(key)` -/
def hmac (P : HashPrims) (h key : Hash) : Hash := P.keyed key.toBytes h.toBytes

end Xet.Merkle

namespace Xet.Merkle

/-- `merklehash::HashedWrite`: state = (bytes hashed, bytes handed on to the inner writer).
    `write(buf)` where the inner writer accepts `n ≤ buf.len()` bytes: the hasher is updated with
    exactly the accepted prefix (after the `fix:` commit; before it, with all of `buf`). -/
structure HW where
  hashed : Bytes
  written : Bytes

def HW.init : HW := ⟨[], []⟩

def HW.write (s : HW) (buf : Bytes) (accept : Nat) : HW × Nat :=
  let n := min accept buf.length
  (⟨s.hashed ++ buf.take n, s.written ++ buf.take n⟩, n)

/-- `Write::write_all` over a writer that accepts `accepts[i]` bytes at the i-th call (0 = error
    `WriteZero`, modelled as stop). -/
def HW.writeAll : HW → Bytes → List Nat → HW
  | s, [], _ => s
  | s, _, [] => s
  | s, buf@(_ :: _), a :: as =>
    if a = 0 then s
    else
      let r := s.write buf a
      HW.writeAll r.1 (buf.drop r.2) as
termination_by _ _ as => as.length

/-- A caller's `write_all`-style loop that presents the unconsumed rest of the buffer again after a *transient* error of the
    inner writer (`WouldBlock`/`TimedOut`: `Write::write` returned `Err`, so by its contract nothing of that call was consumed).
    Event `0` = the inner writer fails that call; `n > 0` = it accepts up to `n` bytes. -/
def HW.writeRetry : HW → Bytes → List Nat → HW
  | s, [], _ => s
  | s, _, [] => s
  | s, buf@(_ :: _), a :: as =>
    if a = 0 then HW.writeRetry s buf as
    else
      let r := s.write buf a
      HW.writeRetry r.1 (buf.drop r.2) as

def HW.hash (P : HashPrims) (s : HW) : Hash := P.dataHash s.hashed

end Xet.Merkle
