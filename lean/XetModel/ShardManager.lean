/-
Model of `mdb_shard/src/shard_file_manager.rs` (`ShardFileManager`): the in-memory shard plus the
bookkeeper of registered shard files grouped into collections by HMAC key, each with one
`ChunkCacheElement` per truncated (keyed) chunk hash (HashMap: last registration wins, offsets above
`u16::MAX` skipped, `shard_index as u16` truncation), `register_shards`, `flush`,
`chunk_hash_dedup_query`, `get_file_reconstruction_info`.
-/
import XetModel.ShardOps

namespace Xet.Shard

structure Elem where
  casStart : Nat
  chunkOff : Nat
  shardIdx : Nat          -- already truncated to u16
  deriving DecidableEq, Repr

structure RegShard where
  name : Hash
  bytes : Bytes
  footer : Footer

structure Coll where
  key : Hash
  shards : List RegShard
  lookup : List (Nat × Elem)        -- HashMap<u64, ChunkCacheElement>

structure Mgr where
  mem : MemShard
  colls : List Coll                  -- collection 0 is the unkeyed one
  registered : List Hash             -- `shard_lookup_by_shard_hash` keys
  totalIndexed : Nat

def Mgr.init : Mgr := ⟨MemShard.empty, [⟨Hash.zero, [], []⟩], [], 0⟩

def u16Max : Nat := 65535

def lookupPut (l : List (Nat × Elem)) (k : Nat) (v : Elem) : List (Nat × Elem) :=
  match l with
  | [] => [(k, v)]
  | e :: rest => if e.1 = k then (k, v) :: rest else e :: lookupPut rest k v

def lookupFind (l : List (Nat × Elem)) (k : Nat) : Option Elem := (l.find? fun e => e.1 == k).map (·.2)

/-- rows of `read_all_truncated_hashes`: the chunk table if present, else a scan of the CAS section -/
def allTruncated (b : Bytes) (ft : Footer) : Except Err (List (Nat × Nat × Nat)) :=
  if ft.chunkLookupNum ≠ 0 then readChunkLookup b ft.chunkLookupNum ft.chunkLookupOff []
  else do
    let cas ← readAllCas b (b.length / recSize + 1) ft.casInfoOff []
    .ok (casSectionOps 0 cas).chunkLookup

def insertRows (l : List (Nat × Elem)) (shardIdx : Nat) : List (Nat × Nat × Nat) → List (Nat × Elem)
  | [] => l
  | (h, cs, co) :: rest =>
    if co > u16Max then insertRows l shardIdx rest
    else insertRows (lookupPut l h ⟨cs, co, shardIdx % (u16Max + 1)⟩) shardIdx rest

def collIndex (colls : List Coll) (key : Hash) : Option Nat := colls.findIdx? fun c => c.key == key

def setColl (colls : List Coll) (i : Nat) (c : Coll) : List Coll := colls.zipIdx.map fun p => if p.2 = i then c else p.1

/-- register one shard (body of the loop of `register_shards`) -/
def Mgr.registerOne (maxIndexed : Nat) (m : Mgr) (name : Hash) (b : Bytes) : Except Err Mgr :=
  if m.registered.contains name then .ok m else
  match loadInfo b with
  | .error e => .error e
  | .ok ft =>
    let colls := match collIndex m.colls ft.hmacKey with
      | some _ => m.colls
      | none => m.colls ++ [⟨ft.hmacKey, [], []⟩]
    let ci := (collIndex colls ft.hmacKey).getD 0
    match colls[ci]? with
    | none => .error .internal
    | some c =>
      let shardIdx := c.shards.length
      if m.totalIndexed < maxIndexed then
        match allTruncated b ft with
        | .error e => .error e
        | .ok rows =>
          let lk := insertRows c.lookup shardIdx rows
          .ok ⟨m.mem, setColl colls ci ⟨c.key, c.shards ++ [⟨name, b, ft⟩], lk⟩, m.registered ++ [name],
               m.totalIndexed + (lk.length - c.lookup.length)⟩
      else .ok ⟨m.mem, setColl colls ci ⟨c.key, c.shards ++ [⟨name, b, ft⟩], c.lookup⟩, m.registered ++ [name], m.totalIndexed⟩

/-- `register_shards(new_shards)`; `shards` in the order the code processes them (newest first) -/
def Mgr.register (maxIndexed : Nat) (m : Mgr) : List (Hash × Bytes) → Except Err Mgr
  | [] => .ok m
  | (n, b) :: rest =>
    match m.registerOne maxIndexed n b with
    | .error e => .error e
    | .ok m' => Mgr.register maxIndexed m' rest

def dedupColls (P : HashPrims) (q : List Hash) : List Coll → Except Err (Option DedupAnswer)
  | [] => .ok none
  | c :: rest =>
    match q with
    | [] => .ok none
    | q0 :: _ =>
      let k := trunc (keyedHash P c.key q0)
      match lookupFind c.lookup k with
      | none => dedupColls P q rest
      | some e =>
        match c.shards[e.shardIdx]? with
        | none => .error .internal          -- index out of bounds panic in the Rust
        | some s =>
          match dedupDirect P s.bytes s.footer q e.casStart e.chunkOff with
          | .error er => .error er
          | .ok (some a) => .ok (some a)
          | .ok none => dedupColls P q rest

/-- `ShardFileManager::chunk_hash_dedup_query` -/
def Mgr.dedup (P : HashPrims) (m : Mgr) (q : List Hash) : Except Err (Option DedupAnswer) :=
  match m.mem.dedup q with
  | some a => .ok (some a)
  | none => if q.isEmpty then .ok none else dedupColls P q m.colls

def fileInShards (h : Hash) : List RegShard → Except Err (Option FileInfo)
  | [] => .ok none
  | s :: rest =>
    match getFile s.bytes s.footer h with
    | .error e => .error e
    | .ok (some f) => .ok (some f)
    | .ok none => fileInShards h rest

def fileInColls (h : Hash) : List Coll → Except Err (Option FileInfo)
  | [] => .ok none
  | c :: rest =>
    match fileInShards h c.shards with
    | .error e => .error e
    | .ok (some f) => .ok (some f)
    | .ok none => fileInColls h rest

/-- `get_file_reconstruction_info` (the zero hash is answered with the default record) -/
def Mgr.getFile (m : Mgr) (h : Hash) : Except Err (Option FileInfo) :=
  if h = Hash.zero then .ok (some ⟨Hash.zero, 0, 0, 0, [], [], none⟩)
  else match findFile h m.mem.mem.files with
    | some f => .ok (some f)
    | none => fileInColls h m.colls

/-- `flush`: write the in-memory shard (named by its content hash) and register it -/
def Mgr.flush (P : HashPrims) (maxIndexed : Nat) (m : Mgr) : Except Err Mgr :=
  if m.mem.mem.files.isEmpty ∧ m.mem.mem.cas.isEmpty then .ok m
  else
    let b := (serializeStable m.mem.mem).bytes
    ({ m with mem := MemShard.empty }).registerOne maxIndexed (P.dataHash b) b

/-- `add_cas_block` / `add_file_reconstruction_info` with the size-triggered flush -/
def Mgr.addCas (P : HashPrims) (maxIndexed minSize : Nat) (m : Mgr) (c : CasInfo) : Except Err Mgr :=
  let m1 := { m with mem := m.mem.addCas c }
  if m1.mem.shardFileSize ≥ minSize then m1.flush P maxIndexed else .ok m1

def Mgr.addFile (P : HashPrims) (maxIndexed minSize : Nat) (m : Mgr) (f : FileInfo) : Except Err Mgr :=
  let m1 := { m with mem := m.mem.addFile f }
  if m1.mem.shardFileSize ≥ minSize then m1.flush P maxIndexed else .ok m1

end Xet.Shard
