/-
Model of file reconstruction in `cas_client/src/remote_client.rs`:
`reconstruct_file_to_writer` (sequential writer), `reconstruct_file_to_writer_parallel` +
`TermWriteTask::write_term` (positioned writes), `get_one_term` (cache probe, fetch-info lookup,
`download_range`, trimming by chunk byte indices, length check).

Abstractions (all stated, none hidden):
* a xorb is its list of chunks (`List Bytes`); the blob store / HTTP layer is the function
  "chunk range ↦ those chunks" (`download`), i.e. what `deserialize_chunks_from_stream` returns for the
  bytes a correct server sends for `url_range`; urls and `url_range` are not modelled;
* the chunk cache is an oracle `Cache` giving the observed answer of `cache.get` (C12 says what a hit
  returns); `cache.put` has no effect on the value returned by `get_one_term`;
* tokio scheduling: the parallel writer yields a *list of positioned writes*; the theorems quantify over
  every order in which they are applied (`applyWrites` on any permutation);
* integers are `Nat`; every place where the dev-profile Rust would panic (u64/usize underflow,
  slice index out of range, `debug_assert!`) is an explicit `Err.panic`.
-/
import XetModel.Hash

namespace Xet.Recon

/-- `cas_types::Range<Idx>`: `start`, exclusive `end` (`ChunkRange = Range<u32>`, `FileRange = Range<u64>`). -/
structure CRange where
  start : Nat
  stop : Nat
  deriving DecidableEq, Repr, Inhabited

/-- error kinds of `CasClientError` that the modelled code can produce, plus dev-profile panics -/
inductive Err where
  | invalidRange        -- `CasClientError::InvalidRange`
  | invalidArguments    -- `CasClientError::InvalidArguments` (bad reconstruction response)
  | lengthMismatch      -- "result term data length … did not match expected value …"
  | termRangeInvalid    -- "term range received invalid" (`write_term`)
  | notFound            -- blob store has no such object (`error_for_status`)
  | panic               -- arithmetic underflow / slice index / `debug_assert!` in the dev profile
  deriving DecidableEq, Repr, Inhabited

deriving instance DecidableEq for Except

/-- `CASReconstructionTerm { hash, unpacked_length, range }`; the xorb hash is an index into the store -/
structure Term where
  xorb : Nat
  range : CRange
  unpackedLen : Nat
  deriving DecidableEq, Repr, Inhabited

/-- the `(Vec<u8>, Vec<u32>)` returned by `download_range` / `deserialize_chunks_from_stream`:
    concatenated chunk data and the chunk byte indices `[0, |c0|, |c0|+|c1|, …, |data|]` -/
structure Fetched where
  data : Bytes
  idx : List Nat
  deriving DecidableEq, Repr, Inhabited

/-- chunks `[r.start, r.stop)` of a xorb -/
def chunkSlice (cs : List Bytes) (r : CRange) : List Bytes :=
  (cs.drop r.start).take (r.stop - r.start)

/-- `deserialize_chunks_to_writer_from_async_read`: pushes the running number of uncompressed bytes
    before the first chunk and after every chunk -/
def byteIndices : List Bytes → Nat → List Nat
  | [], acc => [acc]
  | c :: cs, acc => acc :: byteIndices cs (acc + c.length)

/-- a reconstruction plan: the store (xorb id ↦ chunks), `QueryReconstructionResponse.terms`,
    `.fetch_info` (per xorb the chunk ranges that can be fetched) and `.offset_into_first_range` -/
structure Plan where
  xorbs : List (List Bytes)
  terms : List Term
  fetch : List (Nat × List CRange)
  offset : Nat
  deriving Repr, Inhabited

/-- `download_range`: GET of the fetch-info's url range, then `deserialize_chunks_from_stream` -/
def download (xorbs : List (List Bytes)) (x : Nat) (fr : CRange) : Except Err Fetched :=
  match xorbs[x]? with
  | none => .error .notFound
  | some cs => .ok ⟨(chunkSlice cs fr).flatten, byteIndices (chunkSlice cs fr) 0⟩

/-- `get_one_term`, the block `if term.range != fetch_term.range { … }`: trim the fetched range
    `fr` down to the term range `tr` using the chunk byte indices (`data.truncate(end_byte_index)`,
    `data.split_off(start_byte_index)`); the three `debug_assert!`s are active in the dev profile. -/
def trim (f : Fetched) (fr tr : CRange) : Except Err Bytes :=
  if tr = fr then .ok f.data
  else if tr.start < fr.start ∨ tr.stop < fr.start then .error .panic
  else
    match f.idx[tr.start - fr.start]?, f.idx[tr.stop - fr.start]? with
    | some sb, some eb =>
      if sb < f.data.length ∧ eb ≤ f.data.length ∧ sb < eb then
        .ok ((f.data.take eb).drop sb)
      else .error .panic
    | _, _ => .error .panic

/-- `get_one_term`: `hash_fetch_info.iter().find(|fterm| fterm.range.start <= term.range.start &&
    fterm.range.end >= term.range.end)` -/
def findFetch (fis : List CRange) (tr : CRange) : Option CRange :=
  fis.find? fun f => decide (f.start ≤ tr.start) && decide (tr.stop ≤ f.stop)

/-- `get_one_term`: the final `if data.len() != term.unpacked_length as usize` check -/
def checkLen (d : Bytes) (t : Term) : Except Err Bytes :=
  if d.length ≠ t.unpackedLen then .error .lengthMismatch else .ok d

/-- observed answers of `ChunkCache::get(key, range)` (oracle; `none` = miss or ignored error) -/
abbrev Cache := Nat → CRange → Option Bytes

/-- `get_one_term` after the cache probe missed: fetch-info lookup, download, trim, length check -/
def fetchTerm (p : Plan) (t : Term) : Except Err Bytes :=
  match p.fetch.lookup t.xorb with
  | none => .error .invalidArguments
  | some fis =>
    match findFetch fis t.range with
    | none => .error .invalidArguments
    | some fr =>
      match download p.xorbs t.xorb fr with
      | .error e => .error e
      | .ok f =>
        match trim f fr t.range with
        | .error e => .error e
        | .ok d => checkLen d t

/-- `get_one_term`.  A cache hit returns the cached bytes *without* the length check. -/
def getOneTerm (p : Plan) (cache : Option Cache) (t : Term) : Except Err Bytes :=
  if t.range.stop < t.range.start then .error .invalidRange
  else
    match cache with
    | none => fetchTerm p t
    | some c =>
      match c t.xorb t.range with
      | some d => .ok d
      | none => fetchTerm p t

/-- both writers: `let total_len = if let Some(range) = byte_range { range.end - range.start } else
    { terms.iter().fold(0, |acc, x| acc + x.unpacked_length as u64) }` -/
def totalLen (lens : List Nat) (range : Option CRange) : Except Err Nat :=
  match range with
  | some r => if r.stop < r.start then .error .panic else .ok (r.stop - r.start)
  | none => .ok lens.sum

/-- `let start = if term_idx == 0 { offset_into_first_range } else { 0 }` (both writers) -/
def startOf (idx offset : Nat) : Nat := if idx = 0 then offset else 0

/-! ### Sequential writer -/

/-- state of the `while let Some((term_idx, term_data_result))` loop: bytes written so far and `remaining_len` -/
structure SeqState where
  out : Bytes
  remaining : Nat
  deriving DecidableEq, Repr, Inhabited

/-- one iteration of the loop in `reconstruct_file_to_writer`:
    `end = min(remaining_len + start, term_data.len())`, `write_all(&term_data[start..end])`,
    `remaining_len -= end - start` -/
def seqStep (offset : Nat) (st : SeqState) (idx : Nat) (d : Bytes) : Except Err SeqState :=
  if min (st.remaining + startOf idx offset) d.length < startOf idx offset then .error .panic
  else .ok ⟨st.out ++ (d.take (min (st.remaining + startOf idx offset) d.length)).drop (startOf idx offset),
            st.remaining - (min (st.remaining + startOf idx offset) d.length - startOf idx offset)⟩

/-- the loop of `reconstruct_file_to_writer` over the (ordered, `buffered`) term results -/
def seqLoop (offset : Nat) : Nat → SeqState → List (Except Err Bytes) → Except Err SeqState
  | _, st, [] => .ok st
  | idx, st, r :: rs =>
    match r with
    | .error e => .error e
    | .ok d =>
      match seqStep offset st idx d with
      | .error e => .error e
      | .ok st' => seqLoop offset (idx + 1) st' rs

/-- what a writer produced: the output bytes and the `u64` it returned -/
structure WriteResult where
  out : Bytes
  reported : Nat
  deriving DecidableEq, Repr, Inhabited

/-- `reconstruct_file_to_writer` given the per-term results of `get_one_term` and the terms'
    declared `unpacked_length`s; returns `Ok(total_len)` -/
def seqWrite (datas : List (Except Err Bytes)) (lens : List Nat) (offset : Nat) (range : Option CRange) :
    Except Err WriteResult :=
  match totalLen lens range with
  | .error e => .error e
  | .ok total =>
    match seqLoop offset 0 ⟨[], total⟩ datas with
    | .error e => .error e
    | .ok st => .ok ⟨st.out, total⟩

/-! ### Parallel writer -/

/-- `(term_range, file_offset)` computed for one term in `reconstruct_file_to_writer_parallel` -/
structure Slice where
  start : Nat
  stop : Nat
  fileOffset : Nat
  deriving DecidableEq, Repr, Inhabited

/-- the `terms.into_iter().enumerate().map(|(idx, term)| …)` closure of
    `reconstruct_file_to_writer_parallel`, arguments `idx bytes_written remaining`:
    `end = min(start + remaining, term.unpacked_length)`, `file_offset = bytes_written`,
    `len = end - start` (usize underflow = dev panic), `bytes_written += len`, `remaining -= len` -/
def planSlices (offset : Nat) : Nat → Nat → Nat → List Nat → Except Err (List Slice)
  | _, _, _, [] => .ok []
  | idx, bw, rem, l :: ls =>
    if min (startOf idx offset + rem) l < startOf idx offset then .error .panic
    else
      match planSlices offset (idx + 1) (bw + (min (startOf idx offset + rem) l - startOf idx offset))
              (rem - (min (startOf idx offset + rem) l - startOf idx offset)) ls with
      | .error e => .error e
      | .ok ss => .ok (⟨startOf idx offset, min (startOf idx offset + rem) l, bw⟩ :: ss)

/-- a positioned write: `output.get_writer_at(file_offset)` then `write_all(data)` -/
structure PWrite where
  off : Nat
  data : Bytes
  deriving DecidableEq, Repr, Inhabited

/-- `TermWriteTask::write_term` after `get_one_term`: the `term_range.end > term_data.len()` check and
    the slice `&term_data[term_range]` written at `file_offset` -/
def writeTerm (r : Except Err Bytes) (s : Slice) : Except Err PWrite :=
  match r with
  | .error e => .error e
  | .ok d =>
    if d.length < s.stop then .error .termRangeInvalid
    else .ok ⟨s.fileOffset, (d.take s.stop).drop s.start⟩

/-- all term tasks; any failing task fails the whole call (which error wins is scheduler-dependent,
    the model reports the first in term order — only the success case is claimed) -/
def writeTerms : List (Except Err Bytes) → List Slice → Except Err (List PWrite)
  | r :: rs, s :: ss =>
    match writeTerm r s with
    | .error e => .error e
    | .ok w =>
      match writeTerms rs ss with
      | .error e => .error e
      | .ok ws => .ok (w :: ws)
  | _, _ => .ok []

/-- the positioned writes of the parallel writer and the `total_written` it returns
    (sum of the tasks' `len = term_range.end - term_range.start`) -/
structure ParPlan where
  writes : List PWrite
  reported : Nat
  deriving DecidableEq, Repr, Inhabited

/-- `reconstruct_file_to_writer_parallel` up to scheduling: which writes are issued -/
def parWrite (datas : List (Except Err Bytes)) (lens : List Nat) (offset : Nat) (range : Option CRange) :
    Except Err ParPlan :=
  match totalLen lens range with
  | .error e => .error e
  | .ok total =>
    match planSlices offset 0 0 total lens with
    | .error e => .error e
    | .ok ss =>
      match writeTerms datas ss with
      | .error e => .error e
      | .ok ws => .ok ⟨ws, (ss.map fun s => s.stop - s.start).sum⟩

/-- a positioned write on a file (`FileProvider::get_writer_at` = open without truncation + seek;
    `write_all`): an empty write changes nothing; writing beyond the end zero-fills the gap -/
def writeAt (buf : Bytes) (off : Nat) (d : Bytes) : Bytes :=
  if d = [] then buf
  else
    (buf ++ List.replicate (off - buf.length) 0).take off ++ d ++
      (buf ++ List.replicate (off - buf.length) 0).drop (off + d.length)

/-- the file after the given writes completed in the given order -/
def applyWrites (buf : Bytes) (ws : List PWrite) : Bytes :=
  ws.foldl (fun b w => writeAt b w.off w.data) buf

/-! ### Whole calls on a plan -/

def Plan.lens (p : Plan) : List Nat := p.terms.map (·.unpackedLen)

def Plan.results (p : Plan) (cache : Option Cache) : List (Except Err Bytes) :=
  p.terms.map (getOneTerm p cache)

/-- `RemoteClient::reconstruct_file_to_writer` -/
def reconstructSeq (p : Plan) (cache : Option Cache) (range : Option CRange) : Except Err WriteResult :=
  seqWrite (p.results cache) p.lens p.offset range

/-- `RemoteClient::reconstruct_file_to_writer_parallel` (writes still to be ordered by the scheduler) -/
def reconstructPar (p : Plan) (cache : Option Cache) (range : Option CRange) : Except Err ParPlan :=
  parWrite (p.results cache) p.lens p.offset range

/-! ### Reference data and well-formedness -/

/-- chunks of xorb `x` (`[]` for an unknown xorb; well-formed plans only name known xorbs) -/
def chunksOf (xorbs : List (List Bytes)) (x : Nat) : List Bytes :=
  match xorbs[x]? with
  | some cs => cs
  | none => []

/-- the bytes a term stands for: its chunk range of its xorb, concatenated -/
def Plan.termBytes (p : Plan) (t : Term) : Bytes := (chunkSlice (chunksOf p.xorbs t.xorb) t.range).flatten

/-- the concatenated term data -/
def Plan.allBytes (p : Plan) : Bytes := (p.terms.map p.termBytes).flatten

/-- a term the server can return: known xorb, non-empty chunk range inside the xorb, chunks non-empty,
    declared length = real length, and the xorb's fetch ranges lie inside the xorb with at least one
    containing the term (fetch ranges may be larger than the term) -/
def WFTerm (p : Plan) (t : Term) : Prop :=
  t.xorb < p.xorbs.length ∧
  t.range.start < t.range.stop ∧ t.range.stop ≤ (chunksOf p.xorbs t.xorb).length ∧
  (∀ c ∈ chunksOf p.xorbs t.xorb, c ≠ []) ∧
  t.unpackedLen = (p.termBytes t).length ∧
  match p.fetch.lookup t.xorb with
  | none => False
  | some fis =>
    (∀ fr ∈ fis, fr.start < fr.stop ∧ fr.stop ≤ (chunksOf p.xorbs t.xorb).length) ∧
    (∃ fr ∈ fis, fr.start ≤ t.range.start ∧ t.range.stop ≤ fr.stop)

instance (p : Plan) (t : Term) : Decidable (WFTerm p t) := by
  unfold WFTerm
  cases p.fetch.lookup t.xorb <;> exact inferInstance

/-- offset lies in the first term (`≤` suffices for the arithmetic; the server guarantees `<`) -/
def OffsetOK (p : Plan) : Prop :=
  match p.terms with
  | [] => False
  | t :: _ => p.offset ≤ t.unpackedLen

instance (p : Plan) : Decidable (OffsetOK p) := by
  unfold OffsetOK
  cases p.terms <;> exact inferInstance

/-- the requested range fits the file: with a byte range, `offset + (end - start)` bytes exist in the
    concatenated terms; without one the server's offset is 0 -/
def RangeOK (p : Plan) (range : Option CRange) : Prop :=
  match range with
  | none => p.offset = 0
  | some r => r.start ≤ r.stop ∧ p.offset + (r.stop - r.start) ≤ p.allBytes.length

instance (p : Plan) (range : Option CRange) : Decidable (RangeOK p range) := by
  unfold RangeOK
  cases range <;> exact inferInstance

/-- "plans the server can return for ranges within the file's length" -/
def WFPlan (p : Plan) (range : Option CRange) : Prop :=
  (∀ t ∈ p.terms, WFTerm p t) ∧ OffsetOK p ∧ RangeOK p range

instance (p : Plan) (range : Option CRange) : Decidable (WFPlan p range) := by
  unfold WFPlan; exact inferInstance

/-- number of bytes requested -/
def reqLen (p : Plan) (range : Option CRange) : Nat :=
  match range with
  | none => p.allBytes.length
  | some r => r.stop - r.start

/-- the bytes the downloader must produce -/
def expected (p : Plan) (range : Option CRange) : Bytes :=
  (p.allBytes.drop p.offset).take (reqLen p range)

/-- C12's guarantee as a hypothesis on the oracle: a hit returns exactly the term's chunks' bytes -/
def CacheFaithful (p : Plan) (c : Cache) : Prop :=
  ∀ t ∈ p.terms, ∀ d, c t.xorb t.range = some d → d = p.termBytes t

end Xet.Recon
