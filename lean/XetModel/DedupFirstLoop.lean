import XetModel.Dedup
/-
The first loop of `FileDeduper::process_chunks` (one pass over the `deduped_blocks` slots of a call) and the predicate
"every slot the second loop consults holds an answer" used by the C11 repeat-upload theorems (`XetProps/C11Repeat.lean`).
-/
namespace Xet.Dedup

/-- every slot the second loop of `process_chunks` consults holds a stored answer of at least `max 1 minN` chunks -/
def coveredFrom (minN : Nat) : Nat → List DChunk → Answers → Bool
  | 0, _, _ => true
  | _, [], _ => true
  | fuel+1, c :: rest, answers =>
    match (answers.head?).join with
    | some (n, _) => decide (1 ≤ n) && decide (minN ≤ n) && coveredFrom minN fuel ((c :: rest).drop n) (answers.drop n)
    | none => false

/-- one pass of the first loop: a slot that already holds an answer is skipped together with the run it covers, otherwise
    the lookup interface is asked about the remaining hashes of the call and its answer is stored at the slot.  (`n = 0`
    answers do not occur — truthful answers name at least the first chunk — and would keep the Rust loop from advancing; the
    model stops there.) -/
def firstPass (q : List Hash → Option (Nat × Shard.Seg)) : Nat → List DChunk → Answers → Answers
  | 0, _, slots => slots
  | _, [], slots => slots
  | fuel+1, c :: rest, slots =>
    match (slots.head?).join with
    | some (n, _) =>
      if n = 0 then slots else slots.take n ++ firstPass q fuel ((c :: rest).drop n) (slots.drop n)
    | none =>
      match q ((c :: rest).map (·.hash)) with
      | some (n, s) =>
        if n = 0 then slots
        else some (n, s) :: (slots.drop 1).take (n - 1) ++ firstPass q fuel ((c :: rest).drop n) (slots.drop n)
      | none => none :: firstPass q fuel rest (slots.drop 1)

end Xet.Dedup
