/-
Model of the upload pipeline's deduplication core:
  `deduplication/src/file_deduplication.rs` (`FileDeduper::{process_chunks, add_file_data_sequence_entry,
      cut_new_xorb, dedup_query_against_local_data, finalize}`)
  `deduplication/src/defrag_prevention.rs`  (`DefragPrevention`)
  `deduplication/src/data_aggregator.rs`    (`DataAggregator::{new, merge_in, finalize}`)
  `deduplication/src/raw_xorb_data.rs`      (`RawXorbData::from_chunks`)
  `data/src/file_upload_session.rs`         (`register_single_file_clean_completion`,
                                             `process_aggregated_data_as_xorb`)
External behaviour enters as oracle arguments: the answers of `chunk_hash_dedup_query` (any answer is
accepted by the model functions; theorems assume they are *truthful*), and — in the theorems — the
defrag decision.  The driver uses the exact integer form of the float comparisons.
-/
import XetModel.ShardFormat

namespace Xet.Dedup

open Xet.Shard (Seg FileInfo CasInfo Chunk)

/-- a chunk as the chunker hands it over: hash and data -/
structure DChunk where
  hash : Hash
  data : Bytes
  deriving DecidableEq, Repr

structure Limits where
  maxXorbBytes : Nat
  maxXorbChunks : Nat
  deriving Repr

/-! ### DefragPrevention (window of the last `nranges` range sizes) -/

structure Defrag where
  window : List Nat          -- `rolling_last_nranges` (front = oldest)
  total : Nat                -- `rolling_nranges_chunks`
  low : Bool                 -- `defrag_at_low_threshold`
  deriving Repr

def Defrag.init : Defrag := ⟨[], 0, true⟩

def nranges : Nat := Gen.nrangesInFragmentationEstimator

/-- `increment_last_range_in_fragmentation_estimate` -/
def Defrag.incLast (d : Defrag) (n : Nat) : Defrag :=
  match d.window.reverse with
  | [] => d
  | last :: revInit => ⟨(revInit.reverse ++ [last + n]), d.total + n, d.low⟩

/-- `add_range_to_fragmentation_estimate` -/
def Defrag.addRange (d : Defrag) (n : Nat) : Defrag :=
  let w := d.window ++ [n]
  if w.length > nranges then
    match w with
    | old :: rest => ⟨rest, d.total + n - old, d.low⟩
    | [] => ⟨w, d.total + n, d.low⟩
  else ⟨w, d.total + n, d.low⟩

structure Decision where
  allow : Bool
  st : Defrag

/-- `allow_dedup_on_next_range(dedup_range_size)`.  The code compares `total as f32 / len as f32`
    with `8.0` (or `8.0 * 0.5`) and with `dedup_range_size as f32`; with `len = nranges = 128` a power
    of two and counts below 2^24 these float comparisons are exact and equal the integer comparisons
    `total < 8·128`, `total < 4·128`, `n·128 < total`. -/
def Defrag.allowNext (d : Defrag) (n : Nat) : Decision :=
  if d.window.length < nranges then ⟨true, d⟩
  else
    let target := if d.low then Gen.minChunksPerRangeLowX2 * nranges / 2 else Gen.minChunksPerRange * nranges
    if d.total < target then
      if n * nranges < d.total then ⟨false, { d with low := false }⟩ else ⟨true, d⟩
    else ⟨true, { d with low := true }⟩

/-! ### metrics -/

structure Metrics where
  totalBytes : Nat := 0
  dedupedBytes : Nat := 0
  newBytes : Nat := 0
  dedupedBytesGlobal : Nat := 0
  preventedBytes : Nat := 0
  totalChunks : Nat := 0
  dedupedChunks : Nat := 0
  newChunks : Nat := 0
  dedupedChunksGlobal : Nat := 0
  preventedChunks : Nat := 0
  deriving DecidableEq, Repr

def Metrics.add (a b : Metrics) : Metrics :=
  ⟨a.totalBytes + b.totalBytes, a.dedupedBytes + b.dedupedBytes, a.newBytes + b.newBytes, a.dedupedBytesGlobal + b.dedupedBytesGlobal,
   a.preventedBytes + b.preventedBytes, a.totalChunks + b.totalChunks, a.dedupedChunks + b.dedupedChunks, a.newChunks + b.newChunks,
   a.dedupedChunksGlobal + b.dedupedChunksGlobal, a.preventedChunks + b.preventedChunks⟩

/-! ### FileDeduper -/

/-- a xorb cut from new data: `RawXorbData::from_chunks` -/
structure Xorb where
  hash : Hash
  chunks : List DChunk
  deriving DecidableEq, Repr

def chunkLens (cs : List DChunk) : List (Hash × Nat) := cs.map fun c => (c.hash, c.data.length)

def mkXorb (P : HashPrims) (cs : List DChunk) : Xorb := ⟨Merkle.casNodeHash P (chunkLens cs), cs⟩

def dataSize (cs : List DChunk) : Nat := (cs.map (·.data.length)).sum

/-- `cas_info` of a raw xorb (`CASChunkSequenceHeader::new(hash, n, num_bytes)`, entries with running start) -/
def casEntries : Nat → List DChunk → List Chunk
  | _, [] => []
  | pos, c :: rest => ⟨c.hash, c.data.length, pos, 0⟩ :: casEntries (pos + c.data.length) rest

def Xorb.casInfo (x : Xorb) : CasInfo := ⟨x.hash, 0, x.chunks.length, dataSize x.chunks, 0, casEntries 0 x.chunks⟩

structure FD where
  newData : List DChunk
  lookup : List (Hash × Nat)          -- `new_data_hash_lookup` (HashMap: one entry per key, last insert wins)
  chunkHashes : List (Hash × Nat)
  fileInfo : List Seg
  internalRefs : List Nat
  defrag : Defrag
  metrics : Metrics
  newXorbs : List Hash                -- hashes of xorbs cut by this file
  cut : List Xorb                     -- xorbs handed to `register_new_xorb`, in order (an output log)
  deriving Repr

def FD.init : FD := ⟨[], [], [], [], [], Defrag.init, {}, [], []⟩

def lookupGet (l : List (Hash × Nat)) (h : Hash) : Option Nat := (l.find? fun e => e.1 == h).map (·.2)

def lookupSet (l : List (Hash × Nat)) (h : Hash) (i : Nat) : List (Hash × Nat) :=
  match l with
  | [] => [(h, i)]
  | e :: rest => if e.1 == h then (h, i) :: rest else e :: lookupSet rest h i

def zeroSeg (bytes s e : Nat) : Seg := ⟨Hash.zero, 0, bytes, s, e⟩

/-- `dedup_query_against_local_data`: run of consecutive positions in `new_data` -/
def localRunEnd (fd : FD) (base : Nat) : Nat → Nat → List Hash → Nat × Nat
  | endIdx, nb, [] => (endIdx, nb)
  | endIdx, nb, h :: rest =>
    match lookupGet fd.lookup h with
    | some idx =>
      if idx = endIdx then localRunEnd fd base (idx + 1) (nb + ((fd.newData[idx]?).map (·.data.length)).getD 0) rest
      else (endIdx, nb)
    | none => (endIdx, nb)

def localQuery (fd : FD) (q : List Hash) : Option (Nat × Seg) :=
  match q with
  | [] => none
  | q0 :: rest =>
    match lookupGet fd.lookup q0 with
    | none => none
    | some base =>
      let r := localRunEnd fd base (base + 1) (((fd.newData[base]?).map (·.data.length)).getD 0) rest
      some (r.1 - base, zeroSeg r.2 base r.1)

/-- `file_data_sequence_continues_current` -/
def continuesCurrent (fd : FD) (s : Seg) : Bool :=
  match fd.fileInfo.getLast? with
  | some last => last.casHash == s.casHash && last.cend == s.cstart
  | none => false

def modifyLast {α} (l : List α) (f : α → α) : List α :=
  match l.reverse with
  | [] => []
  | x :: r => (f x :: r).reverse

/-- `add_file_data_sequence_entry` -/
def addEntry (fd : FD) (s : Seg) (n : Nat) : FD :=
  if continuesCurrent fd s then
    { fd with fileInfo := modifyLast fd.fileInfo (fun l => { l with bytes := l.bytes + s.bytes, cend := s.cend }),
              defrag := fd.defrag.incLast n }
  else
    { fd with internalRefs := if s.casHash == Hash.zero then fd.internalRefs ++ [fd.fileInfo.length] else fd.internalRefs,
              fileInfo := fd.fileInfo ++ [s],
              defrag := fd.defrag.addRange n }

def patchSegs (segs : List Seg) (refs : List Nat) (h : Hash) : List Seg :=
  (segs.zipIdx).map fun p => if refs.contains p.2 then { p.1 with casHash := h } else p.1

/-- `cut_new_xorb` -/
def cutXorb (P : HashPrims) (fd : FD) : FD :=
  let x := mkXorb P fd.newData
  { fd with fileInfo := patchSegs fd.fileInfo fd.internalRefs x.hash, newData := [], lookup := [], internalRefs := [],
            newXorbs := fd.newXorbs ++ [x.hash], cut := fd.cut ++ [x] }

/-- the "add new data" tail of the second loop for one chunk -/
def addNewChunk (P : HashPrims) (L : Limits) (fd : FD) (c : DChunk) : FD :=
  let nb := c.data.length
  let fd1 := { fd with metrics := { fd.metrics with totalChunks := fd.metrics.totalChunks + 1, totalBytes := fd.metrics.totalBytes + nb,
                                                    newBytes := fd.metrics.newBytes + nb, newChunks := fd.metrics.newChunks + 1 } }
  let fd2 := if dataSize fd1.newData + nb > L.maxXorbBytes ∨ fd1.newData.length + 1 > L.maxXorbChunks then cutXorb P fd1 else fd1
  let extend := match fd2.fileInfo.getLast? with
    | some last => last.casHash == Hash.zero && last.cend == fd2.newData.length
    | none => false
  let fd3 :=
    if extend then
      { fd2 with fileInfo := modifyLast fd2.fileInfo (fun l => { l with bytes := l.bytes + nb, cend := l.cend + 1 }),
                 defrag := fd2.defrag.incLast 1 }
    else
      { fd2 with internalRefs := fd2.internalRefs ++ [fd2.fileInfo.length],
                 fileInfo := fd2.fileInfo ++ [zeroSeg nb fd2.newData.length (fd2.newData.length + 1)],
                 defrag := fd2.defrag.addRange 1 }
  { fd3 with lookup := lookupSet fd3.lookup c.hash fd3.newData.length, newData := fd3.newData ++ [c] }

/-- answers of the first loop: for each local index the stored `deduped_blocks` entry -/
abbrev Answers := List (Option (Nat × Seg))

/-- the second loop of `process_chunks` (after the `fix:` commit: the run is counted as deduplicated
    only when it is accepted; a rejected run counts its first chunk as withheld).  `decide` is the
    defrag decision procedure (theorems quantify over it; the driver passes `Defrag.allowNext`). -/
def processLoop (P : HashPrims) (L : Limits) (allow : Defrag → Nat → Decision) :
    Nat → FD → List DChunk → Answers → FD
  | 0, fd, _, _ => fd
  | _, fd, [], _ => fd
  | fuel+1, fd, c :: rest, answers =>
    let stored := (answers.head?).join
    let q := match stored with
      | some a => some a
      | none => localQuery fd ((c :: rest).map (·.hash))
    match q with
    | some (n, s) =>
      if continuesCurrent fd s then
        let fd1 := { fd with metrics := { fd.metrics with dedupedChunks := fd.metrics.dedupedChunks + n, dedupedBytes := fd.metrics.dedupedBytes + s.bytes,
                                                          totalChunks := fd.metrics.totalChunks + n, totalBytes := fd.metrics.totalBytes + s.bytes } }
        processLoop P L allow fuel (addEntry fd1 s n) ((c :: rest).drop n) (answers.drop n)
      else
        let d := allow fd.defrag n
        let fd0 := { fd with defrag := d.st }
        if d.allow then
          let fd1 := { fd0 with metrics := { fd0.metrics with dedupedChunks := fd0.metrics.dedupedChunks + n, dedupedBytes := fd0.metrics.dedupedBytes + s.bytes,
                                                              totalChunks := fd0.metrics.totalChunks + n, totalBytes := fd0.metrics.totalBytes + s.bytes } }
          processLoop P L allow fuel (addEntry fd1 s n) ((c :: rest).drop n) (answers.drop n)
        else
          let fd1 := { fd0 with metrics := { fd0.metrics with preventedChunks := fd0.metrics.preventedChunks + 1,
                                                              preventedBytes := fd0.metrics.preventedBytes + c.data.length } }
          processLoop P L allow fuel (addNewChunk P L fd1 c) rest (answers.drop 1)
    | none => processLoop P L allow fuel (addNewChunk P L fd c) rest (answers.drop 1)

/-- `process_chunks(chunks)` given the `deduped_blocks` the first loop produced (`answers`, one slot
    per chunk) and the global-dedup metrics it accumulated. -/
def processChunks (P : HashPrims) (L : Limits) (allow : Defrag → Nat → Decision) (fd : FD) (chunks : List DChunk)
    (answers : Answers) (globalChunks globalBytes : Nat) : FD :=
  let fd0 := { fd with metrics := { fd.metrics with dedupedChunksGlobal := fd.metrics.dedupedChunksGlobal + globalChunks,
                                                    dedupedBytesGlobal := fd.metrics.dedupedBytesGlobal + globalBytes } }
  let fd1 := processLoop P L allow (chunks.length + 1) fd0 chunks answers
  { fd1 with chunkHashes := fd1.chunkHashes ++ chunkLens chunks }

/-! ### finalize, DataAggregator -/

structure Agg where
  chunks : List DChunk
  pending : List (FileInfo × List Nat)     -- (file info, indices of zero-hash segments)
  deriving Repr

def Agg.empty : Agg := ⟨[], []⟩

/-- verification entries of `FileDeduper::finalize`: range hash over the chunk hashes each segment covers -/
def verification (P : HashPrims) : List Seg → List (Hash × Nat) → List Hash
  | [], _ => []
  | s :: rest, hs =>
    let n := s.cend - s.cstart
    Merkle.rangeHash P ((hs.take n).map (·.1)) :: verification P rest (hs.drop n)

structure Finalized where
  fileHash : Hash
  agg : Agg
  metrics : Metrics
  newXorbs : List Hash

/-- `FileDeduper::finalize(salt, Some(metadata_ext))` -/
def finalize (P : HashPrims) (fd : FD) (salt : Bytes) (sha : Hash) : Finalized :=
  let fh := Merkle.fileNodeHash P fd.chunkHashes salt
  let flags := Shard.flagVerification + Shard.flagMetadataExt
  let fi : FileInfo := ⟨fh, flags, fd.fileInfo.length, 0, fd.fileInfo, verification P fd.fileInfo fd.chunkHashes, some sha⟩
  ⟨fh, ⟨fd.newData, [(fi, fd.internalRefs)]⟩, fd.metrics, fd.newXorbs⟩

def shiftSegs (segs : List Seg) (shift : Nat) : List Seg :=
  segs.map fun s => if s.casHash == Hash.zero then { s with cstart := s.cstart + shift, cend := s.cend + shift } else s

/-- `DataAggregator::merge_in` -/
def Agg.mergeIn (a other : Agg) : Agg :=
  let shift := a.chunks.length
  ⟨a.chunks ++ other.chunks, a.pending ++ other.pending.map fun p => ({ p.1 with segs := shiftSegs p.1.segs shift }, p.2)⟩

structure AggFinal where
  xorb : Xorb
  files : List FileInfo

/-- `DataAggregator::finalize` -/
def Agg.finalize (P : HashPrims) (a : Agg) : AggFinal :=
  let x := mkXorb P a.chunks
  ⟨x, a.pending.map fun p => { p.1 with segs := patchSegs p.1.segs p.2 x.hash }⟩

/-! ### session-level aggregation -/

structure Sess where
  cur : Agg                          -- `current_session_data`
  puts : List Xorb                   -- xorbs handed to `register_new_xorb_for_upload` (non-empty ones are uploaded)
  casRegistered : List CasInfo       -- `shard_interface.add_cas_block` calls
  files : List FileInfo              -- `shard_interface.add_file_reconstruction_info` calls
  metrics : Metrics
  deriving Repr

def Sess.init : Sess := ⟨Agg.empty, [], [], [], {}⟩

/-- `process_aggregated_data_as_xorb` (after the `fix:` commit it also records the xorb's CAS info) -/
def Sess.processAgg (P : HashPrims) (s : Sess) (a : Agg) : Sess :=
  let f := a.finalize P
  if dataSize f.xorb.chunks = 0 then { s with files := s.files ++ f.files }       -- `register_new_xorb_for_upload` skips an empty xorb
  else { s with puts := s.puts ++ [f.xorb], casRegistered := s.casRegistered ++ [f.xorb.casInfo], files := s.files ++ f.files }

/-- mid-file xorbs: `UploadSessionDataManager::register_new_xorb` -/
def Sess.registerXorb (s : Sess) (x : Xorb) : Sess :=
  { s with casRegistered := s.casRegistered ++ [x.casInfo], puts := if dataSize x.chunks = 0 then s.puts else s.puts ++ [x] }

/-- `register_single_file_clean_completion` -/
def Sess.fileDone (P : HashPrims) (L : Limits) (s : Sess) (fileData : Agg) (m : Metrics) : Sess :=
  let s1 :=
    if dataSize s.cur.chunks + dataSize fileData.chunks > L.maxXorbBytes ∨ s.cur.chunks.length + fileData.chunks.length > L.maxXorbChunks then
      if dataSize s.cur.chunks > dataSize fileData.chunks then
        ({ s with cur := fileData }).processAgg P s.cur      -- swap: the larger (old aggregate) is cut
      else s.processAgg P fileData
    else { s with cur := s.cur.mergeIn fileData }
  { s1 with metrics := s1.metrics.add m }

/-- `finalize_impl`: cut what is left -/
def Sess.finish (P : HashPrims) (s : Sess) : Sess := ({ s with cur := Agg.empty }).processAgg P s.cur

end Xet.Dedup
