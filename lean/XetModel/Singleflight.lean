/-
Model of `utils/src/singleflight.rs` (`Group::{work, get_call_or_create, remove_call}`,
`Call::{complete, get_future, get}`, `OwnerTask` + `PinnedDrop`).

Small-step interleaving semantics.  One model action = one lock region (or one purely task-local
step) of the Rust code; any interleaving of the actions of any number of callers is a run of the model,
which covers current-thread and multi-thread runtimes alike (a current-thread runtime simply never
produces some of the interleavings).

MODELLED, NOT VERIFIED (the atomicity of the actions rests on these):
* tokio `Mutex` (`call_map`): `get_call_or_create` and `remove_call` are mutually exclusive           → `lookupOrCreate`, `remove` are atomic.
* `parking_lot::RwLock` (`Call::res`): `get_future` holds the read lock from the test `res.is_some()`
  to the creation of the `Notified` future; `complete` holds the write lock over store + notify          → `registerOrRead`, `complete`/`ownerPanic` are atomic w.r.t. each other.
* tokio `Notify`: a `Notified` future obtained from `notified()` *before* `notify_waiters()` is called
  completes even if it was not polled yet; `notify_waiters` wakes every such future                      → `complete` moves all `registered` callers to `notified`; `wake` needs membership in `notified`.
* tokio task harness: a panic of the owner task's future drops the future (running `PinnedDrop`) before
  the `JoinHandle` resolves; `JoinHandle` resolves after `poll` returned `Ready`                          → the owner may `remove` only when the call's task is `finished`.
* The supplied task future is opaque user code that does not touch the `Group`; spawning it and running
  it to its outcome is one action `runTask` whose outcome (ok / err / panic) is an oracle argument.

Canonical outcome: `SingleflightError::InternalError(e)` / `WaiterInternalError(format!(e))` are both
`err e`; the owner's `JoinError` and the waiters' `OwnerPanicked` are both `panic`.
-/
namespace Xet.Singleflight

/-- what the supplied task produced (`Ok(v)`, `Err(e)`, panic) -/
inductive Outcome where
  | ok (v : Nat)
  | err (e : Nat)
  | panic
  deriving DecidableEq, Repr, Inhabited

/-- what `work` hands back to a caller.  `noResult` = `SingleflightError::NoResult` (woken but no value
    stored), `callMissing` = `SingleflightError::CallMissing` (`remove_call` found no entry): the two "BUG"
    values of the code, which the theorems show to be unreachable. -/
inductive Ret where
  | val (o : Outcome)
  | noResult
  | callMissing
  deriving DecidableEq, Repr, Inhabited

/-- state of the `OwnerTask` of a call: not yet spawned/run; future finished with `o` but `complete` not
    yet executed; `complete` executed (JoinHandle ready). -/
inductive Task where
  | idle
  | ran (o : Outcome)
  | finished (o : Outcome)
  deriving DecidableEq, Repr, Inhabited

/-- `Call<T,E>`; `key`, `owner` (creating caller) and `taskRuns` are ghost fields. -/
structure Call where
  key : Nat
  owner : Nat
  res : Option Outcome
  registered : List Nat
  notified : List Nat
  task : Task
  taskRuns : Nat
  deriving Repr, Inhabited

/-- program counter of one invocation of `Group::work` -/
inductive Pc where
  | idle      -- before `get_call_or_create`
  | looked    -- has `(call, created)`, before `get_future`
  | waiting   -- `get_future` took the `Either::Right` branch (registered with the notifier)
  | have      -- holds `future_result` (read directly, or woken and `get()` done)
  | removed   -- owner only: `remove_call` done
  | done      -- `work` returned
  deriving DecidableEq, Repr, Inhabited

structure CallerSt where
  key : Nat
  pc : Pc
  cid : Nat
  owner : Bool
  spawned : Bool
  got : Ret
  ret : Option Ret
  deriving Repr, Inhabited

structure State where
  map : List (Nat × Nat)
  calls : List Call
  callers : List CallerSt
  deriving Repr, Inhabited

/-- the next fresh `CallId` -/
def State.nextId (s : State) : Nat := s.calls.length

inductive Action where
  | lookupOrCreate (c : Nat)
  | registerOrRead (c : Nat)
  | runTask (c : Nat) (o : Outcome)
  | complete (k : Nat)
  | ownerPanic (k : Nat)
  | wake (c : Nat)
  | remove (c : Nat)
  | ret (c : Nat)
  deriving DecidableEq, Repr, Inhabited

/-! ### association-list map (`HashMap<String, Arc<Call>>`) -/

def mapGet : List (Nat × Nat) → Nat → Option Nat
  | [], _ => none
  | p :: m, k => if p.1 = k then some p.2 else mapGet m k

def mapErase : List (Nat × Nat) → Nat → List (Nat × Nat)
  | [], _ => []
  | p :: m, k => if p.1 = k then mapErase m k else p :: mapErase m k

/-! ### initial state -/

def CallerSt.new (key : Nat) : CallerSt :=
  { key := key, pc := .idle, cid := 0, owner := false, spawned := false, got := .noResult, ret := none }

def Call.new (key owner : Nat) : Call :=
  { key := key, owner := owner, res := none, registered := [], notified := [], task := .idle, taskRuns := 0 }

/-- one future invocation of `work(key, task)` per entry of `keys`; nothing has happened yet -/
def init (keys : List Nat) : State :=
  { map := [], calls := [], callers := keys.map CallerSt.new }

/-! ### the atomic actions -/

/-- `get_call_or_create` (whole body under the `call_map` mutex). -/
def stepLookup (s : State) (c : Nat) : Option State :=
  match s.callers[c]? with
  | none => none
  | some r =>
    if r.pc ≠ .idle then none else
    match mapGet s.map r.key with
    | some k =>
      some { s with callers := s.callers.set c { r with pc := .looked, cid := k, owner := false } }
    | none =>
      some { map := (r.key, s.calls.length) :: s.map,
             calls := s.calls ++ [Call.new r.key c],
             callers := s.callers.set c { r with pc := .looked, cid := s.calls.length, owner := true } }

/-- `Call::get_future` (whole body under the read lock of `res`): either clone the stored result or
    register with the notifier. -/
def stepRegister (s : State) (c : Nat) : Option State :=
  match s.callers[c]? with
  | none => none
  | some r =>
    if r.pc ≠ .looked then none else
    match s.calls[r.cid]? with
    | none => none
    | some cl =>
      match cl.res with
      | some o =>
        some { s with callers := s.callers.set c { r with pc := .have, got := .val o } }
      | none =>
        some { s with calls := s.calls.set r.cid { cl with registered := c :: cl.registered },
                      callers := s.callers.set c { r with pc := .waiting } }

/-- owner: `Handle::current().spawn(OwnerTask::new(fut, call))` and the run of `fut` to its outcome. -/
def stepRunTask (s : State) (c : Nat) (o : Outcome) : Option State :=
  match s.callers[c]? with
  | none => none
  | some r =>
    if r.owner = false ∨ r.spawned = true ∨ (r.pc ≠ .waiting ∧ r.pc ≠ .have) then none else
    match s.calls[r.cid]? with
    | none => none
    | some cl =>
      some { s with calls := s.calls.set r.cid { cl with task := .ran o, taskRuns := cl.taskRuns + 1 },
                    callers := s.callers.set c { r with spawned := true } }

/-- `Call::complete(res)` under the write lock: store, then `notify_waiters`. -/
def completeCall (cl : Call) (o : Outcome) : Call :=
  { cl with res := some o, notified := cl.notified ++ cl.registered, task := .finished o }

/-- `OwnerTask::poll` after the future returned `Ready(Ok|Err)`. -/
def stepComplete (s : State) (k : Nat) : Option State :=
  match s.calls[k]? with
  | none => none
  | some cl =>
    match cl.task with
    | .ran (.ok v) => some { s with calls := s.calls.set k (completeCall cl (.ok v)) }
    | .ran (.err e) => some { s with calls := s.calls.set k (completeCall cl (.err e)) }
    | _ => none

/-- `PinnedDrop for OwnerTask` with `got_response == false`: `complete(Err(OwnerPanicked))`. -/
def stepOwnerPanic (s : State) (k : Nat) : Option State :=
  match s.calls[k]? with
  | none => none
  | some cl =>
    match cl.task with
    | .ran .panic => some { s with calls := s.calls.set k (completeCall cl .panic) }
    | _ => none

/-- `Call::get` (`res.clone().unwrap_or(Err(NoResult))`) -/
def readRes (cl : Call) : Ret :=
  match cl.res with
  | some o => .val o
  | none => .noResult

/-- `notified.await` resolves (the caller was notified), then `self.get()` under the read lock. -/
def stepWake (s : State) (c : Nat) : Option State :=
  match s.callers[c]? with
  | none => none
  | some r =>
    if r.pc ≠ .waiting then none else
    match s.calls[r.cid]? with
    | none => none
    | some cl =>
      if c ∈ cl.notified then
        some { s with callers := s.callers.set c { r with pc := .have, got := readRes cl } }
      else none

/-- `handle_result.map_err(JoinError).and(future_result)` -/
def ownerResult (o : Outcome) (got : Ret) : Ret :=
  match o with
  | .panic => .val .panic
  | _ => got

/-- owner, after `tokio::join!(owner_handle, results_future)`: `remove_call(key)` under the map mutex. -/
def stepRemove (s : State) (c : Nat) : Option State :=
  match s.callers[c]? with
  | none => none
  | some r =>
    if r.owner = false ∨ r.spawned = false ∨ r.pc ≠ .have then none else
    match s.calls[r.cid]? with
    | none => none
    | some cl =>
      match cl.task with
      | .finished o =>
        match mapGet s.map r.key with
        | none =>
          some { s with callers := s.callers.set c { r with pc := .removed, got := .callMissing } }
        | some _ =>
          some { s with map := mapErase s.map r.key,
                        callers := s.callers.set c { r with pc := .removed, got := ownerResult o r.got } }
      | _ => none

/-- `work` returns: a waiter as soon as it holds the result, the owner after `remove_call`. -/
def stepReturn (s : State) (c : Nat) : Option State :=
  match s.callers[c]? with
  | none => none
  | some r =>
    if (r.pc = .have ∧ r.owner = false) ∨ r.pc = .removed then
      some { s with callers := s.callers.set c { r with pc := .done, ret := some r.got } }
    else none

/-- one atomic action; `none` = not enabled in `s` -/
def step (s : State) : Action → Option State
  | .lookupOrCreate c => stepLookup s c
  | .registerOrRead c => stepRegister s c
  | .runTask c o => stepRunTask s c o
  | .complete k => stepComplete s k
  | .ownerPanic k => stepOwnerPanic s k
  | .wake c => stepWake s c
  | .remove c => stepRemove s c
  | .ret c => stepReturn s c

/-- run a sequence of actions; `none` if one of them is not enabled -/
def run (s : State) : List Action → Option State
  | [] => some s
  | a :: as =>
    match step s a with
    | none => none
    | some s' => run s' as

/-- `s` is reachable from the initial state for `keys` -/
def Reachable (keys : List Nat) (s : State) : Prop := ∃ acts, run (init keys) acts = some s

/-- replay with the index of the first action that is not enabled -/
structure Replay where
  st : State
  bad : Option Nat
  deriving Inhabited

def replayFrom (s : State) (i : Nat) : List Action → Replay
  | [] => { st := s, bad := none }
  | a :: as =>
    match step s a with
    | none => { st := s, bad := some i }
    | some s' => replayFrom s' (i + 1) as

/-! ### executable monitors on a state (used by the driver on the end state of a trace) -/

def maxRuns (s : State) : Nat := s.calls.foldl (fun m cl => max m cl.taskRuns) 0
def totalRuns (s : State) : Nat := s.calls.foldl (fun m cl => m + cl.taskRuns) 0
def doneCount (s : State) : Nat := (s.callers.filter (fun r => r.pc == .done)).length

/-- number of (call, caller) pairs with the caller registered, not notified, although a result is stored -/
def blockedCount (s : State) : Nat :=
  s.calls.foldl (fun m cl =>
    m + (if cl.res.isSome then (cl.registered.filter (fun c => !(cl.notified.contains c))).length else 0)) 0

/-- number of returned callers whose returned value is not the value stored in their call -/
def mismatchCount (s : State) : Nat :=
  (s.callers.filter (fun r =>
    r.pc == .done &&
      (match s.calls[r.cid]? with
       | some cl => (match cl.res with
                     | some o => !(r.ret == some (Ret.val o)) || !(cl.key == r.key)
                     | none => true)
       | none => true))).length

end Xet.Singleflight
