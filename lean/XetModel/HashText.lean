import XetModel.Hash
import XetModel.Cache
/-
Base64 text form of a hash (C06: "the hex and base64 text forms round-trip"):
  `DataHash::base64`      = `URL_SAFE_NO_PAD.encode(self.as_bytes())`
  `DataHash::from_base64` = `URL_SAFE_NO_PAD.decode(..)` then `from_slice` (exactly 32 bytes).
`URL_SAFE_NO_PAD` of the `base64` crate: alphabet `A-Z a-z 0-9 - _`, no `=` written, any `=` rejected on decode
(`DecodePaddingMode::RequireNone`), non-zero trailing bits rejected.  The alphabet and the strict padded decoder are those of
`XetModel/Cache.lean` (`b64Char`, `b64Decode`); the unpadded decoder completes the text to the canonical padded one.
-/
namespace Xet.Hash
open Xet.Cache (b64Char b64Pad b64Encode b64Decode)

/-- `URL_SAFE_NO_PAD.encode` -/
def b64EncodeNoPad : Bytes → List UInt8
  | [] => []
  | [a] => [b64Char (a.toNat / 4), b64Char (a.toNat % 4 * 16)]
  | [a, b] => [b64Char (a.toNat / 4), b64Char (a.toNat % 4 * 16 + b.toNat / 16), b64Char (b.toNat % 16 * 4)]
  | a :: b :: c :: rest =>
    b64Char (a.toNat / 4) :: b64Char (a.toNat % 4 * 16 + b.toNat / 16) ::
    b64Char (b.toNat % 16 * 4 + c.toNat / 64) :: b64Char (c.toNat % 64) :: b64EncodeNoPad rest

/-- `URL_SAFE_NO_PAD.decode`: no padding character anywhere, length ≠ 1 mod 4, canonical trailing bits -/
def b64DecodeNoPad (s : List UInt8) : Option Bytes :=
  if s.contains b64Pad then none
  else if s.length % 4 = 0 then b64Decode s
  else if s.length % 4 = 2 then b64Decode (s ++ [b64Pad, b64Pad])
  else if s.length % 4 = 3 then b64Decode (s ++ [b64Pad])
  else none

/-- `DataHash::base64` -/
def base64 (h : Hash) : List UInt8 := b64EncodeNoPad h.toBytes

/-- `DataHash::from_base64` -/
def fromBase64 (s : List UInt8) : Option Hash :=
  match b64DecodeNoPad s with
  | some b => if b.length = 32 then some (ofBytes b) else none
  | none => none

end Xet.Hash
