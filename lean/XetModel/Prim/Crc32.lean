/-
  CRC-32 (IEEE 802.3 / ISO-HDLC / zlib / PNG): reflected polynomial 0xEDB88320, initial
  register 0xFFFFFFFF, final XOR 0xFFFFFFFF.  Written from RFC 1952 (GZIP) section 8 /
  the PNG specification Annex D "Sample CRC implementation" (byte-wise table algorithm).
  Validated bit-for-bit against the Rust crate crc32fast 1.4.2 (`crc32fast::hash`,
  `Hasher::new_with_initial` + `update` + `finalize`).
  Lean core only; no Mathlib / Batteries.
-/
namespace Xet.Prim
namespace Crc32

/-- Table entry for byte `n`: eight steps of the bit-serial reflected CRC. -/
def tableEntry (n : Nat) : UInt32 := Id.run do
  let mut c := n.toUInt32
  for _ in [0:8] do
    c := if c &&& 1 == 1 then (c >>> 1) ^^^ (0xEDB88320 : UInt32) else c >>> 1
  return c

def table : Array UInt32 := (Array.range 256).map tableEntry

@[inline] def step (c : UInt32) (b : UInt8) : UInt32 :=
  table[((c ^^^ b.toUInt32) &&& 0xFF).toNat]! ^^^ (c >>> 8)

end Crc32

/-- Continue a CRC-32: `crc` is the (finalised) CRC of the bytes seen so far, the result is the
    CRC of those bytes followed by `data`.  Same as `crc32fast::Hasher::new_with_initial(crc)`
    then `update(data)` then `finalize()`. -/
def crc32Update (crc : UInt32) (data : ByteArray) : UInt32 :=
  ~~~ (data.foldl Crc32.step (~~~ crc))

/-- CRC-32 of `data` (same as `crc32fast::hash`). -/
def crc32 (data : ByteArray) : UInt32 := crc32Update 0 data

def crc32L (data : List UInt8) : UInt32 := crc32 ⟨data.toArray⟩

end Xet.Prim
