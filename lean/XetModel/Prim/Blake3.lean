/-
  BLAKE3 keyed hash (`keyed_hash` mode, 32-byte output), full tree mode.

  Written from the BLAKE3 specification ("BLAKE3: one function, fast everywhere",
  O'Connor, Aumasson, Neves, Wilcox-O'Hearn, 2020-2021), sections 2.1-2.6:
  compression function G / round / message permutation (2.2), chunk chaining
  values and flags (2.4), binary tree of parent nodes (2.5), root output (2.6).
  Validated bit-for-bit against the Rust crate blake3 1.5.5 (`blake3::keyed_hash`).
  Lean core only; no Mathlib / Batteries.
-/
namespace Xet.Prim
namespace Blake3

/-- Initialisation vector (same as SHA-256). -/
def iv : Array UInt32 :=
  #[0x6A09E667, 0xBB67AE85, 0x3C6EF372, 0xA54FF53A, 0x510E527F, 0x9B05688C, 0x1F83D9AB, 0x5BE0CD19]

/-- Message word permutation applied between rounds. -/
def msgPerm : Array Nat := #[2, 6, 3, 10, 7, 0, 4, 13, 1, 11, 12, 5, 9, 14, 15, 8]

def chunkStart : UInt32 := 1
def chunkEnd   : UInt32 := 2
def parent     : UInt32 := 4
def root       : UInt32 := 8
def keyedHash  : UInt32 := 16

def chunkLen : Nat := 1024
def blockLen : Nat := 64

@[inline] def rotr (x n : UInt32) : UInt32 := (x >>> n) ||| (x <<< (32 - n))

/-- The quarter-round G on state words `a b c d` with message words `mx my`. -/
@[inline] def g (v : Array UInt32) (a b c d : Nat) (mx my : UInt32) : Array UInt32 :=
  let va := v[a]! + v[b]! + mx
  let vd := rotr (v[d]! ^^^ va) 16
  let vc := v[c]! + vd
  let vb := rotr (v[b]! ^^^ vc) 12
  let va := va + vb + my
  let vd := rotr (vd ^^^ va) 8
  let vc := vc + vd
  let vb := rotr (vb ^^^ vc) 7
  (((v.set! a va).set! b vb).set! c vc).set! d vd

/-- One round: four column G's then four diagonal G's. -/
def round (v m : Array UInt32) : Array UInt32 :=
  let v := g v 0 4 8  12 m[0]!  m[1]!
  let v := g v 1 5 9  13 m[2]!  m[3]!
  let v := g v 2 6 10 14 m[4]!  m[5]!
  let v := g v 3 7 11 15 m[6]!  m[7]!
  let v := g v 0 5 10 15 m[8]!  m[9]!
  let v := g v 1 6 11 12 m[10]! m[11]!
  let v := g v 2 7 8  13 m[12]! m[13]!
  g v 3 4 9 14 m[14]! m[15]!

def permute (m : Array UInt32) : Array UInt32 := msgPerm.map (m[·]!)

/-- Compression function, truncated to the first 8 output words (the new chaining value). -/
def compress (cv m : Array UInt32) (counter : UInt64) (blen flags : UInt32) : Array UInt32 := Id.run do
  let mut v : Array UInt32 := Array.mkEmpty 16
  for i in [0:8] do v := v.push cv[i]!
  for i in [0:4] do v := v.push iv[i]!
  v := (((v.push counter.toUInt32).push (counter >>> 32).toUInt32).push blen).push flags
  let mut m := m
  for _ in [0:7] do
    v := round v m
    m := permute m
  let mut out : Array UInt32 := Array.mkEmpty 8
  for i in [0:8] do out := out.push (v[i]! ^^^ v[i+8]!)
  return out

/-- A not-yet-finalised node: everything needed to run the last compression either as a
    chaining value or (with `root`) as the final output. -/
structure Output where
  cv      : Array UInt32
  block   : Array UInt32
  counter : UInt64
  blen    : UInt32
  flags   : UInt32

def Output.chainingValue (o : Output) : Array UInt32 :=
  compress o.cv o.block o.counter o.blen o.flags

def Output.rootWords (o : Output) : Array UInt32 :=
  compress o.cv o.block 0 o.blen (o.flags ||| root)

@[inline] def byteAt (d : ByteArray) (i lim : Nat) : UInt32 :=
  if i < lim then (d.get! i).toUInt32 else 0

/-- Sixteen little-endian words of the 64-byte block at `off`, bytes at index `≥ lim` read as 0. -/
def blockWords (d : ByteArray) (off lim : Nat) : Array UInt32 := Id.run do
  let mut m : Array UInt32 := Array.mkEmpty 16
  for i in [0:16] do
    let p := off + 4 * i
    m := m.push (byteAt d p lim ||| (byteAt d (p+1) lim <<< 8)
                 ||| (byteAt d (p+2) lim <<< 16) ||| (byteAt d (p+3) lim <<< 24))
  return m

/-- Process the chunk `d[off, off+len)` (`len ≤ 1024`) with chunk counter `ctr`. -/
def chunkOutput (key : Array UInt32) (flags : UInt32) (d : ByteArray) (off len : Nat)
    (ctr : UInt64) : Output := Id.run do
  let nblocks := max 1 ((len + blockLen - 1) / blockLen)
  let lim := off + len
  let mut cv := key
  for i in [0:nblocks - 1] do
    let f := if i == 0 then flags ||| chunkStart else flags
    cv := compress cv (blockWords d (off + blockLen * i) lim) ctr blockLen.toUInt32 f
  let last := nblocks - 1
  let f := (if last == 0 then flags ||| chunkStart else flags) ||| chunkEnd
  return { cv, block := blockWords d (off + blockLen * last) lim, counter := ctr,
           blen := (len - blockLen * last).toUInt32, flags := f }

def parentOutput (key : Array UInt32) (flags : UInt32) (l r : Array UInt32) : Output :=
  { cv := key, block := l ++ r, counter := 0, blen := blockLen.toUInt32, flags := flags ||| parent }

/-- Root output words of the whole tree over `d`, with key words `key` and mode flags `flags`. -/
def hashWords (key : Array UInt32) (flags : UInt32) (d : ByteArray) : Array UInt32 := Id.run do
  let nchunks := max 1 ((d.size + chunkLen - 1) / chunkLen)
  -- stack of subtree chaining values, one per set bit of the number of chunks consumed
  let mut stack : Array (Array UInt32) := #[]
  for c in [0:nchunks - 1] do
    let mut cv := (chunkOutput key flags d (chunkLen * c) chunkLen c.toUInt64).chainingValue
    let mut total := c + 1
    for _ in [0:64] do
      if total % 2 != 0 then break
      cv := (parentOutput key flags stack.back! cv).chainingValue
      stack := stack.pop
      total := total / 2
    stack := stack.push cv
  let last := nchunks - 1
  let mut out := chunkOutput key flags d (chunkLen * last) (d.size - chunkLen * last) last.toUInt64
  for i in [0:stack.size] do
    out := parentOutput key flags stack[stack.size - 1 - i]! out.chainingValue
  return out.rootWords

def wordsOfBytes (b : ByteArray) (n : Nat) : Array UInt32 :=
  (Array.range n).map fun i =>
    byteAt b (4*i) b.size ||| (byteAt b (4*i+1) b.size <<< 8)
      ||| (byteAt b (4*i+2) b.size <<< 16) ||| (byteAt b (4*i+3) b.size <<< 24)

def bytesOfWords (ws : Array UInt32) : ByteArray :=
  ws.foldl (init := ByteArray.emptyWithCapacity (4 * ws.size)) fun (b : ByteArray) (w : UInt32) =>
    (((b.push w.toUInt8).push (w >>> 8).toUInt8).push (w >>> 16).toUInt8).push (w >>> 24).toUInt8

end Blake3

/-- BLAKE3 `keyed_hash(key, data)`: `key` is 32 bytes (shorter keys are zero-padded,
    longer ones truncated); result is 32 bytes. -/
def blake3Keyed (key : ByteArray) (data : ByteArray) : ByteArray :=
  Blake3.bytesOfWords (Blake3.hashWords (Blake3.wordsOfBytes key 8) Blake3.keyedHash data)

def blake3KeyedL (key : List UInt8) (data : List UInt8) : List UInt8 :=
  (blake3Keyed ⟨key.toArray⟩ ⟨data.toArray⟩).toList

end Xet.Prim
