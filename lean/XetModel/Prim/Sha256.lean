/-
  SHA-256, written from NIST FIPS 180-4 ("Secure Hash Standard"), sections 4.1.2
  (functions Ch, Maj, Σ0, Σ1, σ0, σ1), 4.2.2 (constants), 5.1.1 (padding), 5.3.3
  (initial hash value) and 6.2.2 (hash computation).
  Validated bit-for-bit against the Rust crate sha2 0.10.8 (`Sha256::digest`).
  Lean core only; no Mathlib / Batteries.
-/
namespace Xet.Prim
namespace Sha256

def k : Array UInt32 := #[
  0x428a2f98, 0x71374491, 0xb5c0fbcf, 0xe9b5dba5, 0x3956c25b, 0x59f111f1, 0x923f82a4, 0xab1c5ed5,
  0xd807aa98, 0x12835b01, 0x243185be, 0x550c7dc3, 0x72be5d74, 0x80deb1fe, 0x9bdc06a7, 0xc19bf174,
  0xe49b69c1, 0xefbe4786, 0x0fc19dc6, 0x240ca1cc, 0x2de92c6f, 0x4a7484aa, 0x5cb0a9dc, 0x76f988da,
  0x983e5152, 0xa831c66d, 0xb00327c8, 0xbf597fc7, 0xc6e00bf3, 0xd5a79147, 0x06ca6351, 0x14292967,
  0x27b70a85, 0x2e1b2138, 0x4d2c6dfc, 0x53380d13, 0x650a7354, 0x766a0abb, 0x81c2c92e, 0x92722c85,
  0xa2bfe8a1, 0xa81a664b, 0xc24b8b70, 0xc76c51a3, 0xd192e819, 0xd6990624, 0xf40e3585, 0x106aa070,
  0x19a4c116, 0x1e376c08, 0x2748774c, 0x34b0bcb5, 0x391c0cb3, 0x4ed8aa4a, 0x5b9cca4f, 0x682e6ff3,
  0x748f82ee, 0x78a5636f, 0x84c87814, 0x8cc70208, 0x90befffa, 0xa4506ceb, 0xbef9a3f7, 0xc67178f2]

def h0 : Array UInt32 :=
  #[0x6a09e667, 0xbb67ae85, 0x3c6ef372, 0xa54ff53a, 0x510e527f, 0x9b05688c, 0x1f83d9ab, 0x5be0cd19]

@[inline] def rotr (x n : UInt32) : UInt32 := (x >>> n) ||| (x <<< (32 - n))

/-- Padding (FIPS 180-4 §5.1.1): `0x80`, zeros up to 56 mod 64, then the bit length as a
    big-endian 64-bit integer. -/
def pad (d : ByteArray) : ByteArray := Id.run do
  let mut p := d.push 0x80
  let zeros := (64 - (d.size + 9) % 64) % 64
  for _ in [0:zeros] do p := p.push 0
  let bits := (d.size * 8).toUInt64
  for i in [0:8] do p := p.push (bits >>> (56 - 8 * i).toUInt64).toUInt8
  return p

/-- Process the 64-byte block of `p` starting at `off` (§6.2.2). -/
def block (h : Array UInt32) (p : ByteArray) (off : Nat) : Array UInt32 := Id.run do
  let mut w : Array UInt32 := Array.mkEmpty 64
  for t in [0:16] do
    let q := off + 4 * t
    w := w.push (((p.get! q).toUInt32 <<< 24) ||| ((p.get! (q+1)).toUInt32 <<< 16)
                 ||| ((p.get! (q+2)).toUInt32 <<< 8) ||| (p.get! (q+3)).toUInt32)
  for t in [16:64] do
    let x := w[t-15]!
    let y := w[t-2]!
    let s0 := rotr x 7 ^^^ rotr x 18 ^^^ (x >>> 3)
    let s1 := rotr y 17 ^^^ rotr y 19 ^^^ (y >>> 10)
    w := w.push (s1 + w[t-7]! + s0 + w[t-16]!)
  let mut a := h[0]!
  let mut b := h[1]!
  let mut c := h[2]!
  let mut d := h[3]!
  let mut e := h[4]!
  let mut f := h[5]!
  let mut g := h[6]!
  let mut hh := h[7]!
  for t in [0:64] do
    let bs1 := rotr e 6 ^^^ rotr e 11 ^^^ rotr e 25
    let ch := (e &&& f) ^^^ (~~~e &&& g)
    let t1 := hh + bs1 + ch + k[t]! + w[t]!
    let bs0 := rotr a 2 ^^^ rotr a 13 ^^^ rotr a 22
    let maj := (a &&& b) ^^^ (a &&& c) ^^^ (b &&& c)
    let t2 := bs0 + maj
    hh := g; g := f; f := e; e := d + t1
    d := c; c := b; b := a; a := t1 + t2
  return #[h[0]! + a, h[1]! + b, h[2]! + c, h[3]! + d, h[4]! + e, h[5]! + f, h[6]! + g, h[7]! + hh]

end Sha256

/-- SHA-256 digest (32 bytes) of `data`. -/
def sha256 (data : ByteArray) : ByteArray := Id.run do
  let p := Sha256.pad data
  let mut h := Sha256.h0
  for i in [0:p.size / 64] do
    h := Sha256.block h p (64 * i)
  let mut out := ByteArray.emptyWithCapacity 32
  for w in h do
    out := (((out.push (w >>> 24).toUInt8).push (w >>> 16).toUInt8).push (w >>> 8).toUInt8).push w.toUInt8
  return out

def sha256L (data : List UInt8) : List UInt8 := (sha256 ⟨data.toArray⟩).toList

end Xet.Prim
