/-
  LZ4 frame-format decoder and XXH32.

  Format sources: "LZ4 Frame Format Description" (lz4_Frame_format.md, v1.6.x), "LZ4 Block Format
  Description" (lz4_Block_format.md) and the xxHash specification (XXH32).

  The decoder is not a generic spec decoder: it reproduces, outcome for outcome, what xet-core
  observes from the Rust crate lz4_flex 0.11.3 (default features: `safe-decode`, `safe-encode`,
  `frame`) on the path
      `let mut dec = FrameDecoder::new(Cursor::new(data)); std::io::copy(&mut dec, &mut vec)`
  (`cas_object::lz4_decompress_from_slice`).  Places where that path deviates from a strict reading
  of the specification are modelled on purpose and are marked `DEVIATION` below:

   D1  `io::copy` stops at the first `read` that yields 0 bytes.  Hence only the FIRST frame is
       decoded; everything after its EndMark (+ content checksum) is never looked at (trailing
       garbage, concatenated frames, skippable frames after the first frame are all ignored).
   D2  A data block that produces 0 bytes (`0x80000000` size word, or a compressed block such as
       the single token `00`) also makes `read` return 0: decoding stops there with success.
   D3  End of input at a block boundary, or inside the 4-byte block size word, is a clean end of
       stream (success with the output so far): the EndMark is not required.
   D4  Empty input is success with empty output.  An input of exactly 4 bytes that is not the legacy
       magic is success with empty output, whatever the 4 bytes are.
   D5  Legacy magic 0x184C2102 is accepted and then decoded with the *modern* block syntax
       (8 MiB block maximum, independent blocks, no checksums, high bit = stored block,
       size word 0 = EndMark).
   D6  A skippable frame at the start of the input is an error (`SkippableFrame`), a dictionary id
       is an error (`DictionaryNotSupported`).
   D7  Match offset 0 is never rejected; an offset that reaches before the start of the available
       history is rejected only on the decoder's slow path.  On its fast path (token with both
       nibbles < 15, at least 18 input bytes left in the block, more than 34 (51 with an external
       dictionary) bytes of room in the sink) the source position saturates to 0.  In both cases the
       bytes produced are whatever the decoder's scratch buffer `dst` holds (zero fill, output of
       earlier blocks, spill of earlier 16/18/32/64-byte "wild" copies).  To reproduce that, the
       scratch buffer of `FrameDecoder` is modelled byte for byte, including the wild copies and
       `Vec::resize` truncation / zero fill.
   D8  In linked mode a block decoded against the external dictionary may produce more than the
       frame's block maximum (its sink is everything below the dictionary), so the buffer
       bookkeeping (`dst_start`, `ext_dict_offset`, `ext_dict_len`) is modelled as in the crate.

  Result: `ok out` (Rust `Ok`, `out` = bytes written), `eof` (Rust error with
  `io::ErrorKind::UnexpectedEof`: the input ended inside a header, block body or checksum),
  `err` (any other error: `InvalidData` / `Other`).

  What xet-core's encoder side produces (`FrameEncoder::new` + `write_all` + `finish`, default
  `FrameInfo`): FLG = 0x60 (version 01, independent blocks, no block checksum, no content size, no
  content checksum, no dict id), BD chosen from the length of the (single) write: <= 64 KiB -> 0x40
  (64 KiB blocks), <= 256 KiB -> 0x50 (256 KiB), larger -> 0x70 (4 MiB); a block that does not
  shrink is stored (high bit of the size word); the frame ends with a 4-byte zero EndMark.
  Empty input gives the 11-byte frame `04224d18 60 40 82 00000000`.

  Validation (2026-09-30): outcome (`ok len fnv1a64` / `eof` / `err`) identical to
  `cas_object::lz4_decompress_from_slice` on 3 x ~63.8k generated inputs (3 seeds): ~1.3k valid
  frames (default encoder, and every block size / linked / checksum / content-size combination,
  0 B .. 4 MiB+), truncation at every offset, all single-bit flips of the first 32 bytes (raw and
  with the header checksum repaired), random flips, all 256 FLG values x 10 BD values, trailing /
  concatenated / skippable / legacy inputs, ~25k grammar-generated hostile block streams
  (offset 0, offsets out of range, lengths past the block, blocks at and one past every capacity
  limit, linked-mode buffer wrap with external dictionary).  lz4_flex never panicked.  `xxh32`
  checked against twox-hash 1.6.3 for lengths 0..79 and some larger, seeds 0 and 0x9747b28c.
  Compiled speed 30 .. 300 MB/s of output depending on the match density.

  Lean core only; no Mathlib / Batteries.  No `partial`, `unsafe`, `implemented_by`.
-/
namespace Xet.Prim

/-! ## XXH32 -/
namespace Xxh32

def P1 : UInt32 := 0x9E3779B1
def P2 : UInt32 := 0x85EBCA77
def P3 : UInt32 := 0xC2B2AE3D
def P4 : UInt32 := 0x27D4EB2F
def P5 : UInt32 := 0x165667B1

@[inline] def rotl (x : UInt32) (r : UInt32) : UInt32 := (x <<< r) ||| (x >>> (32 - r))

/-- Little-endian 32-bit word at byte index `i` (bytes past the end read as 0). -/
@[inline] def le32 (d : ByteArray) (i : Nat) : UInt32 :=
  (d.get! i).toUInt32 ||| ((d.get! (i+1)).toUInt32 <<< 8) |||
  ((d.get! (i+2)).toUInt32 <<< 16) ||| ((d.get! (i+3)).toUInt32 <<< 24)

@[inline] def round (acc inp : UInt32) : UInt32 := rotl (acc + inp * P2) 13 * P1

@[inline] def avalanche (h0 : UInt32) : UInt32 :=
  let h := (h0 ^^^ (h0 >>> 15)) * P2
  let h := (h ^^^ (h >>> 13)) * P3
  h ^^^ (h >>> 16)

/-- XXH32 of `d[start, stop)` (requires `start ≤ stop ≤ d.size`). -/
def hashRange (seed : UInt32) (d : ByteArray) (start stop : Nat) : UInt32 := Id.run do
  let len := stop - start
  let stripes := len / 16
  let mut h : UInt32 := seed + P5
  let mut p := start
  if len ≥ 16 then
    let mut v1 := seed + P1 + P2
    let mut v2 := seed + P2
    let mut v3 := seed
    let mut v4 := seed - P1
    for _ in [0:stripes] do
      v1 := round v1 (le32 d p)
      v2 := round v2 (le32 d (p+4))
      v3 := round v3 (le32 d (p+8))
      v4 := round v4 (le32 d (p+12))
      p := p + 16
    h := rotl v1 1 + rotl v2 7 + rotl v3 12 + rotl v4 18
  h := h + len.toUInt32
  let words := (stop - p) / 4
  for _ in [0:words] do
    h := rotl (h + le32 d p * P3) 17 * P4
    p := p + 4
  for i in [p:stop] do
    h := rotl (h + (d.get! i).toUInt32 * P5) 11 * P1
  return avalanche h

end Xxh32

/-- XXH32 (xxHash, 32-bit) of `data` with the given seed. -/
def xxh32 (seed : UInt32) (data : ByteArray) : UInt32 := Xxh32.hashRange seed data 0 data.size

def xxh32L (seed : UInt32) (data : List UInt8) : UInt32 := xxh32 seed ⟨data.toArray⟩

/-! ## LZ4 block decoder (lz4_flex `block::decompress_safe::decompress_internal`) -/
namespace Lz4

/-- `n` zero bytes. -/
def zeros (n : Nat) : ByteArray := Id.run do
  if n == 0 then return ByteArray.empty
  let mut z := (ByteArray.emptyWithCapacity n).push 0
  -- doubling: at most 64 rounds for any representable size
  for _ in [0:64] do
    if z.size * 2 ≤ n then z := z ++ z
  if z.size < n then z := z ++ z.extract 0 (n - z.size)
  return z

/-- `Vec::resize(n, 0)` on the scratch buffer. -/
def resize (buf : ByteArray) (n : Nat) : ByteArray :=
  if n ≤ buf.size then (if n == buf.size then buf else buf.extract 0 n)
  else buf ++ zeros (n - buf.size)

/-- `slice::copy_within(src..src+len, dst)` for `src ≤ dst` (memmove semantics). -/
@[inline] def moveWithin (buf : ByteArray) (src dst len : Nat) : ByteArray := Id.run do
  if src + len ≤ dst ∧ len > 64 then
    return (buf.extract src (src + len)).copySlice 0 buf dst len
  let mut b := buf
  let se := src + len - 1
  let de := dst + len - 1
  for i in [0:len] do
    b := b.set! (de - i) (b.get! (se - i))
  return b

/-- `SliceSink::extend_from_within_overlapping(start, n)` at sink position `pos`
    (forward byte-by-byte copy; with `start = pos` it is a no-op that exposes stale bytes). -/
@[inline] def overlapCopy (buf : ByteArray) (start pos n : Nat) : ByteArray := Id.run do
  let mut b := buf
  for i in [0:n] do
    b := b.set! (pos + i) (b.get! (start + i))
  return b

@[inline] def fill (buf : ByteArray) (pos n : Nat) (v : UInt8) : ByteArray := Id.run do
  let mut b := buf
  for i in [pos:pos+n] do
    b := b.set! i v
  return b

structure BlockResult where
  ok  : Bool
  buf : ByteArray
  pos : Nat

/-- LSIC length extension: add bytes until one is not 255.  `none` = ran off the block. -/
@[inline] def readInteger (inp : ByteArray) (ip : Nat) : Option (Nat × Nat) := Id.run do
  let mut n := 0
  let mut p := ip
  for _ in [ip:inp.size] do
    let e := inp.get! p
    p := p + 1
    n := n + e.toNat
    if e != 0xFF then return some (n, p)
  return none

/-- Decode one compressed block `inp` into the sink `buf[0, cap)` starting at `pos0`.
    `buf[0, pos0)` is the prefix history; when `useDict`, `buf[extOff, extOff+extLen)` is the
    external dictionary that logically precedes the prefix. -/
def decodeBlock (inp buf0 : ByteArray) (pos0 cap : Nat) (useDict : Bool) (extOff extLen : Nat) :
    BlockResult := Id.run do
  let n := inp.size
  let safeIn := n - 18
  let safeOut := if useDict then cap - 34 - 17 else cap - 34
  let mut buf := buf0
  let mut pos := pos0
  let mut ip := 0
  for _ in [0:n+1] do
    if ip ≥ n then return ⟨false, buf, pos⟩            -- ExpectedAnotherByte (token)
    let token := inp.get! ip
    ip := ip + 1
    let litN := (token >>> 4).toNat
    let matN := (token &&& 0xF).toNat
    if litN != 15 && matN != 15 && ip ≤ safeIn && pos < safeOut then
      -- fast path: 16-byte wild literal copy, match length ≤ 18, no bounds errors (DEVIATION D7)
      buf := inp.copySlice ip buf pos 16
      pos := pos + litN
      ip := ip + litN
      let offset := (inp.get! ip).toNat ||| ((inp.get! (ip+1)).toNat <<< 8)
      ip := ip + 2
      let mut ml := 4 + matN
      if useDict && offset > pos then
        let back := offset - pos
        if back > extLen then return ⟨false, buf, pos⟩  -- OffsetOutOfBounds
        let dml := min ml back
        buf := moveWithin buf (extOff + (extLen - back)) pos dml
        pos := pos + dml
        if dml == ml then continue
        ml := ml - dml
      let start := pos - offset                          -- saturating
      if offset ≥ ml then
        buf := moveWithin buf start pos 18
      else
        buf := overlapCopy buf start pos ml
      pos := pos + ml
      continue
    -- slow path
    let mut lit := litN
    if lit != 0 then
      if lit == 15 then
        match readInteger inp ip with
        | none => return ⟨false, buf, pos⟩
        | some (x, p) => lit := lit + x; ip := p
      if lit > n - ip then return ⟨false, buf, pos⟩     -- LiteralOutOfBounds
      if lit > cap - pos then return ⟨false, buf, pos⟩  -- OutputTooSmall
      buf := inp.copySlice ip buf pos lit
      pos := pos + lit
      ip := ip + lit
    if ip ≥ n then return ⟨true, buf, pos⟩              -- end of block
    if ip + 2 > n then return ⟨false, buf, pos⟩         -- ExpectedAnotherByte (offset)
    let offset := (inp.get! ip).toNat ||| ((inp.get! (ip+1)).toNat <<< 8)
    ip := ip + 2
    let mut ml := 4 + matN
    if matN == 15 then
      match readInteger inp ip with
      | none => return ⟨false, buf, pos⟩
      | some (x, p) => ml := ml + x; ip := p
    if pos + ml > cap then return ⟨false, buf, pos⟩     -- OutputTooSmall
    if useDict && offset > pos then
      let back := offset - pos
      if back > extLen then return ⟨false, buf, pos⟩    -- OffsetOutOfBounds
      let dml := min ml back
      buf := moveWithin buf (extOff + (extLen - back)) pos dml
      pos := pos + dml
      if dml == ml then continue
      ml := ml - dml
    -- duplicate_slice
    if offset > pos then return ⟨false, buf, pos⟩       -- OffsetOutOfBounds
    let start := pos - offset
    if ml > offset then
      if offset == 1 then
        buf := fill buf pos ml (buf.get! start)
      else
        buf := overlapCopy buf start pos ml               -- offset 0: exposes stale bytes (D7)
    else if ml ≤ 32 && pos + 32 ≤ cap then
      buf := moveWithin buf start pos 32
    else if ml ≤ 64 && 33 ≤ ml && pos + 64 ≤ cap then
      buf := moveWithin buf start pos 64
    else
      buf := moveWithin buf start pos ml
    pos := pos + ml
  return ⟨false, buf, pos⟩

end Lz4

/-! ## LZ4 frame decoder (lz4_flex `frame::FrameDecoder` driven by `std::io::copy`) -/

inductive Lz4Result where
  | ok (out : ByteArray)
  | eof
  | err

namespace Lz4

def window : Nat := 65536

/-- Block maximum size for the BD code (4..7). -/
def blockMax (code : Nat) : Nat :=
  match code with
  | 4 => 64 * 1024
  | 5 => 256 * 1024
  | 6 => 1024 * 1024
  | _ => 4 * 1024 * 1024

structure FrameInfo where
  maxBlock        : Nat
  linked          : Bool
  blockChecksums  : Bool
  contentChecksum : Bool
  contentSize     : Option Nat

inductive HeaderResult where
  | done (r : Lz4Result)
  | frame (fi : FrameInfo) (next : Nat)

@[inline] def le64 (d : ByteArray) (i : Nat) : Nat :=
  (Xxh32.le32 d i).toNat + (Xxh32.le32 d (i+4)).toNat * 4294967296

/-- `FrameDecoder::read_frame_info` over a `Cursor`. -/
def readHeader (d : ByteArray) : HeaderResult :=
  let n := d.size
  if n == 0 then .done (.ok ByteArray.empty)                 -- D4
  else if n < 4 then .done .eof
  else
    let magic := Xxh32.le32 d 0
    if magic == 0x184C2102 then                              -- D5 legacy
      .frame ⟨8 * 1024 * 1024, false, false, false, none⟩ 4
    else if n == 4 then .done (.ok ByteArray.empty)          -- D4
    else if n < 7 then .done .eof
    else if 0x184D2A50 ≤ magic && magic ≤ 0x184D2A5F then    -- D6 skippable
      if n < 8 then .done .eof else .done .err
    else if magic != 0x184D2204 then .done .err
    else
      let flg := d.get! 4
      let bd := d.get! 5
      let hasSize := flg &&& 0x08 != 0
      let hasDict := flg &&& 0x01 != 0
      let required := 7 + (if hasSize then 8 else 0) + (if hasDict then 4 else 0)
      if n < required then .done .eof
      else if flg &&& 0xC0 != 0x40 then .done .err           -- version
      else if flg &&& 0x02 != 0 || bd &&& 0x8F != 0 then .done .err  -- reserved bits
      else
        let code := ((bd &&& 0x70) >>> 4).toNat
        if code < 4 then .done .err                          -- unsupported block size
        else
          let hc := ((Xxh32.hashRange 0 d 4 (required - 1)) >>> 8).toUInt8
          if hc != d.get! (required - 1) then .done .err     -- header checksum
          else if hasDict then .done .err                    -- D6
          else
            .frame ⟨blockMax code, flg &&& 0x20 == 0, flg &&& 0x10 != 0, flg &&& 0x04 != 0,
                    if hasSize then some (le64 d 6) else none⟩ required

/-- The block loop of `FrameDecoder::read_block` as driven by `io::copy` (which consumes every
    block's output completely before asking for the next block). -/
def readBlocks (d : ByteArray) (fi : FrameInfo) (p0 : Nat) : Lz4Result := Id.run do
  let n := d.size
  let mx := fi.maxBlock
  let capV := if fi.linked then mx * 2 + window else mx     -- dst.capacity()
  let mut p := p0
  let mut out := ByteArray.empty
  let mut buf := ByteArray.empty                             -- dst (size = Vec len)
  let mut dstStart := 0
  let mut extOff := 0
  let mut extLen := 0
  for _ in [0 : n / 4 + 2] do
    if fi.linked then
      if dstStart + mx > capV then
        extOff := dstStart - window
        extLen := window
        dstStart := 0
      else if dstStart + extLen > window then
        let delta := min extLen (dstStart + extLen - window)
        extOff := extOff + delta
        extLen := extLen - delta
    else
      dstStart := 0
    if p + 4 > n then return .ok out                         -- D3
    let word := Xxh32.le32 d p
    p := p + 4
    let mut produced := 0
    if word == 0 then
      -- EndMark
      match fi.contentSize with
      | some e => if out.size != e then return .err
      | none => pure ()
      if fi.contentChecksum then
        if p + 4 > n then return .eof
        if xxh32 0 out != Xxh32.le32 d p then return .err
      return .ok out                                         -- D1
    else if word &&& 0x80000000 != 0 then
      -- stored block
      let len := (word &&& 0x7FFFFFFF).toNat
      if len > mx then return .err
      if p + len > n then return .eof
      if dstStart + len > buf.size then buf := resize buf (dstStart + len)
      buf := d.copySlice p buf dstStart len
      p := p + len
      if fi.blockChecksums then
        if p + 4 > n then return .eof
        if Xxh32.hashRange 0 d (p - len) p != Xxh32.le32 d p then return .err
        p := p + 4
      produced := len
    else
      let len := word.toNat
      if len > mx then return .err
      if p + len > n then return .eof
      let src := d.extract p (p + len)
      p := p + len
      if fi.blockChecksums then
        if p + 4 > n then return .eof
        if xxh32 0 src != Xxh32.le32 d p then return .err
        p := p + 4
      if fi.linked && extLen != 0 then
        let r := decodeBlock src buf dstStart extOff true extOff extLen     -- D8
        buf := r.buf
        if !r.ok then return .err
        produced := r.pos - dstStart
      else
        let b := resize buf (dstStart + mx)
        buf := ByteArray.empty
        let r := decodeBlock src b dstStart (dstStart + mx) false 0 0
        buf := r.buf
        if !r.ok then return .err
        produced := r.pos - dstStart
    out := buf.copySlice dstStart out out.size produced
    dstStart := dstStart + produced
    if produced == 0 then return .ok out                     -- D2
  return .err

end Lz4

/-- Three-valued outcome of `cas_object::lz4_decompress_from_slice data`. -/
def lz4FrameDecodeR (data : ByteArray) : Lz4Result :=
  match Lz4.readHeader data with
  | .done r => r
  | .frame fi next => Lz4.readBlocks data fi next

/-- `some out` = Rust `Ok(out)`; `none` = any error. -/
def lz4FrameDecode (data : ByteArray) : Option ByteArray :=
  match lz4FrameDecodeR data with
  | .ok out => some out
  | _ => none

/-- List-level result (for statements over `List UInt8`). -/
inductive Lz4ResultL where
  | ok (out : List UInt8)
  | eof
  | err
  deriving DecidableEq, Repr

def lz4FrameDecodeRL (data : List UInt8) : Lz4ResultL :=
  match lz4FrameDecodeR ⟨data.toArray⟩ with
  | .ok out => .ok out.toList
  | .eof => .eof
  | .err => .err

def lz4FrameDecodeL (data : List UInt8) : Option (List UInt8) :=
  (lz4FrameDecode ⟨data.toArray⟩).map (·.toList)

end Xet.Prim
