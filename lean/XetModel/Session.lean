/-
Model of `data/src/file_cleaner.rs` (`SingleFileCleaner::{add_data, add_data_impl, finish}`) on top of
the chunker and dedup models, and of one upload session as a sequence of file completions
(`FileUploadSession::{register_single_file_clean_completion, finalize_impl}` via `Dedup.Sess`).
Dedup answers of the shard managers are oracle inputs (one `Answers` per `process_chunks` call).
-/
import XetModel.Chunker
import XetModel.Dedup

namespace Xet.Session

open Xet.Dedup

/-- `add_data`: blocks of at most `INGESTION_BLOCK_SIZE` when the input is larger than that -/
def splitIngestAux (ingest : Nat) : Nat → Bytes → List Bytes
  | 0, _ => []
  | fuel+1, data => if data.isEmpty then [] else data.take ingest :: splitIngestAux ingest fuel (data.drop ingest)

def splitIngest (ingest : Nat) (data : Bytes) : List Bytes :=
  if data.length > ingest ∧ ingest > 0 then splitIngestAux ingest (data.length + 1) data else [data]

structure CallOracle where
  answers : Answers
  gc : Nat
  gb : Nat

structure Clean where
  ck : Chunker.State
  fd : FD
  oracle : List CallOracle
  calls : Nat            -- number of `process_chunks` calls made
  desync : Bool          -- the oracle list ran out (model and implementation disagree on the call structure)

def mkChunks (P : HashPrims) (cs : List Bytes) : List DChunk := cs.map fun c => ⟨P.dataHash c, c⟩

/-- one `process_chunks(chunks)` call with the next oracle entry -/
def Clean.process (P : HashPrims) (L : Limits) (st : Clean) (chunks : List DChunk) : Clean :=
  match st.oracle with
  | o :: rest =>
    let a := if o.answers.length = chunks.length then o.answers else List.replicate chunks.length none
    { st with fd := processChunks P L Defrag.allowNext st.fd chunks a o.gc o.gb, oracle := rest, calls := st.calls + 1,
              desync := st.desync || (o.answers.length != chunks.length) }
  | [] => { st with fd := processChunks P L Defrag.allowNext st.fd chunks (List.replicate chunks.length none) 0 0,
                    calls := st.calls + 1, desync := true }

/-- `add_data_impl(data)`: `chunker.next_block(data, false)`; nothing happens when no chunk completes -/
def Clean.addDataImpl (P : HashPrims) (L : Limits) (p : Chunker.Params) (st : Clean) (data : Bytes) : Clean :=
  let r := Chunker.nextBlock p st.ck data false
  let st1 := { st with ck := r.st }
  if r.chunks.isEmpty then st1 else st1.process P L (mkChunks P r.chunks)

/-- `add_data(data)` -/
def Clean.addData (P : HashPrims) (L : Limits) (p : Chunker.Params) (ingest : Nat) (st : Clean) (data : Bytes) : Clean :=
  (splitIngest ingest data).foldl (fun s piece => s.addDataImpl P L p piece) st

structure Cleaned where
  fin : Finalized
  fd : FD
  size : Nat             -- pointer file size = total_bytes metric
  calls : Nat
  desync : Bool

/-- `finish()`: flush the chunker, process the last chunk, finalize -/
def Clean.finish (P : HashPrims) (L : Limits) (p : Chunker.Params) (st : Clean) (salt : Bytes) (sha : Hash) : Cleaned :=
  let st1 := match Chunker.finish p st.ck with
    | some c => st.process P L (mkChunks P [c])
    | none => st
  let fin := finalize P st1.fd salt sha
  ⟨fin, st1.fd, fin.metrics.totalBytes, st1.calls, st1.desync || !st1.oracle.isEmpty⟩

def cleanFile (P : HashPrims) (L : Limits) (p : Chunker.Params) (ingest : Nat) (pieces : List Bytes) (oracle : List CallOracle)
    (salt : Bytes) (sha : Hash) : Cleaned :=
  let st0 : Clean := ⟨Chunker.State.init, FD.init, oracle, 0, false⟩
  ((pieces.foldl (fun s d => s.addData P L p ingest d) st0)).finish P L p salt sha

/-- a session in which files complete in the given order; mid-file xorbs of a file are registered
    before that file completes (their relative order across files does not influence any output
    compared here: `puts` and `casRegistered` are compared as sorted lists). -/
def runSession (P : HashPrims) (L : Limits) (files : List Cleaned) : Sess :=
  let s := files.foldl (fun s f =>
      let s1 := f.fd.cut.foldl (fun acc x => acc.registerXorb x) s
      s1.fileDone P L f.fin.agg f.fin.metrics) Sess.init
  s.finish P

end Xet.Session
