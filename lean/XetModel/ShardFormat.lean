/-
Model of the MDB shard binary format and its readers:
  `mdb_shard/src/shard_format.rs`   (header, footer, `serialize_from`, lookups, scans, dedup queries,
                                     `export_as_keyed_shard_impl`)
  `mdb_shard/src/file_structs.rs`   (48-byte file records)
  `mdb_shard/src/cas_structs.rs`    (48-byte CAS records)
  `mdb_shard/src/shard_in_memory.rs` (BTreeMap-ordered content, size accounting, in-memory dedup query)
-/
import XetModel.Merkle

namespace Xet.Shard

/-! ### little-endian integers -/

def le32 (n : Nat) : Bytes :=
  [UInt8.ofNat (n % 256), UInt8.ofNat (n / 256 % 256), UInt8.ofNat (n / 65536 % 256), UInt8.ofNat (n / 16777216 % 256)]

def le64 (n : Nat) : Bytes := le32 (n % 4294967296) ++ le32 (n / 4294967296 % 4294967296)

def ofLe (bs : Bytes) : Nat := bs.foldr (fun b acc => b.toNat + 256 * acc) 0

def u32Max : Nat := 4294967295
def u64Max : Nat := 18446744073709551615

/-- `truncate_hash` = first `u64` word -/
def trunc (h : Hash) : Nat := h.w0.toNat

/-- `Ord for DataHash`: lexicographic on the four words -/
def hashLt (a b : Hash) : Bool :=
  a.w0 < b.w0 || (a.w0 == b.w0 && (a.w1 < b.w1 || (a.w1 == b.w1 && (a.w2 < b.w2 || (a.w2 == b.w2 && a.w3 < b.w3)))))

def bookendHash : Hash := ⟨UInt64.ofNat u64Max, UInt64.ofNat u64Max, UInt64.ofNat u64Max, UInt64.ofNat u64Max⟩

/-! ### records (48 bytes each) -/

def recSize : Nat := 48
def flagVerification : Nat := Gen.mdbFileFlagWithVerification   -- 1 <<< 31
def flagMetadataExt : Nat := Gen.mdbFileFlagWithMetadataExt    -- 1 <<< 30

/-- `FileDataSequenceEntry` -/
structure Seg where
  casHash : Hash
  casFlags : Nat
  bytes : Nat        -- unpacked_segment_bytes
  cstart : Nat       -- chunk_index_start
  cend : Nat         -- chunk_index_end
  deriving DecidableEq, Repr

/-- `MDBFileInfo` (header fields flattened) -/
structure FileInfo where
  hash : Hash
  flags : Nat
  numEntries : Nat       -- header.num_entries (= segs.length for records this client writes)
  unused : Nat
  segs : List Seg
  verif : List Hash      -- range hashes (written only when the verification flag is set)
  metaExt : Option Hash  -- sha256
  deriving DecidableEq, Repr

def hasBit (flags bit : Nat) : Bool := (flags / bit) % 2 == 1

def FileInfo.hasVerif (f : FileInfo) : Bool := hasBit f.flags flagVerification
def FileInfo.hasMeta (f : FileInfo) : Bool := hasBit f.flags flagMetadataExt

/-- `CASChunkSequenceEntry` -/
structure Chunk where
  hash : Hash
  bytes : Nat        -- unpacked_segment_bytes
  rangeStart : Nat   -- chunk_byte_range_start
  unused : Nat
  deriving DecidableEq, Repr

/-- `MDBCASInfo` -/
structure CasInfo where
  hash : Hash
  flags : Nat
  numEntries : Nat
  bytesInCas : Nat
  bytesOnDisk : Nat
  chunks : List Chunk
  deriving DecidableEq, Repr

def segBytes (s : Seg) : Bytes := s.casHash.toBytes ++ le32 s.casFlags ++ le32 s.bytes ++ le32 s.cstart ++ le32 s.cend

def fileHeaderBytes (h : Hash) (flags n unused : Nat) : Bytes := h.toBytes ++ le32 flags ++ le32 n ++ le64 unused

def hash16 (h : Hash) : Bytes := h.toBytes ++ List.replicate 16 0   -- verification / metadata-ext record

/-- `MDBFileInfo::serialize` -/
def FileInfo.bytes (f : FileInfo) : Bytes :=
  fileHeaderBytes f.hash f.flags f.numEntries f.unused ++ f.segs.flatMap segBytes
  ++ (if f.hasVerif then f.verif.flatMap hash16 else [])
  ++ (match f.metaExt with | some m => hash16 m | none => [])

def chunkBytes (c : Chunk) : Bytes := c.hash.toBytes ++ le32 c.rangeStart ++ le32 c.bytes ++ le64 c.unused

def casHeaderBytes (h : Hash) (flags n inCas onDisk : Nat) : Bytes :=
  h.toBytes ++ le32 flags ++ le32 n ++ le32 inCas ++ le32 onDisk

/-- `MDBCASInfo::serialize` -/
def CasInfo.bytes (c : CasInfo) : Bytes :=
  casHeaderBytes c.hash c.flags c.numEntries c.bytesInCas c.bytesOnDisk ++ c.chunks.flatMap chunkBytes

def bookend : Bytes := bookendHash.toBytes ++ List.replicate 16 0

/-! ### in-memory shard (`MDBInMemoryShard`): BTreeMaps as hash-sorted association lists -/

structure Mem where
  files : List FileInfo    -- strictly increasing by `hash`
  cas : List CasInfo       -- strictly increasing by `hash`
  deriving Repr

def insertFile (f : FileInfo) : List FileInfo → List FileInfo
  | [] => [f]
  | g :: rest => if hashLt f.hash g.hash then f :: g :: rest else if f.hash = g.hash then f :: rest else g :: insertFile f rest

def insertCas (c : CasInfo) : List CasInfo → List CasInfo
  | [] => [c]
  | g :: rest => if hashLt c.hash g.hash then c :: g :: rest else if c.hash = g.hash then c :: rest else g :: insertCas c rest

/-! ### header / footer -/

def headerTag : Bytes := Gen.mdbShardHeaderTag
def headerVersion : Nat := Gen.mdbShardHeaderVersion
def footerVersion : Nat := Gen.mdbShardFooterVersion
def headerSize : Nat := 48
def footerSize : Nat := Gen.mdbShardFooterSize

def headerBytes : Bytes := headerTag ++ le64 headerVersion ++ le64 footerSize

structure Footer where
  version : Nat
  fileInfoOff : Nat
  casInfoOff : Nat
  fileLookupOff : Nat
  fileLookupNum : Nat
  casLookupOff : Nat
  casLookupNum : Nat
  chunkLookupOff : Nat
  chunkLookupNum : Nat
  hmacKey : Hash
  creation : Nat
  expiry : Nat
  buffer : List Nat      -- 6 × u64
  storedOnDisk : Nat
  materialized : Nat
  stored : Nat
  footerOff : Nat
  deriving DecidableEq, Repr

def Footer.bytes (f : Footer) : Bytes :=
  le64 f.version ++ le64 f.fileInfoOff ++ le64 f.casInfoOff ++ le64 f.fileLookupOff ++ le64 f.fileLookupNum
  ++ le64 f.casLookupOff ++ le64 f.casLookupNum ++ le64 f.chunkLookupOff ++ le64 f.chunkLookupNum
  ++ f.hmacKey.toBytes ++ le64 f.creation ++ le64 f.expiry ++ f.buffer.flatMap le64
  ++ le64 f.storedOnDisk ++ le64 f.materialized ++ le64 f.stored ++ le64 f.footerOff

/-! ### `serialize_from` -/

/-- number of 48-byte records a file occupies -/
def FileInfo.numRecs (f : FileInfo) : Nat := f.bytes.length / recSize

structure FileSection where
  bytes : Bytes
  lookup : List (Nat × Nat)     -- (truncated hash, record index)

/-- `convert_and_save_file_info` (without the bookend) -/
def fileSection : Nat → List FileInfo → FileSection
  | _, [] => ⟨[], []⟩
  | idx, f :: rest =>
    let r := fileSection (idx + f.numRecs) rest
    ⟨f.bytes ++ r.bytes, (trunc f.hash, idx) :: r.lookup⟩

structure CasSection where
  bytes : Bytes
  lookup : List (Nat × Nat)
  chunkLookup : List (Nat × Nat × Nat)   -- (truncated chunk hash, cas record index, chunk index), section order

def chunkEntries (idx : Nat) : Nat → List Chunk → List (Nat × Nat × Nat)
  | _, [] => []
  | i, c :: rest => (trunc c.hash, idx, i) :: chunkEntries idx (i + 1) rest

/-- `convert_and_save_cas_info` (without the bookend and before sorting the chunk table) -/
def casSection : Nat → List CasInfo → CasSection
  | _, [] => ⟨[], [], []⟩
  | idx, c :: rest =>
    let r := casSection (idx + 1 + c.chunks.length) rest
    ⟨c.bytes ++ r.bytes, (trunc c.hash, idx) :: r.lookup, chunkEntries idx 0 c.chunks ++ r.chunkLookup⟩

def lookupBytes (l : List (Nat × Nat)) : Bytes := l.flatMap fun e => le64 e.1 ++ le32 e.2
def chunkLookupBytes (l : List (Nat × Nat × Nat)) : Bytes := l.flatMap fun e => le64 e.1 ++ le32 e.2.1 ++ le32 e.2.2

/-- insertion sort by key, stable (the code uses `sort_unstable_by_key`: the order among equal keys is
    unspecified, so `serialize` takes the sorted table as an argument `chunkTable` that must be a
    key-sorted permutation of the section-order entries — see `LegalChunkTable`). -/
def insertByKey (e : Nat × Nat × Nat) : List (Nat × Nat × Nat) → List (Nat × Nat × Nat)
  | [] => [e]
  | x :: rest => if e.1 < x.1 then e :: x :: rest else x :: insertByKey e rest

def sortByKey (l : List (Nat × Nat × Nat)) : List (Nat × Nat × Nat) := l.foldl (fun acc e => insertByKey e acc) []

def keySorted : List (Nat × Nat × Nat) → Bool
  | a :: b :: rest => decide (a.1 ≤ b.1) && keySorted (b :: rest)
  | _ => true

def sumMap {α} (f : α → Nat) (l : List α) : Nat := (l.map f).sum

def Mem.storedOnDisk (m : Mem) : Nat := sumMap (·.bytesOnDisk) m.cas
def Mem.stored (m : Mem) : Nat := sumMap (·.bytesInCas) m.cas
def Mem.materialized (m : Mem) : Nat := sumMap (fun f => sumMap (·.bytes) f.segs) m.files

structure Serialized where
  bytes : Bytes
  footer : Footer

/-- `MDBShardInfo::serialize_from(writer, mdb)` with the chunk lookup table in the order `chunkTable`. -/
def serialize (m : Mem) (chunkTable : List (Nat × Nat × Nat)) : Serialized :=
  let fs := fileSection 0 m.files
  let cs := casSection 0 m.cas
  let fileInfoOff := headerSize
  let casInfoOff := fileInfoOff + fs.bytes.length + recSize
  let fileLookupOff := casInfoOff + cs.bytes.length + recSize
  let casLookupOff := fileLookupOff + 12 * fs.lookup.length
  let chunkLookupOff := casLookupOff + 12 * cs.lookup.length
  let footerOff := chunkLookupOff + 16 * chunkTable.length
  let footer : Footer := ⟨footerVersion, fileInfoOff, casInfoOff, fileLookupOff, fs.lookup.length, casLookupOff, cs.lookup.length,
    chunkLookupOff, chunkTable.length, Hash.zero, 0, u64Max, List.replicate 6 0, m.storedOnDisk, m.materialized, m.stored, footerOff⟩
  ⟨headerBytes ++ fs.bytes ++ bookend ++ cs.bytes ++ bookend ++ lookupBytes fs.lookup ++ lookupBytes cs.lookup
     ++ chunkLookupBytes chunkTable ++ footer.bytes, footer⟩

def serializeStable (m : Mem) : Serialized := serialize m (sortByKey (casSection 0 m.cas).chunkLookup)

/-- size accounting of `MDBInMemoryShard::shard_file_size` for content added once
    (`recalculate_shard_size` + `non_content_byte_size`; chunk table rows = number of chunk records). -/
def Mem.shardFileSize (m : Mem) : Nat :=
  sumMap (fun c => recSize + recSize * c.chunks.length + 12) m.cas
  + sumMap (fun f => f.bytes.length + 12) m.files
  + 16 * sumMap (fun c => c.chunks.length) m.cas
  + (footerSize + headerSize + recSize + recSize)

/-! ### readers (seekable: `MDBShardInfo`) -/

inductive Err
  | eof | version | collision | internal
  deriving DecidableEq, Repr

def readAt (b : Bytes) (off n : Nat) : Except Err Bytes :=
  if off + n ≤ b.length then .ok ((b.drop off).take n) else .error .eof

def u32At (b : Bytes) (off : Nat) : Except Err Nat := (readAt b off 4).map ofLe
def u64At (b : Bytes) (off : Nat) : Except Err Nat := (readAt b off 8).map ofLe
def hashAt (b : Bytes) (off : Nat) : Except Err Hash := (readAt b off 32).map Hash.ofBytes

/-- `MDBShardFileFooter::deserialize` at `off` -/
def parseFooter (b : Bytes) (off : Nat) : Except Err Footer := do
  let version ← u64At b off
  if version ≠ footerVersion then .error .version else
  let a1 ← u64At b (off + 8)
  let a2 ← u64At b (off + 16)
  let a3 ← u64At b (off + 24)
  let a4 ← u64At b (off + 32)
  let a5 ← u64At b (off + 40)
  let a6 ← u64At b (off + 48)
  let a7 ← u64At b (off + 56)
  let a8 ← u64At b (off + 64)
  let key ← hashAt b (off + 72)
  let cr ← u64At b (off + 104)
  let ex ← u64At b (off + 112)
  let b0 ← u64At b (off + 120)
  let b1 ← u64At b (off + 128)
  let b2 ← u64At b (off + 136)
  let b3 ← u64At b (off + 144)
  let b4 ← u64At b (off + 152)
  let b5 ← u64At b (off + 160)
  let s1 ← u64At b (off + 168)
  let s2 ← u64At b (off + 176)
  let s3 ← u64At b (off + 184)
  let fo ← u64At b (off + 192)
  .ok ⟨version, a1, a2, a3, a4, a5, a6, a7, a8, key, cr, ex, [b0, b1, b2, b3, b4, b5], s1, s2, s3, fo⟩

/-- `MDBShardInfo::load_from_reader`: header tag check, footer from the end -/
def loadInfo (b : Bytes) : Except Err Footer := do
  let tag ← readAt b 0 32
  if tag ≠ headerTag then .error .version else
  let _ ← u64At b 32
  let _ ← u64At b 40
  if b.length < footerSize then .error .eof else
  parseFooter b (b.length - footerSize)

/-- `FileDataSequenceEntry::deserialize` -/
def parseSeg (b : Bytes) (off : Nat) : Except Err Seg := do
  let h ← hashAt b off
  let f ← u32At b (off + 32)
  let n ← u32At b (off + 36)
  let s ← u32At b (off + 40)
  let e ← u32At b (off + 44)
  .ok ⟨h, f, n, s, e⟩

def parseSegs (b : Bytes) : Nat → Nat → List Seg → Except Err (List Seg)
  | 0, _, acc => .ok acc.reverse
  | n+1, off, acc =>
    match parseSeg b off with
    | .ok s => parseSegs b n (off + recSize) (s :: acc)
    | .error e => .error e

def parseHashes48 (b : Bytes) : Nat → Nat → List Hash → Except Err (List Hash)
  | 0, _, acc => .ok acc.reverse
  | n+1, off, acc =>
    match readAt b off recSize with
    | .ok r => parseHashes48 b n (off + recSize) (Hash.ofBytes r :: acc)
    | .error e => .error e

/-- `MDBFileInfo::deserialize` at byte offset `off`; `none` = bookend -/
def parseFileInfo (b : Bytes) (off : Nat) : Except Err (Option (FileInfo × Nat)) := do
  let h ← hashAt b off
  let flags ← u32At b (off + 32)
  let n ← u32At b (off + 36)
  let unused ← u64At b (off + 40)
  if h = bookendHash then .ok none else
  let segs ← parseSegs b n (off + recSize) []
  let off2 := off + recSize + recSize * n
  let hasV := hasBit flags flagVerification
  let verif ← if hasV then parseHashes48 b n off2 [] else .ok []
  let off3 := if hasV then off2 + recSize * n else off2
  if hasBit flags flagMetadataExt then
    let r ← readAt b off3 recSize
    .ok (some (⟨h, flags, n, unused, segs, verif, some (Hash.ofBytes r)⟩, off3 + recSize))
  else .ok (some (⟨h, flags, n, unused, segs, verif, none⟩, off3))

/-- `read_all_file_info_sections` -/
def readAllFiles (b : Bytes) : Nat → Nat → List FileInfo → Except Err (List FileInfo)
  | 0, _, acc => .ok acc.reverse
  | fuel+1, off, acc =>
    match parseFileInfo b off with
    | .error e => .error e
    | .ok none => .ok acc.reverse
    | .ok (some (f, off')) => readAllFiles b fuel off' (f :: acc)

def parseChunk (b : Bytes) (off : Nat) : Except Err Chunk := do
  let h ← hashAt b off
  let rs ← u32At b (off + 32)
  let n ← u32At b (off + 36)
  let u ← u64At b (off + 40)
  .ok ⟨h, n, rs, u⟩

def parseChunks (b : Bytes) : Nat → Nat → List Chunk → Except Err (List Chunk)
  | 0, _, acc => .ok acc.reverse
  | n+1, off, acc =>
    match parseChunk b off with
    | .ok c => parseChunks b n (off + recSize) (c :: acc)
    | .error e => .error e

structure CasHeader where
  hash : Hash
  flags : Nat
  numEntries : Nat
  bytesInCas : Nat
  bytesOnDisk : Nat

def parseCasHeader (b : Bytes) (off : Nat) : Except Err CasHeader := do
  let h ← hashAt b off
  let f ← u32At b (off + 32)
  let n ← u32At b (off + 36)
  let a ← u32At b (off + 40)
  let d ← u32At b (off + 44)
  .ok ⟨h, f, n, a, d⟩

/-- `MDBCASInfo::deserialize` -/
def parseCasInfo (b : Bytes) (off : Nat) : Except Err (Option (CasInfo × Nat)) := do
  let hd ← parseCasHeader b off
  if hd.hash = bookendHash then .ok none else
  let chunks ← parseChunks b hd.numEntries (off + recSize) []
  .ok (some (⟨hd.hash, hd.flags, hd.numEntries, hd.bytesInCas, hd.bytesOnDisk, chunks⟩, off + recSize + recSize * hd.numEntries))

/-- `read_all_cas_blocks_full` -/
def readAllCas (b : Bytes) : Nat → Nat → List CasInfo → Except Err (List CasInfo)
  | 0, _, acc => .ok acc.reverse
  | fuel+1, off, acc =>
    match parseCasInfo b off with
    | .error e => .error e
    | .ok none => .ok acc.reverse
    | .ok (some (c, off')) => readAllCas b fuel off' (c :: acc)

/-- a 12-byte lookup table (u64 key, u32 value) -/
def readLookup (b : Bytes) : Nat → Nat → List (Nat × Nat) → Except Err (List (Nat × Nat))
  | 0, _, acc => .ok acc.reverse
  | n+1, off, acc =>
    match u64At b off, u32At b (off + 8) with
    | .ok k, .ok v => readLookup b n (off + 12) ((k, v) :: acc)
    | .error e, _ => .error e
    | _, .error e => .error e

/-- `read_all_truncated_hashes` when the chunk table is present -/
def readChunkLookup (b : Bytes) : Nat → Nat → List (Nat × Nat × Nat) → Except Err (List (Nat × Nat × Nat))
  | 0, _, acc => .ok acc.reverse
  | n+1, off, acc =>
    match u64At b off, u32At b (off + 8), u32At b (off + 12) with
    | .ok k, .ok v, .ok w => readChunkLookup b n (off + 16) ((k, v, w) :: acc)
    | .error e, _, _ => .error e
    | _, .error e, _ => .error e
    | _, _, .error e => .error e

/-- result of `search_on_sorted_u64s` on a table, as a *specification*: the values whose key equals
    `key`, in table order, at most `cap` of them (`XetProps.C09Search` proves the loop computes a
    permutation of this when fewer than `cap` match, and `cap` matching values otherwise). -/
def searchSpec {α} (table : List (Nat × α)) (key cap : Nat) : List α :=
  ((table.filter fun e => e.1 == key).map (·.2)).take cap

def maxCollisions : Nat := 8

/-- `get_file_reconstruction_info(reader, file_hash)`: truncated lookup (error on ≥ 8 equal prefixes),
    then full-hash comparison of each candidate. `cands` = what the table search returned. -/
def fileFromCandidates (b : Bytes) (ft : Footer) (h : Hash) : List Nat → Except Err (Option FileInfo)
  | [] => .ok none
  | idx :: rest =>
    match parseFileInfo b (ft.fileInfoOff + recSize * idx) with
    | .error e => .error e
    | .ok none => .error .internal          -- "invalid file entry index"
    | .ok (some (f, _)) => if f.hash = h then .ok (some f) else fileFromCandidates b ft h rest

def getFile (b : Bytes) (ft : Footer) (h : Hash) : Except Err (Option FileInfo) := do
  let table ← readLookup b ft.fileLookupNum ft.fileLookupOff []
  let cands := searchSpec table (trunc h) maxCollisions
  if cands.length ≥ maxCollisions then .error .collision else
  fileFromCandidates b ft h cands

/-- keyed form of a chunk hash under the shard's HMAC key (`keyed_chunk_hash`) -/
def keyedHash (P : HashPrims) (key : Hash) (h : Hash) : Hash :=
  if key = Hash.zero then h else Merkle.hmac P h key

structure DedupAnswer where
  n : Nat
  seg : Seg
  deriving DecidableEq, Repr

/-- the matching loop of `chunk_hash_dedup_query_direct` after the first chunk matched:
    returns (`end_idx`, summed bytes). `i` counts from 1. -/
def matchRun (P : HashPrims) (key : Hash) (b : Bytes) (casOff numEntries chunkOff : Nat) (q : List Hash) :
    Nat → Nat → Nat → Except Err (Nat × Nat)
  | 0, i, acc => .ok (i, acc)
  | fuel+1, i, acc =>
    if chunkOff + i = numEntries then .ok (i, acc) else
    match parseChunk b (casOff + recSize * (1 + chunkOff + i)) with
    | .error e => .error e
    | .ok c =>
      match q[i]? with
      | none => .ok (i, acc)
      | some qh => if c.hash ≠ keyedHash P key qh then .ok (i, acc) else matchRun P key b casOff numEntries chunkOff q fuel (i + 1) (acc + c.bytes)

/-- `chunk_hash_dedup_query_direct(reader, query, cas_entry_index, cas_chunk_offset)` -/
def dedupDirect (P : HashPrims) (b : Bytes) (ft : Footer) (q : List Hash) (casIdx chunkOff : Nat) : Except Err (Option DedupAnswer) :=
  match q with
  | [] => .ok none
  | q0 :: _ => do
    let casOff := ft.casInfoOff + recSize * casIdx
    let hd ← parseCasHeader b casOff
    let first ← parseChunk b (casOff + recSize * (1 + chunkOff))
    if first.hash ≠ keyedHash P ft.hmacKey q0 then .ok none else
    let (endIdx, nb) ← matchRun P ft.hmacKey b casOff hd.numEntries chunkOff q (q.length + 1) 1 first.bytes
    .ok (some ⟨endIdx, ⟨hd.hash, hd.flags, nb, chunkOff, chunkOff + endIdx⟩⟩)

def dedupFromCandidates (P : HashPrims) (b : Bytes) (ft : Footer) (q : List Hash) : List (Nat × Nat) → Except Err (Option DedupAnswer)
  | [] => .ok none
  | (ci, co) :: rest =>
    match dedupDirect P b ft q ci co with
    | .error e => .error e
    | .ok (some a) => .ok (some a)
    | .ok none => dedupFromCandidates P b ft q rest

/-- `chunk_hash_dedup_query(reader, query)`; `cands` = the (cas index, chunk index) pairs the chunk-table
    search returned for the truncated keyed hash of the first query hash (any ≤ 8 of the matching rows). -/
def dedupQuery (P : HashPrims) (b : Bytes) (ft : Footer) (q : List Hash) (cands : List (Nat × Nat)) : Except Err (Option DedupAnswer) :=
  if q.isEmpty ∨ ft.chunkLookupNum = 0 then .ok none else dedupFromCandidates P b ft q cands

/-- candidates by the specification of the table search -/
def dedupCandidates (P : HashPrims) (b : Bytes) (ft : Footer) (q0 : Hash) : Except Err (List (Nat × Nat)) := do
  let table ← readChunkLookup b ft.chunkLookupNum ft.chunkLookupOff []
  .ok (searchSpec (table.map fun e => (e.1, (e.2.1, e.2.2))) (trunc (keyedHash P ft.hmacKey q0)) maxCollisions)

/-! ### in-memory dedup query (`MDBInMemoryShard::chunk_hash_dedup_query`) -/

/-- the `chunk_hash_lookup` HashMap: last insertion wins; modelled by the oracle `(cas, idx)` the map
    returned, which must be a recorded position of `q[0]` (`Mem.hasChunkAt`). -/
def memMatchLen (chunks : List Chunk) (start : Nat) (q : List Hash) : Nat → Nat → Nat
  | 0, i => i
  | fuel+1, i =>
    match chunks[start + i]?, q[i]? with
    | some c, some qh => if c.hash = qh then memMatchLen chunks start q fuel (i + 1) else i
    | _, _ => i

def memDedup (c : CasInfo) (start : Nat) (q : List Hash) : DedupAnswer :=
  let n := memMatchLen c.chunks start q (q.length + 1) 0
  if n = 0 then ⟨0, ⟨Hash.zero, 0, 0, 0, 0⟩⟩     -- `from_cas_entries` of an empty slice = default
  else ⟨n, ⟨c.hash, c.flags, sumMap (·.bytes) ((c.chunks.drop start).take n), start, start + n⟩⟩

/-! ### keyed export (`export_as_keyed_shard_impl`) -/

structure Export where
  bytes : Bytes
  footer : Footer

/-- file section walk of the export: `include = true` copies every record; `include = false` skips
    the segment records and the verification / metadata tail. -/
def exportFiles (b : Bytes) (incl : Bool) : Nat → Nat → Nat → Bytes → List (Nat × Nat) → Nat →
    Except Err (Bytes × List (Nat × Nat) × Nat × Nat)
  | 0, _, _, _, _, _ => .error .internal
  | fuel+1, off, idx, out, lookup, mat =>
    match parseFileInfo b off with
    | .error e => .error e
    | .ok none => .ok (out ++ bookend, lookup.reverse, mat, off + recSize)
    | .ok (some (f, off')) =>
      if incl then
        match readAt b off (off' - off) with
        | .error e => .error e
        | .ok raw => exportFiles b incl fuel off' (idx + (off' - off) / recSize) (out ++ raw) ((trunc f.hash, idx) :: lookup)
                       (mat + sumMap (·.bytes) f.segs)
      else exportFiles b incl fuel off' idx out lookup mat

def exportCas (P : HashPrims) (b : Bytes) (key : Hash) : Nat → Nat → Nat → Bytes → List (Nat × Nat) → List (Nat × Nat × Nat) →
    Nat → Nat → Except Err (Bytes × List (Nat × Nat) × List (Nat × Nat × Nat) × Nat × Nat)
  | 0, _, _, _, _, _, _, _ => .error .internal
  | fuel+1, off, idx, out, cl, chl, sd, st =>
    match parseCasInfo b off with
    | .error e => .error e
    | .ok none => .ok (out ++ bookend, cl.reverse, chl, sd, st)
    | .ok (some (c, off')) =>
      let chunks := c.chunks.map fun ch => { ch with hash := keyedHash P key ch.hash }
      let c' : CasInfo := { c with chunks := chunks }
      exportCas P b key fuel off' (idx + 1 + c.numEntries) (out ++ c'.bytes) ((trunc c.hash, idx) :: cl)
        (chl ++ chunkEntries idx 0 chunks) (sd + c.bytesOnDisk) (st + c.bytesInCas)

/-- `export_as_keyed_shard_impl(reader, writer, key, valid_for, file_info, cas_table, chunk_table)`;
    `now` and `validFor` in seconds. -/
def exportKeyed (P : HashPrims) (b : Bytes) (key : Hash) (now validFor : Nat) (incFile incCas incChunk : Bool) : Except Err Export := do
  let tag ← readAt b 0 32
  if tag ≠ headerTag then .error .version else
  let hdr ← readAt b 0 headerSize
  let (fbytes, flookup, mat, casStart) ← exportFiles b incFile (b.length / recSize + 1) headerSize 0 [] [] 0
  let fileInfoOff := headerSize
  let casInfoOff := fileInfoOff + fbytes.length
  let (cbytes, clookup, chlookup, sd, st) ← exportCas P b key (b.length / recSize + 1) casStart 0 [] [] [] 0 0
  let fl := if incFile then flookup else []
  let cl := if incCas then clookup else []
  let chl := if incChunk then sortByKey chlookup else []
  let fileLookupOff := casInfoOff + cbytes.length
  let casLookupOff := fileLookupOff + 12 * fl.length
  let chunkLookupOff := casLookupOff + 12 * cl.length
  let footerOff := chunkLookupOff + 16 * chl.length
  let footer : Footer := ⟨footerVersion, fileInfoOff, casInfoOff, fileLookupOff, fl.length, casLookupOff, cl.length, chunkLookupOff,
    chl.length, key, now, min (now + validFor) u64Max, List.replicate 6 0, sd, if incFile then mat else 0, st, footerOff⟩
  .ok ⟨hdr ++ fbytes ++ cbytes ++ lookupBytes fl ++ lookupBytes cl ++ chunkLookupBytes chl ++ footer.bytes, footer⟩

/-! ### expiry (`MDBShardFile::load_all` / `clean_expired_shards`) -/

def isLoaded (now expiry : Nat) : Bool := decide (now ≤ expiry)
def satAdd64 (a b : Nat) : Nat := min (a + b) u64Max
def isDeleted (now buffer expiry : Nat) : Bool := decide (satAdd64 expiry buffer ≤ now)

end Xet.Shard

namespace Xet.Shard

/-! ### `MDBInMemoryShard` operations (with the `chunk_hash_lookup` HashMap and the running size) -/

structure MemShard where
  mem : Mem
  lookup : List (Hash × CasInfo × Nat)   -- chunk hash ↦ (block, index); one entry per key (HashMap)
  size : Nat                             -- `current_shard_file_size`

def MemShard.empty : MemShard := ⟨⟨[], []⟩, [], 0⟩

def findFile (h : Hash) : List FileInfo → Option FileInfo
  | [] => none
  | f :: rest => if f.hash = h then some f else findFile h rest

def findCas (h : Hash) : List CasInfo → Option CasInfo
  | [] => none
  | c :: rest => if c.hash = h then some c else findCas h rest

def lookupInsert (k : Hash) (v : CasInfo × Nat) : List (Hash × CasInfo × Nat) → List (Hash × CasInfo × Nat)
  | [] => [(k, v)]
  | e :: rest => if e.1 = k then (k, v) :: rest else e :: lookupInsert k v rest

def lookupInsertChunks (c : CasInfo) : Nat → List Chunk → List (Hash × CasInfo × Nat) → List (Hash × CasInfo × Nat)
  | _, [], l => l
  | i, ch :: rest, l => lookupInsertChunks c (i + 1) rest (lookupInsert ch.hash (c, i) l)

def casContribution (c : CasInfo) : Nat := 16 * c.chunks.length + (recSize + recSize * c.chunks.length) + 12

/-- `add_cas_block` (a replaced block's contribution is subtracted) -/
def MemShard.addCas (s : MemShard) (c : CasInfo) : MemShard :=
  let replaced := match findCas c.hash s.mem.cas with
    | some old => casContribution old
    | none => 0
  ⟨⟨s.mem.files, insertCas c s.mem.cas⟩, lookupInsertChunks c 0 c.chunks s.lookup,
   s.size - replaced + casContribution c⟩

/-- `MDBFileInfo::num_bytes`: header + `num_info_entry_following` records -/
def FileInfo.numBytes (f : FileInfo) : Nat :=
  recSize + recSize * ((if f.hasVerif then f.numEntries * 2 else f.numEntries) + (if f.hasMeta then 1 else 0))

/-- `add_file_reconstruction_info` (a replaced entry's contribution is subtracted) -/
def MemShard.addFile (s : MemShard) (f : FileInfo) : MemShard :=
  let replaced := match findFile f.hash s.mem.files with
    | some old => old.numBytes + 12
    | none => 0
  ⟨⟨insertFile f s.mem.files, s.mem.cas⟩, s.lookup, s.size - replaced + (f.numBytes + 12)⟩

/-- `recalculate_shard_size` (one chunk-table row per chunk entry) -/
def MemShard.recalc (m : Mem) (_lookup : List (Hash × CasInfo × Nat)) : Nat :=
  sumMap casContribution m.cas + sumMap (fun f => f.numBytes + 12) m.files

/-- `shard_file_size` -/
def MemShard.shardFileSize (s : MemShard) : Nat := s.size + (footerSize + headerSize + recSize + recSize)

/-- `MDBFileInfo::merge_from` -/
def mergeFile (old other : FileInfo) : FileInfo :=
  let o1 := if old.hasVerif != other.hasVerif && other.hasVerif then
      { old with flags := old.flags + flagVerification, verif := other.verif } else old
  if o1.hasMeta != other.hasMeta && other.hasMeta then
      { o1 with flags := o1.flags + flagMetadataExt, metaExt := other.metaExt } else o1

/-- `MDBInMemoryShard::union` -/
def MemShard.union (a b : MemShard) : MemShard :=
  let cas := b.mem.cas.foldl (fun acc c => insertCas c acc) a.mem.cas
  let files := b.mem.files.foldl (fun acc v =>
      match findFile v.hash acc with
      | some old => insertFile (mergeFile old v) acc
      | none => insertFile v acc) a.mem.files
  let lookup := b.lookup.foldl (fun acc e => lookupInsert e.1 e.2 acc) a.lookup
  let m : Mem := ⟨files, cas⟩
  ⟨m, lookup, MemShard.recalc m lookup⟩

/-- `MDBInMemoryShard::difference`: entries of `other` not in `self` -/
def MemShard.difference (self other : MemShard) : MemShard :=
  let m : Mem := ⟨other.mem.files.filter (fun f => (findFile f.hash self.mem.files).isNone),
                  other.mem.cas.filter (fun c => (findCas c.hash self.mem.cas).isNone)⟩
  let lookup := other.lookup.filter (fun e => (self.lookup.find? (fun x => x.1 = e.1)).isNone)
  ⟨m, lookup, MemShard.recalc m lookup⟩

/-- `MDBInMemoryShard::chunk_hash_dedup_query` -/
def MemShard.dedup (s : MemShard) (q : List Hash) : Option DedupAnswer :=
  match q with
  | [] => none
  | q0 :: _ =>
    match s.lookup.find? (fun e => e.1 = q0) with
    | none => none
    | some e => some (memDedup e.2.1 e.2.2 q)

end Xet.Shard
