/-
Model of the xorb (CAS object) wire format:
  `cas_object/src/cas_chunk_format.rs`  (chunk header, serialize_chunk, sync decoders)
  `cas_object/src/cas_chunk_format/deserialize_async.rs` (async / stream decoders)
  `cas_object/src/compression_scheme.rs` (scheme codes; LZ4 is the abstract `Codec`)
  `cas_object/src/cas_object_format.rs`  (footer V1/V0, CasObject::{serialize, deserialize, get_*,
                                          validate_cas_object})
  `cas_object/src/validate_xorb_stream.rs` (streaming validator)
-/
import XetModel.Bg4
import XetModel.Merkle

namespace Xet.Xorb

/-- error classes of `CasObjectError` that the code paths below can produce -/
inductive Err
  | format        -- `FormatError`          (validators turn it into a rejection)
  | eof           -- `InternalIOError(UnexpectedEof)`
  | io            -- any other io / compression error
  | invalidArgs   -- `InvalidArguments`
  | invalidRange  -- `InvalidRange`
  | panic         -- dev-profile arithmetic overflow / index panic (an observable outcome)
  deriving DecidableEq, Repr

inductive Scheme
  | none | lz4 | bg4lz4
  deriving DecidableEq, Repr

def Scheme.code : Scheme → UInt8
  | .none => 0 | .lz4 => 1 | .bg4lz4 => 2

/-- `CompressionScheme::try_from(u8)` -/
def Scheme.ofCode (c : UInt8) : Option Scheme :=
  if c = 0 then some Scheme.none else if c = 1 then some Scheme.lz4 else if c = 2 then some Scheme.bg4lz4 else Option.none

/-- result of the LZ4 frame decoder -/
inductive Dec
  | ok (out : Bytes)
  | eof
  | err

/-- LZ4 frame compression (`lz4_flex`), abstract.  Recorded assumption for the round-trip theorems:
    `RoundTrip`.  The driver instantiates `lz4d` with an independent Lean LZ4 frame decoder and `lz4c`
    with the bytes the Rust encoder produced (checked by that decoder). -/
structure Codec where
  lz4c : Bytes → Bytes
  lz4d : Bytes → Dec

def Codec.RoundTrip (C : Codec) : Prop := ∀ d, C.lz4d (C.lz4c d) = .ok d

/-- `compress_from_slice` -/
def compress (C : Codec) : Scheme → Bytes → Bytes
  | .none, d => d
  | .lz4, d => C.lz4c d
  | .bg4lz4, d => C.lz4c (Bg4.split d)

/-- `decompress_from_slice` / `decompress_from_reader` -/
def decompress (C : Codec) : Scheme → Bytes → Dec
  | .none, d => .ok d
  | .lz4, d => C.lz4d d
  | .bg4lz4, d =>
    match C.lz4d d with
    | .ok o => .ok (Bg4.regroup o)
    | .eof => .eof
    | .err => .err

/-! ### little-endian integers -/

def le3 (n : Nat) : Bytes := [UInt8.ofNat (n % 256), UInt8.ofNat (n / 256 % 256), UInt8.ofNat (n / 65536 % 256)]

def ofLe3 (a b c : UInt8) : Nat := a.toNat + 256 * b.toNat + 65536 * c.toNat

def le32 (n : Nat) : Bytes :=
  [UInt8.ofNat (n % 256), UInt8.ofNat (n / 256 % 256), UInt8.ofNat (n / 65536 % 256), UInt8.ofNat (n / 16777216 % 256)]

def ofLe32 (a b c d : UInt8) : Nat := a.toNat + 256 * b.toNat + 65536 * c.toNat + 16777216 * d.toNat

/-! ### chunk header (8 bytes: version, compressed_length[3], scheme, uncompressed_length[3]) -/

def chunkHeaderLen : Nat := 8
def currentChunkVersion : Nat := Gen.casChunkCurrentVersion

structure ChunkHeader where
  version : Nat
  clen : Nat
  scheme : Scheme
  ulen : Nat
  deriving DecidableEq, Repr

def ChunkHeader.bytes (h : ChunkHeader) : Bytes :=
  [UInt8.ofNat h.version] ++ le3 h.clen ++ [h.scheme.code] ++ le3 h.ulen

/-- `parse_chunk_header` = transmute + `validate` (scheme known, version ≤ 0,
    clen ≤ 2·MAXIMUM_CHUNK_SIZE, ulen ≤ MAXIMUM_CHUNK_SIZE). -/
def parseChunkHeader (maxChunk : Nat) : Bytes → Except Err ChunkHeader
  | [v, c0, c1, c2, s, u0, u1, u2] =>
    match Scheme.ofCode s with
    | none => .error .format
    | some sch =>
      if v.toNat > currentChunkVersion then .error .format
      else if ofLe3 c0 c1 c2 > maxChunk * 2 then .error .format
      else if ofLe3 u0 u1 u2 > maxChunk then .error .format
      else .ok ⟨v.toNat, ofLe3 c0 c1 c2, sch, ofLe3 u0 u1 u2⟩
  | _ => .error .eof

/-- `serialize_chunk(chunk, w, Some(scheme))` (for `None` the caller passes the scheme that
    `choose_from_data` picked: an oracle of the model; every choice must round-trip).  Falls back to
    `None` when compression does not shrink the chunk. -/
def serializeChunk (C : Codec) (sch : Scheme) (d : Bytes) : Bytes :=
  let comp := compress C sch d
  if comp.length ≥ d.length then
    (ChunkHeader.mk currentChunkVersion d.length .none d.length).bytes ++ d
  else
    (ChunkHeader.mk currentChunkVersion comp.length sch d.length).bytes ++ comp

structure ChunkRead where
  data : Bytes       -- uncompressed chunk
  consumed : Nat     -- header + compressed length
  rest : Bytes       -- reader position afterwards

/-- `deserialize_chunk_to_writer` (sync, `Read`): `read_exact` of the header, then
    `reader.take(clen)` handed to the decompressor (a short payload is *not* an EOF error here). -/
def deserializeChunkSync (C : Codec) (maxChunk : Nat) (input : Bytes) : Except Err ChunkRead :=
  if input.length < chunkHeaderLen then .error .eof
  else
    match parseChunkHeader maxChunk (input.take chunkHeaderLen) with
    | .error e => .error e
    | .ok h =>
      let body := input.drop chunkHeaderLen
      let payload := body.take h.clen
      match decompress C h.scheme payload with
      | .eof => .error .eof
      | .err => .error .io
      | .ok out =>
        if out.length ≠ h.ulen then .error .format
        else .ok ⟨out, h.clen + chunkHeaderLen, body.drop h.clen⟩

/-- `deserialize_async::deserialize_chunk_to_writer` (`read_exact` of header and of the payload). -/
def deserializeChunkAsync (C : Codec) (maxChunk : Nat) (input : Bytes) : Except Err ChunkRead :=
  if input.length < chunkHeaderLen then .error .eof
  else
    match parseChunkHeader maxChunk (input.take chunkHeaderLen) with
    | .error e => .error e
    | .ok h =>
      let body := input.drop chunkHeaderLen
      if body.length < h.clen then .error .eof
      else
        match decompress C h.scheme (body.take h.clen) with
        | .eof => .error .eof
        | .err => .error .io
        | .ok out =>
          if out.length ≠ h.ulen then .error .format
          else .ok ⟨out, h.clen + chunkHeaderLen, body.drop h.clen⟩

structure ChunksRead where
  data : Bytes
  consumed : Nat
  indices : List Nat     -- `chunk_byte_indices`: 0 then the running uncompressed end offsets

/-- `deserialize_chunks_to_writer` / `…_from_async_read` / `…_from_stream`: loop until an
    `UnexpectedEof`; `one` is the single-chunk decoder.  Fuel = input length + 1 (each successful
    iteration consumes ≥ 8 bytes). -/
def deserializeChunksAux (one : Bytes → Except Err ChunkRead) :
    Nat → Bytes → Bytes → Nat → Nat → List Nat → Except Err ChunksRead
  | 0, _, acc, cons, _, idx => .ok ⟨acc, cons, idx.reverse⟩
  | fuel+1, input, acc, cons, unc, idx =>
    match one input with
    | .ok r => deserializeChunksAux one fuel r.rest (acc ++ r.data) (cons + r.consumed) (unc + r.data.length)
                 ((unc + r.data.length) :: idx)
    | .error .eof => .ok ⟨acc, cons, idx.reverse⟩
    | .error e => .error e

def deserializeChunks (one : Bytes → Except Err ChunkRead) (input : Bytes) : Except Err ChunksRead :=
  deserializeChunksAux one (input.length + 1) input [] 0 0 [0]

/-! ### footer (CasObjectInfoV1) -/

def identMain : Bytes := Gen.casIdent                 -- "XETBLOB"
def identHashes : Bytes := Gen.casIdentHashes         -- "XBLBHSH"
def identBoundaries : Bytes := Gen.casIdentBoundaries -- "XBLBBND"
def formatVersion : Nat := Gen.casFormatVersion
def formatVersionV0 : Nat := Gen.casFormatVersionV0
def hashesVersion : Nat := Gen.casHashesVersion
def boundariesVersion : Nat := Gen.casBoundariesVersion
def boundariesVersionNoUnpacked : Nat := Gen.casBoundariesVersionNoUnpacked

structure Info where
  cashash : Hash
  hashes : List Hash
  boundaries : List Nat        -- chunk_boundary_offsets (u32)
  unpacked : List Nat          -- unpacked_chunk_offsets (u32)
  numChunks : Nat
  hashesOffFromEnd : Nat
  boundaryOffFromEnd : Nat
  boundariesVersion : Nat
  buffer : Bytes               -- 16 unused bytes
  deriving DecidableEq, Repr

/-- `fill_in_boundary_offsets` -/
def boundaryOffFromEnd (nB nU : Nat) : Nat := 7 + 1 + 4 + nB * 4 + nU * 4 + 4 + 4 + 4 + 16
def hashesOffFromEnd (nH nB nU : Nat) : Nat := 7 + 1 + 4 + nH * 32 + boundaryOffFromEnd nB nU

def zeros (n : Nat) : Bytes := List.replicate n 0

/-- `CasObjectInfoV1::serialize` -/
def Info.bytes (i : Info) : Bytes :=
  identMain ++ [UInt8.ofNat formatVersion] ++ i.cashash.toBytes
  ++ identHashes ++ [UInt8.ofNat hashesVersion] ++ le32 i.numChunks ++ i.hashes.flatMap Hash.toBytes
  ++ identBoundaries ++ [UInt8.ofNat i.boundariesVersion] ++ le32 i.numChunks
  ++ i.boundaries.flatMap le32 ++ i.unpacked.flatMap le32
  ++ le32 i.numChunks ++ le32 i.hashesOffFromEnd ++ le32 i.boundaryOffFromEnd ++ i.buffer

/-! a cursor over the remaining input with a byte counter (`countio::Counter`) -/
structure Cur where
  rest : Bytes
  pos : Nat

def Cur.readN (c : Cur) (n : Nat) : Except Err (Bytes × Cur) :=
  if c.rest.length < n then .error .eof else .ok (c.rest.take n, ⟨c.rest.drop n, c.pos + n⟩)

def Cur.readU8 (c : Cur) : Except Err (Nat × Cur) :=
  match c.rest with
  | b :: r => .ok (b.toNat, ⟨r, c.pos + 1⟩)
  | [] => .error .eof

def Cur.readU32 (c : Cur) : Except Err (Nat × Cur) :=
  match c.rest with
  | a :: b :: x :: d :: r => .ok (ofLe32 a b x d, ⟨r, c.pos + 4⟩)
  | _ => .error .eof

def Cur.readHash (c : Cur) : Except Err (Hash × Cur) :=
  if c.rest.length < 32 then .error .eof else .ok (Hash.ofBytes (c.rest.take 32), ⟨c.rest.drop 32, c.pos + 32⟩)

def readU32s : Nat → Cur → List Nat → Except Err (List Nat × Cur)
  | 0, c, acc => .ok (acc.reverse, c)
  | n+1, c, acc =>
    match c.readU32 with
    | .ok (v, c') => readU32s n c' (v :: acc)
    | .error e => .error e

def readHashes : Nat → Cur → List Hash → Except Err (List Hash × Cur)
  | 0, c, acc => .ok (acc.reverse, c)
  | n+1, c, acc =>
    match c.readHash with
    | .ok (v, c') => readHashes n c' (v :: acc)
    | .error e => .error e

structure InfoRead where
  info : Info
  bytesRead : Nat
  rest : Bytes

/-- body of `CasObjectInfoV1::deserialize` after ident+version (shared with `deserialize_async_v1`);
    `c.pos` counts from the start of the footer. -/
def parseInfoV1Body (c0 : Cur) : Except Err InfoRead := do
  let (cashash, c) ← c0.readHash
  let hashBegin := c.pos
  let (id2, c) ← c.readN 7
  if id2 ≠ identHashes then .error .format else
  let (hv, c) ← c.readU8
  if hv ≠ hashesVersion then .error .format else
  let (n2, c) ← c.readU32
  let (hashes, c) ← readHashes n2 c []
  let bndBegin := c.pos
  let (id3, c) ← c.readN 7
  if id3 ≠ identBoundaries then .error .format else
  let (bv, c) ← c.readU8
  if bv ≠ boundariesVersion then .error .format else
  let (n3, c) ← c.readU32
  if n2 ≠ n3 then .error .format else
  let (bnds, c) ← readU32s n3 c []
  let (unp, c) ← readU32s n3 c []
  let (n, c) ← c.readU32
  if n ≠ n2 then .error .format else
  let (hOff, c) ← c.readU32
  let (bOff, c) ← c.readU32
  let (buf, c) ← c.readN 16
  if c.pos - hashBegin ≠ hOff then .error .format else
  if c.pos - bndBegin ≠ bOff then .error .format else
  .ok ⟨⟨cashash, hashes, bnds, unp, n, hOff, bOff, bv, buf⟩, c.pos, c.rest⟩

/-- `CasObjectInfoV0::deserialize_v0` converted by `from_v0` (no unpacked offsets, boundaries version 0). -/
def parseInfoV0Body (c0 : Cur) : Except Err InfoRead := do
  let (cashash, c) ← c0.readHash
  let (n, c) ← c.readU32
  let (bnds, c) ← readU32s n c []
  let (hashes, c) ← readHashes n c []
  let (buf, c) ← c.readN 16
  .ok ⟨⟨cashash, hashes, bnds, [], n, hashesOffFromEnd hashes.length bnds.length 0, boundaryOffFromEnd bnds.length 0,
        boundariesVersionNoUnpacked, buf⟩, c.pos, c.rest⟩

/-- `CasObjectInfoV1::deserialize` (sync; reads ident and version itself). -/
def parseInfo (input : Bytes) : Except Err InfoRead := do
  let c : Cur := ⟨input, 0⟩
  let (id, c) ← c.readN 7
  if id ≠ identMain then .error .format else
  let (v, c) ← c.readU8
  if v = formatVersionV0 then parseInfoV0Body c
  else if v ≠ formatVersion then .error .format
  else parseInfoV1Body c

/-! ### CasObject -/

structure CasObject where
  info : Info
  infoLength : Nat
  deriving DecidableEq, Repr

/-- prefix sums (running totals) of a list of lengths -/
def runningSums : Nat → List Nat → List Nat
  | _, [] => []
  | s, x :: xs => (s + x) :: runningSums (s + x) xs

structure Serialized where
  bytes : Bytes
  cas : CasObject

/-- `CasObject::serialize(writer, hash, data, chunk_and_boundaries, scheme)` with the data already
    cut into chunks `cs` (the `(hash, unpacked boundary)` list is `hashes` zipped with the running
    sums of the chunk lengths); `schemes` gives the scheme used for each chunk (all equal to the
    requested scheme, or the per-chunk automatic choice). -/
def serialize (C : Codec) (h : Hash) (cs : List Bytes) (hashes : List Hash) (schemes : List Scheme) : Serialized :=
  let chunkBytes := (cs.zip schemes).map fun p => serializeChunk C p.2 p.1
  let boundaries := runningSums 0 (chunkBytes.map (·.length))
  let unpacked := runningSums 0 (cs.map (·.length))
  let n := cs.length
  let info : Info := ⟨h, hashes, boundaries, unpacked, n, hashesOffFromEnd hashes.length boundaries.length unpacked.length,
                      boundaryOffFromEnd boundaries.length unpacked.length, boundariesVersion, zeros 16⟩
  let ib := info.bytes
  ⟨chunkBytes.flatten ++ ib ++ le32 ib.length, ⟨info, ib.length⟩⟩

/-- `CasObject::deserialize` (seek to end−4, read `info_length`, seek back, parse, compare). -/
def deserialize (obj : Bytes) : Except Err CasObject :=
  if obj.length < 4 then .error .io            -- seek before start: `InvalidInput` io error
  else
    match obj.drop (obj.length - 4) with
    | [a, b, c, d] =>
      let il := ofLe32 a b c d
      if obj.length < 4 + il then .error .io
      else
        match parseInfo (obj.drop (obj.length - 4 - il)) with
        | .error e => .error e
        | .ok r => if r.bytesRead ≠ il then .error .format else .ok ⟨r.info, il⟩
    | _ => .error .io

/-- `validate_cas_object_info` -/
def validateInfo (c : CasObject) : Except Err Unit :=
  if c.info.numChunks = 0 then .error .format
  else if c.info.numChunks ≠ c.info.boundaries.length ∨ c.info.numChunks ≠ c.info.hashes.length
      ∨ (c.info.boundariesVersion = boundariesVersion ∧ c.info.numChunks ≠ c.info.unpacked.length) then .error .format
  else if c.info.cashash = Hash.zero then .error .format
  else .ok ()

/-- `get_byte_offset(chunk_index_start, chunk_index_end)` -/
def getByteOffset (c : CasObject) (i j : Nat) : Except Err (Nat × Nat) := do
  validateInfo c
  if j ≤ i ∨ j > c.info.numChunks then .error .invalidArgs else
  let s := if i = 0 then 0 else c.info.boundaries.getD (i - 1) 0
  .ok (s, c.info.boundaries.getD (j - 1) 0)

/-- `get_chunk_contents`: decode complete chunks until the cursor is exhausted -/
def getChunkContents (C : Codec) (maxChunk : Nat) : Nat → Bytes → Bytes → Except Err Bytes
  | 0, _, acc => .ok acc
  | fuel+1, input, acc =>
    if input.isEmpty then .ok acc
    else
      match deserializeChunkSync C maxChunk input with
      | .ok r => getChunkContents C maxChunk fuel r.rest (acc ++ r.data)
      | .error e => .error e

/-- `get_range(reader, byte_start, byte_end)` -/
def getRange (C : Codec) (maxChunk : Nat) (c : CasObject) (obj : Bytes) (bs be : Nat) : Except Err Bytes := do
  if be < bs then .error .invalidRange else
  validateInfo c
  let contentLen := c.info.boundaries.getLastD 0
  let e := min be contentLen
  if e < bs then .error .panic else          -- `end - byte_start` underflows (u32, dev profile)
  if obj.length < e then .error .eof else
  let chunkData := (obj.drop bs).take (e - bs)
  getChunkContents C maxChunk (chunkData.length + 1) chunkData []

/-- `get_all_bytes` -/
def getAllBytes (C : Codec) (maxChunk : Nat) (c : CasObject) (obj : Bytes) : Except Err Bytes := do
  validateInfo c
  getRange C maxChunk c obj 0 (c.info.boundaries.getLastD 0)

/-- `get_bytes_by_chunk_range` -/
def getBytesByChunkRange (C : Codec) (maxChunk : Nat) (c : CasObject) (obj : Bytes) (i j : Nat) : Except Err Bytes := do
  let (bs, be) ← getByteOffset c i j
  getRange C maxChunk c obj bs be

/-- `uncompressed_chunk_length` -/
def uncompressedChunkLength (c : CasObject) (i : Nat) : Except Err Nat := do
  validateInfo c
  if i ≥ c.info.unpacked.length then .error .invalidArgs else
  let cum := c.info.unpacked.getD i 0
  let before := if i = 0 then 0 else c.info.unpacked.getD (i - 1) 0
  if cum < before then .error .panic else .ok (cum - before)

/-- `uncompressed_range_length` -/
def uncompressedRangeLength (c : CasObject) (i j : Nat) : Except Err Nat := do
  validateInfo c
  if i > j ∨ j > c.info.numChunks ∨ i ≥ c.info.numChunks then .error .invalidArgs else
  if i = j then .ok 0 else
  let before := if i = 0 then 0 else c.info.unpacked.getD (i - 1) 0
  let incl := c.info.unpacked.getD (j - 1) 0
  if incl < before then .error .panic else .ok (incl - before)

/-! ### validators -/

inductive Verdict
  | accept (cas : CasObject) (goBack : Option Nat)
  | reject                     -- `Ok(None)`
  | error (e : Err)            -- `Err(_)`
  deriving Repr

def u32Max : Nat := 4294967295

structure WalkState where
  start : Nat        -- start_offset
  cumComp : Nat      -- cumulative_compressed_length
  unp : Nat          -- unpacked_chunk_offset
  pos : Nat          -- reader position after the last chunk read
  chunks : List (Hash × Nat)

/-- the per-chunk loop of `validate_cas_object` (u32 arithmetic is *checked*: dev-profile panic). -/
def walkChunks (P : HashPrims) (C : Codec) (maxChunk : Nat) (obj : Bytes) (info : Info) :
    Nat → Nat → WalkState → Except Verdict WalkState
  | 0, _, st => .ok st
  | k+1, idx, st =>
    if obj.length < st.start then .error (.error .eof) else   -- seek past the end then read: EOF
    match deserializeChunkSync C maxChunk (obj.drop st.start) with
    | .error .format => .error .reject
    | .error e => .error (.error e)
    | .ok r =>
      let h := P.dataHash r.data
      let cum := st.cumComp + r.consumed
      let unp := st.unp + r.data.length
      if cum > u32Max ∨ unp > u32Max then .error (.error .panic) else
      match info.hashes[idx]? with
      | none => .error (.error .panic)                      -- `.get(idx).unwrap()`
      | some fh =>
        if fh ≠ h then .error .reject else
        match info.boundaries[idx]? with
        | none => .error (.error .panic)
        | some b =>
          if st.start + r.consumed > u32Max then .error (.error .panic) else
          if st.start + r.consumed ≠ b then .error .reject else
          if info.boundariesVersion = boundariesVersion then
            match info.unpacked[idx]? with
            | none => .error (.error .panic)
            | some u =>
              if unp ≠ u then .error .reject
              else walkChunks P C maxChunk obj info k (idx + 1) ⟨b, cum, unp, st.start + r.consumed, st.chunks ++ [(h, r.data.length)]⟩
          else walkChunks P C maxChunk obj info k (idx + 1) ⟨b, cum, unp, st.start + r.consumed, st.chunks ++ [(h, r.data.length)]⟩

/-- `CasObject::validate_cas_object(reader, hash)` -/
def validate (P : HashPrims) (C : Codec) (maxChunk : Nat) (obj : Bytes) (h : Hash) : Verdict :=
  match deserialize obj with
  | .error .format => .reject
  | .error e => .error e
  | .ok cas =>
    -- the reader is positioned at the end of the footer when the loop starts (`stream_position`)
    match walkChunks P C maxChunk obj cas.info cas.info.numChunks 0 ⟨0, 0, 0, obj.length - 4, []⟩ with
    | .error v => v
    | .ok st =>
      if obj.length < cas.infoLength + 4 then .error .panic else
      let fromEnd := obj.length - cas.infoLength - 4
      if st.pos % (u32Max + 1) ≠ st.cumComp ∨ st.pos % (u32Max + 1) ≠ fromEnd % (u32Max + 1) then .reject else
      let root := Merkle.validatorRoot P st.chunks []
      if root ≠ h ∨ root ≠ cas.info.cashash then .reject else .accept cas none

/-- `create_cas_object_from_parts` -/
def casFromParts (h : Hash) (bnds : List Nat) (chunks : List (Hash × Nat)) : CasObject :=
  let unp := runningSums 0 (chunks.map (·.2))
  let hs := chunks.map (·.1)
  ⟨⟨h, hs, bnds, unp, bnds.length, hashesOffFromEnd hs.length bnds.length unp.length,
    boundaryOffFromEnd bnds.length unp.length, boundariesVersion, zeros 16⟩, 0⟩

structure StreamState where
  bnds : List Nat
  chunks : List (Hash × Nat)

/-- `CasObject::deserialize_async(reader, 1)` after the 8 bytes ident+version were consumed:
    footer body, then the 4-byte `info_length`, then nothing more. -/
def deserializeAsyncV1 (input : Bytes) : Except Err CasObject :=
  match parseInfoV1Body ⟨input, 8⟩ with
  | .error e => .error e
  | .ok r =>
    match r.rest with
    | a :: b :: c :: d :: rest =>
      if ofLe32 a b c d ≠ r.bytesRead then .error .format
      else if ¬ rest.isEmpty then .error .format
      else .ok ⟨r.info, ofLe32 a b c d⟩
    | _ => .error .eof

/-- the chunk loop of `_validate_cas_object_from_async_read` -/
def streamLoop (P : HashPrims) (C : Codec) (maxChunk : Nat) :
    Nat → Bytes → StreamState → Except Err (StreamState × Option CasObject × Option Nat)
  | 0, _, st => .ok (st, none, some 0)
  | fuel+1, input, st =>
    if input.isEmpty then .ok (st, none, some 0)
    else if input.length < 8 then .error .format
    else
      let buf8 := input.take 8
      let rest := input.drop 8
      let isFooter := buf8.take 7 = identMain
      let version := (buf8.getD 7 0).toNat
      if isFooter ∧ version > formatVersion then .error .format
      else if isFooter ∧ version = formatVersion then
        match deserializeAsyncV1 rest with
        | .error e => .error e
        | .ok cas => .ok (st, some cas, none)
      else if isFooter ∧ version = formatVersionV0 then .ok (st, none, some 8)
      else
        match parseChunkHeader maxChunk buf8 with
        | .error e => .error e
        | .ok hd =>
          if rest.length < hd.clen then .error .eof else
          match decompress C hd.scheme (rest.take hd.clen) with
          | .eof => .error .eof
          | .err => .error .io
          | .ok out =>
            if out.length ≠ hd.ulen then .error .format else
            let last := st.bnds.getLastD 0
            if last + 8 + hd.clen > u32Max then .error .panic else
            streamLoop P C maxChunk fuel (rest.drop hd.clen)
              ⟨st.bnds ++ [last + 8 + hd.clen], st.chunks ++ [(P.dataHash out, out.length)]⟩

/-- footer-vs-content checks of the streaming validator; `prefix sums` in checked u32 -/
def streamFooterCheck (h : Hash) (info : Info) (st : StreamState) : Except Err Unit :=
  if info.cashash ≠ h then .error .format
  else if info.numChunks ≠ st.chunks.length then .error .format
  else if info.boundaries ≠ st.bnds then .error .format
  else if info.hashes.length ≠ st.chunks.length then .error .format
  else if info.hashes ≠ st.chunks.map (·.1) then .error .format
  else
    let sums := runningSums 0 (st.chunks.map (·.2))
    if sums.any (· > u32Max) then .error .panic
    else if (info.unpacked.zip sums).any (fun p => p.1 ≠ p.2) then .error .format
    else .ok ()

/-- `validate_cas_object_from_async_read` -/
def validateStream (P : HashPrims) (C : Codec) (maxChunk : Nat) (obj : Bytes) (h : Hash) : Verdict :=
  match streamLoop P C maxChunk (obj.length + 1) obj ⟨[], []⟩ with
  | .error .format => .reject
  | .error e => .error e
  | .ok (st, mcas, goBack) =>
    let chk : Except Err Unit := match mcas with
      | some cas => streamFooterCheck h cas.info st
      | none => .ok ()
    match chk with
    | .error .format => .reject
    | .error e => .error e
    | .ok () =>
      if Merkle.validatorRoot P st.chunks [] ≠ h then .reject
      else
        match mcas with
        | some cas => .accept cas goBack
        | none => .accept (casFromParts h st.bnds st.chunks) goBack

end Xet.Xorb
