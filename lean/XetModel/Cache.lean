/-
Model of the disk chunk cache: `chunk_cache/src/disk.rs`, `disk/cache_item.rs`,
`disk/cache_file_header.rs` (and the observable effect of `file_utils::SafeFileCreator`:
write a temporary file, rename it to the final name).

Layers
 (1) codecs: little-endian integers, URL-safe padded canonical base64, cache item file name
     (`CacheItem::file_name` / `CacheItem::parse`), key directory name (`key_dir` /
     `try_parse_key`), cache file header (`CacheFileHeader::{serialize,deserialize}`),
     sub-range slicing (`get_range_from_cache_file`);
 (2) the file system as an association list `Path ↦ Node`;
 (3) the in-memory state (`CacheState`) and its lock-protected sections: `find_match`, the commit
     section of `put_impl` (remove subsumed, `maybe_evict`, add), the state part of `remove_item`;
     the random eviction choices are ORACLE arguments, checked for legality;
 (4) a step-granular concurrent semantics: every thread is a program counter parked at one of the
     `#[cfg(xet_verif)]` schedule points of `disk.rs`; `step` runs one thread from its point to
     the next one.  A sequential operation is a thread run to completion (`runOp`);
 (5) directory scan on (re-)open (`initialize_state`) with the `read_dir` order as oracle.

CRC-32 is a parameter `crc : Bytes → UInt32` everywhere.
Import-free except `XetModel.Hash` (for `Bytes`); core only.
-/
import XetModel.Hash

namespace Xet.Cache

/-! ## (1) codecs -/

/-- `write_u32` (little endian) -/
def le32 (x : UInt32) : Bytes :=
  [UInt8.ofNat (x.toNat % 256), UInt8.ofNat (x.toNat / 256 % 256),
   UInt8.ofNat (x.toNat / 65536 % 256), UInt8.ofNat (x.toNat / 16777216 % 256)]

/-- `read_u32` on four given bytes -/
def rd32 (b0 b1 b2 b3 : UInt8) : UInt32 :=
  UInt32.ofNat (b0.toNat + 256 * b1.toNat + 65536 * b2.toNat + 16777216 * b3.toNat)

/-- `write_u64` (little endian) -/
def le64 (x : UInt64) : Bytes :=
  [UInt8.ofNat (x.toNat % 256), UInt8.ofNat (x.toNat / 256 % 256),
   UInt8.ofNat (x.toNat / 65536 % 256), UInt8.ofNat (x.toNat / 16777216 % 256),
   UInt8.ofNat (x.toNat / 4294967296 % 256), UInt8.ofNat (x.toNat / 1099511627776 % 256),
   UInt8.ofNat (x.toNat / 281474976710656 % 256), UInt8.ofNat (x.toNat / 72057594037927936 % 256)]

def rd64 (b0 b1 b2 b3 b4 b5 b6 b7 : UInt8) : UInt64 :=
  UInt64.ofNat (b0.toNat + 256 * b1.toNat + 65536 * b2.toNat + 16777216 * b3.toNat
    + 4294967296 * b4.toNat + 1099511627776 * b5.toNat + 281474976710656 * b6.toNat
    + 72057594037927936 * b7.toNat)

/-! ### base64, `URL_SAFE` engine of the `base64` crate: alphabet `A-Z a-z 0-9 - _`, padding `=`
written on encode and required (canonical) on decode, non-zero trailing bits rejected. -/

def b64Char (n : Nat) : UInt8 :=
  if n < 26 then UInt8.ofNat (65 + n)
  else if n < 52 then UInt8.ofNat (71 + n)
  else if n < 62 then UInt8.ofNat (n - 4)
  else if n = 62 then 45 else 95

def b64Val (c : UInt8) : Option Nat :=
  if 65 ≤ c.toNat ∧ c.toNat ≤ 90 then some (c.toNat - 65)
  else if 97 ≤ c.toNat ∧ c.toNat ≤ 122 then some (c.toNat - 71)
  else if 48 ≤ c.toNat ∧ c.toNat ≤ 57 then some (c.toNat + 4)
  else if c.toNat = 45 then some 62
  else if c.toNat = 95 then some 63
  else none

def b64Pad : UInt8 := 61

def b64Encode : Bytes → List UInt8
  | [] => []
  | [a] => [b64Char (a.toNat / 4), b64Char (a.toNat % 4 * 16), b64Pad, b64Pad]
  | [a, b] => [b64Char (a.toNat / 4), b64Char (a.toNat % 4 * 16 + b.toNat / 16),
               b64Char (b.toNat % 16 * 4), b64Pad]
  | a :: b :: c :: rest =>
    b64Char (a.toNat / 4) :: b64Char (a.toNat % 4 * 16 + b.toNat / 16) ::
    b64Char (b.toNat % 16 * 4 + c.toNat / 64) :: b64Char (c.toNat % 64) :: b64Encode rest

/-- last group `xx==` -/
def b64Dec1 (c0 c1 : UInt8) : Option Bytes :=
  match b64Val c0, b64Val c1 with
  | some v0, some v1 => if v1 % 16 = 0 then some [UInt8.ofNat (v0 * 4 + v1 / 16)] else none
  | _, _ => none

/-- last group `xxx=` -/
def b64Dec2 (c0 c1 c2 : UInt8) : Option Bytes :=
  match b64Val c0, b64Val c1, b64Val c2 with
  | some v0, some v1, some v2 =>
    if v2 % 4 = 0 then some [UInt8.ofNat (v0 * 4 + v1 / 16), UInt8.ofNat (v1 % 16 * 16 + v2 / 4)] else none
  | _, _, _ => none

def b64Dec3 (c0 c1 c2 c3 : UInt8) (tail : Option Bytes) : Option Bytes :=
  match b64Val c0, b64Val c1, b64Val c2, b64Val c3, tail with
  | some v0, some v1, some v2, some v3, some t =>
    some (UInt8.ofNat (v0 * 4 + v1 / 16) :: UInt8.ofNat (v1 % 16 * 16 + v2 / 4) ::
          UInt8.ofNat (v2 % 4 * 64 + v3) :: t)
  | _, _, _, _, _ => none

/-- strict decoder: accepts exactly the canonical padded encodings -/
def b64Decode : List UInt8 → Option Bytes
  | [] => some []
  | c0 :: c1 :: c2 :: c3 :: rest =>
    if rest = [] ∧ c3 = b64Pad then
      (if c2 = b64Pad then b64Dec1 c0 c1 else b64Dec2 c0 c1 c2)
    else b64Dec3 c0 c1 c2 c3 (b64Decode rest)
  | _ => none

/-! ### cache items and their file names (`cache_item.rs`) -/

/-- `ChunkRange` -/
structure Range where
  start : UInt32
  stop : UInt32
  deriving DecidableEq, Repr, Inhabited

/-- `CacheItem { range, len, checksum }` -/
structure Item where
  start : UInt32
  stop : UInt32
  len : UInt64
  crc : UInt32
  deriving DecidableEq, Repr, Inhabited

abbrev Name := List UInt8

/-- `CacheItem::file_name` -/
def fileName (it : Item) : Name :=
  b64Encode (le32 it.start ++ le32 it.stop ++ le64 it.len ++ le32 it.crc)

def itemOfBuf : Bytes → Option Item
  | [a0, a1, a2, a3, b0, b1, b2, b3, c0, c1, c2, c3, c4, c5, c6, c7, d0, d1, d2, d3] =>
    let s := rd32 a0 a1 a2 a3
    let e := rd32 b0 b1 b2 b3
    if s.toNat ≥ e.toNat then none
    else some ⟨s, e, rd64 c0 c1 c2 c3 c4 c5 c6 c7, rd32 d0 d1 d2 d3⟩
  | _ => none

/-- `CacheItem::parse`: every failure (base64, size, `start >= end`) is an `Err` = `none` -/
def parseFileName (n : Name) : Option Item :=
  match b64Decode n with
  | none => none
  | some buf => itemOfBuf buf

/-! ### keys and key directories -/

/-- a `Key` is represented by the bytes `hash (32) ++ prefix`; valid keys have ≥ 32 bytes and a
    UTF-8 prefix.  (`Key { prefix, hash }`) -/
abbrev Key := Bytes

def isCont (b : UInt8) : Bool := 0x80 ≤ b.toNat && b.toNat ≤ 0xBF

/-- `std::str::from_utf8(..).is_ok()` (Unicode Table 3-7), fuel = number of bytes -/
def utf8ValidF : Nat → Bytes → Bool
  | 0, bs => bs.isEmpty
  | _, [] => true
  | f+1, b0 :: rest =>
    if b0.toNat < 0x80 then utf8ValidF f rest
    else if 0xC2 ≤ b0.toNat ∧ b0.toNat ≤ 0xDF then
      match rest with
      | b1 :: r => isCont b1 && utf8ValidF f r
      | _ => false
    else if 0xE0 ≤ b0.toNat ∧ b0.toNat ≤ 0xEF then
      match rest with
      | b1 :: b2 :: r =>
        (if b0.toNat = 0xE0 then decide (0xA0 ≤ b1.toNat ∧ b1.toNat ≤ 0xBF)
         else if b0.toNat = 0xED then decide (0x80 ≤ b1.toNat ∧ b1.toNat ≤ 0x9F)
         else isCont b1) && isCont b2 && utf8ValidF f r
      | _ => false
    else if 0xF0 ≤ b0.toNat ∧ b0.toNat ≤ 0xF4 then
      match rest with
      | b1 :: b2 :: b3 :: r =>
        (if b0.toNat = 0xF0 then decide (0x90 ≤ b1.toNat ∧ b1.toNat ≤ 0xBF)
         else if b0.toNat = 0xF4 then decide (0x80 ≤ b1.toNat ∧ b1.toNat ≤ 0x8F)
         else isCont b1) && isCont b2 && isCont b3 && utf8ValidF f r
      | _ => false
    else false

def utf8Valid (bs : Bytes) : Bool := utf8ValidF bs.length bs

/-- `key_dir`: base64 of `hash ++ prefix`; the parent ("prefix") directory is its first 2 chars -/
def keyDirName (k : Key) : Name := b64Encode k

def prefixDirName (k : Key) : Name := (keyDirName k).take 2

inductive KeyParse
  | key (k : Key)
  | skip            -- `Err(_)`: directory ignored
  | panic           -- `&buf[..32]` on a shorter buffer
  deriving DecidableEq, Repr

/-- `try_parse_key` -/
def parseKeyDir (n : Name) : KeyParse :=
  match b64Decode n with
  | none => .skip
  | some buf =>
    if buf.length < 32 then .panic
    else if utf8Valid (buf.drop 32) then .key buf else .skip

/-! ### cache file header (`cache_file_header.rs`) and slicing -/

def le32N (n : Nat) : Bytes := le32 (UInt32.ofNat n)

/-- `CacheFileHeader::serialize` -/
def headerBytes (offs : List Nat) : Bytes := le32N offs.length ++ offs.flatMap le32N

structure RdU32 where
  val : Nat
  rest : Bytes

def rdU32 : Bytes → Option RdU32
  | b0 :: b1 :: b2 :: b3 :: rest => some ⟨(rd32 b0 b1 b2 b3).toNat, rest⟩
  | _ => none

/-- the loop of `CacheFileHeader::deserialize`; `last = none` ⇔ nothing pushed yet -/
def parseIdxs : Nat → Option Nat → Bytes → Option (List Nat)
  | 0, _, _ => some []
  | n+1, last, bs =>
    match rdU32 bs with
    | none => none
    | some r =>
      match last with
      | none => if r.val ≠ 0 then none else (parseIdxs n (some r.val) r.rest).map (r.val :: ·)
      | some l => if l ≥ r.val then none else (parseIdxs n (some r.val) r.rest).map (r.val :: ·)

/-- `CacheFileHeader::deserialize` on the whole file content; `none` = any error -/
def parseHeader (content : Bytes) : Option (List Nat) :=
  match rdU32 content with
  | none => none
  | some r => parseIdxs r.val none r.rest

/-- `header_len` -/
def headerLen (hdr : List Nat) : Nat := (hdr.length + 1) * 4

inductive Err
  | invalidArgs | badRange | io | lockPoison | parse | general
  deriving DecidableEq, Repr

/-- outcome of one cache operation as the caller sees it -/
inductive Res
  | ok
  | hit (data : Bytes) (offs : List Nat)
  | miss
  | err (e : Err)
  | panic
  deriving DecidableEq, Repr

/-- `get_range_from_cache_file(header, file, range, start)` -/
def getRange (hdr : List Nat) (content : Bytes) (r : Range) (start : UInt32) : Res :=
  let si := r.start.toNat - start.toNat
  let ei := r.stop.toNat - start.toNat
  match hdr[si]?, hdr[ei]? with
  | some sb, some eb =>
    let rest := content.drop (sb + headerLen hdr)
    if rest.length < eb - sb then .err .io
    else .hit (rest.take (eb - sb)) (((hdr.drop si).take (ei - si + 1)).map (· - sb))
  | _, _ => .err .badRange

/-! ## (2) file system -/

abbrev Path := List Name

inductive Node
  | file (c : Bytes)
  | dir
  deriving DecidableEq, Repr

/-- association list, first entry for a path counts; paths are relative to the cache root, which
    always exists -/
abbrev FS := List (Path × Node)

namespace FS

def get : FS → Path → Option Node
  | [], _ => none
  | (q, n) :: rest, p => if q = p then some n else get rest p

def erase : FS → Path → FS
  | [], _ => []
  | (q, n) :: rest, p => if q = p then erase rest p else (q, n) :: erase rest p

def put (fs : FS) (p : Path) (n : Node) : FS := (p, n) :: erase fs p

def file? (fs : FS) (p : Path) : Option Bytes :=
  match get fs p with
  | some (.file c) => some c
  | _ => none

def isDir (fs : FS) (p : Path) : Bool :=
  match get fs p with
  | some .dir => true
  | _ => false

/-- `mkdir` if nothing is there -/
def mkdir (fs : FS) (p : Path) : FS :=
  match get fs p with
  | some _ => fs
  | none => put fs p .dir

/-- is `q` a direct child of `p`? -/
def isChild (p q : Path) : Bool := q ≠ [] && q.dropLast = p

def hasChildren (fs : FS) (p : Path) : Bool := fs.any fun e => isChild p e.1

end FS

/-- `[prefix dir, key dir, item file]` -/
def itemPath (k : Key) (it : Item) : Path := [prefixDirName k, keyDirName k, fileName it]

def keyPath (k : Key) : Path := [prefixDirName k, keyDirName k]

/-- effect of `SafeFileCreator::new(path)` + `write_all` + `close`: parents created, the content
    appears atomically under the final name (`none`: the final name is a directory → io error) -/
def writeItemFile (fs : FS) (k : Key) (it : Item) (content : Bytes) : Option FS :=
  let fs1 := FS.mkdir (FS.mkdir fs [prefixDirName k]) (keyPath k)
  if FS.isDir fs1 (itemPath k it) then none
  else some (FS.put fs1 (itemPath k it) (.file content))

/-- `check_remove_dir(key dir)` -/
def checkRemoveDir (fs : FS) (k : Key) : FS :=
  if !FS.isDir fs (keyPath k) then fs
  else if FS.hasChildren fs (keyPath k) then fs
  else
    let fs1 := FS.erase fs (keyPath k)
    if !FS.isDir fs1 [prefixDirName k] then fs1
    else if FS.hasChildren fs1 [prefixDirName k] then fs1
    else FS.erase fs1 [prefixDirName k]

/-- `remove_file(path)` ignoring NotFound (a directory under that name is left alone) -/
def unlinkFile (fs : FS) (p : Path) : FS :=
  match FS.get fs p with
  | some (.file _) => FS.erase fs p
  | _ => fs

/-! ## (3) in-memory state -/

/-- `VerificationCell<CacheItem>`: `cid` identifies the shared `Arc<AtomicBool>` -/
structure Cell where
  item : Item
  cid : Nat
  deriving DecidableEq, Repr

abbrev Items := List (Key × List Cell)

/-- `CacheState` (+ the verification flags that are set, + a counter for fresh cell identities) -/
structure CState where
  items : Items
  numItems : Nat
  totalBytes : Nat
  verified : List Nat
  nextId : Nat
  deriving Repr

def CState.empty : CState := ⟨[], 0, 0, [], 0⟩

def lookupK : Items → Key → Option (List Cell)
  | [], _ => none
  | (q, v) :: rest, k => if q = k then some v else lookupK rest k

def getK (m : Items) (k : Key) : List Cell := (lookupK m k).getD []

/-- replace the first entry of `k`, or append a new entry -/
def setK : Items → Key → List Cell → Items
  | [], k, v => [(k, v)]
  | (q, w) :: rest, k, v => if q = k then (q, v) :: rest else (q, w) :: setK rest k v

/-- remove the first entry of `k` -/
def eraseK : Items → Key → Items
  | [], _ => []
  | (q, w) :: rest, k => if q = k then rest else (q, w) :: eraseK rest k

/-- number of tracked entries -/
def cnt : Items → Nat
  | [] => 0
  | (_, v) :: rest => v.length + cnt rest

def sumLen : List Cell → Nat
  | [] => 0
  | c :: cs => c.item.len.toNat + sumLen cs

/-- summed lengths of the tracked entries -/
def byt : Items → Nat
  | [] => 0
  | (_, v) :: rest => sumLen v + byt rest

def covers (r : Range) (c : Cell) : Bool :=
  decide (c.item.start.toNat ≤ r.start.toNat) && decide (r.stop.toNat ≤ c.item.stop.toNat)

/-- `find_match` (first covering entry in list order) -/
def findMatch (st : CState) (k : Key) (r : Range) : Option Cell :=
  (getK st.items k).find? (covers r)

/-- `Vec::swap_remove(i)`: the last element takes the place of element `i` -/
def swapRemove (l : List Cell) (i : Nat) : List Cell :=
  match l.getLast? with
  | none => []
  | some z => l.dropLast.set i z

/-- is `c` inside the range of the new item (to be removed on commit) -/
def isSub (new : Item) (c : Cell) : Bool :=
  decide (new.start.toNat ≤ c.item.start.toNat) && decide (c.item.stop.toNat ≤ new.stop.toNat)

/-- indices (ascending) of the entries subsumed by `new`, `i` = index of the head -/
def subsumedIdx (new : Item) : Nat → List Cell → List Nat
  | _, [] => []
  | i, c :: cs => if isSub new c then i :: subsumedIdx new (i + 1) cs else subsumedIdx new (i + 1) cs

structure RmAcc where
  cells : List Cell
  bytesRm : Nat
  paths : List Item

/-- one iteration of the removal loop of `put_impl`.  `fixed = false` is the code as it is
    (F10): the length of an entry equal to the new item is not subtracted although the entry is
    counted in `num_items_rm`; `fixed = true` subtracts it. -/
def rmStep (fixed : Bool) (new : Item) (acc : RmAcc) (i : Nat) : RmAcc :=
  match acc.cells[i]? with
  | none => acc
  | some c =>
    if c.item ≠ new then
      ⟨swapRemove acc.cells i, acc.bytesRm + c.item.len.toNat,
        if c.item ∈ acc.paths then acc.paths else c.item :: acc.paths⟩
    else if fixed then ⟨swapRemove acc.cells i, acc.bytesRm + c.item.len.toNat, acc.paths⟩
    else ⟨swapRemove acc.cells i, acc.bytesRm, acc.paths⟩

def removeSubsumed (fixed : Bool) (new : Item) (cells : List Cell) : RmAcc :=
  (subsumedIdx new 0 cells).reverse.foldl (rmStep fixed new) ⟨cells, 0, []⟩

/-- outcome of a lock-protected section -/
inductive Locked (α : Type)
  | ok (a : α)
  | illegal          -- the oracle value is not a possible choice of the code
  | panic            -- arithmetic underflow (dev profile): the mutex is poisoned

/-- eviction oracle: which `(key, index)` `random_item` returned, in order -/
abbrev EvChoice := Key × Nat

structure EvOut where
  st : CState
  evicted : List (Key × Item)

/-- the `while to_remove > bytes_removed` loop of `maybe_evict`; one oracle choice per iteration.
    `random_item` yields `None` (loop ends) only if there is nothing to pick. -/
def evictLoop (toRemove : Int) : CState → Int → List EvChoice → List (Key × Item) → Locked EvOut
  | st, removed, [], acc =>
    if toRemove > removed ∧ st.numItems ≠ 0 ∧ cnt st.items ≠ 0 then .illegal
    else .ok ⟨st, acc.reverse⟩
  | st, removed, (k, i) :: cs, acc =>
    if ¬ (toRemove > removed) ∨ st.numItems = 0 then .illegal
    else
      match lookupK st.items k with
      | none => .illegal
      | some cells =>
        match cells[i]? with
        | none => .illegal
        | some c =>
          if st.totalBytes < c.item.len.toNat then .panic
          else
            let cells' := cells.eraseIdx i
            let items' := if cells'.isEmpty then eraseK st.items k else setK st.items k cells'
            evictLoop toRemove
              { st with items := items', totalBytes := st.totalBytes - c.item.len.toNat,
                        numItems := st.numItems - 1 }
              (removed + c.item.len.toNat) cs ((k, c.item) :: acc)

structure CommitOut where
  st : CState
  subsumed : List Item            -- files to unlink (`overlapping_item_paths`)
  evicted : List (Key × Item)     -- files to unlink + `check_remove_dir` (`evicted_paths`)

/-- the state after the subsumed entries are removed and the counters decremented -/
def afterRemove (st : CState) (k : Key) (acc : RmAcc) (numRm : Nat) : CState :=
  { st with items := setK st.items k acc.cells, numItems := st.numItems - numRm,
            totalBytes := st.totalBytes - acc.bytesRm }

/-- add the new entry (verified from birth) -/
def addItem (st : CState) (k : Key) (it : Item) : CState :=
  { st with items := setK st.items k (getK st.items k ++ [⟨it, st.nextId⟩]),
            numItems := st.numItems + 1, totalBytes := st.totalBytes + it.len.toNat,
            verified := st.nextId :: st.verified, nextId := st.nextId + 1 }

/-- the lock-protected commit section of `put_impl` -/
def commit (fixed : Bool) (cap : Nat) (st : CState) (k : Key) (it : Item) (choices : List EvChoice) :
    Locked CommitOut :=
  let cells := getK st.items k
  let numRm := (subsumedIdx it 0 cells).length
  let acc := removeSubsumed fixed it cells
  if st.numItems < numRm ∨ st.totalBytes < acc.bytesRm then .panic
  else
    let st1 := afterRemove st k acc numRm
    let toRemove : Int := (st1.totalBytes : Int) - (cap : Int) + (it.len.toNat : Int)
    match evictLoop toRemove st1 0 choices [] with
    | .illegal => .illegal
    | .panic => .panic
    | .ok out => .ok ⟨addItem out.st k it, acc.paths, out.evicted⟩

/-- the commit section after the F10 fix (the removed entry's length is subtracted also when it
    equals the new item) -/
abbrev commitFixed := commit true

/-- the commit section before the F10 fix (kept for the witness schedule `C13_prefix_F10_witness`) -/
abbrev commitPrefix := commit false

def indexOfItem : List Cell → Item → Option Nat
  | [], _ => none
  | c :: cs, it => if c.item = it then some 0 else (indexOfItem cs it).map (· + 1)

/-- the lock-protected part of `remove_item`: `none` = the early `return Ok(())` (key present,
    entry gone: nothing is unlinked), `some st'` = proceed to the unlink -/
def removeItemLocked (st : CState) (k : Key) (it : Item) : Locked (Option CState) :=
  match lookupK st.items k with
  | none => .ok (some st)
  | some cells =>
    match indexOfItem cells it with
    | none => .ok none
    | some i =>
      if st.totalBytes < it.len.toNat ∨ st.numItems < 1 then .panic
      else
        let cells' := swapRemove cells i
        let items' := if cells'.isEmpty then eraseK st.items k else setK st.items k cells'
        .ok (some { st with items := items', totalBytes := st.totalBytes - it.len.toNat,
                            numItems := st.numItems - 1 })

/-! ## (4) threads -/

inductive Op
  | get (k : Key) (r : Range)
  | put (k : Key) (r : Range) (offs : List Nat) (data : Bytes)
  deriving DecidableEq, Repr

def Op.key : Op → Key
  | .get k _ => k
  | .put k _ _ _ => k

def Op.range : Op → Range
  | .get _ r => r
  | .put _ r _ _ => r

/-- where a thread is parked -/
inductive PC
  | idle
  /-- `cache.get.matched` / `cache.put.matched`: `find_match` returned `c` -/
  | matched (op : Op) (c : Cell)
  /-- `cache.put.nomatch` -/
  | noMatch (op : Op)
  /-- `cache.put.written`: the item file is in place, commit not yet done -/
  | written (k : Key) (it : Item)
  /-- `cache.put.unlink_subsumed` / `cache.put.unlink_evicted`: deferred deletions pending -/
  | unlinking (k : Key) (sub : List Item) (ev : List (Key × Item))
  /-- `cache.remove_item.unlink`: state part of `remove_item` done, unlink pending, then the
      loop of `op` continues -/
  | removing (op : Op) (it : Item)
  | done (r : Res)
  deriving DecidableEq, Repr

structure World where
  st : CState
  fs : FS
  cap : Nat
  poisoned : Bool
  threads : List PC
  deriving Repr

def strictlyIncreasing : List Nat → Bool
  | a :: b :: rest => decide (a < b) && strictlyIncreasing (b :: rest)
  | _ => true

/-- argument validation at the top of `put_impl` -/
def putArgsOk (r : Range) (offs : List Nat) (data : Bytes) : Bool :=
  decide (r.start.toNat < r.stop.toNat) &&
  decide (offs.length = r.stop.toNat - r.start.toNat + 1) &&
  decide (offs.head? = some 0) &&
  decide (offs.getLast? = some data.length) &&
  strictlyIncreasing offs

/-- the item `put_impl` builds for (range, offsets, data) -/
def mkItem (crc : Bytes → UInt32) (r : Range) (offs : List Nat) (data : Bytes) : Item :=
  ⟨r.start, r.stop, UInt64.ofNat ((headerBytes offs).length + data.length), crc (headerBytes offs ++ data)⟩

structure Seg where
  w : World
  pc : PC

/-- no covering entry: a get is a miss, a put goes on to write its item -/
def Op.onMiss : Op → PC
  | .get _ _ => .done .miss
  | .put k r offs data => .noMatch (.put k r offs data)

/-- end of a segment: `find_match` under the lock, park at the next schedule point -/
def findSeg (w : World) (op : Op) : Seg :=
  if w.poisoned then ⟨w, .done (.err .lockPoison)⟩
  else
    match findMatch w.st op.key op.range with
    | some c => ⟨w, .matched op c⟩
    | none => ⟨w, op.onMiss⟩

/-- begin an operation: argument checks, then `find_match` -/
def startSeg (w : World) (op : Op) : Seg :=
  match op with
  | .get _ r =>
    if r.start.toNat ≥ r.stop.toNat then ⟨w, .done (.err .invalidArgs)⟩ else findSeg w op
  | .put _ r offs data =>
    if !putArgsOk r offs data then ⟨w, .done (.err .invalidArgs)⟩ else findSeg w op

/-- call of `remove_item` from inside an operation's loop: state part now; then either the
    early return (loop continues at once) or park at `cache.remove_item.unlink` -/
def removeSeg (w : World) (op : Op) (it : Item) : Seg :=
  if w.poisoned then ⟨w, .done (.err .lockPoison)⟩
  else
    match removeItemLocked w.st op.key it with
    | .illegal => ⟨w, .done .panic⟩
    | .panic => ⟨{ w with poisoned := true }, .done .panic⟩
    | .ok none => findSeg w op
    | .ok (some st') => ⟨{ w with st := st' }, .removing op it⟩

/-- the chunk-length comparison loop of `validate_match`; `i` runs over `idx_start..idx_end-1`,
    `j = i - idx_start`; an out-of-range header index is a Rust panic -/
def cmpLens (hdr offs : List Nat) : Nat → Nat → Nat → Res
  | 0, _, _ => .ok
  | n+1, i, j =>
    match hdr[i+1]?, hdr[i]? with
    | some h1, some h0 =>
      if h1 - h0 ≠ offs.getD (j+1) 0 - offs.getD j 0 then .err .invalidArgs
      else cmpLens hdr offs n (i+1) (j+1)
    | _, _ => .panic

/-- `cache_item.verify()`: set the shared verification flag -/
def markVerified (w : World) (cid : Nat) : World :=
  if cid ∈ w.st.verified then w
  else { w with st := { w.st with verified := cid :: w.st.verified } }

/-- `get_impl` from `cache.get.matched` on -/
def getMatchedSeg (crc : Bytes → UInt32) (w : World) (op : Op) (c : Cell) : Seg :=
  match FS.get w.fs (itemPath op.key c.item) with
  | none => removeSeg w op c.item
  | some .dir => ⟨w, .done (.err .io)⟩
  | some (.file content) =>
    if !(c.cid ∈ w.st.verified) && crc content != c.item.crc then removeSeg w op c.item
    else
      let w1 := markVerified w c.cid
      match parseHeader content with
      | none => removeSeg w1 op c.item
      | some hdr => ⟨w1, .done (getRange hdr content op.range c.item.start)⟩

/-- `validate_match` from `cache.put.matched` on -/
def putMatchedSeg (crc : Bytes → UInt32) (w : World) (op : Op) (offs : List Nat) (data : Bytes)
    (c : Cell) : Seg :=
  match FS.get w.fs (itemPath op.key c.item) with
  | none => removeSeg w op c.item
  | some .dir => ⟨w, .done (.err .io)⟩
  | some (.file content) =>
    if content.length ≠ c.item.len.toNat then removeSeg w op c.item
    else if crc content != c.item.crc then removeSeg w op c.item
    else
      match parseHeader content with
      | none => removeSeg w op c.item
      | some hdr =>
        let is := op.range.start.toNat - c.item.start.toNat
        let ie := op.range.stop.toNat - c.item.start.toNat + 1
        match cmpLens hdr offs (ie - 1 - is) is 0 with
        | .ok =>
          match getRange hdr content op.range c.item.start with
          | .hit stored _ => if data ≠ stored then ⟨w, .done (.err .invalidArgs)⟩ else ⟨w, .done .ok⟩
          | r => ⟨w, .done r⟩
        | r => ⟨w, .done r⟩

/-- after the deferred deletions: done, or park before the next one -/
def unlinkNext (w : World) (k : Key) (sub : List Item) (ev : List (Key × Item)) : Seg :=
  if sub.isEmpty && ev.isEmpty then ⟨w, .done .ok⟩ else ⟨w, .unlinking k sub ev⟩

/-- oracle values of one step: eviction choices (used by the commit), index of the subsumed
    path deleted next (the code iterates a `HashSet`) -/
structure Oracle where
  evict : List EvChoice := []
  pick : Nat := 0

/-- run thread-local program counter `pc` to the next schedule point -/
def segment (crc : Bytes → UInt32) (fixed : Bool) (w : World) (pc : PC) (o : Oracle) : Option Seg :=
  match pc with
  | .idle => none
  | .done _ => none
  | .matched op c =>
    match op with
    | .get _ _ => some (getMatchedSeg crc w op c)
    | .put _ _ offs data => some (putMatchedSeg crc w op offs data c)
  | .noMatch op =>
    match op with
    | .get _ _ => none
    | .put k r offs data =>
      let it := mkItem crc r offs data
      match writeItemFile w.fs k it (headerBytes offs ++ data) with
      | none => some ⟨w, .done (.err .io)⟩
      | some fs' => some ⟨{ w with fs := fs' }, .written k it⟩
  | .written k it =>
    if w.poisoned then some ⟨w, .done (.err .lockPoison)⟩
    else
      match commit fixed w.cap w.st k it o.evict with
      | .illegal => none
      | .panic => some ⟨{ w with poisoned := true }, .done .panic⟩
      | .ok out => some (unlinkNext { w with st := out.st } k out.subsumed out.evicted)
  | .unlinking k sub ev =>
    match sub[o.pick]? with
    | some it =>
      some (unlinkNext { w with fs := unlinkFile w.fs (itemPath k it) } k (sub.eraseIdx o.pick) ev)
    | none =>
      if !sub.isEmpty then none
      else
        match ev with
        | [] => none
        | (ek, eit) :: ev' =>
          some (unlinkNext { w with fs := checkRemoveDir (unlinkFile w.fs (itemPath ek eit)) ek } k [] ev')
  | .removing op it =>
    let fs1 :=
      match FS.get w.fs (itemPath op.key it) with
      | none => w.fs
      | some _ => checkRemoveDir (unlinkFile w.fs (itemPath op.key it)) op.key
    some (findSeg { w with fs := fs1 } op)

/-- what the scheduler may do -/
inductive Action
  /-- an idle (or finished) thread begins `op` and runs to its first schedule point -/
  | start (tid : Nat) (op : Op)
  /-- a parked thread runs to its next schedule point -/
  | go (tid : Nat) (o : Oracle)

def setThread (ts : List PC) (tid : Nat) (pc : PC) : List PC := ts.set tid pc

/-- one step of the concurrent semantics; `none` = not enabled / illegal oracle -/
def step (crc : Bytes → UInt32) (fixed : Bool) (w : World) : Action → Option World
  | .start tid op =>
    match w.threads[tid]? with
    | some PC.idle =>
      let s := startSeg w op
      some { s.w with threads := setThread s.w.threads tid s.pc }
    | some (PC.done _) =>
      let s := startSeg w op
      some { s.w with threads := setThread s.w.threads tid s.pc }
    | _ => none
  | .go tid o =>
    match w.threads[tid]? with
    | none => none
    | some pc =>
      match segment crc fixed w pc o with
      | none => none
      | some s => some { s.w with threads := setThread s.w.threads tid s.pc }

def run (crc : Bytes → UInt32) (fixed : Bool) : World → List Action → Option World
  | w, [] => some w
  | w, a :: as =>
    match step crc fixed w a with
    | none => none
    | some w' => run crc fixed w' as

/-- all threads idle or finished -/
def quiescent (w : World) : Bool :=
  w.threads.all fun pc => match pc with
    | .idle => true
    | .done _ => true
    | _ => false

/-! ### a sequential operation = one thread run to completion -/

structure OpOut where
  w : World
  res : Res

/-- run thread 0 until it is `done`; the eviction choices are offered at every step (only the
    commit consumes them), the subsumed paths are deleted in list order.  `none`: illegal oracle
    or out of fuel. -/
def runToDone (crc : Bytes → UInt32) (fixed : Bool) (evict : List EvChoice) : Nat → World → Option OpOut
  | 0, _ => none
  | fuel+1, w =>
    match w.threads[0]? with
    | some (PC.done r) => some ⟨w, r⟩
    | _ =>
      match step crc fixed w (.go 0 ⟨evict, 0⟩) with
      | none => none
      | some w' => runToDone crc fixed evict fuel w'

def runOp (crc : Bytes → UInt32) (fixed : Bool) (fuel : Nat) (w : World) (op : Op) (evict : List EvChoice) :
    Option OpOut :=
  match step crc fixed w (.start 0 op) with
  | none => none
  | some w' => runToDone crc fixed evict fuel w'

/-! ## (5) directory scan (`initialize_state`) -/

inductive FileParse
  | item (it : Item)
  | skip                -- not a file / larger than the capacity: left alone
  | remove              -- undecodable name or wrong length: file removed
  deriving DecidableEq, Repr

/-- `try_parse_cache_file` -/
def parseCacheFile (cap : Nat) (name : Name) (n : Node) : FileParse :=
  match n with
  | .dir => .skip
  | .file c =>
    if c.length > cap then .skip
    else
      match parseFileName name with
      | none => .remove
      | some it => if c.length ≠ it.len.toNat then .remove else .item it

/-- `HashMap::insert` -/
def insertK (m : Items) (k : Key) (v : List Cell) : Items := setK m k v

structure ScanSt where
  st : CState
  fs : FS
  full : Bool          -- `total_bytes >= 2 * capacity` reached: scan stops

/-- children of `p` present in the file system, in oracle order -/
def childrenIn (fs : FS) (order : List Path) (p : Path) : List Path :=
  order.filter fun q => FS.isChild p q && (FS.get fs q).isSome

/-- the loop over the files of one key directory; `acc` = `items` (in push order) -/
def scanFiles (cap : Nat) : List Path → ScanSt → List Cell → ScanSt × List Cell
  | [], s, acc => (s, acc)
  | p :: ps, s, acc =>
    match FS.get s.fs p with
    | none => scanFiles cap ps s acc
    | some n =>
      match parseCacheFile cap (p.getLast?.getD []) n with
      | .skip => scanFiles cap ps s acc
      | .remove => scanFiles cap ps { s with fs := FS.erase s.fs p } acc
      | .item it =>
        let st' : CState :=
          { s.st with totalBytes := s.st.totalBytes + it.len.toNat, numItems := s.st.numItems + 1,
                      nextId := s.st.nextId + 1 }
        let acc' := acc ++ [⟨it, s.st.nextId⟩]
        if st'.totalBytes ≥ 2 * cap then ({ s with st := st', full := true }, acc')
        else scanFiles cap ps { s with st := st' } acc'

def upper (b : UInt8) : UInt8 := if 97 ≤ b.toNat ∧ b.toNat ≤ 122 then b - 32 else b

inductive ScanRes
  | ok | panic
  deriving DecidableEq, Repr

structure ScanOut where
  s : ScanSt
  res : ScanRes

/-- the loop over the key directories of one prefix directory `[d1]`.
    `lenient = true` is the code after the F14 fix: a directory whose name is shorter than / does
    not start with the prefix directory name, or decodes to fewer than 32 bytes, is skipped.
    `lenient = false` is the code before: `debug_assert_eq!` / `&buf[..32]` panic. -/
def scanKeyDirs (lenient : Bool) (cap : Nat) (order : List Path) (d1 : Name) : List Path → ScanSt → ScanOut
  | [], s => ⟨s, .ok⟩
  | p :: ps, s =>
    if !FS.isDir s.fs p then scanKeyDirs lenient cap order d1 ps s
    else
      let d2 := p.getLast?.getD []
      if d2.length < 2 ∨ (d2.take 2).map upper ≠ d1.map upper then
        (if lenient then scanKeyDirs lenient cap order d1 ps s else ⟨s, .panic⟩)
      else
        match parseKeyDir d2 with
        | .panic => if lenient then scanKeyDirs lenient cap order d1 ps s else ⟨s, .panic⟩
        | .skip => scanKeyDirs lenient cap order d1 ps s
        | .key k =>
          let r := scanFiles cap (childrenIn s.fs order p) s []
          if r.1.full then ⟨{ r.1 with st := { r.1.st with items := insertK r.1.st.items k r.2 } }, .ok⟩
          else if r.2.isEmpty then scanKeyDirs lenient cap order d1 ps r.1
          else scanKeyDirs lenient cap order d1 ps { r.1 with st := { r.1.st with items := insertK r.1.st.items k r.2 } }

/-- the loop over the prefix directories -/
def scanPrefixDirs (lenient : Bool) (cap : Nat) (order : List Path) : List Path → ScanSt → ScanOut
  | [], s => ⟨s, .ok⟩
  | p :: ps, s =>
    let d1 := p.getLast?.getD []
    if !FS.isDir s.fs p ∨ d1.length ≠ 2 then scanPrefixDirs lenient cap order ps s
    else
      let r := scanKeyDirs lenient cap order d1 (childrenIn s.fs order p) s
      match r.res with
      | .panic => r
      | .ok => if r.s.full then r else scanPrefixDirs lenient cap order ps r.s

/-- is `order` a possible `read_dir` enumeration of `fs` (every entry exactly once) -/
def orderLegal (fs : FS) (order : List Path) : Bool :=
  order.all (fun p => (FS.get fs p).isSome) && fs.all (fun e => order.contains e.1) &&
  decide (order.Nodup)

/-- `DiskCache::initialize`: `none` = `Err(InvalidArguments)` (capacity 0) -/
def scan (lenient : Bool) (fs : FS) (cap : Nat) (order : List Path) : Option ScanOut :=
  if cap = 0 then none
  else some (scanPrefixDirs lenient cap order (childrenIn fs order []) ⟨CState.empty, fs, false⟩)

/-- close and re-open the directory: all threads must be idle; `fs'` is the directory as found
    (equal to `w.fs` if nothing touched it while closed).  `none`: not quiescent, capacity 0,
    or the scan panicked. -/
def reopen (lenient : Bool) (w : World) (fs' : FS) (cap : Nat) (order : List Path) : Option World :=
  if !quiescent w then none
  else
    match scan lenient fs' cap order with
    | none => none
    | some out =>
      match out.res with
      | .panic => none
      | .ok => some ⟨out.s.st, out.s.fs, cap, false, w.threads.map fun _ => .idle⟩

end Xet.Cache
