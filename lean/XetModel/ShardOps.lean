/-
Model of `mdb_shard/src/set_operations.rs` (`set_operation`: two-way ordered merge of two serialized
shards for union / difference, incl. the flag-superset rule and the `Merge` branch) and of
`mdb_shard/src/session_directory.rs` (`consolidate_shards_in_directory`).
-/
import XetModel.ShardFormat

namespace Xet.Shard

inductive SetOp | union | difference
  deriving DecidableEq, Repr

inductive HashOrd | lt | eq | gt

def hashCmp (a b : Hash) : HashOrd := if hashLt a b then .lt else if a = b then .eq else .gt

/-- `compare_flag_superset` -/
inductive Superset | superA | superB | neither | equal

/-- bitwise `flags0 & flags1 == flags1` on u32 flag words -/
def flagsInclude (a b : Nat) : Bool := (List.range 32).all fun i => !(hasBit b (2 ^ i)) || hasBit a (2 ^ i)

def compareFlagSuperset (a b : Nat) : Superset :=
  if a = b then .equal else if flagsInclude a b then .superA else if flagsInclude b a then .superB else .neither

def flagsOr (a b : Nat) : Nat := ((List.range 32).map fun i => if hasBit a (2 ^ i) || hasBit b (2 ^ i) then 2 ^ i else 0).sum

/-- the `Merge` branch: header rebuilt by `FileDataSequenceHeader::new(fh0.file_hash, fh0.num_entries,
    has_verification, has_metadata_ext)` (flags = only the two known bits, `_unused = 0`), segments of the
    first, verification / metadata from whichever side has them (first preferred). -/
def mergeFiles (a b : FileInfo) : FileInfo :=
  let hv := a.hasVerif || b.hasVerif
  let hm := a.hasMeta || b.hasMeta
  ⟨a.hash, (if hv then flagVerification else 0) + (if hm then flagMetadataExt else 0), a.numEntries, 0, a.segs,
   if a.hasVerif then a.verif else if b.hasVerif then b.verif else [],
   if a.hasMeta then a.metaExt else if b.hasMeta then b.metaExt else none⟩

/-- file section merge (`get_next_actions_for_file_info` + `get_next_actions`) -/
def mergeFileLists (op : SetOp) : Nat → List FileInfo → List FileInfo → List FileInfo
  | 0, _, _ => []
  | _, [], [] => []
  | fuel+1, a :: as, [] => if op = .union then a :: mergeFileLists op fuel as [] else mergeFileLists op fuel as []
  | fuel+1, [], b :: bs => b :: mergeFileLists op fuel [] bs
  | fuel+1, a :: as, b :: bs =>
    match hashCmp a.hash b.hash with
    | .lt => if op = .union then a :: mergeFileLists op fuel as (b :: bs) else mergeFileLists op fuel as (b :: bs)
    | .gt => b :: mergeFileLists op fuel (a :: as) bs
    | .eq =>
      if op = .union then
        match compareFlagSuperset a.flags b.flags with
        | .superA | .equal => a :: mergeFileLists op fuel as bs
        | .superB => b :: mergeFileLists op fuel as bs
        | .neither => mergeFiles a b :: mergeFileLists op fuel as bs
      else mergeFileLists op fuel as bs

def mergeCasLists (op : SetOp) : Nat → List CasInfo → List CasInfo → List CasInfo
  | 0, _, _ => []
  | _, [], [] => []
  | fuel+1, a :: as, [] => if op = .union then a :: mergeCasLists op fuel as [] else mergeCasLists op fuel as []
  | fuel+1, [], b :: bs => b :: mergeCasLists op fuel [] bs
  | fuel+1, a :: as, b :: bs =>
    match hashCmp a.hash b.hash with
    | .lt => if op = .union then a :: mergeCasLists op fuel as (b :: bs) else mergeCasLists op fuel as (b :: bs)
    | .gt => b :: mergeCasLists op fuel (a :: as) bs
    | .eq => if op = .union then a :: mergeCasLists op fuel as bs else mergeCasLists op fuel as bs

/-- lookup index advance of the file section in `set_operation`: `1 + num_info_entry_following()` -/
def fileRecCount (f : FileInfo) : Nat := f.numBytes / recSize

def fileSectionOps : Nat → List FileInfo → FileSection
  | _, [] => ⟨[], []⟩
  | idx, f :: rest =>
    let r := fileSectionOps (idx + fileRecCount f) rest
    ⟨f.bytes ++ r.bytes, (trunc f.hash, idx) :: r.lookup⟩

def casSectionOps : Nat → List CasInfo → CasSection
  | _, [] => ⟨[], [], []⟩
  | idx, c :: rest =>
    let r := casSectionOps (idx + 1 + c.numEntries) rest
    ⟨c.bytes ++ r.bytes, (trunc c.hash, idx) :: r.lookup, chunkEntries idx 0 c.chunks ++ r.chunkLookup⟩

/-- `set_operation([s0, s1], [r0, r1], out, op)` on parsed inputs; chunk table stably sorted
    (the code's `sort_unstable_by_key` order among equal keys is canonicalised by the comparison). -/
def setOp (op : SetOp) (fa fb : List FileInfo) (ca cb : List CasInfo) : Serialized :=
  let files := mergeFileLists op (fa.length + fb.length + 1) fa fb
  let cas := mergeCasLists op (ca.length + cb.length + 1) ca cb
  let fs := fileSectionOps 0 files
  let cs := casSectionOps 0 cas
  let tbl := sortByKey cs.chunkLookup
  let fileInfoOff := headerSize
  let casInfoOff := fileInfoOff + fs.bytes.length + recSize
  let fileLookupOff := casInfoOff + cs.bytes.length + recSize
  let casLookupOff := fileLookupOff + 12 * fs.lookup.length
  let chunkLookupOff := casLookupOff + 12 * cs.lookup.length
  let footerOff := chunkLookupOff + 16 * tbl.length
  let footer : Footer := ⟨footerVersion, fileInfoOff, casInfoOff, fileLookupOff, fs.lookup.length, casLookupOff, cs.lookup.length,
    chunkLookupOff, tbl.length, Hash.zero, 0, u64Max, List.replicate 6 0, sumMap (·.bytesOnDisk) cas,
    sumMap (fun f => sumMap (·.bytes) f.segs) files, sumMap (·.bytesInCas) cas, footerOff⟩
  ⟨headerBytes ++ fs.bytes ++ bookend ++ cs.bytes ++ bookend ++ lookupBytes fs.lookup ++ lookupBytes cs.lookup
     ++ chunkLookupBytes tbl ++ footer.bytes, footer⟩

/-- parse both inputs with the model's readers, then `setOp` -/
def setOpBytes (op : SetOp) (a b : Bytes) : Except Err Serialized := do
  let fta ← loadInfo a
  let ftb ← loadInfo b
  let fa ← readAllFiles a (a.length / recSize + 1) fta.fileInfoOff []
  let fb ← readAllFiles b (b.length / recSize + 1) ftb.fileInfoOff []
  let ca ← readAllCas a (a.length / recSize + 1) fta.casInfoOff []
  let cb ← readAllCas b (b.length / recSize + 1) ftb.casInfoOff []
  .ok (setOp op fa fb ca cb)

/-! ### consolidation -/

structure DirShard where
  name : Hash          -- file name = content hash
  bytes : Bytes

/-- greedy grouping of `consolidate_shards_in_directory`: returns the exclusive upper index of the
    group starting at the head, given the sizes (`shards` already in modification-time order). -/
def groupEnd (target : Nat) : Nat → List Nat → Nat → Nat
  | _, [], idx => idx
  | cur, sz :: rest, idx => if sz + cur ≥ target then idx else groupEnd target (cur + sz) rest (idx + 1)

structure Consolidated where
  finished : List DirShard           -- returned shards, in order
  removed : List Hash                -- deleted file names
  written : List DirShard            -- newly written merged shards

def unionChain (cur : Bytes) : List DirShard → Except Err Bytes
  | [] => .ok cur
  | s :: rest =>
    match setOpBytes .union cur s.bytes with
    | .error e => .error e
    | .ok r => unionChain r.bytes rest

def consolidateAux (P : HashPrims) (target : Nat) : Nat → List DirShard → List Hash → Consolidated → Except Err Consolidated
  | 0, _, _, acc => .ok acc
  | _, [], _, acc => .ok acc
  | fuel+1, s :: rest, finishedHashes, acc =>
    let n := groupEnd target s.bytes.length (rest.map (·.bytes.length)) 0     -- number of followers merged in
    if n = 0 then
      consolidateAux P target fuel rest (s.name :: finishedHashes) { acc with finished := acc.finished ++ [s] }
    else
      match unionChain s.bytes (rest.take n) with
      | .error e => .error e
      | .ok merged =>
        let new : DirShard := ⟨P.dataHash merged, merged⟩
        let fh := new.name :: finishedHashes
        let toRemove := ((s :: rest.take n).map (·.name)).filter fun h => !fh.contains h
        consolidateAux P target fuel (rest.drop n) fh
          { finished := acc.finished ++ [new], removed := acc.removed ++ toRemove, written := acc.written ++ [new] }

/-- `consolidate_shards_in_directory(dir, target_max_size)`; `shards` = the valid shards of the
    directory in the order the (unstable) sort by modification time produced. -/
def consolidate (P : HashPrims) (target : Nat) (shards : List DirShard) : Except Err Consolidated :=
  consolidateAux P target (shards.length + 1) shards [] ⟨[], [], []⟩

end Xet.Shard
