/-
Model of the upload-task bookkeeping of one session (C16):
  `FileUploadSession::register_new_xorb_for_upload` (reap finished tasks with `try_join_next`, returning the
      first error found — and, since the `fix:` commit, latching it in `xorb_upload_failed`; then spawn the put),
  `FileUploadSession::finalize_impl` (last xorb, join all tasks, check the latch, upload the shards),
  `SessionShardInterface::upload_and_register_session_shards` (one task per shard, `jh??`).
Task completion (when, and with which outcome) is the oracle: events `complete i ok`.
The tokio `JoinSet` is modelled as the list of finished-but-unreaped task ids in completion order.
-/
namespace Xet.Uploads

inductive TaskSt
  | running | done (ok : Bool) | reaped (ok : Bool)
  deriving DecidableEq, Repr

structure S where
  tasks : List TaskSt            -- by task id (index) — one per spawned `put`
  finished : List Nat            -- finished, not yet reaped, in completion order (`try_join_next` order)
  latch : Bool                   -- `xorb_upload_failed`
  apiErrors : Nat                -- number of API calls that returned `Err`
  finalized : Option Bool        -- result of `finalize` once called
  shardUploadsStarted : Bool     -- some `upload_shard` was issued
  shardFailed : Bool
  deriving Repr

def S.init : S := ⟨[], [], false, 0, none, false, false⟩

def setAt {α} (l : List α) (i : Nat) (v : α) : List α := l.zipIdx.map fun p => if p.2 = i then v else p.1

/-- reap loop of `register_new_xorb_for_upload`: pops finished tasks until one failed; returns the
    state and whether an error was found -/
def reap : Nat → S → S × Bool
  | 0, s => (s, false)
  | fuel+1, s =>
    match s.finished with
    | [] => (s, false)
    | i :: rest =>
      match s.tasks[i]? with
      | some (.done ok) =>
        let s1 := { s with finished := rest, tasks := setAt s.tasks i (.reaped ok) }
        if ok then reap fuel s1 else ({ s1 with latch := true }, true)
      | _ => reap fuel { s with finished := rest }

inductive Ev
  | register (nonEmpty : Bool)   -- an API call reached `register_new_xorb_for_upload(xorb)`
  | complete (i : Nat) (ok : Bool)  -- background `put` i finished
  | finalize (lastNonEmpty : Bool) (rest : List Bool) (shardsOk : Bool)
      -- `finalize()`: last xorb registered; `rest` = outcomes of the tasks still running when the join loop
      -- waits for them (in id order); `shardsOk` = all shard uploads succeed
  deriving Repr

def registerStep (s : S) (nonEmpty : Bool) : S × Bool :=
  let r := reap (s.finished.length + 1) s
  if r.2 then ({ r.1 with apiErrors := r.1.apiErrors + 1 }, false)
  else if nonEmpty then ({ r.1 with tasks := r.1.tasks ++ [.running] }, true)
  else (r.1, true)

/-- complete every still-running task with the given outcomes (join loop waits for them) -/
def completeRunning : List TaskSt → List Bool → List TaskSt
  | [], _ => []
  | .running :: ts, o :: os => .done o :: completeRunning ts os
  | .running :: ts, [] => .done true :: completeRunning ts []
  | t :: ts, os => t :: completeRunning ts os

def notFailedDone : TaskSt → Bool
  | .done false => false
  | _ => true

def allUnreapedOk (ts : List TaskSt) : Bool := ts.all notFailedDone

def reapAll : TaskSt → TaskSt
  | .done ok => .reaped ok
  | t => t

def step (s : S) : Ev → S
  | .register ne => if s.finalized.isSome then s else (registerStep s ne).1
  | .complete i ok =>
    match s.tasks[i]? with
    | some .running => { s with tasks := setAt s.tasks i (.done ok), finished := s.finished ++ [i] }
    | _ => s
  | .finalize lastNe rest shardsOk =>
    if s.finalized.isSome then s else
    let r := registerStep s lastNe
    if !r.2 then { r.1 with finalized := some false }
    else
      let ts := completeRunning r.1.tasks rest
      let s1 := { r.1 with tasks := ts.map reapAll, finished := [] }
      if !allUnreapedOk ts then { s1 with finalized := some false, apiErrors := s1.apiErrors + 1 }
      else if s1.latch then { s1 with finalized := some false, apiErrors := s1.apiErrors + 1 }
      else if shardsOk then { s1 with shardUploadsStarted := true, finalized := some true }
      else { s1 with shardUploadsStarted := true, shardFailed := true, finalized := some false, apiErrors := s1.apiErrors + 1 }

def run (s : S) (evs : List Ev) : S := evs.foldl step s

def taskOk : TaskSt → Bool
  | .done true | .reaped true => true
  | _ => false

def taskFailed : TaskSt → Bool
  | .done false | .reaped false => true
  | _ => false

end Xet.Uploads
