/-
C05 — Deduplication answers are truthful: the shard-manager layer.

  "… This holds for the in-memory index, for on-disk shards, for shard collections including HMAC-keyed shards,
   and when truncated 64-bit hash prefixes collide."

Model: `XetModel/ShardManager.lean` (`Mgr` = `ShardFileManager`: the in-memory shard plus the bookkeeper of registered
shard files grouped into collections by HMAC key, one `ChunkCacheElement` per truncated keyed chunk hash;
`Mgr.dedup` = `ShardFileManager::chunk_hash_dedup_query`, `Mgr.registerOne` / `register` = `register_shards`,
`Mgr.flush`, `Mgr.addCas`, `Mgr.addFile`).  Helpers: `XetProofs/ShardManager.lean`.

* `C05_manager`, `C05_manager_first_n` — for **every** manager state (reachable or not: the lookup tables, the shard
  lists, the shard bytes and footers may be anything), every hash primitive, every query: an answer is either the
  in-memory shard's answer (truthful under the lookup-map invariant of `C05_lookup_invariant`) or the answer of
  `chunk_hash_dedup_query_direct` on the bytes of a registered shard of some collection at the position a table
  element names — hence `C05_direct` applies: the records read there carry the query hashes keyed with **that shard's
  footer key**, in order, with the right byte count.  Truncated-prefix collisions, overwritten table elements
  (`HashMap` last-writer-wins) and wrapped `u16` shard indices can therefore make the manager miss an answer or
  name a different shard, never lie about what the named records contain.
* `C05_manager_invariants` — on states reachable from a fresh manager by any sequence of `add_cas_block`,
  `add_file_reconstruction_info`, `flush`, `register_shards` (any arguments, any shard bytes, any index cap and
  flush threshold at each step): `CollKeyed` (every shard of a collection carries the collection's key, so the key the
  table lookup used is the key the comparison uses), `ShardsLoaded`, `Coll0Unkeyed`, and `RowsValid` (given at most
  2^16 shards in the collection — the `u16` field — every table element names an existing shard and a row of that
  shard's `read_all_truncated_hashes` listing with offset `≤ u16::MAX`).
* `C05_manager_reachable` — the two combined: on reachable states the answer is truthful under the collection's key.
* `C05_manager_wf` — if moreover the registered shards are shard files (`ShardFile`: serializations of well-formed
  content, or keyed exports of such, with or without their optional tables), the answer names a block `X` of the
  answering shard's content and is `Truthful` for it: `X.chunks[start+i].hash = keyed(q[i])`, bytes = Σ lengths,
  `start + n ≤ |X.chunks|` (the block-bound caveat of `C05_direct` is discharged by `RowsValid`).
-/
import XetProofs.ShardManager

namespace Xet.Shard

/-- index form of `DirectTruthful.chunks`: record `start + i` of the block read at `casIdx` carries `keyed(q[i])` -/
theorem DirectTruthful.first_n {P : HashPrims} {b : Bytes} {ft : Footer} {q : List Hash} {casIdx chunkOff : Nat}
    {a : DedupAnswer} (d : DirectTruthful P b ft q casIdx chunkOff a) :
    ∀ i < a.n, ∃ c qh, parseChunk b (ft.casInfoOff + recSize * casIdx + recSize * (1 + a.seg.cstart + i)) = .ok c ∧
      q[i]? = some qh ∧ c.hash = keyedHash P ft.hmacKey qh := by
  intro i hi
  obtain ⟨cs, c1, c2, c3, _⟩ := d.chunks
  obtain ⟨c, g1, g2⟩ := c2 i hi
  have hq : i < q.length := by have := d.n_le; omega
  have h3 := congrArg (fun l => l[i]?) c3
  simp only [List.getElem?_map, List.getElem?_take, hi, if_true, g1, Option.map_some,
    List.getElem?_eq_getElem hq] at h3
  refine ⟨c, q[i], ?_, by simp [hq], by simpa using h3⟩
  rw [d.cstart]; exact g2

/-- the answer `a` to `q` comes from the in-memory shard, and (under the lookup-map invariant) is truthful for the
    block the map holds for `q[0]` -/
def MemAnswer (m : Mgr) (q : List Hash) (a : DedupAnswer) : Prop :=
  m.mem.dedup q = some a ∧
  (LookupOK m.mem.lookup → ∃ q0 X start, (q0, X, start) ∈ m.mem.lookup ∧ q.head? = some q0 ∧ a.seg.cstart = start ∧
      Truthful id X.chunks X.hash q a)

/-- the answer `a` to `q` comes from the registered shard `s` of collection `c`, through the table element `e` found
    under the truncated first query hash keyed with the collection's key; it is what `C05_direct` guarantees for the
    bytes of `s` (records keyed with the **footer's** key of `s`) -/
def ShardAnswer (P : HashPrims) (q : List Hash) (a : DedupAnswer) (c : Coll) (s : RegShard) (e : Elem) : Prop :=
  (∃ q0, q.head? = some q0 ∧ (trunc (keyedHash P c.key q0), e) ∈ c.lookup) ∧ c.shards[e.shardIdx]? = some s ∧
  DirectTruthful P s.bytes s.footer q e.casStart e.chunkOff a

/-- **C05_manager (statement)** — quantified over every manager state, not only reachable ones -/
def C05_manager_statement : Prop :=
  ∀ (P : HashPrims) (m : Mgr) (q : List Hash) (a : DedupAnswer), m.dedup P q = .ok (some a) →
    MemAnswer m q a ∨ ∃ c ∈ m.colls, ∃ s ∈ c.shards, ∃ e, ShardAnswer P q a c s e

/-- **C05 for `ShardFileManager::chunk_hash_dedup_query`, every state.**  For every manager state `m` (arbitrary
    tables, shard lists, shard bytes), every `P` and query `q`: an answer `Some (n, fse)` is the in-memory shard's
    (`MemAnswer`) or that of a registered shard of one of the collections at a table element (`ShardAnswer`). -/
theorem C05_manager : C05_manager_statement := by
  intro P m q a h
  rcases Mgr.dedup_some P m q a h with hm | ⟨_, q0, qs, rfl, c, hc, e, s, g1, g2, g3⟩
  · refine Or.inl ⟨hm, fun hl => ?_⟩
    obtain ⟨x, hx, h1, h2, h3⟩ := m.mem.dedup_truthful hl q a hm
    exact ⟨x.1, x.2.1, x.2.2, hx, h1, h2, h3⟩
  · exact Or.inr ⟨c, hc, s, List.mem_of_getElem? g2, e, ⟨q0, rfl, g1⟩, g2,
      dedupDirect_truthful P s.bytes s.footer _ e.casStart e.chunkOff a g3⟩

/-- **C05_manager_first_n (statement)** -/
def C05_manager_first_n_statement : Prop :=
  ∀ (P : HashPrims) (m : Mgr) (q : List Hash) (a : DedupAnswer), m.dedup P q = .ok (some a) →
    (m.mem.dedup q = some a ∧ (LookupOK m.mem.lookup → a.n ≤ q.length ∧ ∃ q0 X, (q0, X, a.seg.cstart) ∈ m.mem.lookup ∧
        ∀ i < a.n, ∃ ch qh, X.chunks[a.seg.cstart + i]? = some ch ∧ q[i]? = some qh ∧ ch.hash = qh)) ∨
    (a.n ≤ q.length ∧ ∃ c ∈ m.colls, ∃ s ∈ c.shards, ∃ e : Elem, c.shards[e.shardIdx]? = some s ∧ a.seg.cstart = e.chunkOff ∧
        ∀ i < a.n, ∃ ch qh,
          parseChunk s.bytes (s.footer.casInfoOff + recSize * e.casStart + recSize * (1 + a.seg.cstart + i)) = .ok ch ∧
          q[i]? = some qh ∧ ch.hash = keyedHash P s.footer.hmacKey qh)

/-- **The manager's answer refers to the first `n` query hashes**, every state: `n ≤ |q|`, and for every `i < n` the
    record at position `start + i` — of the block the in-memory map holds (under its invariant), or read from the bytes
    of the answering shard after the block header at the element's `cas_start_index` — carries `q[i]`, keyed with
    the answering shard's footer key. -/
theorem C05_manager_first_n : C05_manager_first_n_statement := by
  intro P m q a h
  rcases C05_manager P m q a h with ⟨hm, ht⟩ | ⟨c, hc, s, hs, e, _, g2, d⟩
  · refine Or.inl ⟨hm, fun hl => ?_⟩
    obtain ⟨q0, X, start, hx, _, rfl, t⟩ := ht hl
    exact ⟨t.n_le, q0, X, hx, fun i hi => t.hash_at i hi⟩
  · exact Or.inr ⟨d.n_le, c, hc, s, hs, e, g2, d.cstart, d.first_n⟩

/-! ## reachable states -/

/-- **Invariants of the bookkeeper** on every state reachable from a fresh manager by `add_cas_block`,
    `add_file_reconstruction_info`, `flush` and `register_shards` (any arguments; any bytes as shard files — a file that
    does not load makes the step fail and is not a step; any index cap and flush threshold per step):
    * the in-memory shard is a reachable `MDBInMemoryShard`, so its lookup-map invariant holds;
    * `CollKeyed`: every shard of a collection has the collection's key in its footer;
    * `ShardsLoaded`: every registered footer is what `load_from_reader` returns for the registered bytes;
    * `RowsValid`: in a collection with at most 2^16 shards every table element `(k, e)` has `e.chunkOff ≤ u16::MAX`,
      `e.shardIdx` addresses a shard `s` of the collection and `(k, e.casStart, e.chunkOff)` is a row of
      `read_all_truncated_hashes(s)`;
    * collection 0 is the unkeyed one. -/
theorem C05_manager_invariants (P : HashPrims) (m : Mgr) (hr : m.Reachable P) :
    m.mem.Reachable ∧ CollKeyed m ∧ ShardsLoaded m ∧ RowsValid m ∧ Coll0Unkeyed m :=
  ⟨hr.mem, hr.inv.keyed, hr.inv.loaded, hr.inv.rows, hr.inv.coll0⟩

/-- the invariants are inductive: they hold initially and each is preserved by one registration (the other
    operations are a change of the in-memory shard followed by at most one registration) -/
theorem C05_manager_invariants_step (maxI : Nat) (m : Mgr) (name : Hash) (b : Bytes) (m' : Mgr)
    (h : m.registerOne maxI name b = .ok m') :
    (CollKeyed m → CollKeyed m') ∧ (ShardsLoaded m → ShardsLoaded m') ∧ (RowsValid m → RowsValid m') ∧
    (Coll0Unkeyed m → Coll0Unkeyed m') ∧ m'.mem = m.mem :=
  ⟨collKeyed_registerOne h, shardsLoaded_registerOne h, rowsValid_registerOne h, coll0Unkeyed_registerOne h,
   Mgr.registerOne_mem h⟩

/-- … and by each public operation (`add_cas_block`, `add_file_reconstruction_info`, `flush`, `register_shards`) -/
theorem C05_manager_invariants_preserved (P : HashPrims) (m m' : Mgr) (h : Mgr.Step P m m') :
    (CollKeyed m → CollKeyed m') ∧ (ShardsLoaded m → ShardsLoaded m') ∧ (RowsValid m → RowsValid m') ∧
    (Coll0Unkeyed m → Coll0Unkeyed m') ∧ (m.mem.Reachable → m'.mem.Reachable) :=
  ⟨h.micro.preserves (I := CollKeyed) (fun _ _ hm => hm) (fun _ _ _ _ _ hm hr => collKeyed_registerOne hr hm),
   h.micro.preserves (I := ShardsLoaded) (fun _ _ hm => hm) (fun _ _ _ _ _ hm hr => shardsLoaded_registerOne hr hm),
   h.micro.preserves (I := RowsValid) (fun _ _ hm => hm) (fun _ _ _ _ _ hm hr => rowsValid_registerOne hr hm),
   h.micro.preserves (I := Coll0Unkeyed) (fun _ _ hm => hm) (fun _ _ _ _ _ hm hr => coll0Unkeyed_registerOne hr hm),
   h.mem_reachable⟩

/-- **C05 for the manager on reachable states**: the answer is truthful for the in-memory block, or is the direct
    answer on a registered shard `s` of a collection `c` whose footer key **is** the collection's key — the key the
    query hash was keyed with for the table lookup is the key the record comparison uses — and, when `c` holds at
    most 2^16 shards, at a row of that shard's truncated-hash listing. -/
theorem C05_manager_reachable (P : HashPrims) (m : Mgr) (hr : m.Reachable P) (q : List Hash) (a : DedupAnswer)
    (h : m.dedup P q = .ok (some a)) :
    (∃ q0 X start, (q0, X, start) ∈ m.mem.lookup ∧ q.head? = some q0 ∧ a.seg.cstart = start ∧
        Truthful id X.chunks X.hash q a) ∨
    ∃ c ∈ m.colls, ∃ s ∈ c.shards, ∃ e, ShardAnswer P q a c s e ∧ s.footer.hmacKey = c.key ∧
      loadInfo s.bytes = .ok s.footer ∧
      (c.shards.length ≤ u16Max + 1 → e.chunkOff ≤ u16Max ∧ ∃ rows, allTruncated s.bytes s.footer = .ok rows ∧
        ∃ q0, q.head? = some q0 ∧ (trunc (keyedHash P c.key q0), e.casStart, e.chunkOff) ∈ rows) := by
  rcases C05_manager P m q a h with ⟨_, ht⟩ | ⟨c, hc, s, hs, e, sa⟩
  · exact Or.inl (ht hr.mem.lookupOK)
  · refine Or.inr ⟨c, hc, s, hs, e, sa, hr.inv.keyed c hc s hs, hr.inv.loaded c hc s hs, fun hlen => ?_⟩
    obtain ⟨⟨q0, hq0, hmem⟩, g2, _⟩ := sa
    obtain ⟨r1, s', r2, rows, r3, r4⟩ := hr.inv.rows c hc hlen _ hmem
    rw [g2] at r2
    cases r2
    exact ⟨r1, rows, r3, q0, hq0, r4⟩

/-- **C05_manager_wf (statement)** -/
def C05_manager_wf_statement : Prop :=
  ∀ (P : HashPrims) (m : Mgr), m.Reachable P → (∀ c ∈ m.colls, c.shards.length ≤ u16Max + 1) →
    (∀ c ∈ m.colls, ∀ s ∈ c.shards, ∃ cs, ShardFile P s cs) →
    ∀ (q : List Hash) (a : DedupAnswer), m.dedup P q = .ok (some a) →
    (∃ q0 X start, (q0, X, start) ∈ m.mem.lookup ∧ q.head? = some q0 ∧ a.seg.cstart = start ∧
        Truthful id X.chunks X.hash q a) ∨
    ∃ c ∈ m.colls, ∃ s ∈ c.shards, ∃ cs, ShardFile P s cs ∧ s.footer.hmacKey = c.key ∧
      ∃ X ∈ cs, Truthful (keyedHash P c.key) X.chunks X.hash q a

/-- **C05 for the manager over shard files.**  On a reachable state all of whose collections hold at most 2^16 shards
    and all of whose registered shards are shard files (`ShardFile`: `serialize m0 t` of well-formed `m0` with a legal
    chunk table, or `exportSpec …` of well-formed `m0` — any key, any of the eight flag combinations, i.e. with or
    without its chunk table, which `register_shards` then rebuilds by scanning): every answer is `Truthful` for the
    in-memory block the map holds, or names a block `X` of the content `cs` of the answering shard `s` and is
    `Truthful` for it under the collection's key: `1 ≤ n ≤ |q|`, `fse.cas_hash = X.hash`,
    `fse.end = fse.start + n ≤ |X.chunks|`, `X.chunks[start+i].hash = keyed(q[i])`, `fse.bytes = Σ lengths`. -/
theorem C05_manager_wf : C05_manager_wf_statement := by
  intro P m hr hlen hfiles q a h
  rcases C05_manager_reachable P m hr q a h with hm | ⟨c, hc, s, hs, e, sa, hk, hl, hrow⟩
  · exact Or.inl hm
  · obtain ⟨cs, hf⟩ := hfiles c hc s hs
    obtain ⟨rows, S⟩ := hf.casRows hl
    obtain ⟨_, rows', r1, q0, _, r2⟩ := hrow (hlen c hc)
    rw [S.listed] at r1
    cases r1
    obtain ⟨X, hX, t⟩ := S.truthful r2 sa.2.2
    rw [hk] at t
    exact Or.inr ⟨c, hc, s, hs, cs, hf, hk, X, hX, t⟩

/-- for the unkeyed collection (`c.key = 0`, `C05_manager_invariants`: collection 0) "under the collection's key"
    is "directly": `Truthful (keyedHash P 0) = Truthful id` -/
theorem C05_manager_wf_unkeyed (P : HashPrims) (chunks : List Chunk) (casHash : Hash) (q : List Hash) (a : DedupAnswer) :
    Truthful (keyedHash P Hash.zero) chunks casHash q a ↔ Truthful id chunks casHash q a := by
  rw [keyedHash_zero]

/-! ## non-vacuity: a concrete manager with an unkeyed and a keyed collection and an in-memory block -/

section Examples

attribute [local instance] decEqExcept

private def hX : Hash := ⟨11, 1, 2, 3⟩
private def hY : Hash := ⟨12, 1, 2, 4⟩
/-- two chunks of `cA` share the truncated prefix 7 -/
private def cA : CasInfo := ⟨hX, 0, 3, 160, 120, [⟨⟨7, 1, 0, 0⟩, 100, 0, 0⟩, ⟨⟨7, 2, 0, 0⟩, 50, 100, 0⟩, ⟨⟨9, 0, 0, 1⟩, 10, 150, 0⟩]⟩
private def cB : CasInfo := ⟨hY, 0, 1, 5, 5, [⟨⟨10, 1, 0, 0⟩, 5, 0, 0⟩]⟩
private def exMem : Mem := ⟨[], [cA, cB]⟩
private def cC : CasInfo := ⟨⟨20, 0, 0, 0⟩, 0, 2, 30, 30, [⟨⟨30, 1, 0, 0⟩, 10, 0, 0⟩, ⟨⟨31, 1, 0, 0⟩, 20, 10, 0⟩]⟩
private def exMem2 : Mem := ⟨[], [cC]⟩
private def cD : CasInfo := ⟨⟨40, 0, 0, 0⟩, 0, 1, 8, 8, [⟨⟨41, 0, 0, 0⟩, 8, 0, 0⟩]⟩
/-- a concrete "HMAC": adds the first key word to the first hash word -/
private def exP : HashPrims := ⟨fun _ => Hash.zero, fun _ => Hash.zero, fun _ => Hash.zero,
  fun kb mb => ⟨(Hash.ofBytes mb).w0 + (Hash.ofBytes kb).w0, (Hash.ofBytes mb).w1, (Hash.ofBytes mb).w2, (Hash.ofBytes mb).w3⟩⟩
private def exKey : Hash := ⟨1000, 2, 3, 4⟩
private def bSrc : Bytes := (serializeStable exMem).bytes
/-- keyed export of `exMem2` with the file info and the **chunk table dropped**: the manager scans -/
private def bExp : Bytes := (exportSpec exP exMem2 exKey 1000 3600 false true false).bytes
private def exReg : Except Err Mgr := Mgr.init.register 100 [(⟨1, 0, 0, 0⟩, bSrc), (⟨2, 0, 0, 0⟩, bExp)]
private def exMgr0 : Mgr := match exReg with | .ok m => m | .error _ => Mgr.init
private def exAdd : Except Err Mgr := exMgr0.addCas exP 100 100000 cD
private def exMgr : Mgr := match exAdd with | .ok m => m | .error _ => Mgr.init

example : exMem.WF ∧ exMem2.WF := by decide +kernel

example : exMgr.Reachable exP := by
  have h0 : exMgr0.Reachable exP := by
    unfold exMgr0
    split
    · rename_i m h; exact .tail (.refl _) (.register 100 _ h)
    · exact .refl _
  unfold exMgr
  split
  · rename_i m h; exact .tail h0 (.addCas 100 100000 cD h)
  · exact .refl _

example : exMgr.colls.map (fun c => (c.key, c.shards.length, c.lookup)) =
    [(Hash.zero, 1, [(7, ⟨0, 1, 0⟩), (9, ⟨0, 2, 0⟩), (10, ⟨4, 0, 0⟩)]),
     (exKey, 1, [(1030, ⟨0, 0, 0⟩), (1031, ⟨0, 1, 0⟩)])] := by decide +kernel

/-- in-memory answer (the block added last, not yet flushed) -/
example : exMgr.dedup exP [⟨41, 0, 0, 0⟩, ⟨9, 0, 0, 1⟩] = .ok (some ⟨1, ⟨cD.hash, 0, 8, 0, 1⟩⟩) := by decide +kernel
/-- collection 0 (unkeyed, chunk table present): two chunks of `cA` from position 1, then the query diverges -/
example : exMgr.dedup exP [⟨7, 2, 0, 0⟩, ⟨9, 0, 0, 1⟩, ⟨99, 0, 0, 0⟩] = .ok (some ⟨2, ⟨hX, 0, 60, 1, 3⟩⟩) := by decide +kernel
/-- keyed collection (chunk table dropped, rows rebuilt by the scan): **unkeyed** query hashes, keyed comparison -/
example : exMgr.dedup exP [⟨30, 1, 0, 0⟩, ⟨31, 1, 0, 0⟩] = .ok (some ⟨2, ⟨cC.hash, 0, 30, 0, 2⟩⟩) := by decide +kernel
/-- truncated-prefix collision inside collection 0: `⟨7,1,0,0⟩` is stored (chunk 0 of `cA`) but the single table
    element for prefix 7 was overwritten by `⟨7,2,0,0⟩` (chunk 1): the manager **misses** it — it does not lie -/
example : exMgr.dedup exP [⟨7, 1, 0, 0⟩] = .ok none := by decide +kernel
/-- a raw hash that happens to equal a *keyed* stored hash's prefix is not matched in the unkeyed collection, and
    keyed again (2030) not in the keyed one -/
example : exMgr.dedup exP [⟨1030, 1, 0, 0⟩] = .ok none := by decide +kernel
/-- the registered shards of the example are shard files in the sense of `C05_manager_wf` -/
example : ShardFile exP ⟨⟨1, 0, 0, 0⟩, bSrc, (serializeStable exMem).footer⟩ exMem.cas :=
  .plain exMem _ (by decide +kernel) (serializeStable_legal exMem) rfl
example : ShardFile exP ⟨⟨2, 0, 0, 0⟩, bExp, (exportSpec exP exMem2 exKey 1000 3600 false true false).footer⟩
    (keyedCas exP exKey exMem2.cas) :=
  .exported exMem2 exKey 1000 3600 false true false (by decide +kernel) (by decide) rfl
/-- a non-reachable state with a lying table (element pointing one block too far): `C05_manager` still applies —
    the direct query compares the record actually read, here the header of `cB` taken as a chunk record, and
    answers not-found -/
example : (⟨MemShard.empty, [⟨Hash.zero, [⟨⟨1, 0, 0, 0⟩, bSrc, (serializeStable exMem).footer⟩], [(10, ⟨0, 3, 0⟩)]⟩], [], 0⟩ : Mgr).dedup exP
    [⟨10, 1, 0, 0⟩] = .ok none := by decide +kernel

end Examples

end Xet.Shard
