/-
C11 (second sentence) — "… so a later session sharing the local shard cache finds it": completeness of the
shard manager's lookup.

Model: `XetModel/ShardManager.lean` (`Mgr.registerOne` / `register` = `ShardFileManager::register_shards`,
`Mgr.flush`, `Mgr.addCas`, `Mgr.dedup` = `chunk_hash_dedup_query`).  Helpers: `XetProofs/ShardManager.lean`
(`lookup_complete_core`: what a registration inserts, and that it persists; `Owned`, `NoColl`, `CollFollows`).

* `C11_lookup_complete` — a chunk hash `h` recorded at chunk `j ≤ u16::MAX` of block `X` of a well-formed content
  `m0`, whose serialization (any legal chunk table) was registered under a new name while the index was below its
  cap, is found by the manager in every later state (any further `add_cas_block`, `add_file_reconstruction_info`,
  `flush`, `register_shards`): `chunk_hash_dedup_query(h :: rest)` returns `Some (n, fse)` with `n ≥ 1`,
  `fse.cas_hash = X.hash`, `fse.start = j`, truthful for `X` — it is exactly the direct query at that chunk
  (`directSpec id X j`).  Explicit side conditions, each necessary (see the examples):
    - `NoTruncCollision` inside the shard: no other chunk of `m0` shares `h`'s truncated 64-bit prefix;
    - `NoDuplicateChunk m0 h`: `h` is recorded at one position of `m0` (otherwise another block may be named);
    - across the collection: no shard of collection 0 in the final state, other than copies of the same file, lists
      an insertable row with that prefix (`HashMap` last-writer-wins would hand the element to the other shard);
    - `j ≤ u16::MAX` (rows with larger offsets are skipped), at most 2^16 shards in collection 0 (`shard_index as u16`),
      `total_indexed_chunks < CHUNK_INDEX_TABLE_MAX_SIZE` when the shard was registered;
    - the in-memory shard does not answer (it is asked first).
* `C11_flush_finds` — what a session stored is findable once its shard is registered: after `add_cas_block(c)` and
  `flush()` (in either order of events: the size threshold may trigger the flush inside `add_cas_block`), and any later
  operations, every chunk hash of `c` is found, naming `c` — same side conditions, the shard file being the
  serialization of the in-memory shard with `c` added, registered under its content hash.
-/
import XetProofs.ShardManager

namespace Xet.Shard

/-- no shard of the collection, other than byte-identical copies of `B`, lists an insertable row (offset
    `≤ u16::MAX`) with truncated key `k` in its `read_all_truncated_hashes` -/
def NoForeignRow (c0 : Coll) (k : Nat) (B : Bytes) : Prop :=
  ∀ s ∈ c0.shards, ∀ rows, allTruncated s.bytes s.footer = .ok rows → ∀ r ∈ rows, r.1 = k → r.2.2 ≤ u16Max → s.bytes = B

/-- no other chunk of the content shares the truncated 64-bit prefix of `h` (the `raw` half of `NoTruncCollision`) -/
def NoTruncCollisionRaw (m0 : Mem) (h : Hash) : Prop :=
  ∀ Y ∈ m0.cas, ∀ ch ∈ Y.chunks, trunc ch.hash = trunc h → ch.hash = h

instance (m0 : Mem) (h : Hash) : Decidable (NoTruncCollisionRaw m0 h) := by unfold NoTruncCollisionRaw; infer_instance

/-- **C11_lookup_complete (statement)** -/
def C11_lookup_complete_statement : Prop :=
  ∀ (P : HashPrims) (m₁ m₂ m : Mgr) (maxI : Nat) (name : Hash) (m0 : Mem) (t : List (Nat × Nat × Nat)),
    m₁.Reachable P → m₁.registered.contains name = false → m₁.totalIndexed < maxI →
    m0.WF → LegalChunkTable m0 t →
    m₁.registerOne maxI name (serialize m0 t).bytes = .ok m₂ → Mgr.Steps P m₂ m →
    ∀ (X : CasInfo) (j : Nat) (hj : j < X.chunks.length), X ∈ m0.cas → j ≤ u16Max →
    NoTruncCollisionRaw m0 X.chunks[j].hash → NoDuplicateChunk m0 X.chunks[j].hash →
    ∀ c0, m.colls[0]? = some c0 → c0.shards.length ≤ u16Max + 1 →
    NoForeignRow c0 (trunc X.chunks[j].hash) (serialize m0 t).bytes →
    ∀ rest, m.mem.dedup (X.chunks[j].hash :: rest) = none →
    ∃ a, m.dedup P (X.chunks[j].hash :: rest) = .ok (some a) ∧ 1 ≤ a.n ∧ a.seg.casHash = X.hash ∧ a.seg.cstart = j ∧
      Truthful id X.chunks X.hash (X.chunks[j].hash :: rest) a ∧
      directSpec id X j (X.chunks[j].hash :: rest) = some a

/-- **Completeness of the manager's lookup.**  For every reachable manager `m₁`, every well-formed content `m0` and
    legal chunk table `t`: if `serialize m0 t` is registered under a new name while the index is below its cap, then
    in every state `m` reachable from there, a query starting with the hash `h` of chunk `j ≤ u16::MAX` of a block
    `X ∈ m0.cas` is answered `Some (n, fse)` with `n ≥ 1`, `fse.cas_hash = X.hash`, `fse.start = j`, truthful for `X`
    — provided `h` has no truncated-prefix collision and no duplicate inside `m0`, collection 0 of `m` holds at most
    2^16 shards none of which (other than copies of the file) lists an insertable row with `h`'s prefix, and the
    in-memory shard of `m` does not answer. -/
theorem C11_lookup_complete : C11_lookup_complete_statement := by
  intro P m₁ m₂ m maxI name m0 t hr hnew hcap w ht hreg hlater X j hj hX hj16 hcol hu c0 hc0 hlen hforeign rest hmem
  obtain ⟨a, h1, h2, h3, h4⟩ := lookup_complete_unkeyed P hr.inv hnew hcap w ht hreg (Mgr.Steps.micro hlater) hX hj hj16
    hcol hu hc0 hlen hforeign rest hmem
  exact ⟨a, h1, h4.n_pos, h4.cas, h3, h4, h2⟩

/-- the same through `register_shards`: the shard is the first of a list handed to `register` -/
theorem C11_lookup_complete_register (P : HashPrims) (m₁ m : Mgr) (maxI : Nat) (name : Hash) (m0 : Mem)
    (t : List (Nat × Nat × Nat)) (others : List (Hash × Bytes)) (hr : m₁.Reachable P)
    (hnew : m₁.registered.contains name = false) (hcap : m₁.totalIndexed < maxI) (w : m0.WF) (ht : LegalChunkTable m0 t)
    (hreg : m₁.register maxI ((name, (serialize m0 t).bytes) :: others) = .ok m)
    (X : CasInfo) (j : Nat) (hj : j < X.chunks.length) (hX : X ∈ m0.cas) (hj16 : j ≤ u16Max)
    (hcol : NoTruncCollisionRaw m0 X.chunks[j].hash) (hu : NoDuplicateChunk m0 X.chunks[j].hash)
    (c0 : Coll) (hc0 : m.colls[0]? = some c0) (hlen : c0.shards.length ≤ u16Max + 1)
    (hforeign : NoForeignRow c0 (trunc X.chunks[j].hash) (serialize m0 t).bytes)
    (rest : List Hash) (hmem : m.mem.dedup (X.chunks[j].hash :: rest) = none) :
    ∃ a, m.dedup P (X.chunks[j].hash :: rest) = .ok (some a) ∧ 1 ≤ a.n ∧ a.seg.casHash = X.hash ∧ a.seg.cstart = j ∧
      Truthful id X.chunks X.hash (X.chunks[j].hash :: rest) a := by
  simp only [Mgr.register] at hreg
  split at hreg
  · cases hreg
  · rename_i m₂ h2
    obtain ⟨a, h1, h2', h3, h4⟩ := lookup_complete_unkeyed P hr.inv hnew hcap w ht h2 (Mgr.register_micro hreg) hX hj hj16
      hcol hu hc0 hlen hforeign rest hmem
    exact ⟨a, h1, h4.n_pos, h4.cas, h3, h4⟩

/-- **C11_flush_finds (statement)** -/
def C11_flush_finds_statement : Prop :=
  ∀ (P : HashPrims) (m ma mb m' : Mgr) (maxI minSize : Nat) (c : CasInfo),
    m.Reachable P → m.addCas P maxI minSize c = .ok ma → ma.flush P maxI = .ok mb → Mgr.Steps P mb m' →
    (m.mem.addCas c).mem.WF →
    m.registered.contains (P.dataHash (serializeStable (m.mem.addCas c).mem).bytes) = false → m.totalIndexed < maxI →
    ∀ (j : Nat) (hj : j < c.chunks.length), j ≤ u16Max →
    NoTruncCollisionRaw (m.mem.addCas c).mem c.chunks[j].hash → NoDuplicateChunk (m.mem.addCas c).mem c.chunks[j].hash →
    ∀ c0, m'.colls[0]? = some c0 → c0.shards.length ≤ u16Max + 1 →
    NoForeignRow c0 (trunc c.chunks[j].hash) (serializeStable (m.mem.addCas c).mem).bytes →
    ∀ rest, m'.mem.dedup (c.chunks[j].hash :: rest) = none →
    ∃ a, m'.dedup P (c.chunks[j].hash :: rest) = .ok (some a) ∧ 1 ≤ a.n ∧ a.seg.casHash = c.hash ∧ a.seg.cstart = j ∧
      Truthful id c.chunks c.hash (c.chunks[j].hash :: rest) a

/-- **What a session stored is findable once its shard is registered.**  From any reachable manager: `add_cas_block(c)`
    then `flush()` (the flush may already have happened inside `add_cas_block` when the size threshold was reached —
    both orders are covered), then any further operations.  If the in-memory content with `c` added is well-formed, its
    shard file is new (content hash not yet registered) and the index is below its cap, then every chunk hash
    `c.chunks[j]` (`j ≤ u16::MAX`) without truncated-prefix collision or duplicate in that content, and without a
    foreign row in collection 0 of the final state, is found by `chunk_hash_dedup_query`, the answer naming `c` at
    chunk `j` and truthful for it — unless the final in-memory shard answers first. -/
theorem C11_flush_finds : C11_flush_finds_statement := by
  intro P m ma mb m' maxI minSize c hr hadd hfl hlater w hnew hcap j hj hj16 hcol hu c0 hc0 hlen hforeign rest hmem
  have hreg := Mgr.addCas_flush P c hadd hfl
  have hX : c ∈ (m.mem.addCas c).mem.cas := self_mem_insertCas c m.mem.mem.cas
  obtain ⟨a, h1, _, h3, h4⟩ := lookup_complete_unkeyed P (m₁ := { m with mem := MemShard.empty }) (hr.inv.setMem _) hnew hcap w
    (serializeStable_legal _) hreg (Mgr.Steps.micro hlater) hX hj hj16 hcol hu hc0 hlen hforeign rest hmem
  exact ⟨a, h1, h4.n_pos, h4.cas, h3, h4⟩

/-- right after the flush the in-memory shard is empty and does not answer: the hypothesis on it is automatic -/
theorem C11_flush_mem_empty (P : HashPrims) (m ma mb : Mgr) (maxI minSize : Nat) (c : CasInfo)
    (hadd : m.addCas P maxI minSize c = .ok ma) (hfl : ma.flush P maxI = .ok mb) (q : List Hash) :
    mb.mem.dedup q = none := by
  have hreg := Mgr.addCas_flush P c hadd hfl
  have : mb.mem = MemShard.empty := Mgr.registerOne_mem hreg
  rw [this]
  cases q <;> rfl

/-! ## non-vacuity and necessity of the side conditions: concrete managers with an unkeyed and a keyed collection -/

section Examples

attribute [local instance] decEqExcept

private def hX : Hash := ⟨11, 1, 2, 3⟩
private def hY : Hash := ⟨12, 1, 2, 4⟩
/-- two chunks of `cA` share the truncated prefix 7 -/
private def cA : CasInfo := ⟨hX, 0, 3, 160, 120, [⟨⟨7, 1, 0, 0⟩, 100, 0, 0⟩, ⟨⟨7, 2, 0, 0⟩, 50, 100, 0⟩, ⟨⟨9, 0, 0, 1⟩, 10, 150, 0⟩]⟩
private def cB : CasInfo := ⟨hY, 0, 1, 5, 5, [⟨⟨10, 1, 0, 0⟩, 5, 0, 0⟩]⟩
private def exMem : Mem := ⟨[], [cA, cB]⟩
/-- a second unkeyed content with a chunk sharing the truncated prefix 9 with chunk 2 of `cA` -/
private def cC : CasInfo := ⟨⟨20, 0, 0, 0⟩, 0, 2, 30, 30, [⟨⟨30, 1, 0, 0⟩, 10, 0, 0⟩, ⟨⟨9, 5, 5, 5⟩, 20, 10, 0⟩]⟩
private def exMem2 : Mem := ⟨[], [cC]⟩
private def cD : CasInfo := ⟨⟨40, 0, 0, 0⟩, 0, 1, 8, 8, [⟨⟨41, 0, 0, 0⟩, 8, 0, 0⟩]⟩
private def exMem3 : Mem := ⟨[], [cD]⟩
private def exP : HashPrims := ⟨fun _ => ⟨77, 0, 0, 0⟩, fun _ => Hash.zero, fun _ => Hash.zero,
  fun kb mb => ⟨(Hash.ofBytes mb).w0 + (Hash.ofBytes kb).w0, (Hash.ofBytes mb).w1, (Hash.ofBytes mb).w2, (Hash.ofBytes mb).w3⟩⟩
private def exKey : Hash := ⟨1000, 2, 3, 4⟩
private def bSrc : Bytes := (serializeStable exMem).bytes
private def bSrc2 : Bytes := (serializeStable exMem2).bytes
private def bKeyed : Bytes := (exportSpec exP exMem3 exKey 1000 3600 false false true).bytes
private def n1 : Hash := ⟨1, 0, 0, 0⟩
private def n2 : Hash := ⟨2, 0, 0, 0⟩
private def n3 : Hash := ⟨3, 0, 0, 0⟩
private def ofExcept (r : Except Err Mgr) : Mgr := match r with | .ok m => m | .error _ => Mgr.init
/-- the shard of `exMem` and a keyed shard: two collections -/
private def exMgr : Mgr := ofExcept (Mgr.init.register 100 [(n1, bSrc), (n3, bKeyed)])
/-- … then another unkeyed shard that lists a row with prefix 9 -/
private def exMgrForeign : Mgr := ofExcept (exMgr.register 100 [(n2, bSrc2)])
/-- the shard of `exMem` registered while the index is at its cap -/
private def exMgrCapped : Mgr := ofExcept (Mgr.init.register 0 [(n1, bSrc)])

example : exMem.WF ∧ exMem2.WF ∧ exMem3.WF := by decide +kernel
example : exMgr.colls.map (fun c => (c.key, c.shards.map (·.name), c.lookup.length)) =
    [(Hash.zero, [n1], 3), (exKey, [n3], 1)] := by decide +kernel

/-- **the hypotheses of `C11_lookup_complete` are jointly satisfiable and its conclusion is what the model computes**:
    chunk 2 of `cA` (`⟨9,0,0,1⟩`), shard registered into a fresh manager -/
example : NoTruncCollisionRaw exMem ⟨9, 0, 0, 1⟩ ∧ NoDuplicateChunk exMem ⟨9, 0, 0, 1⟩ := by decide +kernel
example : ∃ a, exMgr.dedup exP [⟨9, 0, 0, 1⟩, ⟨5, 5, 5, 5⟩] = .ok (some a) ∧ 1 ≤ a.n ∧ a.seg.casHash = cA.hash ∧ a.seg.cstart = 2 :=
  ⟨⟨1, ⟨hX, 0, 10, 2, 3⟩⟩, by decide +kernel, by decide, rfl, rfl⟩
/-- a formal instance of the theorem (registration computed by `registerOne_existing`, no evaluation) -/
example : ∃ m : Mgr, ∃ a, m.dedup exP [⟨9, 0, 0, 1⟩, ⟨5, 5, 5, 5⟩] = .ok (some a) ∧ 1 ≤ a.n ∧ a.seg.casHash = cA.hash ∧
    a.seg.cstart = 2 := by
  have w : exMem.WF := by decide +kernel
  have ht := serializeStable_legal exMem
  obtain ⟨rows, S⟩ := casRows_serialize exMem _ w ht
  have hF := loadInfo_serialize exMem _ w (legal_table_length_lt exMem _ w ht)
  have hreg := registerOne_existing (m := Mgr.init) (maxI := 100) (name := n1) (i := 0) (c := ⟨Hash.zero, [], []⟩)
    (by decide) hF (by decide) rfl (by decide) S.listed
  obtain ⟨a, h1, h2, h3, h4, _⟩ := C11_lookup_complete exP Mgr.init _ _ 100 n1 exMem _ (.refl _) (by decide) (by decide) w ht hreg
    (.refl _) cA 2 (by decide) (by decide) (by decide) (by decide +kernel) (by decide +kernel)
    _ rfl (by simp [u16Max]) (by
      intro s hs _ _ _ _ _ _
      simp only [List.nil_append, List.mem_singleton] at hs
      subst hs; rfl) [⟨5, 5, 5, 5⟩] rfl
  exact ⟨_, a, h1, h2, h3, h4⟩

/-- **each side condition is needed.**  Truncated-prefix collision inside the shard: chunk 0 of `cA` (`⟨7,1,0,0⟩`) is
    stored, but chunk 1 has the same prefix and was inserted later — missed -/
example : ¬ NoTruncCollisionRaw exMem ⟨7, 1, 0, 0⟩ := by decide +kernel
example : exMgr.dedup exP [⟨7, 1, 0, 0⟩] = .ok none := by decide +kernel
/-- foreign row: after another shard of collection 0 lists prefix 9, the element points at it and `⟨9,0,0,1⟩` is missed,
    although still stored in the first shard; the foreign hash `⟨9,5,5,5⟩` is found -/
example : exMgrForeign.colls.map (fun c => (c.key, c.shards.map (·.name), c.lookup)) =
    [(Hash.zero, [n1, n2], [(7, ⟨0, 1, 0⟩), (9, ⟨0, 1, 1⟩), (10, ⟨4, 0, 0⟩), (30, ⟨0, 0, 1⟩)]),
     (exKey, [n3], [(1041, ⟨0, 0, 0⟩)])] := by decide +kernel
example : exMgrForeign.dedup exP [⟨9, 0, 0, 1⟩] = .ok none ∧
    exMgrForeign.dedup exP [⟨9, 5, 5, 5⟩] = .ok (some ⟨1, ⟨cC.hash, 0, 20, 1, 2⟩⟩) := by decide +kernel
/-- index at its cap when the shard was registered: nothing inserted, nothing found -/
example : exMgrCapped.colls.map (fun c => (c.shards.length, c.lookup.length)) = [(1, 0)] ∧
    exMgrCapped.dedup exP [⟨9, 0, 0, 1⟩] = .ok none := by decide +kernel

/-- `C11_flush_finds`: `add_cas_block(cD)` + `flush()` on `exMgr` (threshold not reached by the add; the flush writes
    the shard, named by its content hash `⟨77,0,0,0⟩` under `exP`), then the chunk of `cD` is found in collection 0 -/
private def exFlushed : Mgr := ofExcept ((ofExcept (exMgr.addCas exP 100 100000 cD)).flush exP 100)
example : exFlushed.colls.map (fun c => (c.key, c.shards.map (·.name), c.lookup.length)) =
    [(Hash.zero, [n1, ⟨77, 0, 0, 0⟩], 4), (exKey, [n3], 1)] := by decide +kernel
example : exFlushed.dedup exP [⟨41, 0, 0, 0⟩, ⟨9, 0, 0, 1⟩] = .ok (some ⟨1, ⟨cD.hash, 0, 8, 0, 1⟩⟩) ∧
    exFlushed.mem.dedup [⟨41, 0, 0, 0⟩] = none := by decide +kernel
/-- … and with the size threshold reached inside `add_cas_block` (flush there, the explicit flush is a no-op): same state -/
private def exFlushed' : Mgr := ofExcept ((ofExcept (exMgr.addCas exP 100 0 cD)).flush exP 100)
example : exFlushed'.colls.map (fun c => (c.key, c.shards.map (·.name), c.lookup)) =
    exFlushed.colls.map (fun c => (c.key, c.shards.map (·.name), c.lookup)) := by decide +kernel

end Examples

end Xet.Shard
