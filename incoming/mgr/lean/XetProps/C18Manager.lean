/-
C18 — "… yet dedup lookups with unkeyed hashes through the shard manager return the same answers as the original,
with or without the optional lookup tables": the shard-manager layer.

Model: `XetModel/ShardManager.lean` (`Mgr.registerOne` = one iteration of `register_shards`, including
`read_all_truncated_hashes` = `allTruncated`: the chunk table if the shard has one, a scan of the CAS section if not;
`Mgr.dedup` = `ShardFileManager::chunk_hash_dedup_query`: per collection the first query hash is keyed with the
collection's key, truncated, looked up, and `chunk_hash_dedup_query_direct` compares keyed hashes).
Helpers: `XetProofs/ShardManager.lean` (`casRows_exportSpec`: the rows listed for an export with **or without** its
chunk table; `dedup_after_register`), `XetProofs/ShardExport.lean` (`directSpec_keyed`).

* `C18_dedup_preserved_manager` — for every well-formed content `m0`, legal chunk table `t`, key, clock value, validity
  and all eight include-flag combinations `(f, c, k)`: registering the keyed export of `serialize m0 t` (the real
  `exportKeyed`) in a manager `M` gives, for a query of **unkeyed** hashes, exactly the answer that registering the
  source shard in `M` gives — the same `Some (n, fse)` or the same not-found.  `M` is **any** manager state that
  answers not-found to the query (in particular a fresh one) with fewer than 2^16 shards per collection; both
  registrations under new names with the index below its cap.  Hypotheses on the content as in
  `C18_dedup_preserved_shard`: `NoTruncCollision`, `NoDuplicateChunk`, `KeyedInjOn`; plus chunk offsets `≤ u16::MAX`.
  With `k = false` (chunk table dropped) the rows come from the scan branch of `allTruncated`.
* without those hypotheses both answers are truthful: `C05_manager` (every state) and `C05_manager_wf` (reachable
  states over shard files, `ShardFile.exported` covering all eight flag combinations) — restated as
  `C18_manager_truthful`.
-/
import XetProps.C05Manager

namespace Xet.Shard

/-- registering `(ns, source shard)` resp. `(ne, keyed export)` into `M`, index cap `maxI` -/
def C18_dedup_preserved_manager_statement : Prop :=
  ∀ (P : HashPrims) (M Ms Me : Mgr) (maxI : Nat) (ns ne : Hash) (m0 : Mem) (t : List (Nat × Nat × Nat)) (key : Hash)
    (now validFor : Nat) (f c k : Bool) (e : Export) (q0 : Hash) (qs : List Hash),
    m0.WF → LegalChunkTable m0 t → now < 18446744073709551616 →
    exportKeyed P (serialize m0 t).bytes key now validFor f c k = .ok e →
    M.registered.contains ns = false → M.registered.contains ne = false → M.totalIndexed < maxI →
    (∀ c ∈ M.colls, c.shards.length < u16Max + 1) →
    M.dedup P (q0 :: qs) = .ok none →
    M.registerOne maxI ns (serialize m0 t).bytes = .ok Ms →
    M.registerOne maxI ne e.bytes = .ok Me →
    NoTruncCollision P key m0 q0 → NoDuplicateChunk m0 q0 → KeyedInjOn P key m0 qs →
    (∀ X ∈ m0.cas, X.chunks.length ≤ u16Max + 1) →
    Me.dedup P (q0 :: qs) = Ms.dedup P (q0 :: qs)

/-- the closed-form version (`exportSpec` instead of the result of `exportKeyed`) -/
theorem C18_dedup_preserved_manager_spec (P : HashPrims) (M Ms Me : Mgr) (maxI : Nat) (ns ne : Hash) (m0 : Mem)
    (t : List (Nat × Nat × Nat)) (key : Hash) (now validFor : Nat) (f c k : Bool) (q0 : Hash) (qs : List Hash)
    (w : m0.WF) (ht : LegalChunkTable m0 t) (hnow : now < 18446744073709551616)
    (hns : M.registered.contains ns = false) (hne : M.registered.contains ne = false) (hcap : M.totalIndexed < maxI)
    (hlen : ∀ c ∈ M.colls, c.shards.length < u16Max + 1) (hbase : M.dedup P (q0 :: qs) = .ok none)
    (hrs : M.registerOne maxI ns (serialize m0 t).bytes = .ok Ms)
    (hre : M.registerOne maxI ne (exportSpec P m0 key now validFor f c k).bytes = .ok Me)
    (hc : NoTruncCollision P key m0 q0) (hu : NoDuplicateChunk m0 q0) (hi : KeyedInjOn P key m0 qs)
    (hoff : ∀ X ∈ m0.cas, X.chunks.length ≤ u16Max + 1) :
    Me.dedup P (q0 :: qs) = Ms.dedup P (q0 :: qs) := by
  -- the source shard
  obtain ⟨rowsS, SS⟩ := casRows_serialize m0 t w ht
  have hFS := loadInfo_serialize m0 t w (legal_table_length_lt m0 t w ht)
  have hz : keyedHash P (serialize m0 t).footer.hmacKey = id := keyedHash_zero P
  obtain ⟨presS, absS⟩ := dedup_after_register P hns hcap hFS SS hrs hlen q0 qs hbase
    (by rw [hz]; exact hc.raw) (by rw [hz]; exact hu) hoff
  rw [hz] at presS absS
  simp only [id] at presS absS
  -- the export
  obtain ⟨rowsE, SE⟩ := casRows_exportSpec P m0 key now validFor f c k w
  have hFE := loadInfo_exportSpec P m0 key now validFor f c k w hnow
  have hk : (exportSpec P m0 key now validFor f c k).footer.hmacKey = key := rfl
  have hcolE : ∀ Y ∈ keyedCas P key m0.cas, ∀ ch ∈ Y.chunks,
      trunc ch.hash = trunc (keyedHash P key q0) → ch.hash = keyedHash P key q0 := by
    intro Y' hY' ch' hch' htr
    obtain ⟨Y, hY, _, g⟩ := keyedCas_chunk_hash P key m0.cas Y' hY'
    obtain ⟨ch, hch, e⟩ := g ch' hch'
    rw [e] at htr ⊢
    rw [hc.keyed Y hY ch hch htr]
  have huE : UniquePos (keyedCas P key m0.cas) (keyedHash P key q0) := by
    intro Y1' hY1 Y2' hY2 i1 hi1 i2 hi2 e1 e2
    obtain ⟨Y1, hY1m, rfl⟩ := List.mem_map.mp hY1
    obtain ⟨Y2, hY2m, rfl⟩ := List.mem_map.mp hY2
    have hi1' : i1 < Y1.chunks.length := by simpa using hi1
    have hi2' : i2 < Y2.chunks.length := by simpa using hi2
    rw [keyedCas_getElem_hash P key Y1 i1 hi1' hi1] at e1
    rw [keyedCas_getElem_hash P key Y2 i2 hi2' hi2] at e2
    have a1 := hc.keyed Y1 hY1m _ (List.getElem_mem hi1') (by rw [e1])
    have a2 := hc.keyed Y2 hY2m _ (List.getElem_mem hi2') (by rw [e2])
    obtain ⟨rfl, rfl⟩ := hu Y1 hY1m Y2 hY2m i1 hi1' i2 hi2' a1 a2
    exact ⟨rfl, rfl⟩
  have hoffE : ∀ X ∈ keyedCas P key m0.cas, X.chunks.length ≤ u16Max + 1 := by
    intro X' hX'
    obtain ⟨X, hX, rfl⟩ := List.mem_map.mp hX'
    simpa using hoff X hX
  obtain ⟨presE, absE⟩ := dedup_after_register P hne hcap hFE SE hre hlen q0 qs hbase
    (by rw [hk]; exact hcolE) (by rw [hk]; exact huE) hoffE
  rw [hk] at presE absE
  by_cases hex : ∃ X ∈ m0.cas, ∃ j, ∃ hj : j < X.chunks.length, X.chunks[j].hash = q0
  · obtain ⟨X, hX, j, hj, hh⟩ := hex
    have hX' : keyCas P key X ∈ keyedCas P key m0.cas := List.mem_map.mpr ⟨X, hX, rfl⟩
    have hj' : j < (keyCas P key X).chunks.length := by simpa using hj
    rw [presS X hX j hj hh, presE (keyCas P key X) hX' j hj' (by rw [keyedCas_getElem_hash P key X j hj hj', hh]),
      directSpec_keyed P key X j (q0 :: qs)]
    intro ch hch qh hqh e
    rcases List.mem_cons.mp hqh with rfl | hqs
    · exact hc.keyed X hX ch hch (by rw [e])
    · exact hi X hX ch hch qh hqs e
  · have hno : ∀ Y ∈ m0.cas, ∀ ch ∈ Y.chunks, ch.hash ≠ q0 := by
      intro Y hY ch hch e
      obtain ⟨j, hj, rfl⟩ := List.getElem_of_mem hch
      exact hex ⟨Y, hY, j, hj, e⟩
    have hnoE : ∀ Y ∈ keyedCas P key m0.cas, ∀ ch ∈ Y.chunks, ch.hash ≠ keyedHash P key q0 := by
      intro Y' hY' ch' hch' e
      obtain ⟨Y, hY, _, g⟩ := keyedCas_chunk_hash P key m0.cas Y' hY'
      obtain ⟨ch, hch, e'⟩ := g ch' hch'
      rw [e'] at e
      exact hno Y hY ch hch (hc.keyed Y hY ch hch (by rw [e]))
    rw [absS hno, absE hnoE]

/-- **Dedup answers are preserved through the shard manager.**  For every well-formed `m0`, legal `t`, key, `now < 2^64`,
    validity and all eight flag combinations (with or without the file info, the CAS table, the chunk table): let `e`
    be what `export_as_keyed_shard_impl` produces from `serialize m0 t`.  For every manager state `M` that answers
    not-found to the unkeyed query `q0 :: qs` and has fewer than 2^16 shards per collection: registering `e` (new name,
    index below its cap) and registering the source shard instead give the **same** answer to `q0 :: qs` — the same
    `Some (n, fse)` or the same not-found — under `NoTruncCollision`, `NoDuplicateChunk`, `KeyedInjOn`, and chunk
    offsets `≤ u16::MAX`. -/
theorem C18_dedup_preserved_manager : C18_dedup_preserved_manager_statement := by
  intro P M Ms Me maxI ns ne m0 t key now validFor f c k e q0 qs w ht hnow hexp hns hne hcap hlen hbase hrs hre hc hu hi hoff
  rw [exportKeyed_serialize P m0 t w key now validFor f c k] at hexp
  have he : e = exportSpec P m0 key now validFor f c k := (Except.ok.inj hexp).symm
  subst he
  exact C18_dedup_preserved_manager_spec P M Ms Me maxI ns ne m0 t key now validFor f c k q0 qs w ht hnow hns hne hcap hlen hbase
    hrs hre hc hu hi hoff

/-- "an answer iff": the export's manager answers exactly when the source's manager does -/
theorem C18_dedup_preserved_manager_iff (P : HashPrims) (Ms Me : Mgr) (q : List Hash) (h : Me.dedup P q = Ms.dedup P q) :
    (∃ a, Me.dedup P q = .ok (some a)) ↔ (∃ a, Ms.dedup P q = .ok (some a)) := by rw [h]

/-- a fresh manager satisfies every hypothesis on `M` (any positive index cap, any names, any query) -/
theorem C18_fresh_manager (P : HashPrims) (maxI : Nat) (hmax : 0 < maxI) (n : Hash) (q : List Hash) :
    Mgr.init.registered.contains n = false ∧ Mgr.init.totalIndexed < maxI ∧
    (∀ c ∈ Mgr.init.colls, c.shards.length < u16Max + 1) ∧ Mgr.init.dedup P q = .ok none := by
  refine ⟨rfl, hmax, ?_, ?_⟩
  · intro c hc
    simp only [Mgr.init, List.mem_singleton] at hc
    subst hc; decide
  · cases q with
    | nil => rfl
    | cons q0 qs => rfl

/-- **Without the hypotheses both answers are truthful.**  In every reachable state over shard files (serialized
    well-formed contents and keyed exports with any of the eight flag combinations, `ShardFile`), at most 2^16 shards
    per collection: an answer names a block of the answering shard's content and is `Truthful` for it under the
    collection's key (`C05_manager_wf`); in *every* state an answer is what `C05_direct` guarantees (`C05_manager`). -/
theorem C18_manager_truthful (P : HashPrims) (m : Mgr) (hr : m.Reachable P)
    (hlen : ∀ c ∈ m.colls, c.shards.length ≤ u16Max + 1)
    (hfiles : ∀ c ∈ m.colls, ∀ s ∈ c.shards, ∃ cs, ShardFile P s cs)
    (q : List Hash) (a : DedupAnswer) (h : m.dedup P q = .ok (some a)) :
    (∃ q0 X start, (q0, X, start) ∈ m.mem.lookup ∧ q.head? = some q0 ∧ a.seg.cstart = start ∧
        Truthful id X.chunks X.hash q a) ∨
    ∃ c ∈ m.colls, ∃ s ∈ c.shards, ∃ cs, ShardFile P s cs ∧ s.footer.hmacKey = c.key ∧
      ∃ X ∈ cs, Truthful (keyedHash P c.key) X.chunks X.hash q a :=
  C05_manager_wf P m hr hlen hfiles q a h

/-- what `register_shards` reads from an export, for all eight flag combinations: a permutation of the section-order
    rows of the keyed blocks — from the chunk table when `k = true` (and the table is non-empty), from the scan of the
    CAS section when the chunk table was dropped -/
theorem C18_manager_rows (P : HashPrims) (m0 : Mem) (key : Hash) (now validFor : Nat) (f c k : Bool) (w : m0.WF) :
    ∃ rows, allTruncated (exportSpec P m0 key now validFor f c k).bytes (exportSpec P m0 key now validFor f c k).footer = .ok rows ∧
      rows.Perm (casSection 0 (keyedCas P key m0.cas)).chunkLookup := by
  obtain ⟨rows, S⟩ := casRows_exportSpec P m0 key now validFor f c k w
  exact ⟨rows, S.listed, S.perm⟩

/-! ## non-vacuity: a base manager with two collections; source vs keyed export (chunk table dropped / kept) -/

section Examples

attribute [local instance] decEqExcept

private def hX : Hash := ⟨11, 1, 2, 3⟩
private def cA : CasInfo := ⟨hX, 0, 3, 160, 120, [⟨⟨7, 1, 0, 0⟩, 100, 0, 0⟩, ⟨⟨8, 2, 0, 0⟩, 50, 100, 0⟩, ⟨⟨9, 0, 0, 1⟩, 10, 150, 0⟩]⟩
private def cB : CasInfo := ⟨⟨12, 1, 2, 4⟩, 0, 1, 5, 5, [⟨⟨10, 1, 0, 0⟩, 5, 0, 0⟩]⟩
private def exMem : Mem := ⟨[], [cA, cB]⟩
private def cC : CasInfo := ⟨⟨20, 0, 0, 0⟩, 0, 2, 30, 30, [⟨⟨30, 1, 0, 0⟩, 10, 0, 0⟩, ⟨⟨31, 1, 0, 0⟩, 20, 10, 0⟩]⟩
private def cD : CasInfo := ⟨⟨40, 0, 0, 0⟩, 0, 1, 8, 8, [⟨⟨41, 0, 0, 0⟩, 8, 0, 0⟩]⟩
private def exP : HashPrims := ⟨fun _ => Hash.zero, fun _ => Hash.zero, fun _ => Hash.zero,
  fun kb mb => ⟨(Hash.ofBytes mb).w0 + (Hash.ofBytes kb).w0, (Hash.ofBytes mb).w1, (Hash.ofBytes mb).w2, (Hash.ofBytes mb).w3⟩⟩
private def exKey : Hash := ⟨1000, 2, 3, 4⟩
private def exKey2 : Hash := ⟨5000, 0, 0, 0⟩
private def bSrc : Bytes := (serializeStable exMem).bytes
private def ofExcept (r : Except Err Mgr) : Mgr := match r with | .ok m => m | .error _ => Mgr.init
private def ofExport (r : Except Err Export) : Bytes := match r with | .ok e => e.bytes | .error _ => []
/-- the base manager: an unkeyed shard and a shard under another key — two collections that do not know the query -/
private def exBase : Mgr := ofExcept (Mgr.init.register 100
  [(⟨1, 0, 0, 0⟩, (serializeStable ⟨[], [cC]⟩).bytes), (⟨2, 0, 0, 0⟩, (exportSpec exP ⟨[], [cD]⟩ exKey2 7 7 false false true).bytes)])
/-- the real export, chunk table **dropped** (`k = false`) resp. kept -/
private def bExpNoTable : Bytes := ofExport (exportKeyed exP bSrc exKey 1000 3600 false true false)
private def bExpTable : Bytes := ofExport (exportKeyed exP bSrc exKey 1000 3600 true false true)
private def exS : Mgr := ofExcept (exBase.registerOne 100 ⟨3, 0, 0, 0⟩ bSrc)
private def exE : Mgr := ofExcept (exBase.registerOne 100 ⟨4, 0, 0, 0⟩ bExpNoTable)
private def exE' : Mgr := ofExcept (exBase.registerOne 100 ⟨4, 0, 0, 0⟩ bExpTable)
private def exQ : List Hash := [⟨8, 2, 0, 0⟩, ⟨9, 0, 0, 1⟩, ⟨99, 0, 0, 0⟩]

example : exMem.WF := by decide +kernel
/-- the three managers: source in collection 0; export in a new third collection, rows rebuilt by the scan
    (`k = false`) or read from the table (`k = true`) — same elements -/
example : exS.colls.map (fun c => (c.key, c.shards.length, c.lookup.map (·.1))) =
    [(Hash.zero, 2, [30, 31, 7, 8, 9, 10]), (exKey2, 1, [5041])] := by decide +kernel
example : exE.colls.map (fun c => (c.key, c.shards.length, c.lookup)) =
    [(Hash.zero, 1, [(30, ⟨0, 0, 0⟩), (31, ⟨0, 1, 0⟩)]), (exKey2, 1, [(5041, ⟨0, 0, 0⟩)]),
     (exKey, 1, [(1007, ⟨0, 0, 0⟩), (1008, ⟨0, 1, 0⟩), (1009, ⟨0, 2, 0⟩), (1010, ⟨4, 0, 0⟩)])] := by decide +kernel
example : exE'.colls.map (fun c => (c.key, c.shards.length, c.lookup)) =
    exE.colls.map (fun c => (c.key, c.shards.length, c.lookup)) := by decide +kernel
/-- the hypotheses of `C18_dedup_preserved_manager` on the content and on the base manager -/
example : NoTruncCollision exP exKey exMem ⟨8, 2, 0, 0⟩ := ⟨by decide +kernel, by decide +kernel⟩
example : NoDuplicateChunk exMem ⟨8, 2, 0, 0⟩ ∧ KeyedInjOn exP exKey exMem exQ.tail ∧
    (∀ X ∈ exMem.cas, X.chunks.length ≤ u16Max + 1) := by decide +kernel
example : exBase.dedup exP exQ = .ok none ∧ exBase.totalIndexed = 3 ∧
    exBase.colls.map (·.shards.length) = [1, 1] := by decide +kernel
/-- same answers through the manager: unkeyed query, source vs export without / with chunk table -/
example : exS.dedup exP exQ = .ok (some ⟨2, ⟨hX, 0, 60, 1, 3⟩⟩) ∧ exE.dedup exP exQ = .ok (some ⟨2, ⟨hX, 0, 60, 1, 3⟩⟩) ∧
    exE'.dedup exP exQ = .ok (some ⟨2, ⟨hX, 0, 60, 1, 3⟩⟩) := by decide +kernel
/-- a hash that is not stored: not-found on all three -/
example : exS.dedup exP [⟨77, 0, 0, 0⟩] = .ok none ∧ exE.dedup exP [⟨77, 0, 0, 0⟩] = .ok none ∧
    exE'.dedup exP [⟨77, 0, 0, 0⟩] = .ok none := by decide +kernel

/-- a formal instance of the theorem: fresh manager, chunk table dropped -/
example (Ms Me : Mgr) (hs : Mgr.init.registerOne 100 ⟨3, 0, 0, 0⟩ (serialize exMem (sortByKey (casSection 0 exMem.cas).chunkLookup)).bytes = .ok Ms)
    (he : Mgr.init.registerOne 100 ⟨4, 0, 0, 0⟩ (exportSpec exP exMem exKey 1000 3600 false true false).bytes = .ok Me) :
    Me.dedup exP exQ = Ms.dedup exP exQ := by
  obtain ⟨f1, f2, f3, f4⟩ := C18_fresh_manager exP 100 (by decide) ⟨3, 0, 0, 0⟩ exQ
  exact C18_dedup_preserved_manager_spec exP Mgr.init Ms Me 100 ⟨3, 0, 0, 0⟩ ⟨4, 0, 0, 0⟩ exMem _ exKey 1000 3600 false true false
    ⟨8, 2, 0, 0⟩ exQ.tail (by decide +kernel) (serializeStable_legal exMem) (by decide) f1 rfl f2 f3 f4 hs he
    ⟨by decide +kernel, by decide +kernel⟩ (by decide +kernel) (by decide +kernel) (by decide +kernel)

end Examples

end Xet.Shard
