/-
Helper lemmas for the shard-manager model (`XetModel/ShardManager.lean` = `mdb_shard/src/shard_file_manager.rs`):
  Part M.1  the per-collection lookup list (`lookupPut`, `lookupFind`, `insertRows`: last writer wins, offsets above
            `u16::MAX` skipped)
  Part M.2  `collIndex`, `setColl`, and what one `registerOne` does (`registerOne_cases`, `registerOne_new`)
  Part M.3  the query loop `dedupColls` as a first-answer fold of the per-collection query `collQuery`
  Part M.4  micro steps (change of the in-memory shard / one `registerOne`), the public steps, reachability,
            and the invariants of the bookkeeper (`CollKeyed`, `ShardsLoaded`, `RowsValid`, `Coll0Unkeyed`)
  Part M.5  `read_all_truncated_hashes` (`allTruncated`) on serialized and exported shards — chunk table or scan —
            (`CasRows`, `casRows_serialize`, `casRows_exportSpec`), and the shard files `ShardFile`
  Part M.6  completeness of the lookup: what a registration inserts (`owned_append`) and that it persists
            (`CollFollows`, `owned_microSteps`, `lookup_complete_core`, `lookup_complete_unkeyed`); `add_cas_block` + `flush`
  Part M.7  the query right after registering a shard file into a manager that answers not-found (`dedup_after_register`)
Core Lean only.
-/
import XetModel.ShardManager
import XetProofs.ShardExport
import XetProofs.ShardOps

namespace Xet.Shard

/-! ## Part M.1 — the lookup list -/

theorem lookupFind_nil (k : Nat) : lookupFind [] k = none := rfl

theorem lookupFind_cons (x : Nat × Elem) (l : List (Nat × Elem)) (k : Nat) :
    lookupFind (x :: l) k = if x.1 = k then some x.2 else lookupFind l k := by
  simp only [lookupFind, List.find?_cons]
  by_cases h : x.1 = k
  · simp [h]
  · have : (x.1 == k) = false := by simpa using h
    simp [h, this]

theorem lookupFind_some {l : List (Nat × Elem)} {k : Nat} {e : Elem} (h : lookupFind l k = some e) : (k, e) ∈ l := by
  induction l with
  | nil => cases h
  | cons x rest ih =>
    rw [lookupFind_cons] at h
    split at h
    · rename_i hk
      simp only [Option.some.injEq] at h
      obtain ⟨a, b⟩ := x
      simp only at hk h
      subst hk h
      exact List.mem_cons_self
    · exact List.mem_cons_of_mem _ (ih h)

theorem mem_lookupPut (l : List (Nat × Elem)) (k : Nat) (v : Elem) :
    ∀ x ∈ lookupPut l k v, x = (k, v) ∨ x ∈ l := by
  induction l with
  | nil => intro x hx; simp only [lookupPut, List.mem_singleton] at hx; exact Or.inl hx
  | cons y rest ih =>
    intro x hx
    simp only [lookupPut] at hx
    split at hx
    · rcases List.mem_cons.mp hx with h | h
      · exact Or.inl h
      · exact Or.inr (List.mem_cons_of_mem _ h)
    · rcases List.mem_cons.mp hx with h | h
      · exact Or.inr (by rw [h]; exact List.mem_cons_self)
      · rcases ih x h with h | h
        · exact Or.inl h
        · exact Or.inr (List.mem_cons_of_mem _ h)

theorem lookupFind_put_same (l : List (Nat × Elem)) (k : Nat) (v : Elem) : lookupFind (lookupPut l k v) k = some v := by
  induction l with
  | nil => simp [lookupPut, lookupFind_cons]
  | cons y rest ih =>
    simp only [lookupPut]
    split
    · simp [lookupFind_cons]
    · rename_i hne
      rw [lookupFind_cons, if_neg hne, ih]

theorem lookupFind_put_other (l : List (Nat × Elem)) (k : Nat) (v : Elem) (k' : Nat) (h : k' ≠ k) :
    lookupFind (lookupPut l k v) k' = lookupFind l k' := by
  induction l with
  | nil => simp [lookupPut, lookupFind_cons, lookupFind_nil, Ne.symm h]
  | cons y rest ih =>
    simp only [lookupPut]
    split
    · rename_i he
      rw [lookupFind_cons, lookupFind_cons, he]
      simp [Ne.symm h]
    · rw [lookupFind_cons, lookupFind_cons, ih]

/-- the element `register_shards` stores for a row of `read_all_truncated_hashes` of the shard with index `si` -/
def rowElem (si : Nat) (r : Nat × Nat × Nat) : Elem := ⟨r.2.1, r.2.2, si % (u16Max + 1)⟩

theorem insertRows_nil (l : List (Nat × Elem)) (si : Nat) : insertRows l si [] = l := rfl

theorem insertRows_cons (l : List (Nat × Elem)) (si : Nat) (r : Nat × Nat × Nat) (rest : List (Nat × Nat × Nat)) :
    insertRows l si (r :: rest) =
      if r.2.2 > u16Max then insertRows l si rest else insertRows (lookupPut l r.1 (rowElem si r)) si rest := by
  obtain ⟨h, cs, co⟩ := r
  rfl

/-- every element of the lookup after a registration is an old one or comes from a row with offset `≤ u16::MAX` -/
theorem mem_insertRows (si : Nat) (rows : List (Nat × Nat × Nat)) (l : List (Nat × Elem)) :
    ∀ x ∈ insertRows l si rows, x ∈ l ∨ ∃ r ∈ rows, r.2.2 ≤ u16Max ∧ x = (r.1, rowElem si r) := by
  induction rows generalizing l with
  | nil => intro x hx; exact Or.inl hx
  | cons r rest ih =>
    intro x hx
    rw [insertRows_cons] at hx
    split at hx
    · rcases ih l x hx with h | ⟨r', hr', g⟩
      · exact Or.inl h
      · exact Or.inr ⟨r', List.mem_cons_of_mem _ hr', g⟩
    · rename_i hco
      rcases ih _ x hx with h | ⟨r', hr', g⟩
      · rcases mem_lookupPut l _ _ x h with h | h
        · exact Or.inr ⟨r, List.mem_cons_self, by omega, h⟩
        · exact Or.inl h
      · exact Or.inr ⟨r', List.mem_cons_of_mem _ hr', g⟩

/-- a key none of whose rows is inserted keeps its element -/
theorem insertRows_find_none (si : Nat) (rows : List (Nat × Nat × Nat)) (l : List (Nat × Elem)) (k : Nat)
    (h : ∀ r ∈ rows, r.1 = k → u16Max < r.2.2) : lookupFind (insertRows l si rows) k = lookupFind l k := by
  induction rows generalizing l with
  | nil => rfl
  | cons r rest ih =>
    rw [insertRows_cons]
    have hrest : ∀ r' ∈ rest, r'.1 = k → u16Max < r'.2.2 := fun r' hr' => h r' (List.mem_cons_of_mem _ hr')
    split
    · exact ih l hrest
    · rename_i hco
      rw [ih _ hrest]
      apply lookupFind_put_other
      intro hk
      exact hco (h r List.mem_cons_self hk.symm)

/-- a key with an insertable row ends up with the element of one of its insertable rows (the last one) -/
theorem insertRows_find_some (si : Nat) (rows : List (Nat × Nat × Nat)) (l : List (Nat × Elem)) (k : Nat)
    (h : ∃ r ∈ rows, r.1 = k ∧ r.2.2 ≤ u16Max) :
    ∃ r ∈ rows, r.1 = k ∧ r.2.2 ≤ u16Max ∧ lookupFind (insertRows l si rows) k = some (rowElem si r) := by
  induction rows generalizing l with
  | nil => obtain ⟨r, hr, _⟩ := h; cases hr
  | cons r rest ih =>
    by_cases hex : ∃ r' ∈ rest, r'.1 = k ∧ r'.2.2 ≤ u16Max
    · rw [insertRows_cons]
      split
      · obtain ⟨r', hr', g⟩ := ih l hex
        exact ⟨r', List.mem_cons_of_mem _ hr', g⟩
      · obtain ⟨r', hr', g⟩ := ih (lookupPut l r.1 (rowElem si r)) hex
        exact ⟨r', List.mem_cons_of_mem _ hr', g⟩
    · obtain ⟨r0, hr0, hk0, hc0⟩ := h
      rcases List.mem_cons.mp hr0 with rfl | hr0
      · refine ⟨r0, List.mem_cons_self, hk0, hc0, ?_⟩
        rw [insertRows_cons, if_neg (by omega)]
        rw [insertRows_find_none si rest _ k (by
          intro r' hr' hk'
          by_cases hc : r'.2.2 ≤ u16Max
          · exact absurd ⟨r', hr', hk', hc⟩ hex
          · omega)]
        rw [hk0]; exact lookupFind_put_same _ _ _
      · exact absurd ⟨r0, hr0, hk0, hc0⟩ hex

/-! ## Part M.2 — `collIndex`, `setColl`, one `registerOne` -/

theorem setColl_eq_set (colls : List Coll) (i : Nat) (c : Coll) : setColl colls i c = colls.set i c := by
  apply List.ext_getElem?
  intro j
  simp only [setColl, List.getElem?_map, List.getElem?_zipIdx, List.getElem?_set]
  by_cases hj : i = j
  · subst hj
    cases h : colls[i]? with
    | none => simp [List.getElem?_eq_none_iff.mp h |> Nat.not_lt.mpr]
    | some x =>
      have := (List.getElem?_eq_some_iff.mp h).1
      simp [this]
  · cases h : colls[j]? with
    | none => simp [hj]
    | some x => simp [hj, Ne.symm hj]

theorem collIndex_some {colls : List Coll} {key : Hash} {i : Nat} (h : collIndex colls key = some i) :
    ∃ c, colls[i]? = some c ∧ c.key = key := by
  obtain ⟨hi, hp, _⟩ := List.findIdx?_eq_some_iff_getElem.mp h
  exact ⟨colls[i], List.getElem?_eq_getElem hi, by simpa using hp⟩

theorem collIndex_append_new {colls : List Coll} {key : Hash} (h : collIndex colls key = none) :
    collIndex (colls ++ [⟨key, [], []⟩]) key = some colls.length := by
  unfold collIndex at h ⊢
  rw [List.findIdx?_append, h]
  simp [List.findIdx?_cons]

/-- the state after registering a new shard `⟨name, b, ft⟩` into collection `ci` of `colls` with the lookup `lk` -/
def regResult (m : Mgr) (colls : List Coll) (ci : Nat) (c : Coll) (s : RegShard) (lk : List (Nat × Elem)) (ti : Nat) : Mgr :=
  ⟨m.mem, colls.set ci ⟨c.key, c.shards ++ [s], lk⟩, m.registered ++ [s.name], ti⟩

/-- the part of `registerOne` after the collection list has been fixed -/
def regBody (maxIndexed : Nat) (m : Mgr) (name : Hash) (b : Bytes) (ft : Footer) (colls : List Coll) : Except Err Mgr :=
    let ci := (collIndex colls ft.hmacKey).getD 0
    match colls[ci]? with
    | none => .error .internal
    | some c =>
      let shardIdx := c.shards.length
      if m.totalIndexed < maxIndexed then
        match allTruncated b ft with
        | .error e => .error e
        | .ok rows =>
          let lk := insertRows c.lookup shardIdx rows
          .ok ⟨m.mem, setColl colls ci ⟨c.key, c.shards ++ [⟨name, b, ft⟩], lk⟩, m.registered ++ [name],
               m.totalIndexed + (lk.length - c.lookup.length)⟩
      else .ok ⟨m.mem, setColl colls ci ⟨c.key, c.shards ++ [⟨name, b, ft⟩], c.lookup⟩, m.registered ++ [name], m.totalIndexed⟩

/-- **what one iteration of `register_shards` does**: nothing for an already registered name; otherwise the footer
    is loaded, the collection of the footer's key is found (or appended, empty), the shard is appended to that
    collection, and its lookup is either left alone (index table at its cap) or receives the shard's rows. -/
theorem registerOne_cases {maxI : Nat} {m : Mgr} {name : Hash} {b : Bytes} {m' : Mgr}
    (h : m.registerOne maxI name b = .ok m') :
    m' = m ∨ ∃ ft colls ci c lk ti, loadInfo b = .ok ft ∧
      (colls = m.colls ∨ colls = m.colls ++ [⟨ft.hmacKey, [], []⟩]) ∧
      colls[ci]? = some c ∧ c.key = ft.hmacKey ∧
      (lk = c.lookup ∨ (m.totalIndexed < maxI ∧ ∃ rows, allTruncated b ft = .ok rows ∧ lk = insertRows c.lookup c.shards.length rows)) ∧
      m' = regResult m colls ci c ⟨name, b, ft⟩ lk ti := by
  unfold Mgr.registerOne at h
  split at h
  · left; cases h; rfl
  · right
    split at h
    · cases h
    · rename_i ft hft
      simp only at h
      -- the collection list and the index
      have hcol : ∃ colls ci, (colls = m.colls ∨ colls = m.colls ++ [⟨ft.hmacKey, [], []⟩]) ∧
          collIndex colls ft.hmacKey = some ci ∧ regBody maxI m name b ft colls = .ok m' := by
        cases hc : collIndex m.colls ft.hmacKey with
        | some i => rw [hc] at h; exact ⟨m.colls, i, Or.inl rfl, hc, h⟩
        | none => rw [hc] at h; exact ⟨_, m.colls.length, Or.inr rfl, collIndex_append_new hc, h⟩
      obtain ⟨colls, ci, hcolls', e2, h⟩ := hcol
      unfold regBody at h
      rw [e2] at h
      simp only [Option.getD_some] at h
      obtain ⟨c, hc, hk⟩ := collIndex_some e2
      rw [hc] at h
      simp only at h
      split at h
      · rename_i hcap
        split at h
        · cases h
        · rename_i rows hrows
          simp only [Except.ok.injEq] at h
          refine ⟨ft, colls, ci, c, insertRows c.lookup c.shards.length rows,
            m.totalIndexed + ((insertRows c.lookup c.shards.length rows).length - c.lookup.length),
            hft, hcolls', hc, hk, Or.inr ⟨hcap, rows, hrows, rfl⟩, ?_⟩
          rw [← h, setColl_eq_set]; rfl
      · simp only [Except.ok.injEq] at h
        refine ⟨ft, colls, ci, c, c.lookup, m.totalIndexed, hft, hcolls', hc, hk, Or.inl rfl, ?_⟩
        rw [← h, setColl_eq_set]; rfl

/-! ## Part M.3 — the query loop -/

/-- what one collection contributes to `chunk_hash_dedup_query`: nothing when the (keyed) truncated first hash is
    not in its table; otherwise the direct query on the shard the element names, at the element's position -/
def collQuery (P : HashPrims) (q0 : Hash) (q : List Hash) (c : Coll) : Except Err (Option DedupAnswer) :=
  match lookupFind c.lookup (trunc (keyedHash P c.key q0)) with
  | none => .ok none
  | some e =>
    match c.shards[e.shardIdx]? with
    | none => .error .internal
    | some s => dedupDirect P s.bytes s.footer q e.casStart e.chunkOff

theorem dedupColls_cons (P : HashPrims) (q0 : Hash) (qs : List Hash) (c : Coll) (rest : List Coll) :
    dedupColls P (q0 :: qs) (c :: rest) =
      match collQuery P q0 (q0 :: qs) c with
      | .error e => .error e
      | .ok (some a) => .ok (some a)
      | .ok none => dedupColls P (q0 :: qs) rest := by
  simp only [dedupColls, collQuery]
  cases lookupFind c.lookup (trunc (keyedHash P c.key q0)) with
  | none => rfl
  | some e =>
    simp only
    cases c.shards[e.shardIdx]? with
    | none => rfl
    | some s =>
      simp only
      cases dedupDirect P s.bytes s.footer (q0 :: qs) e.casStart e.chunkOff with
      | error er => rfl
      | ok r => cases r <;> rfl

/-- an answer of the loop is the answer of one collection -/
theorem dedupColls_some (P : HashPrims) (q : List Hash) (colls : List Coll) (a : DedupAnswer)
    (h : dedupColls P q colls = .ok (some a)) :
    ∃ q0 qs, q = q0 :: qs ∧ ∃ c ∈ colls, collQuery P q0 q c = .ok (some a) := by
  cases q with
  | nil => cases colls <;> simp [dedupColls] at h
  | cons q0 qs =>
    refine ⟨q0, qs, rfl, ?_⟩
    induction colls with
    | nil => simp [dedupColls] at h
    | cons c rest ih =>
      rw [dedupColls_cons] at h
      split at h
      · cases h
      · rename_i a' ha'
        simp only [Except.ok.injEq, Option.some.injEq] at h
        subst h
        exact ⟨c, List.mem_cons_self, ha'⟩
      · obtain ⟨c', hc', g⟩ := ih h
        exact ⟨c', List.mem_cons_of_mem _ hc', g⟩

/-- the loop answers not-found exactly when every collection does (in order, no error before) -/
theorem dedupColls_none_of (P : HashPrims) (q0 : Hash) (qs : List Hash) (colls : List Coll)
    (h : ∀ c ∈ colls, collQuery P q0 (q0 :: qs) c = .ok none) : dedupColls P (q0 :: qs) colls = .ok none := by
  induction colls with
  | nil => rfl
  | cons c rest ih =>
    rw [dedupColls_cons, h c List.mem_cons_self]
    exact ih (fun c' hc' => h c' (List.mem_cons_of_mem _ hc'))

theorem dedupColls_none_iff (P : HashPrims) (q0 : Hash) (qs : List Hash) (colls : List Coll) :
    dedupColls P (q0 :: qs) colls = .ok none ↔ ∀ c ∈ colls, collQuery P q0 (q0 :: qs) c = .ok none := by
  refine ⟨?_, dedupColls_none_of P q0 qs colls⟩
  induction colls with
  | nil => intro _ c hc; cases hc
  | cons c rest ih =>
    intro h c' hc'
    rw [dedupColls_cons] at h
    split at h
    · cases h
    · cases h
    · rename_i hn
      rcases List.mem_cons.mp hc' with rfl | hc'
      · exact hn
      · exact ih h c' hc'

/-- the first collection that answers decides, provided the ones before it answer not-found -/
theorem dedupColls_first (P : HashPrims) (q0 : Hash) (qs : List Hash) (pre : List Coll) (c : Coll) (post : List Coll)
    (a : DedupAnswer) (hpre : ∀ c' ∈ pre, collQuery P q0 (q0 :: qs) c' = .ok none)
    (hc : collQuery P q0 (q0 :: qs) c = .ok (some a)) : dedupColls P (q0 :: qs) (pre ++ c :: post) = .ok (some a) := by
  induction pre with
  | nil => simp only [List.nil_append]; rw [dedupColls_cons, hc]
  | cons p rest ih =>
    simp only [List.cons_append]
    rw [dedupColls_cons, hpre p List.mem_cons_self]
    exact ih (fun c' hc' => hpre c' (List.mem_cons_of_mem _ hc'))

/-- an answer of one collection comes from `chunk_hash_dedup_query_direct` on one of its shards at a table element -/
theorem collQuery_some (P : HashPrims) (q0 : Hash) (q : List Hash) (c : Coll) (a : DedupAnswer)
    (h : collQuery P q0 q c = .ok (some a)) :
    ∃ e s, (trunc (keyedHash P c.key q0), e) ∈ c.lookup ∧ c.shards[e.shardIdx]? = some s ∧
      dedupDirect P s.bytes s.footer q e.casStart e.chunkOff = .ok (some a) := by
  unfold collQuery at h
  split at h
  · cases h
  · rename_i e he
    split at h
    · cases h
    · rename_i s hs
      exact ⟨e, s, lookupFind_some he, hs, h⟩

/-- `chunk_hash_dedup_query` of the manager: the in-memory answer, or the first collection's -/
theorem Mgr.dedup_some (P : HashPrims) (m : Mgr) (q : List Hash) (a : DedupAnswer) (h : m.dedup P q = .ok (some a)) :
    m.mem.dedup q = some a ∨
    (m.mem.dedup q = none ∧ ∃ q0 qs, q = q0 :: qs ∧ ∃ c ∈ m.colls, ∃ e s,
      (trunc (keyedHash P c.key q0), e) ∈ c.lookup ∧ c.shards[e.shardIdx]? = some s ∧
      dedupDirect P s.bytes s.footer q e.casStart e.chunkOff = .ok (some a)) := by
  unfold Mgr.dedup at h
  split at h
  · rename_i a' ha'
    simp only [Except.ok.injEq, Option.some.injEq] at h
    subst h
    exact Or.inl ha'
  · rename_i hn
    split at h
    · cases h
    · obtain ⟨q0, qs, hq, c, hc, g⟩ := dedupColls_some P q m.colls a h
      obtain ⟨e, s, g1, g2, g3⟩ := collQuery_some P q0 q c a g
      exact Or.inr ⟨hn, q0, qs, hq, c, hc, e, s, g1, g2, g3⟩

/-! ## Part M.4 — steps, reachability, invariants of the bookkeeper -/

/-- a micro step: the in-memory shard changes (bookkeeper untouched), or one shard is registered -/
inductive Mgr.Micro : Mgr → Mgr → Prop
  | setMem (m : Mgr) (x : MemShard) : Micro m { m with mem := x }
  | reg {m m' : Mgr} (maxI : Nat) (name : Hash) (b : Bytes) : m.registerOne maxI name b = .ok m' → Micro m m'

inductive Mgr.MicroSteps : Mgr → Mgr → Prop
  | refl (m : Mgr) : MicroSteps m m
  | tail {a b c : Mgr} : MicroSteps a b → Mgr.Micro b c → MicroSteps a c

theorem Mgr.MicroSteps.single {a b : Mgr} (h : Mgr.Micro a b) : Mgr.MicroSteps a b := .tail (.refl a) h

theorem Mgr.MicroSteps.trans {a b c : Mgr} (h1 : Mgr.MicroSteps a b) (h2 : Mgr.MicroSteps b c) : Mgr.MicroSteps a c := by
  induction h2 with
  | refl => exact h1
  | tail _ hs ih => exact .tail ih hs

theorem Mgr.MicroSteps.head {a b c : Mgr} (h1 : Mgr.Micro a b) (h2 : Mgr.MicroSteps b c) : Mgr.MicroSteps a c :=
  (Mgr.MicroSteps.single h1).trans h2

/-- the public operations of `ShardFileManager` that change its state; the index cap (`CHUNK_INDEX_TABLE_MAX_SIZE`)
    and the flush threshold (`target_shard_min_size`) may be different at every step -/
inductive Mgr.Step (P : HashPrims) : Mgr → Mgr → Prop
  | addCas {m m' : Mgr} (maxI minSize : Nat) (c : CasInfo) : m.addCas P maxI minSize c = .ok m' → Step P m m'
  | addFile {m m' : Mgr} (maxI minSize : Nat) (f : FileInfo) : m.addFile P maxI minSize f = .ok m' → Step P m m'
  | flush {m m' : Mgr} (maxI : Nat) : m.flush P maxI = .ok m' → Step P m m'
  | register {m m' : Mgr} (maxI : Nat) (l : List (Hash × Bytes)) : m.register maxI l = .ok m' → Step P m m'

inductive Mgr.Steps (P : HashPrims) : Mgr → Mgr → Prop
  | refl (m : Mgr) : Steps P m m
  | tail {a b c : Mgr} : Steps P a b → Mgr.Step P b c → Steps P a c

/-- states reachable from a fresh manager by any sequence of `add_cas_block`, `add_file_reconstruction_info`,
    `flush`, `register_shards` (any arguments, any shard bytes) -/
def Mgr.Reachable (P : HashPrims) (m : Mgr) : Prop := Mgr.Steps P Mgr.init m

theorem Mgr.register_micro {maxI : Nat} {l : List (Hash × Bytes)} {m m' : Mgr} (h : m.register maxI l = .ok m') :
    Mgr.MicroSteps m m' := by
  induction l generalizing m with
  | nil => simp only [Mgr.register, Except.ok.injEq] at h; subst h; exact .refl _
  | cons x rest ih =>
    obtain ⟨n, b⟩ := x
    simp only [Mgr.register] at h
    split at h
    · cases h
    · rename_i m1 h1
      exact .head (.reg maxI n b h1) (ih h)

theorem Mgr.flush_micro {P : HashPrims} {maxI : Nat} {m m' : Mgr} (h : m.flush P maxI = .ok m') : Mgr.MicroSteps m m' := by
  unfold Mgr.flush at h
  split at h
  · simp only [Except.ok.injEq] at h; subst h; exact .refl _
  · exact .head (.setMem m MemShard.empty) (.single (.reg maxI _ _ h))

theorem Mgr.Step.micro {P : HashPrims} {m m' : Mgr} (h : Mgr.Step P m m') : Mgr.MicroSteps m m' := by
  cases h with
  | addCas maxI minSize c h =>
    unfold Mgr.addCas at h
    simp only at h
    split at h
    · exact .head (.setMem m (m.mem.addCas c)) (Mgr.flush_micro h)
    · simp only [Except.ok.injEq] at h; subst h; exact .single (.setMem m _)
  | addFile maxI minSize f h =>
    unfold Mgr.addFile at h
    simp only at h
    split at h
    · exact .head (.setMem m (m.mem.addFile f)) (Mgr.flush_micro h)
    · simp only [Except.ok.injEq] at h; subst h; exact .single (.setMem m _)
  | flush maxI h => exact Mgr.flush_micro h
  | register maxI l h => exact Mgr.register_micro h

theorem Mgr.Steps.micro {P : HashPrims} {m m' : Mgr} (h : Mgr.Steps P m m') : Mgr.MicroSteps m m' := by
  induction h with
  | refl => exact .refl _
  | tail _ hs ih => exact ih.trans hs.micro

/-- induction principle for properties of the bookkeeper: insensitive to the in-memory shard, preserved by one registration -/
theorem Mgr.MicroSteps.preserves {I : Mgr → Prop} (hmem : ∀ m x, I m → I { m with mem := x })
    (hreg : ∀ m maxI name b m', I m → m.registerOne maxI name b = .ok m' → I m') {a b : Mgr} (h : Mgr.MicroSteps a b) :
    I a → I b := by
  induction h with
  | refl => exact id
  | tail _ hs ih =>
    intro ha
    cases hs with
    | setMem x => exact hmem _ x (ih ha)
    | reg maxI name bb hr => exact hreg _ maxI name bb _ (ih ha) hr

/-! ### the in-memory shard of a reachable manager is a reachable in-memory shard -/

theorem Mgr.registerOne_mem {maxI : Nat} {m : Mgr} {name : Hash} {b : Bytes} {m' : Mgr}
    (h : m.registerOne maxI name b = .ok m') : m'.mem = m.mem := by
  rcases registerOne_cases h with rfl | ⟨ft, colls, ci, c, lk, ti, _, _, _, _, _, rfl⟩
  · rfl
  · rfl

theorem Mgr.register_mem {maxI : Nat} {l : List (Hash × Bytes)} {m m' : Mgr} (h : m.register maxI l = .ok m') :
    m'.mem = m.mem := by
  induction l generalizing m with
  | nil => simp only [Mgr.register, Except.ok.injEq] at h; subst h; rfl
  | cons x rest ih =>
    obtain ⟨n, b⟩ := x
    simp only [Mgr.register] at h
    split at h
    · cases h
    · rename_i m1 h1
      rw [ih h, Mgr.registerOne_mem h1]

theorem Mgr.flush_mem {P : HashPrims} {maxI : Nat} {m m' : Mgr} (h : m.flush P maxI = .ok m') :
    m'.mem = m.mem ∨ m'.mem = MemShard.empty := by
  unfold Mgr.flush at h
  split at h
  · simp only [Except.ok.injEq] at h; subst h; exact Or.inl rfl
  · exact Or.inr (Mgr.registerOne_mem h)

theorem Mgr.Step.mem_reachable {P : HashPrims} {m m' : Mgr} (h : Mgr.Step P m m') (hm : m.mem.Reachable) : m'.mem.Reachable := by
  cases h with
  | addCas maxI minSize c h =>
    unfold Mgr.addCas at h
    simp only at h
    split at h
    · rcases Mgr.flush_mem h with e | e
      · rw [e]; exact .addCas c hm
      · rw [e]; exact .empty
    · simp only [Except.ok.injEq] at h; subst h; exact .addCas c hm
  | addFile maxI minSize f h =>
    unfold Mgr.addFile at h
    simp only at h
    split at h
    · rcases Mgr.flush_mem h with e | e
      · rw [e]; exact .addFile f hm
      · rw [e]; exact .empty
    · simp only [Except.ok.injEq] at h; subst h; exact .addFile f hm
  | flush maxI h =>
    rcases Mgr.flush_mem h with e | e
    · rw [e]; exact hm
    · rw [e]; exact .empty
  | register maxI l h => rw [Mgr.register_mem h]; exact hm

theorem Mgr.Reachable.mem {P : HashPrims} {m : Mgr} (h : m.Reachable P) : m.mem.Reachable := by
  unfold Mgr.Reachable at h
  induction h with
  | refl => exact .empty
  | tail _ hs ih => exact hs.mem_reachable ih

/-! ### per-collection invariants -/

/-- a property of every collection that holds of an empty collection and survives appending the registered shard
    (with the lookup left alone or extended by the shard's rows) holds after `registerOne` -/
theorem registerOne_coll_inv {Q : Coll → Prop} {maxI : Nat} {m : Mgr} {name : Hash} {b : Bytes} {m' : Mgr}
    (h : m.registerOne maxI name b = .ok m') (hQ : ∀ c ∈ m.colls, Q c) (hnew : ∀ key, Q ⟨key, [], []⟩)
    (hstep : ∀ c ft lk, Q c → loadInfo b = .ok ft → c.key = ft.hmacKey →
      (lk = c.lookup ∨ ∃ rows, allTruncated b ft = .ok rows ∧ lk = insertRows c.lookup c.shards.length rows) →
      Q ⟨c.key, c.shards ++ [⟨name, b, ft⟩], lk⟩) :
    ∀ c ∈ m'.colls, Q c := by
  rcases registerOne_cases h with rfl | ⟨ft, colls, ci, c, lk, ti, hft, hcolls, hc, hk, hlk, rfl⟩
  · exact hQ
  · have hQc : ∀ x ∈ colls, Q x := by
      rcases hcolls with rfl | rfl
      · exact hQ
      · intro x hx
        rcases List.mem_append.mp hx with hx | hx
        · exact hQ x hx
        · simp only [List.mem_singleton] at hx; subst hx; exact hnew _
    intro x hx
    simp only [regResult] at hx
    rcases List.mem_or_eq_of_mem_set hx with hx | rfl
    · exact hQc x hx
    · apply hstep c ft lk (hQc c (List.mem_of_getElem? hc)) hft hk
      rcases hlk with e | ⟨_, rows, hr, e⟩
      · exact Or.inl e
      · exact Or.inr ⟨rows, hr, e⟩

/-- **`CollKeyed`**: every shard of a collection carries the collection's HMAC key in its footer -/
def CollKeyed (m : Mgr) : Prop := ∀ c ∈ m.colls, ∀ s ∈ c.shards, s.footer.hmacKey = c.key

/-- every registered shard's footer is what `load_from_reader` returned for its bytes -/
def ShardsLoaded (m : Mgr) : Prop := ∀ c ∈ m.colls, ∀ s ∈ c.shards, loadInfo s.bytes = .ok s.footer

/-- the lookup elements of one collection address existing shards and rows of their truncated-hash listing
    (given that the collection holds at most 2^16 shards, so that `shard_index as u16` did not wrap) -/
def CollRowsValid (c : Coll) : Prop :=
  c.shards.length ≤ u16Max + 1 → ∀ x ∈ c.lookup, x.2.chunkOff ≤ u16Max ∧ ∃ s, c.shards[x.2.shardIdx]? = some s ∧
    ∃ rows, allTruncated s.bytes s.footer = .ok rows ∧ (x.1, x.2.casStart, x.2.chunkOff) ∈ rows

/-- **`RowsValid`** -/
def RowsValid (m : Mgr) : Prop := ∀ c ∈ m.colls, CollRowsValid c

/-- collection 0 exists and is the unkeyed one -/
def Coll0Unkeyed (m : Mgr) : Prop := ∃ c0, m.colls[0]? = some c0 ∧ c0.key = Hash.zero

theorem collKeyed_registerOne {maxI : Nat} {m : Mgr} {name : Hash} {b : Bytes} {m' : Mgr}
    (h : m.registerOne maxI name b = .ok m') (hi : CollKeyed m) : CollKeyed m' := by
  apply registerOne_coll_inv (Q := fun c => ∀ s ∈ c.shards, s.footer.hmacKey = c.key) h hi
  · intro key s hs; cases hs
  · intro c ft lk hc _ hk _ s hs
    rcases List.mem_append.mp hs with hs | hs
    · exact hc s hs
    · simp only [List.mem_singleton] at hs; subst hs; exact hk.symm

theorem shardsLoaded_registerOne {maxI : Nat} {m : Mgr} {name : Hash} {b : Bytes} {m' : Mgr}
    (h : m.registerOne maxI name b = .ok m') (hi : ShardsLoaded m) : ShardsLoaded m' := by
  apply registerOne_coll_inv (Q := fun c => ∀ s ∈ c.shards, loadInfo s.bytes = .ok s.footer) h hi
  · intro key s hs; cases hs
  · intro c ft lk hc hft _ _ s hs
    rcases List.mem_append.mp hs with hs | hs
    · exact hc s hs
    · simp only [List.mem_singleton] at hs; subst hs; exact hft

theorem rowElem_shardIdx (si : Nat) (r : Nat × Nat × Nat) (h : si < u16Max + 1) : (rowElem si r).shardIdx = si :=
  Nat.mod_eq_of_lt h

theorem rowsValid_registerOne {maxI : Nat} {m : Mgr} {name : Hash} {b : Bytes} {m' : Mgr}
    (h : m.registerOne maxI name b = .ok m') (hi : RowsValid m) : RowsValid m' := by
  apply registerOne_coll_inv (Q := CollRowsValid) h hi
  · intro key _ x hx; cases hx
  · intro c ft lk hc _ _ hlk hlen x hx
    simp only [List.length_append, List.length_singleton] at hlen
    have hold : ∀ x ∈ c.lookup, x.2.chunkOff ≤ u16Max ∧ ∃ s, (c.shards ++ [⟨name, b, ft⟩])[x.2.shardIdx]? = some s ∧
        ∃ rows, allTruncated s.bytes s.footer = .ok rows ∧ (x.1, x.2.casStart, x.2.chunkOff) ∈ rows := by
      intro x hx
      obtain ⟨g1, s, g2, g3⟩ := hc (by omega) x hx
      refine ⟨g1, s, ?_, g3⟩
      rw [List.getElem?_append_left (List.getElem?_eq_some_iff.mp g2).1]; exact g2
    rcases hlk with rfl | ⟨rows, hrows, rfl⟩
    · exact hold x hx
    · rcases mem_insertRows _ rows _ x hx with hx | ⟨r, hr, hco, rfl⟩
      · exact hold x hx
      · refine ⟨hco, ⟨name, b, ft⟩, ?_, rows, hrows, hr⟩
        show (c.shards ++ [_])[(rowElem c.shards.length r).shardIdx]? = _
        rw [rowElem_shardIdx _ _ (by omega)]
        simp

theorem coll0Unkeyed_registerOne {maxI : Nat} {m : Mgr} {name : Hash} {b : Bytes} {m' : Mgr}
    (h : m.registerOne maxI name b = .ok m') (hi : Coll0Unkeyed m) : Coll0Unkeyed m' := by
  rcases registerOne_cases h with rfl | ⟨ft, colls, ci, c, lk, ti, hft, hcolls, hc, hk, hlk, rfl⟩
  · exact hi
  · obtain ⟨c0, h0, hk0⟩ := hi
    have h0' : colls[0]? = some c0 := by
      rcases hcolls with rfl | rfl
      · exact h0
      · rw [List.getElem?_append_left (List.getElem?_eq_some_iff.mp h0).1]; exact h0
    simp only [Coll0Unkeyed, regResult, List.getElem?_set]
    by_cases hci : ci = 0
    · subst hci
      rw [h0'] at hc
      cases hc
      have : 0 < colls.length := (List.getElem?_eq_some_iff.mp h0').1
      simp [this, hk0]
    · simp [hci, h0', hk0]

/-- the invariants of the bookkeeper, bundled -/
structure Mgr.Inv (m : Mgr) : Prop where
  keyed : CollKeyed m
  loaded : ShardsLoaded m
  rows : RowsValid m
  coll0 : Coll0Unkeyed m

theorem Mgr.init_inv : Mgr.init.Inv := by
  refine ⟨?_, ?_, ?_, ⟨⟨Hash.zero, [], []⟩, rfl, rfl⟩⟩
  · intro c hc s hs
    simp only [Mgr.init, List.mem_singleton] at hc; subst hc; cases hs
  · intro c hc s hs
    simp only [Mgr.init, List.mem_singleton] at hc; subst hc; cases hs
  · intro c hc _ x hx
    simp only [Mgr.init, List.mem_singleton] at hc; subst hc; cases hx

theorem Mgr.Inv.registerOne {maxI : Nat} {m : Mgr} {name : Hash} {b : Bytes} {m' : Mgr}
    (hi : m.Inv) (h : m.registerOne maxI name b = .ok m') : m'.Inv :=
  ⟨collKeyed_registerOne h hi.keyed, shardsLoaded_registerOne h hi.loaded, rowsValid_registerOne h hi.rows,
   coll0Unkeyed_registerOne h hi.coll0⟩

theorem Mgr.Inv.setMem {m : Mgr} (hi : m.Inv) (x : MemShard) : ({ m with mem := x } : Mgr).Inv :=
  ⟨hi.keyed, hi.loaded, hi.rows, hi.coll0⟩

theorem Mgr.MicroSteps.inv {a b : Mgr} (h : Mgr.MicroSteps a b) (hi : a.Inv) : b.Inv :=
  h.preserves (I := Mgr.Inv) (fun _ x hm => hm.setMem x) (fun _ _ _ _ _ hm hr => hm.registerOne hr) hi

theorem Mgr.Reachable.inv {P : HashPrims} {m : Mgr} (h : m.Reachable P) : m.Inv :=
  (Mgr.Steps.micro h).inv Mgr.init_inv

/-! ## Part M.5 — `read_all_truncated_hashes` on serialized and exported shards -/

/-- the fuel `len / 48 + 1` of the scan exceeds the number of blocks of a CAS section lying inside the bytes -/
theorem scan_fuel {b : Bytes} {off : Nat} {cs : List CasInfo} (h : At b off ((casSection 0 cs).bytes ++ bookend)) :
    cs.length < b.length / recSize + 1 := by
  have h1 := h.le
  have h2 := casSection_bytes_length 0 cs
  have h3 := length_le_sumMap (fun c : CasInfo => 1 + c.chunks.length) cs (by intro x _; omega)
  simp only [List.length_append, bookend_length] at h1
  have : cs.length * recSize ≤ b.length := by
    simp only [recSize] at h2 ⊢; omega
  have := (Nat.le_div_iff_mul_le (by decide : 0 < recSize)).mpr this
  omega

/-- `b` (with footer `ft`) holds the well-formed blocks `cs` as its CAS section and `read_all_truncated_hashes`
    lists exactly their chunk rows (from the chunk table, or — when the table is absent — by scanning) -/
structure CasRows (b : Bytes) (ft : Footer) (cs : List CasInfo) (rows : List (Nat × Nat × Nat)) : Prop where
  sect : At b (ft.casInfoOff + recSize * 0) (casSection 0 cs).bytes
  wf : ∀ X ∈ cs, X.WF
  listed : allTruncated b ft = .ok rows
  perm : rows.Perm (casSection 0 cs).chunkLookup

theorem CasRows.row_sound {b ft cs rows} (S : CasRows b ft cs rows) :
    ∀ e ∈ rows, ∃ X ∈ cs, At b (ft.casInfoOff + recSize * e.2.1) X.bytes ∧ ∃ h : e.2.2 < X.chunks.length,
      e.1 = trunc X.chunks[e.2.2].hash := by
  intro e he
  obtain ⟨X, hX, g1, g2, g3⟩ := casSection_entry _ cs 0 S.sect e (S.perm.mem_iff.mp he)
  refine ⟨X, hX, g1, g2, ?_⟩
  rw [g3]; simp [g2]

theorem CasRows.row_complete {b ft cs rows} (S : CasRows b ft cs rows) :
    ∀ X ∈ cs, ∀ j (hj : j < X.chunks.length), ∃ e ∈ rows,
      At b (ft.casInfoOff + recSize * e.2.1) X.bytes ∧ e.2.2 = j ∧ e.1 = trunc X.chunks[j].hash := by
  intro X hX j hj
  obtain ⟨e, he, g⟩ := casSection_entry_complete _ cs 0 S.sect X hX j hj
  exact ⟨e, S.perm.mem_iff.mpr he, g⟩

theorem allTruncated_table {b : Bytes} {ft : Footer} {t : List (Nat × Nat × Nat)} (hn : ft.chunkLookupNum ≠ 0)
    (h : readChunkLookup b ft.chunkLookupNum ft.chunkLookupOff [] = .ok t) : allTruncated b ft = .ok t := by
  simp only [allTruncated, if_pos hn, h]

theorem allTruncated_scan {b : Bytes} {ft : Footer} {cs : List CasInfo} (hn : ft.chunkLookupNum = 0)
    (h : readAllCas b (b.length / recSize + 1) ft.casInfoOff [] = .ok cs) (w : ∀ X ∈ cs, X.WF) :
    allTruncated b ft = .ok (casSection 0 cs).chunkLookup := by
  simp only [allTruncated, hn, ne_eq, not_true_eq_false, if_false, h, ok_bind]
  rw [casSectionOps_eq 0 cs (fun c hc => (w c hc).2.2.1)]

/-- **`read_all_truncated_hashes` on a serialized shard**: the chunk table when there is one, the scan otherwise;
    in both cases a permutation of the section-order rows -/
theorem casRows_serialize (m : Mem) (t : List (Nat × Nat × Nat)) (w : m.WF) (ht : LegalChunkTable m t) :
    ∃ rows, CasRows (serialize m t).bytes (serialize m t).footer m.cas rows := by
  have hsect : At (serialize m t).bytes ((serialize m t).footer.casInfoOff + recSize * 0) (casSection 0 m.cas).bytes := by
    simpa using (serialize_layout m t).cas.left
  by_cases hn : (serialize m t).footer.chunkLookupNum = 0
  · refine ⟨_, hsect, w.2.2.2.1, allTruncated_scan hn
      (readAllCas_serialize m t w _ (scan_fuel (serialize_layout m t).cas)) w.2.2.2.1, List.Perm.refl _⟩
  · exact ⟨t, hsect, w.2.2.2.1,
      allTruncated_table hn (readChunkLookup_serialize m t (legal_table_bounds m t w ht)), ht.1⟩

/-- **`read_all_truncated_hashes` on an exported shard**, with or without the chunk table (`k`) -/
theorem casRows_exportSpec (P : HashPrims) (m : Mem) (key : Hash) (now validFor : Nat) (f c k : Bool) (w : m.WF) :
    ∃ rows, CasRows (exportSpec P m key now validFor f c k).bytes (exportSpec P m key now validFor f c k).footer
      (keyedCas P key m.cas) rows := by
  have L := exportSpec_layout P m key now validFor f c k
  have hsect : At (exportSpec P m key now validFor f c k).bytes
      ((exportSpec P m key now validFor f c k).footer.casInfoOff + recSize * 0) (casSection 0 (keyedCas P key m.cas)).bytes := by
    have := L.cas.left
    rw [Nat.mul_zero, Nat.add_zero]; exact this
  have hw := keyedCas_WF P key m.cas w.2.2.2.1
  by_cases hn : (exportSpec P m key now validFor f c k).footer.chunkLookupNum = 0
  · have hfuel : m.cas.length < (exportSpec P m key now validFor f c k).bytes.length / recSize + 1 := by
      have h1 : (keyedCas P key m.cas).length < _ := scan_fuel L.cas
      rw [keyedCas_length] at h1
      exact h1
    exact ⟨_, hsect, hw, allTruncated_scan hn (readAllCas_exportSpec P m key now validFor f c k w _ hfuel) hw, List.Perm.refl _⟩
  · have hr := readChunkLookup_exportSpec P m key now validFor f c k w
    cases k with
    | false => exact absurd rfl hn
    | true => exact ⟨_, hsect, hw, allTruncated_table hn hr, sortByKey_perm _⟩

/-- **the shard files this client handles**: `ShardFile P s cs` — the registered shard `s` is byte for byte either a
    serialization `serialize m0 t` of well-formed content with a legal chunk table (what `flush`, `set_operation`
    and consolidation write; unkeyed; `cs = m0.cas`), or a keyed export `exportSpec …` of well-formed content with
    any key, clock value `< 2^64`, validity and any of the eight include-flag combinations (what
    `export_as_keyed_shard` writes, `C18_export`; `cs` = the blocks of `m0` with keyed chunk hashes). -/
inductive ShardFile (P : HashPrims) (s : RegShard) : List CasInfo → Prop
  | plain (m0 : Mem) (t : List (Nat × Nat × Nat)) : m0.WF → LegalChunkTable m0 t → s.bytes = (serialize m0 t).bytes →
      ShardFile P s m0.cas
  | exported (m0 : Mem) (key : Hash) (now validFor : Nat) (f c k : Bool) : m0.WF → now < 18446744073709551616 →
      s.bytes = (exportSpec P m0 key now validFor f c k).bytes → ShardFile P s (keyedCas P key m0.cas)

theorem legal_table_length_lt (m : Mem) (t : List (Nat × Nat × Nat)) (w : m.WF) (ht : LegalChunkTable m t) :
    t.length < 4294967296 := by
  rw [legal_table_length m t ht]
  have := m.numChunks_le; have := w.2.2.2.2.2; omega

/-- a registered shard file (footer = what `load_from_reader` returned) lists the rows of its blocks -/
theorem ShardFile.casRows {P : HashPrims} {s : RegShard} {cs : List CasInfo} (h : ShardFile P s cs)
    (hl : loadInfo s.bytes = .ok s.footer) : ∃ rows, CasRows s.bytes s.footer cs rows := by
  cases h with
  | plain m0 t w ht hb =>
    have hf : s.footer = (serialize m0 t).footer := by
      rw [hb, loadInfo_serialize m0 t w (legal_table_length_lt m0 t w ht)] at hl
      exact (Except.ok.inj hl).symm
    rw [hb, hf]
    exact casRows_serialize m0 t w ht
  | exported m0 key now validFor f c k w hnow hb =>
    have hf : s.footer = (exportSpec P m0 key now validFor f c k).footer := by
      rw [hb, loadInfo_exportSpec P m0 key now validFor f c k w hnow] at hl
      exact (Except.ok.inj hl).symm
    rw [hb, hf]
    exact casRows_exportSpec P m0 key now validFor f c k w

/-- an answer of the direct query at a listed row of a shard file is truthful for a block of the file, under the
    footer's key -/
theorem CasRows.truthful {P : HashPrims} {b : Bytes} {ft : Footer} {cs : List CasInfo} {rows : List (Nat × Nat × Nat)}
    (S : CasRows b ft cs rows) {k ci co : Nat} (hrow : (k, ci, co) ∈ rows) {q : List Hash} {a : DedupAnswer}
    (d : DirectTruthful P b ft q ci co a) : ∃ X ∈ cs, Truthful (keyedHash P ft.hmacKey) X.chunks X.hash q a := by
  obtain ⟨X, hX, hAt, hlt, _⟩ := S.row_sound _ hrow
  exact ⟨X, hX, truthful_of_direct P b ft q ci co a X hAt (S.wf X hX) hlt d⟩

/-! ## Part M.6 — completeness of the lookup -/

/-- `registerOne` computed: new name, loadable bytes, existing collection, index below its cap -/
theorem registerOne_existing {maxI : Nat} {m : Mgr} {name : Hash} {b : Bytes} {ft : Footer} {i : Nat} {c : Coll}
    {rows : List (Nat × Nat × Nat)} (hn : m.registered.contains name = false) (hft : loadInfo b = .ok ft)
    (hi : collIndex m.colls ft.hmacKey = some i) (hc : m.colls[i]? = some c) (hcap : m.totalIndexed < maxI)
    (hrows : allTruncated b ft = .ok rows) :
    m.registerOne maxI name b = .ok (regResult m m.colls i c ⟨name, b, ft⟩ (insertRows c.lookup c.shards.length rows)
      (m.totalIndexed + ((insertRows c.lookup c.shards.length rows).length - c.lookup.length))) := by
  unfold Mgr.registerOne
  simp only [hn, Bool.false_eq_true, if_false, hft, hi, Option.getD_some, hc, hcap, if_true, hrows, regResult, setColl_eq_set]

/-- `registerOne` computed: new name, loadable bytes, no collection with the footer's key yet, index below its cap -/
theorem registerOne_fresh {maxI : Nat} {m : Mgr} {name : Hash} {b : Bytes} {ft : Footer}
    {rows : List (Nat × Nat × Nat)} (hn : m.registered.contains name = false) (hft : loadInfo b = .ok ft)
    (hi : collIndex m.colls ft.hmacKey = none) (hcap : m.totalIndexed < maxI)
    (hrows : allTruncated b ft = .ok rows) :
    m.registerOne maxI name b = .ok (regResult m (m.colls ++ [⟨ft.hmacKey, [], []⟩]) m.colls.length ⟨ft.hmacKey, [], []⟩
      ⟨name, b, ft⟩ (insertRows [] 0 rows) (m.totalIndexed + ((insertRows [] 0 rows).length - 0))) := by
  unfold Mgr.registerOne
  simp only [hn, Bool.false_eq_true, if_false, hft, hi, collIndex_append_new hi, Option.getD_some, hcap, if_true, hrows,
    regResult, setColl_eq_set, List.getElem?_concat_length, List.length_nil]

theorem collIndex_head {colls : List Coll} {c0 : Coll} {key : Hash} (h0 : colls[0]? = some c0) (hk : c0.key = key) :
    collIndex colls key = some 0 := by
  cases colls with
  | nil => cases h0
  | cons x rest =>
    simp only [List.getElem?_cons_zero, Option.some.injEq] at h0
    subst h0
    simp [collIndex, List.findIdx?_cons, hk]

/-- the table element under key `k` of collection `c` addresses, in a registered copy of the shard file `(B, F)`,
    chunk `j` of the block `X` lying at the element's record index -/
def Owned (c : Coll) (k : Nat) (B : Bytes) (F : Footer) (X : CasInfo) (j : Nat) : Prop :=
  ∃ e s, lookupFind c.lookup k = some e ∧ c.shards[e.shardIdx]? = some s ∧ s.bytes = B ∧ s.footer = F ∧ e.chunkOff = j ∧
    At B (F.casInfoOff + recSize * e.casStart) X.bytes

/-- every insertable row with key `k` listed by a shard of `c` is chunk `j` of the block `X` in a copy of `B` -/
def NoColl (c : Coll) (k : Nat) (B : Bytes) (F : Footer) (X : CasInfo) (j : Nat) : Prop :=
  ∀ s ∈ c.shards, ∀ rows, allTruncated s.bytes s.footer = .ok rows → ∀ r ∈ rows, r.1 = k → r.2.2 ≤ u16Max →
    s.bytes = B ∧ r.2.2 = j ∧ At B (F.casInfoOff + recSize * r.2.1) X.bytes

theorem NoColl.mono {c c' : Coll} {k B F X j} (h : NoColl c' k B F X j) (hs : ∀ s ∈ c.shards, s ∈ c'.shards) :
    NoColl c k B F X j := fun s hs' => h s (hs s hs')

theorem Owned.extend {c : Coll} {k B F X j} (h : Owned c k B F X j) (s : RegShard) (lk : List (Nat × Elem))
    (hlk : lookupFind lk k = lookupFind c.lookup k) : Owned ⟨c.key, c.shards ++ [s], lk⟩ k B F X j := by
  obtain ⟨e, s0, g1, g2, g⟩ := h
  refine ⟨e, s0, by rw [hlk]; exact g1, ?_, g⟩
  show (c.shards ++ [s])[e.shardIdx]? = some s0
  rw [List.getElem?_append_left (List.getElem?_eq_some_iff.mp g2).1]; exact g2

/-- appending the shard `⟨name, b, ft⟩` with its rows: ownership of key `k` is established (if the shard lists an
    insertable row for `k`) or kept (if it does not), given that the shard's own rows for `k` are chunk `j` of `X` in a
    copy of `B`, and no `u16` wrap -/
theorem owned_append {c : Coll} {k : Nat} {B : Bytes} {F : Footer} {X : CasInfo} {j : Nat} {name : Hash} {b : Bytes} {ft : Footer}
    {rows : List (Nat × Nat × Nat)} (hF : loadInfo B = .ok F) (hft : loadInfo b = .ok ft) (_hrows : allTruncated b ft = .ok rows)
    (hlen : c.shards.length + 1 ≤ u16Max + 1)
    (hnc : ∀ r ∈ rows, r.1 = k → r.2.2 ≤ u16Max → b = B ∧ r.2.2 = j ∧ At B (F.casInfoOff + recSize * r.2.1) X.bytes)
    (hold : Owned c k B F X j ∨ ∃ r ∈ rows, r.1 = k ∧ r.2.2 ≤ u16Max) :
    Owned ⟨c.key, c.shards ++ [⟨name, b, ft⟩], insertRows c.lookup c.shards.length rows⟩ k B F X j := by
  by_cases hex : ∃ r ∈ rows, r.1 = k ∧ r.2.2 ≤ u16Max
  · obtain ⟨r, hr, hk, hco, hfind⟩ := insertRows_find_some c.shards.length rows c.lookup k hex
    obtain ⟨e1, e2, e3⟩ := hnc r hr hk hco
    subst e1
    have hfe : ft = F := by rw [hft] at hF; exact Except.ok.inj hF
    subst hfe
    refine ⟨rowElem c.shards.length r, ⟨name, b, ft⟩, hfind, ?_, rfl, rfl, e2, e3⟩
    show (c.shards ++ [_])[(rowElem c.shards.length r).shardIdx]? = _
    rw [rowElem_shardIdx _ _ (by omega)]
    simp
  · rcases hold with ho | hr
    · exact ho.extend _ _ (insertRows_find_none _ rows _ k (by
        intro r hr hk
        by_cases hc : r.2.2 ≤ u16Max
        · exact absurd ⟨r, hr, hk, hc⟩ hex
        · omega))
    · exact absurd hr hex

/-- `c'` is a later state of the collection `c`: same key, the shards of `c` are still there, and ownership of a key
    persists when `c'` has no foreign row for it and no `u16` wrap -/
def CollFollows (c c' : Coll) : Prop :=
  c'.key = c.key ∧ (∀ s ∈ c.shards, s ∈ c'.shards) ∧ c.shards.length ≤ c'.shards.length ∧
    ∀ k B F X j, loadInfo B = .ok F → Owned c k B F X j → c'.shards.length ≤ u16Max + 1 → NoColl c' k B F X j →
      Owned c' k B F X j

theorem CollFollows.refl (c : Coll) : CollFollows c c :=
  ⟨rfl, fun _ hs => hs, Nat.le_refl _, fun _ _ _ _ _ _ ho _ _ => ho⟩

theorem CollFollows.trans {a b c : Coll} (h1 : CollFollows a b) (h2 : CollFollows b c) : CollFollows a c := by
  obtain ⟨k1, s1, l1, o1⟩ := h1
  obtain ⟨k2, s2, l2, o2⟩ := h2
  refine ⟨k2.trans k1, fun s hs => s2 s (s1 s hs), Nat.le_trans l1 l2, ?_⟩
  intro k B F X j hF ho hlen hnc
  exact o2 k B F X j hF (o1 k B F X j hF ho (Nat.le_trans l2 hlen) (hnc.mono s2)) hlen hnc

/-- one registration, seen from collection `i`: the collection stays where it is and is followed by its new state -/
theorem owned_registerOne {maxI : Nat} {m : Mgr} {name : Hash} {b : Bytes} {m' : Mgr}
    (h : m.registerOne maxI name b = .ok m') (i : Nat) (c : Coll) (hc : m.colls[i]? = some c) :
    ∃ c', m'.colls[i]? = some c' ∧ CollFollows c c' := by
  rcases registerOne_cases h with rfl | ⟨ft, colls, ci, c1, lk, ti, hft, hcolls, hc1, hk, hlk, rfl⟩
  · exact ⟨c, hc, .refl c⟩
  · have hci : colls[i]? = some c := by
      rcases hcolls with rfl | rfl
      · exact hc
      · rw [List.getElem?_append_left (List.getElem?_eq_some_iff.mp hc).1]; exact hc
    by_cases hi : ci = i
    · subst hi
      rw [hci] at hc1
      cases hc1
      have hlt : ci < colls.length := (List.getElem?_eq_some_iff.mp hci).1
      refine ⟨⟨c.key, c.shards ++ [⟨name, b, ft⟩], lk⟩, by simp [regResult, hlt], rfl,
        fun s hs => List.mem_append_left _ hs, by simp, ?_⟩
      intro k B F X j hF ho hlen hnc
      simp only [List.length_append, List.length_singleton] at hlen
      rcases hlk with rfl | ⟨_, rows, hrows, rfl⟩
      · exact ho.extend _ _ rfl
      · exact owned_append hF hft hrows hlen (hnc ⟨name, b, ft⟩ (by simp) rows hrows) (Or.inl ho)
    · refine ⟨c, ?_, .refl c⟩
      simp only [regResult, List.getElem?_set, hi, if_false]
      exact hci

/-- the same over any sequence of micro steps -/
theorem owned_microSteps {a b : Mgr} (h : Mgr.MicroSteps a b) (i : Nat) (c : Coll) (hc : a.colls[i]? = some c) :
    ∃ c', b.colls[i]? = some c' ∧ CollFollows c c' := by
  induction h with
  | refl => exact ⟨c, hc, .refl c⟩
  | tail _ hs ih =>
    obtain ⟨c1, h1, f1⟩ := ih
    cases hs with
    | setMem x => exact ⟨c1, h1, f1⟩
    | reg maxI name bb hr =>
      obtain ⟨c', h2, f2⟩ := owned_registerOne hr i c1 h1
      exact ⟨c', h2, f1.trans f2⟩

/-- `registerOne` of a new name while the index is below its cap: the shard's rows go into the lookup of the
    collection `collIndex` finds for the footer's key (in the possibly extended collection list) -/
theorem registerOne_new {maxI : Nat} {m : Mgr} {name : Hash} {b : Bytes} {m' : Mgr}
    (h : m.registerOne maxI name b = .ok m') (hn : m.registered.contains name = false) (hcap : m.totalIndexed < maxI) :
    ∃ ft colls ci c rows ti, loadInfo b = .ok ft ∧
      (colls = m.colls ∨ colls = m.colls ++ [⟨ft.hmacKey, [], []⟩]) ∧ collIndex colls ft.hmacKey = some ci ∧
      colls[ci]? = some c ∧ c.key = ft.hmacKey ∧ allTruncated b ft = .ok rows ∧
      m' = regResult m colls ci c ⟨name, b, ft⟩ (insertRows c.lookup c.shards.length rows) ti := by
  unfold Mgr.registerOne at h
  rw [if_neg (by rw [hn]; exact Bool.false_ne_true)] at h
  split at h
  · cases h
  · rename_i ft hft
    simp only at h
    have hcol : ∃ colls ci, (colls = m.colls ∨ colls = m.colls ++ [⟨ft.hmacKey, [], []⟩]) ∧
        collIndex colls ft.hmacKey = some ci ∧ regBody maxI m name b ft colls = .ok m' := by
      cases hc : collIndex m.colls ft.hmacKey with
      | some i => rw [hc] at h; exact ⟨m.colls, i, Or.inl rfl, hc, h⟩
      | none => rw [hc] at h; exact ⟨_, m.colls.length, Or.inr rfl, collIndex_append_new hc, h⟩
    obtain ⟨colls, ci, hcolls', e2, h⟩ := hcol
    unfold regBody at h
    rw [e2] at h
    simp only [Option.getD_some] at h
    obtain ⟨c, hc, hk⟩ := collIndex_some e2
    rw [hc] at h
    simp only [hcap, if_true] at h
    split at h
    · cases h
    · rename_i rows hrows
      simp only [Except.ok.injEq] at h
      refine ⟨ft, colls, ci, c, rows, m.totalIndexed + ((insertRows c.lookup c.shards.length rows).length - c.lookup.length),
        hft, hcolls', e2, hc, hk, hrows, ?_⟩
      rw [← h, setColl_eq_set]; rfl

/-- from the content-level side conditions (no other chunk of the shard file shares the truncated prefix, the hash is
    recorded once) and "no other shard of the collection lists an insertable row with that prefix" to `NoColl` -/
theorem noColl_of_content {c0 : Coll} {B : Bytes} {F : Footer} {cs : List CasInfo} {rows0 : List (Nat × Nat × Nat)}
    {X : CasInfo} {j : Nat} (S : CasRows B F cs rows0) (hF : loadInfo B = .ok F)
    (hloaded : ∀ s ∈ c0.shards, loadInfo s.bytes = .ok s.footer) (hX : X ∈ cs) (hj : j < X.chunks.length)
    (hcol : ∀ Y ∈ cs, ∀ ch ∈ Y.chunks, trunc ch.hash = trunc X.chunks[j].hash → ch.hash = X.chunks[j].hash)
    (hu : UniquePos cs X.chunks[j].hash)
    (hforeign : ∀ s ∈ c0.shards, ∀ rows, allTruncated s.bytes s.footer = .ok rows → ∀ r ∈ rows,
      r.1 = trunc X.chunks[j].hash → r.2.2 ≤ u16Max → s.bytes = B) :
    NoColl c0 (trunc X.chunks[j].hash) B F X j := by
  intro s hs rows hrows r hr hk hco
  have e := hforeign s hs rows hrows r hr hk hco
  have hl := hloaded s hs
  rw [e, hF] at hl
  have ef : s.footer = F := (Except.ok.inj hl).symm
  rw [e, ef, S.listed] at hrows
  have er : rows = rows0 := (Except.ok.inj hrows).symm
  subst er
  obtain ⟨Y, hY, hAt, hlt, gk⟩ := S.row_sound r hr
  have hh : Y.chunks[r.2.2].hash = X.chunks[j].hash := hcol Y hY _ (List.getElem_mem hlt) (by rw [← gk, hk])
  obtain ⟨rfl, rfl⟩ := hu Y hY X hX r.2.2 hlt j hj hh rfl
  exact ⟨e, rfl, hAt⟩

/-- **what a registration inserts stays findable.**  A shard file `(B, F)` holding the well-formed blocks `cs` is
    registered under a new name while the index is below its cap; chunk `j ≤ u16::MAX` of block `X` carries a hash
    that no other chunk of the file shares (not even in its truncated prefix).  Then in every later state (any
    micro steps), if the collection the shard went into holds at most 2^16 shards none of which — other than copies
    of `B` — lists an insertable row with that truncated prefix, the collection's table element for the prefix
    addresses chunk `j` of `X` in a registered copy of `(B, F)`. -/
theorem lookup_complete_core {m₁ m₂ m : Mgr} {maxI : Nat} {name : Hash} {B : Bytes} {F : Footer} {cs : List CasInfo}
    {rows0 : List (Nat × Nat × Nat)} (hinv : m₁.Inv) (hnew : m₁.registered.contains name = false)
    (hcap : m₁.totalIndexed < maxI) (hF : loadInfo B = .ok F) (S : CasRows B F cs rows0)
    (hreg : m₁.registerOne maxI name B = .ok m₂) (hlater : Mgr.MicroSteps m₂ m)
    {X : CasInfo} {j : Nat} (hX : X ∈ cs) (hj : j < X.chunks.length) (hj16 : j ≤ u16Max)
    (hcol : ∀ Y ∈ cs, ∀ ch ∈ Y.chunks, trunc ch.hash = trunc X.chunks[j].hash → ch.hash = X.chunks[j].hash)
    (hu : UniquePos cs X.chunks[j].hash) :
    ∃ colls i, (colls = m₁.colls ∨ colls = m₁.colls ++ [⟨F.hmacKey, [], []⟩]) ∧ collIndex colls F.hmacKey = some i ∧
      ∃ c', m.colls[i]? = some c' ∧ c'.key = F.hmacKey ∧
        (c'.shards.length ≤ u16Max + 1 →
         (∀ s ∈ c'.shards, ∀ rows, allTruncated s.bytes s.footer = .ok rows → ∀ r ∈ rows,
            r.1 = trunc X.chunks[j].hash → r.2.2 ≤ u16Max → s.bytes = B) →
         Owned c' (trunc X.chunks[j].hash) B F X j) := by
  obtain ⟨ft, colls, ci, c, rows, ti, hft, hcolls, hci, hc, hk, hrows, rfl⟩ := registerOne_new hreg hnew hcap
  have eft : ft = F := by rw [hft] at hF; exact Except.ok.inj hF
  subst eft
  have er : rows = rows0 := by rw [S.listed] at hrows; exact (Except.ok.inj hrows).symm
  subst er
  have hlt : ci < colls.length := (List.getElem?_eq_some_iff.mp hc).1
  have h2 : (regResult m₁ colls ci c ⟨name, B, ft⟩ (insertRows c.lookup c.shards.length rows) ti).colls[ci]? =
      some ⟨c.key, c.shards ++ [⟨name, B, ft⟩], insertRows c.lookup c.shards.length rows⟩ := by
    simp [regResult, hlt]
  obtain ⟨c', hc', hfol⟩ := owned_microSteps hlater ci _ h2
  refine ⟨colls, ci, hcolls, hci, c', hc', by rw [hfol.1]; exact hk, ?_⟩
  intro hlen hforeign
  have hminv : m.Inv := hlater.inv (hinv.registerOne hreg)
  have hnc : NoColl c' (trunc X.chunks[j].hash) B ft X j :=
    noColl_of_content S hF (hminv.loaded c' (List.mem_of_getElem? hc')) hX hj hcol hu hforeign
  obtain ⟨e, he, _, g2, g3⟩ := S.row_complete X hX j hj
  have hlen2 := hfol.2.2.1
  simp only [List.length_append, List.length_singleton] at hlen2
  have ho := owned_append (c := c) (name := name) hF hft hrows (by omega)
    (hnc.mono hfol.2.1 ⟨name, B, ft⟩ (by simp) rows hrows)
    (Or.inr ⟨e, he, g3, by omega⟩)
  exact hfol.2.2.2 _ _ _ _ _ hF ho hlen hnc

/-- a collection that owns the (keyed) truncated first query hash answers with the direct query at that chunk -/
theorem collQuery_of_owned (P : HashPrims) {c : Coll} {q0 : Hash} {qs : List Hash} {B : Bytes} {F : Footer} {X : CasInfo}
    {j : Nat} (ho : Owned c (trunc (keyedHash P c.key q0)) B F X j) (w : X.WF) (hj : j < X.chunks.length) :
    collQuery P q0 (q0 :: qs) c = .ok (directSpec (keyedHash P F.hmacKey) X j (q0 :: qs)) := by
  obtain ⟨e, s, g1, g2, rfl, rfl, rfl, hAt⟩ := ho
  simp only [collQuery, g1, g2]
  exact dedupDirect_of_block P s.footer (q0 :: qs) e.casStart e.chunkOff hAt w hj

/-- … and when that chunk carries the keyed first query hash the answer exists, starts there and is truthful -/
theorem collQuery_of_owned_some (P : HashPrims) {c : Coll} {q0 : Hash} {qs : List Hash} {B : Bytes} {F : Footer} {X : CasInfo}
    {j : Nat} (ho : Owned c (trunc (keyedHash P c.key q0)) B F X j) (w : X.WF) (hj : j < X.chunks.length)
    (hh : X.chunks[j].hash = keyedHash P F.hmacKey q0) :
    ∃ a, collQuery P q0 (q0 :: qs) c = .ok (some a) ∧ directSpec (keyedHash P F.hmacKey) X j (q0 :: qs) = some a ∧
      a.seg.cstart = j ∧ Truthful (keyedHash P F.hmacKey) X.chunks X.hash (q0 :: qs) a := by
  obtain ⟨a, ha⟩ := directSpec_isSome (keyedHash P F.hmacKey) X j q0 qs hj hh
  have hq := collQuery_of_owned P (qs := qs) ho w hj
  rw [ha] at hq
  refine ⟨a, hq, ha, ?_⟩
  obtain ⟨e, s, g1, g2, rfl, rfl, rfl, hAt⟩ := ho
  have hd : dedupDirect P s.bytes s.footer (q0 :: qs) e.casStart e.chunkOff = .ok (some a) := by
    rw [dedupDirect_of_block P s.footer (q0 :: qs) e.casStart e.chunkOff hAt w hj, ha]
  have d := dedupDirect_truthful P _ _ _ _ _ a hd
  exact ⟨d.cstart, truthful_of_direct P _ _ _ _ _ a X hAt w hj d⟩

/-- the manager's query when collection 0 answers and the in-memory shard does not -/
theorem Mgr.dedup_coll0 (P : HashPrims) (m : Mgr) (q0 : Hash) (qs : List Hash) (c0 : Coll) (a : DedupAnswer)
    (hmem : m.mem.dedup (q0 :: qs) = none) (hc0 : m.colls[0]? = some c0)
    (hq : collQuery P q0 (q0 :: qs) c0 = .ok (some a)) : m.dedup P (q0 :: qs) = .ok (some a) := by
  cases hcs : m.colls with
  | nil => rw [hcs] at hc0; cases hc0
  | cons x rest =>
    rw [hcs] at hc0
    simp only [List.getElem?_cons_zero, Option.some.injEq] at hc0
    subst hc0
    simp only [Mgr.dedup, hmem, List.isEmpty_cons, Bool.false_eq_true, if_false, hcs]
    exact dedupColls_first P q0 qs [] x rest a (by intro _ h; cases h) hq

/-- **completeness of the lookup for an unkeyed shard file** (micro-step form, invariants instead of reachability) -/
theorem lookup_complete_unkeyed (P : HashPrims) {m₁ m₂ m : Mgr} {maxI : Nat} {name : Hash} {m0 : Mem} {t : List (Nat × Nat × Nat)}
    (hinv : m₁.Inv) (hnew : m₁.registered.contains name = false) (hcap : m₁.totalIndexed < maxI)
    (w : m0.WF) (ht : LegalChunkTable m0 t)
    (hreg : m₁.registerOne maxI name (serialize m0 t).bytes = .ok m₂) (hlater : Mgr.MicroSteps m₂ m)
    {X : CasInfo} {j : Nat} (hX : X ∈ m0.cas) (hj : j < X.chunks.length) (hj16 : j ≤ u16Max)
    (hcol : ∀ Y ∈ m0.cas, ∀ ch ∈ Y.chunks, trunc ch.hash = trunc X.chunks[j].hash → ch.hash = X.chunks[j].hash)
    (hu : NoDuplicateChunk m0 X.chunks[j].hash)
    {c0 : Coll} (hc0 : m.colls[0]? = some c0) (hlen : c0.shards.length ≤ u16Max + 1)
    (hforeign : ∀ s ∈ c0.shards, ∀ rows, allTruncated s.bytes s.footer = .ok rows → ∀ r ∈ rows,
      r.1 = trunc X.chunks[j].hash → r.2.2 ≤ u16Max → s.bytes = (serialize m0 t).bytes)
    (rest : List Hash) (hmem : m.mem.dedup (X.chunks[j].hash :: rest) = none) :
    ∃ a, m.dedup P (X.chunks[j].hash :: rest) = .ok (some a) ∧ directSpec id X j (X.chunks[j].hash :: rest) = some a ∧
      a.seg.cstart = j ∧ Truthful id X.chunks X.hash (X.chunks[j].hash :: rest) a := by
  have hF := loadInfo_serialize m0 t w (legal_table_length_lt m0 t w ht)
  obtain ⟨rows0, S⟩ := casRows_serialize m0 t w ht
  obtain ⟨colls, i, hcolls, hci, c', hc', hk', hown⟩ :=
    lookup_complete_core hinv hnew hcap hF S hreg hlater hX hj hj16 hcol hu
  have hz : (serialize m0 t).footer.hmacKey = Hash.zero := rfl
  -- the collection is collection 0
  have hi0 : i = 0 := by
    obtain ⟨c00, h00, hk00⟩ := hinv.coll0
    have h00' : colls[0]? = some c00 := by
      rcases hcolls with rfl | rfl
      · exact h00
      · rw [List.getElem?_append_left (List.getElem?_eq_some_iff.mp h00).1]; exact h00
    have := collIndex_head h00' (hk00.trans hz.symm)
    rw [this] at hci
    exact (Option.some.inj hci).symm
  subst hi0
  rw [hc0] at hc'
  cases hc'
  have ho := hown hlen hforeign
  have hk0 : c0.key = Hash.zero := hk'.trans hz
  have hkey : keyedHash P c0.key X.chunks[j].hash = X.chunks[j].hash := by rw [hk0, keyedHash_zero]; rfl
  rw [← hkey] at ho
  obtain ⟨a, ha, hs, hst, htr⟩ := collQuery_of_owned_some P (qs := rest) ho (w.2.2.2.1 X hX) hj
    (by rw [hz, keyedHash_zero]; rfl)
  rw [hz, keyedHash_zero] at hs htr
  exact ⟨a, Mgr.dedup_coll0 P m _ rest c0 a hmem hc0 ha, hs, hst, htr⟩

theorem self_mem_insertCas (c : CasInfo) (l : List CasInfo) : c ∈ insertCas c l := by
  induction l with
  | nil => simp [insertCas]
  | cons g rest ih =>
    simp only [insertCas]
    split
    · exact List.mem_cons_self
    · split
      · exact List.mem_cons_self
      · exact List.mem_cons_of_mem _ ih

theorem Mgr.flush_of_empty (P : HashPrims) (maxI : Nat) (m : Mgr) (h : m.mem = MemShard.empty) : m.flush P maxI = .ok m := by
  simp [Mgr.flush, h, MemShard.empty]

theorem Mgr.flush_of_cas (P : HashPrims) (maxI : Nat) (m : Mgr) (h : m.mem.mem.cas ≠ []) :
    m.flush P maxI = ({ m with mem := MemShard.empty } : Mgr).registerOne maxI
      (P.dataHash (serializeStable m.mem.mem).bytes) (serializeStable m.mem.mem).bytes := by
  have : ¬ (m.mem.mem.files.isEmpty = true ∧ m.mem.mem.cas.isEmpty = true) := by
    intro hh
    exact h (List.isEmpty_iff.mp hh.2)
  simp only [Mgr.flush, if_neg this]

/-- `add_cas_block(c)` followed by `flush()`: in both orders of events (the size threshold triggers the flush inside
    `add_cas_block`, or not) the state after the flush is the result of registering the serialization of the in-memory
    shard with `c` added, under its content hash, into the manager with an empty in-memory shard -/
theorem Mgr.addCas_flush (P : HashPrims) {maxI minSize : Nat} {m ma mb : Mgr} (c : CasInfo)
    (hadd : m.addCas P maxI minSize c = .ok ma) (hfl : ma.flush P maxI = .ok mb) :
    ({ m with mem := MemShard.empty } : Mgr).registerOne maxI
      (P.dataHash (serializeStable (m.mem.addCas c).mem).bytes) (serializeStable (m.mem.addCas c).mem).bytes = .ok mb := by
  have hne : ({ m with mem := m.mem.addCas c } : Mgr).mem.mem.cas ≠ [] := by
    intro h
    have := self_mem_insertCas c m.mem.mem.cas
    simp only [MemShard.addCas] at h
    rw [h] at this
    cases this
  have hflush := Mgr.flush_of_cas P maxI { m with mem := m.mem.addCas c } hne
  unfold Mgr.addCas at hadd
  simp only at hadd
  split at hadd
  · rw [hflush] at hadd
    have hmem : ma.mem = MemShard.empty := Mgr.registerOne_mem hadd
    rw [Mgr.flush_of_empty P maxI ma hmem] at hfl
    cases hfl
    exact hadd
  · simp only [Except.ok.injEq] at hadd
    subst hadd
    rw [hflush] at hfl
    exact hfl

/-! ## Part M.7 — the query right after registering a shard file into a manager that does not answer it -/

/-- all collections but the one at index `i` answer not-found: the loop returns what that one answers -/
theorem dedupColls_single (P : HashPrims) (q0 : Hash) (qs : List Hash) (l : List Coll) (i : Nat) (c' : Coll)
    (hi : l[i]? = some c') (hothers : ∀ j c, l[j]? = some c → j ≠ i → collQuery P q0 (q0 :: qs) c = .ok none) :
    dedupColls P (q0 :: qs) l = collQuery P q0 (q0 :: qs) c' := by
  induction l generalizing i with
  | nil => cases hi
  | cons x rest ih =>
    rw [dedupColls_cons]
    cases i with
    | zero =>
      simp only [List.getElem?_cons_zero, Option.some.injEq] at hi
      subst hi
      have hrest : dedupColls P (q0 :: qs) rest = .ok none :=
        dedupColls_none_of P q0 qs rest (by
          intro c hc
          obtain ⟨j, hj, rfl⟩ := List.getElem_of_mem hc
          exact hothers (j + 1) _ (by simp [hj]) (by omega))
      cases hq : collQuery P q0 (q0 :: qs) x with
      | error e => rfl
      | ok r => cases r with
        | none => exact hrest
        | some a => rfl
    | succ i' =>
      rw [hothers 0 x rfl (by omega)]
      exact ih i' (by simpa using hi) (fun j c hj hne => hothers (j + 1) c (by simpa using hj) (by omega))

/-- a collection that answers not-found still does after a shard is appended, if the element of the query key is kept -/
theorem collQuery_extend_none (P : HashPrims) (q0 : Hash) (q : List Hash) (c : Coll) (s : RegShard) (lk : List (Nat × Elem))
    (h : collQuery P q0 q c = .ok none)
    (hlk : lookupFind lk (trunc (keyedHash P c.key q0)) = lookupFind c.lookup (trunc (keyedHash P c.key q0))) :
    collQuery P q0 q ⟨c.key, c.shards ++ [s], lk⟩ = .ok none := by
  unfold collQuery at h ⊢
  simp only [hlk]
  cases hf : lookupFind c.lookup (trunc (keyedHash P c.key q0)) with
  | none => rfl
  | some e =>
    rw [hf] at h
    simp only at h ⊢
    cases hs : c.shards[e.shardIdx]? with
    | none => rw [hs] at h; cases h
    | some s0 =>
      rw [hs] at h
      rw [List.getElem?_append_left (List.getElem?_eq_some_iff.mp hs).1, hs]
      exact h

theorem collQuery_empty (P : HashPrims) (q0 : Hash) (q : List Hash) (key : Hash) : collQuery P q0 q ⟨key, [], []⟩ = .ok none := rfl

/-- the rows a shard file lists under the truncated prefix of a hash `kh` that has no prefix collision and one position:
    all are chunk `j` of `X` -/
theorem CasRows.rows_unique {B : Bytes} {F : Footer} {cs : List CasInfo} {rows0 : List (Nat × Nat × Nat)} (S : CasRows B F cs rows0)
    {X : CasInfo} {j : Nat} (hX : X ∈ cs) (hj : j < X.chunks.length)
    (hcol : ∀ Y ∈ cs, ∀ ch ∈ Y.chunks, trunc ch.hash = trunc X.chunks[j].hash → ch.hash = X.chunks[j].hash)
    (hu : UniquePos cs X.chunks[j].hash) :
    ∀ r ∈ rows0, r.1 = trunc X.chunks[j].hash → r.2.2 = j ∧ At B (F.casInfoOff + recSize * r.2.1) X.bytes := by
  intro r hr hk
  obtain ⟨Y, hY, hAt, hlt, gk⟩ := S.row_sound r hr
  have hh : Y.chunks[r.2.2].hash = X.chunks[j].hash := hcol Y hY _ (List.getElem_mem hlt) (by rw [← gk, hk])
  obtain ⟨rfl, rfl⟩ := hu Y hY X hX r.2.2 hlt j hj hh rfl
  exact ⟨rfl, hAt⟩

/-- **the manager's query right after a registration.**  A shard file `(B, F)` holding the well-formed blocks `cs`
    (each with at most 2^16 chunks) is registered under a new name, index below its cap, into a manager `M` (invariants,
    fewer than 2^16 shards per collection) that answers not-found to `q0 :: qs`.  If the keyed first hash has no
    truncated-prefix collision and at most one position in the file, then the new manager answers the direct query at
    that position (if there is one) and not-found otherwise. -/
theorem dedup_after_register (P : HashPrims) {M M' : Mgr} {maxI : Nat} {name : Hash} {B : Bytes} {F : Footer} {cs : List CasInfo}
    {rows0 : List (Nat × Nat × Nat)} (hnew : M.registered.contains name = false) (hcap : M.totalIndexed < maxI)
    (hF : loadInfo B = .ok F) (S : CasRows B F cs rows0) (hreg : M.registerOne maxI name B = .ok M')
    (hlen : ∀ c ∈ M.colls, c.shards.length < u16Max + 1) (q0 : Hash) (qs : List Hash)
    (hbase : M.dedup P (q0 :: qs) = .ok none)
    (hcol : ∀ Y ∈ cs, ∀ ch ∈ Y.chunks, trunc ch.hash = trunc (keyedHash P F.hmacKey q0) → ch.hash = keyedHash P F.hmacKey q0)
    (hu : UniquePos cs (keyedHash P F.hmacKey q0)) (hoff : ∀ X ∈ cs, X.chunks.length ≤ u16Max + 1) :
    (∀ X ∈ cs, ∀ j (hj : j < X.chunks.length), X.chunks[j].hash = keyedHash P F.hmacKey q0 →
        M'.dedup P (q0 :: qs) = .ok (directSpec (keyedHash P F.hmacKey) X j (q0 :: qs))) ∧
    ((∀ Y ∈ cs, ∀ ch ∈ Y.chunks, ch.hash ≠ keyedHash P F.hmacKey q0) → M'.dedup P (q0 :: qs) = .ok none) := by
  obtain ⟨ft, colls, ci, c, rows, ti, hft, hcolls, hci, hc, hk, hrows, rfl⟩ := registerOne_new hreg hnew hcap
  have eft : ft = F := by rw [hft] at hF; exact Except.ok.inj hF
  subst eft
  have er : rows = rows0 := by rw [S.listed] at hrows; exact (Except.ok.inj hrows).symm
  subst er
  -- the base manager: the in-memory shard and every collection answer not-found
  have hmem : M.mem.dedup (q0 :: qs) = none := by
    unfold Mgr.dedup at hbase
    split at hbase
    · cases hbase
    · assumption
  have hcolls0 : ∀ c ∈ M.colls, collQuery P q0 (q0 :: qs) c = .ok none := by
    unfold Mgr.dedup at hbase
    rw [hmem] at hbase
    simp only [List.isEmpty_cons, Bool.false_eq_true, if_false] at hbase
    exact (dedupColls_none_iff P q0 qs M.colls).mp hbase
  have hcollsAll : ∀ x ∈ colls, collQuery P q0 (q0 :: qs) x = .ok none ∧ x.shards.length < u16Max + 1 := by
    rcases hcolls with rfl | rfl
    · exact fun x hx => ⟨hcolls0 x hx, hlen x hx⟩
    · intro x hx
      rcases List.mem_append.mp hx with hx | hx
      · exact ⟨hcolls0 x hx, hlen x hx⟩
      · simp only [List.mem_singleton] at hx; subst hx; exact ⟨rfl, by simp⟩
  have hlt : ci < colls.length := (List.getElem?_eq_some_iff.mp hc).1
  obtain ⟨hcq, hclen⟩ := hcollsAll c (List.mem_of_getElem? hc)
  -- the query on the new manager is the query on the extended collection
  have hred : (regResult M colls ci c ⟨name, B, ft⟩ (insertRows c.lookup c.shards.length rows) ti).dedup P (q0 :: qs) =
      collQuery P q0 (q0 :: qs) ⟨c.key, c.shards ++ [⟨name, B, ft⟩], insertRows c.lookup c.shards.length rows⟩ := by
    simp only [Mgr.dedup, regResult, hmem, List.isEmpty_cons, Bool.false_eq_true, if_false]
    apply dedupColls_single P q0 qs _ ci _ (by simp [hlt])
    intro j x hj hne
    rw [List.getElem?_set_ne (Ne.symm hne)] at hj
    exact (hcollsAll x (List.mem_of_getElem? hj)).1
  rw [hred]
  constructor
  · intro X hX j hj hh
    have hrow : ∀ r ∈ rows, r.1 = trunc (keyedHash P c.key q0) → r.2.2 ≤ u16Max →
        B = B ∧ r.2.2 = j ∧ At B (ft.casInfoOff + recSize * r.2.1) X.bytes := by
      intro r hr hkr _
      rw [hk, ← hh] at hkr
      exact ⟨rfl, S.rows_unique hX hj (by rw [hh]; exact hcol) (by rw [hh]; exact hu) r hr hkr⟩
    obtain ⟨e, he, _, g2, g3⟩ := S.row_complete X hX j hj
    have hj16 : j ≤ u16Max := by have := hoff X hX; omega
    have ho := owned_append (c := c) (name := name) (k := trunc (keyedHash P c.key q0)) hF hft hrows (by omega) hrow
      (Or.inr ⟨e, he, by rw [g3, hh, hk], by omega⟩)
    exact collQuery_of_owned P (c := ⟨c.key, _, _⟩) ho (S.wf X hX) hj
  · intro hno
    apply collQuery_extend_none P q0 (q0 :: qs) c _ _ hcq
    apply insertRows_find_none
    intro r hr hkr
    exfalso
    obtain ⟨Y, hY, _, hltY, gk⟩ := S.row_sound r hr
    rw [hk] at hkr
    exact hno Y hY _ (List.getElem_mem hltY) (hcol Y hY _ (List.getElem_mem hltY) (by rw [← gk, hkr]))

end Xet.Shard
