/-
Proofs about the BG4 byte-grouping model (`XetModel/Bg4.lean`, Rust `cas_object/src/byte_grouping/bg4.rs`).
Everything is by induction in steps of four (`four_induction`), so every statement holds for every input
length, i.e. for every residue of the length mod 4 (the three `match rem` branches of the Rust code).
Core Lean only.
-/
import XetModel.Bg4

namespace Xet.Bg4

/-- induction in steps of four: the four short lists are base cases -/
theorem four_induction {α : Type} {P : List α → Prop}
    (h0 : P []) (h1 : ∀ a, P [a]) (h2 : ∀ a b, P [a, b]) (h3 : ∀ a b c, P [a, b, c])
    (h4 : ∀ a b c d rest, P rest → P (a :: b :: c :: d :: rest)) : ∀ l, P l
  | [] => h0
  | [a] => h1 a
  | [a, b] => h2 a b
  | [a, b, c] => h3 a b c
  | a :: b :: c :: d :: rest => h4 a b c d rest (four_induction h0 h1 h2 h3 h4 rest)

/-! ### one loop iteration: the groups of `a :: b :: c :: d :: rest` -/

theorem group0_cons4 (a b c d : UInt8) (rest : Bytes) :
    group (a :: b :: c :: d :: rest) 0 = a :: group rest 0 := by
  simp [group, stride4]

theorem group1_cons4 (a b c d : UInt8) (rest : Bytes) :
    group (a :: b :: c :: d :: rest) 1 = b :: group rest 1 := by
  cases rest <;> simp [group, stride4]

theorem group2_cons4 (a b c d : UInt8) (rest : Bytes) :
    group (a :: b :: c :: d :: rest) 2 = c :: group rest 2 := by
  match rest with
  | [] => simp [group, stride4]
  | [_] => simp [group, stride4]
  | _ :: _ :: _ => simp [group, stride4]

theorem group3_cons4 (a b c d : UInt8) (rest : Bytes) :
    group (a :: b :: c :: d :: rest) 3 = d :: group rest 3 := by
  match rest with
  | [] => simp [group, stride4]
  | [_] => simp [group, stride4]
  | [_, _] => simp [group, stride4]
  | _ :: _ :: _ :: _ => simp [group, stride4]

/-! ### the group sizes advance by one per four input bytes -/

theorem size0_add4 (n : Nat) : size0 (n + 4) = size0 n + 1 := by unfold size0; omega
theorem size1_add4 (n : Nat) : size1 (n + 4) = size1 n + 1 := by unfold size1; omega
theorem size2_add4 (n : Nat) : size2 (n + 4) = size2 n + 1 := by unfold size2; omega

/-- the four sizes that `bg4_regroup_together` uses for its pointers add up to the whole buffer -/
theorem sizes_sum (n : Nat) : size0 n + size1 n + size2 n + n / 4 = n := by
  unfold size0 size1 size2; omega

theorem group0_length (d : Bytes) : (group d 0).length = size0 d.length := by
  induction d using four_induction with
  | h0 => simp [group, stride4, size0]
  | h1 a => simp [group, stride4, size0]
  | h2 a b => simp [group, stride4, size0]
  | h3 a b c => simp [group, stride4, size0]
  | h4 a b c d rest ih =>
    rw [group0_cons4]; simp only [List.length_cons, size0_add4, ih]

theorem group1_length (d : Bytes) : (group d 1).length = size1 d.length := by
  induction d using four_induction with
  | h0 => simp [group, stride4, size1]
  | h1 a => simp [group, stride4, size1]
  | h2 a b => simp [group, stride4, size1]
  | h3 a b c => simp [group, stride4, size1]
  | h4 a b c d rest ih =>
    rw [group1_cons4]; simp only [List.length_cons, size1_add4, ih]

theorem group2_length (d : Bytes) : (group d 2).length = size2 d.length := by
  induction d using four_induction with
  | h0 => simp [group, stride4, size2]
  | h1 a => simp [group, stride4, size2]
  | h2 a b => simp [group, stride4, size2]
  | h3 a b c => simp [group, stride4, size2]
  | h4 a b c d rest ih =>
    rw [group2_cons4]; simp only [List.length_cons, size2_add4, ih]

theorem group3_length (d : Bytes) : (group d 3).length = d.length / 4 := by
  induction d using four_induction with
  | h0 => simp [group, stride4]
  | h1 a => simp [group, stride4]
  | h2 a b => simp [group, stride4]
  | h3 a b c => simp [group, stride4]
  | h4 a b c d rest ih =>
    rw [group3_cons4]; simp only [List.length_cons, ih]; omega

/-- The four groups produced by `split` have exactly the sizes `regroup` assumes when it computes the
group pointers: `size0 n`, `size1 n`, `size2 n`, `n / 4` with `n` the input length. -/
theorem group_length (d : Bytes) :
    (group d 0).length = size0 d.length ∧ (group d 1).length = size1 d.length ∧
    (group d 2).length = size2 d.length ∧ (group d 3).length = d.length / 4 :=
  ⟨group0_length d, group1_length d, group2_length d, group3_length d⟩

/-- `bg4_split` returns a buffer of the input's length (all lengths). -/
theorem split_length (d : Bytes) : (split d).length = d.length := by
  unfold split
  simp only [List.length_append, group0_length, group1_length, group2_length, group3_length]
  exact sizes_sum d.length

/-! ### interleaving the groups gives the input back -/

theorem interleave_group (d : Bytes) :
    interleave (group d 0) (group d 1) (group d 2) (group d 3) = d := by
  induction d using four_induction with
  | h0 => rfl
  | h1 a => rfl
  | h2 a b => rfl
  | h3 a b c => rfl
  | h4 a b c d rest ih =>
    rw [group0_cons4, group1_cons4, group2_cons4, group3_cons4, interleave, ih]

/-- cutting a concatenation of four lists at the three cumulative lengths recovers the four lists -/
theorem cut4 {α : Type} (g0 g1 g2 g3 : List α) (s0 s1 s2 : Nat)
    (e0 : g0.length = s0) (e1 : g1.length = s1) (e2 : g2.length = s2) :
    (g0 ++ g1 ++ g2 ++ g3).take s0 = g0 ∧
    ((g0 ++ g1 ++ g2 ++ g3).drop s0).take s1 = g1 ∧
    ((g0 ++ g1 ++ g2 ++ g3).drop (s0 + s1)).take s2 = g2 ∧
    (g0 ++ g1 ++ g2 ++ g3).drop (s0 + s1 + s2) = g3 := by
  subst e0 e1 e2
  simp only [List.append_assoc, ← List.drop_drop, List.drop_left, List.take_left, and_self]

/-- **BG4 round trip**: `bg4_regroup (bg4_split d) = d` for every byte list `d` (every length, hence every
residue of the length mod 4). -/
theorem regroup_split (d : Bytes) : regroup (split d) = d := by
  have hc := cut4 (group d 0) (group d 1) (group d 2) (group d 3) _ _ _
    (group0_length d) (group1_length d) (group2_length d)
  unfold regroup
  simp only [split_length]
  unfold split
  rw [hc.1, hc.2.1, hc.2.2.1, hc.2.2.2]
  exact interleave_group d

/-! ### `split` only permutes the bytes -/

theorem split_cons4 (a b c d : UInt8) (rest : Bytes) :
    split (a :: b :: c :: d :: rest) =
      (a :: group rest 0) ++ (b :: group rest 1) ++ (c :: group rest 2) ++ (d :: group rest 3) := by
  unfold split; rw [group0_cons4, group1_cons4, group2_cons4, group3_cons4]

/-- every byte value occurs in `split d` exactly as often as in `d` -/
theorem split_count (d : Bytes) (x : UInt8) : (split d).count x = d.count x := by
  induction d using four_induction with
  | h0 => rfl
  | h1 a => rfl
  | h2 a b => simp [split, group, stride4]
  | h3 a b c => simp [split, group, stride4, List.count_cons]
  | h4 a b c d rest ih =>
    rw [split_cons4]
    simp only [split, List.count_append] at ih
    simp only [List.count_append, List.count_cons]
    omega

/-- `bg4_split d` is a permutation of `d`. -/
theorem split_perm (d : Bytes) : (split d).Perm d :=
  List.perm_iff_count.mpr (split_count d)

/-! ### the other direction: `split (regroup g) = g` -/

/-- de-interleaving an interleaving of four lists whose lengths are non-increasing and differ by at most
one gives the four lists back -/
theorem group_interleave (g3 : Bytes) : ∀ (g0 g1 g2 : Bytes),
    g3.length ≤ g2.length → g2.length ≤ g1.length → g1.length ≤ g0.length → g0.length ≤ g3.length + 1 →
    group (interleave g0 g1 g2 g3) 0 = g0 ∧ group (interleave g0 g1 g2 g3) 1 = g1 ∧
    group (interleave g0 g1 g2 g3) 2 = g2 ∧ group (interleave g0 g1 g2 g3) 3 = g3 := by
  induction g3 with
  | nil =>
    intro g0 g1 g2 h32 h21 h10 h03
    match g0, g1, g2 with
    | [], [], [] => simp [interleave, group, stride4]
    | [a], [], [] => simp [interleave, group, stride4]
    | [a], [b], [] => simp [interleave, group, stride4]
    | [a], [b], [c] => simp [interleave, group, stride4]
    | [], _ :: _, _ => simp at h10
    | [], [], _ :: _ => simp at h21
    | [_], [], _ :: _ => simp at h21
    | _ :: _ :: _, _, _ => simp at h03
    | [_], _ :: _ :: _, _ => simp at h10
    | [_], [_], _ :: _ :: _ => simp at h21
  | cons d g3 ih =>
    intro g0 g1 g2 h32 h21 h10 h03
    match g0, g1, g2 with
    | a :: g0, b :: g1, c :: g2 =>
      simp only [List.length_cons] at h32 h21 h10 h03
      have := ih g0 g1 g2 (by omega) (by omega) (by omega) (by omega)
      rw [interleave, group0_cons4, group1_cons4, group2_cons4, group3_cons4,
        this.1, this.2.1, this.2.2.1, this.2.2.2]
      simp
    | [], _, _ => simp only [List.length_cons, List.length_nil] at h32 h21 h10; omega
    | _ :: _, [], _ => simp only [List.length_cons, List.length_nil] at h32 h21; omega
    | _ :: _, _ :: _, [] => simp at h32

/-- `bg4_split (bg4_regroup g) = g` for every byte list `g`: the two functions are mutually inverse
bijections on byte strings of each length. -/
theorem split_regroup (g : Bytes) : split (regroup g) = g := by
  have hs := sizes_sum g.length
  have h := group_interleave (g.drop (size0 g.length + size1 g.length + size2 g.length))
    (g.take (size0 g.length)) ((g.drop (size0 g.length)).take (size1 g.length))
    ((g.drop (size0 g.length + size1 g.length)).take (size2 g.length))
    (by simp only [List.length_take, List.length_drop]; unfold size0 size1 size2 at *; omega)
    (by simp only [List.length_take, List.length_drop]; unfold size0 size1 size2 at *; omega)
    (by simp only [List.length_take, List.length_drop]; unfold size0 size1 size2 at *; omega)
    (by simp only [List.length_take, List.length_drop]; unfold size0 size1 size2 at *; omega)
  unfold split regroup
  simp only []
  rw [h.1, h.2.1, h.2.2.1, h.2.2.2]
  simp only [← List.drop_drop, List.append_assoc, List.take_append_drop]

/-- `regroup` preserves the length. -/
theorem regroup_length (g : Bytes) : (regroup g).length = g.length := by
  have := split_length (regroup g)
  rw [split_regroup] at this
  exact this.symm

end Xet.Bg4
