//! Suite `bg4` (part of C07): the real `cas_object::byte_grouping::bg4::{bg4_split, bg4_regroup}` (unsafe
//! pointer arithmetic) against the list model `Xet.Bg4.{split, regroup}`; every length 0..=70, lengths
//! around multiples of 4 / 64 KiB / 128 KiB, random lengths up to 200 000 (thorough: 1 MiB), so every
//! residue of the length mod 4 (the three `match rem` tails); contents random, float-array-like, constant.
//! Answers are `len=<n> fnv=<FNV-1a 64 of the output>`.
//! Monitors on the implementation: regroup∘split = id, split∘regroup = id, length preserved, split is a
//! permutation (byte histogram), and the `_separate` / `combined_write_{4,8}` variants agree.
use std::panic::{catch_unwind, AssertUnwindSafe};

use cas_object::byte_grouping::bg4::{
    bg4_regroup, bg4_regroup_separate, bg4_regroup_together_combined_write_4, bg4_regroup_together_combined_write_8, bg4_split,
    bg4_split_separate,
};

use crate::ctx::{fnv, Ctx};
use crate::rng::Rng;

const KINDS: [&str; 6] = ["random", "f32", "f16", "bf16", "constant", "index"];

fn gen_content(rng: &mut Rng, kind: usize, n: usize) -> Vec<u8> {
    match kind {
        // incompressible
        0 => rng.bytes(n),
        // little-endian f32 of a smooth (linear) sequence: high bytes nearly constant, low bytes busy
        1 => {
            let base = (rng.below(2000) as f32) / 16.0 - 60.0;
            let step = (1 + rng.below(64)) as f32 / 1024.0;
            let mut v = Vec::with_capacity(n + 4);
            let mut i = 0u32;
            while v.len() < n {
                v.extend_from_slice(&(base + (i as f32) * step).to_le_bytes());
                i += 1;
            }
            v.truncate(n);
            v
        },
        // f16-like: sign/exponent fixed, mantissa walks slowly
        2 => {
            let step = 1 + rng.below(7) as u32;
            let mut v = Vec::with_capacity(n + 2);
            let mut i = 0u32;
            while v.len() < n {
                let h: u16 = 0x3c00 + ((i * step) % 1024) as u16;
                v.extend_from_slice(&h.to_le_bytes());
                i += 1;
            }
            v.truncate(n);
            v
        },
        // bf16-like: top 16 bits of the f32 sequence
        3 => {
            let base = (rng.below(500) as f32) / 8.0 + 1.0;
            let mut v = Vec::with_capacity(n + 2);
            let mut i = 0u32;
            while v.len() < n {
                let f = base + (i as f32) / 32.0;
                let h = (f.to_bits() >> 16) as u16;
                v.extend_from_slice(&h.to_le_bytes());
                i += 1;
            }
            v.truncate(n);
            v
        },
        4 => vec![rng.below(256) as u8; n],
        // position-revealing: byte i = i mod 251 (251 is coprime to 4, so a misplaced byte shows)
        _ => (0..n).map(|i| (i % 251) as u8).collect(),
    }
}

fn histogram(d: &[u8]) -> [u64; 256] {
    let mut h = [0u64; 256];
    for b in d {
        h[*b as usize] += 1;
    }
    h
}

fn ans(out: &[u8]) -> String {
    format!("len={} fnv={}", out.len(), fnv(out))
}

fn size_bucket(n: usize) -> &'static str {
    match n {
        0..=3 => "len_0-3",
        4..=70 => "len_4-70",
        71..=4099 => "len_71-4k",
        4100..=65539 => "len_4k-64k",
        _ => "len_64k+",
    }
}

fn one_case(ctx: &mut Ctx, idx: usize, kind: usize, data: &[u8]) {
    let n = data.len();
    let replay = format!("{{\"suite\":\"bg4\",\"seed\":{},\"case\":{},\"len\":{},\"kind\":\"{}\"}}", ctx.seed, idx, n, KINDS[kind]);
    let (off, len) = ctx.blob(data);

    let r = catch_unwind(AssertUnwindSafe(|| {
        let s = bg4_split(data);
        let back = bg4_regroup(&s);
        let rg = bg4_regroup(data);
        let rg_split = bg4_split(&rg);
        (s, back, rg, rg_split)
    }));
    let (s, back, rg, rg_split) = match r {
        Ok(x) => x,
        Err(_) => {
            ctx.op(&format!("bg4.split {off} {len}"), "panic");
            ctx.op(&format!("bg4.regroup {off} {len}"), "panic");
            ctx.fail("C07", "bg4-panic", format!("bg4_split/bg4_regroup panicked on {n} bytes ({})", KINDS[kind]), replay);
            return;
        },
    };

    // ---- differential ops: split(d); regroup(d) on the raw data; regroup(split d) on the split buffer
    ctx.op(&format!("bg4.split {off} {len}"), &ans(&s));
    ctx.op(&format!("bg4.regroup {off} {len}"), &ans(&rg));
    let (soff, slen) = ctx.blob(&s);
    ctx.op(&format!("bg4.regroup {soff} {slen}"), &ans(&back));

    // ---- monitors
    if s.len() != n || rg.len() != n {
        ctx.fail("C07", "bg4-length", format!("|bg4_split(d)| = {}, |bg4_regroup(d)| = {} for |d| = {n} ({})", s.len(), rg.len(), KINDS[kind]), replay.clone());
    }
    if back != data {
        ctx.fail("C07", "bg4-roundtrip", format!("bg4_regroup(bg4_split(d)) != d for |d| = {n} ({})", KINDS[kind]), replay.clone());
    }
    if rg_split != data {
        ctx.fail("C07", "bg4-roundtrip", format!("bg4_split(bg4_regroup(g)) != g for |g| = {n} ({})", KINDS[kind]), replay.clone());
    }
    if histogram(&s) != histogram(data) {
        ctx.fail("C07", "bg4-perm", format!("bg4_split(d) is not a permutation of d for |d| = {n} ({})", KINDS[kind]), replay.clone());
    }
    // position-exact reference: byte i of d sits in group i % 4 at index i / 4
    {
        let q = n / 4;
        let r = n % 4;
        let sz = [q + (r >= 1) as usize, q + (r >= 2) as usize, q + (r >= 3) as usize, q];
        let start = [0, sz[0], sz[0] + sz[1], sz[0] + sz[1] + sz[2]];
        if s.len() == n && !(0..n).all(|i| s[start[i % 4] + i / 4] == data[i]) {
            ctx.fail("C07", "bg4-perm", format!("bg4_split(d)[start(i%4) + i/4] != d[i] for some i, |d| = {n} ({})", KINDS[kind]), replay.clone());
        }
    }
    // the other public variants agree
    let v = catch_unwind(AssertUnwindSafe(|| {
        let groups = bg4_split_separate(data);
        let cat: Vec<u8> = groups.iter().flat_map(|g| g.iter().copied()).collect();
        let sep_back = bg4_regroup_separate(&groups);
        let w4 = bg4_regroup_together_combined_write_4(&s);
        let w8 = bg4_regroup_together_combined_write_8(&s);
        (cat, sep_back, w4, w8)
    }));
    match v {
        Ok((cat, sep_back, w4, w8)) => {
            if cat != s {
                ctx.fail("C07", "bg4-variants", format!("concat(bg4_split_separate(d)) != bg4_split(d) for |d| = {n} ({})", KINDS[kind]), replay.clone());
            }
            if sep_back != data {
                ctx.fail("C07", "bg4-roundtrip", format!("bg4_regroup_separate(bg4_split_separate(d)) != d for |d| = {n} ({})", KINDS[kind]), replay.clone());
            }
            if w4 != back || w8 != back {
                ctx.fail("C07", "bg4-variants", format!("bg4_regroup_together_combined_write_4/8 != bg4_regroup for |d| = {n} ({})", KINDS[kind]), replay.clone());
            }
        },
        Err(_) => ctx.fail("C07", "bg4-panic", format!("a bg4 *_separate / combined_write variant panicked on {n} bytes ({})", KINDS[kind]), replay.clone()),
    }

    ctx.stat(&format!("rem_{}", n % 4));
    ctx.stat(size_bucket(n));
    ctx.stat(&format!("kind_{}", KINDS[kind]));
    ctx.stat_add("bytes", n as u64);
    // non-trivial: at least two full groups of four and contents for which a misplaced byte is visible
    ctx.case(fnv(data) ^ (n as u64).rotate_left(40) ^ 0xb64, n >= 8 && kind != 4);
}

pub fn run(ctx: &mut Ctx) {
    let quick = ctx.quick();
    let mut rng = ctx.rng.fork(0xb64);
    let mut cases: Vec<(usize, usize)> = Vec::new(); // (kind, len)

    // every length 0..=70, each with random and position-revealing contents, plus one other kind
    for n in 0..=70usize {
        cases.push((0, n));
        cases.push((5, n));
        cases.push((1 + (n % 4), n));
    }
    // around multiples of four / the xorb chunk-size landmarks
    let mut centres: Vec<usize> = vec![1024, 4096, 8192, 65536];
    for _ in 0..(if quick { 3 } else { 30 }) {
        centres.push(4 * rng.range(20, 20_000) as usize);
    }
    for c in centres {
        for d in -3i64..=3 {
            let n = (c as i64 + d) as usize;
            cases.push((rng.below(4) as usize, n));
            if d != 0 && (quick && c != 65536) { continue; }
            cases.push((5, n));
        }
    }
    for k in 0..KINDS.len() { cases.push((k, 131072)); }
    cases.push((0, 131071));
    cases.push((1, 131073));
    // random lengths
    let nrand = if quick { 40 } else { 400 };
    for i in 0..nrand {
        let n = rng.below(200_001) as usize;
        cases.push((i % KINDS.len(), n));
    }
    if !quick {
        for n in [(1usize << 20) - 1, 1 << 20, (1 << 20) + 1, (1 << 20) + 2] {
            cases.push((rng.below(4) as usize, n));
        }
    }

    for (idx, (kind, n)) in cases.into_iter().enumerate() {
        let mut r = ctx.rng.fork(10_000 + idx as u64);
        let data = gen_content(&mut r, kind, n);
        one_case(ctx, idx, kind, &data);
    }
}
