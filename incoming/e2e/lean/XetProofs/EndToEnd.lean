/-
Glue layer for the end-to-end composition of C01 (`XetProps/C01EndToEnd.lean`): connects
  * the chunker model (`XetModel/Chunker.lean`) and the file cleaner (`XetModel/Session.lean`),
  * the abstract upload model (`XetModel/Dedup.lean`, resolution semantics of `XetProofs/DedupResolve*.lean`),
  * the xorb wire format (`XetModel/XorbFormat.lean`),
  * the downloader (`XetModel/Reconstruct.lean`).

New *definitions* of this file (everything else is a lemma about existing model functions):
  * `absXorbs`, `xorbIdx`, `termOf`, `planTerms`, `Response`, `ServerResponse`: the reconstruction response
    that the CAS server derives from a file record.  The server is **outside xet-core**; these definitions
    state what a correct server returns (one term per segment of the record, any window of terms that
    contains the requested byte range, any fetch ranges that contain their terms).
  * `serOf`, `ObjFor`, `Holds`: the blob store holds, for every abstract xorb, the bytes written by
    `CasObject::serialize` (any per-chunk compression schemes).
  * `fetchBytes`, `fetchTermC`, `getOneTermC`, `downloadSeq`, `downloadPar`: the downloader of
    `XetModel/Reconstruct.lean` with its abstract `download` (chunk range ↦ chunks) replaced by the byte-level
    path "server computes the url byte range from the xorb footer (`get_byte_offset`), blob store returns that
    byte slice, client runs `deserialize_chunks_from_stream`"; `trim`, `checkLen`, `findFetch`, `seqWrite`,
    `parWrite` are the functions of `XetModel/Reconstruct.lean` themselves.
  * `cleanerCalls`: the `process_chunks` calls `SingleFileCleaner::{add_data_impl, finish}` makes.
Core Lean only.
-/
import XetModel.Session
import XetProofs.DedupResolveWorld
import XetProofs.Chunker
import XetProofs.XorbFormat
import XetProofs.Bg4
import XetProofs.Reconstruct

set_option linter.unusedSimpArgs false

namespace Xet.E2E

open Xet.Shard (Seg FileInfo)
open Xet.Dedup (DChunk storeFind resolveSeg resolveFile rangeOf slice dataSize SegGood)
open Xet.Recon (CRange Term Fetched Plan Cache chunkSlice byteIndices chunksOf findFetch trim checkLen
  seqWrite parWrite WFTerm WFPlan OffsetOK RangeOK CacheFaithful)

/-! ## 1. chunker → cleaner → deduper -/

/-- the `process_chunks` calls one `SingleFileCleaner` makes when `add_data_impl` is called with the given
    pieces and then `finish`: per piece `chunker.next_block(piece, false)` and one call with the completed
    chunks *unless there are none*; at `finish` one call with the flushed last chunk, if any
    (`Session.Clean.addDataImpl`, `Session.Clean.finish`). -/
def cleanerCalls (P : HashPrims) (p : Chunker.Params) : Chunker.State → List Bytes → List (List DChunk)
  | s, [] =>
    match Chunker.finish p s with
    | some c => [Session.mkChunks P [c]]
    | none => []
  | s, piece :: rest =>
    let r := Chunker.nextBlock p s piece false
    if r.chunks.isEmpty then cleanerCalls P p r.st rest
    else Session.mkChunks P r.chunks :: cleanerCalls P p r.st rest

theorem mkChunks_append (P : HashPrims) (a b : List Bytes) :
    Session.mkChunks P (a ++ b) = Session.mkChunks P a ++ Session.mkChunks P b := by
  simp [Session.mkChunks]

theorem cleanerCalls_flatten (P : HashPrims) (p : Chunker.Params) (parts : List Bytes) (s : Chunker.State) :
    (cleanerCalls P p s parts).flatten =
      Session.mkChunks P ((Chunker.feedParts p s parts).chunks ++
        (match Chunker.finish p (Chunker.feedParts p s parts).st with
         | some c => [c]
         | none => [])) := by
  induction parts generalizing s with
  | nil =>
    simp only [cleanerCalls, Chunker.feedParts, List.nil_append]
    cases Chunker.finish p s <;> simp [Session.mkChunks]
  | cons piece rest ih =>
    simp only [cleanerCalls, Chunker.feedParts]
    split
    · rename_i he
      have : (Chunker.nextBlock p s piece false).chunks = [] := by simpa using he
      rw [ih, this, List.nil_append]
    · rw [List.flatten_cons, ih, ← mkChunks_append, List.append_assoc]

/-- the chunks fed by the cleaner over all its `process_chunks` calls are the chunker's chunks of the
    stream, each paired with its data hash -/
theorem cleanerCalls_fed (P : HashPrims) (p : Chunker.Params) (parts : List Bytes) :
    (cleanerCalls P p Chunker.State.init parts).flatten = Session.mkChunks P (Chunker.feed p parts) := by
  rw [cleanerCalls_flatten]
  simp only [Chunker.feed]
  cases h : Chunker.finish p (Chunker.feedParts p Chunker.State.init parts).st <;> simp

theorem mkChunks_data (P : HashPrims) (cs : List Bytes) : (Session.mkChunks P cs).map (·.data) = cs := by
  simp [Session.mkChunks, Function.comp_def]

theorem mkChunks_mem {P : HashPrims} {cs : List Bytes} {c : DChunk} (h : c ∈ Session.mkChunks P cs) :
    c.data ∈ cs ∧ c.hash = P.dataHash c.data := by
  simp only [Session.mkChunks, List.mem_map] at h
  obtain ⟨b, hb, rfl⟩ := h
  exact ⟨hb, rfl⟩

/-! ## 2. abstract store → reconstruction response -/

/-- the abstract store as the downloader model sees it: xorb index ↦ chunk contents -/
def absXorbs (W : List Dedup.Xorb) : List (List Bytes) := W.map fun x => x.chunks.map (·.data)

/-- position of the first xorb named `h` (the downloader model addresses xorbs by an index, the code by
    hash; `storeFind` is the first match) -/
def xorbIdx : List Dedup.Xorb → Hash → Nat
  | [], _ => 0
  | x :: xs, h => if x.hash == h then 0 else xorbIdx xs h + 1

theorem xorbIdx_spec {W : List Dedup.Xorb} {h : Hash} {x : Dedup.Xorb} (hf : storeFind W h = some x) :
    W[xorbIdx W h]? = some x := by
  induction W with
  | nil => simp [storeFind] at hf
  | cons y ys ih =>
    unfold storeFind at hf ih
    rw [List.find?_cons] at hf
    unfold xorbIdx
    split at hf
    · rename_i hy
      simp only [Option.some.injEq] at hf
      subst hf
      have : y.hash = h := by simpa using hy
      simp [this]
    · rename_i hy
      simp only [hy, Bool.false_eq_true, if_false, List.getElem?_cons_succ]
      exact ih hf

/-- `CASReconstructionTerm` of one segment of a file record: xorb, chunk range, `unpacked_length` -/
def termOf (W : List Dedup.Xorb) (s : Seg) : Term := ⟨xorbIdx W s.casHash, ⟨s.cstart, s.cend⟩, s.bytes⟩

/-- one term per segment, in order -/
def planTerms (W : List Dedup.Xorb) (fi : FileInfo) : List Term := fi.segs.map (termOf W)

/-- `QueryReconstructionResponse { offset_into_first_range, terms, fetch_info }` -/
structure Response where
  terms : List Term
  fetch : List (Nat × List CRange)
  offset : Nat

def Response.toPlan (R : Response) (xorbs : List (List Bytes)) : Plan := ⟨xorbs, R.terms, R.fetch, R.offset⟩

/-- number of chunks of the xorb at index `k` -/
def nChunks (W : List Dedup.Xorb) (k : Nat) : Nat :=
  match W[k]? with
  | some x => x.chunks.length
  | none => 0

/-- the fetch info lists, for the term's xorb, chunk ranges inside the xorb, one of which contains the term -/
def FetchCovers (W : List Dedup.Xorb) (fetch : List (Nat × List CRange)) (t : Term) : Prop :=
  ∃ fis, fetch.lookup t.xorb = some fis ∧
    (∀ fr ∈ fis, fr.start < fr.stop ∧ fr.stop ≤ nChunks W t.xorb) ∧
    (∃ fr ∈ fis, fr.start ≤ t.range.start ∧ t.range.stop ≤ fr.stop)

def segsLen (l : List Seg) : Nat := (l.map (·.bytes)).sum

/-- the window `[i, j)` of segments returned for the byte range `[a, b)`: the skipped leading segments
    plus the offset into the first returned one make up `a`; the offset lies in the first returned
    segment (`≤`; the server guarantees `<`); the returned segments reach at least to `b`.  (The server
    returns the minimal window; any window with these properties is allowed here.) -/
def Window (fi : FileInfo) (a b i j off : Nat) : Prop :=
  i < j ∧ j ≤ fi.segs.length ∧ off + segsLen (fi.segs.take i) = a ∧
  off ≤ segsLen ((fi.segs.drop i).take 1) ∧ b ≤ segsLen (fi.segs.take j)

instance (fi : FileInfo) (a b i j off : Nat) : Decidable (Window fi a b i j off) := by
  unfold Window; infer_instance

/-- **what a correct CAS server returns** for the record `fi` (outside xet-core; recorded assumption):
    without a byte range all terms and offset 0; with a byte range `[a, b)` a window of terms with the
    offset into the first; in both cases fetch info covering every returned term. -/
def ServerResponse (W : List Dedup.Xorb) (fi : FileInfo) : Option CRange → Response → Prop
  | none, R => R.terms = planTerms W fi ∧ R.offset = 0 ∧ ∀ t ∈ R.terms, FetchCovers W R.fetch t
  | some r, R =>
    (∃ i j, Window fi r.start r.stop i j R.offset ∧ R.terms = ((planTerms W fi).drop i).take (j - i)) ∧
    ∀ t ∈ R.terms, FetchCovers W R.fetch t

/-- the requested bytes of a file -/
def sliceOf (bs : Bytes) : Option CRange → Bytes
  | none => bs
  | some r => (bs.drop r.start).take (r.stop - r.start)

/-- the bytes a segment denotes in the store (`[]` if it does not resolve) -/
def segData (W : List Dedup.Xorb) (s : Seg) : Bytes :=
  match resolveSeg W [] s with
  | some r => (r.map (·.data)).flatten
  | none => []

theorem segData_flatten {W : List Dedup.Xorb} {segs : List Seg} {cs : List DChunk}
    (h : resolveFile W [] segs = some cs) :
    (segs.map (segData W)).flatten = (cs.map (·.data)).flatten := by
  induction segs generalizing cs with
  | nil =>
    rw [Dedup.res_resolveFile_nil] at h
    simp only [Option.some.injEq] at h
    subst h; rfl
  | cons s rest ih =>
    rw [Dedup.res_resolveFile_cons] at h
    cases hs : resolveSeg W [] s with
    | none => simp [hs] at h
    | some a =>
      cases hr : resolveFile W [] rest with
      | none => simp [hs, hr] at h
      | some b =>
        simp only [hs, hr, Option.some.injEq] at h
        subst h
        simp [segData, hs, ih hr]

theorem dataSize_eq (r : List DChunk) : dataSize r = ((r.map (·.data)).flatten).length := by
  simp [dataSize, List.length_flatten, List.map_map, Function.comp_def]

/-- a non-zero segment that resolves names a store xorb by index and a chunk range inside it -/
theorem term_of_seg {W : List Dedup.Xorb} {s : Seg} {r : List DChunk}
    (hz : s.casHash ≠ Hash.zero) (hr : resolveSeg W [] s = some r) :
    ∃ x, W[xorbIdx W s.casHash]? = some x ∧ s.cstart < s.cend ∧ s.cend ≤ x.chunks.length ∧
      r = slice x.chunks s.cstart s.cend := by
  rw [Dedup.res_resolveSeg_nonzero hz] at hr
  cases hf : storeFind W s.casHash with
  | none => simp [hf] at hr
  | some x =>
    simp only [hf] at hr
    obtain ⟨h1, h2, h3⟩ := Dedup.res_rangeOf_some hr
    exact ⟨x, xorbIdx_spec hf, h1, h2, h3⟩

theorem chunksOf_abs {W : List Dedup.Xorb} {k : Nat} {x : Dedup.Xorb} (h : W[k]? = some x) :
    chunksOf (absXorbs W) k = x.chunks.map (·.data) := by
  simp [chunksOf, absXorbs, List.getElem?_map, h]

theorem nChunks_of {W : List Dedup.Xorb} {k : Nat} {x : Dedup.Xorb} (h : W[k]? = some x) :
    nChunks W k = x.chunks.length := by
  simp [nChunks, h]

/-- every chunk of every xorb of the store has at least one byte -/
def StoreChunksNE (W : List Dedup.Xorb) : Prop := ∀ x ∈ W, ∀ c ∈ x.chunks, c.data ≠ []

instance (W : List Dedup.Xorb) : Decidable (StoreChunksNE W) := by unfold StoreChunksNE; infer_instance

/-- the term of a good segment is a well-formed term of the downloader model, and stands for the
    segment's bytes -/
theorem wfTerm_seg {W : List Dedup.Xorb} (hne : StoreChunksNE W) (p : Plan) (hp : p.xorbs = absXorbs W)
    {s : Seg} (hz : s.casHash ≠ Hash.zero) (hg : SegGood W [] s) :
    p.termBytes (termOf W s) = segData W s ∧ (segData W s).length = s.bytes ∧
    (FetchCovers W p.fetch (termOf W s) → WFTerm p (termOf W s)) := by
  obtain ⟨r, hr, hb⟩ := hg
  obtain ⟨x, hx, h1, h2, h3⟩ := term_of_seg hz hr
  have hco : chunksOf p.xorbs (termOf W s).xorb = x.chunks.map (·.data) := by
    rw [hp]; exact chunksOf_abs hx
  have htb : p.termBytes (termOf W s) = segData W s := by
    simp only [Plan.termBytes, hco, segData, hr, h3]
    simp [chunkSlice, slice, termOf, List.map_take, List.map_drop]
  have hlen : (segData W s).length = s.bytes := by
    rw [hb, dataSize_eq]; simp [segData, hr]
  refine ⟨htb, hlen, ?_⟩
  rintro ⟨fis, hlk, hv, hc⟩
  unfold WFTerm
  rw [hlk, hco, htb, hlen]
  refine ⟨?_, h1, (by simp only [List.length_map]; exact h2), ?_, rfl, ?_, hc⟩
  · rw [hp]
    have : xorbIdx W s.casHash < W.length := by
      rcases Nat.lt_or_ge (xorbIdx W s.casHash) W.length with h | h
      · exact h
      · rw [List.getElem?_eq_none h] at hx; simp at hx
    simpa [absXorbs, termOf] using this
  · intro c hc'
    simp only [List.mem_map] at hc'
    obtain ⟨d, hd, rfl⟩ := hc'
    exact hne x (List.mem_of_getElem? hx) d hd
  · intro fr hfr
    have := hv fr hfr
    have e : nChunks W (termOf W s).xorb = x.chunks.length := nChunks_of hx
    rw [e] at this
    simpa using this

theorem segsLen_eq {W : List Dedup.Xorb} (l : List Seg) (h : ∀ s ∈ l, (segData W s).length = s.bytes) :
    ((l.map (segData W)).flatten).length = segsLen l := by
  induction l with
  | nil => rfl
  | cons s rest ih =>
    simp only [List.map_cons, List.flatten_cons, List.length_append, segsLen, List.sum_cons]
    rw [h s (by simp), ih (fun s' hs' => h s' (by simp [hs']))]
    rfl

/-- pure list fact: the requested slice of the whole equals the slice (by offset) of a window that
    contains it -/
theorem window_slice (D : List Bytes) (i j off a b : Nat) (hij : i ≤ j)
    (ha : off + (D.take i).flatten.length = a) (hb : b ≤ (D.take j).flatten.length) (hab : a ≤ b) :
    off + (b - a) ≤ ((D.drop i).take (j - i)).flatten.length ∧
    ((((D.drop i).take (j - i)).flatten).drop off).take (b - a) = (D.flatten.drop a).take (b - a) := by
  have e1 := Recon.flatten_take_split D i j hij
  have e2 := Recon.flatten_split D j
  rw [e1] at e2 hb
  generalize ((D.drop i).take (j - i)).flatten = mid at *
  generalize (D.take i).flatten = pre at *
  generalize (D.drop j).flatten = post at *
  rw [e2]
  simp only [List.length_append] at hb
  have hlen : off + (b - a) ≤ mid.length := by omega
  refine ⟨hlen, ?_⟩
  subst ha
  rw [List.append_assoc, Nat.add_comm off, List.drop_length_add_append,
    List.drop_append_of_le_length (by omega), List.take_append_of_le_length (by simp; omega)]

theorem mem_window {α} {l : List α} {i n : Nat} {x : α} (h : x ∈ (l.drop i).take n) : x ∈ l :=
  List.mem_of_mem_drop (List.mem_of_mem_take h)

/-- **the response of a correct server is a well-formed plan of the downloader model, and the bytes the
    model is specified to produce for it are the requested slice of the file** -/
theorem response_ok {W : List Dedup.Xorb} {fi : FileInfo} {cs : List DChunk}
    (hne : StoreChunksNE W)
    (hres : resolveFile W [] fi.segs = some cs)
    (hsegs : ∀ s ∈ fi.segs, s.casHash ≠ Hash.zero ∧ SegGood W [] s)
    (range : Option CRange) (R : Response) (hR : ServerResponse W fi range R)
    (hbs : (cs.map (·.data)).flatten ≠ [])
    (hrange : ∀ r, range = some r → r.start ≤ r.stop ∧ r.stop ≤ ((cs.map (·.data)).flatten).length) :
    WFPlan (R.toPlan (absXorbs W)) range ∧
    Recon.expected (R.toPlan (absXorbs W)) range = sliceOf ((cs.map (·.data)).flatten) range := by
  have hD := segData_flatten hres
  generalize hp : R.toPlan (absXorbs W) = p
  have hpx : p.xorbs = absXorbs W := by rw [← hp]; rfl
  have hpt : p.terms = R.terms := by rw [← hp]; rfl
  have hpf : p.fetch = R.fetch := by rw [← hp]; rfl
  have hpo : p.offset = R.offset := by rw [← hp]; rfl
  have hseg : ∀ s ∈ fi.segs, p.termBytes (termOf W s) = segData W s ∧ (segData W s).length = s.bytes ∧
      (FetchCovers W p.fetch (termOf W s) → WFTerm p (termOf W s)) :=
    fun s hs => wfTerm_seg hne p hpx (hsegs s hs).1 (hsegs s hs).2
  have hmapTB : ∀ l : List Seg, (∀ s ∈ l, s ∈ fi.segs) →
      (l.map (termOf W)).map p.termBytes = l.map (segData W) := by
    intro l hl
    rw [List.map_map]
    exact List.map_congr_left (fun s hs => (hseg s (hl s hs)).1)
  cases range with
  | none =>
    obtain ⟨ht, ho, hf⟩ := hR
    have hall : p.allBytes = (cs.map (·.data)).flatten := by
      unfold Plan.allBytes
      rw [hpt, ht, planTerms, hmapTB _ (fun s hs => hs), hD]
    refine ⟨⟨?_, ?_, ?_⟩, ?_⟩
    · intro t htm
      rw [hpt] at htm
      have hfc := hf t htm
      rw [ht, planTerms, List.mem_map] at htm
      obtain ⟨s, hs, rfl⟩ := htm
      exact (hseg s hs).2.2 (by rw [hpf]; exact hfc)
    · unfold OffsetOK
      rw [hpt, ht, planTerms, hpo, ho]
      cases hsg : fi.segs with
      | nil => rw [hsg] at hD; exact hbs hD.symm
      | cons s rest => simp
    · show p.offset = 0
      rw [hpo, ho]
    · simp only [Recon.expected, Recon.reqLen, hpo, ho, hall, sliceOf, List.drop_zero, List.take_length]
  | some r =>
    obtain ⟨⟨i, j, ⟨hwlt, hwle, hwstart, hwfirst, hwstop⟩, ht⟩, hf⟩ := hR
    obtain ⟨hr1, hr2⟩ := hrange r rfl
    have hterms : R.terms = ((fi.segs.drop i).take (j - i)).map (termOf W) := by
      rw [ht, planTerms, List.map_take, List.map_drop]
    have hall : p.allBytes = (((fi.segs.map (segData W)).drop i).take (j - i)).flatten := by
      unfold Plan.allBytes
      rw [hpt, hterms, hmapTB _ (fun s hs => mem_window hs), List.map_take, List.map_drop]
    have hpre : ((fi.segs.map (segData W)).take i).flatten.length = segsLen (fi.segs.take i) := by
      rw [← List.map_take]
      exact segsLen_eq _ (fun s hs => (hseg s (List.mem_of_mem_take hs)).2.1)
    have hupto : ((fi.segs.map (segData W)).take j).flatten.length = segsLen (fi.segs.take j) := by
      rw [← List.map_take]
      exact segsLen_eq _ (fun s hs => (hseg s (List.mem_of_mem_take hs)).2.1)
    obtain ⟨w1, w2⟩ := window_slice (fi.segs.map (segData W)) i j R.offset r.start r.stop (by omega)
      (by rw [hpre]; exact hwstart) (by rw [hupto]; exact hwstop) hr1
    refine ⟨⟨?_, ?_, ?_⟩, ?_⟩
    · intro t htm
      rw [hpt] at htm
      have hfc := hf t htm
      rw [hterms, List.mem_map] at htm
      obtain ⟨s, hs, rfl⟩ := htm
      exact (hseg s (mem_window hs)).2.2 (by rw [hpf]; exact hfc)
    · unfold OffsetOK
      have hlt : i < (planTerms W fi).length := by
        simp [planTerms]; omega
      obtain ⟨n, hn⟩ : ∃ n, j - i = n + 1 := ⟨j - i - 1, by omega⟩
      rw [hpt, ht, hn, List.drop_eq_getElem_cons hlt, List.take_succ_cons, hpo]
      have hi : i < fi.segs.length := by omega
      rw [List.drop_eq_getElem_cons hi] at hwfirst
      simp only [List.take_succ_cons, List.take_zero, segsLen, List.map_cons, List.map_nil, List.sum_cons,
        List.sum_nil, Nat.add_zero] at hwfirst
      simpa [planTerms, termOf] using hwfirst
    · show r.start ≤ r.stop ∧ p.offset + (r.stop - r.start) ≤ p.allBytes.length
      rw [hpo, hall]
      exact ⟨hr1, w1⟩
    · simp only [Recon.expected, Recon.reqLen, hpo, hall, sliceOf, w2, hD]

/-! ## 3. the blob store holds serialized xorbs; byte-level fetch -/

/-- what `CasObject::serialize` produces for an abstract xorb: object hash, the chunk contents, the chunk
    hashes, one compression scheme per chunk (`SerializedCasObject::from_xorb`) -/
def serOf (C : Xorb.Codec) (x : Dedup.Xorb) (schemes : List Xorb.Scheme) : Xorb.Serialized :=
  Xorb.serialize C x.hash (x.chunks.map (·.data)) (x.chunks.map (·.hash)) schemes

/-- `obj` is a serialization of `x` under *some* per-chunk schemes, and fits the format's `u32` fields -/
def ObjFor (C : Xorb.Codec) (x : Dedup.Xorb) (obj : Bytes) : Prop :=
  ∃ schemes : List Xorb.Scheme, schemes.length = x.chunks.length ∧ obj = (serOf C x schemes).bytes ∧
    obj.length < 2 ^ 32 ∧ dataSize x.chunks < 2 ^ 32

/-- the blob store (`objs`, addressed like the abstract store) holds a serialization of every non-empty
    abstract xorb -/
def Holds (C : Xorb.Codec) (W : List Dedup.Xorb) (objs : List Bytes) : Prop :=
  ∀ (k : Nat) (x : Dedup.Xorb), W[k]? = some x → x.chunks ≠ [] → ∃ obj, objs[k]? = some obj ∧ ObjFor C x obj

/-- `download_range` at byte level.  Server side (outside xet-core, uses `cas_object`): parse the footer of
    the stored object, `get_byte_offset(fr.start, fr.end)` gives the url byte range.  Blob store: that byte
    slice.  Client side: `deserialize_chunks_from_stream` (the async chunk decoder) yields the data and
    the chunk byte indices.  Any failure is reported as `notFound` (only success is claimed). -/
def fetchBytes (C : Xorb.Codec) (maxChunk : Nat) (objs : List Bytes) (x : Nat) (fr : CRange) : Except Recon.Err Fetched :=
  match objs[x]? with
  | none => .error .notFound
  | some obj =>
    match Xorb.deserialize obj with
    | .error _ => .error .notFound
    | .ok cas =>
      match Xorb.getByteOffset cas fr.start fr.stop with
      | .error _ => .error .notFound
      | .ok be =>
        match Xorb.deserializeChunks (Xorb.deserializeChunkAsync C maxChunk) ((obj.drop be.1).take (be.2 - be.1)) with
        | .error _ => .error .notFound
        | .ok r => .ok ⟨r.data, r.indices⟩

/-- `get_one_term` after a cache miss, over the byte-level fetch (`Recon.fetchTerm` with `download`
    replaced by `fetchBytes`) -/
def fetchTermC (C : Xorb.Codec) (maxChunk : Nat) (objs : List Bytes) (R : Response) (t : Term) : Except Recon.Err Bytes :=
  match R.fetch.lookup t.xorb with
  | none => .error .invalidArguments
  | some fis =>
    match findFetch fis t.range with
    | none => .error .invalidArguments
    | some fr =>
      match fetchBytes C maxChunk objs t.xorb fr with
      | .error e => .error e
      | .ok f =>
        match trim f fr t.range with
        | .error e => .error e
        | .ok d => checkLen d t

/-- `get_one_term` (`Recon.getOneTerm` over `fetchTermC`) -/
def getOneTermC (C : Xorb.Codec) (maxChunk : Nat) (objs : List Bytes) (R : Response) (cache : Option Cache) (t : Term) :
    Except Recon.Err Bytes :=
  if t.range.stop < t.range.start then .error .invalidRange
  else
    match cache with
    | none => fetchTermC C maxChunk objs R t
    | some c =>
      match c t.xorb t.range with
      | some d => .ok d
      | none => fetchTermC C maxChunk objs R t

def resultsC (C : Xorb.Codec) (maxChunk : Nat) (objs : List Bytes) (R : Response) (cache : Option Cache) :
    List (Except Recon.Err Bytes) := R.terms.map (getOneTermC C maxChunk objs R cache)

/-- `RemoteClient::reconstruct_file_to_writer` over the byte-level store -/
def downloadSeq (C : Xorb.Codec) (maxChunk : Nat) (objs : List Bytes) (R : Response) (cache : Option Cache)
    (range : Option CRange) : Except Recon.Err Recon.WriteResult :=
  seqWrite (resultsC C maxChunk objs R cache) (R.terms.map (·.unpackedLen)) R.offset range

/-- `RemoteClient::reconstruct_file_to_writer_parallel` over the byte-level store -/
def downloadPar (C : Xorb.Codec) (maxChunk : Nat) (objs : List Bytes) (R : Response) (cache : Option Cache)
    (range : Option CRange) : Except Recon.Err Recon.ParPlan :=
  parWrite (resultsC C maxChunk objs R cache) (R.terms.map (·.unpackedLen)) R.offset range

theorem byteIndices_eq (l : List Bytes) (acc : Nat) :
    byteIndices l acc = acc :: Xorb.runningSums acc (l.map (·.length)) := by
  induction l generalizing acc with
  | nil => rfl
  | cons c cs ih => simp [byteIndices, Xorb.runningSums, ih]

/-- **byte-level fetch = abstract fetch** on a serialized object: for every chunk range inside the
    object the bytes the server cuts out decode to exactly the chunks of the range and their byte
    indices (C07: footer round trip, boundary table, chunk decoder) -/
theorem fetchBytes_serialized (C : Xorb.Codec) (hC : C.RoundTrip) (maxChunk : Nat) (hmax : maxChunk * 2 < 2 ^ 24)
    (objs : List Bytes) (k : Nat) (h : Hash) (cs : List Bytes) (hashes : List Hash) (schemes : List Xorb.Scheme)
    (ok : Xorb.SerOK C maxChunk h cs hashes schemes)
    (hobj : objs[k]? = some (Xorb.serialize C h cs hashes schemes).bytes)
    (fr : CRange) (h1 : fr.start < fr.stop) (h2 : fr.stop ≤ cs.length) :
    fetchBytes C maxChunk objs k fr = .ok ⟨(chunkSlice cs fr).flatten, byteIndices (chunkSlice cs fr) 0⟩ := by
  have hmono := Xorb.physOff_mono C (cs.zip schemes) fr.start fr.stop (by omega)
  have hle := Xorb.physOff_le C (cs.zip schemes) fr.stop
  have hslice : (((Xorb.serialize C h cs hashes schemes).bytes.drop (Xorb.physOff C (cs.zip schemes) fr.start)).take
      (Xorb.physOff C (cs.zip schemes) fr.stop - Xorb.physOff C (cs.zip schemes) fr.start))
      = Xorb.serChunks C (((cs.zip schemes).drop fr.start).take (fr.stop - fr.start)) := by
    rw [Xorb.serialize_bytes, List.append_assoc, Xorb.slice_append _ _ _ _ hmono hle,
      Xorb.serChunks_slice C _ _ _ (by omega)]
  have hps : ∀ p ∈ ((cs.zip schemes).drop fr.start).take (fr.stop - fr.start), p.1.length ≤ maxChunk := by
    intro p hp
    exact ok.chunkMax p.1 (List.of_mem_zip (mem_window hp)).1
  have e : (((cs.zip schemes).drop fr.start).take (fr.stop - fr.start)).map (·.1) = chunkSlice cs fr := by
    simp only [List.map_take, List.map_drop, Xorb.map_fst_zip_eq cs schemes ok.schemesLen, chunkSlice]
  have e2 : (((cs.zip schemes).drop fr.start).take (fr.stop - fr.start)).map (fun p => p.1.length)
      = (chunkSlice cs fr).map (·.length) := by
    rw [← e, List.map_map]; rfl
  unfold fetchBytes
  simp only [hobj, Xorb.deserialize_serialize C maxChunk h cs hashes schemes ok,
    Xorb.getByteOffset_serialize C maxChunk h cs hashes schemes ok fr.start fr.stop h1 h2, hslice,
    Xorb.deserializeChunks_serChunks C maxChunk _ (Xorb.goodDecoder_async C hC Bg4.regroup_split maxChunk hmax) _ hps,
    e, e2, byteIndices_eq]

/-- hypotheses on the chunk sizes of the store: between 1 and `maxChunk` (= `MAXIMUM_CHUNK_SIZE`) bytes -/
def StoreChunkSizes (maxChunk : Nat) (W : List Dedup.Xorb) : Prop :=
  ∀ x ∈ W, ∀ c ∈ x.chunks, c.data ≠ [] ∧ c.data.length ≤ maxChunk

instance (maxChunk : Nat) (W : List Dedup.Xorb) : Decidable (StoreChunkSizes maxChunk W) := by
  unfold StoreChunkSizes; infer_instance

/-- the serialization hypotheses of C07 hold for a stored object of a non-empty xorb of a store without
    zero names -/
theorem serOK_of {C : Xorb.Codec} {maxChunk : Nat} {W : List Dedup.Xorb} (hZ : Dedup.NoZeroName W)
    (hsz : StoreChunkSizes maxChunk W) {x : Dedup.Xorb} (hx : x ∈ W) (hne : x.chunks ≠ [])
    {schemes : List Xorb.Scheme} (hl : schemes.length = x.chunks.length)
    (h32 : (serOf C x schemes).bytes.length < 2 ^ 32) (hd : dataSize x.chunks < 2 ^ 32) :
    Xorb.SerOK C maxChunk x.hash (x.chunks.map (·.data)) (x.chunks.map (·.hash)) schemes := by
  refine ⟨?_, by simp, by simpa using hl, ?_, hZ x hx hne, h32, ?_⟩
  · have : 0 < x.chunks.length := List.length_pos_iff.mpr hne
    simp only [List.length_map]; omega
  · intro c hc
    simp only [List.mem_map] at hc
    obtain ⟨d, hd', rfl⟩ := hc
    exact (hsz x hx d hd').2
  · simpa [dataSize, List.map_map, Function.comp_def] using hd

/-- on a store that holds serializations, the byte-level fetch of every chunk range inside a xorb agrees
    with the abstract `download` of the downloader model -/
theorem fetchBytes_eq_download {C : Xorb.Codec} (hC : C.RoundTrip) {maxChunk : Nat} (hmax : maxChunk * 2 < 2 ^ 24)
    {W : List Dedup.Xorb} (hZ : Dedup.NoZeroName W) (hsz : StoreChunkSizes maxChunk W)
    {objs : List Bytes} (hobjs : Holds C W objs) (k : Nat) (fr : CRange)
    (h1 : fr.start < fr.stop) (h2 : fr.stop ≤ nChunks W k) :
    fetchBytes C maxChunk objs k fr = Recon.download (absXorbs W) k fr := by
  cases hk : W[k]? with
  | none => simp [nChunks, hk] at h2; omega
  | some x =>
    rw [nChunks_of hk] at h2
    have hne : x.chunks ≠ [] := by
      intro he; rw [he] at h2; simp at h2; omega
    obtain ⟨obj, ho, schemes, hl, rfl, h32, hd⟩ := hobjs k x hk hne
    have ok := serOK_of hZ hsz (List.mem_of_getElem? hk) hne hl h32 hd
    rw [fetchBytes_serialized C hC maxChunk hmax objs k _ _ _ schemes ok ho fr h1 (by simpa using h2)]
    simp [Recon.download, absXorbs, List.getElem?_map, hk]

/-- `get_bytes_by_chunk_range` (the `LocalClient` path) on a stored object returns the chunk range's bytes -/
theorem getBytesByChunkRange_obj {C : Xorb.Codec} (hC : C.RoundTrip) {maxChunk : Nat} (hmax : maxChunk * 2 < 2 ^ 24)
    {W : List Dedup.Xorb} (hZ : Dedup.NoZeroName W) (hsz : StoreChunkSizes maxChunk W)
    {x : Dedup.Xorb} (hx : x ∈ W) {schemes : List Xorb.Scheme} (hl : schemes.length = x.chunks.length)
    (h32 : (serOf C x schemes).bytes.length < 2 ^ 32) (hd : dataSize x.chunks < 2 ^ 32)
    (i j : Nat) (hij : i < j) (hj : j ≤ x.chunks.length) :
    Xorb.getBytesByChunkRange C maxChunk (serOf C x schemes).cas (serOf C x schemes).bytes i j
      = .ok (((slice x.chunks i j).map (·.data)).flatten) := by
  have hne : x.chunks ≠ [] := by
    intro he; rw [he] at hj; simp at hj; omega
  have ok := serOK_of hZ hsz hx hne hl h32 hd
  rw [serOf, Xorb.getBytesByChunkRange_serialize C hC Bg4.regroup_split maxChunk hmax _ _ _ _ ok i j hij (by simpa using hj)]
  simp [slice, List.map_take, List.map_drop]

/-- on a store that holds serializations and for a response whose fetch ranges lie inside their xorbs,
    the byte-level `get_one_term` agrees with the downloader model's on the abstract store -/
theorem getOneTermC_eq {C : Xorb.Codec} (hC : C.RoundTrip) {maxChunk : Nat} (hmax : maxChunk * 2 < 2 ^ 24)
    {W : List Dedup.Xorb} (hZ : Dedup.NoZeroName W) (hsz : StoreChunkSizes maxChunk W)
    {objs : List Bytes} (hobjs : Holds C W objs) (R : Response) (cache : Option Cache) (t : Term)
    (hf : ∀ fis, R.fetch.lookup t.xorb = some fis → ∀ fr ∈ fis, fr.start < fr.stop ∧ fr.stop ≤ nChunks W t.xorb) :
    getOneTermC C maxChunk objs R cache t = Recon.getOneTerm (R.toPlan (absXorbs W)) cache t := by
  have hft : fetchTermC C maxChunk objs R t = Recon.fetchTerm (R.toPlan (absXorbs W)) t := by
    unfold fetchTermC Recon.fetchTerm
    show (match R.fetch.lookup t.xorb with | none => _ | some fis => _) = (match R.fetch.lookup t.xorb with | none => _ | some fis => _)
    cases hlk : R.fetch.lookup t.xorb with
    | none => rfl
    | some fis =>
      simp only []
      cases hff : findFetch fis t.range with
      | none => rfl
      | some fr =>
        simp only []
        have hmem : fr ∈ fis := by
          unfold findFetch at hff
          exact List.mem_of_find?_eq_some hff
        obtain ⟨g1, g2⟩ := hf fis hlk fr hmem
        rw [fetchBytes_eq_download hC hmax hZ hsz hobjs t.xorb fr g1 g2]
        rfl
  unfold getOneTermC Recon.getOneTerm
  rw [hft]
  split
  · rfl
  · cases cache with
    | none => rfl
    | some c => simp only []; cases c t.xorb t.range <;> rfl

theorem resultsC_eq {C : Xorb.Codec} (hC : C.RoundTrip) {maxChunk : Nat} (hmax : maxChunk * 2 < 2 ^ 24)
    {W : List Dedup.Xorb} (hZ : Dedup.NoZeroName W) (hsz : StoreChunkSizes maxChunk W)
    {objs : List Bytes} (hobjs : Holds C W objs) (R : Response) (cache : Option Cache)
    (hf : ∀ t ∈ R.terms, FetchCovers W R.fetch t) :
    resultsC C maxChunk objs R cache = (R.toPlan (absXorbs W)).results cache := by
  unfold resultsC Plan.results
  show R.terms.map _ = R.terms.map _
  apply List.map_congr_left
  intro t ht
  apply getOneTermC_eq hC hmax hZ hsz hobjs
  intro fis hlk
  obtain ⟨fis', hlk', hv, _⟩ := hf t ht
  rw [hlk] at hlk'
  cases hlk'
  exact hv

theorem serverResponse_fetch {W : List Dedup.Xorb} {fi : FileInfo} {range : Option CRange} {R : Response}
    (h : ServerResponse W fi range R) : ∀ t ∈ R.terms, FetchCovers W R.fetch t := by
  cases range with
  | none => exact h.2.2
  | some r => exact h.2

/-- both byte-level writers are the downloader model's writers on the abstract plan -/
theorem download_eq {C : Xorb.Codec} (hC : C.RoundTrip) {maxChunk : Nat} (hmax : maxChunk * 2 < 2 ^ 24)
    {W : List Dedup.Xorb} (hZ : Dedup.NoZeroName W) (hsz : StoreChunkSizes maxChunk W)
    {objs : List Bytes} (hobjs : Holds C W objs) (R : Response) (cache : Option Cache) (range : Option CRange)
    (hf : ∀ t ∈ R.terms, FetchCovers W R.fetch t) :
    downloadSeq C maxChunk objs R cache range = Recon.reconstructSeq (R.toPlan (absXorbs W)) cache range ∧
    downloadPar C maxChunk objs R cache range = Recon.reconstructPar (R.toPlan (absXorbs W)) cache range := by
  unfold downloadSeq downloadPar Recon.reconstructSeq Recon.reconstructPar
  rw [resultsC_eq hC hmax hZ hsz hobjs R cache hf]
  exact ⟨rfl, rfl⟩

/-! ## 4. provenance of the chunks a session uploads

A frame invariant of every history (no legality needed): whatever predicate `S` holds of all chunks fed
in `process_chunks` calls holds of every chunk of every xorb handed to `put`.  Used to discharge the
chunk-size hypotheses on the session's own xorbs from facts about the chunker. -/

def SessFrom (S : DChunk → Prop) (s : Dedup.Sess) : Prop :=
  (∀ c ∈ s.cur.chunks, S c) ∧ ∀ x ∈ s.puts, ∀ c ∈ x.chunks, S c

def WorldFrom (S : DChunk → Prop) (w : Dedup.World) : Prop :=
  (∀ f ∈ w.files, Dedup.FromQ S f.fd) ∧ SessFrom S w.sess

/-- every chunk fed by the event satisfies `S` -/
def EvFrom (S : DChunk → Prop) : Dedup.Ev → Prop
  | .call _ k => ∀ c ∈ k.chunks, S c
  | .done _ _ _ => True

theorem processAgg_from {S : DChunk → Prop} (P : HashPrims) (s : Dedup.Sess) (a : Dedup.Agg)
    (hs : SessFrom S s) (ha : ∀ c ∈ a.chunks, S c) : SessFrom S (s.processAgg P a) := by
  obtain ⟨f1, _, f3, _⟩ := Dedup.res_processAgg_fields P s a
  refine ⟨by rw [f1]; exact hs.1, ?_⟩
  rw [f3]
  split
  · exact hs.2
  · intro x hx
    rcases List.mem_append.mp hx with h | h
    · exact hs.2 x h
    · simp only [List.mem_singleton] at h
      subst h
      exact ha

theorem fileDone_from {S : DChunk → Prop} (P : HashPrims) (L : Dedup.Limits) (s : Dedup.Sess) (a : Dedup.Agg)
    (m : Dedup.Metrics) (hs : SessFrom S s) (ha : ∀ c ∈ a.chunks, S c) : SessFrom S (s.fileDone P L a m) := by
  unfold Dedup.Sess.fileDone
  simp only []
  split
  · split
    · exact processAgg_from P { s with cur := a } s.cur ⟨ha, hs.2⟩ hs.1
    · exact processAgg_from P s a hs ha
  · refine ⟨?_, hs.2⟩
    intro c hc
    simp only [Dedup.Agg.mergeIn] at hc
    rcases List.mem_append.mp hc with h | h
    · exact hs.1 c h
    · exact ha c h

theorem get_from {S : DChunk → Prop} {w : Dedup.World} (h : ∀ f ∈ w.files, Dedup.FromQ S f.fd) (id : Nat) :
    Dedup.FromQ S (w.get id).fd := by
  unfold Dedup.World.get
  cases hf : w.files.find? (fun f => f.id == id) with
  | none =>
    refine ⟨?_, ?_⟩
    · intro c hc; simp [Dedup.FD.init] at hc
    · intro x hx; simp [Dedup.FD.init] at hx
  | some f => exact h f (List.mem_of_find?_eq_some hf)

theorem step_from {S : DChunk → Prop} (P : HashPrims) (L : Dedup.Limits) (allow : Dedup.Defrag → Nat → Dedup.Decision)
    (w : Dedup.World) (e : Dedup.Ev) (hw : WorldFrom S w) (he : EvFrom S e) :
    WorldFrom S (Dedup.step P L allow w e) := by
  cases e with
  | call id k =>
    have hfd := Dedup.res_processChunks_from S P L allow (w.get id).fd k.chunks k.answers k.gc k.gb he (get_from hw.1 id)
    simp only [Dedup.step]
    obtain ⟨r1, _, r3, _⟩ := Dedup.res_registerAll_fields w.sess
      ((Dedup.processChunks P L allow (w.get id).fd k.chunks k.answers k.gc k.gb).cut.drop (w.get id).fd.cut.length)
    refine ⟨?_, ?_, ?_⟩
    · intro f hf
      rcases List.mem_cons.mp hf with rfl | h
      · exact hfd
      · exact hw.1 f (List.mem_filter.mp h).1
    · rw [r1]; exact hw.2.1
    · rw [r3]
      intro x hx
      rcases List.mem_append.mp hx with h | h
      · exact hw.2.2 x h
      · exact hfd.2 x (List.mem_of_mem_drop (List.mem_filter.mp h).1)
  | done id salt sha =>
    simp only [Dedup.step]
    refine ⟨fun f hf => hw.1 f (List.mem_filter.mp hf).1, ?_⟩
    exact fileDone_from P L w.sess _ _ hw.2 (get_from hw.1 id).1

theorem run_from {S : DChunk → Prop} (P : HashPrims) (L : Dedup.Limits) (allow : Dedup.Defrag → Nat → Dedup.Decision)
    (evs : List Dedup.Ev) (w : Dedup.World) (hw : WorldFrom S w) (he : ∀ e ∈ evs, EvFrom S e) :
    WorldFrom S (Dedup.run P L allow w evs) := by
  induction evs generalizing w with
  | nil => exact hw
  | cons e es ih =>
    exact ih _ (step_from P L allow w e hw (he e (by simp))) (fun e' h' => he e' (by simp [h']))

/-- **every chunk of every xorb the session uploads was fed in some `process_chunks` call** (in the form:
    inherits every predicate that all fed chunks satisfy) -/
theorem finished_puts_from {S : DChunk → Prop} (P : HashPrims) (L : Dedup.Limits)
    (allow : Dedup.Defrag → Nat → Dedup.Decision) (evs : List Dedup.Ev) (he : ∀ e ∈ evs, EvFrom S e) :
    ∀ x ∈ (Dedup.finished P L allow Dedup.World.init evs).sess.puts, ∀ c ∈ x.chunks, S c := by
  have h := run_from (S := S) P L allow evs Dedup.World.init
    ⟨by intro f hf; simp [Dedup.World.init] at hf,
     by intro c hc; simp [Dedup.World.init, Dedup.Sess.init, Dedup.Agg.empty] at hc,
     by intro x hx; simp [Dedup.World.init, Dedup.Sess.init] at hx⟩ he
  unfold Dedup.finished Dedup.Sess.finish
  exact (processAgg_from P { (Dedup.run P L allow Dedup.World.init evs).sess with cur := Dedup.Agg.empty } _
    ⟨by intro c hc; simp [Dedup.Agg.empty] at hc, h.2.2⟩ h.2.1).2

/-! ## 5. decidability and construction helpers (for concrete instances) -/

instance (W : List Dedup.Xorb) (fetch : List (Nat × List CRange)) (t : Term) : Decidable (FetchCovers W fetch t) :=
  match h : fetch.lookup t.xorb with
  | none => isFalse (by rintro ⟨fis, h', _⟩; rw [h] at h'; cases h')
  | some fis =>
    if hc : (∀ fr ∈ fis, fr.start < fr.stop ∧ fr.stop ≤ nChunks W t.xorb) ∧
        (∃ fr ∈ fis, fr.start ≤ t.range.start ∧ t.range.stop ≤ fr.stop) then
      isTrue ⟨fis, h, hc.1, hc.2⟩
    else isFalse (by rintro ⟨fis', h', hc'⟩; rw [h] at h'; cases h'; exact hc hc')

instance (S : DChunk → Prop) [DecidablePred S] (e : Dedup.Ev) : Decidable (EvFrom S e) := by
  cases e <;> (simp only [EvFrom]; infer_instance)

/-- a blob store built by serializing every xorb with the schemes `sch` chooses holds the store, provided
    the objects fit the `u32` fields -/
theorem holds_map (C : Xorb.Codec) (W : List Dedup.Xorb) (sch : Dedup.Xorb → List Xorb.Scheme)
    (h : ∀ x ∈ W, (sch x).length = x.chunks.length ∧ (serOf C x (sch x)).bytes.length < 2 ^ 32 ∧
      dataSize x.chunks < 2 ^ 32) :
    Holds C W (W.map fun x => (serOf C x (sch x)).bytes) := by
  intro k x hk _
  obtain ⟨h1, h2, h3⟩ := h x (List.mem_of_getElem? hk)
  exact ⟨_, by simp [List.getElem?_map, hk], sch x, h1, rfl, h2, h3⟩

/-- a legal history only feeds non-empty chunks -/
theorem legal_chunksNE (P : HashPrims) (L : Dedup.Limits) (allow : Dedup.Defrag → Nat → Dedup.Decision)
    (store : List Dedup.Xorb) (evs : List Dedup.Ev) (w : Dedup.World)
    (h : Dedup.LegalHistory P L allow store w evs) : ∀ e ∈ evs, EvFrom (fun c => c.data ≠ []) e := by
  induction evs generalizing w with
  | nil => intro e he; cases he
  | cons e es ih =>
    intro e' he'
    rcases List.mem_cons.mp he' with rfl | h'
    · cases e' with
      | call id k => exact h.1.2.2
      | done id salt sha => trivial
    · exact ih _ h.2 e' h'

/-! ## 6. a canonical server: responses exist for every record and every range -/

/-- fetch info listing, for each term's xorb, the chunk ranges of all terms of that xorb -/
def fetchOfTerms (ts : List Term) : List (Nat × List CRange) :=
  ts.map fun t => (t.xorb, (ts.filter (·.xorb == t.xorb)).map (·.range))

theorem lookup_map_key (G : Nat → List CRange) (l : List Term) (k : Nat) (h : ∃ t ∈ l, t.xorb = k) :
    (l.map fun t => (t.xorb, G t.xorb)).lookup k = some (G k) := by
  induction l with
  | nil => obtain ⟨t, ht, _⟩ := h; cases ht
  | cons t rest ih =>
    simp only [List.map_cons, List.lookup_cons]
    by_cases hk : k = t.xorb
    · subst hk; simp
    · have : (k == t.xorb) = false := by simpa using hk
      rw [this]
      apply ih
      obtain ⟨t', ht', hx⟩ := h
      rcases List.mem_cons.mp ht' with rfl | h'
      · exact absurd hx.symm hk
      · exact ⟨t', h', hx⟩

theorem fetchOfTerms_covers {W : List Dedup.Xorb} {fi : FileInfo}
    (hsegs : ∀ s ∈ fi.segs, s.casHash ≠ Hash.zero ∧ SegGood W [] s) :
    ∀ t ∈ planTerms W fi, FetchCovers W (fetchOfTerms (planTerms W fi)) t := by
  intro t ht
  refine ⟨((planTerms W fi).filter (·.xorb == t.xorb)).map (·.range), ?_, ?_, ?_⟩
  · exact lookup_map_key (fun k => ((planTerms W fi).filter (·.xorb == k)).map (·.range)) _ _ ⟨t, ht, rfl⟩
  · intro fr hfr
    simp only [List.mem_map, List.mem_filter, beq_iff_eq] at hfr
    obtain ⟨t', ⟨ht', hx⟩, rfl⟩ := hfr
    simp only [planTerms, List.mem_map] at ht'
    obtain ⟨s', hs', rfl⟩ := ht'
    obtain ⟨r, hr, _⟩ := (hsegs s' hs').2
    obtain ⟨x, hxx, h1, h2, _⟩ := term_of_seg (hsegs s' hs').1 hr
    rw [← hx]
    have e : nChunks W (termOf W s').xorb = x.chunks.length := nChunks_of hxx
    rw [e]
    exact ⟨h1, h2⟩
  · refine ⟨t.range, ?_, Nat.le_refl _, Nat.le_refl _⟩
    simp only [List.mem_map, List.mem_filter, beq_iff_eq]
    exact ⟨t, ⟨ht, rfl⟩, rfl⟩

/-- the whole-file response of the canonical server -/
def fullResponse (W : List Dedup.Xorb) (fi : FileInfo) : Response :=
  ⟨planTerms W fi, fetchOfTerms (planTerms W fi), 0⟩

theorem fullResponse_ok {W : List Dedup.Xorb} {fi : FileInfo}
    (hsegs : ∀ s ∈ fi.segs, s.casHash ≠ Hash.zero ∧ SegGood W [] s) :
    ServerResponse W fi none (fullResponse W fi) :=
  ⟨rfl, rfl, fetchOfTerms_covers hsegs⟩

/-- number of leading segments that end at or before byte `a` -/
def skipCount : List Seg → Nat → Nat
  | [], _ => 0
  | s :: rest, a => if a < s.bytes then 0 else skipCount rest (a - s.bytes) + 1

theorem segsLen_cons (s : Seg) (l : List Seg) : segsLen (s :: l) = s.bytes + segsLen l := by
  simp [segsLen]

theorem skipCount_spec (segs : List Seg) (a : Nat) (h : a < segsLen segs) :
    skipCount segs a < segs.length ∧ segsLen (segs.take (skipCount segs a)) ≤ a ∧
    a - segsLen (segs.take (skipCount segs a)) ≤ segsLen ((segs.drop (skipCount segs a)).take 1) := by
  induction segs generalizing a with
  | nil => simp [segsLen] at h
  | cons s rest ih =>
    rw [segsLen_cons] at h
    unfold skipCount
    split
    · rename_i hlt
      refine ⟨by simp, by simp [segsLen], ?_⟩
      simp only [List.take_zero, List.drop_zero, List.take_succ_cons, segsLen_cons]
      simp [segsLen]; omega
    · rename_i hge
      obtain ⟨i1, i2, i3⟩ := ih (a - s.bytes) (by omega)
      refine ⟨by simp; omega, ?_, ?_⟩
      · rw [List.take_succ_cons, segsLen_cons]; omega
      · rw [List.take_succ_cons, segsLen_cons, List.drop_succ_cons]; omega

/-- the response of the canonical server for the byte range `[a, b)`: skip the segments that end at or
    before `a`, return all the others -/
def rangeResponse (W : List Dedup.Xorb) (fi : FileInfo) (a : Nat) : Response :=
  ⟨((planTerms W fi).drop (skipCount fi.segs a)).take (fi.segs.length - skipCount fi.segs a),
   fetchOfTerms (planTerms W fi), a - segsLen (fi.segs.take (skipCount fi.segs a))⟩

theorem rangeResponse_ok {W : List Dedup.Xorb} {fi : FileInfo}
    (hsegs : ∀ s ∈ fi.segs, s.casHash ≠ Hash.zero ∧ SegGood W [] s)
    (a b : Nat) (ha : a < segsLen fi.segs) (hb : b ≤ segsLen fi.segs) :
    ServerResponse W fi (some ⟨a, b⟩) (rangeResponse W fi a) := by
  obtain ⟨h1, h2, h3⟩ := skipCount_spec fi.segs a ha
  refine ⟨⟨skipCount fi.segs a, fi.segs.length, ⟨h1, Nat.le_refl _, ?_, h3, ?_⟩, rfl⟩, ?_⟩
  · show a - segsLen (fi.segs.take (skipCount fi.segs a)) + segsLen (fi.segs.take (skipCount fi.segs a)) = a
    omega
  · rw [List.take_length]; exact hb
  · intro t ht
    exact fetchOfTerms_covers hsegs t (mem_window ht)

/-! ## 7. the cleaner model (`XetModel/Session.lean`) produces a call sequence of the history model

`Session.cleanFile` is what the correspondence suite `session` compares with the Rust `SingleFileCleaner`;
the history model of C01 (`Dedup.Ev`, `runCallSeq`) takes the calls as given.  This section shows that the
deduper state and the `finalize` result of `cleanFile` are those of `runCallSeq` over the calls
`cleanerCalls` paired with the oracle entries (`oracleCalls`). -/

/-- the calls as `Clean.process` makes them: the next oracle entry's answers when their number fits,
    otherwise (or when the oracle list ran out) no answers -/
def oracleCalls : List (List DChunk) → List Session.CallOracle → List Dedup.Call
  | [], _ => []
  | cs :: rest, o :: os =>
    ⟨cs, if o.answers.length = cs.length then o.answers else List.replicate cs.length none, o.gc, o.gb⟩ :: oracleCalls rest os
  | cs :: rest, [] => ⟨cs, List.replicate cs.length none, 0, 0⟩ :: oracleCalls rest []

theorem oracleCalls_fed (calls : List (List DChunk)) (os : List Session.CallOracle) :
    Dedup.fedOf (oracleCalls calls os) = calls.flatten := by
  induction calls generalizing os with
  | nil => rfl
  | cons cs rest ih =>
    cases os with
    | nil => simp [oracleCalls, Dedup.fedOf] at ih ⊢; exact ih []
    | cons o os => simp [oracleCalls, Dedup.fedOf] at ih ⊢; exact ih os

/-- the calls made before `finish` -/
def pieceCalls (P : HashPrims) (p : Chunker.Params) : Chunker.State → List Bytes → List (List DChunk)
  | _, [] => []
  | s, piece :: rest =>
    let r := Chunker.nextBlock p s piece false
    if r.chunks.isEmpty then pieceCalls P p r.st rest
    else Session.mkChunks P r.chunks :: pieceCalls P p r.st rest

def finishCall (P : HashPrims) (p : Chunker.Params) (s : Chunker.State) : List (List DChunk) :=
  match Chunker.finish p s with
  | some c => [Session.mkChunks P [c]]
  | none => []

theorem cleanerCalls_split (P : HashPrims) (p : Chunker.Params) (pieces : List Bytes) (s : Chunker.State) :
    cleanerCalls P p s pieces = pieceCalls P p s pieces ++ finishCall P p (Chunker.feedParts p s pieces).st := by
  induction pieces generalizing s with
  | nil => simp [cleanerCalls, pieceCalls, finishCall, Chunker.feedParts]
  | cons piece rest ih =>
    simp only [cleanerCalls, pieceCalls, Chunker.feedParts]
    split
    · exact ih _
    · rw [ih]; rfl

def runClean (P : HashPrims) (L : Dedup.Limits) (st : Session.Clean) (calls : List (List DChunk)) : Session.Clean :=
  calls.foldl (fun s c => s.process P L c) st

theorem process_ck (P : HashPrims) (L : Dedup.Limits) (st : Session.Clean) (k : Chunker.State) (c : List DChunk) :
    ({ st with ck := k } : Session.Clean).process P L c = { st.process P L c with ck := k } := by
  unfold Session.Clean.process
  cases st.oracle <;> rfl

theorem runClean_ck (P : HashPrims) (L : Dedup.Limits) (calls : List (List DChunk)) (st : Session.Clean) (k : Chunker.State) :
    runClean P L { st with ck := k } calls = { runClean P L st calls with ck := k } := by
  induction calls generalizing st with
  | nil => rfl
  | cons c rest ih =>
    simp only [runClean, List.foldl_cons] at ih ⊢
    rw [process_ck, ih]

/-- feeding the pieces = making the piece calls, with the chunker state advanced -/
theorem addDataImpl_fold (P : HashPrims) (L : Dedup.Limits) (p : Chunker.Params) (pieces : List Bytes) (st : Session.Clean) :
    pieces.foldl (fun s d => s.addDataImpl P L p d) st =
      { runClean P L st (pieceCalls P p st.ck pieces) with ck := (Chunker.feedParts p st.ck pieces).st } := by
  induction pieces generalizing st with
  | nil => simp [runClean, pieceCalls, Chunker.feedParts]
  | cons piece rest ih =>
    simp only [List.foldl_cons, pieceCalls, Chunker.feedParts]
    rw [ih]
    unfold Session.Clean.addDataImpl
    simp only []
    split
    · simp only [runClean_ck]
    · rw [process_ck]
      simp only [runClean, List.foldl_cons] at *
      have := runClean_ck P L (pieceCalls P p (Chunker.nextBlock p st.ck piece false).st rest)
        (st.process P L (Session.mkChunks P (Chunker.nextBlock p st.ck piece false).chunks))
        (Chunker.nextBlock p st.ck piece false).st
      simp only [runClean] at this
      rw [this]

/-- the deduper after a run of `process` calls is `runCallSeq` over the calls paired with the oracle -/
theorem runClean_fd (P : HashPrims) (L : Dedup.Limits) (calls : List (List DChunk)) (st : Session.Clean) :
    (runClean P L st calls).fd =
      Dedup.runCallSeq P L Dedup.Defrag.allowNext st.fd (oracleCalls calls st.oracle) := by
  induction calls generalizing st with
  | nil => rfl
  | cons c rest ih =>
    simp only [runClean, List.foldl_cons] at ih ⊢
    rw [ih]
    unfold Session.Clean.process
    cases ho : st.oracle with
    | nil => simp [oracleCalls, Dedup.runCallSeq]
    | cons o os => simp [oracleCalls, Dedup.runCallSeq]

theorem addData_fold (P : HashPrims) (L : Dedup.Limits) (p : Chunker.Params) (ingest : Nat) (datas : List Bytes)
    (st : Session.Clean) :
    datas.foldl (fun s d => s.addData P L p ingest d) st =
      (datas.flatMap (Session.splitIngest ingest)).foldl (fun s d => s.addDataImpl P L p d) st := by
  induction datas generalizing st with
  | nil => rfl
  | cons d rest ih =>
    simp only [List.foldl_cons, List.flatMap_cons, List.foldl_append]
    rw [ih]
    rfl

/-- **`Session.cleanFile` refines the history model's calls**: with `pieces` = the `add_data` arguments
    split into ingestion blocks, the deduper state it ends with is `runCallSeq` from a fresh deduper over
    the cleaner's calls paired with the oracle entries, its result is `finalize` of that state, and the
    chunks fed are `mkChunks P (feed p pieces)`. -/
theorem cleanFile_refines (P : HashPrims) (L : Dedup.Limits) (p : Chunker.Params) (ingest : Nat) (datas : List Bytes)
    (oracle : List Session.CallOracle) (salt : Bytes) (sha : Hash) :
    let pieces := datas.flatMap (Session.splitIngest ingest)
    let calls := oracleCalls (cleanerCalls P p Chunker.State.init pieces) oracle
    (Session.cleanFile P L p ingest datas oracle salt sha).fd
      = Dedup.runCallSeq P L Dedup.Defrag.allowNext Dedup.FD.init calls ∧
    (Session.cleanFile P L p ingest datas oracle salt sha).fin
      = Dedup.finalize P (Dedup.runCallSeq P L Dedup.Defrag.allowNext Dedup.FD.init calls) salt sha ∧
    Dedup.fedOf calls = Session.mkChunks P (Chunker.feed p pieces) := by
  intro pieces calls
  have hfd : (Session.cleanFile P L p ingest datas oracle salt sha).fd
      = Dedup.runCallSeq P L Dedup.Defrag.allowNext Dedup.FD.init calls := by
    unfold Session.cleanFile Session.Clean.finish
    simp only [addData_fold, addDataImpl_fold]
    simp only [calls, cleanerCalls_split, finishCall]
    cases Chunker.finish p (Chunker.feedParts p Chunker.State.init pieces).st with
    | none =>
      simp only [List.append_nil]
      exact runClean_fd P L _ ⟨Chunker.State.init, Dedup.FD.init, oracle, 0, false⟩
    | some c =>
      simp only [process_ck]
      have := runClean_fd P L (pieceCalls P p Chunker.State.init pieces ++ [Session.mkChunks P [c]])
        ⟨Chunker.State.init, Dedup.FD.init, oracle, 0, false⟩
      simp only [runClean, List.foldl_append, List.foldl_cons, List.foldl_nil] at this
      exact this
  refine ⟨hfd, ?_, ?_⟩
  · rw [← hfd]; rfl
  · rw [oracleCalls_fed, cleanerCalls_fed]

/-! ## 8. the empty file -/

/-- a record that resolves to no chunks has no segments (every segment denotes ≥ 1 chunk) -/
theorem segs_nil_of_resolves_nil {W : List Dedup.Xorb} {loc : List DChunk} {segs : List Seg}
    (h : resolveFile W loc segs = some []) : segs = [] := by
  cases segs with
  | nil => rfl
  | cons s rest =>
    rw [Dedup.res_resolveFile_cons] at h
    cases hs : resolveSeg W loc s with
    | none => simp [hs] at h
    | some a =>
      cases hr : resolveFile W loc rest with
      | none => simp [hs, hr] at h
      | some b =>
        simp only [hs, hr, Option.some.injEq, List.append_eq_nil_iff] at h
        obtain ⟨h1, h2⟩ := Dedup.res_resolveSeg_some hs
        rw [h.1] at h2
        simp at h2
        omega

end Xet.E2E
