/-
C01, end to end — composition of the separately proved layers into ONE byte-level statement:

    bytes ──chunker (C04)──▶ chunks ──upload pipeline (C01)──▶ file record + abstract xorbs
          ──CasObject::serialize (C07)──▶ stored objects ──server response──▶ downloader (C17) ──▶ bytes

Models composed (none is changed): `XetModel/Chunker.lean`, `XetModel/Session.lean` (`mkChunks`),
`XetModel/Dedup.lean` + the history model of `XetProofs/DedupResolveWorld.lean`, `XetModel/XorbFormat.lean`,
`XetModel/Reconstruct.lean`.  Glue definitions and lemmas: `XetProofs/EndToEnd.lean`:
  * `ServerResponse` — what a correct CAS server derives from a file record (one term per segment, a
    window of terms containing the requested range, fetch ranges containing their terms).  The server is
    OUTSIDE xet-core; this is a recorded assumption, universally quantified (every response of that shape),
    and shown satisfiable for every record and range (`fullResponse`, `rangeResponse`).
  * `Holds` — the blob store holds `CasObject::serialize` of every abstract xorb, any per-chunk schemes.
  * `downloadSeq` / `downloadPar` — the two writers of `XetModel/Reconstruct.lean` (`seqWrite`, `parWrite`,
    `trim`, `checkLen`, `findFetch` unchanged) over the byte-level fetch `fetchBytes`
    (footer parse + `get_byte_offset` on the server side, `deserialize_chunks_from_stream` on the client side).
Main theorems: `C01_end_to_end` (every server response), `C01_end_to_end_canonical` (no server hypothesis).
-/
import XetProps.C01
import XetProps.C04
import XetProps.C07Final
import XetProps.C17
import XetProofs.EndToEnd

set_option linter.unusedSimpArgs false

namespace Xet.E2E

open Xet.Shard (Seg FileInfo)
open Xet.Dedup (DChunk SegGood resolveFile)
open Xet.Recon (CRange Term Cache CacheFaithful)

/-- the session after the history and `finalize` -/
abbrev finalWorld (P : HashPrims) (L : Dedup.Limits) (allow : Dedup.Defrag → Nat → Dedup.Decision) (evs : List Dedup.Ev) :
    Dedup.World := Dedup.finished P L allow Dedup.World.init evs

/-- the store afterwards: the prior store and everything the session handed to `put` -/
abbrev finalStore (P : HashPrims) (L : Dedup.Limits) (allow : Dedup.Defrag → Nat → Dedup.Decision)
    (store : List Dedup.Xorb) (evs : List Dedup.Ev) : List Dedup.Xorb :=
  store ++ (finalWorld P L allow evs).sess.puts

/-! ## the links, one per layer boundary -/

/-- **bytes → chunks (C04).**  For every `Params` with `minC < maxC`, every partition `parts` of a stream
    into `add_data` pieces: the chunks the cleaner hands to the deduper (`mkChunks` of the chunker's
    output) concatenate to exactly the stream, do not depend on the partition (they are the reference
    split of the concatenation), are non-empty and at most `maxC` bytes, and carry `dataHash` of their data.
    Discharged by `C04_concat`, `C04_partition_independent`, `C04_bounds_all`. -/
theorem C01_e2e_chunker_link (P : HashPrims) (p : Chunker.Params) (hmm : p.minC < p.maxC) (parts : List Bytes) :
    Dedup.bytesOf (Session.mkChunks P (Chunker.feed p parts)) = parts.flatten ∧
    Chunker.feed p parts = Chunker.specSplit p parts.flatten ∧
    ∀ c ∈ Session.mkChunks P (Chunker.feed p parts),
      c.data ≠ [] ∧ c.data.length ≤ p.maxC ∧ c.hash = P.dataHash c.data := by
  refine ⟨?_, Chunker.C04_partition_independent p hmm parts, ?_⟩
  · rw [Dedup.bytesOf, mkChunks_data, Chunker.C04_concat p hmm]
  · intro c hc
    obtain ⟨hm, hh⟩ := mkChunks_mem hc
    rw [Chunker.C04_partition_independent p hmm] at hm
    obtain ⟨h1, h2⟩ := Chunker.C04_bounds_all p hmm _ c.data hm
    exact ⟨List.length_pos_iff.mp h1, h2, hh⟩

/-- **the cleaner's call structure.**  The `process_chunks` calls that `SingleFileCleaner::add_data_impl`
    (one `next_block(piece, false)` per piece, a call only when chunks completed) and `finish` (the flushed
    last chunk) make, for ANY pieces, feed in total exactly `mkChunks P (feed p pieces)`: the hypothesis
    `g.chunks = mkChunks P (feed p parts)` of the main theorem is what the cleaner model produces.  (The
    history model allows any grouping of these chunks into calls, so it covers this one.) -/
theorem C01_e2e_cleaner_calls (P : HashPrims) (p : Chunker.Params) (parts : List Bytes) :
    (cleanerCalls P p Chunker.State.init parts).flatten = Session.mkChunks P (Chunker.feed p parts) :=
  cleanerCalls_fed P p parts

/-- **stored bytes → fetched chunks (C07).**  For every round-tripping codec, `maxChunk` with
    `2·maxChunk < 2^24`, every store without zero names whose chunks have 1..`maxChunk` bytes, every blob
    store holding serializations of it (any schemes) and every chunk range inside xorb `k`: the byte-level
    fetch (footer parse, `get_byte_offset`, byte slice, `deserialize_chunks_from_stream`) returns exactly
    what the downloader model's abstract `download` returns: the range's chunk data and byte indices.
    Discharged by the C07 lemmas `deserialize_serialize`, `getByteOffset_serialize`, `serChunks_slice`,
    `deserializeChunks_serChunks` / `goodDecoder_async` (the content of `C07_object_roundtrip`,
    `C07_decoders_agree`) and `Bg4.regroup_split`. -/
theorem C01_e2e_fetch_bytes (C : Xorb.Codec) (hC : C.RoundTrip) (maxChunk : Nat) (hmax : maxChunk * 2 < 2 ^ 24)
    (W : List Dedup.Xorb) (hZ : Dedup.NoZeroName W) (hsz : StoreChunkSizes maxChunk W)
    (objs : List Bytes) (hobjs : Holds C W objs) (k : Nat) (fr : CRange)
    (h1 : fr.start < fr.stop) (h2 : fr.stop ≤ nChunks W k) :
    fetchBytes C maxChunk objs k fr = Recon.download (absXorbs W) k fr :=
  fetchBytes_eq_download hC hmax hZ hsz hobjs k fr h1 h2

/-- the `LocalClient` path: `get_bytes_by_chunk_range` on the stored object of a xorb returns the bytes of
    the chunk range (`C07_object_roundtrip`), for every range `i < j ≤ n`. -/
theorem C01_e2e_local_range (C : Xorb.Codec) (hC : C.RoundTrip) (maxChunk : Nat) (hmax : maxChunk * 2 < 2 ^ 24)
    (W : List Dedup.Xorb) (hZ : Dedup.NoZeroName W) (hsz : StoreChunkSizes maxChunk W)
    (x : Dedup.Xorb) (hx : x ∈ W) (schemes : List Xorb.Scheme) (hl : schemes.length = x.chunks.length)
    (h32 : (serOf C x schemes).bytes.length < 2 ^ 32) (hd : Dedup.dataSize x.chunks < 2 ^ 32)
    (i j : Nat) (hij : i < j) (hj : j ≤ x.chunks.length) :
    Xorb.getBytesByChunkRange C maxChunk (serOf C x schemes).cas (serOf C x schemes).bytes i j
      = .ok (Dedup.bytesOf (Dedup.slice x.chunks i j)) :=
  getBytesByChunkRange_obj hC hmax hZ hsz hx hl h32 hd i j hij hj

/-- **record → reconstruction plan.**  For a record all of whose segments name store xorbs and resolve
    (what C01 proves of every emitted record), on a store with non-empty chunks, every response of a correct
    server is a well-formed plan of the downloader model (`WFPlan`: the hypothesis of C17), and the bytes
    C17 says are produced for it are the requested slice of the record's bytes. -/
theorem C01_e2e_response_plan (W : List Dedup.Xorb) (fi : FileInfo) (cs : List DChunk)
    (hne : StoreChunksNE W) (hres : resolveFile W [] fi.segs = some cs)
    (hsegs : ∀ s ∈ fi.segs, s.casHash ≠ Hash.zero ∧ SegGood W [] s)
    (range : Option CRange) (R : Response) (hR : ServerResponse W fi range R)
    (hbs : Dedup.bytesOf cs ≠ [])
    (hrange : ∀ r, range = some r → r.start ≤ r.stop ∧ r.stop ≤ (Dedup.bytesOf cs).length) :
    Recon.WFPlan (R.toPlan (absXorbs W)) range ∧
    Recon.expected (R.toPlan (absXorbs W)) range = sliceOf (Dedup.bytesOf cs) range :=
  response_ok hne hres hsegs range R hR hbs hrange

/-- **provenance of uploaded chunks.**  In every history (legal or not), every chunk of every xorb the
    session hands to `put` inherits every predicate that holds of all chunks fed in `process_chunks` calls. -/
theorem C01_e2e_puts_provenance (S : DChunk → Prop) (P : HashPrims) (L : Dedup.Limits)
    (allow : Dedup.Defrag → Nat → Dedup.Decision) (evs : List Dedup.Ev) (he : ∀ e ∈ evs, EvFrom S e) :
    ∀ x ∈ (finalWorld P L allow evs).sess.puts, ∀ c ∈ x.chunks, S c :=
  finished_puts_from P L allow evs he

/-- a correct server exists: the canonical whole-file and ranged responses satisfy `ServerResponse` for
    every record whose segments name store xorbs and resolve, and every range that starts inside the file. -/
theorem C01_e2e_response_exists (W : List Dedup.Xorb) (fi : FileInfo)
    (hsegs : ∀ s ∈ fi.segs, s.casHash ≠ Hash.zero ∧ SegGood W [] s) :
    ServerResponse W fi none (fullResponse W fi) ∧
    ∀ a b, a < segsLen fi.segs → b ≤ segsLen fi.segs → ServerResponse W fi (some ⟨a, b⟩) (rangeResponse W fi a) :=
  ⟨fullResponse_ok hsegs, fun a b ha hb => rangeResponse_ok hsegs a b ha hb⟩

/-- the production constants fit: the chunker's `maximum_chunk` is at most `MAXIMUM_CHUNK_SIZE` of the xorb
    format, whose double fits the 3-byte length fields -/
theorem C01_e2e_production_sizes :
    ∃ p, Chunker.mkParams Gen.targetChunkSize Gen.minimumChunkDivisor Gen.maximumChunkMultiplier = some p ∧
      p.minC < p.maxC ∧ p.maxC ≤ Gen.merkledbMaximumChunkSize ∧ Gen.merkledbMaximumChunkSize * 2 < 2 ^ 24 := by
  refine ⟨_, rfl, ?_⟩
  decide

/-! ## the composition -/

/-- what the download side delivers for the record `fi` of a file with bytes `bs`, on the blob store `objs`:
    for every response of a correct server (whole file or byte range `a ≤ b ≤ |bs|`), every faithful chunk
    cache or none, the sequential writer writes exactly the requested bytes and reports their number; the
    parallel writer's positioned writes give exactly the requested bytes in EVERY completion order and it
    reports their number. -/
def Downloads (C : Xorb.Codec) (maxChunk : Nat) (W : List Dedup.Xorb) (objs : List Bytes) (fi : FileInfo) (bs : Bytes) : Prop :=
  ∀ (range : Option CRange) (R : Response) (cache : Option Cache),
    ServerResponse W fi range R →
    (∀ r, range = some r → r.start ≤ r.stop ∧ r.stop ≤ bs.length) →
    (∀ c, cache = some c → CacheFaithful (R.toPlan (absXorbs W)) c) →
    (∃ r, downloadSeq C maxChunk objs R cache range = .ok r ∧
      r.out = sliceOf bs range ∧ r.reported = r.out.length) ∧
    (∃ pp, downloadPar C maxChunk objs R cache range = .ok pp ∧
      (∀ order : List Recon.PWrite, order.Perm pp.writes → Recon.applyWrites [] order = sliceOf bs range) ∧
      pp.reported = (sliceOf bs range).length)

/-- core of the composition, exposing the facts about the record that the corollaries need -/
theorem C01_e2e_core (P : HashPrims) (L : Dedup.Limits) (allow : Dedup.Defrag → Nat → Dedup.Decision)
    (store : List Dedup.Xorb) (evs : List Dedup.Ev) (C : Xorb.Codec) (maxChunk : Nat) (objs : List Bytes)
    (hl : Dedup.LegalHistory P L allow store Dedup.World.init evs)
    (hW : Dedup.StoreConsistent (finalStore P L allow store evs))
    (hZ : Dedup.NoZeroName (finalStore P L allow store evs))
    (hC : C.RoundTrip) (hmax : maxChunk * 2 < 2 ^ 24)
    (hst : StoreChunkSizes maxChunk store)
    (hfed : ∀ e ∈ evs, EvFrom (fun c => c.data.length ≤ maxChunk) e)
    (hobjs : Holds C (finalStore P L allow store evs) objs)
    (g : Dedup.Done) (hg : g ∈ (finalWorld P L allow evs).done)
    (p : Chunker.Params) (parts : List Bytes) (hmm : p.minC < p.maxC)
    (hgc : g.chunks = Session.mkChunks P (Chunker.feed p parts)) (hne : parts.flatten ≠ []) :
    ∃ fi ∈ (finalWorld P L allow evs).sess.files,
      fi.hash = Merkle.fileNodeHash P (Dedup.chunkLens g.chunks) g.salt ∧
      (∀ s ∈ fi.segs, s.casHash ≠ Hash.zero ∧ SegGood (finalStore P L allow store evs) [] s) ∧
      segsLen fi.segs = parts.flatten.length ∧
      Downloads C maxChunk (finalStore P L allow store evs) objs fi parts.flatten := by
  -- upload pipeline (C01): a record that resolves to the fed chunks
  obtain ⟨h1, _⟩ := Dedup.res_finished_ok (P := P) (L := L) (allow := allow) hW hZ
    (fun x hx => List.mem_append_left _ hx) evs hl (fun x hx => List.mem_append_right _ hx)
  obtain ⟨fi, hfi, hres, hsegs, hmeta⟩ := h1 g hg
  -- chunker (C04): the fed chunks concatenate to the bytes
  have hbytes : (g.chunks.map (·.data)).flatten = parts.flatten := by
    rw [hgc]; exact (C01_e2e_chunker_link P p hmm parts).1
  -- chunk sizes on the whole final store (provenance of the session's own xorbs)
  have hsz : StoreChunkSizes maxChunk (finalStore P L allow store evs) := by
    have hput := finished_puts_from (S := fun c => c.data ≠ [] ∧ c.data.length ≤ maxChunk) P L allow evs (by
      intro e he
      have a := legal_chunksNE P L allow store evs _ hl e he
      have b := hfed e he
      cases e with
      | call id k => exact fun c hc => ⟨a c hc, b c hc⟩
      | done id salt sha => trivial)
    intro x hx
    rcases List.mem_append.mp hx with h | h
    · exact hst x h
    · exact hput x h
  have hne' : StoreChunksNE (finalStore P L allow store evs) := fun x hx c hc => (hsz x hx c hc).1
  have hlen : segsLen fi.segs = parts.flatten.length := by
    rw [← hbytes, ← segData_flatten hres]
    exact (segsLen_eq fi.segs (fun s hs => (wfTerm_seg hne' ⟨absXorbs _, [], [], 0⟩ rfl (hsegs s hs).1 (hsegs s hs).2).2.1)).symm
  refine ⟨fi, hfi, hmeta.1, hsegs, hlen, ?_⟩
  intro range R cache hR hrange hcache
  -- the server's response is a well-formed plan whose expected output is the slice
  obtain ⟨hwf, hexp⟩ := response_ok hne' hres hsegs range R hR (by rw [hbytes]; exact hne)
    (by rw [hbytes]; exact hrange)
  rw [hbytes] at hexp
  -- byte level (C07) = abstract level; downloader (C17)
  obtain ⟨e1, e2⟩ := download_eq hC hmax hZ hsz hobjs R cache range (serverResponse_fetch hR)
  refine ⟨?_, ?_⟩
  · obtain ⟨r, hr, ho, hrep, _⟩ := Recon.C17_sequential _ range cache hwf hcache
    exact ⟨r, by rw [e1]; exact hr, by rw [ho, hexp], hrep⟩
  · obtain ⟨pp, hp, hall, hrep, _⟩ := Recon.C17_parallel _ range cache hwf hcache
    exact ⟨pp, by rw [e2]; exact hp, fun o ho => by rw [hall o ho, hexp], by rw [hrep, hexp]⟩

/-- **C01 end to end (statement).**  Quantifiers: every `HashPrims`, `Limits` (incl. 0 and 1), defrag
    decision procedure, prior store, session history, codec, `maxChunk`, blob store; every finished file;
    every chunker `Params`, every partition `parts` of the file's bytes into `add_data` pieces; every server
    response (whole file, or any byte range `a ≤ b ≤ |bytes|`; any admissible window of terms; any fetch
    ranges containing their terms); every faithful cache or none; every completion order of the parallel
    writer's tasks.

    Hypotheses (each explicit; which theorem uses it):
    1. `LegalHistory` — oracle answers data-truthful, `HashInj` per file, fed chunks non-empty (C01).
    2. `StoreConsistent`, `NoZeroName` on the final store — C06 collision-freeness in extraction form (C01;
       `NoZeroName` also gives C07's "object hash ≠ 0").
    3. `C.RoundTrip` (LZ4 codec round trip), `2·maxChunk < 2^24` (C07).
    4. chunks of the PRIOR store have 1..`maxChunk` bytes; every chunk fed in this session has ≤ `maxChunk`
       bytes (true of chunker output when `maxC ≤ maxChunk`, `C01_e2e_chunker_link`).  For the session's own
       xorbs the bound is derived (`C01_e2e_puts_provenance`).  Used by C07 (header field widths) and C17
       (`WFTerm`: chunks of a fetched xorb are non-empty).
    5. `Holds`: the blob store holds, at the index of every non-empty abstract xorb of the final store,
       `CasObject::serialize` of it for SOME per-chunk schemes, of size `< 2^32` and content `< 2^32`
       (the `u32` footer fields; C07).
    6. the file `g` was chunked by the chunker model: `g.chunks = mkChunks P (feed p parts)`, `minC < maxC`
       (C04); the file is not empty (the downloader model is specified for ≥ 1 term).
    7. `ServerResponse` — the server is outside xet-core (recorded assumption; satisfiable:
       `C01_e2e_response_exists`).  8. `CacheFaithful` — C12's conclusion, as in C17.

    Conclusion: the file has a record in the session's shard carrying the pointer's file hash, and
    downloading through that record (`Downloads`) writes exactly `parts.flatten` resp. its slice
    `[a, b)`, sequentially and in parallel, and reports the number of bytes written.

    Steps: C04 (`C01_e2e_chunker_link`) bytes = concatenated chunk data; C01 (`res_finished_ok`, the
    content of `C01_roundtrip`) record resolves to the fed chunks; `C01_e2e_response_plan` response is a
    `WFPlan` with `expected` = slice; C07 (`C01_e2e_fetch_bytes`) byte-level fetch = abstract fetch, hence
    `downloadSeq/Par = reconstructSeq/Par`; C17 (`C17_sequential`, `C17_parallel`) output = `expected`. -/
def C01_end_to_end_statement : Prop :=
  ∀ (P : HashPrims) (L : Dedup.Limits) (allow : Dedup.Defrag → Nat → Dedup.Decision) (store : List Dedup.Xorb)
    (evs : List Dedup.Ev) (C : Xorb.Codec) (maxChunk : Nat) (objs : List Bytes),
    Dedup.LegalHistory P L allow store Dedup.World.init evs →
    Dedup.StoreConsistent (finalStore P L allow store evs) →
    Dedup.NoZeroName (finalStore P L allow store evs) →
    C.RoundTrip → maxChunk * 2 < 2 ^ 24 →
    StoreChunkSizes maxChunk store →
    (∀ e ∈ evs, EvFrom (fun c => c.data.length ≤ maxChunk) e) →
    Holds C (finalStore P L allow store evs) objs →
    ∀ g ∈ (finalWorld P L allow evs).done, ∀ (p : Chunker.Params) (parts : List Bytes), p.minC < p.maxC →
      g.chunks = Session.mkChunks P (Chunker.feed p parts) → parts.flatten ≠ [] →
      ∃ fi ∈ (finalWorld P L allow evs).sess.files,
        fi.hash = Merkle.fileNodeHash P (Dedup.chunkLens g.chunks) g.salt ∧
        Downloads C maxChunk (finalStore P L allow store evs) objs fi parts.flatten

theorem C01_end_to_end : C01_end_to_end_statement := by
  intro P L allow store evs C maxChunk objs hl hW hZ hC hmax hst hfed hobjs g hg p parts hmm hgc hne
  obtain ⟨fi, hfi, hh, _, _, hd⟩ :=
    C01_e2e_core P L allow store evs C maxChunk objs hl hW hZ hC hmax hst hfed hobjs g hg p parts hmm hgc hne
  exact ⟨fi, hfi, hh, hd⟩

/-- **C01 end to end with the canonical server** (no hypothesis about the server left): under hypotheses
    1–6 of `C01_end_to_end`, the file has a record through which, without a cache, the whole file and EVERY
    byte range `a ≤ b ≤ |bytes|`, `a < |bytes|`, download byte-for-byte, by both writers, with the
    reported length equal to the number of bytes written. -/
theorem C01_end_to_end_canonical (P : HashPrims) (L : Dedup.Limits) (allow : Dedup.Defrag → Nat → Dedup.Decision)
    (store : List Dedup.Xorb) (evs : List Dedup.Ev) (C : Xorb.Codec) (maxChunk : Nat) (objs : List Bytes)
    (hl : Dedup.LegalHistory P L allow store Dedup.World.init evs)
    (hW : Dedup.StoreConsistent (finalStore P L allow store evs))
    (hZ : Dedup.NoZeroName (finalStore P L allow store evs))
    (hC : C.RoundTrip) (hmax : maxChunk * 2 < 2 ^ 24)
    (hst : StoreChunkSizes maxChunk store)
    (hfed : ∀ e ∈ evs, EvFrom (fun c => c.data.length ≤ maxChunk) e)
    (hobjs : Holds C (finalStore P L allow store evs) objs)
    (g : Dedup.Done) (hg : g ∈ (finalWorld P L allow evs).done)
    (p : Chunker.Params) (parts : List Bytes) (hmm : p.minC < p.maxC)
    (hgc : g.chunks = Session.mkChunks P (Chunker.feed p parts)) (hne : parts.flatten ≠ []) :
    ∃ fi ∈ (finalWorld P L allow evs).sess.files,
      fi.hash = Merkle.fileNodeHash P (Dedup.chunkLens g.chunks) g.salt ∧
      -- whole file
      (∃ r, downloadSeq C maxChunk objs (fullResponse (finalStore P L allow store evs) fi) none none = .ok r ∧
        r.out = parts.flatten ∧ r.reported = parts.flatten.length) ∧
      (∃ pp, downloadPar C maxChunk objs (fullResponse (finalStore P L allow store evs) fi) none none = .ok pp ∧
        (∀ order : List Recon.PWrite, order.Perm pp.writes → Recon.applyWrites [] order = parts.flatten) ∧
        pp.reported = parts.flatten.length) ∧
      -- every byte range
      ∀ a b, a ≤ b → b ≤ parts.flatten.length → a < parts.flatten.length →
        (∃ r, downloadSeq C maxChunk objs (rangeResponse (finalStore P L allow store evs) fi a) none (some ⟨a, b⟩) = .ok r ∧
          r.out = (parts.flatten.drop a).take (b - a) ∧ r.reported = r.out.length) ∧
        (∃ pp, downloadPar C maxChunk objs (rangeResponse (finalStore P L allow store evs) fi a) none (some ⟨a, b⟩) = .ok pp ∧
          (∀ order : List Recon.PWrite, order.Perm pp.writes →
            Recon.applyWrites [] order = (parts.flatten.drop a).take (b - a)) ∧
          pp.reported = ((parts.flatten.drop a).take (b - a)).length) := by
  obtain ⟨fi, hfi, hh, hsegs, hlen, hd⟩ :=
    C01_e2e_core P L allow store evs C maxChunk objs hl hW hZ hC hmax hst hfed hobjs g hg p parts hmm hgc hne
  refine ⟨fi, hfi, hh, ?_, ?_, ?_⟩
  · obtain ⟨⟨r, h1, h2, h3⟩, _⟩ := hd none _ none (fullResponse_ok hsegs) (by intro r hr; cases hr) (by intro c hc; cases hc)
    exact ⟨r, h1, h2, by rw [h3, h2]; rfl⟩
  · obtain ⟨_, ⟨pp, h1, h2, h3⟩⟩ := hd none _ none (fullResponse_ok hsegs) (by intro r hr; cases hr) (by intro c hc; cases hc)
    exact ⟨pp, h1, h2, h3⟩
  · intro a b hab hb ha
    exact hd (some ⟨a, b⟩) _ none (rangeResponse_ok hsegs a b (by rw [hlen]; exact ha) (by rw [hlen]; exact hb))
      (by intro r hr; cases hr; exact ⟨hab, hb⟩) (by intro c hc; cases hc)

/-- **`Session.cleanFile` (the cleaner model the `session` suite compares with the Rust
    `SingleFileCleaner`) refines the history model**: for every `add_data` argument list, ingestion block
    size, oracle list: its deduper state is `runCallSeq` from a fresh deduper over the cleaner's calls paired
    with the oracle entries, its result is `finalize` of that state, and the chunks fed over these calls are
    `mkChunks P (feed p pieces)` — i.e. hypothesis 6 of `C01_end_to_end` with `parts` = the ingestion blocks. -/
theorem C01_e2e_cleaner_refines (P : HashPrims) (L : Dedup.Limits) (p : Chunker.Params) (ingest : Nat) (datas : List Bytes)
    (oracle : List Session.CallOracle) (salt : Bytes) (sha : Hash) :
    (Session.cleanFile P L p ingest datas oracle salt sha).fd
      = Dedup.runCallSeq P L Dedup.Defrag.allowNext Dedup.FD.init
          (oracleCalls (cleanerCalls P p Chunker.State.init (datas.flatMap (Session.splitIngest ingest))) oracle) ∧
    (Session.cleanFile P L p ingest datas oracle salt sha).fin
      = Dedup.finalize P (Dedup.runCallSeq P L Dedup.Defrag.allowNext Dedup.FD.init
          (oracleCalls (cleanerCalls P p Chunker.State.init (datas.flatMap (Session.splitIngest ingest))) oracle)) salt sha ∧
    Dedup.fedOf (oracleCalls (cleanerCalls P p Chunker.State.init (datas.flatMap (Session.splitIngest ingest))) oracle)
      = Session.mkChunks P (Chunker.feed p (datas.flatMap (Session.splitIngest ingest))) :=
  cleanFile_refines P L p ingest datas oracle salt sha

/-- **the empty file** (excluded from `C01_end_to_end` because the downloader model's `WFPlan` asks for ≥ 1
    term).  Under the upload hypotheses, a finished file that was fed no chunk has a record with the
    pointer's hash and NO segments; for the response without terms both writers write nothing and report 0,
    whatever the store, fetch info and cache. -/
theorem C01_end_to_end_empty (P : HashPrims) (L : Dedup.Limits) (allow : Dedup.Defrag → Nat → Dedup.Decision)
    (store : List Dedup.Xorb) (evs : List Dedup.Ev)
    (hl : Dedup.LegalHistory P L allow store Dedup.World.init evs)
    (hW : Dedup.StoreConsistent (finalStore P L allow store evs))
    (hZ : Dedup.NoZeroName (finalStore P L allow store evs))
    (g : Dedup.Done) (hg : g ∈ (finalWorld P L allow evs).done) (hgc : g.chunks = []) :
    ∃ fi ∈ (finalWorld P L allow evs).sess.files,
      fi.hash = Merkle.fileNodeHash P (Dedup.chunkLens g.chunks) g.salt ∧ fi.segs = [] ∧
      ∀ (C : Xorb.Codec) (maxChunk : Nat) (objs : List Bytes) (fetch : List (Nat × List CRange)) (cache : Option Cache),
        downloadSeq C maxChunk objs ⟨planTerms (finalStore P L allow store evs) fi, fetch, 0⟩ cache none = .ok ⟨[], 0⟩ ∧
        downloadPar C maxChunk objs ⟨planTerms (finalStore P L allow store evs) fi, fetch, 0⟩ cache none = .ok ⟨[], 0⟩ := by
  obtain ⟨h1, _⟩ := Dedup.res_finished_ok (P := P) (L := L) (allow := allow) hW hZ
    (fun x hx => List.mem_append_left _ hx) evs hl (fun x hx => List.mem_append_right _ hx)
  obtain ⟨fi, hfi, hres, _, hmeta⟩ := h1 g hg
  rw [hgc] at hres
  have hs := segs_nil_of_resolves_nil hres
  refine ⟨fi, hfi, hmeta.1, hs, ?_⟩
  intro C maxChunk objs fetch cache
  simp only [planTerms, hs, List.map_nil]
  exact ⟨rfl, rfl⟩

/-- the chunker produces no chunk exactly for the empty stream, so `C01_end_to_end_empty` covers the case
    `parts.flatten = []` left out by `C01_end_to_end` -/
theorem C01_e2e_empty_stream (P : HashPrims) (p : Chunker.Params) (hmm : p.minC < p.maxC) (parts : List Bytes)
    (h : parts.flatten = []) : Session.mkChunks P (Chunker.feed p parts) = [] := by
  rw [Chunker.C04_partition_independent p hmm, h]
  rfl

/-! ## Non-vacuity: a concrete session, all hypotheses checked by evaluation

Toy hash primitives (`Dedup.exP`), a chunker with 1..4-byte chunks, limits of 2 chunks per xorb, the toy
codec of C07 (`Xorb.exCodec`), one xorb `[[1,2,3,4],[0,0,0,0,0]]` in the prior store.  Two files:
  * file 1 = bytes `1..12`, fed as `[1,2,3] [4,5,6,7,8] [] [9,10,11,12]`; chunks `[1,2,3,4] [5] [6] [7,8,9,10] [11,12]`;
    its first chunk is found in the prior store (global dedup), `[5] [6]` are cut as a xorb in the middle of the file;
  * file 2 = bytes `5,6,7,8,9,20,21,22,23`, fed as `[5,6,7] [8,9,20,21,22,23]`; chunks `[5] [6] [7,8,9,20] [21,22] [23]`;
    its first two chunks are shared with file 1 and deduplicated against file 1's xorb (cross-file dedup).
The calls of each file are exactly the cleaner's (`cleanerCalls`), interleaved. -/

section Example

open Xet.Dedup

def exParams : Chunker.Params := ⟨1, 4, 0xC000000000000000⟩
def exParts1 : List Bytes := [[1, 2, 3], [4, 5, 6, 7, 8], [], [9, 10, 11, 12]]
def exParts2 : List Bytes := [[5, 6, 7], [8, 9, 20, 21, 22, 23]]
def exCalls1 : List (List DChunk) := cleanerCalls exP exParams Chunker.State.init exParts1
def exCalls2 : List (List DChunk) := cleanerCalls exP exParams Chunker.State.init exParts2

def exLimits : Limits := ⟨100, 2⟩
def exOld : Dedup.Xorb := mkXorb exP (Session.mkChunks exP [[1, 2, 3, 4], [0, 0, 0, 0, 0]])
def exStore0 : List Dedup.Xorb := [exOld]
/-- the xorb file 1 cuts mid-file; file 2's first call is answered with it -/
def exX1 : Dedup.Xorb := mkXorb exP (Session.mkChunks exP [[5], [6]])

def exEvents : List Ev :=
  [.call 1 ⟨exCalls1.getD 0 [], [some (1, ⟨exOld.hash, 0, 4, 0, 1⟩), none, none], 0, 0⟩,
   .call 1 ⟨exCalls1.getD 1 [], [none], 0, 0⟩,
   .call 2 ⟨exCalls2.getD 0 [], [some (2, ⟨exX1.hash, 0, 2, 0, 2⟩), none], 0, 0⟩,
   .call 1 ⟨exCalls1.getD 2 [], [none], 0, 0⟩,
   .done 1 [1, 2, 3] Hash.zero,
   .call 2 ⟨exCalls2.getD 1 [], [none, none, none], 0, 0⟩,
   .done 2 [4, 5] Hash.zero]

def exWorld : World := finalWorld exP exLimits Defrag.allowNext exEvents
def exW : List Dedup.Xorb := finalStore exP exLimits Defrag.allowNext exStore0 exEvents
def exMaxChunk : Nat := 64

/-- a different scheme for every chunk position -/
def exSchemesOf (x : Dedup.Xorb) : List Xorb.Scheme :=
  (List.range x.chunks.length).map fun i => if i % 3 = 0 then .lz4 else if i % 3 = 1 then .bg4lz4 else .none

/-- the blob store: every xorb of the final store serialized -/
def exObjs : List Bytes := exW.map fun x => (serOf Xorb.exCodec x (exSchemesOf x)).bytes

example : exCalls1.map (·.map (·.data)) = [[[1, 2, 3, 4], [5], [6]], [[7, 8, 9, 10]], [[11, 12]]] := by decide +kernel
example : exCalls2.map (·.map (·.data)) = [[[5], [6]], [[7, 8, 9, 20], [21, 22], [23]]] := by decide +kernel

theorem ex_legal : LegalHistory exP exLimits Defrag.allowNext exStore0 World.init exEvents := by decide +kernel
theorem ex_consistent : StoreConsistent exW := by decide +kernel
theorem ex_nozero : NoZeroName exW := by decide +kernel
theorem ex_store_sizes : StoreChunkSizes exMaxChunk exStore0 := by decide +kernel
theorem ex_fed_sizes : ∀ e ∈ exEvents, EvFrom (fun c => c.data.length ≤ exMaxChunk) e := by decide +kernel
theorem ex_holds : Holds Xorb.exCodec exW exObjs :=
  holds_map Xorb.exCodec exW exSchemesOf (by decide +kernel)

/-- four xorbs are uploaded; the final store has five -/
example : exW.map (·.chunks.map (·.data)) =
    [[[1, 2, 3, 4], [0, 0, 0, 0, 0]], [[5], [6]], [[7, 8, 9, 20], [21, 22]], [[7, 8, 9, 10], [11, 12]], [[23]]] := by decide +kernel

/-- the records: (xorb index, chunk range, bytes) per segment — file 1 starts in the prior store's xorb,
    both files reference xorb 1 (`[5] [6]`) -/
example : exWorld.sess.files.map (fun fi => fi.segs.map fun s => (xorbIdx exW s.casHash, s.cstart, s.cend, s.bytes)) =
    [[(0, 0, 1, 4), (1, 0, 2, 2), (3, 0, 2, 6)], [(1, 0, 2, 2), (2, 0, 2, 6), (4, 0, 1, 1)]] := by decide +kernel

/-- both finished files were chunked by the chunker model from their partitions (in completion order) -/
example : exWorld.done.map (·.chunks) =
    [Session.mkChunks exP (Chunker.feed exParams exParts1), Session.mkChunks exP (Chunker.feed exParams exParts2)] := by
  decide +kernel

theorem ex_chunked : ∀ g ∈ exWorld.done, ∃ parts ∈ [exParts1, exParts2],
    g.chunks = Session.mkChunks exP (Chunker.feed exParams parts) ∧ parts.flatten ≠ [] := by decide +kernel


/-- **all hypotheses of `C01_end_to_end` hold together**, for both files; hence its conclusion -/
theorem ex_end_to_end : ∀ g ∈ exWorld.done, ∃ parts ∈ [exParts1, exParts2],
    ∃ fi ∈ exWorld.sess.files, fi.hash = Merkle.fileNodeHash exP (chunkLens g.chunks) g.salt ∧
      Downloads Xorb.exCodec exMaxChunk exW exObjs fi parts.flatten := by
  intro g hg
  obtain ⟨parts, hp, hc, hne⟩ := ex_chunked g hg
  exact ⟨parts, hp, C01_end_to_end exP exLimits Defrag.allowNext exStore0 exEvents Xorb.exCodec exMaxChunk exObjs
    ex_legal ex_consistent ex_nozero Xorb.exCodec_roundTrip (by decide) ex_store_sizes ex_fed_sizes ex_holds
    g hg exParams parts (by decide) hc hne⟩

/-- the two records, and a server response for file 1 with fetch ranges LARGER than the terms
    (exercises `trim`: xorb 0 is fetched as chunks `[0,2)` for the term `[0,1)`) -/
def exFi1 : FileInfo := exWorld.sess.files.getD 0 ⟨Hash.zero, 0, 0, 0, [], [], none⟩
def exFi2 : FileInfo := exWorld.sess.files.getD 1 ⟨Hash.zero, 0, 0, 0, [], [], none⟩
def exFetch : List (Nat × List CRange) := [(0, [⟨0, 2⟩]), (1, [⟨0, 2⟩]), (3, [⟨0, 2⟩])]
def exRespFull : Response := ⟨planTerms exW exFi1, exFetch, 0⟩
/-- bytes `[5, 9)` of file 1: the first segment (4 bytes) is skipped, offset 1 into the second -/
def exRespRange : Response := ⟨(planTerms exW exFi1).drop 1, exFetch, 1⟩

example : ServerResponse exW exFi1 none exRespFull := by
  show _ ∧ _ ∧ _
  refine ⟨?_, ?_, ?_⟩ <;> decide +kernel
example : ServerResponse exW exFi1 (some ⟨5, 9⟩) exRespRange := by
  show (∃ i j, _ ∧ _) ∧ _
  refine ⟨⟨1, 3, ?_, ?_⟩, ?_⟩ <;> decide +kernel

/-- the conclusion evaluated directly at byte level: whole file 1, sequential and parallel -/
example : downloadSeq Xorb.exCodec exMaxChunk exObjs exRespFull none none
    = .ok ⟨[1, 2, 3, 4, 5, 6, 7, 8, 9, 10, 11, 12], 12⟩ := by decide +kernel
example : (downloadPar Xorb.exCodec exMaxChunk exObjs exRespFull none none).map (·.writes)
    = .ok [⟨0, [1, 2, 3, 4]⟩, ⟨4, [5, 6]⟩, ⟨6, [7, 8, 9, 10, 11, 12]⟩] := by decide +kernel
/-- a byte range starting and ending mid-term -/
example : downloadSeq Xorb.exCodec exMaxChunk exObjs exRespRange none (some ⟨5, 9⟩)
    = .ok ⟨[6, 7, 8, 9], 4⟩ := by decide +kernel
/-- file 2 (shares xorb 1 with file 1) through the canonical server, whole and a range -/
example : downloadSeq Xorb.exCodec exMaxChunk exObjs (fullResponse exW exFi2) none none
    = .ok ⟨[5, 6, 7, 8, 9, 20, 21, 22, 23], 9⟩ := by decide +kernel
example : downloadSeq Xorb.exCodec exMaxChunk exObjs (rangeResponse exW exFi2 3) none (some ⟨3, 8⟩)
    = .ok ⟨[8, 9, 20, 21, 22], 5⟩ := by decide +kernel
/-- the `LocalClient` path on the stored object of the prior store's xorb -/
example : (Xorb.getBytesByChunkRange Xorb.exCodec exMaxChunk (serOf Xorb.exCodec exOld (exSchemesOf exOld)).cas
    (exObjs.getD 0 []) 0 1).toOption = some [1, 2, 3, 4] := by decide +kernel
/-- the objects are really encoded per chunk: in the stored prior xorb the chunk `[1,2,3,4]` (scheme LZ4
    requested) fell back to `None` (scheme byte 0, 8 + 4 bytes) because the toy codec expands it, the chunk of
    five zeros is kept BG4+LZ4-compressed (scheme byte 2, 8 + 2 bytes); it is fetched and decoded together
    with the first chunk (fetch range `[0,2)`) and trimmed away by `get_one_term` -/
example : (serOf Xorb.exCodec exOld (exSchemesOf exOld)).cas.info.boundaries = [12, 22] ∧
    [0, 12].map (fun o => ((exObjs.getD 0 []).drop o).getD 4 255) = [0, 2] := by decide +kernel

end Example
end Xet.E2E
