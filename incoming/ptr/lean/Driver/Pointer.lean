import XetModel.Pointer
import Driver.Prims
/-
Line protocol of the pointer-file model (prefix `ptr.`):

  ptr.render hash=<64 hex> size=<n>          -> text=<escaped text> | panic | outside
  ptr.parse  off=<o> len=<l> cls=<in|out>     -> in : valid=<0|1> ver=<e|0|x> hs=<hex of the hash string|-> size=<n>
                                                      hash=<64 hex|err> disp=<escaped text|panic|outside>
                                                      (or `outside-grammar` when the model cannot decide)
                                                out: hdr=<e|0|x> outside   (only the header stage is compared)
  ptr.sniff  off=<o> len=<l>                  -> 0 | 1 | outside-grammar
  ptr.path   off=<o> len=<l>                  -> as `ptr.parse cls=in` (for `init_from_path` on a file with these bytes)

Escaping of texts: `\\`, `\n`, `\r`, `\t`, other bytes outside 0x20..0x7e as `\xHH`.
-/
namespace Xet.Drv
open Xet Xet.Pointer

def escByte (b : UInt8) : String :=
  if b.toNat == 92 then "\\\\"
  else if b.toNat == 10 then "\\n"
  else if b.toNat == 13 then "\\r"
  else if b.toNat == 9 then "\\t"
  else if 32 ≤ b.toNat && b.toNat ≤ 126 then String.singleton (Char.ofNat b.toNat)
  else "\\x" ++ hexOfBytes [b]

def escBytes (bs : List UInt8) : String := String.join (bs.map escByte)

def dispStr : Disp → String
  | .text b => "text=" ++ escBytes b
  | .panic => "panic"
  | .outside => "outside"

def dispField : Disp → String
  | .text b => escBytes b
  | .panic => "panic"
  | .outside => "outside"

def verClass (v : Bytes) : String :=
  if v.isEmpty then "e" else if v == CURRENT_VERSION then "0" else "x"

def hexOrDash (b : Bytes) : String := if b.isEmpty then "-" else hexOfBytes b

def pfLine (pf : PF) : String :=
  let h := match hashOf pf with
    | some h => hashHex h
    | none => "err"
  s!"valid={if pf.isValid then 1 else 0} ver={verClass pf.versionString} hs={hexOrDash pf.hash} size={pf.filesize} hash={h} disp={dispField (display pf)}"

/-- header stage only: the `version_string` class `init_from_string` ends with -/
def hdrClass (t : Bytes) : String :=
  if !(HEADER_PREFIX.isPrefixOf (firstLine t)) then "e"
  else verClass ((firstLine t).drop HEADER_PREFIX.length)

def handlePtr (blob : Blob) (cmd : String) (toks : List String) : String :=
  match cmd with
  | "ptr.render" =>
    match (kv toks "hash").bind parseHash, kvNat toks "size" with
    | some h, some n => if n < 18446744073709551616 then dispStr (render h n) else "bad-op"
    | _, _ => "bad-op"
  | "ptr.parse" =>
    match kvNat toks "off", kvNat toks "len", kv toks "cls" with
    | some o, some l, some cls =>
      let t := sliceL blob o l
      if cls == "out" then s!"hdr={hdrClass t} outside"
      else if cls == "in" then
        match initFromString t with
        | some pf => pfLine pf
        | none => "outside-grammar"
      else "bad-op"
    | _, _, _ => "bad-op"
  | "ptr.path" =>
    match kvNat toks "off", kvNat toks "len" with
    | some o, some l =>
      match initFromPath (sliceL blob o l) with
      | some pf => pfLine pf
      | none => "outside-grammar"
    | _, _ => "bad-op"
  | "ptr.sniff" =>
    match kvNat toks "off", kvNat toks "len" with
    | some o, some l =>
      match isXetPointerFile (sliceL blob o l) with
      | some true => "1"
      | some false => "0"
      | none => "outside-grammar"
    | _, _ => "bad-op"
  | _ => "bad-op"

end Xet.Drv
