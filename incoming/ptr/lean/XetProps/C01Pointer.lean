/-
C01 / C03 — the pointer-file text between the cleaner and the downloader.

C01 says a cleaned file "can afterwards be downloaded FROM ITS POINTER FILE"; C03 says equal bytes give
"the same file hash and size IN THE POINTER FILE".  The other C01/C03 theorems go from `(hash, size)`
straight to the downloader; this file closes the text step in between:

  cleaner:     `PointerFile::init_from_info(name, &file_hash.hex(), total_bytes).to_string()`   (`render`)
  downloader:  `PointerFile::init_from_string(text, _)`, `is_valid()`, `hash()`, `filesize()`    (`initFromString`, `hashOf`)
  sniffing:    `is_xet_pointer_file(bytes)`                                                      (`isXetPointerFile`)

Model: `XetModel/Pointer.lean` (strings are UTF-8 BYTES; the TOML parser of `toml` 0.5.11 statement by
statement for the grammar stated there, `none`/`outside` for everything else).  Lemmas: `XetProofs/Pointer.lean`.

Quantifiers: every `Hash`, every size.  A SIZE ABOVE `i64::MAX` CANNOT BE RENDERED: `Display` asserts
`filesize <= i64::MAX` and panics (`C01_pointer_render_panics`), so the round trip is stated — and true —
for `size ≤ i64::MAX = 2^63 - 1`, not for every `u64`.
`is_valid()` alone does NOT mean the hash is well formed (the Rust unit test accepts `hash = '12345'`);
acceptance by the download path is `is_valid() ∧ hash().is_ok()` (`smudge_file_from_pointer` calls `hash()?`),
which is what `Accepted` says.
-/
import XetProofs.Pointer
import XetProps.C06

namespace Xet.Pointer
open Xet

/-! ## rendering -/

theorem emitStrPretty_hex (h : Hash) : emitStrPretty h.hex = some ([39] ++ h.hex ++ [39]) := by
  unfold emitStrPretty
  rw [if_pos]
  rw [List.all_eq_true]
  intro c hc
  have := (isHexLower_iff c).mp (hex_isHexLower h c hc)
  simp only [bne_iff_ne, ne_eq, Bool.and_eq_true, decide_eq_true_eq, Bool.or_eq_true, beq_iff_eq]
  omega

/-- **What the cleaner writes.**  For every hash and every size up to `i64::MAX` the rendered pointer is
    byte for byte `# xet version 0\nfilesize = <decimal>\nhash = '<64 lower-case hex digits>'\n`. -/
theorem C01_pointer_render (h : Hash) (size : Nat) (hs : size ≤ I64_MAX) :
    render h size = .text (renderText h size) := by
  have : ¬ (size > I64_MAX) := by omega
  simp [render, display, initFromInfo, emitStrPretty_hex, this, renderText, CURRENT_VERSION]

/-- **Sizes from `2^63` on cannot be rendered**: `to_string()` panics on
    `assert!(self.filesize <= i64::MAX as u64)`. -/
theorem C01_pointer_render_panics (h : Hash) (size : Nat) (hs : I64_MAX < size) : render h size = .panic := by
  simp [render, display, initFromInfo, hs]

/-! ## (a) round trip -/

theorem renderText_eq (h : Hash) (size : Nat) :
    renderText h size = pointerText (decBytes size) (39 :: (h.hex ++ [39])) := by
  simp [renderText, pointerText, bodyLine, HEADER_PREFIX, CURRENT_VERSION, HDR_CMT, TXT_FILESIZE_EQ, TXT_HASH_EQ]

theorem hex_no_quote (h : Hash) : ∀ c ∈ h.hex, c.toNat ≠ 39 := fun c hc =>
  (strChar_of_hexLower (hex_isHexLower h c hc)).2.1

theorem hex_all_strChar (h : Hash) : h.hex.all strChar = true := by
  rw [List.all_eq_true]; exact fun c hc => (strChar_of_hexLower (hex_isHexLower h c hc)).1

theorem noCr_decBytes (n : Nat) : NoCr (decBytes n) := by
  intro c hc
  have := (isDecDigit_iff c).mp (decBytes_allDec n c hc)
  omega

theorem noCr_lit (hs : Bytes) (h : NoCr hs) : NoCr (39 :: (hs ++ [39])) := by
  simp only [noCr_cons, noCr_append, h, noCr_nil, and_true, true_and]
  decide

theorem noCr_hex (h : Hash) : NoCr h.hex := fun c hc => (strChar_of_hexLower (hex_isHexLower h c hc)).2.2

theorem i64AsU64_nat (n : Nat) (h : n ≤ I64_MAX) : i64AsU64 (n : Int) = n := by
  simp only [i64AsU64, I64_MAX] at *
  omega

theorem fromParsed_pointer (hs : Bytes) (n : Nat) (h : n ≤ I64_MAX) :
    fromParsed (some [(KEY_HASH, .str hs), (KEY_FILESIZE, .int (Int.ofNat n))]) = ⟨CURRENT_VERSION, true, hs, n⟩ := by
  have e2 : (KEY_HASH == KEY_FILESIZE) = false := by decide
  simp [fromParsed, hashField, sizeField, sizeValid, sizeValue, lookup, e2, i64AsU64_nat n h]

theorem fromParsed_pointerSwapped (hs : Bytes) (n : Nat) (h : n ≤ I64_MAX) :
    fromParsed (some [(KEY_FILESIZE, .int (Int.ofNat n)), (KEY_HASH, .str hs)]) = ⟨CURRENT_VERSION, true, hs, n⟩ := by
  have e2 : (KEY_FILESIZE == KEY_HASH) = false := by decide
  simp [fromParsed, hashField, sizeField, sizeValid, sizeValue, lookup, e2, i64AsU64_nat n h]

theorem fromParsed_none : fromParsed none = ⟨CURRENT_VERSION, false, [], 0⟩ := by
  simp [fromParsed, hashField, sizeField, sizeValid, sizeValue, lookup]

/-- **C01, pointer round trip.**  For every hash `h` and every size `≤ i64::MAX`, parsing the text the
    cleaner renders gives a VALID pointer that is field for field the value the cleaner held
    (`init_from_info(h.hex(), size)`: version `"0"`, hash string `h.hex()`, filesize `size`), and
    `hash()` of it is `Ok(h)`.  So the downloader is handed exactly the `(hash, size)` that was cleaned. -/
theorem C01_pointer_roundtrip (h : Hash) (size : Nat) (hs : size ≤ I64_MAX) :
    render h size = .text (renderText h size) ∧
    initFromString (renderText h size) = some (initFromInfo h.hex size) ∧
    (initFromInfo h.hex size).isValid = true ∧
    hashOf (initFromInfo h.hex size) = some h ∧
    (initFromInfo h.hex size).filesize = size := by
  refine ⟨C01_pointer_render h size hs, ?_, rfl, ?_, rfl⟩
  · have h1 := valueIs_dec (decBytes size) (decBytes_allDec size) (decBytes_ne_nil size)
    rw [integer_decBytes size hs] at h1
    have h2 := valueIs_lit h.hex (hex_no_quote h)
    rw [hex_all_strChar h] at h2
    rw [renderText_eq, initFromString_pointer _ _ _ _ h1 h2 (noCr_decBytes size) (noCr_lit _ (noCr_hex h))]
    simp only [Option.map_some, if_true, pairsOf]
    rw [fromParsed_pointer h.hex size hs]
    rfl
  · simp only [hashOf, initFromInfo, if_true]
    exact Merkle.C06_hex_roundtrip h

/-! ## (b) sniffing -/

theorem utf8Valid_ascii (t : Bytes) (h : ∀ c ∈ t, c.toNat ≤ 127) : utf8Valid t = true := by
  induction t with
  | nil => rfl
  | cons c cs ih =>
    have hc := h c (by simp)
    unfold utf8Valid
    simp only [hc, if_true]
    exact ih (fun y hy => h y (by simp [hy]))

def Ascii (s : Bytes) : Prop := ∀ c ∈ s, c.toNat ≤ 127

theorem ascii_cons (c : UInt8) (s : Bytes) : Ascii (c :: s) ↔ c.toNat ≤ 127 ∧ Ascii s := by simp [Ascii]
theorem ascii_append (a b : Bytes) : Ascii (a ++ b) ↔ Ascii a ∧ Ascii b := by
  simp only [Ascii, List.mem_append]
  constructor
  · intro h; exact ⟨fun x hx => h x (Or.inl hx), fun x hx => h x (Or.inr hx)⟩
  · rintro ⟨h1, h2⟩ x (hx | hx)
    · exact h1 x hx
    · exact h2 x hx

theorem renderText_ascii (h : Hash) (size : Nat) : Ascii (renderText h size) := by
  have a1 : Ascii (decBytes size) := fun c hc => by
    have := (isDecDigit_iff c).mp (decBytes_allDec size c hc); omega
  have a2 : Ascii h.hex := fun c hc => by
    have := (isHexLower_iff c).mp (hex_isHexLower h c hc); omega
  have a3 : Ascii HDR_CMT := by unfold Ascii HDR_CMT; decide
  have a4 : Ascii KEY_FILESIZE := by unfold Ascii KEY_FILESIZE; decide
  have a5 : Ascii KEY_HASH := by unfold Ascii KEY_HASH; decide
  have a6 : Ascii [] := by simp [Ascii]
  rw [renderText_eq]
  simp only [pointerText, bodyLine, ascii_cons, ascii_append, a1, a2, a3, a4, a5, a6, and_true, true_and]
  decide

theorem renderText_length (h : Hash) (size : Nat) :
    (renderText h size).length = 102 + (decBytes size).length := by
  rw [renderText_eq, pointerText_length]
  simp [Merkle.hex_length]; omega

/-- **C01, sniffing.**  Every rendered pointer (size `≤ i64::MAX`) is recognised by
    `is_xet_pointer_file`, is at most 122 bytes long — below `POINTER_FILE_LIMIT = 150`, the bound
    `is_xet_pointer_file` (`>=`) and `init_from_path` (`>`) use — and `init_from_path` on a file with that
    content returns the same valid pointer. -/
theorem C01_pointer_sniff (h : Hash) (size : Nat) (hs : size ≤ I64_MAX) :
    isXetPointerFile (renderText h size) = some true ∧
    (renderText h size).length ≤ 122 ∧
    (renderText h size).length < POINTER_FILE_LIMIT ∧
    initFromPath (renderText h size) = some (initFromInfo h.hex size) := by
  have hlen : (renderText h size).length ≤ 122 := by
    have := decBytes_length_le size
    rw [renderText_length]; omega
  have hutf := utf8Valid_ascii _ (renderText_ascii h size)
  have hrt := (C01_pointer_roundtrip h size hs).2.1
  refine ⟨?_, hlen, by simp only [POINTER_FILE_LIMIT]; omega, ?_⟩
  · have : ¬ ((renderText h size).length ≥ POINTER_FILE_LIMIT) := by simp only [POINTER_FILE_LIMIT]; omega
    simp only [isXetPointerFile, this, if_false, hutf, Bool.not_true, Bool.false_eq_true, hrt, Option.map_some]
    rfl
  · have : ¬ ((renderText h size).length > POINTER_FILE_LIMIT) := by simp only [POINTER_FILE_LIMIT]; omega
    simp only [initFromPath, this, if_false, hutf, Bool.not_true, Bool.false_eq_true, hrt]

/-! ## (c) injectivity -/

/-- **C03, the pointer text determines (hash, size).**  Two renderings (sizes `≤ i64::MAX`) are the same
    text only if hash and size are the same; the converse is `congrArg`.  So "the same hash and size in the
    pointer file" and "the same pointer file" are the same statement. -/
theorem C03_pointer_injective (h1 h2 : Hash) (s1 s2 : Nat) (b1 : s1 ≤ I64_MAX) (b2 : s2 ≤ I64_MAX)
    (e : renderText h1 s1 = renderText h2 s2) : h1 = h2 ∧ s1 = s2 := by
  have r1 := (C01_pointer_roundtrip h1 s1 b1).2.1
  have r2 := (C01_pointer_roundtrip h2 s2 b2).2.1
  rw [e, r2] at r1
  simp only [initFromInfo, Option.some.injEq, PF.mk.injEq, true_and] at r1
  exact ⟨(Merkle.hex_inj r1.1).symm, r1.2.symm⟩

/-- the same for what `to_string()` returns: equal rendered texts ⇔ equal `(hash, size)` -/
theorem C03_pointer_injective_iff (h1 h2 : Hash) (s1 s2 : Nat) (t : Bytes)
    (r1 : render h1 s1 = .text t) : render h2 s2 = .text t ↔ (h1 = h2 ∧ s1 = s2) := by
  constructor
  · intro r2
    have b1 : s1 ≤ I64_MAX := by
      apply Nat.le_of_not_lt; intro hlt; rw [C01_pointer_render_panics h1 s1 hlt] at r1; cases r1
    have b2 : s2 ≤ I64_MAX := by
      apply Nat.le_of_not_lt; intro hlt; rw [C01_pointer_render_panics h2 s2 hlt] at r2; cases r2
    rw [C01_pointer_render h1 s1 b1] at r1
    rw [C01_pointer_render h2 s2 b2] at r2
    have e1 := Disp.text.inj r1
    have e2 := Disp.text.inj r2
    exact C03_pointer_injective h1 h2 s1 s2 b1 b2 (e1.trans e2.symm)
  · rintro ⟨rfl, rfl⟩; exact r1

/-! ## (d) what the parser accepts -/

/-- `u8::is_ascii_hexdigit` (what `DataHash::from_hex` demands of each of the 64 bytes) -/
def isHexDigit (c : UInt8) : Bool := (Hash.charDigit c).isSome

/-- accepted by the download path: `is_valid()` and `hash()` is `Ok(h)`
    (`smudge_file_from_pointer` runs `pointer.hash()?`) -/
def Accepted (pf : PF) (h : Hash) : Prop := pf.isValid = true ∧ hashOf pf = some h

theorem mapM_some_isSome {α β : Type} (f : α → Option β) (xs : List α) (ys : List β) (h : xs.mapM f = some ys) :
    ∀ x ∈ xs, (f x).isSome = true := by
  induction xs generalizing ys with
  | nil => simp
  | cons x xs ih =>
    simp only [List.mapM_cons] at h
    cases hx : f x with
    | none => simp [hx] at h
    | some y =>
      simp only [hx, Option.pure_def, Option.bind_eq_bind, Option.bind_some] at h
      cases hxs : xs.mapM f with
      | none => simp [hxs] at h
      | some ys' =>
        intro z hz
        rcases List.mem_cons.mp hz with rfl | hz
        · simp [hx]
        · exact ih ys' hxs z hz

theorem parseWord_hexDigits {cs : Bytes} {w : UInt64} (h : Hash.parseWord cs = some w) :
    ∀ c ∈ cs, isHexDigit c = true := by
  unfold Hash.parseWord at h
  cases hm : cs.mapM Hash.charDigit with
  | none => simp [hm] at h
  | some ds => exact mapM_some_isSome _ _ _ hm

/-- `from_hex` succeeds only on exactly 64 ASCII hex digits -/
theorem fromHex_shape {s : Bytes} {h : Hash} (e : Hash.fromHex s = some h) :
    s.length = 64 ∧ ∀ c ∈ s, isHexDigit c = true := by
  unfold Hash.fromHex at e
  split at e
  · cases e
  · rename_i hlen
    refine ⟨by omega, ?_⟩
    cases h0 : Hash.parseWord (s.take 16) with
    | none => simp [h0] at e
    | some a =>
    cases h1 : Hash.parseWord ((s.drop 16).take 16) with
    | none => simp [h0, h1] at e
    | some b =>
    cases h2 : Hash.parseWord ((s.drop 32).take 16) with
    | none => simp [h0, h1, h2] at e
    | some c =>
    cases h3 : Hash.parseWord ((s.drop 48).take 16) with
    | none => simp [h0, h1, h2, h3] at e
    | some d =>
      have hs : s = s.take 16 ++ ((s.drop 16).take 16 ++ ((s.drop 32).take 16 ++ (s.drop 48).take 16)) := by
        have e1 : s = s.take 16 ++ s.drop 16 := (List.take_append_drop 16 s).symm
        have e2 : s.drop 16 = (s.drop 16).take 16 ++ s.drop 32 := by
          have := (List.take_append_drop 16 (s.drop 16)).symm; simpa using this
        have e3 : s.drop 32 = (s.drop 32).take 16 ++ s.drop 48 := by
          have := (List.take_append_drop 16 (s.drop 32)).symm; simpa using this
        have e4 : s.drop 48 = (s.drop 48).take 16 := by
          rw [List.take_of_length_le]; simp; omega
        rw [← e4, ← e3, ← e2, ← e1]
      intro x hx
      rw [hs] at hx
      simp only [List.mem_append] at hx
      rcases hx with hx | hx | hx | hx
      · exact parseWord_hexDigits h0 x hx
      · exact parseWord_hexDigits h1 x hx
      · exact parseWord_hexDigits h2 x hx
      · exact parseWord_hexDigits h3 x hx

theorem i64AsU64_nonneg (i : Int) (h0 : 0 ≤ i) (h1 : i ≤ (I64_MAX : Int)) : i64AsU64 i = i.toNat := by
  simp only [i64AsU64, I64_MAX] at *
  omega

/-- the shape of a valid result of the body stage of `init_from_string` -/
theorem fromParsed_valid (ps : Pairs) (hok : PairsOk ps) (hv : (fromParsed (some ps)).isValid = true) :
    ∃ s i, lookup KEY_HASH ps = some (.str s) ∧ lookup KEY_FILESIZE ps = some (.int i) ∧ 0 ≤ i ∧
      i ≤ (I64_MAX : Int) ∧ fromParsed (some ps) = ⟨CURRENT_VERSION, true, s, i.toNat⟩ := by
  simp only [fromParsed, Option.getD_some, Option.isSome_some, Bool.true_and, Bool.and_eq_true] at hv ⊢
  obtain ⟨hh, hs⟩ := hv
  cases hH : hashField ps with
  | none => simp [hH] at hh
  | some s =>
    cases hS : sizeField ps with
    | none => simp [hS, sizeValid] at hs
    | some i =>
      have h0 : 0 ≤ i := by simpa [hS, sizeValid] using hs
      have l1 : lookup KEY_HASH ps = some (.str s) := by
        unfold hashField at hH
        split at hH
        · rename_i s' e; cases hH; exact e
        · cases hH
      have l2 : lookup KEY_FILESIZE ps = some (.int i) := by
        unfold sizeField at hS
        split at hS
        · rename_i i' e; cases hS; exact e
        · cases hS
      obtain ⟨k', hm⟩ := lookup_mem l2
      have hr := hok _ hm i rfl
      refine ⟨s, i, l1, l2, h0, hr.2, ?_⟩
      simp [sizeValid, sizeValue, h0, i64AsU64_nonneg i h0 hr.2]

/-- **C01, a valid parse is sound (every text of the modelled grammar).**  Whenever `init_from_string`
    answers `is_valid = true`: the header was `# xet version 0`; the text parsed as TOML to a table whose
    key `hash` is bound to a string — exactly the pointer's hash string — and whose key `filesize` is bound
    to an integer `0 ≤ i ≤ i64::MAX` — exactly the pointer's filesize.  In particular a valid pointer never
    carries a size of `2^63` or more, and `to_string()` of it never panics. -/
theorem C01_pointer_valid_sound (t : Bytes) (pf : PF) (hp : initFromString t = some pf) (hv : pf.isValid = true) :
    pf.versionString = CURRENT_VERSION ∧
    pf.filesize ≤ I64_MAX ∧
    (∃ ps, parseToml t = .ok ps ∧ lookup KEY_HASH ps = some (.str pf.hash) ∧
      lookup KEY_FILESIZE ps = some (.int (pf.filesize : Int))) ∧
    display pf ≠ .panic := by
  unfold initFromString at hp
  split at hp
  · cases hp; cases hv
  · split at hp
    · cases hp; cases hv
    · cases hpt : parseToml t with
      | outside => simp [hpt] at hp
      | err =>
        simp only [hpt, Option.some.injEq] at hp
        subst hp
        rw [fromParsed_none] at hv; cases hv
      | ok ps =>
        simp only [hpt, Option.some.injEq] at hp
        subst hp
        obtain ⟨s, i, h1, h2, h3, h4, h5⟩ := fromParsed_valid ps (parseToml_ok t ps hpt) hv
        have hsz : i.toNat ≤ I64_MAX := by omega
        have hcast : ((i.toNat : Nat) : Int) = i := by omega
        rw [h5]
        refine ⟨rfl, hsz, ⟨ps, rfl, h1, by simp only [hcast]; exact h2⟩, ?_⟩
        have : ¬ (i.toNat > I64_MAX) := by omega
        simp only [display, Bool.not_true, Bool.false_eq_true, if_false, this, CURRENT_VERSION, List.isEmpty_cons]
        split <;> simp

/-- **C01, acceptance implies a well-formed hash and size (every text of the modelled grammar).**
    If the parsed pointer is accepted by the download path (`is_valid()` and `hash() = Ok(h)`), its hash
    string is exactly 64 ASCII hex digits denoting `h`, and its size is at most `i64::MAX` (so it is a u64). -/
theorem C01_pointer_accept_sound (t : Bytes) (pf : PF) (h : Hash) (hp : initFromString t = some pf)
    (ha : Accepted pf h) :
    pf.hash.length = 64 ∧ (∀ c ∈ pf.hash, isHexDigit c = true) ∧ Hash.fromHex pf.hash = some h ∧
    pf.filesize ≤ I64_MAX := by
  obtain ⟨hv, hh⟩ := ha
  simp only [hashOf, hv, if_true] at hh
  have := fromHex_shape hh
  exact ⟨this.1, this.2, hh, (C01_pointer_valid_sound t pf hp hv).2.1⟩

/-! ### the two-field grammar: the fields of the text are the fields of the pointer -/

/-- no leading zero: `"0"` itself, or a first digit other than `'0'` (TOML forbids `007`) -/
def noLeadingZero : Bytes → Bool
  | c :: _ :: _ => c.toNat != 48
  | _ => true

theorem integer_dec' (fs : Bytes) (hs : AllDec fs) (hne : fs ≠ []) :
    integer fs 10 =
      if noLeadingZero fs && decide (digitsVal 10 fs ≤ I64_MAX) then some ((digitsVal 10 fs : Nat) : Int) else none := by
  match fs, hs, hne with
  | [c], hs, _ =>
    rw [integer_dec c [] hs]
    by_cases hle : digitsVal 10 [c] ≤ I64_MAX <;> simp [noLeadingZero, hle]
  | c :: d :: cs, hs, _ =>
    rw [integer_dec c (d :: cs) hs]
    by_cases h48 : c.toNat = 48 <;> by_cases hle : digitsVal 10 (c :: d :: cs) ≤ I64_MAX <;>
      simp [noLeadingZero, h48, hle]

/-- the pointer `init_from_string` must return for the two-field text with size digits `fs` and hash string `hs` -/
def expectedPF (fs hs : Bytes) : PF :=
  if hs.all strChar && noLeadingZero fs && decide (digitsVal 10 fs ≤ I64_MAX) then
    ⟨CURRENT_VERSION, true, hs, digitsVal 10 fs⟩
  else ⟨CURRENT_VERSION, false, [], 0⟩

theorem twoField_values (fs hs : Bytes) (hd : AllDec fs) (hne : fs ≠ []) (hq : ∀ c ∈ hs, c.toNat ≠ 39) :
    ValueIs fs ((integer fs 10).map Val.int) ∧
    ValueIs (39 :: (hs ++ [39])) (if hs.all strChar then some (.str hs) else none) :=
  ⟨valueIs_dec fs hd hne, valueIs_lit hs hq⟩

theorem noCr_allDec (fs : Bytes) (hd : AllDec fs) : NoCr fs := by
  intro c hc
  have := (isDecDigit_iff c).mp (hd c hc)
  omega

/-- **C01, the parser reads the fields that are in the text — and nothing else (two-field grammar).**
    For EVERY string `fs` of decimal digits and EVERY byte string `hs` without `'` and carriage return
    (legal string characters or not, any length), the texts
      `# xet version 0\nfilesize = fs\nhash = 'hs'\n`   and   `# xet version 0\nhash = 'hs'\nfilesize = fs\n`
    parse to: a VALID pointer carrying exactly `(hs, value of fs)` if `hs` consists of legal TOML string
    characters, `fs` has no leading zero and its value is at most `i64::MAX`; and to the INVALID pointer
    (empty hash, size 0) in every other case.  Both line orders give the same pointer. -/
theorem C01_pointer_parse_fields (fs hs : Bytes) (hd : AllDec fs) (hne : fs ≠ [])
    (hq : ∀ c ∈ hs, c.toNat ≠ 39) (hcr : NoCr hs) :
    initFromString (pointerText fs (39 :: (hs ++ [39]))) = some (expectedPF fs hs) ∧
    initFromString (pointerTextSwapped fs (39 :: (hs ++ [39]))) = some (expectedPF fs hs) := by
  obtain ⟨v1, v2⟩ := twoField_values fs hs hd hne hq
  have c1 := noCr_allDec fs hd
  have c2 := noCr_lit hs hcr
  rw [initFromString_pointer _ _ _ _ v1 v2 c1 c2, initFromString_pointerSwapped _ _ _ _ v1 v2 c1 c2,
    integer_dec' fs hd hne]
  unfold expectedPF
  by_cases hstr : hs.all strChar = true
  · by_cases hn : (noLeadingZero fs && decide (digitsVal 10 fs ≤ I64_MAX)) = true
    · have hle : digitsVal 10 fs ≤ I64_MAX := by simp at hn; exact hn.2
      simp only [hstr, hn, if_true, Option.map_some, pairsOf, pairsOfSwapped, Bool.true_and]
      rw [← Int.ofNat_eq_natCast, fromParsed_pointer hs _ hle, fromParsed_pointerSwapped hs _ hle]
      simp
    · simp only [Bool.not_eq_true] at hn
      simp only [hstr, hn, Bool.false_eq_true, if_false, Option.map_none, pairsOf, pairsOfSwapped, fromParsed_none,
        Bool.true_and, and_self]
  · simp only [Bool.not_eq_true] at hstr
    have e1 : ∀ o : Option Val, pairsOf o none = none := by intro o; cases o <;> rfl
    have e2 : ∀ o : Option Val, pairsOfSwapped o none = none := by intro o; cases o <;> rfl
    simp only [hstr, Bool.false_eq_true, if_false, e1, e2, fromParsed_none, Bool.false_and, and_self]

/-- **C01, rejection.**  On the two-field grammar (either line order) the download path accepts a text
    ONLY IF its hash field is exactly 64 ASCII hex digits (denoting the accepted hash `h`) and its size field
    is a decimal number without leading zero whose value is at most `i64::MAX` — and then the pointer carries
    exactly that hash string and that value.  Contrapositive: a hash field that is too short, too long or
    contains a non-hex byte, or a size field that overflows an `i64` (every number that is not a `u64` does),
    is never accepted. -/
theorem C01_pointer_reject (fs hs : Bytes) (hd : AllDec fs) (hne : fs ≠ [])
    (hq : ∀ c ∈ hs, c.toNat ≠ 39) (hcr : NoCr hs) (t : Bytes)
    (ht : t = pointerText fs (39 :: (hs ++ [39])) ∨ t = pointerTextSwapped fs (39 :: (hs ++ [39])))
    (pf : PF) (h : Hash) (hp : initFromString t = some pf) (ha : Accepted pf h) :
    hs.length = 64 ∧ (∀ c ∈ hs, isHexDigit c = true) ∧ Hash.fromHex hs = some h ∧
    noLeadingZero fs = true ∧ digitsVal 10 fs ≤ I64_MAX ∧
    pf.hash = hs ∧ pf.filesize = digitsVal 10 fs := by
  have hpf : pf = expectedPF fs hs := by
    have := C01_pointer_parse_fields fs hs hd hne hq hcr
    rcases ht with rfl | rfl
    · rw [this.1] at hp; exact (Option.some.inj hp).symm
    · rw [this.2] at hp; exact (Option.some.inj hp).symm
  have hacc := C01_pointer_accept_sound t pf h hp ha
  have hv := ha.1
  rw [hpf] at hv hacc ⊢
  by_cases hc : (hs.all strChar && noLeadingZero fs && decide (digitsVal 10 fs ≤ I64_MAX)) = true
  · have hexp : expectedPF fs hs = ⟨CURRENT_VERSION, true, hs, digitsVal 10 fs⟩ := by
      simp only [expectedPF, hc, if_true]
    rw [hexp] at hacc ⊢
    simp only [Bool.and_eq_true, decide_eq_true_eq] at hc
    exact ⟨hacc.1, hacc.2.1, hacc.2.2.1, hc.1.2, hc.2, rfl, rfl⟩
  · have hexp : expectedPF fs hs = ⟨CURRENT_VERSION, false, [], 0⟩ := by
      simp only [expectedPF, hc, Bool.false_eq_true, if_false]
    rw [hexp] at hv
    cases hv

/-- an overflowing size field is never valid (two-field grammar) -/
theorem C01_pointer_reject_overflow (fs hs : Bytes) (hd : AllDec fs) (hne : fs ≠ [])
    (hq : ∀ c ∈ hs, c.toNat ≠ 39) (hcr : NoCr hs) (hbig : I64_MAX < digitsVal 10 fs) :
    initFromString (pointerText fs (39 :: (hs ++ [39]))) = some ⟨CURRENT_VERSION, false, [], 0⟩ := by
  rw [(C01_pointer_parse_fields fs hs hd hne hq hcr).1]
  have : ¬ (digitsVal 10 fs ≤ I64_MAX) := by omega
  simp [expectedPF, this]

/-! ## non-vacuity: concrete pointers -/

/-- a hash with leading zeros inside words -/
def exHash : Hash := ⟨0x0123456789abcdef, 0, 0xffffffffffffffff, 42⟩

/-- `# xet version 0\nfilesize = 678\nhash = '0123…002a'\n` -/
def exText : Bytes := [35, 32, 120, 101, 116, 32, 118, 101, 114, 115, 105, 111, 110, 32, 48, 10, 102, 105, 108, 101, 115, 105, 122, 101, 32, 61, 32, 54, 55, 56, 10, 104, 97, 115, 104, 32, 61, 32, 39, 48, 49, 50, 51, 52, 53, 54, 55, 56, 57, 97, 98, 99, 100, 101, 102, 48, 48, 48, 48, 48, 48, 48, 48, 48, 48, 48, 48, 48, 48, 48, 48, 102, 102, 102, 102, 102, 102, 102, 102, 102, 102, 102, 102, 102, 102, 102, 102, 48, 48, 48, 48, 48, 48, 48, 48, 48, 48, 48, 48, 48, 48, 50, 97, 39, 10]

/-- the cleaner's text for `(exHash, 678)` is `exText` (105 bytes) … -/
example : render exHash 678 = .text exText := by decide
/-- … which parses back to exactly `(exHash.hex, 678)`, is accepted with hash `exHash`, and is sniffed -/
example : initFromString exText = some (initFromInfo exHash.hex 678) := by decide
example : Accepted (initFromInfo exHash.hex 678) exHash := ⟨by decide, by decide⟩
example : isXetPointerFile exText = some true := by decide
example : exText.length = 105 := by decide
/-- the largest size that can be rendered, and the first that cannot -/
example : (decBytes I64_MAX).length = 19 ∧ (renderText exHash I64_MAX).length = 121 := by decide +kernel
example : render exHash (I64_MAX + 1) = .panic := by decide

/-- the text of the Rust unit test `parses_correctly` (`hash = '12345'`, no final newline): VALID for
    `is_valid()`, yet `hash()` is an error — `is_valid` alone does not make a hash well formed -/
def exTestText : Bytes := [35, 32, 120, 101, 116, 32, 118, 101, 114, 115, 105, 111, 110, 32, 48, 10, 104, 97, 115, 104, 32, 61, 32, 39, 49, 50, 51, 52, 53, 39, 10, 102, 105, 108, 101, 115, 105, 122, 101, 32, 61, 32, 54, 55, 56]
example : initFromString exTestText = some ⟨CURRENT_VERSION, true, [49, 50, 51, 52, 53], 678⟩ := by decide
example : hashOf ⟨CURRENT_VERSION, true, [49, 50, 51, 52, 53], 678⟩ = none := by decide

/-- CRLF line ends, swapped fields, no spaces around `=`, a comment, an upper-case hash, a hex size with an
    underscore and an unknown key with a basic string: valid, size `0x2A6 = 678`, and `hash()` reads the
    upper-case digits as `exHash` -/
def exLooseText : Bytes := [35, 32, 120, 101, 116, 32, 118, 101, 114, 115, 105, 111, 110, 32, 48, 13, 10, 32, 32, 104, 97, 115, 104, 61, 39, 48, 49, 50, 51, 52, 53, 54, 55, 56, 57, 65, 66, 67, 68, 69, 70, 48, 48, 48, 48, 48, 48, 48, 48, 48, 48, 48, 48, 48, 48, 48, 48, 70, 70, 70, 70, 70, 70, 70, 70, 70, 70, 70, 70, 70, 70, 70, 70, 48, 48, 48, 48, 48, 48, 48, 48, 48, 48, 48, 48, 48, 48, 50, 65, 39, 32, 35, 32, 99, 13, 10, 13, 10, 102, 105, 108, 101, 115, 105, 122, 101, 9, 61, 9, 48, 120, 50, 95, 65, 54, 13, 10, 102, 111, 111, 32, 61, 32, 34, 98, 92, 116, 97, 114, 34, 13, 10]
example : (initFromString exLooseText).map (fun pf => (pf.isValid, pf.filesize, hashOf pf)) = some (true, 678, some exHash) := by
  decide +kernel

/-- a size field of `2^63` is rejected (hypotheses of `C01_pointer_reject_overflow` are satisfiable) -/
def exOverflowText : Bytes := [35, 32, 120, 101, 116, 32, 118, 101, 114, 115, 105, 111, 110, 32, 48, 10, 102, 105, 108, 101, 115, 105, 122, 101, 32, 61, 32, 57, 50, 50, 51, 51, 55, 50, 48, 51, 54, 56, 53, 52, 55, 55, 53, 56, 48, 56, 10, 104, 97, 115, 104, 32, 61, 32, 39, 48, 49, 50, 51, 52, 53, 54, 55, 56, 57, 97, 98, 99, 100, 101, 102, 48, 48, 48, 48, 48, 48, 48, 48, 48, 48, 48, 48, 48, 48, 48, 48, 102, 102, 102, 102, 102, 102, 102, 102, 102, 102, 102, 102, 102, 102, 102, 102, 48, 48, 48, 48, 48, 48, 48, 48, 48, 48, 48, 48, 48, 48, 50, 97, 39, 10]
example : initFromString exOverflowText = some ⟨CURRENT_VERSION, false, [], 0⟩ := by decide
/-- a date-time is outside the modelled grammar: the model does not decide -/
def exOutsideText : Bytes := [35, 32, 120, 101, 116, 32, 118, 101, 114, 115, 105, 111, 110, 32, 48, 10, 102, 105, 108, 101, 115, 105, 122, 101, 32, 61, 32, 49, 57, 55, 57, 45, 48, 53, 45, 50, 55, 10, 104, 97, 115, 104, 32, 61, 32, 39, 48, 49, 50, 51, 52, 53, 54, 55, 56, 57, 97, 98, 99, 100, 101, 102, 48, 48, 48, 48, 48, 48, 48, 48, 48, 48, 48, 48, 48, 48, 48, 48, 102, 102, 102, 102, 102, 102, 102, 102, 102, 102, 102, 102, 102, 102, 102, 102, 48, 48, 48, 48, 48, 48, 48, 48, 48, 48, 48, 48, 48, 48, 50, 97, 39, 10]
example : initFromString exOutsideText = none := by decide

/-- the hypotheses of `C01_pointer_reject` are satisfiable, with an accepted and with a rejected text -/
example : exText = pointerText [54, 55, 56] (39 :: (exHash.hex ++ [39])) := by decide
example : exOverflowText = pointerText (decBytes (I64_MAX + 1)) (39 :: (exHash.hex ++ [39])) := by decide

end Xet.Pointer
