/-
Helper lemmas for the pointer-file properties (`XetProps/C01Pointer.lean`).  Model: `XetModel/Pointer.lean`.
Core Lean only.

Contents
 1. character facts (digits, lower-case hex digits, key-like characters);
 2. the scanners on `s ++ terminator :: rest` (`spanKeylike`, `litBody`, `skipComment`, `scanLine`, `crlfFold`);
 3. `next` / `value` on a key-like token and on a literal string;
 4. decimal numbers: `decF`/`decBytes` (digits, no leading zero, value) and `integer` on digit strings;
 5. lines: `keyValue` on `key = value\n`, `parseLines` step lemmas, and the two-line pointer body;
 6. the i64 range invariant of every integer the parser produces.
-/
import XetModel.Pointer
import XetProofs.MerkleSens

namespace Xet.Pointer
open Xet

/-! ## 1. characters -/

/-- decimal digit characters `'0'..'9'` -/
def AllDec (s : Bytes) : Prop := ∀ c ∈ s, isDecDigit c = true

/-- key-like characters only -/
def AllKeylike (s : Bytes) : Prop := ∀ c ∈ s, isKeylike c = true

theorem isDecDigit_iff (c : UInt8) : isDecDigit c = true ↔ 48 ≤ c.toNat ∧ c.toNat ≤ 57 := by
  simp [isDecDigit]

theorem isKeylike_iff (c : UInt8) : isKeylike c = true ↔
    (65 ≤ c.toNat ∧ c.toNat ≤ 90) ∨ (97 ≤ c.toNat ∧ c.toNat ≤ 122) ∨ (48 ≤ c.toNat ∧ c.toNat ≤ 57)
      ∨ c.toNat = 45 ∨ c.toNat = 95 := by
  simp [isKeylike, or_assoc]

theorem dec_keylike {c : UInt8} (h : isDecDigit c = true) : isKeylike c = true := by
  rw [isDecDigit_iff] at h; rw [isKeylike_iff]; omega

theorem AllDec.keylike {s : Bytes} (h : AllDec s) : AllKeylike s := fun c hc => dec_keylike (h c hc)

theorem digitChar_toNat (d : Nat) (h : d < 16) :
    (Hash.digitChar d).toNat = if d < 10 then 48 + d else 87 + d := by
  have : d = 0 ∨ d = 1 ∨ d = 2 ∨ d = 3 ∨ d = 4 ∨ d = 5 ∨ d = 6 ∨ d = 7 ∨ d = 8 ∨ d = 9 ∨ d = 10 ∨ d = 11 ∨
      d = 12 ∨ d = 13 ∨ d = 14 ∨ d = 15 := by omega
  rcases this with h|h|h|h|h|h|h|h|h|h|h|h|h|h|h|h <;> subst h <;> decide

/-- lower-case hex digit characters `0-9a-f` -/
def isHexLower (c : UInt8) : Bool := (48 ≤ c.toNat && c.toNat ≤ 57) || (97 ≤ c.toNat && c.toNat ≤ 102)

theorem isHexLower_iff (c : UInt8) : isHexLower c = true ↔
    (48 ≤ c.toNat ∧ c.toNat ≤ 57) ∨ (97 ≤ c.toNat ∧ c.toNat ≤ 102) := by
  simp [isHexLower]

theorem hex_isHexLower (h : Hash) : ∀ c ∈ h.hex, isHexLower c = true := by
  intro c hc
  simp only [Hash.hex, Hash.wordHex, List.mem_append, List.mem_map] at hc
  have key : ∀ w : UInt64, (∃ a, a ∈ Hash.natDigits16 16 w.toNat ∧ Hash.digitChar a = c) → isHexLower c = true := by
    rintro w ⟨d, hd, rfl⟩
    have hlt := Merkle.natDigits16_lt 16 _ d hd
    rw [isHexLower_iff, digitChar_toNat d hlt]
    split <;> omega
  rcases hc with ((h0 | h1) | h2) | h3
  · exact key _ h0
  · exact key _ h1
  · exact key _ h2
  · exact key _ h3

theorem strChar_of_hexLower {c : UInt8} (h : isHexLower c = true) : strChar c = true ∧ c.toNat ≠ 39 ∧ c.toNat ≠ 13 := by
  rw [isHexLower_iff] at h
  refine ⟨?_, by omega, by omega⟩
  simp only [strChar, Bool.or_eq_true, beq_iff_eq, Bool.and_eq_true, decide_eq_true_eq, bne_iff_ne, ne_eq]
  omega

/-! ## 2. scanners -/

theorem spanKeylike_append (s : Bytes) (c : UInt8) (r : Bytes) (hs : AllKeylike s) (hc : isKeylike c = false) :
    spanKeylike (s ++ c :: r) = ⟨s, c :: r⟩ := by
  induction s with
  | nil => simp [spanKeylike, hc]
  | cons x xs ih =>
    have hx : isKeylike x = true := hs x (by simp)
    have := ih (fun y hy => hs y (by simp [hy]))
    simp [spanKeylike, hx, this]

theorem spanKeylike_nil_end (s : Bytes) (hs : AllKeylike s) : spanKeylike s = ⟨s, []⟩ := by
  induction s with
  | nil => simp [spanKeylike]
  | cons x xs ih =>
    have hx : isKeylike x = true := hs x (by simp)
    have := ih (fun y hy => hs y (by simp [hy]))
    simp [spanKeylike, hx, this]

theorem litBody_append (hs r : Bytes) (h39 : ∀ c ∈ hs, c.toNat ≠ 39) :
    litBody (hs ++ 39 :: r) = if hs.all strChar then .ok hs r else .err := by
  induction hs with
  | nil => simp [litBody]
  | cons c cs ih =>
    have hc : c.toNat ≠ 39 := h39 c (by simp)
    have ih' := ih (fun y hy => h39 y (by simp [hy]))
    simp only [List.cons_append, litBody, List.all_cons]
    by_cases h10 : c.toNat = 10
    · have : strChar c = false := by simp [strChar, h10]
      simp [h10, this]
    · by_cases hsc : strChar c = true
      · simp only [beq_iff_eq, h10, hc, if_false, hsc, if_true, ih', Bool.true_and]
        split <;> simp [StrRes.cons]
      · simp only [Bool.not_eq_true] at hsc
        simp [h10, hc, hsc]

theorem skipComment_append (s : Bytes) (c : UInt8) (r : Bytes) (hs : ∀ x ∈ s, commentChar x = true)
    (hc : commentChar c = false) : skipComment (s ++ c :: r) = c :: r := by
  induction s with
  | nil => simp [skipComment, hc]
  | cons x xs ih =>
    have hx := hs x (by simp)
    simp [skipComment, hx, ih (fun y hy => hs y (by simp [hy]))]

theorem scanLine_append (s r : Bytes) (hs : ∀ x ∈ s, x.toNat ≠ 10) : scanLine (s ++ 10 :: r) = ⟨s, true⟩ := by
  induction s with
  | nil => simp [scanLine]
  | cons x xs ih =>
    have hx := hs x (by simp)
    simp [scanLine, hx, ih (fun y hy => hs y (by simp [hy]))]

theorem crlfFold_id (t : Bytes) (h : ∀ x ∈ t, x.toNat ≠ 13) : crlfFold t = t := by
  fun_induction crlfFold t with
  | case1 => rfl
  | case2 c => rfl
  | case3 c d cs hcd ih =>
    have := h c (by simp)
    simp_all
  | case4 c d cs hcd ih =>
    rw [ih (fun y hy => h y (by simp [hy]))]

theorem skipWs_not_ws (c : UInt8) (cs : Bytes) (h : isWs c = false) : skipWs (c :: cs) = c :: cs := by
  simp [skipWs, h]

/-! ## 3. `next` and `value` on a key-like token and on a literal string -/

theorem keylike_not_special {c : UInt8} (h : isKeylike c = true) :
    c.toNat ≠ 10 ∧ c.toNat ≠ 32 ∧ c.toNat ≠ 9 ∧ c.toNat ≠ 35 ∧ c.toNat ≠ 61 ∧ c.toNat ≠ 46 ∧ c.toNat ≠ 44 ∧
    c.toNat ≠ 58 ∧ c.toNat ≠ 43 ∧ c.toNat ≠ 123 ∧ c.toNat ≠ 125 ∧ c.toNat ≠ 91 ∧ c.toNat ≠ 93 ∧ c.toNat ≠ 39 ∧
    c.toNat ≠ 34 := by
  rw [isKeylike_iff] at h; omega

theorem keylike_not_ws {c : UInt8} (h : isKeylike c = true) : isWs c = false := by
  have := keylike_not_special h
  simp [isWs]; omega

theorem next_keylike (c : UInt8) (cs : Bytes) (h : isKeylike c = true) :
    next (c :: cs) = .tok (.keylike (c :: (spanKeylike cs).val)) (spanKeylike cs).rest := by
  obtain ⟨h1, h2, h3, h4, h5, h6, h7, h8, h9, h10, h11, h12, h13, h14, h15⟩ := keylike_not_special h
  simp [next, h1, h2, h3, h4, h5, h6, h7, h8, h9, h10, h11, h12, h13, h14, h15, h]

/-- a non-empty key-like run followed by a non-key-like byte is one Keylike token -/
theorem next_keylike_token (s : Bytes) (c : UInt8) (r : Bytes) (hs : AllKeylike s) (hne : s ≠ [])
    (hc : isKeylike c = false) : next (s ++ c :: r) = .tok (.keylike s) (c :: r) := by
  cases s with
  | nil => exact absurd rfl hne
  | cons x xs =>
    have hx := hs x (by simp)
    rw [List.cons_append, next_keylike x _ hx, spanKeylike_append xs c r (fun y hy => hs y (by simp [hy])) hc]

theorem next_newline (r : Bytes) : next (10 :: r) = .tok .newline r := by simp [next]

theorem next_lit (hs r : Bytes) (h39 : ∀ c ∈ hs, c.toNat ≠ 39) :
    next (39 :: (hs ++ 39 :: 10 :: r)) = if hs.all strChar then .tok (.str hs) (10 :: r) else .err := by
  have h0 : next (39 :: (hs ++ 39 :: 10 :: r)) = .ofStr (readString 39 litBody (hs ++ 39 :: 10 :: r)) := by
    simp [next]
  rw [h0]
  cases hs with
  | nil => simp [readString, NextRes.ofStr]
  | cons c cs =>
    have hc : c.toNat ≠ 39 := h39 c (by simp)
    have : readString 39 litBody (c :: cs ++ 39 :: 10 :: r) = litBody (c :: cs ++ 39 :: 10 :: r) := by
      simp [readString, hc]
    rw [this, litBody_append (c :: cs) (10 :: r) h39]
    split <;> simp [NextRes.ofStr]

theorem value_lit (hs r : Bytes) (h39 : ∀ c ∈ hs, c.toNat ≠ 39) :
    value (39 :: (hs ++ 39 :: 10 :: r)) = if hs.all strChar then .ok ⟨.str hs, 10 :: r⟩ else .err := by
  unfold value
  rw [next_lit hs r h39]
  by_cases h : hs.all strChar = true <;> simp [h]

theorem value_keylike (s r : Bytes) (hs : AllKeylike s) (hne : s ≠ []) :
    value (s ++ 10 :: r) = keylikeValue s (10 :: r) := by
  unfold value
  rw [next_keylike_token s 10 r hs hne (by decide)]

/-! ## 4. decimal numbers -/

def ofDigits10 (ds : List Nat) : Nat := ds.foldl (fun a d => a * 10 + d) 0

theorem ofDigits10_snoc (ds : List Nat) (d : Nat) : ofDigits10 (ds ++ [d]) = ofDigits10 ds * 10 + d := by
  simp [ofDigits10, List.foldl_append]

theorem decF_lt10 (f n : Nat) : ∀ d ∈ decF f n, d < 10 := by
  induction f generalizing n with
  | zero => simp [decF]
  | succ f ih =>
    intro d hd
    rw [decF] at hd
    split at hd
    · simp at hd; omega
    · rcases List.mem_append.mp hd with h | h
      · exact ih _ d h
      · simp at h; omega

theorem decF_length_le (f n : Nat) : (decF f n).length ≤ f := by
  induction f generalizing n with
  | zero => simp [decF]
  | succ f ih =>
    rw [decF]
    split
    · simp
    · have := ih (n / 10); simp; omega

theorem decF_ne_nil (f n : Nat) : decF (f + 1) n ≠ [] := by
  rw [decF]; split <;> simp

theorem ofDigits10_decF (f n : Nat) (h : n < 10 ^ f) : ofDigits10 (decF f n) = n := by
  induction f generalizing n with
  | zero => simp at h; subst h; simp [decF, ofDigits10]
  | succ f ih =>
    rw [decF]
    split
    · simp [ofDigits10]
    · rw [ofDigits10_snoc, ih (n / 10) (by rw [Nat.pow_succ] at h; omega)]
      omega

/-- no leading zero: the first digit of a positive number is not `0` -/
theorem decF_head (f n : Nat) (h0 : 0 < n) (h : n < 10 ^ f) : ∃ d ds, decF f n = d :: ds ∧ d ≠ 0 := by
  induction f generalizing n with
  | zero => simp at h; omega
  | succ f ih =>
    rw [decF]
    split
    · exact ⟨n, [], rfl, by omega⟩
    · obtain ⟨d, ds, e, hd⟩ := ih (n / 10) (by omega) (by rw [Nat.pow_succ] at h; omega)
      exact ⟨d, ds ++ [n % 10], by rw [e]; rfl, hd⟩

theorem decF_zero (f : Nat) : decF (f + 1) 0 = [0] := by simp [decF]

theorem digitChar_dec (d : Nat) (h : d < 10) : (Hash.digitChar d).toNat = 48 + d := by
  rw [digitChar_toNat d (by omega)]; simp [h]

theorem decBytes_allDec (n : Nat) : AllDec (decBytes n) := by
  intro c hc
  simp only [decBytes, List.mem_map] at hc
  obtain ⟨d, hd, rfl⟩ := hc
  have := decF_lt10 20 n d hd
  rw [isDecDigit_iff, digitChar_dec d this]; omega

theorem decBytes_ne_nil (n : Nat) : decBytes n ≠ [] := by
  simp [decBytes, decF_ne_nil]

theorem decBytes_length_le (n : Nat) : (decBytes n).length ≤ 20 := by
  simp [decBytes, decF_length_le]

theorem digitsVal_map_aux (ds : List Nat) (h : ∀ d ∈ ds, d < 10) (a : Nat) :
    (ds.map Hash.digitChar).foldl (digitStep 10) a = ds.foldl (fun a d => a * 10 + d) a := by
  induction ds generalizing a with
  | nil => rfl
  | cons d ds ih =>
    have hd := h d (by simp)
    simp only [List.map_cons, List.foldl_cons, digitStep, Merkle.charDigit_digitChar d (by omega)]
    exact ih (fun x hx => h x (by simp [hx])) _

theorem digitsVal_decBytes (n : Nat) (h : n < 10 ^ 20) : digitsVal 10 (decBytes n) = n := by
  simp only [digitsVal, decBytes]
  rw [digitsVal_map_aux (decF 20 n) (decF_lt10 20 n) 0]
  exact ofDigits10_decF 20 n h

theorem decBytes_zero : decBytes 0 = [48] := by decide

/-- `decBytes n` is `"0"` or starts with a digit other than `'0'` -/
theorem decBytes_head (n : Nat) (h : n < 10 ^ 20) :
    decBytes n = [48] ∨ ∃ c cs, decBytes n = c :: cs ∧ c.toNat ≠ 48 := by
  by_cases h0 : n = 0
  · subst h0; exact Or.inl decBytes_zero
  · right
    obtain ⟨d, ds, e, hd⟩ := decF_head 20 n (by omega) h
    have hlt : d < 10 := decF_lt10 20 n d (by rw [e]; simp)
    refine ⟨Hash.digitChar d, ds.map Hash.digitChar, by simp [decBytes, e], ?_⟩
    rw [digitChar_dec d hlt]; omega

/-! ### `integer` on a string of decimal digits -/

theorem charDigit_dec {c : UInt8} (h : isDecDigit c = true) : Hash.charDigit c = some (c.toNat - 48) := by
  rw [isDecDigit_iff] at h
  simp [Hash.charDigit, h]

theorem isDigitRadix_dec {c : UInt8} (h : isDecDigit c = true) : isDigitRadix 10 c = true := by
  rw [isDigitRadix, charDigit_dec h]
  rw [isDecDigit_iff] at h
  simp; omega

theorem piLoop_dec_nz (s : Bytes) (hs : AllDec s) (us : Bool) (i : Nat) :
    piLoop false 10 false false us i s = .done (i + s.length) false (if s = [] then us else false) := by
  induction s generalizing us i with
  | nil => simp [piLoop]
  | cons c cs ih =>
    have hc := hs c (by simp)
    have ih' := ih (fun y hy => hs y (by simp [hy])) false (i + 1)
    simp only [piLoop, Bool.and_false, isDigitRadix_dec hc, if_true, Bool.not_false, Bool.false_and,
      Bool.false_eq_true, if_false, ih', List.length_cons]
    by_cases hcs : cs = [] <;> simp [hcs] <;> omega

theorem piLoop_dec_z (s : Bytes) (hs : AllDec s) (us : Bool) (i : Nat) :
    piLoop false 10 false true us i s = if s = [] then .done i false us else .err := by
  cases s with
  | nil => simp [piLoop]
  | cons c cs =>
    have hc := hs c (by simp)
    simp [piLoop, isDigitRadix_dec hc]

theorem parseInteger_dec (c : UInt8) (cs : Bytes) (hs : AllDec (c :: cs)) :
    parseInteger (c :: cs) true false 10 =
      if c.toNat = 48 ∧ cs ≠ [] then none else some ⟨c :: cs, []⟩ := by
  have hc := hs c (by simp)
  have hcs : AllDec cs := fun y hy => hs y (by simp [hy])
  have hc' := (isDecDigit_iff c).mp hc
  have hsign : (c.toNat == 43 || c.toNat == 45) = false := by simp; omega
  simp only [parseInteger, hsign, Bool.false_and, Bool.false_eq_true, if_false]
  by_cases h48 : c.toNat = 48
  · have : piLoop false 10 true false false 0 (c :: cs) = piLoop false 10 false true false 1 cs := by
      simp [piLoop, h48]
    rw [this, piLoop_dec_z cs hcs]
    by_cases hnil : cs = []
    · subst hnil; simp [piFinish, h48]
    · simp [hnil, piFinish, h48]
  · have : piLoop false 10 true false false 0 (c :: cs) = piLoop false 10 false false false 1 cs := by
      simp [piLoop, h48, isDigitRadix_dec hc]
    rw [this, piLoop_dec_nz cs hcs]
    have : (1 + cs.length) = (c :: cs).length := by simp; omega
    simp [piFinish, h48, this]

theorem filter_us_dec (s : Bytes) (hs : AllDec s) : s.filter (fun c => c.toNat != 95) = s := by
  rw [List.filter_eq_self]
  intro c hc
  have := (isDecDigit_iff c).mp (hs c hc)
  simp; omega

/-- **`integer` on decimal digits**: accepted iff there is no leading zero and the value fits an `i64` -/
theorem integer_dec (c : UInt8) (cs : Bytes) (hs : AllDec (c :: cs)) :
    integer (c :: cs) 10 =
      if c.toNat = 48 ∧ cs ≠ [] then none
      else if digitsVal 10 (c :: cs) ≤ I64_MAX then some (Int.ofNat (digitsVal 10 (c :: cs))) else none := by
  have hc' := (isDecDigit_iff c).mp (hs c (by simp))
  have h1 : ((10 : Nat) == 10) = true := rfl
  have h2 : ((10 : Nat) != 10) = false := rfl
  simp only [integer, h1, h2, parseInteger_dec c cs hs]
  by_cases hz : c.toNat = 48 ∧ cs ≠ []
  · simp [hz]
  · have h45 : (c.toNat == 45) = false := by simp; omega
    simp only [hz, if_false, List.isEmpty_nil, if_true, fromStrRadix, filter_us_dec _ hs, h45,
      Bool.false_eq_true]

/-! ### `value` on a string of decimal digits -/

theorem contains_dec (s : Bytes) (hs : AllDec s) (n : Nat) (hn : n < 48 ∨ 57 < n) : contains s n = false := by
  simp only [contains, List.any_eq_false, beq_iff_eq]
  intro c hc
  have := (isDecDigit_iff c).mp (hs c hc)
  omega

theorem startsWith2_dec (s : Bytes) (hs : AllDec s) (a b : Nat) (hb : b < 48 ∨ 57 < b) :
    startsWith2 s a b = false := by
  match s, hs with
  | [], _ => rfl
  | [_], _ => rfl
  | c :: d :: cs, hs =>
    have := (isDecDigit_iff d).mp (hs d (by simp))
    simp [startsWith2]; omega

theorem cons_beq_false {c d : UInt8} {cs ds : Bytes} (h : c.toNat ≠ d.toNat) : (c :: cs == d :: ds) = false := by
  rw [beq_eq_false_iff_ne]
  intro e
  injection e with e1 _
  exact h (by rw [e1])

theorem AllDec.tail {c : UInt8} {cs : Bytes} (h : AllDec (c :: cs)) : AllDec cs := fun y hy => h y (by simp [hy])

theorem keylikeValue_dec (c : UInt8) (cs r : Bytes) (hs : AllDec (c :: cs)) :
    keylikeValue (c :: cs) (10 :: r) = optInt (integer (c :: cs) 10) (10 :: r) := by
  have hc := hs c (by simp)
  have hc' := (isDecDigit_iff c).mp hc
  have e1 : (c :: cs == S_TRUE) = false := cons_beq_false (by simp; omega)
  have e2 : (c :: cs == S_FALSE) = false := cons_beq_false (by simp; omega)
  have e3 : (c :: cs == S_INF) = false := cons_beq_false (by simp; omega)
  have e4 : (c :: cs == S_NAN) = false := cons_beq_false (by simp; omega)
  have e5 : (c :: cs == 45 :: S_INF) = false := cons_beq_false (by simp; omega)
  have e6 : (c :: cs == 45 :: S_NAN) = false := cons_beq_false (by simp; omega)
  have c84 := contains_dec _ hs 84 (by omega)
  have c116 := contains_dec _ hs 116 (by omega)
  have c101 := contains_dec _ hs 101 (by omega)
  have c69 := contains_dec _ hs 69 (by omega)
  have c45 : contains ((c :: cs).drop 1) 45 = false := contains_dec _ hs.tail 45 (by omega)
  have s1 := startsWith2_dec _ hs 48 120 (by omega)
  have s2 := startsWith2_dec _ hs 48 111 (by omega)
  have s3 := startsWith2_dec _ hs 48 98 (by omega)
  simp only [keylikeValue, e1, e2, e3, e4, Bool.false_eq_true, if_false, Bool.or_false, hc, Bool.or_true, if_true,
    numberOrDate, c84, c116, c45, Bool.and_false, Bool.false_and, next_newline, number, s1, s2, s3, c101, c69, e5, e6]

/-- a string of decimal digits at value position, ended by a line feed -/
theorem value_dec (fs r : Bytes) (hs : AllDec fs) (hne : fs ≠ []) :
    value (fs ++ 10 :: r) = optInt (integer fs 10) (10 :: r) := by
  rw [value_keylike fs r hs.keylike hne]
  cases fs with
  | nil => exact absurd rfl hne
  | cons c cs => exact keylikeValue_dec c cs r hs

theorem integer_decBytes (n : Nat) (h : n ≤ I64_MAX) : integer (decBytes n) 10 = some (Int.ofNat n) := by
  have hlt : n < 10 ^ 20 := by simp [I64_MAX] at h; omega
  have hv := digitsVal_decBytes n hlt
  have hall := decBytes_allDec n
  rcases decBytes_head n hlt with e | ⟨c, cs, e, hc⟩
  · rw [e] at hv hall ⊢
    rw [integer_dec 48 [] hall]
    simp only [ne_eq, not_true_eq_false, and_false, if_false, hv, h, if_true]
  · rw [e] at hv hall ⊢
    rw [integer_dec c cs hall]
    simp only [hc, false_and, if_false, hv, h, if_true]

theorem value_decBytes (n : Nat) (h : n ≤ I64_MAX) (r : Bytes) :
    value (decBytes n ++ 10 :: r) = .ok ⟨.int (Int.ofNat n), 10 :: r⟩ := by
  rw [value_dec _ r (decBytes_allDec n) (decBytes_ne_nil n), integer_decBytes n h]
  rfl

/-! ## 5. lines -/

/-- the value text `vt`, followed by a line feed, denotes `o` (`none` = a TOML error) whatever follows,
    and does not start with white space -/
def ValueIs (vt : Bytes) (o : Option Val) : Prop :=
  (∀ r, skipWs (vt ++ 10 :: r) = vt ++ 10 :: r) ∧
  ∀ r, value (vt ++ 10 :: r) = match o with
    | some v => .ok ⟨v, 10 :: r⟩
    | none => .err

theorem valueIs_dec (fs : Bytes) (hs : AllDec fs) (hne : fs ≠ []) :
    ValueIs fs ((integer fs 10).map Val.int) := by
  constructor
  · intro r
    cases fs with
    | nil => exact absurd rfl hne
    | cons c cs => exact skipWs_not_ws c _ (keylike_not_ws (dec_keylike (hs c (by simp))))
  · intro r
    rw [value_dec fs r hs hne]
    cases integer fs 10 <;> rfl

theorem valueIs_lit (hs : Bytes) (h39 : ∀ c ∈ hs, c.toNat ≠ 39) :
    ValueIs (39 :: (hs ++ [39])) (if hs.all strChar then some (.str hs) else none) := by
  constructor
  · intro r; exact skipWs_not_ws 39 _ (by decide)
  · intro r
    have : (39 :: (hs ++ [39])) ++ 10 :: r = 39 :: (hs ++ 39 :: 10 :: r) := by simp
    rw [this, value_lit hs r h39]
    by_cases h : hs.all strChar = true <;> simp [h]

theorem eatComment_not_hash (c : UInt8) (cs : Bytes) (h : c.toNat ≠ 35) : eatComment (c :: cs) = .ok none := by
  simp [eatComment, h]

theorem endOfLine_newline (r : Bytes) : endOfLine (10 :: r) = .ok r := by
  simp [endOfLine, skipWs, isWs, eatComment, eatNewlineOrEof, next_newline]

/-- one body line `key = value\n` -/
def bodyLine (k vt rest : Bytes) : Bytes := k ++ 32 :: 61 :: 32 :: (vt ++ 10 :: rest)

theorem keyValue_bodyLine (k vt rest : Bytes) (o : Option Val) (hk : AllKeylike k) (hne : k ≠ [])
    (hv : ValueIs vt o) :
    keyValue (bodyLine k vt rest) = match o with
      | some v => .ok ⟨k, v, rest⟩
      | none => .err := by
  have h1 : next (k ++ 32 :: 61 :: 32 :: (vt ++ 10 :: rest)) = .tok (.keylike k) (32 :: 61 :: 32 :: (vt ++ 10 :: rest)) :=
    next_keylike_token k 32 _ hk hne (by decide)
  have h2 : skipWs (32 :: 61 :: 32 :: (vt ++ 10 :: rest)) = 61 :: 32 :: (vt ++ 10 :: rest) := by
    simp [skipWs, isWs]
  have h3 : next (61 :: 32 :: (vt ++ 10 :: rest)) = .tok .equals (32 :: (vt ++ 10 :: rest)) := by simp [next]
  have h4 : skipWs (32 :: (vt ++ 10 :: rest)) = vt ++ 10 :: rest := by
    rw [skipWs]; simp only [isWs, UInt8.toNat_ofNat]; simpa using hv.1 rest
  simp only [bodyLine, keyValue, h1, afterKey, h2, h3, h4, hv.2 rest]
  cases o with
  | none => rfl
  | some v => simp [endOfLine_newline]

theorem skipBlank_keylike (f : Nat) (c : UInt8) (cs : Bytes) (h : isKeylike c = true) :
    skipBlank (f + 1) (c :: cs) = .ok (c :: cs) := by
  have hw := skipWs_not_ws c cs (keylike_not_ws h)
  have h35 := (keylike_not_special h).2.2.2.1
  simp [skipBlank, hw, eatComment_not_hash c cs h35, next_keylike c cs h]

theorem parseLines_keylike_ok (f : Nat) (c : UInt8) (cs : Bytes) (acc : Pairs) (kv : KV) (h : isKeylike c = true)
    (hk : keyValue (c :: cs) = .ok kv) :
    parseLines (f + 1) (c :: cs) acc = parseLines f kv.rest ((kv.key, kv.val) :: acc) := by
  rw [parseLines, skipBlank_keylike f c cs h]
  simp only [next_keylike c cs h, hk]

theorem parseLines_keylike_err (f : Nat) (c : UInt8) (cs : Bytes) (acc : Pairs) (h : isKeylike c = true)
    (hk : keyValue (c :: cs) = .err) : parseLines (f + 1) (c :: cs) acc = .err := by
  rw [parseLines, skipBlank_keylike f c cs h]
  simp only [next_keylike c cs h, hk]

theorem parseLines_nil (f : Nat) (acc : Pairs) : parseLines (f + 1) [] acc = .ok acc.reverse := by
  simp [parseLines, skipBlank, skipWs, eatComment, next]

/-- a leading comment line is skipped -/
theorem skipBlank_comment (f : Nat) (cmt : Bytes) (c : UInt8) (cs : Bytes) (hcmt : ∀ x ∈ cmt, commentChar x = true)
    (h : isKeylike c = true) : skipBlank (f + 2) (35 :: (cmt ++ 10 :: c :: cs)) = .ok (c :: cs) := by
  have h1 : skipWs (35 :: (cmt ++ 10 :: c :: cs)) = 35 :: (cmt ++ 10 :: c :: cs) := skipWs_not_ws _ _ (by decide)
  have h2 : eatComment (35 :: (cmt ++ 10 :: c :: cs)) = .ok (some (c :: cs)) := by
    simp [eatComment, skipComment_append cmt 10 (c :: cs) hcmt (by decide), eatNewlineOrEof, next_newline]
  rw [skipBlank, h1, h2]
  exact skipBlank_keylike f c cs h

theorem parseLines_comment (f : Nat) (cmt : Bytes) (c : UInt8) (cs : Bytes) (acc : Pairs)
    (hcmt : ∀ x ∈ cmt, commentChar x = true) (h : isKeylike c = true) :
    parseLines (f + 2) (35 :: (cmt ++ 10 :: c :: cs)) acc = parseLines (f + 2) (c :: cs) acc := by
  rw [parseLines, parseLines, skipBlank_comment f cmt c cs hcmt h, skipBlank_keylike (f + 1) c cs h]

/-- `" xet version 0"` : the header line after its `#` -/
def HDR_CMT : Bytes := [32, 120, 101, 116, 32, 118, 101, 114, 115, 105, 111, 110, 32, 48]

/-- the two-field pointer text with arbitrary value texts:
    `# xet version 0\nfilesize = <vt1>\nhash = <vt2>\n` -/
def pointerText (vt1 vt2 : Bytes) : Bytes :=
  35 :: (HDR_CMT ++ 10 :: bodyLine KEY_FILESIZE vt1 (bodyLine KEY_HASH vt2 []))

/-- the same with the two lines swapped: `# xet version 0\nhash = <vt2>\nfilesize = <vt1>\n` -/
def pointerTextSwapped (vt1 vt2 : Bytes) : Bytes :=
  35 :: (HDR_CMT ++ 10 :: bodyLine KEY_HASH vt2 (bodyLine KEY_FILESIZE vt1 []))

theorem keyFilesize_keylike : AllKeylike KEY_FILESIZE := by unfold AllKeylike KEY_FILESIZE; decide
theorem keyHash_keylike : AllKeylike KEY_HASH := by unfold AllKeylike KEY_HASH; decide

theorem bodyLine_cons_filesize (vt rest : Bytes) :
    bodyLine KEY_FILESIZE vt rest = 102 :: ([105, 108, 101, 115, 105, 122, 101] ++ 32 :: 61 :: 32 :: (vt ++ 10 :: rest)) := rfl
theorem bodyLine_cons_hash (vt rest : Bytes) :
    bodyLine KEY_HASH vt rest = 104 :: ([97, 115, 104] ++ 32 :: 61 :: 32 :: (vt ++ 10 :: rest)) := rfl

theorem parseLines_pointer (k : Nat) (vt1 vt2 : Bytes) (o1 o2 : Option Val) (h1 : ValueIs vt1 o1) (h2 : ValueIs vt2 o2) :
    parseLines (k + 3) (pointerText vt1 vt2) [] = match o1, o2 with
      | some v1, some v2 => .ok [(KEY_FILESIZE, v1), (KEY_HASH, v2)]
      | _, _ => .err := by
  have kv1 := keyValue_bodyLine KEY_FILESIZE vt1 (bodyLine KEY_HASH vt2 []) o1 keyFilesize_keylike (by decide) h1
  have kv2 := keyValue_bodyLine KEY_HASH vt2 [] o2 keyHash_keylike (by decide) h2
  unfold pointerText
  rw [bodyLine_cons_filesize, parseLines_comment (k + 1) HDR_CMT 102 _ [] (by decide) (by decide)]
  rw [bodyLine_cons_filesize] at kv1
  rw [bodyLine_cons_hash] at kv2
  cases o1 with
  | none => rw [parseLines_keylike_err (k + 2) 102 _ [] (by decide) kv1]
  | some v1 =>
    rw [parseLines_keylike_ok (k + 2) 102 _ [] _ (by decide) kv1]
    simp only
    rw [bodyLine_cons_hash]
    cases o2 with
    | none => rw [parseLines_keylike_err (k + 1) 104 _ _ (by decide) kv2]
    | some v2 =>
      rw [parseLines_keylike_ok (k + 1) 104 _ _ _ (by decide) kv2]
      simp only
      rw [parseLines_nil]; rfl

theorem parseLines_pointerSwapped (k : Nat) (vt1 vt2 : Bytes) (o1 o2 : Option Val) (h1 : ValueIs vt1 o1)
    (h2 : ValueIs vt2 o2) :
    parseLines (k + 3) (pointerTextSwapped vt1 vt2) [] = match o2, o1 with
      | some v2, some v1 => .ok [(KEY_HASH, v2), (KEY_FILESIZE, v1)]
      | _, _ => .err := by
  have kv1 := keyValue_bodyLine KEY_FILESIZE vt1 [] o1 keyFilesize_keylike (by decide) h1
  have kv2 := keyValue_bodyLine KEY_HASH vt2 (bodyLine KEY_FILESIZE vt1 []) o2 keyHash_keylike (by decide) h2
  unfold pointerTextSwapped
  rw [bodyLine_cons_hash, parseLines_comment (k + 1) HDR_CMT 104 _ [] (by decide) (by decide)]
  rw [bodyLine_cons_filesize] at kv1
  rw [bodyLine_cons_hash] at kv2
  cases o2 with
  | none => rw [parseLines_keylike_err (k + 2) 104 _ [] (by decide) kv2]
  | some v2 =>
    rw [parseLines_keylike_ok (k + 2) 104 _ [] _ (by decide) kv2]
    simp only
    rw [bodyLine_cons_filesize]
    cases o1 with
    | none => rw [parseLines_keylike_err (k + 1) 102 _ _ (by decide) kv1]
    | some v1 =>
      rw [parseLines_keylike_ok (k + 1) 102 _ _ _ (by decide) kv1]
      simp only
      rw [parseLines_nil]; rfl

/-! ### the whole text -/

theorem hdrCmt_comment : ∀ x ∈ HDR_CMT, commentChar x = true := by unfold HDR_CMT; decide

theorem pointerText_length (vt1 vt2 : Bytes) : (pointerText vt1 vt2).length = 36 + vt1.length + vt2.length := by
  simp [pointerText, bodyLine, HDR_CMT, KEY_FILESIZE, KEY_HASH]; omega

theorem pointerTextSwapped_length (vt1 vt2 : Bytes) :
    (pointerTextSwapped vt1 vt2).length = 36 + vt1.length + vt2.length := by
  simp [pointerTextSwapped, bodyLine, HDR_CMT, KEY_FILESIZE, KEY_HASH]; omega

/-- no carriage return -/
def NoCr (s : Bytes) : Prop := ∀ x ∈ s, x.toNat ≠ 13

theorem noCr_nil : NoCr [] := by simp [NoCr]
theorem noCr_cons (c : UInt8) (s : Bytes) : NoCr (c :: s) ↔ c.toNat ≠ 13 ∧ NoCr s := by simp [NoCr]
theorem noCr_append (a b : Bytes) : NoCr (a ++ b) ↔ NoCr a ∧ NoCr b := by
  simp only [NoCr, List.mem_append]
  constructor
  · intro h; exact ⟨fun x hx => h x (Or.inl hx), fun x hx => h x (Or.inr hx)⟩
  · rintro ⟨h1, h2⟩ x (hx | hx)
    · exact h1 x hx
    · exact h2 x hx

theorem noCr_hdr : NoCr HDR_CMT := by unfold NoCr HDR_CMT; decide
theorem noCr_keyFilesize : NoCr KEY_FILESIZE := by unfold NoCr KEY_FILESIZE; decide
theorem noCr_keyHash : NoCr KEY_HASH := by unfold NoCr KEY_HASH; decide

theorem pointerText_no_cr (vt1 vt2 : Bytes) (h1 : NoCr vt1) (h2 : NoCr vt2) : NoCr (pointerText vt1 vt2) := by
  simp only [pointerText, bodyLine, noCr_cons, noCr_append, noCr_hdr, noCr_keyFilesize, noCr_keyHash, h1, h2,
    noCr_nil, and_true, true_and]
  decide

theorem pointerTextSwapped_no_cr (vt1 vt2 : Bytes) (h1 : NoCr vt1) (h2 : NoCr vt2) :
    NoCr (pointerTextSwapped vt1 vt2) := by
  simp only [pointerTextSwapped, bodyLine, noCr_cons, noCr_append, noCr_hdr, noCr_keyFilesize, noCr_keyHash, h1, h2,
    noCr_nil, and_true, true_and]
  decide

theorem firstLine_hdr (rest : Bytes) : firstLine (35 :: (HDR_CMT ++ 10 :: rest)) = HEADER_PREFIX ++ CURRENT_VERSION := by
  have : scanLine (35 :: (HDR_CMT ++ 10 :: rest)) = ⟨35 :: HDR_CMT, true⟩ := by
    have := scanLine_append (35 :: HDR_CMT) rest (by unfold HDR_CMT; decide)
    simpa using this
  simp only [firstLine, this, if_true]
  decide

/-- the fields of the parsed pointer given the outcome of the two value texts -/
def pairsOf (o1 o2 : Option Val) : Option Pairs :=
  match o1, o2 with
  | some v1, some v2 => some [(KEY_HASH, v2), (KEY_FILESIZE, v1)]
  | _, _ => none

def pairsOfSwapped (o1 o2 : Option Val) : Option Pairs :=
  match o1, o2 with
  | some v1, some v2 => some [(KEY_FILESIZE, v1), (KEY_HASH, v2)]
  | _, _ => none

theorem parseToml_pointer (vt1 vt2 : Bytes) (o1 o2 : Option Val) (h1 : ValueIs vt1 o1) (h2 : ValueIs vt2 o2)
    (c1 : NoCr vt1) (c2 : NoCr vt2) :
    parseToml (pointerText vt1 vt2) = match pairsOf o1 o2 with
      | some ps => .ok ps
      | none => .err := by
  obtain ⟨k, hk⟩ : ∃ k, (pointerText vt1 vt2).length + 1 = k + 3 := ⟨34 + vt1.length + vt2.length, by
    rw [pointerText_length]; omega⟩
  unfold parseToml
  rw [crlfFold_id _ (pointerText_no_cr vt1 vt2 c1 c2), hk, parseLines_pointer k vt1 vt2 o1 o2 h1 h2]
  cases o1 with
  | none => rfl
  | some v1 =>
    cases o2 with
    | none => rfl
    | some v2 =>
      have e1 : (KEY_FILESIZE == MAGIC_DATETIME_KEY) = false := by decide
      have e2 : (KEY_FILESIZE == KEY_HASH) = false := by decide
      simp [pairsOf, insertAll, lookup, e1, e2]

theorem parseToml_pointerSwapped (vt1 vt2 : Bytes) (o1 o2 : Option Val) (h1 : ValueIs vt1 o1) (h2 : ValueIs vt2 o2)
    (c1 : NoCr vt1) (c2 : NoCr vt2) :
    parseToml (pointerTextSwapped vt1 vt2) = match pairsOfSwapped o1 o2 with
      | some ps => .ok ps
      | none => .err := by
  obtain ⟨k, hk⟩ : ∃ k, (pointerTextSwapped vt1 vt2).length + 1 = k + 3 := ⟨34 + vt1.length + vt2.length, by
    rw [pointerTextSwapped_length]; omega⟩
  unfold parseToml
  rw [crlfFold_id _ (pointerTextSwapped_no_cr vt1 vt2 c1 c2), hk, parseLines_pointerSwapped k vt1 vt2 o1 o2 h1 h2]
  cases o1 with
  | none => cases o2 <;> rfl
  | some v1 =>
    cases o2 with
    | none => rfl
    | some v2 =>
      have e1 : (KEY_HASH == MAGIC_DATETIME_KEY) = false := by decide
      have e2 : (KEY_HASH == KEY_FILESIZE) = false := by decide
      simp [pairsOfSwapped, insertAll, lookup, e1, e2]

theorem initFromString_pointer (vt1 vt2 : Bytes) (o1 o2 : Option Val) (h1 : ValueIs vt1 o1) (h2 : ValueIs vt2 o2)
    (c1 : NoCr vt1) (c2 : NoCr vt2) :
    initFromString (pointerText vt1 vt2) = some (fromParsed (pairsOf o1 o2)) := by
  have hp : HEADER_PREFIX.isPrefixOf (HEADER_PREFIX ++ CURRENT_VERSION) = true := by decide
  have hv : ((HEADER_PREFIX ++ CURRENT_VERSION).drop HEADER_PREFIX.length != CURRENT_VERSION) = false := by decide
  unfold initFromString
  rw [show pointerText vt1 vt2 = 35 :: (HDR_CMT ++ 10 :: bodyLine KEY_FILESIZE vt1 (bodyLine KEY_HASH vt2 [])) from rfl,
    firstLine_hdr]
  simp only [hp, hv, Bool.not_true, Bool.false_eq_true, if_false]
  rw [show 35 :: (HDR_CMT ++ 10 :: bodyLine KEY_FILESIZE vt1 (bodyLine KEY_HASH vt2 [])) = pointerText vt1 vt2 from rfl,
    parseToml_pointer vt1 vt2 o1 o2 h1 h2 c1 c2]
  cases pairsOf o1 o2 <;> rfl

theorem initFromString_pointerSwapped (vt1 vt2 : Bytes) (o1 o2 : Option Val) (h1 : ValueIs vt1 o1)
    (h2 : ValueIs vt2 o2) (c1 : NoCr vt1) (c2 : NoCr vt2) :
    initFromString (pointerTextSwapped vt1 vt2) = some (fromParsed (pairsOfSwapped o1 o2)) := by
  have hp : HEADER_PREFIX.isPrefixOf (HEADER_PREFIX ++ CURRENT_VERSION) = true := by decide
  have hv : ((HEADER_PREFIX ++ CURRENT_VERSION).drop HEADER_PREFIX.length != CURRENT_VERSION) = false := by decide
  unfold initFromString
  rw [show pointerTextSwapped vt1 vt2 = 35 :: (HDR_CMT ++ 10 :: bodyLine KEY_HASH vt2 (bodyLine KEY_FILESIZE vt1 [])) from rfl,
    firstLine_hdr]
  simp only [hp, hv, Bool.not_true, Bool.false_eq_true, if_false]
  rw [show 35 :: (HDR_CMT ++ 10 :: bodyLine KEY_HASH vt2 (bodyLine KEY_FILESIZE vt1 [])) = pointerTextSwapped vt1 vt2 from rfl,
    parseToml_pointerSwapped vt1 vt2 o1 o2 h1 h2 c1 c2]
  cases pairsOfSwapped o1 o2 <;> rfl

/-! ## 6. every integer the parser produces is an `i64` -/

/-- an integer value lies in the `i64` range (every other value is fine) -/
def ValOk (v : Val) : Prop := ∀ i, v = .int i → -((I64_MAX : Int) + 1) ≤ i ∧ i ≤ (I64_MAX : Int)

theorem fromStrRadix_range {p : Bytes} {radix : Nat} {i : Int} (h : fromStrRadix p radix = some i) :
    -((I64_MAX : Int) + 1) ≤ i ∧ i ≤ (I64_MAX : Int) := by
  unfold fromStrRadix at h
  simp only [Int.ofNat_eq_natCast] at h
  split at h
  · cases h
  · split at h
    · split at h
      · cases h
        rename_i hle
        constructor <;> omega
      · cases h
    · split at h
      · cases h
        rename_i hle
        constructor <;> omega
      · cases h

theorem integer_range {s : Bytes} {radix : Nat} {i : Int} (h : integer s radix = some i) :
    -((I64_MAX : Int) + 1) ≤ i ∧ i ≤ (I64_MAX : Int) := by
  unfold integer at h
  split at h
  · cases h
  · split at h
    · exact fromStrRadix_range h
    · cases h

theorem optInt_ok {o : Option Int} {r : Bytes} {vr : ValRest} (h : optInt o r = .ok vr) :
    ∃ i, o = some i ∧ vr.val = .int i := by
  cases o with
  | none => cases h
  | some i => cases h; exact ⟨i, rfl, rfl⟩

theorem valOk_of_optInt {s : Bytes} {radix : Nat} {r : Bytes} {vr : ValRest} (h : optInt (integer s radix) r = .ok vr) :
    ValOk vr.val := by
  obtain ⟨i, hi, hv⟩ := optInt_ok h
  intro j hj
  rw [hv] at hj
  cases hj
  exact integer_range hi

theorem valOk_float : ValOk .float := by intro i h; cases h
theorem valOk_str (s : Bytes) : ValOk (.str s) := by intro i h; cases h
theorem valOk_bool (b : Bool) : ValOk (.bool b) := by intro i h; cases h

theorem expDigits_not_ok (e : Bytes) (b : Bool) (vr : ValRest) : expDigits e b ≠ .ok vr := by
  unfold expDigits
  split
  · simp
  · split <;> simp

theorem floatExponent_not_ok (suffix rest : Bytes) (vr : ValRest) : floatExponent suffix rest ≠ .ok vr := by
  unfold floatExponent
  split
  · split
    · simp
    · simp
    · split
      · exact expDigits_not_ok _ _ _
      · simp
      · simp
    · exact expDigits_not_ok _ _ _
    · simp
  · exact expDigits_not_ok _ _ _

theorem floatTail_ok {pre suffix rest : Bytes} {vr : ValRest} (h : floatTail pre suffix rest = .ok vr) :
    vr.val = .float := by
  unfold floatTail at h
  split at h
  · exact absurd h (floatExponent_not_ok _ _ _)
  · split at h
    · cases h
    · split at h
      · cases h; rfl
      · cases h

theorem float_ok {s : Bytes} {after : Option Bytes} {rest : Bytes} {vr : ValRest} (h : float s after rest = .ok vr) :
    vr.val = .float := by
  unfold float at h
  split at h
  · cases h
  · split at h
    · cases h
    · exact floatTail_ok h

theorem valOk_of_float {s : Bytes} {after : Option Bytes} {rest : Bytes} {vr : ValRest}
    (h : float s after rest = .ok vr) : ValOk vr.val := by
  rw [float_ok h]; exact valOk_float

theorem number_ok {s rest : Bytes} {vr : ValRest} (h : number s rest = .ok vr) : ValOk vr.val := by
  unfold number at h
  split at h
  · exact valOk_of_optInt h
  · split at h
    · exact valOk_of_optInt h
    · split at h
      · exact valOk_of_optInt h
      · split at h
        · exact valOk_of_float h
        · split at h
          · cases h
          · cases h
          · split at h
            · exact valOk_of_float h
            · cases h
            · cases h
          · split at h
            · cases h; exact valOk_float
            · exact valOk_of_optInt h

theorem numberOrDate_ok {s rest : Bytes} {vr : ValRest} (h : numberOrDate s rest = .ok vr) : ValOk vr.val := by
  unfold numberOrDate at h
  split at h
  · cases h
  · split at h
    · cases h
    · cases h
    · cases h
    · exact number_ok h

theorem keylikeValue_ok {s rest : Bytes} {vr : ValRest} (h : keylikeValue s rest = .ok vr) : ValOk vr.val := by
  unfold keylikeValue at h
  split at h
  · cases h; exact valOk_bool _
  · split at h
    · cases h; exact valOk_bool _
    · split at h
      · exact numberOrDate_ok h
      · split at h
        · cases h
        · split at h
          · exact numberOrDate_ok h
          · cases h

theorem value_ok {inp : Bytes} {vr : ValRest} (h : value inp = .ok vr) : ValOk vr.val := by
  unfold value at h
  split at h
  · cases h
  · cases h
  · cases h
  · cases h; exact valOk_str _
  · exact keylikeValue_ok h
  · split at h
    · exact number_ok h
    · cases h
    · cases h
  · cases h
  · cases h
  · cases h

theorem afterKey_ok {k inp : Bytes} {kv : KV} (h : afterKey k inp = .ok kv) : ValOk kv.val := by
  unfold afterKey at h
  split at h
  · cases h
  · cases h
  · cases h
  · split at h
    · cases h
    · cases h
    · rename_i vr hv
      split at h
      · cases h
      · cases h
      · cases h; exact value_ok hv
  · cases h

theorem keyValue_ok {inp : Bytes} {kv : KV} (h : keyValue inp = .ok kv) : ValOk kv.val := by
  unfold keyValue at h
  split at h
  · exact afterKey_ok h
  · exact afterKey_ok h
  · cases h
  · cases h

def PairsOk (ps : Pairs) : Prop := ∀ p ∈ ps, ValOk p.2

theorem parseLines_ok (f : Nat) (inp : Bytes) (acc ps : Pairs) (hacc : PairsOk acc)
    (h : parseLines f inp acc = .ok ps) : PairsOk ps := by
  induction f generalizing inp acc with
  | zero => simp [parseLines] at h
  | succ f ih =>
    rw [parseLines] at h
    split at h
    · cases h
    · cases h
    · split at h
      · cases h
        intro p hp
        exact hacc p (by simpa using hp)
      · cases h
      · split at h
        · cases h
        · cases h
        · rename_i kv hkv
          refine ih _ _ ?_ h
          intro p hp
          rcases List.mem_cons.mp hp with rfl | hp
          · exact keyValue_ok hkv
          · exact hacc p hp

theorem insertAll_ok (seen ps out : Pairs) (h1 : PairsOk seen) (h2 : PairsOk ps) (h : insertAll seen ps = .ok out) :
    PairsOk out := by
  induction ps generalizing seen with
  | nil => simp [insertAll] at h; subst h; exact h1
  | cons p ps ih =>
    obtain ⟨k, v⟩ := p
    rw [insertAll] at h
    split at h
    · cases h
    · refine ih _ ?_ (fun q hq => h2 q (by simp [hq])) h
      intro q hq
      rcases List.mem_cons.mp hq with rfl | hq
      · exact h2 _ (by simp)
      · exact h1 q hq

theorem parseToml_ok (t : Bytes) (ps : Pairs) (h : parseToml t = .ok ps) : PairsOk ps := by
  unfold parseToml at h
  split at h
  · cases h
  · cases h
  · rename_i qs hq
    have hqs := parseLines_ok _ _ [] qs (by intro p hp; cases hp) hq
    split at h
    · cases h; intro p hp; cases hp
    · split at h
      · cases h
      · refine insertAll_ok _ _ _ ?_ ?_ h
        · intro q hq'
          simp only [List.mem_singleton] at hq'
          subst hq'
          exact hqs _ (by simp)
        · intro q hq'
          exact hqs q (by simp [hq'])

theorem lookup_mem {k : Bytes} {ps : Pairs} {v : Val} (h : lookup k ps = some v) : ∃ k', (k', v) ∈ ps := by
  induction ps with
  | nil => simp [lookup] at h
  | cons p ps ih =>
    obtain ⟨k', v'⟩ := p
    rw [lookup] at h
    split at h
    · cases h; exact ⟨k', by simp⟩
    · obtain ⟨k'', hm⟩ := ih h
      exact ⟨k'', by simp [hm]⟩

end Xet.Pointer
