//! Suite `pointer` (C01, C03): the pointer-file text glue `data/src/pointer_file.rs`.
//!
//! The REAL `data::PointerFile` (`init_from_info` + `to_string`, `init_from_string`, `init_from_path`,
//! `is_valid`, `hash`, `hash_string`, `filesize`) and the real `is_xet_pointer_file` /
//! `POINTER_FILE_LIMIT` (re-exported under `cfg(xet_verif)`, see hooks.patch) are run on
//!   (a) pointers rendered for random / extreme hashes and sizes,
//!   (b) a mutation stream over rendered pointers,
//!   (c) byte strings that are not UTF-8 (sniffing only),
//! and every answer is compared with the Lean model (`ptr.render`, `ptr.parse`, `ptr.sniff`, `ptr.path`).
//!
//! Modelled grammar.  Each generated text carries a class: `in` (the model must decide it; the full result
//! is compared) or `out` (the text uses a TOML construct the model does not cover: table header, dotted key,
//! array, inline table, multi-line string, `\u` escape, date-time, exponent float; only the header stage =
//! the class of `version_string` is compared, the monitors still run).  The class is known by construction
//! of the text; if the generator says `in` and the model cannot decide, the model answers
//! `outside-grammar` and the diff shows it.
//!
//! Monitors (evaluated on the implementation alone):
//!   C01 `pointer-roundtrip`   parse(render(hash, size)) is valid and gives back exactly (hash, size);
//!                             re-rendering a parsed valid pointer and parsing again gives the same value
//!   C01 `pointer-sniff`       `is_xet_pointer_file(render(..))` and the rendered text is below the limit
//!   C01 `pointer-size-range`  a valid parsed pointer never carries a filesize above i64::MAX
//!   C03 `pointer-not-injective`  two different (hash, size) never render to the same text
use std::collections::HashMap;

use data::PointerFile;
use data::{verif_is_xet_pointer_file as is_xet_pointer_file, VERIF_POINTER_FILE_LIMIT as POINTER_FILE_LIMIT};
use merklehash::MerkleHash;

use crate::ctx::{fnv, json_str, Ctx};
use crate::rng::Rng;

// ---------------------------------------------------------------------------------------------------------
// canonical printing (must agree with lean/Driver/Pointer.lean)

fn esc(bs: &[u8]) -> String {
    let mut o = String::new();
    for &b in bs {
        match b {
            b'\\' => o += "\\\\",
            b'\n' => o += "\\n",
            b'\r' => o += "\\r",
            b'\t' => o += "\\t",
            32..=126 => o.push(b as char),
            _ => o += &format!("\\x{:02x}", b),
        }
    }
    o
}

fn hex_or_dash(bs: &[u8]) -> String {
    if bs.is_empty() { "-".to_string() } else { bs.iter().map(|b| format!("{:02x}", b)).collect() }
}

/// class of the private `version_string`, read off the derived `Debug` output: e(mpty) | 0 | x (other)
fn ver_class(pf: &PointerFile) -> &'static str {
    let d = format!("{:?}", pf);
    let pre = "PointerFile { version_string: \"";
    assert!(d.starts_with(pre), "unexpected Debug form of PointerFile");
    let mut it = d[pre.len()..].chars();
    let (mut n, mut escaped, mut first) = (0usize, false, None);
    loop {
        match it.next() {
            Some('\\') => { it.next(); n += 1; escaped = true; }
            Some('"') | None => break,
            Some(c) => { if first.is_none() { first = Some(c); } n += 1; }
        }
    }
    if n == 0 { "e" } else if n == 1 && !escaped && first == Some('0') { "0" } else { "x" }
}

/// run `f` with the panic hook silenced (expected panics of `Display` must not pollute the run)
fn quiet_catch<T>(f: impl FnOnce() -> T) -> Result<T, ()> {
    let prev = std::panic::take_hook();
    std::panic::set_hook(Box::new(|_| {}));
    let r = std::panic::catch_unwind(std::panic::AssertUnwindSafe(f));
    std::panic::set_hook(prev);
    r.map_err(|_| ())
}

/// does `toml::ser` print this string as a one-line literal `'…'` (the only string form the model renders)
fn literal_safe(s: &str) -> bool {
    s.bytes().all(|c| c != b'\'' && (c == b'\t' || (c >= 32 && c != 127)))
}

fn disp_field(pf: &PointerFile) -> String {
    if pf.is_valid() && !literal_safe(pf.hash_string()) {
        return "outside".to_string();
    }
    match quiet_catch(|| pf.to_string()) {
        Ok(t) => esc(t.as_bytes()),
        Err(()) => "panic".to_string(),
    }
}

fn pf_line(pf: &PointerFile) -> String {
    let h = match pf.hash() { Ok(h) => h.hex(), Err(_) => "err".to_string() };
    format!("valid={} ver={} hs={} size={} hash={} disp={}", pf.is_valid() as u8, ver_class(pf),
            hex_or_dash(pf.hash_string().as_bytes()), pf.filesize(), h, disp_field(pf))
}

// ---------------------------------------------------------------------------------------------------------
// generators

fn gen_hash(rng: &mut Rng) -> MerkleHash {
    match rng.below(10) {
        0 => MerkleHash::default(),
        1 => MerkleHash::from([u64::MAX; 4]),
        2 => MerkleHash::from([rng.below(16), rng.below(256), 0, 1]),                  // leading zeros in words
        3 => MerkleHash::from([0xaaaaaaaaaaaaaaaa, 0xeeeeeeeeeeeeeeee, 0x0e0e0e0e0e0e0e0e, 0xabcdefabcdefabcd]),
        4 => MerkleHash::from([rng.next(), 0, rng.next(), 0]),
        _ => MerkleHash::from([rng.next(), rng.next(), rng.next(), rng.next()]),
    }
}

const EXTREME_SIZES: &[u64] = &[
    0, 1, 9, 10, 99, 100, 255, 256, 65535, 65536, (1 << 32) - 1, 1 << 32, (1 << 32) + 1, 999_999_999_999_999_999,
    1_000_000_000_000_000_000, (1 << 63) - 2, (1 << 63) - 1, 1 << 63, (1 << 63) + 1, u64::MAX - 1, u64::MAX,
];

fn gen_size(rng: &mut Rng) -> u64 {
    match rng.below(8) {
        0 => *rng.pick(EXTREME_SIZES),
        1 => rng.below(1000),
        2 => rng.next() >> rng.below(64),
        3 => 10u64.pow(rng.below(20) as u32).wrapping_add(rng.below(3)).wrapping_sub(1),
        4 => (1u64 << rng.below(64)).wrapping_add(rng.below(3)).wrapping_sub(1),
        5 => rng.next() >> 1,                                                            // always <= i64::MAX
        _ => rng.below(1 << 40),
    }
}

/// one body line (without line end) and whether it leaves the modelled grammar
fn extra_line(rng: &mut Rng) -> (Vec<u8>, bool) {
    const IN: &[&str] = &[
        "foo = 1", "foo = 'bar'", "foo = \"bar\\n\\t\\\"q\\\\\"", "foo = true", "foo = false", "foo = 1.5", "foo = -0.25",
        "\"quoted key\" = 1", "'lit key' = 'x'", "'' = 1", "\"\" = 2", "foo-bar_9 = 0", "123 = 4", "- = 5",
        "hash2 = 'x'", "Hash = 'x'", "FILESIZE = 3", "# just a comment", "", "   ", "\t# indented comment",
        "foo = +5", "foo = +-5", "foo = -0", "foo = inf", "foo = -inf", "foo = nan", "foo = -nan", "foo = +inf",
        "foo = 1_000", "foo = 0xDEAD_beef", "foo = 0o755", "foo = 0b1010", "foo = 1 # trailing comment",
        "foo = 'x' # trailing comment", "foo = 9223372036854775807", "foo = -9223372036854775808",
        "foo = 'tab\there'", "foo = 'caf\u{e9} \u{4e16}\u{754c} \u{1f600}'", "# caf\u{e9} comment \u{7f}",
        // errors (all inside the grammar)
        "foo", "= 1", "foo = ", "foo = bar", "foo = 1 2", "foo = 'unterminated", "foo = \"unterminated",
        "foo = 1.", "foo = .5", "foo = 1..2", "foo = 1._5", "foo = 1.5.5", "foo = 1_", "foo = _1", "foo = 1__0",
        "foo = 007", "foo = 00", "foo = 0x", "foo = 0xg", "foo = 0o8", "foo = 0b2", "foo = 0X1f", "foo = 1e",
        "foo = e5", "foo = 9223372036854775808", "foo = -9223372036854775809", "foo = 0xffffffffffffffff",
        "foo = 'x' y", "foo = 'x''y'", "foo == 1", "foo = = 1", "foo : 1", "foo = ,", "foo = }", "foo = ]",
        "foo = \"bad \\q escape\"", "foo = 'del\u{7f}'", "foo = \"ctl\u{1}\"", "$ = 1", "foo = 1 ; x", "foo = infinity",
        "foo = nano", "foo = True", "foo = +", "foo = ++1", "foo = -",  "foo bar = 1", "\"a\"b = 1",
    ];
    const OUT: &[&str] = &[
        "[table]", "[[arr]]", "a.b = 1", "a . b = 1", "\"a\".b = 1", "foo = [1, 2]", "foo = []", "foo = {a = 1}",
        "foo = {}", "foo = 2020-01-01", "foo = 1979-05-27T07:32:00Z", "foo = 12:30:00", "foo = 1e3", "foo = 1E-3",
        "foo = 5e+3", "foo = 1.5e3", "foo = '''x'''", "foo = \"\"\"x\"\"\"", "foo = \"\\u0041\"", "foo = \"\\U00000041\"",
        "foo = 1-2", "foo = --1", "foo = 5t", "foo = 5T6", "foo = 5:3", "foo = 1e999", "'''k''' = 1",
    ];
    if rng.chance(1, 5) { (rng.pick(OUT).as_bytes().to_vec(), true) } else { (rng.pick(IN).as_bytes().to_vec(), false) }
}

fn ws(rng: &mut Rng) -> Vec<u8> {
    match rng.below(6) {
        0 => vec![],
        1 => b" ".to_vec(),
        2 => b"\t".to_vec(),
        3 => b"  \t ".to_vec(),
        _ => b" ".to_vec(),
    }
}

/// the value text of the `hash` entry
fn hash_value(rng: &mut Rng, hex: &str) -> (Vec<u8>, &'static str) {
    let q = |s: &str| format!("'{}'", s).into_bytes();
    match rng.below(24) {
        0 => (q(&hex[..63]), "hash-short"),
        1 => (q(&format!("{hex}0")), "hash-long"),
        2 => (q(""), "hash-empty"),
        3 => (q(&hex[..1]), "hash-short"),
        4 => (q(&format!("{hex}{hex}")), "hash-long"),
        5 => { let mut s = hex.as_bytes().to_vec(); let i = rng.below(64) as usize; s[i] = *rng.pick(b"gGzZ xX_-+~"); (q(std::str::from_utf8(&s).unwrap()), "hash-nonhex") }
        6 => (q(&hex.to_uppercase()), "hash-upper"),
        7 => { let mut s = hex.as_bytes().to_vec(); for c in s.iter_mut() { if rng.chance(1, 2) { *c = c.to_ascii_uppercase(); } } (q(std::str::from_utf8(&s).unwrap()), "hash-mixedcase") }
        8 => (format!("\"{hex}\"").into_bytes(), "hash-basic-quotes"),
        9 => (hex.as_bytes().to_vec(), "hash-unquoted"),
        10 => (b"5".to_vec(), "hash-integer"),
        11 => (b"true".to_vec(), "hash-bool"),
        12 => (q(&format!("{}\u{e9}", &hex[..62])), "hash-nonascii"),
        13 => (q(&format!("{}\t", &hex[..63])), "hash-tab"),
        14 => (q(&format!("{}\u{7f}", &hex[..63])), "hash-del"),
        15 => (q(&format!("{}\"", &hex[..63])), "hash-dquote-inside"),
        16 => (q(&format!(" {}", &hex[..63])), "hash-space"),
        17 => (format!("\"{}\\n\"", &hex[..63]).into_bytes(), "hash-escaped-newline"),
        18 => (format!("'{hex}").into_bytes(), "hash-unterminated"),
        19 => (format!("+{hex}").into_bytes(), "hash-plus"),
        _ => (q(hex), "hash-ok"),
    }
}

/// the value text of the `filesize` entry, and whether it leaves the modelled grammar
fn size_value(rng: &mut Rng, size: u64) -> (Vec<u8>, bool, &'static str) {
    const IN: &[&str] = &[
        "+5", "-5", "-0", "+0", "+-5", "007", "00", "0", "01", "9223372036854775807", "9223372036854775808",
        "18446744073709551615", "18446744073709551616", "99999999999999999999999999", "-9223372036854775808",
        "-9223372036854775809", "-1", "1_000", "1__0", "_1", "1_", "0_1", "0x1F", "0x1f", "0xffffffffffffffff",
        "0x7fffffffffffffff", "0x8000000000000000", "0o17", "0o18", "0b101", "0b102", "0x", "0o", "0b", "0X1f", "0x_1",
        "0x1_f", "0x00ff", "0o007", "5.0", "5.", "5.5", ".5", "'5'", "\"5\"", "true", "5a", "5 5", "5_5", "a5", "",
        "1e", "e1", "inf", "nan", "-inf", "0.0", "-0.0", "00.5", "5,", "5;", "5 # five", "5\t", "  5",
    ];
    const OUT: &[&str] = &["5e3", "5E3", "5e-3", "5E-3", "5e+3", "1-2", "5t", "5T", "5:3", "2020-01-01", "1.5e3", "[5]", "{a = 5}", "5.e3"];
    match rng.below(10) {
        0..=3 => (rng.pick(IN).as_bytes().to_vec(), false, "size-variant"),
        4 => (rng.pick(OUT).as_bytes().to_vec(), true, "size-variant-outside"),
        5 => (format!("0{size}").into_bytes(), false, "size-leading-zero"),
        6 => (format!("{}", size as u128 + (1u128 << 63)).into_bytes(), false, "size-overflow"),
        7 => (format!("0x{size:x}").into_bytes(), false, "size-hex"),
        8 => { // digits with underscores
            let d = size.to_string(); let mut o = String::new();
            for (i, c) in d.chars().enumerate() { if i > 0 && rng.chance(1, 3) { o.push('_'); } o.push(c); }
            (o.into_bytes(), false, "size-underscores") }
        _ => (size.to_string().into_bytes(), false, "size-ok"),
    }
}

fn header(rng: &mut Rng) -> (Vec<u8>, &'static str) {
    const BAD: &[&str] = &[
        "# xet version 1", "# xet version 1.0", "# xet version 00", "# xet version 0 ", "# xet version  0", "# xet version0",
        "# xet version", "#xet version 0", "# xet version ", "# XET VERSION 0", " # xet version 0", "\u{feff}# xet version 0",
        "# xet version 0.0", "# xet version -0", "# xet version 0\t", "# xet version \u{ff10}", "xet version 0", "# xet  version 0",
        "# xet version 0\r", "# xet version 0\u{0}", "",
    ];
    if rng.chance(1, 4) { (rng.pick(BAD).as_bytes().to_vec(), "header-bad") } else { (b"# xet version 0".to_vec(), "header-ok") }
}

fn eol(rng: &mut Rng, style: u64) -> Vec<u8> {
    match style {
        0 => b"\n".to_vec(),
        1 => b"\r\n".to_vec(),
        2 => if rng.chance(1, 2) { b"\n".to_vec() } else { b"\r\n".to_vec() },
        3 => b"\r".to_vec(),
        _ => b"\r\r\n".to_vec(),
    }
}

struct Doc { text: Vec<u8>, out: bool, tags: Vec<&'static str> }

/// a structured mutation of the pointer for (hex, size)
fn gen_doc(rng: &mut Rng, hex: &str, size: u64) -> Doc {
    let mut tags = Vec::new();
    let mut out = false;
    let style = match rng.below(12) { 0 | 1 => 1, 2 => 2, 3 => 3, 4 => 4, _ => 0 };
    if style != 0 { tags.push(match style { 1 => "eol-crlf", 2 => "eol-mixed", 3 => "eol-cr", _ => "eol-crcrlf" }); }
    let mut text = Vec::new();
    if rng.chance(1, 30) { text.extend_from_slice(b"\n"); tags.push("leading-blank-line"); }
    let (h, ht) = header(rng);
    tags.push(ht);
    text.extend_from_slice(&h);
    text.extend(eol(rng, style));
    // body lines
    let mut lines: Vec<Vec<u8>> = Vec::new();
    let mk = |rng: &mut Rng, key: &str, val: &[u8]| -> Vec<u8> {
        let mut l = Vec::new();
        if rng.chance(1, 6) { l.extend(ws(rng)); }
        l.extend_from_slice(key.as_bytes());
        if rng.chance(1, 4) { l.extend(ws(rng)); } else { l.push(b' '); }
        l.push(b'=');
        if rng.chance(1, 4) { l.extend(ws(rng)); } else { l.push(b' '); }
        l.extend_from_slice(val);
        if rng.chance(1, 6) { l.extend(ws(rng)); }
        if rng.chance(1, 12) { l.extend_from_slice(b" # c"); }
        l
    };
    let (sv, so, st) = if rng.chance(1, 2) { size_value(rng, size) } else { (size.to_string().into_bytes(), false, "size-ok") };
    let (hv, htag) = if rng.chance(1, 2) { hash_value(rng, hex) } else { (format!("'{hex}'").into_bytes(), "hash-ok") };
    tags.push(st); tags.push(htag);
    out |= so;
    let size_key = *rng.pick(&["filesize", "filesize", "filesize", "filesize", "\"filesize\"", "'filesize'", "file_size", "Filesize"]);
    let hash_key = *rng.pick(&["hash", "hash", "hash", "hash", "\"hash\"", "'hash'", "\"ha\\u0073h\"", "HASH"]);
    if hash_key.contains("\\u") { out = true; }
    let sl = mk(rng, size_key, &sv);
    let hl = mk(rng, hash_key, &hv);
    match rng.below(12) {
        0 | 1 | 2 => { lines.push(hl); lines.push(sl); tags.push("order-swapped"); }
        3 => { lines.push(sl); tags.push("missing-hash"); }
        4 => { lines.push(hl); tags.push("missing-filesize"); }
        5 => { tags.push("missing-both"); }
        6 => { lines.push(sl.clone()); lines.push(hl); lines.push(sl); tags.push("dup-filesize"); }
        7 => { lines.push(sl); lines.push(hl.clone()); lines.push(mk(rng, "\"hash\"", b"'00'")); tags.push("dup-hash"); }
        _ => { lines.push(sl); lines.push(hl); }
    }
    // unknown keys / blank lines / comments / errors
    let n_extra = match rng.below(6) { 0 => 1, 1 => 2, 2 => rng.below(4), _ => 0 };
    for _ in 0..n_extra {
        let (l, o) = extra_line(rng);
        out |= o;
        tags.push(if o { "extra-line-outside" } else { "extra-line" });
        let pos = rng.below(lines.len() as u64 + 1) as usize;
        lines.insert(pos, l);
    }
    let nl = lines.len();
    for (i, l) in lines.into_iter().enumerate() {
        text.extend_from_slice(&l);
        if i + 1 < nl || !rng.chance(1, 8) { text.extend(eol(rng, style)); } else { tags.push("no-final-newline"); }
    }
    // trailing garbage
    if rng.chance(1, 10) {
        let g: &[u8] = *rng.pick(&[&b"garbage"[..], b" ", b"\n\n", b"\0", b"# comment", b"# comment\n", b"\t\n", b"x = 1", b"'", b"\r", b"\r\n\r\n", b"="]);
        text.extend_from_slice(g);
        tags.push("trailing-garbage");
    }
    // over-long: pad with a comment / whitespace / blank lines to interesting lengths
    if rng.chance(1, 8) {
        let target = *rng.pick(&[148usize, 149, 150, 151, 152, 200, 1000, 5000]);
        if text.len() < target {
            let pad = target - text.len();
            match rng.below(3) {
                0 if pad >= 2 => { text.push(b'#'); text.extend(std::iter::repeat(b'x').take(pad - 2)); text.push(b'\n'); }
                1 => text.extend(std::iter::repeat(b'\n').take(pad)),
                _ => text.extend(std::iter::repeat(b' ').take(pad)),
            }
            tags.push("padded");
        }
    }
    Doc { text, out, tags }
}

/// bytes a random byte-level mutation may write anywhere in a rendered pointer without leaving the grammar
fn safe_byte(rng: &mut Rng, in_number: bool) -> u8 {
    loop {
        let b = match rng.below(20) { 0 => b'\n', 1 => b'\t', 2 => b'\r', 3 => b' ', 4 => b'#', 5 => b'=', _ => rng.range(32, 126) as u8 };
        if matches!(b, b'[' | b'{' | b'.' | b':' | b'"' | b'\\' | b'\'') { continue; }
        if in_number && matches!(b, b'T' | b't' | b'e' | b'E' | b'-') { continue; }
        return b;
    }
}

/// 1..3 random byte replacements / insertions / deletions in the rendered pointer `# xet version 0\nfilesize = N\nhash = 'H'\n`
fn gen_bytes_mutation(rng: &mut Rng, hex: &str, size: u64) -> Doc {
    let n = size.to_string();
    let mut text = format!("# xet version 0\nfilesize = {n}\nhash = '{hex}'\n").into_bytes();
    // the number token and its neighbourhood, tracked through the edits
    let (mut lo, mut hi) = (26usize, 28 + n.len());
    for _ in 0..rng.range(1, 3) {
        let pos = rng.below(text.len() as u64) as usize;
        let in_num = pos >= lo && pos <= hi;
        match rng.below(3) {
            0 => { if text[pos] != b'\'' { text[pos] = safe_byte(rng, in_num); } }
            1 => { text.insert(pos, safe_byte(rng, in_num)); if pos <= hi { hi += 1; } if pos < lo { lo += 1; } }
            _ => { if text[pos] != b'\'' && text.len() > 1 { text.remove(pos); if pos <= hi { hi -= 1; } if pos < lo { lo -= 1; } } }
        }
    }
    Doc { text, out: false, tags: vec!["byte-mutation"] }
}

// ---------------------------------------------------------------------------------------------------------

struct PathProbe { dir: std::path::PathBuf, n: u64 }
impl PathProbe {
    fn new() -> Self {
        let base = std::env::var("TMPDIR").unwrap_or_else(|_| ".".to_string());
        let dir = std::path::Path::new(&base).join(format!("ptr-{}", std::process::id()));
        std::fs::create_dir_all(&dir).unwrap();
        PathProbe { dir, n: 0 }
    }
    fn probe(&mut self, data: &[u8]) -> PointerFile {
        self.n += 1;
        let p = self.dir.join(format!("p{}", self.n));
        std::fs::write(&p, data).unwrap();
        let pf = PointerFile::init_from_path(&p);
        let _ = std::fs::remove_file(&p);
        pf
    }
}
impl Drop for PathProbe { fn drop(&mut self) { let _ = std::fs::remove_dir_all(&self.dir); } }

fn replay(ctx: &Ctx, text: &[u8]) -> String {
    format!("{{\"suite\":\"pointer\",\"seed\":{},\"text\":{}}}", ctx.seed, json_str(&esc(text)))
}

/// parse one text with the real parser, emit the ops, run the monitors
fn check_text(ctx: &mut Ctx, probe: &mut PathProbe, doc: &Doc, with_path: bool) {
    let Ok(s) = std::str::from_utf8(&doc.text) else { return };
    let (off, len) = ctx.blob(&doc.text);
    for t in &doc.tags { ctx.stat(&format!("tag.{t}")); }
    let pf = match quiet_catch(|| PointerFile::init_from_string(s, "")) {
        Ok(pf) => pf,
        Err(()) => {
            ctx.fail("C01", "pointer-parse-panic", format!("init_from_string panicked on {}", esc(&doc.text)), replay(ctx, &doc.text));
            ctx.op(&format!("ptr.parse off={off} len={len} cls=in"), "panic");
            return;
        }
    };
    ctx.case(fnv(&doc.text), ver_class(&pf) == "0");
    ctx.stat(match (pf.is_valid(), ver_class(&pf)) { (true, _) => "parse.valid", (false, "0") => "parse.invalid.body", (false, "e") => "parse.invalid.no-header", _ => "parse.invalid.version" });
    if doc.out && ver_class(&pf) == "0" {
        ctx.stat("cls.out");
        ctx.op(&format!("ptr.parse off={off} len={len} cls=out"), &format!("hdr={} outside", ver_class(&pf)));
    } else {
        ctx.stat("cls.in");
        ctx.op(&format!("ptr.parse off={off} len={len} cls=in"), &pf_line(&pf));
        ctx.op(&format!("ptr.sniff off={off} len={len}"), &(is_xet_pointer_file(&doc.text) as u8).to_string());
        if with_path {
            let pp = probe.probe(&doc.text);
            ctx.op(&format!("ptr.path off={off} len={len}"), &pf_line(&pp));
            ctx.stat("path-probe");
        }
    }
    // monitors on the implementation
    if pf.is_valid() && pf.filesize() > i64::MAX as u64 {
        ctx.fail("C01", "pointer-size-range", format!("a valid pointer carries filesize {} > i64::MAX: {}", pf.filesize(), esc(&doc.text)), replay(ctx, &doc.text));
    }
    if pf.is_valid() {
        if pf.hash().is_ok() { ctx.stat("parse.accepted"); } else { ctx.stat("parse.valid-but-bad-hash"); }
        match quiet_catch(|| pf.to_string()) {
            Ok(t2) => {
                let pf2 = PointerFile::init_from_string(&t2, "");
                if pf2 != pf {
                    ctx.fail("C01", "pointer-roundtrip", format!("re-rendering the valid pointer parsed from {} gives {} which parses to a different value", esc(&doc.text), esc(t2.as_bytes())), replay(ctx, &doc.text));
                }
                ctx.stat("rerender");
            }
            Err(()) => ctx.fail("C01", "pointer-roundtrip", format!("to_string panicked on the valid pointer parsed from {}", esc(&doc.text)), replay(ctx, &doc.text)),
        }
    }
}

pub fn run(ctx: &mut Ctx) {
    let quick = ctx.quick();
    let mut rng = ctx.rng.fork(0x707472);
    let mut probe = PathProbe::new();
    assert_eq!(POINTER_FILE_LIMIT, 150, "POINTER_FILE_LIMIT changed: update XetModel/Pointer.lean");

    // (a) rendered pointers -----------------------------------------------------------------------------
    let n_render = if quick { 400 } else { 6000 };
    let mut seen: HashMap<Vec<u8>, (MerkleHash, u64)> = HashMap::new();
    let mut pool: Vec<(MerkleHash, u64)> = Vec::new();
    for i in 0..n_render {
        let (h, size) = if i < EXTREME_SIZES.len() as u64 * 2 {
            (if i % 2 == 0 { gen_hash(&mut rng) } else { MerkleHash::from([rng.next(), rng.next(), rng.next(), rng.next()]) }, EXTREME_SIZES[(i / 2) as usize])
        } else if !pool.is_empty() && rng.chance(1, 4) {
            // a neighbour of an earlier pair: injectivity must separate them
            let (ph, ps) = *rng.pick(&pool);
            match rng.below(4) {
                0 => (ph, ps.wrapping_add(1)),
                1 => (ph, ps.wrapping_mul(10)),
                2 => { let mut w = [ph[0], ph[1], ph[2], ph[3]]; w[rng.below(4) as usize] ^= 1u64 << rng.below(64); (MerkleHash::from(w), ps) }
                _ => (MerkleHash::from([ph[1], ph[0], ph[3], ph[2]]), ps),
            }
        } else {
            (gen_hash(&mut rng), gen_size(&mut rng))
        };
        pool.push((h, size));
        let hex = h.hex();
        let pf = PointerFile::init_from_info("", &hex, size);
        let line = format!("ptr.render hash={hex} size={size}");
        let text = match quiet_catch(|| pf.to_string()) {
            Ok(t) => t,
            Err(()) => {
                // `assert!(self.filesize <= i64::MAX as u64)` in `Display`: sizes >= 2^63 cannot be rendered
                ctx.op(&line, "panic");
                ctx.stat(if size > i64::MAX as u64 { "render.panic.size>=2^63" } else { "render.panic.other" });
                if size <= i64::MAX as u64 {
                    ctx.fail("C01", "pointer-roundtrip", format!("to_string panicked for hash {hex} size {size}"), format!("{{\"suite\":\"pointer\",\"seed\":{},\"hash\":\"{hex}\",\"size\":{size}}}", ctx.seed));
                }
                continue;
            }
        };
        ctx.op(&line, &format!("text={}", esc(text.as_bytes())));
        ctx.stat("render.ok");
        ctx.stat(&format!("render.digits.{:02}", size.to_string().len()));
        ctx.case(fnv(text.as_bytes()), true);
        let rj = format!("{{\"suite\":\"pointer\",\"seed\":{},\"hash\":\"{hex}\",\"size\":{size}}}", ctx.seed);
        // C01 round trip on the implementation
        let back = PointerFile::init_from_string(&text, "");
        let ok = back.is_valid() && back.hash().ok() == Some(h) && back.filesize() == size && back.hash_string() == &hex && back == pf;
        if !ok {
            ctx.fail("C01", "pointer-roundtrip", format!("parse(render(hash={hex}, size={size})) = (valid={}, hash={}, size={}), text {}", back.is_valid(), back.hash_string(), back.filesize(), esc(text.as_bytes())), rj.clone());
        }
        // C01 sniffing
        if !is_xet_pointer_file(text.as_bytes()) || text.len() >= POINTER_FILE_LIMIT {
            ctx.fail("C01", "pointer-sniff", format!("rendered pointer for hash={hex} size={size} ({} bytes) is not recognised by is_xet_pointer_file / not below POINTER_FILE_LIMIT", text.len()), rj.clone());
        }
        // C03 injectivity
        if let Some((h0, s0)) = seen.get(text.as_bytes()) {
            if (*h0, *s0) != (h, size) {
                ctx.fail("C03", "pointer-not-injective", format!("(hash={}, size={s0}) and (hash={hex}, size={size}) render to the same pointer text {}", h0.hex(), esc(text.as_bytes())), rj.clone());
            }
        } else {
            seen.insert(text.as_bytes().to_vec(), (h, size));
        }
        let doc = Doc { text: text.into_bytes(), out: false, tags: vec!["rendered"] };
        check_text(ctx, &mut probe, &doc, i % 16 == 0);
    }

    // (b) mutation stream -------------------------------------------------------------------------------
    let n_mut = if quick { 2500 } else { 40000 };
    for i in 0..n_mut {
        let h = gen_hash(&mut rng);
        let size = if rng.chance(1, 2) { rng.next() >> 1 >> rng.below(63) } else { gen_size(&mut rng) };
        let doc = if rng.chance(1, 4) { gen_bytes_mutation(&mut rng, &h.hex(), size) } else { gen_doc(&mut rng, &h.hex(), size) };
        let padded = doc.tags.contains(&"padded");
        check_text(ctx, &mut probe, &doc, padded || i % 24 == 0);
    }
    // fixed corner texts
    for t in [&b""[..], b"\n", b"\r\n", b"# xet version 0", b"# xet version 0\n", b"# xet version 0\r\n", b"# xet version 0\r",
              b"# xet version 0\nhash = '12345'\nfilesize = 678", b"# not a xet file\n42 is a number", b"# xet version 0\n42 is a number",
              b"# xet version 0\nfoo = 'bar'", b"# xet version 1.0\nhash = '12345'\nfilesize = 678", b"# invalid pointer file",
              b"# xet version 0\nfilesize = 0x10\nhash = 'ABCDEFABCDEFABCDEFABCDEFABCDEFABCDEFABCDEFABCDEFABCDEFABCDEFABCD'\n"] {
        let doc = Doc { text: t.to_vec(), out: false, tags: vec!["fixed"] };
        check_text(ctx, &mut probe, &doc, true);
    }

    // (c) byte strings that may not be UTF-8: sniffing (and init_from_path) only ---------------------------
    let n_raw = if quick { 300 } else { 4000 };
    for _ in 0..n_raw {
        let h = gen_hash(&mut rng);
        let size = rng.next() >> 1 >> rng.below(63);
        let mut text = format!("# xet version 0\nfilesize = {size}\nhash = '{}'\n# ", h.hex()).into_bytes();
        const SEQS: &[&[u8]] = &[b"\xff", b"\xc0\x80", b"\x80", b"\xc3", b"\xc3\xa9", b"\xe0\x9f\xbf", b"\xe0\xa0\x80", b"\xed\xa0\x80", b"\xed\x9f\xbf",
            b"\xef\xbf\xbf", b"\xf0\x8f\xbf\xbf", b"\xf0\x90\x80\x80", b"\xf4\x8f\xbf\xbf", b"\xf4\x90\x80\x80", b"\xf5\x80\x80\x80", b"\xe2\x82", b"\xf0\x9f\x98",
            b"\xc2\xa0", b"\xc1\xbf", b"\xe1\x80\x80", b"\xee\x80\x80", b"\xf1\x80\x80\x80", b"\xf3\xbf\xbf\xbf", b"\xe2\x28\xa1", b"\xf0\x28\x8c\xbc"];
        let nraw = rng.range(1, 4) as usize;
        let seq: Vec<u8> = if rng.chance(1, 6) { rng.bytes(nraw) } else { rng.pick(SEQS).to_vec() };
        match rng.below(4) {
            0 => text.extend_from_slice(&seq),                                          // inside the trailing comment
            1 => { let p = text.iter().position(|&b| b == b'\'').unwrap() + 1 + rng.below(65) as usize; text.splice(p..p, seq.iter().copied()); } // inside the hash string
            2 => { let p = rng.below(text.len() as u64) as usize; text.splice(p..p, seq.iter().copied()); }
            _ => { text.extend_from_slice(&seq); text.push(b'\n'); }
        }
        // the inserted bytes sit in a comment or a literal string or break a token: all inside the grammar unless they
        // landed next to a quote/number in a way that builds an un-modelled construct: avoid `'` and `T t e E - . :` etc.
        if seq.iter().any(|b| *b < 0x80 && !matches!(*b, b' ' | b'a'..=b'd' | b'f'..=b's' | b'u'..=b'z' | b'0'..=b'9' | b'(' | b')')) { continue; }
        let (off, len) = ctx.blob(&text);
        ctx.op(&format!("ptr.sniff off={off} len={len}"), &(is_xet_pointer_file(&text) as u8).to_string());
        ctx.stat(if std::str::from_utf8(&text).is_ok() { "raw.utf8-ok" } else { "raw.utf8-bad" });
        if rng.chance(1, 6) {
            let pp = probe.probe(&text);
            ctx.op(&format!("ptr.path off={off} len={len}"), &pf_line(&pp));
            ctx.stat("path-probe");
        }
    }
}
