/-
C06 (sensitivity clause) — "Changing, reordering, inserting or dropping any chunk changes the
aggregate hash", in COLLISION-EXTRACTION form: no injectivity of any hash is assumed; from two
different chunk lists with equal aggregate hash the theorems CONSTRUCT a collision of a named
primitive or exhibit one of the explicitly listed degenerate situations.

Model: `XetModel/Merkle.lean` (`casNodeHash`, `fileNodeHash`, `rangeHash`, with the first-wins memo DB
pre-seeded with the zero hash).  Lemmas and the definitions used below: `XetProofs/MerkleSens.lean`:

* `Collision f        := ∃ x y, x ≠ y ∧ f x = f y`
* `LensFunctional cs  := ∀ x ∈ cs, ∀ y ∈ cs, x.1 = y.1 → x.2 = y.2`   (equal hashes carry equal lengths)
* `LeafInRange P a b  := ∃ c ∈ a or b, (c.1 = Hash.zero ∧ c.2 ≠ 0) ∨ ∃ g, c.1 = hashNodeSeq P g`
                         (a leaf the DB cannot tell from the pre-seeded zero node / from an interior node;
                          `hashNodeSeq P g = P.internalHash (g.flatMap nodeText)`)
* `RootLeafLength a b := ∃ h l₁ l₂, a = [(h,l₁)] ∧ b = [(h,l₂)] ∧ l₁ ≠ l₂`
                         (a single chunk is its own root and the root's length is not hashed)
* `InteriorZero P     := ∃ g, hashNodeSeq P g = Hash.zero ∧ sumLen g ≠ 0`  (only in the memo bridge)
* `MemoConsistent P cs`: among the pre-seeded node, the leaves of `cs` and the interior nodes of the
                         memo-free merge of `cs`, equal hashes carry equal lengths.
* `pureRoot P cs`      : `cas_node_hash` recomputed without any DB;  `T`, `build`, `T.hashOf`, `T.leaves`:
                         the free tree view (`T = leaf h len | node children`).
* `dataChunks P ds`    := `ds.map fun d => (P.dataHash d, d.length)`.

Every theorem holds for every choice of the primitives `P : HashPrims`.
-/
import XetProofs.MerkleSens
import XetProps.C06

namespace Xet.Merkle

/-! ### the definitions, restated (definitional unfoldings, for the reader) -/

example {α β : Type} (f : α → β) : Collision f ↔ ∃ x y, x ≠ y ∧ f x = f y := Iff.rfl
example (cs : List (Hash × Nat)) : LensFunctional cs ↔ ∀ x ∈ cs, ∀ y ∈ cs, x.1 = y.1 → x.2 = y.2 := Iff.rfl
example (P : HashPrims) (a b : List (Hash × Nat)) : LeafInRange P a b ↔
    ∃ c, (c ∈ a ∨ c ∈ b) ∧ ((c.1 = Hash.zero ∧ c.2 ≠ 0) ∨ ∃ g : List Node, c.1 = P.internalHash (g.flatMap nodeText)) := Iff.rfl
example (a b : List (Hash × Nat)) : RootLeafLength a b ↔ ∃ h l₁ l₂, a = [(h, l₁)] ∧ b = [(h, l₂)] ∧ l₁ ≠ l₂ := Iff.rfl
example (P : HashPrims) (ds : List Bytes) : dataChunks P ds = ds.map (fun d => (P.dataHash d, d.length)) := rfl
example (P : HashPrims) : InteriorZero P ↔ ∃ g : List Node, P.internalHash (g.flatMap nodeText) = Hash.zero ∧ sumLen g ≠ 0 := Iff.rfl

/-! ### (1) the text form hashed by `hash_node_sequence` is injective -/

/-- `{}` of a `usize` is injective, and prints ASCII digits only (so the terminating LF delimits it). -/
theorem C06_decimal_inj :
    (∀ a b : Nat, decimal a = decimal b → a = b) ∧ (∀ n : Nat, ∀ d ∈ decimal n, 48 ≤ d.toNat ∧ d.toNat ≤ 57) :=
  ⟨fun _ _ h => decimal_inj h, decimal_digits⟩

/-- **`nodeText` is injective**, for one node and for sequences: the line `"{:x} : {}\n"` of a
    child determines its (hash, length) — 64 fixed-width hex characters (`C06_hex_injective`,
    `C06_hex_length`), the separator, a decimal without LF, the LF — and the concatenation of the
    lines determines the sequence of children.  For all nodes / node lists. -/
theorem C06_nodeText_inj :
    (∀ a b : Node, nodeText a = nodeText b → a = b) ∧
    (∀ ns ms : List Node, ns.flatMap nodeText = ms.flatMap nodeText → ns = ms) :=
  ⟨fun _ _ h => nodeText_inj h, fun _ _ h => flatMap_nodeText_inj h⟩

/-- equal digests of two child sequences: the sequences are equal or a collision of the
    internal-node hash is exhibited (the two texts). -/
theorem C06_hashNodeSeq_extract (P : HashPrims) (g g' : List Node) (h : hashNodeSeq P g = hashNodeSeq P g') :
    g = g' ∨ Collision P.internalHash :=
  hashNodeSeq_inj_or P h

/-! ### (2) the free tree view and the memo bridge -/

/-- the tree built over a chunk list (same windows as `merge_one_level`, level by level) has
    exactly the given chunks as its leaves, in order.  For every list, including the empty one. -/
theorem C06_tree_leaves (P : HashPrims) (cs : List (Hash × Nat)) : (build P cs).leaves = cs :=
  leaves_build P cs

/-- the hash of the built tree is the memo-free root (`pureRoot`), for every non-empty list. -/
theorem C06_tree_hash (P : HashPrims) (cs : List (Hash × Nat)) (hne : cs ≠ []) :
    (build P cs).hashOf P = pureRoot P cs :=
  hashOf_build P cs hne

/-- **The memo DB is a pure cache** whenever the finitely many entries it would be shown for `cs`
    (pre-seeded zero node, leaves, interior nodes of the memo-free merge) are consistent:
    then `cas_node_hash` is the hash of the free tree.  For every `P` and every non-empty `cs`. -/
theorem C06_memo_irrelevant (P : HashPrims) (cs : List (Hash × Nat)) (hne : cs ≠ [])
    (h : MemoConsistent P cs) : casNodeHash P cs = (build P cs).hashOf P := by
  rw [casNodeHash_eq_pureRoot P cs h, hashOf_build P cs hne]

/-- the same against `pureRoot`, including the empty list. -/
theorem C06_memo_irrelevant_pure (P : HashPrims) (cs : List (Hash × Nat)) (h : MemoConsistent P cs) :
    casNodeHash P cs = pureRoot P cs :=
  casNodeHash_eq_pureRoot P cs h

/-- **Memo bridge, extraction form.**  When equal chunk hashes carry equal lengths, either
    `cas_node_hash` equals the hash of the free tree, or one of the situations in which the DB is
    *not* a pure cache is exhibited: two different node texts with the same digest; a leaf whose hash
    is the zero hash (with non-zero length) or the digest of a child sequence; a child sequence of
    non-zero length whose digest is the zero hash. -/
theorem C06_memo_bridge (P : HashPrims) (cs : List (Hash × Nat)) (hne : cs ≠ []) (hL : LensFunctional cs) :
    casNodeHash P cs = (build P cs).hashOf P ∨
      Collision P.internalHash ∨ LeafInRange P cs cs ∨ InteriorZero P := by
  rcases memoConsistent_or (P := P) hL with h | h
  · exact Or.inl (C06_memo_irrelevant P cs hne h)
  · exact Or.inr h

/-- hypothesis form of the bridge (`NoLeafInRange` = `¬ LeafInRange`, etc.). -/
theorem C06_memo_bridge_hyp (P : HashPrims) (cs : List (Hash × Nat)) (hne : cs ≠ []) (hL : LensFunctional cs)
    (hN : ¬ LeafInRange P cs cs) (hC : ¬ Collision P.internalHash) (hZ : ¬ InteriorZero P) :
    casNodeHash P cs = (build P cs).hashOf P := by
  rcases C06_memo_bridge P cs hne hL with h | h | h | h
  · exact h
  · exact absurd h hC
  · exact absurd h hN
  · exact absurd h hZ

/-! ### (3) sensitivity -/

/-- sensitivity of the root of the merge (shared by the CAS and FILE routes). -/
theorem C06_sensitivity_root (P : HashPrims) (a b : List (Hash × Nat))
    (hLa : LensFunctional a) (hLb : LensFunctional b) (hna : a ≠ []) (hnb : b ≠ [])
    (h : rootHash P a = rootHash P b) (hab : a ≠ b) :
    Collision P.internalHash ∨ LeafInRange P a b ∨ RootLeafLength a b := by
  by_cases hza : ∀ c ∈ a, c.1 = Hash.zero → c.2 = 0
  · by_cases hzb : ∀ c ∈ b, c.1 = Hash.zero → c.2 = 0
    · rcases rootHash_sens P hLa hLb hza hzb hna hnb h with e | c | r | l
      · exact absurd e hab
      · exact Or.inl c
      · exact Or.inr (Or.inl (nodeInRange_leaf r))
      · exact Or.inr (Or.inr l)
    · refine Or.inr (Or.inl ?_)
      have ⟨c, hc⟩ := Classical.not_forall.mp hzb
      have ⟨hc1, hc2⟩ := Classical.not_imp.mp hc
      have ⟨hc2, hc3⟩ := Classical.not_imp.mp hc2
      exact ⟨c, Or.inr hc1, Or.inl ⟨hc2, hc3⟩⟩
  · refine Or.inr (Or.inl ?_)
    have ⟨c, hc⟩ := Classical.not_forall.mp hza
    have ⟨hc1, hc2⟩ := Classical.not_imp.mp hc
    have ⟨hc2, hc3⟩ := Classical.not_imp.mp hc2
    exact ⟨c, Or.inl hc1, Or.inl ⟨hc2, hc3⟩⟩

/-- **C06 sensitivity (xorb / CAS hash).**  For every `P` and all non-empty chunk lists `a ≠ b`
    (a changed, reordered, inserted or dropped chunk — anything that makes the lists differ) in
    which equal hashes carry equal lengths: if `cas_node_hash` coincides, then
    * two different byte strings with the same internal-node hash are exhibited, or
    * some chunk hash of `a` or `b` is the zero hash (with non-zero length) or the internal-node
      hash of some node text (a leaf indistinguishable from an interior node), or
    * both lists are one chunk with the same hash and different lengths (a single leaf is its own
      root, and the root's length is not hashed). -/
theorem C06_sensitivity (P : HashPrims) (a b : List (Hash × Nat))
    (hLa : LensFunctional a) (hLb : LensFunctional b) (hna : a ≠ []) (hnb : b ≠ [])
    (h : casNodeHash P a = casNodeHash P b) (hab : a ≠ b) :
    Collision P.internalHash ∨ LeafInRange P a b ∨ RootLeafLength a b := by
  unfold casNodeHash at h
  rw [if_neg (by simpa using hna), if_neg (by simpa using hnb)] at h
  exact C06_sensitivity_root P a b hLa hLb hna hnb h hab

/-- **C06 sensitivity (file hash).**  As `C06_sensitivity` for `file_node_hash` with any salt; the
    additional way out is a collision of the salting primitive `keyed salt` (on two different
    32-byte messages, the byte views of two different roots). -/
theorem C06_sensitivity_file (P : HashPrims) (salt : Bytes) (a b : List (Hash × Nat))
    (hLa : LensFunctional a) (hLb : LensFunctional b) (hna : a ≠ []) (hnb : b ≠ [])
    (h : fileNodeHash P a salt = fileNodeHash P b salt) (hab : a ≠ b) :
    Collision (P.keyed salt) ∨ Collision P.internalHash ∨ LeafInRange P a b ∨ RootLeafLength a b := by
  unfold fileNodeHash withSalt at h
  rw [if_neg (by simpa using hna), if_neg (by simpa using hnb)] at h
  by_cases e : rootHash P a = rootHash P b
  · exact Or.inr (C06_sensitivity_root P a b hLa hLb hna hnb e hab)
  · exact Or.inl ⟨_, _, fun hb => e (toBytes_inj hb), h⟩

/-- **C06 sensitivity (range / verification hash).**  Two different lists of chunk hashes with the
    same `range_hash_from_chunks` exhibit a collision of the verification hash (the concatenation of
    fixed 32-byte blocks is injective).  For all lists, including empty ones. -/
theorem C06_sensitivity_range (P : HashPrims) (hs hs' : List Hash)
    (h : rangeHash P hs = rangeHash P hs') (hne : hs ≠ hs') : Collision P.verifyHash :=
  ⟨_, _, fun e => hne (flatMap_toBytes_inj e), h⟩

/-- **`LensFunctional` holds for real chunk lists, or `dataHash` collides**: for lists of the form
    `(dataHash d, |d|)`, two entries with equal hash and different length are two different byte
    strings with the same data hash. -/
theorem C06_lens_functional_data (P : HashPrims) (ds : List Bytes) :
    LensFunctional (dataChunks P ds) ∨ Collision P.dataHash := by
  by_cases h : Collision P.dataHash
  · exact Or.inr h
  · refine Or.inl ?_
    intro x hx y hy e
    obtain ⟨d, _, ed⟩ := List.mem_map.mp hx
    obtain ⟨d', _, ed'⟩ := List.mem_map.mp hy
    subst ed; subst ed'
    simp only at e ⊢
    by_cases hd : d = d'
    · rw [hd]
    · exact absurd ⟨d, d', hd, e⟩ h

/-- **C06 sensitivity for real chunk data.**  Two different non-empty sequences of chunk contents
    whose xorb hashes coincide exhibit a collision of the data hash or of the internal-node hash, or
    a chunk whose data hash is the zero hash / an internal-node hash.  (`LensFunctional` and the
    single-leaf case are discharged: their failure is a `dataHash` collision.) -/
theorem C06_sensitivity_data (P : HashPrims) (da db : List Bytes) (hna : da ≠ []) (hnb : db ≠ [])
    (h : casNodeHash P (dataChunks P da) = casNodeHash P (dataChunks P db)) (hab : da ≠ db) :
    Collision P.dataHash ∨ Collision P.internalHash ∨ LeafInRange P (dataChunks P da) (dataChunks P db) := by
  rcases C06_lens_functional_data P da with hLa | c
  · rcases C06_lens_functional_data P db with hLb | c
    · by_cases e : dataChunks P da = dataChunks P db
      · rcases dataChunks_inj_or P e with e' | c
        · exact absurd e' hab
        · exact Or.inl c
      · rcases C06_sensitivity P _ _ hLa hLb (by cases da <;> simp_all [dataChunks])
          (by cases db <;> simp_all [dataChunks]) h e with c | l | ⟨hh, l1, l2, ea, eb, hl⟩
        · exact Or.inr (Or.inl c)
        · exact Or.inr (Or.inr l)
        · cases da with
          | nil => exact absurd rfl hna
          | cons x da =>
          cases db with
          | nil => exact absurd rfl hnb
          | cons y db =>
            simp only [dataChunks, List.map_cons, List.cons.injEq, Prod.mk.injEq, List.map_eq_nil_iff] at ea eb
            refine Or.inl ⟨x, y, ?_, by rw [ea.1.1, eb.1.1]⟩
            intro exy; subst exy
            exact hl (by rw [← ea.1.2, ← eb.1.2])
    · exact Or.inl c
  · exact Or.inl c

/-! ### Non-vacuity and the degenerate cases, on concrete data -/

/-- a toy instance: the internal-node hash records length and byte sum of the text -/
def toyP : HashPrims :=
  ⟨fun b => ⟨1, 0, 0, UInt64.ofNat b.length⟩,
   fun b => ⟨2, 0, UInt64.ofNat b.length, UInt64.ofNat (b.foldl (fun a x => a + x.toNat) 0)⟩,
   fun _ => Hash.zero, fun _ _ => Hash.zero⟩

def toyChunks (n : Nat) : List (Hash × Nat) := (List.range n).map fun i => (⟨1, 2, 3, UInt64.ofNat (i * 3)⟩, i + 1)

/-- the hypotheses of `C06_sensitivity` are satisfiable: 10 chunks vs. the same with two swapped,
    under a constant internal hash (so the aggregate hashes do coincide and the theorem hands out the
    collision). -/
example :
    let P : HashPrims := ⟨fun _ => Hash.zero, fun _ => ⟨9, 9, 9, 9⟩, fun _ => Hash.zero, fun _ _ => Hash.zero⟩
    let a := toyChunks 10
    let b := (toyChunks 10).reverse
    LensFunctional a ∧ LensFunctional b ∧ a ≠ [] ∧ b ≠ [] ∧ casNodeHash P a = casNodeHash P b ∧ a ≠ b := by
  simp only [LensFunctional]
  decide +kernel

/-- … and for a hash that tells texts apart, reordering / dropping / changing does change the hash. -/
example : casNodeHash toyP (toyChunks 10) ≠ casNodeHash toyP (toyChunks 10).reverse := by decide +kernel
example : casNodeHash toyP (toyChunks 10) ≠ casNodeHash toyP (toyChunks 9) := by decide +kernel
example : casNodeHash toyP (toyChunks 10) ≠ casNodeHash toyP ((⟨1, 2, 3, 5⟩, 1) :: (toyChunks 10).drop 1) := by
  decide +kernel

/-- the memo DB is a pure cache on a concrete 3-level tree: `MemoConsistent` holds (decided), hence
    `cas_node_hash` = hash of the free tree. -/
example : MemoConsistent toyP (toyChunks 20) := by
  simp only [MemoConsistent, LensFunctional]
  decide +kernel

example : casNodeHash toyP (toyChunks 14) = (build toyP (toyChunks 14)).hashOf toyP ∧
    (build toyP (toyChunks 14)).leaves = toyChunks 14 := by
  decide +kernel

/-- **`RootLeafLength` is real**: a single chunk is its own root; its length is not hashed. -/
example : casNodeHash toyP [(⟨1, 2, 3, 4⟩, 5)] = casNodeHash toyP [(⟨1, 2, 3, 4⟩, 7)] ∧
    RootLeafLength [(⟨1, 2, 3, 4⟩, 5)] [(⟨1, 2, 3, 4⟩, 7)] := by
  refine ⟨by decide +kernel, ⟨_, 5, 7, rfl, rfl, by decide⟩⟩

/-- **the memo case is real** (why `LensFunctional` is a hypothesis): `[(h,5),(h,7)]` and
    `[(h,5),(h,5)]` hash alike in the model as in the code — the DB answers the repeated hash with the
    first length — although the toy hash tells the two memo-free texts apart. -/
example :
    let h : Hash := ⟨1, 2, 3, 4⟩
    casNodeHash toyP [(h, 5), (h, 7)] = casNodeHash toyP [(h, 5), (h, 5)] ∧
    pureRoot toyP [(h, 5), (h, 7)] ≠ pureRoot toyP [(h, 5), (h, 5)] ∧
    ¬ LensFunctional [(h, 5), (h, 7)] := by
  simp only [LensFunctional]
  decide +kernel

/-- **`InteriorZero` is real** (why the memo bridge lists it): if the digest of the first window is
    the zero hash, the DB answers with the pre-seeded length 0 and the root differs from the
    memo-free one. -/
example :
    let P : HashPrims := ⟨fun _ => Hash.zero,
      fun b => if b.length = 207 then Hash.zero else ⟨2, 0, 0, UInt64.ofNat (b.foldl (fun a x => a + x.toNat) 0)⟩,
      fun _ => Hash.zero, fun _ _ => Hash.zero⟩
    let cs : List (Hash × Nat) := [(⟨1, 0, 0, 0⟩, 1), (⟨2, 0, 0, 0⟩, 2), (⟨3, 0, 0, 0⟩, 3), (⟨4, 0, 0, 0⟩, 4)]
    LensFunctional cs ∧ casNodeHash P cs ≠ pureRoot P cs := by
  simp only [LensFunctional]
  decide +kernel

/-- **the zero-hash case of `LeafInRange` is real**: a leaf carrying the zero hash is answered with the
    pre-seeded length 0, so the list hashes like the one in which that chunk has length 0. -/
example : casNodeHash toyP [(Hash.zero, 9), (⟨1, 2, 3, 4⟩, 1)] = casNodeHash toyP [(Hash.zero, 0), (⟨1, 2, 3, 4⟩, 1)] := by
  decide +kernel

end Xet.Merkle
